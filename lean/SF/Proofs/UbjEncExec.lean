/-
  The UBJSON encoder mirror (SF/Ubjson/Enc.lean), execution level:

   * fault injection (C16): `Clean`, `exec_clean`, `step_clean`, `run_clean`, and the
     "nothing is attempted after the failed Write" invariant `Stopped`;
   * a never-failing writer: `exec` of ANY action list is `emits (writesOf acts)` on the writer and
     `lenAfter` on the length stack (`exec_ok`);
   * which action lists consist of writes only (`isWrites`) — all scalar helpers;
   * the events of an event tree (`ETree`, ANY tree — not only contract-conforming ones) write
     `chunks t`, a function of the tree only, and restore the length stack (`enc_tree`).
-/
import SF.Ubjson.Enc
import SF.Proofs.Tree
namespace SF.Ubjson.Enc
open SF SF.Ubjson

/-! ## C16: a failing writer -/

/-- no Write call has failed so far -/
def Clean (w : Writer) : Prop := ∀ k, w.failFrom = some k → w.calls ≤ k

/-- at most one Write call has failed: the failed call (index `k`) was the last one attempted -/
def Stopped (w : Writer) : Prop := ∀ k, w.failFrom = some k → w.calls ≤ k + 1

theorem Clean.stopped {w : Writer} (h : Clean w) : Stopped w := fun k hk => Nat.le_succ_of_le (h k hk)

theorem write_clean (w : Writer) (b : Bytes) (h : Clean w) :
    ((w.write b).2 = true ↔ Clean (w.write b).1) ∧ (w.write b).1.failFrom = w.failFrom ∧
      Stopped (w.write b).1 := by
  unfold Writer.write
  cases hf : w.failFrom with
  | none => simp [Clean, Stopped]
  | some k =>
    have hk := h k hf
    simp only
    split
    · simp [Clean, Stopped]; omega
    · simp [Clean, Stopped]; omega

/-- running the actions of one event: success ⇔ no Write failed; and nothing is attempted after
a failed Write -/
theorem exec_clean (acts : List Act) (s : Enc) (h : Clean s.w) :
    ((exec s acts).2 = true ↔ Clean (exec s acts).1.w) ∧ Stopped (exec s acts).1.w ∧
      (exec s acts).1.w.failFrom = s.w.failFrom := by
  induction acts generalizing s with
  | nil => simp [exec, h, h.stopped]
  | cons a acts ih =>
    cases a with
    | write b =>
      simp only [exec]
      have hw := write_clean s.w b h
      rcases hwr : s.w.write b with ⟨w', ok⟩
      rw [hwr] at hw
      cases ok with
      | true =>
        simp only
        have := ih { s with w := w' } (hw.1.mp rfl)
        exact ⟨this.1, this.2.1, this.2.2.trans hw.2.1⟩
      | false =>
        simp only
        refine ⟨⟨fun hc => by simp at hc, fun hc => absurd (hw.1.mpr hc) (by simp)⟩, hw.2.2, hw.2.1⟩
    | push n => simp only [exec]; exact ih _ h
    | pop => simp only [exec]; exact ih _ h

theorem step_clean (x : XEv) (s : Enc) (h : Clean s.w) :
    ((step s x).2 = true ↔ Clean (step s x).1.w) ∧ Stopped (step s x).1.w ∧
      (step s x).1.w.failFrom = s.w.failFrom :=
  exec_clean _ s h

/-- the run, with the index of the failing event made explicit -/
theorem run_go_clean (xs : List XEv) (s : Enc) (i : Nat) (h : Clean s.w) :
    ((run.go s i xs).2 = none ↔ Clean (run.go s i xs).1.w) ∧ Stopped (run.go s i xs).1.w ∧
      (run.go s i xs).1.w.failFrom = s.w.failFrom := by
  induction xs generalizing s i with
  | nil => simp [run.go, h, h.stopped]
  | cons x xs ih =>
    simp only [run.go]
    have hs := step_clean x s h
    rcases hx : step s x with ⟨s1, ok⟩
    rw [hx] at hs
    cases ok with
    | true =>
      simp only
      have := ih s1 (i + 1) (hs.1.mp rfl)
      exact ⟨this.1, this.2.1, this.2.2.trans hs.2.2⟩
    | false =>
      simp only
      exact ⟨⟨fun hc => by simp at hc, fun hc => absurd (hs.1.mpr hc) (by simp)⟩, hs.2.1, hs.2.2⟩

/-- `run.go` only shifts the reported index -/
theorem run_go_index (xs : List XEv) (s : Enc) (i : Nat) :
    run.go s i xs = ((run.go s 0 xs).1, (run.go s 0 xs).2.map (· + i)) := by
  induction xs generalizing s i with
  | nil => simp [run.go]
  | cons x xs ih =>
    simp only [run.go]
    rcases hx : step s x with ⟨s1, ok⟩
    cases ok with
    | true =>
      simp only
      rw [ih s1 (i + 1), ih s1 (0 + 1)]
      cases (run.go s1 0 xs).2 with
      | none => rfl
      | some j => simp only [Option.map_some]; congr 2; omega
    | false => simp

/-- the anatomy of a failing run: the events before index `i` all succeeded (no Write failed),
event `i` is the one whose own Write failed and that returned the error, and the run's final
state is the state that event left behind (nothing after it was attempted) -/
theorem run_go_failing (xs : List XEv) (s s' : Enc) (i0 i : Nat) (h : Clean s.w)
    (hr : run.go s i0 xs = (s', some i)) :
    ∃ (pre post : List XEv) (x : XEv) (s1 : Enc),
      xs = pre ++ x :: post ∧ i = i0 + pre.length ∧
      run.go s i0 pre = (s1, none) ∧ Clean s1.w ∧
      step s1 x = (s', false) ∧ ¬ Clean s'.w := by
  induction xs generalizing s i0 with
  | nil => simp [run.go] at hr
  | cons x xs ih =>
    simp only [run.go] at hr
    have hs := step_clean x s h
    rcases hx : step s x with ⟨s1, ok⟩
    rw [hx] at hs hr
    cases ok with
    | true =>
      simp only at hr
      obtain ⟨pre, post, y, s2, hxs, hi, hpre, hc, hy, hn⟩ := ih s1 (i0 + 1) (hs.1.mp rfl) hr
      refine ⟨x :: pre, post, y, s2, by simp [hxs], by simp [hi]; omega, ?_, hc, hy, hn⟩
      simp only [run.go, hx, hpre]
    | false =>
      simp only [Prod.mk.injEq, Option.some.injEq] at hr
      obtain ⟨rfl, rfl⟩ := hr
      refine ⟨[], xs, x, s, rfl, by simp, by simp [run.go], h, hx, ?_⟩
      intro hc
      exact absurd (hs.1.mpr hc) (by simp)

/-- a fresh encoder over a writer failing from call k on is `Clean` -/
theorem clean_init (k : Option Nat) : Clean (newVisitor k).w := by
  intro k' _; simp [newVisitor]

/-! ## a never-failing writer -/

/-- the write calls of an action list, in order -/
def writesOf : List Act → List Bytes
  | [] => []
  | .write b :: r => b :: writesOf r
  | .push _ :: r => writesOf r
  | .pop :: r => writesOf r

/-- the length stack after an action list -/
def lenAfter (ls : LenStack) : List Act → LenStack
  | [] => ls
  | .write _ :: r => lenAfter ls r
  | .push n :: r => lenAfter (ls.push n) r
  | .pop :: r => lenAfter (ls.pop).1 r

/-- the action list consists of Write calls only -/
def isWrites : List Act → Bool
  | [] => true
  | .write _ :: r => isWrites r
  | _ => false

@[simp] theorem writesOf_append (a b : List Act) : writesOf (a ++ b) = writesOf a ++ writesOf b := by
  induction a with
  | nil => rfl
  | cons x a ih => cases x <;> simp [writesOf, ih]

theorem lenAfter_append (ls : LenStack) (a b : List Act) :
    lenAfter ls (a ++ b) = lenAfter (lenAfter ls a) b := by
  induction a generalizing ls with
  | nil => rfl
  | cons x a ih => cases x <;> simp [lenAfter, ih]

@[simp] theorem isWrites_append (a b : List Act) : isWrites (a ++ b) = (isWrites a && isWrites b) := by
  induction a with
  | nil => simp [isWrites]
  | cons x a ih => cases x <;> simp [isWrites, ih]

theorem lenAfter_isWrites (ls : LenStack) (a : List Act) (h : isWrites a = true) : lenAfter ls a = ls := by
  induction a with
  | nil => rfl
  | cons x a ih => cases x <;> simp_all [isWrites, lenAfter]

theorem isWrites_flatMap {α : Type} (xs : List α) (f : α → List Act) (h : ∀ a, isWrites (f a) = true) :
    isWrites (xs.flatMap f) = true := by
  induction xs with
  | nil => rfl
  | cons a xs ih => simp [List.flatMap_cons, h a, ih]

theorem writesOf_flatMap {α : Type} (xs : List α) (f : α → List Act) :
    writesOf (xs.flatMap f) = xs.flatMap (fun a => writesOf (f a)) := by
  induction xs with
  | nil => rfl
  | cons a xs ih => simp [List.flatMap_cons, ih]

/-- the state after `cs` successful Write calls -/
def Enc.emits (s : Enc) (cs : List Bytes) : Enc :=
  { s with w := { s.w with chunks := cs.reverse ++ s.w.chunks, calls := s.w.calls + cs.length } }

@[simp] theorem emits_length (s : Enc) (cs : List Bytes) : (s.emits cs).length = s.length := rfl
@[simp] theorem emits_failFrom (s : Enc) (cs : List Bytes) : (s.emits cs).w.failFrom = s.w.failFrom := rfl
@[simp] theorem emits_nil (s : Enc) : s.emits [] = s := by simp [Enc.emits]
theorem emits_emits (s : Enc) (a b : List Bytes) : (s.emits a).emits b = s.emits (a ++ b) := by
  simp [Enc.emits, List.append_assoc, Nat.add_assoc]

/-- what was written: the old output followed by the new chunks -/
theorem emits_out (s : Enc) (cs : List Bytes) : (s.emits cs).w.out = s.w.out ++ cs.flatten := by
  simp [Enc.emits, Writer.out]

theorem write_ok {s : Enc} (hf : s.w.failFrom = none) (b : Bytes) :
    s.w.write b = ((s.emits [b]).w, true) := by
  simp [Writer.write, hf, Enc.emits]

/-- EVERY action list on a never-failing writer: the writes are appended in order, the length
stack follows the pushes and pops -/
theorem exec_ok (acts : List Act) (s : Enc) (hf : s.w.failFrom = none) :
    exec s acts = ({ w := (s.emits (writesOf acts)).w, length := lenAfter s.length acts }, true) := by
  induction acts generalizing s with
  | nil => simp [exec, writesOf, lenAfter]
  | cons a acts ih =>
    cases a with
    | write b =>
      simp only [exec, write_ok hf, writesOf, lenAfter]
      have e : ({ s with w := (s.emits [b]).w } : Enc) = s.emits [b] := rfl
      rw [e, ih _ (by simpa using hf), emits_emits]
      rfl
    | push n =>
      simp only [exec, writesOf, lenAfter]
      exact ih _ hf
    | pop =>
      simp only [exec, writesOf, lenAfter]
      exact ih _ hf

theorem run_go_cons (s : Enc) (i : Nat) (x : XEv) (xs : List XEv) :
    run.go s i (x :: xs) =
      match step s x with
      | (s', true) => run.go s' (i + 1) xs
      | (s', false) => (s', some i) := rfl

/-! ## the scalar helpers only write -/

theorem isWrites_markerAct (m : Bool) (b : UInt8) : isWrites (markerAct m b) = true := by
  cases m <;> rfl
theorem isWrites_int8 (i : Int) (m : Bool) : isWrites (int8 i m) = true := by
  simp [int8, isWrites_markerAct, writeByte, isWrites]
theorem isWrites_uint8 (i : Int) (m : Bool) : isWrites (uint8 i m) = true := by
  cases m <;> simp [uint8, writeByte, isWrites]
theorem isWrites_int16 (i : Int) (m : Bool) : isWrites (int16 i m) = true := by
  simp [int16, isWrites_markerAct, isWrites]
theorem isWrites_int32 (i : Int) (m : Bool) : isWrites (int32 i m) = true := by
  simp [int32, isWrites_markerAct, isWrites]
theorem isWrites_int64 (i : Int) (m : Bool) : isWrites (int64 i m) = true := by
  simp [int64, isWrites_markerAct, isWrites]
theorem isWrites_onInt (i : Int) (m : Bool) : isWrites (onInt i m) = true := by
  unfold onInt
  split
  · exact isWrites_int8 ..
  · split
    · exact isWrites_uint8 ..
    · split
      · exact isWrites_int16 ..
      · split
        · exact isWrites_int32 ..
        · exact isWrites_int64 ..
theorem isWrites_onInt16 (i : Int) : isWrites (onInt16 i) = true := by
  unfold onInt16; split
  · exact isWrites_int8 ..
  · exact isWrites_int16 ..
theorem isWrites_onInt32 (i : Int) : isWrites (onInt32 i) = true := by
  unfold onInt32; split
  · exact isWrites_onInt16 ..
  · exact isWrites_int32 ..
theorem isWrites_onInt64 (i : Int) : isWrites (onInt64 i) = true := by
  unfold onInt64; split
  · exact isWrites_onInt32 ..
  · exact isWrites_int64 ..
theorem isWrites_writeLen (l : Int) : isWrites (writeLen l) = true := isWrites_onInt l true
theorem isWrites_string (s : Bytes) (m : Bool) : isWrites (string s m) = true := by
  unfold string
  simp only [isWrites_append, isWrites_markerAct, isWrites_writeLen, Bool.true_and]
  split <;> rfl
theorem isWrites_uint64HighPrec (u : Nat) (m : Bool) : isWrites (uint64HighPrec u m) = true := by
  simp [uint64HighPrec, isWrites_markerAct, isWrites_writeLen, isWrites]
theorem isWrites_uint64 (u : Nat) (t : UInt8) (m : Bool) : isWrites (uint64 u t m) = true := by
  unfold uint64
  split
  · exact isWrites_int8 ..
  · split
    · exact isWrites_uint8 ..
    · split
      · exact isWrites_int16 ..
      · split
        · exact isWrites_int32 ..
        · split
          · exact isWrites_int64 ..
          · exact isWrites_uint64HighPrec ..
theorem isWrites_float32 (b : UInt32) (m : Bool) : isWrites (float32 b m) = true := by
  simp [float32, isWrites_markerAct, isWrites]
theorem isWrites_float64 (b : UInt64) (m : Bool) : isWrites (float64 b m) = true := by
  simp [float64, isWrites_markerAct, isWrites]
theorem isWrites_onBool (b : Bool) : isWrites (onBool b) = true := rfl

/-- a basic event that is not a container start / end only writes -/
theorem isWrites_scalarActs (e : Ev) : isWrites (scalarActs e) = true := by
  cases e with
  | null => rfl
  | bool b => rfl
  | str s => exact isWrites_string s true
  | key s => exact isWrites_string s false
  | num k v =>
    cases k
    · exact isWrites_int8 v true
    · exact isWrites_onInt16 v
    · exact isWrites_onInt32 v
    · exact isWrites_onInt64 v
    · exact isWrites_onInt v true
    · exact isWrites_uint8 v true
    · exact isWrites_uint64 ..
    · exact isWrites_uint64 ..
    · exact isWrites_uint64 ..
    · exact isWrites_uint64 ..
    · rfl
  | f32 b => exact isWrites_float32 b true
  | f64 b => exact isWrites_float64 b true
  | arrStart _ _ => rfl
  | arrEnd => rfl
  | objStart _ _ => rfl
  | objEnd => rfl

/-- one event whose actions are writes only, on a never-failing writer -/
theorem step_writes (s : Enc) (hf : s.w.failFrom = none) (x : XEv) (a : List Act)
    (ha : acts s.length x = a) (hw : isWrites a = true) :
    step s x = (s.emits (writesOf a), true) := by
  rw [step, ha, exec_ok _ _ hf, lenAfter_isWrites _ _ hw]
  rfl

theorem push_pop (ls : LenStack) (l : Int) : (ls.push l).pop = (ls, l) := by
  cases ls; simp [SF.Cbor.LenStack.push, SF.Cbor.LenStack.pop]

/-! ## the writes of an event tree -/

/-- writes of `OnArrayStart(len)` / `OnObjectStart(len)` after the opening marker -/
def startChunks (m : UInt8) (len : Int) : List Bytes :=
  [m] :: (if len ≤ 0 then [] else [countMarker] :: writesOf (writeLen len))

/-- writes of `OnArrayFinished` / `OnObjectFinished` -/
def endChunks (m : UInt8) (len : Int) : List Bytes := if len ≤ 0 then [[m]] else []

mutual
/-- the Write calls the encoder issues for the events of a tree -/
def chunks : ETree → List Bytes
  | .null => writesOf (scalarActs .null)
  | .bool b => writesOf (scalarActs (.bool b))
  | .str s => writesOf (scalarActs (.str s))
  | .num k v => writesOf (scalarActs (.num k v))
  | .f32 b => writesOf (scalarActs (.f32 b))
  | .f64 b => writesOf (scalarActs (.f64 b))
  | .arr len _ xs => startChunks arrStartMarker len ++ (chunksList xs ++ endChunks arrEndMarker len)
  | .obj len _ ms => startChunks objStartMarker len ++ (chunksMems ms ++ endChunks objEndMarker len)
def chunksList : List ETree → List Bytes
  | [] => []
  | x :: xs => chunks x ++ chunksList xs
def chunksMems : List (Bytes × ETree) → List Bytes
  | [] => []
  | (k, v) :: ms => writesOf (scalarActs (.key k)) ++ (chunks v ++ chunksMems ms)
end

theorem step_start (s : Enc) (hf : s.w.failFrom = none) (m : UInt8) (len : Int) (x : XEv)
    (ha : acts s.length x = writeByte m ++ optionalCount len) :
    step s x = ({ (s.emits (startChunks m len)) with length := s.length.push len }, true) := by
  rw [step, ha, exec_ok _ _ hf]
  simp only [writeByte, optionalCount, List.cons_append, List.nil_append, writesOf, lenAfter, startChunks]
  split
  · rfl
  · simp only [writesOf, lenAfter]
    rw [lenAfter_isWrites _ _ (isWrites_writeLen len)]

theorem step_end (s : Enc) (hf : s.w.failFrom = none) (ls : LenStack) (m : UInt8) (len : Int) (x : XEv)
    (hl : s.length = ls.push len) (ha : acts s.length x = onFinished (s.length.pop).2 m) :
    step s x = ({ (s.emits (endChunks m len)) with length := ls }, true) := by
  rw [step, ha, exec_ok _ _ hf, hl, push_pop]
  simp only [onFinished, writesOf, lenAfter, push_pop, endChunks]
  split <;> rfl

/-- a leaf event -/
theorem run_go_scalar (s : Enc) (hf : s.w.failFrom = none) (e : Ev) (i : Nat) (more : List XEv)
    (ha : ∀ ls, acts ls (.ev e) = scalarActs e) :
    run.go s i (.ev e :: more) = run.go (s.emits (writesOf (scalarActs e))) (i + 1) more := by
  rw [run_go_cons, step_writes s hf (.ev e) _ (ha _) (isWrites_scalarActs e)]

mutual
/-- ENCODER, ONE TREE: the events of ANY tree make a never-failing encoder issue exactly the
writes `chunks t` — whatever its state — and leave the length stack as it was -/
theorem enc_tree (t : ETree) (s : Enc) (hf : s.w.failFrom = none) (i : Nat) (more : List XEv) :
    run.go s i (t.events.map XEv.ev ++ more) = run.go (s.emits (chunks t)) (i + t.events.length) more := by
  match t with
  | .null => exact run_go_scalar s hf .null i more (fun _ => rfl)
  | .bool b => exact run_go_scalar s hf (.bool b) i more (fun _ => rfl)
  | .str b => exact run_go_scalar s hf (.str b) i more (fun _ => rfl)
  | .num k v => exact run_go_scalar s hf (.num k v) i more (fun _ => rfl)
  | .f32 b => exact run_go_scalar s hf (.f32 b) i more (fun _ => rfl)
  | .f64 b => exact run_go_scalar s hf (.f64 b) i more (fun _ => rfl)
  | .arr len bt xs =>
    simp only [ETree.events, List.map_cons, List.map_append, List.cons_append, List.append_assoc,
      List.map_nil, List.nil_append]
    rw [run_go_cons, step_start s hf arrStartMarker len _ rfl]
    simp only
    rw [enc_list xs _ (by simpa using hf), run_go_cons,
      step_end _ (by simpa using hf) s.length arrEndMarker len _ rfl rfl]
    simp only [chunks, List.length_cons, List.length_append, List.length_nil]
    congr 1
    · simp [Enc.emits, List.append_assoc, Nat.add_assoc]
    · omega
  | .obj len bt ms =>
    simp only [ETree.events, List.map_cons, List.map_append, List.cons_append, List.append_assoc,
      List.map_nil, List.nil_append]
    rw [run_go_cons, step_start s hf objStartMarker len _ rfl]
    simp only
    rw [enc_mems ms _ (by simpa using hf), run_go_cons,
      step_end _ (by simpa using hf) s.length objEndMarker len _ rfl rfl]
    simp only [chunks, List.length_cons, List.length_append, List.length_nil]
    congr 1
    · simp [Enc.emits, List.append_assoc, Nat.add_assoc]
    · omega

theorem enc_list (xs : List ETree) (s : Enc) (hf : s.w.failFrom = none) (i : Nat) (more : List XEv) :
    run.go s i ((ETree.eventsList xs).map XEv.ev ++ more) =
      run.go (s.emits (chunksList xs)) (i + (ETree.eventsList xs).length) more := by
  match xs with
  | [] => simp [ETree.eventsList, chunksList]
  | x :: xs' =>
    simp only [ETree.eventsList, List.map_append, List.append_assoc, chunksList, List.length_append]
    rw [enc_tree x s hf, enc_list xs' _ (by simpa using hf), emits_emits, Nat.add_assoc]

theorem enc_mems (ms : List (Bytes × ETree)) (s : Enc) (hf : s.w.failFrom = none) (i : Nat) (more : List XEv) :
    run.go s i ((ETree.eventsMems ms).map XEv.ev ++ more) =
      run.go (s.emits (chunksMems ms)) (i + (ETree.eventsMems ms).length) more := by
  match ms with
  | [] => simp [ETree.eventsMems, chunksMems]
  | (k, v) :: ms' =>
    simp only [ETree.eventsMems, List.map_cons, List.map_append, List.cons_append, List.append_assoc,
      chunksMems, List.length_cons, List.length_append]
    rw [run_go_scalar s hf (.key k) i _ (fun _ => rfl), enc_tree v _ (by simpa using hf),
      enc_mems ms' _ (by simpa using hf), emits_emits, emits_emits]
    congr 1
    omega
end

end SF.Ubjson.Enc
