/-
  C03 no-hang (UBJSON): how the feedUntil loop ends; the outer loop of `feed` never runs out
  of its own fuel; `finalize` neither; Parse / Write* can only run out of fuel after a
  million events.
-/
import SF.Proofs.UbjProgDone
namespace SF.Ubjson.Parse
open SF SF.Ubjson
open StateType StateStep

/-! ## the loop of feedUntil: how it can end -/

theorem Cons.trans {p q : P} {b c : Bytes} {r : R} (h1 : Cons p b ⟨q, c, false, none⟩) (h2 : Cons q c r) : Cons p b r :=
  ⟨by have := h1.1; have := h2.1; simp only at *; omega, by have := h1.2; have := h2.2; simp only at *; omega⟩

theorem feedUntil_cons (f : Nat) (p : P) (b : Bytes) : Cons p b (feedUntil f p b) := by
  induction f generalizing p b with
  | zero => exact ⟨Nat.le_refl _, Nat.le_refl _⟩
  | succ f ih =>
    simp only [feedUntil]
    have h1 := execStep_cons p b
    split
    · split
      · exact h1
      · have h2 := ih (execStep p b).p (execStep p b).rest
        exact ⟨by have := h1.1; have := h2.1; omega, by have := h1.2; have := h2.2; omega⟩
    · exact ⟨Nat.le_refl _, Nat.le_refl _⟩

/-- without error and without `done`, the loop ends only when the input is used up -/
theorem feedUntil_not_done (f : Nat) (p : P) (b : Bytes) (he : (feedUntil f p b).err = none)
    (hd : (feedUntil f p b).done = false) : (feedUntil f p b).rest = [] := by
  induction f generalizing p b with
  | zero => simp [feedUntil] at he
  | succ f ih =>
    simp only [feedUntil] at he hd ⊢
    split at he
    · rename_i hg
      split at he
      · rename_i hc
        simp only [hg, hc, if_true] at hd ⊢
        simp only [Bool.or_eq_true] at hc
        rcases hc with hc | hc
        · rw [hc] at hd; cases hd
        · rw [he] at hc; cases hc
      · rename_i hc
        simp only [hg, hc, if_true] at hd ⊢
        exact ih _ _ he hd
    · rename_i hg
      simp only [hg]
      cases b with
      | nil => rfl
      | cons x bs => simp at hg

/-- `done` without error: the parser is back at the bottom of its stack -/
theorem feedUntil_done_idle (f : Nat) (p : P) (b : Bytes) (hg : G p) (he : (feedUntil f p b).err = none)
    (hd : (feedUntil f p b).done = true) : (feedUntil f p b).p.state.stack = [] := by
  induction f generalizing p b with
  | zero => simp [feedUntil] at he
  | succ f ih =>
    simp only [feedUntil] at he hd ⊢
    split at he
    · rename_i hgd
      have hgd' : b ≠ [] ∨ pending p = true := by cases b <;> simp_all
      have hs := execStep_step p b hg hgd'
      split at he
      · rename_i hc
        simp only [hgd, hc, if_true] at hd ⊢
        exact execStep_di p b hg hd he
      · rename_i hc
        simp only [hgd, hc, if_true] at hd ⊢
        have hn : (execStep p b).err = none := by
          simp only [Bool.or_eq_true, not_or, Bool.not_eq_true, Option.isSome_eq_false_iff,
            Option.isNone_iff_eq_none] at hc
          exact hc.2
        exact ih _ _ (hs.ok hn).1 he hd
    · rename_i hgd
      simp only [hgd] at hd
      cases hd

theorem stepValue_rest (p : P) (x : UInt8) (bs : Bytes) (he : (stepValue p (x :: bs)).err = none) :
    (stepValue p (x :: bs)).rest = bs := by
  unfold stepValue at he ⊢
  simp only [] at he ⊢
  split
  · rename_i h; simp [h] at he
  · split <;> first | rfl | (simp only [visit_eq]; done)

/-- from the idle state a successful run consumes at least one byte -/
theorem feedUntil_idle_consumes (f : Nat) (p : P) (b : Bytes) (ht : p.state.current.type = stNext)
    (hb : b ≠ []) (he : (feedUntil f p b).err = none) : (feedUntil f p b).rest.length < b.length := by
  cases f with
  | zero => simp [feedUntil] at he
  | succ f =>
    cases b with
    | nil => exact absurd rfl hb
    | cons x bs =>
      have hd : dispatch p (x :: bs) = stepValue p (x :: bs) := by simp [dispatch, ht]
      simp only [feedUntil] at he ⊢
      simp only [List.isEmpty_cons, Bool.not_false, Bool.true_or, if_true] at he ⊢
      have hrest : (execStep p (x :: bs)).err = none → (execStep p (x :: bs)).rest = bs := by
        intro h
        rw [execStep_eq, hd] at h ⊢
        cases hsv : (stepValue p (x :: bs)).err with
        | none => simp only []; exact stepValue_rest p x bs hsv
        | some e => simp only [hsv] at h; cases h
      split at he
      · rename_i hc
        simp only [hc, if_true]
        rw [hrest he]; simp
      · rename_i hc
        simp only [hc]
        have hn : (execStep p (x :: bs)).err = none := by
          simp only [Bool.or_eq_true, not_or, Bool.not_eq_true, Option.isSome_eq_false_iff,
            Option.isNone_iff_eq_none] at hc
          exact hc.2
        have := (feedUntil_cons f (execStep p (x :: bs)).p (execStep p (x :: bs)).rest).1
        rw [hrest hn] at this ⊢
        simp; omega


/-! ## the outer loop (`feed`) and `finalize` -/

/-- the measure of the outer loop: two units per unread byte, one for an open value -/
def mu (p : P) (b : Bytes) : Nat := 2 * b.length + (if p.state.stack.isEmpty then 0 else 1)

theorem idle_of_stack_nil {p : P} (hg : G p) (h : p.state.stack = []) : p.state.current.type = stNext := by
  have := hg.chn
  simp only [sl, h, chain, beq_iff_eq] at this
  exact this

/-- THE OUTER LOOP NEVER RUNS OUT OF ITS OWN FUEL: with `2·|b| + 2` rounds (what `feedAll`
passes) `feed` can only report `outOfFuel` because one inner `feedUntil` run did — and it
hands back that run's parser state -/
theorem feedG_hang (ff : Bytes → Nat) (fuel : Nat) (p : P) (b : Bytes) (hg : G p) (hfuel : mu p b + 1 ≤ fuel)
    (h : (feedG ff fuel p b).2 = some .outOfFuel) :
    ∃ p' b', G p' ∧ b' ≠ [] ∧ b'.length + p'.buffer.length ≤ b.length + p.buffer.length ∧
      (feedUntil (ff b') p' b').err = some .outOfFuel ∧ (feedG ff fuel p b).1 = (feedUntil (ff b') p' b').p := by
  induction fuel generalizing p b with
  | zero => omega
  | succ fuel ih =>
    cases b with
    | nil => simp [feedG] at h
    | cons x bs =>
      simp only [feedG, List.isEmpty_cons, Bool.false_eq_true, if_false] at h ⊢
      cases he : (feedUntil (ff (x :: bs)) p (x :: bs)).err with
      | some e =>
        simp only [he] at h ⊢
        have : e = .outOfFuel := by simpa using h
        subst this
        exact ⟨p, x :: bs, hg, by simp, Nat.le_refl _, he, rfl⟩
      | none =>
        simp only [he] at h ⊢
        have hprog := feedUntil_progress (ff (x :: bs)) p (x :: bs) hg
        have hg' := hprog.1 he
        have hcons := feedUntil_cons (ff (x :: bs)) p (x :: bs)
        have hmu : mu (feedUntil (ff (x :: bs)) p (x :: bs)).p (feedUntil (ff (x :: bs)) p (x :: bs)).rest + 1 ≤ fuel := by
          cases hd : (feedUntil (ff (x :: bs)) p (x :: bs)).done with
          | false =>
            have := feedUntil_not_done _ p (x :: bs) he hd
            simp only [mu, this, List.length_nil, List.length_cons] at hfuel ⊢
            split <;> split at hfuel <;> omega
          | true =>
            have hst := feedUntil_done_idle _ p (x :: bs) hg he hd
            simp only [mu, hst, List.isEmpty_nil, if_true] at hfuel ⊢
            by_cases hs : p.state.stack = []
            · have := feedUntil_idle_consumes _ p (x :: bs) (idle_of_stack_nil hg hs) (by simp) he
              simp only [hs, List.isEmpty_nil, if_true] at hfuel
              omega
            · have := hcons.1
              have hne : p.state.stack.isEmpty = false := by
                cases hS : p.state.stack with
                | nil => exact absurd hS hs
                | cons a l => rfl
              simp only [hne] at hfuel
              simp only [Bool.false_eq_true, if_false] at hfuel
              omega
        obtain ⟨p', b', h1, h2, h3, h5, h6⟩ := ih _ _ hg' hmu h
        exact ⟨p', b', h1, h2, by have := hcons.2; omega, h5, h6⟩


theorem finalizeLoop_no_fuel (n : Nat) (p : P) (h : p.state.stack.length ≤ n) :
    (finalizeLoop n p).2 ≠ some .outOfFuel := by
  induction n generalizing p with
  | zero =>
    have : p.state.stack = [] := by cases hS : p.state.stack <;> simp_all
    simp [finalizeLoop, this]
  | succ n ih =>
    simp only [finalizeLoop]
    split
    · simp
    · rename_i hne
      have hlen : ∀ q : P, q.state = p.state → (popLenState q).1.state.stack.length ≤ n := by
        intro q hq
        simp only [popLenState, popState, popLen, hq, StateStack.pop]
        cases hS : p.state.stack with
        | nil => simp [hS] at hne
        | cons a l => simp [hS] at h ⊢; omega
      have hclose : ∀ e : Ev, (match visit p e with
          | (q, some err) => (q, some err)
          | (q, none) =>
            finalizeLoop n (popLenState
              (if (p.state.current.type == stArrayTyped || p.state.current.type == stObjectTyped) = true
                then popValueState q else q)).1).2 ≠ some .outOfFuel := by
        intro e
        simp only [visit_eq]
        verr_split p
        · apply ih
          split
          · exact hlen _ rfl
          · exact hlen _ rfl
        · simp
      split
      · split
        · simp
        · exact hclose _
      · split
        · simp
        · exact hclose _
      · split
        · simp
        · exact hclose _
      · split
        · simp
        · exact hclose _
      · simp

theorem finalize_no_fuel (p : P) : (finalize p).2 ≠ some .outOfFuel := by
  unfold finalize
  have := finalizeLoop_no_fuel p.state.stack.length p (Nat.le_refl _)
  rcases h : finalizeLoop p.state.stack.length p with ⟨q, e⟩
  rw [h] at this
  cases e with
  | some e => simpa using this
  | none => simp only []; split <;> simp

/-- `feed` keeps the shape invariant and creates no bytes -/
theorem feedG_ok (ff : Bytes → Nat) (fuel : Nat) (p : P) (b : Bytes) (hg : G p)
    (h : (feedG ff fuel p b).2 = none) :
    G (feedG ff fuel p b).1 ∧ (feedG ff fuel p b).1.buffer.length ≤ b.length + p.buffer.length := by
  induction fuel generalizing p b with
  | zero => simp [feedG] at h
  | succ fuel ih =>
    cases b with
    | nil => simp only [feedG, List.isEmpty_nil, if_true]; exact ⟨hg, by simp⟩
    | cons x bs =>
      simp only [feedG, List.isEmpty_cons, Bool.false_eq_true, if_false] at h ⊢
      cases he : (feedUntil (ff (x :: bs)) p (x :: bs)).err with
      | some e => simp only [he] at h; cases h
      | none =>
        simp only [he] at h ⊢
        have hg' := (feedUntil_progress (ff (x :: bs)) p (x :: bs) hg).1 he
        have hcons := feedUntil_cons (ff (x :: bs)) p (x :: bs)
        obtain ⟨h1, h2⟩ := ih _ _ hg' h
        exact ⟨h1, by have := hcons.2; omega⟩

/-- the fuel of one `feed` call (any chunk, any state satisfying the invariant) can only run
out after a million events (less one per byte received) -/
theorem feedG_hang_events (p : P) (b : Bytes) (hg : G p)
    (h : (feedG fuelFor (2 * b.length + 2) p b).2 = some .outOfFuel) :
    1000000 ≤ (feedG fuelFor (2 * b.length + 2) p b).1.evs.length + b.length + p.buffer.length := by
  obtain ⟨p', b', hg', hb', hlen, herr, hq⟩ := feedG_hang fuelFor (2 * b.length + 2) p b hg
    (by simp only [mu]; split <;> omega) h
  have hp := (feedUntil_progress (fuelFor b') p' b' hg').2 herr
  have ht := tS_le p'.state.current
  simp only [pot] at hp
  have hff : fuelFor b' = 8 * b'.length + 2000000 := rfl
  rw [hq]
  omega

/-- NO HANG, `Parse` / `ParseString`: the model's fuel can only run out on a document that
has delivered a million events by then (less one per input byte) — i.e. never by spinning -/
theorem parse_hang (b : Bytes) (h : (parse {} b).2 = some .outOfFuel) :
    1000000 ≤ (parse {} b).1.evs.length + b.length := by
  unfold parse feedAll at h ⊢
  rw [feed_eq_feedG] at h ⊢
  have key := feedG_hang_events {} b g_default
  generalize hf : feedG fuelFor (2 * b.length + 2) {} b = res at h key ⊢
  obtain ⟨q, e⟩ := res
  cases e with
  | none =>
    simp only [] at h
    have := finalize_no_fuel q
    rcases hq : finalize q with ⟨q', e'⟩
    rw [hq] at h this
    simp only [] at h this
    exact absurd h this
  | some e =>
    simp only [] at h ⊢
    have he : e = .outOfFuel := by simpa using h
    subst he
    have := key rfl
    simp only [] at this
    have hl0 : ({} : P).buffer.length = 0 := rfl
    omega

/-- … and the same through `Write` calls with ANY chunking followed by the end-of-input
check: `received` = bytes buffered before plus all chunks -/
theorem writeChunks_hang (cs : List Bytes) (p : P) (hg : G p)
    (h : (writeChunks p cs).2 = some .outOfFuel) :
    1000000 ≤ (writeChunks p cs).1.evs.length + cs.flatten.length + p.buffer.length := by
  induction cs generalizing p with
  | nil => exact absurd h (finalize_no_fuel p)
  | cons c cs ih =>
    simp only [writeChunks] at h ⊢
    unfold write feedAll at h ⊢
    rw [feed_eq_feedG] at h ⊢
    have key := feedG_hang_events p c hg
    have kok := feedG_ok fuelFor (2 * c.length + 2) p c hg
    generalize hf : feedG fuelFor (2 * c.length + 2) p c = res at h key kok ⊢
    obtain ⟨q, e⟩ := res
    cases e with
    | some e =>
      simp only [] at h ⊢
      have he : e = .outOfFuel := by simpa using h
      subst he
      have := key rfl
      simp only [setCurrent, List.flatten_cons, List.length_append] at this ⊢
      omega
    | none =>
      simp only [] at h ⊢
      obtain ⟨hg', hbuf⟩ := kok rfl
      simp only [] at hg' hbuf
      have := ih { q with err := none } (hg'.congr rfl rfl rfl) h
      simp only [List.flatten_cons, List.length_append] at this ⊢
      omega

end SF.Ubjson.Parse
