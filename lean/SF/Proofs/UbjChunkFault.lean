/-
  Visitor faults in the UBJSON parser mirror (C16): once the visitor has returned an error the
  step in progress returns that error at once and no further event is delivered.
  Helper lemmas; property theorems in SF/Proofs/UbjChunkTop.lean.
-/
import SF.Proofs.UbjNoPanicLoop
namespace SF.Ubjson.Fault
open SF SF.Ubjson SF.Ubjson.Parse
open StateType StateStep

variable {fa : Option Nat}

/-- the visitor (fault index `fa`) has not failed yet: at most k events delivered, and the
stored error is not the visitor's -/
def NF (fa : Option Nat) (p : P) : Prop :=
  p.failAt = fa ∧ (∀ k, fa = some k → p.evs.length ≤ k) ∧ p.err ≠ some .visitor

/-- the visitor has just failed: exactly k+1 events delivered -/
def Stopped (fa : Option Nat) (p : P) : Prop := p.failAt = fa ∧ ∃ k, fa = some k ∧ p.evs.length = k + 1

/-- outcome of a computation that started with `NF`: either still no fault and the
error (if any) is not the visitor's, or the visitor's error with delivery stopped right there -/
def GoodOut (fa : Option Nat) (q : P) (err : Option Err) : Prop :=
  (err ≠ some .visitor ∧ NF fa q) ∨ (err = some .visitor ∧ Stopped fa q)

/-- … of a step result -/
def GR (fa : Option Nat) (r : R) : Prop := GoodOut fa r.p r.err

/-- a step that calls no visitor method -/
def Plain (p : P) (r : R) : Prop :=
  r.p.evs = p.evs ∧ r.p.failAt = p.failAt ∧ r.p.err = p.err ∧ r.err ≠ some .visitor

theorem NF.congr {p q : P} (h : NF fa p) (h1 : q.evs = p.evs) (h2 : q.failAt = p.failAt) (h3 : q.err = p.err) :
    NF fa q :=
  ⟨h2.trans h.1, fun k hk => by rw [h1]; exact h.2.1 k hk, by rw [h3]; exact h.2.2⟩

theorem Stopped.congr {p q : P} (h : Stopped fa p) (h1 : q.evs = p.evs) (h2 : q.failAt = p.failAt) :
    Stopped fa q := by
  obtain ⟨hf, k, hk, hl⟩ := h; exact ⟨h2.trans hf, k, hk, by rw [h1]; exact hl⟩

theorem GoodOut.congr {p q : P} {e : Option Err} (h : GoodOut fa p e) (h1 : q.evs = p.evs)
    (h2 : q.failAt = p.failAt) (h3 : q.err = p.err) : GoodOut fa q e := by
  rcases h with ⟨he, h⟩ | ⟨he, h⟩
  · exact Or.inl ⟨he, h.congr h1 h2 h3⟩
  · exact Or.inr ⟨he, h.congr h1 h2⟩

theorem GoodOut.nf {p : P} {e : Option Err} (h : GoodOut fa p e) (he : e ≠ some .visitor) : NF fa p := by
  rcases h with ⟨_, h⟩ | ⟨h, _⟩
  · exact h
  · exact absurd h he

theorem Plain.gr {p : P} {r : R} (h : Plain p r) (hp : NF fa p) : GR fa r :=
  Or.inl ⟨h.2.2.2, hp.congr h.1 h.2.1 h.2.2.1⟩

theorem Plain.nf {p : P} {r : R} (h : Plain p r) (hp : NF fa p) : NF fa r.p := hp.congr h.1 h.2.1 h.2.2.1

/-- the visitor call itself -/
theorem visit_good (p : P) (h : NF fa p) :
    (verr p = none ∧ ∀ e, NF fa (addEv p e)) ∨ (verr p = some .visitor ∧ ∀ e, Stopped fa (addEv p e)) := by
  obtain ⟨hf, hb, he⟩ := h
  unfold verr
  rw [hf]
  cases fa with
  | none => left; exact ⟨rfl, fun e => ⟨hf, fun k hk => (by cases hk), he⟩⟩
  | some k =>
    have hk := hb k rfl
    simp only
    split
    · right
      refine ⟨rfl, fun e => ⟨hf, k, rfl, ?_⟩⟩
      simp only [addEv, List.length_cons]; omega
    · left
      refine ⟨rfl, fun e => ⟨hf, ?_, he⟩⟩
      intro k' hk'
      injection hk' with hk'
      subst hk'
      simp only [addEv, List.length_cons]; omega

set_option hygiene false in
/-- case split on a visitor call made under `NF` -/
macro "vgood " X:term:max h:term:max : tactic =>
  `(tactic| (rcases visit_good $X $h with ⟨hv, hq⟩ | ⟨hv, hq⟩ <;> rw [hv] <;> (try simp only [])))

/-- close a leaf: the resulting parser has the events and fault index of `h`'s parser -/
macro "gleaf " h:term:max : tactic =>
  `(tactic| first
    | exact Or.inl ⟨by simp [panicR, advanceMarker], NF.congr $h rfl rfl rfl⟩
    | exact Or.inr ⟨rfl, Stopped.congr $h rfl rfl⟩)

macro "pleaf" : tactic => `(tactic| exact ⟨rfl, rfl, rfl, by simp [panicR, advanceMarker]⟩)

/-! ### stepLen, stepValue -/

theorem lenFin_plain (cont : St) (p : P) (b : Bytes) (L : Int) : Plain p (lenFin cont p b L) := by
  unfold lenFin; split <;> pleaf

theorem lenColl_plain (cont : St) (p : P) (b : Bytes) (n : Nat) (rd : Bytes → Int) :
    Plain p (match collectP p b n with
      | (p, rest, none) => ({ p := p, rest := rest } : R)
      | (p, rest, some tmp) => lenFin cont p rest (rd tmp)) := by
  have h1 : (collectP p b n).1.evs = p.evs := rfl
  have h2 : (collectP p b n).1.failAt = p.failAt := rfl
  have h3 : (collectP p b n).1.err = p.err := rfl
  generalize collectP p b n = c at h1 h2 h3 ⊢
  obtain ⟨q, rest, tmp⟩ := c
  cases tmp with
  | none => exact ⟨h1, h2, h3, by simp⟩
  | some t =>
    have := lenFin_plain cont q rest (rd t)
    exact ⟨this.1.trans h1, this.2.1.trans h2, this.2.2.1.trans h3, this.2.2.2⟩

theorem lenValue_plain (cont : St) (p : P) (b : Bytes) : Plain p (lenValue cont p b) := by
  unfold lenValue
  simp only []
  split
  · cases b with
    | nil => pleaf
    | cons b0 bs => exact lenFin_plain _ _ _ _
  split
  · cases b with
    | nil => pleaf
    | cons b0 bs => exact lenFin_plain _ _ _ _
  split
  · exact lenColl_plain _ _ _ _ _
  split
  · exact lenColl_plain _ _ _ _ _
  split
  · exact lenColl_plain _ _ _ _ _
  pleaf

theorem stepLen_plain (p : P) (b : Bytes) (cont : St) : Plain p (stepLen p b cont) := by
  rw [stepLen_eq]
  split
  · cases b with
    | nil => pleaf
    | cons b0 bs =>
      simp only []
      split
      · split
        · pleaf
        · exact lenValue_plain cont { p with marker := b0 } bs
      · pleaf
  · exact lenValue_plain cont p b

theorem Plain.setDone {p : P} {r : R} (h : Plain p r) (d : Bool) : Plain p { r with done := d } := h

theorem GR.setDone {r : R} (h : GR fa r) (d : Bool) : GR fa { r with done := d } := h

theorem stepValue_good (p : P) (b : Bytes) (h : NF fa p) : GR fa (stepValue p b) := by
  unfold stepValue
  cases b with
  | nil => gleaf h
  | cons b0 bs =>
    simp only []
    split
    · gleaf h
    · split
      all_goals first
        | (simp only [visit_eq]; vgood p h <;> gleaf (hq _))
        | gleaf h

/-! ### stepFixedValue -/

theorem fixFin_good (p : P) (b : Bytes) (done : Bool) (err : Option Err) (h : GoodOut fa p err) :
    GR fa (fixFin p b done err) := by
  unfold fixFin
  split
  · rename_i hc
    have he : err = none := by
      cases err with
      | none => rfl
      | some e => simp at hc
    subst he
    have := h.nf (by simp)
    gleaf this
  · exact h

theorem fixNow_good (p : P) (b : Bytes) (e : Ev) (h : NF fa p) :
    GR fa (let (q, err) := visit p e; fixFin q b true err) := by
  simp only [visit_eq]
  apply fixFin_good
  rcases visit_good p h with ⟨hv, hq⟩ | ⟨hv, hq⟩ <;> rw [hv]
  · exact Or.inl ⟨by simp, hq _⟩
  · exact Or.inr ⟨rfl, hq _⟩

theorem fixColl_good (p : P) (b : Bytes) (n : Nat) (mk : Bytes → Ev) (h : NF fa p) :
    GR fa (match collectP p b n with
      | (p, rest, none) => fixFin p rest false none
      | (p, rest, some tmp) => let (p, err) := visit p (mk tmp); fixFin p rest true err) := by
  have h1 : NF fa (collectP p b n).1 := h.congr rfl rfl rfl
  generalize collectP p b n = c at h1 ⊢
  obtain ⟨q, rest, tmp⟩ := c
  cases tmp with
  | none => exact fixFin_good _ _ _ _ (Or.inl ⟨by simp, h1⟩)
  | some t => exact fixNow_good _ _ _ h1

theorem stepFixedValue_good (p : P) (b : Bytes) (h : NF fa p) : GR fa (stepFixedValue p b) := by
  rw [stepFixedValue_eq]
  split
  · exact fixNow_good _ _ _ h
  · exact fixFin_good _ _ _ _ (Or.inl ⟨by simp, h⟩)
  · exact fixNow_good _ _ _ h
  · exact fixNow_good _ _ _ h
  · cases b with
    | nil => gleaf h
    | cons x bs => exact fixNow_good _ _ _ h
  · cases b with
    | nil => gleaf h
    | cons x bs => exact fixNow_good _ _ _ h
  · exact fixColl_good _ _ _ _ h
  · exact fixColl_good _ _ _ _ h
  · exact fixColl_good _ _ _ _ h
  · exact fixColl_good _ _ _ _ h
  · exact fixColl_good _ _ _ _ h
  · exact fixColl_good _ _ _ _ h
  · gleaf h

/-! ### stepString -/

theorem strFin_good (p : P) (b : Bytes) (done : Bool) (err : Option Err) (h : GoodOut fa p err) :
    GR fa (strFin p b done err) := by
  unfold strFin
  split
  · rename_i hc
    have he : err = none := by
      cases err with
      | none => rfl
      | some e => simp at hc
    subst he
    have := h.nf (by simp)
    gleaf this
  · exact h

theorem strNow_good (p : P) (b : Bytes) (e : Ev) (h : NF fa p) :
    GR fa (let (q, err) := visit p e; strFin q b true err) := by
  simp only [visit_eq]
  apply strFin_good
  rcases visit_good p h with ⟨hv, hq⟩ | ⟨hv, hq⟩ <;> rw [hv]
  · exact Or.inl ⟨by simp, hq _⟩
  · exact Or.inr ⟨rfl, hq _⟩

theorem strWithLen_good (p : P) (b : Bytes) (h : NF fa p) : GR fa (strWithLen p b) := by
  unfold strWithLen
  simp only []
  split
  · exact strNow_good _ _ _ h
  · split
    · gleaf h
    · have h1 : NF fa (collectP p b p.length.current.toNat).1 := h.congr rfl rfl rfl
      generalize collectP p b p.length.current.toNat = c at h1 ⊢
      obtain ⟨q, rest, tmp⟩ := c
      cases tmp with
      | none => exact strFin_good _ _ _ _ (Or.inl ⟨by simp, h1⟩)
      | some t => exact strNow_good _ _ _ h1

theorem stepString_good (p : P) (b : Bytes) (h : NF fa p) : GR fa (stepString p b) := by
  rw [stepString_eq]
  have hl := stepLen_plain p b (p.state.current.withStep stWithLen)
  split
  · simp only []
    split
    · exact strFin_good _ _ _ _ (hl.gr h)
    · exact strWithLen_good _ _ (hl.nf h)
  · exact strWithLen_good _ _ h
  · exact strFin_good _ _ _ _ (Or.inl ⟨by simp, h⟩)

/-! ### arrays -/

theorem stepArrayInit_good (p : P) (b : Bytes) (h : NF fa p) : GR fa (stepArrayInit p b) := by
  unfold stepArrayInit
  cases b with
  | nil => gleaf h
  | cons x bs =>
    simp only []
    split
    · gleaf h
    split
    · gleaf h
    · simp only [visit_eq]
      have h' : NF fa (setType p stArrayDyn) := h.congr rfl rfl rfl
      vgood (setType p stArrayDyn) h' <;> gleaf (hq _)

theorem stepArrayDyn_good (p : P) (b : Bytes) (h : NF fa p) : GR fa (stepArrayDyn p b) := by
  unfold stepArrayDyn
  cases b with
  | nil => gleaf h
  | cons x bs =>
    simp only []
    split
    · simp only [visit_eq]
      vgood p h <;> gleaf (hq _)
    · apply GR.setDone
      split
      · exact stepValue_good (setStep p stCont) _ (h.congr rfl rfl rfl)
      · exact stepValue_good _ _ h

theorem acContent_good (l : Int) (b : Bytes) (p : P) (h : NF fa p) : GR fa (acContent l b p) := by
  unfold acContent
  split
  · simp only [visit_eq]
    vgood p h <;> gleaf (hq _)
  · cases b with
    | nil => gleaf h
    | cons x bs =>
      simp only []
      split
      · gleaf h
      · exact GR.setDone (stepValue_good (decLen p) _ (h.congr rfl rfl rfl)) false

theorem stepArrayCount_good (p : P) (b : Bytes) (h : NF fa p) : GR fa (stepArrayCount p b) := by
  rw [stepArrayCount_eq]
  split
  · exact ((stepLen_plain p b _).setDone false).gr h
  · split
    · simp only [visit_eq]
      have h' : NF fa (setStep p stCont) := h.congr rfl rfl rfl
      rcases visit_good (setStep p stCont) h' with ⟨hv, hq⟩ | ⟨hv, hq⟩ <;>
        rw [hv] <;> (try simp only [])
      · split
        · gleaf (hq _)
        · exact acContent_good _ _ _ (hq _)
      · simp only [Option.isSome_some, Bool.true_or, if_true]
        gleaf (hq _)
    · exact acContent_good _ _ _ h

theorem stepType_plain (p : P) (b : Bytes) (cont : St) : Plain p (stepType p b cont) := by
  unfold stepType
  cases b with
  | nil => pleaf
  | cons x bs =>
    simp only []
    split
    · pleaf
    · split <;> pleaf

theorem stepTypeLenHeader_plain (p : P) (b : Bytes) (c : StateStep) : Plain p (stepTypeLenHeader p b c) := by
  unfold stepTypeLenHeader
  simp only []
  split
  · exact stepType_plain _ _ _
  · cases b with
    | nil => pleaf
    | cons x bs =>
      simp only []
      split <;> pleaf
  · exact stepLen_plain _ _ _
  · pleaf

theorem atContent_good (l : Int) (b : Bytes) (p : P) (h : NF fa p) : GR fa (atContent l b p) := by
  unfold atContent
  split
  · simp only [visit_eq]
    vgood p h <;> gleaf (hq _)
  · gleaf h

theorem stepArrayTyped_good (p : P) (b : Bytes) (h : NF fa p) : GR fa (stepArrayTyped p b) := by
  rw [stepArrayTyped_eq]
  split
  · exact ((stepTypeLenHeader_plain p b _).setDone false).gr h
  · split
    · simp only [visit_eq]
      have h' : NF fa (setStep p stCont) := h.congr rfl rfl rfl
      vgood (setStep p stCont) h'
      · exact atContent_good _ _ _ (hq _)
      · gleaf (hq _)
    · exact atContent_good _ _ _ h

/-! ### objects -/

theorem stepObjectInit_good (p : P) (b : Bytes) (h : NF fa p) : GR fa (stepObjectInit p b) := by
  unfold stepObjectInit
  cases b with
  | nil => gleaf h
  | cons x bs =>
    simp only []
    split
    · gleaf h
    split
    · gleaf h
    · simp only [visit_eq]
      have h' : NF fa (setType p stObjectDyn) := h.congr rfl rfl rfl
      vgood (setType p stObjectDyn) h' <;> gleaf (hq _)

theorem fieldName_good (p : P) (b : Bytes) (h : NF fa p) : GR fa (fieldName p b) := by
  unfold fieldName
  simp only []
  split
  · gleaf h
  · have h1 : NF fa (collectP p b p.length.current.toNat).1 := h.congr rfl rfl rfl
    generalize collectP p b p.length.current.toNat = c at h1 ⊢
    obtain ⟨q, rest, tmp⟩ := c
    cases tmp with
    | none => gleaf h1
    | some t =>
      simp only [visit_eq]
      have h2 : NF fa (popLen q) := h1.congr rfl rfl rfl
      vgood (popLen q) h2 <;> gleaf (hq _)

theorem odBody_good (step : StateStep) (b : Bytes) (p : P) (h : NF fa p) : GR fa (odBody step b p) := by
  unfold odBody
  split
  · exact ((stepLen_plain p b _).setDone false).gr h
  · exact fieldName_good p b h
  · cases b with
    | nil => gleaf h
    | cons x bs =>
      simp only []
      split
      · gleaf h
      · exact GR.setDone (stepValue_good (setStep p stStart) _ (h.congr rfl rfl rfl)) false
  · gleaf h

theorem stepObjectDyn_good (p : P) (b : Bytes) (h : NF fa p) : GR fa (stepObjectDyn p b) := by
  rw [stepObjectDyn_eq]
  split
  · cases b with
    | nil => gleaf h
    | cons x bs =>
      simp only []
      split
      · simp only [visit_eq]
        vgood p h <;> gleaf (hq _)
      · exact odBody_good _ _ _ h
  · exact odBody_good _ _ _ h

theorem ocFin_good (p : P) (end_ : Bool) (b : Bytes) (err : Option Err) (h : NF fa p)
    (hg : end_ = false → GoodOut fa p err) : GR fa (ocFin p end_ b err) := by
  unfold ocFin
  split
  · simp only [visit_eq]
    rcases visit_good p h with ⟨hv, hq⟩ | ⟨hv, hq⟩ <;> rw [hv]
    · gleaf (hq _)
    · gleaf (hq _)
  · rename_i he
    exact hg (by simpa using he)

theorem ocFin_of_gr {r : R} (h : GR fa r) : GR fa (ocFin r.p false r.rest r.err) := by
  unfold ocFin
  simp only [Bool.false_eq_true, if_false]
  exact h

theorem ocAtFieldName_good (p : P) (b : Bytes) (h : NF fa p) : GR fa (ocAtFieldName p b) := by
  unfold ocAtFieldName
  split
  · exact ocFin_good _ _ _ _ h (fun hc => by cases hc)
  · exact ocFin_of_gr ((stepLen_plain p b _).gr h)

theorem ocValue_good (typed : Bool) (b : Bytes) (p : P) (h : NF fa p) : GR fa (ocValue typed b p) := by
  unfold ocValue
  simp only []
  have h2 : NF fa (setStep (decLen p) stFieldName) := h.congr rfl rfl rfl
  split
  · exact ocFin_good _ _ _ _ (h2.congr rfl rfl rfl) (fun _ => Or.inl ⟨by simp, h2.congr rfl rfl rfl⟩)
  · exact ocFin_of_gr (stepValue_good _ b h2)

theorem stepObjectCountedContent_good (p : P) (b : Bytes) (typed : Bool) (h : NF fa p) :
    GR fa (stepObjectCountedContent p b typed) := by
  rw [stepObjectCountedContent_eq]
  split
  · simp only [visit_eq]
    vgood p h
    · split
      · exact ocFin_good _ _ _ _ (hq _) (fun _ => Or.inl ⟨by simp, hq _⟩)
      · have h2 : NF fa (setStep (addEv p (.objStart p.length.current BT.any)) stFieldName) := (hq _).congr rfl rfl rfl
        split
        · exact ocFin_good _ _ _ _ h2 (fun _ => Or.inl ⟨by simp, h2⟩)
        · exact ocAtFieldName_good _ _ h2
    · gleaf (hq _)
  · exact ocAtFieldName_good _ _ h
  · exact ocFin_of_gr (fieldName_good p b h)
  · split
    · cases b with
      | nil => gleaf h
      | cons x bs =>
        simp only []
        split
        · gleaf h
        · exact ocValue_good _ _ _ h
    · exact ocValue_good _ _ _ h
  · exact ocFin_good _ _ _ _ h (fun _ => Or.inl ⟨by simp, h⟩)

theorem stepObjectCount_good (p : P) (b : Bytes) (h : NF fa p) : GR fa (stepObjectCount p b) := by
  unfold stepObjectCount
  split
  · exact ((stepLen_plain p b _).setDone false).gr h
  · have hc := stepObjectCountedContent_good p b false h
    simp only []
    split
    · rename_i hd
      have he : (stepObjectCountedContent p b false).err = none := by
        cases he : (stepObjectCountedContent p b false).err with
        | none => rfl
        | some e => simp [he] at hd
      have := GoodOut.nf hc (by rw [he]; simp)
      gleaf this
    · exact hc

theorem stepObjectTyped_good (p : P) (b : Bytes) (h : NF fa p) : GR fa (stepObjectTyped p b) := by
  unfold stepObjectTyped
  simp only []
  split
  · exact ((stepTypeLenHeader_plain p b _).setDone false).gr h
  · have hc := stepObjectCountedContent_good p b true h
    split
    · rename_i hd
      have he : (stepObjectCountedContent p b true).err = none := by
        cases he : (stepObjectCountedContent p b true).err with
        | none => rfl
        | some e => simp [he] at hd
      have := GoodOut.nf hc (by rw [he]; simp)
      gleaf this
    · exact hc

/-! ### execStep and the loops -/

theorem dispatch_good (p : P) (b : Bytes) (h : NF fa p) : GR fa (dispatch p b) := by
  unfold dispatch
  split
  · exact Or.inl ⟨h.2.2, h⟩
  · exact stepValue_good _ _ h
  · exact stepFixedValue_good _ _ h
  · exact stepString_good _ _ h
  · exact stepString_good _ _ h
  · exact stepArrayInit_good _ _ h
  · exact stepArrayDyn_good _ _ h
  · exact stepArrayCount_good _ _ h
  · exact stepArrayTyped_good _ _ h
  · exact stepObjectInit_good _ _ h
  · exact stepObjectDyn_good _ _ h
  · exact stepObjectCount_good _ _ h
  · exact stepObjectTyped_good _ _ h

/-- ONE STEP under a possibly failing visitor: starting without a fault, either no fault
occurred (and any error is the parser's own), or the visitor failed, the step returned THE
VISITOR'S error, and exactly the failing event was the last one delivered -/
theorem execStep_good (p : P) (b : Bytes) (h : NF fa p) : GR fa (execStep p b) := by
  have hd := dispatch_good p b h
  rw [execStep_eq]
  cases he : (dispatch p b).err with
  | none => simp only []; exact hd
  | some e =>
    simp only []
    unfold GR GoodOut at hd ⊢
    rw [he] at hd
    rcases hd with ⟨hne, hq⟩ | ⟨hv, hq⟩
    · exact Or.inl ⟨by rw [he]; exact hne, ⟨hq.1, hq.2.1, hne⟩⟩
    · exact Or.inr ⟨by rw [he]; exact hv, hq.congr rfl rfl⟩

theorem feedUntil_good (f : Nat) (p : P) (b : Bytes) (h : NF fa p) : GR fa (feedUntil f p b) := by
  induction f generalizing p b with
  | zero => exact Or.inl ⟨by simp [feedUntil], h⟩
  | succ f ih =>
    simp only [feedUntil]
    have h1 := execStep_good p b h
    split
    · split
      · exact h1
      · rename_i hc
        have hn : (execStep p b).err = none := by
          simp only [Bool.or_eq_true, not_or, Bool.not_eq_true, Option.isSome_eq_false_iff,
            Option.isNone_iff_eq_none] at hc
          exact hc.2
        exact ih _ _ (GoodOut.nf h1 (by rw [hn]; simp))
    · exact Or.inl ⟨by simp, h⟩

theorem feedG_good (ff : Bytes → Nat) (fuel : Nat) (p : P) (b : Bytes) (h : NF fa p) :
    GoodOut fa (feedG ff fuel p b).1 (feedG ff fuel p b).2 := by
  induction fuel generalizing p b with
  | zero => exact Or.inl ⟨by simp [feedG], h⟩
  | succ fuel ih =>
    simp only [feedG]
    split
    · exact Or.inl ⟨by simp, h⟩
    · have h1 := feedUntil_good (ff b) p b h
      unfold GR at h1
      cases he : (feedUntil (ff b) p b).err with
      | some e => simp only []; rw [he] at h1; exact h1
      | none => simp only []; exact ih _ _ (GoodOut.nf h1 (by rw [he]; simp))

theorem feed_good (fuel : Nat) (p : P) (b : Bytes) (h : NF fa p) :
    GoodOut fa (feed fuel p b).1 (feed fuel p b).2 := by
  rw [feed_eq_feedG]; exact feedG_good _ fuel p b h

/-- the closing loop of `finalize` delivers events as well -/
theorem finalizeLoop_good (n : Nat) (p : P) (h : NF fa p) :
    GoodOut fa (finalizeLoop n p).1 (finalizeLoop n p).2 := by
  induction n generalizing p with
  | zero => simp only [finalizeLoop]; split <;> exact Or.inl ⟨by simp, h⟩
  | succ n ih =>
    simp only [finalizeLoop]
    split
    · exact Or.inl ⟨by simp, h⟩
    · have hclose : ∀ e : Ev, GoodOut fa (match visit p e with
          | (q, some err) => (q, some err)
          | (q, none) =>
            finalizeLoop n (popLenState
              (if (p.state.current.type == stArrayTyped || p.state.current.type == stObjectTyped) = true
                then popValueState q else q)).1).1 (match visit p e with
          | (q, some err) => (q, some err)
          | (q, none) =>
            finalizeLoop n (popLenState
              (if (p.state.current.type == stArrayTyped || p.state.current.type == stObjectTyped) = true
                then popValueState q else q)).1).2 := by
        intro e
        simp only [visit_eq]
        vgood p h
        · apply ih
          split
          · exact (hq _).congr rfl rfl rfl
          · exact (hq _).congr rfl rfl rfl
        · exact Or.inr ⟨rfl, hq _⟩
      split
      · split
        · exact Or.inl ⟨by simp, h⟩
        · exact hclose _
      · split
        · exact Or.inl ⟨by simp, h⟩
        · exact hclose _
      · split
        · exact Or.inl ⟨by simp, h⟩
        · exact hclose _
      · split
        · exact Or.inl ⟨by simp, h⟩
        · exact hclose _
      · exact Or.inl ⟨by simp, h⟩

theorem finalize_good (p : P) (h : NF fa p) : GoodOut fa (finalize p).1 (finalize p).2 := by
  unfold finalize
  have := finalizeLoop_good p.state.stack.length p h
  rcases hf : finalizeLoop p.state.stack.length p with ⟨q, e⟩
  rw [hf] at this
  cases e with
  | some e => exact this
  | none =>
    simp only []
    have hq := GoodOut.nf this (by simp)
    split <;> exact Or.inl ⟨by simp, hq⟩

theorem parse_good (p : P) (b : Bytes) (h : NF fa p) : GoodOut fa (parse p b).1 (parse p b).2 := by
  unfold parse feedAll
  have h1 := feed_good (2 * b.length + 2) p b h
  rcases hf : feed (2 * b.length + 2) p b with ⟨q, e⟩
  rw [hf] at h1
  cases e with
  | some e =>
    simp only []
    rcases h1 with ⟨hne, hq⟩ | ⟨hv, hq⟩
    · exact Or.inl ⟨hne, ⟨hq.1, hq.2.1, hne⟩⟩
    · exact Or.inr ⟨hv, hq.congr rfl rfl⟩
  | none =>
    simp only []
    have hq := GoodOut.nf h1 (by simp)
    have h2 := finalize_good q hq
    rcases hfin : finalize q with ⟨q', e'⟩
    rw [hfin] at h2
    simp only []
    rcases h2 with ⟨hne, hq'⟩ | ⟨hv, hq'⟩
    · exact Or.inl ⟨hne, ⟨hq'.1, hq'.2.1, hne⟩⟩
    · exact Or.inr ⟨hv, hq'.congr rfl rfl⟩

theorem write_good (p : P) (b : Bytes) (h : NF fa p) : GoodOut fa (write p b).1 (write p b).2 := by
  unfold write feedAll
  have h1 := feed_good (2 * b.length + 2) p b h
  rcases hf : feed (2 * b.length + 2) p b with ⟨q, e⟩
  rw [hf] at h1
  cases e with
  | some e =>
    simp only []
    rcases h1 with ⟨hne, hq⟩ | ⟨hv, hq⟩
    · exact Or.inl ⟨hne, ⟨hq.1, hq.2.1, hne⟩⟩
    · exact Or.inr ⟨hv, hq.congr rfl rfl⟩
  | none =>
    simp only []
    have hq := GoodOut.nf h1 (by simp)
    exact Or.inl ⟨by simp, ⟨hq.1, hq.2.1, by simp⟩⟩

theorem writeChunks_good (cs : List Bytes) (p : P) (h : NF fa p) :
    GoodOut fa (writeChunks p cs).1 (writeChunks p cs).2 := by
  induction cs generalizing p with
  | nil => exact finalize_good p h
  | cons c cs ih =>
    simp only [writeChunks]
    have h1 := write_good p c h
    rcases hw : write p c with ⟨q, e⟩
    rw [hw] at h1
    cases e with
    | some e => exact h1
    | none => simp only []; exact ih q (GoodOut.nf h1 (by simp))

theorem nf_init (failAt : Option Nat) : NF failAt (init failAt) :=
  ⟨rfl, fun k _ => by simp [init], by simp [init]⟩

end SF.Ubjson.Fault
