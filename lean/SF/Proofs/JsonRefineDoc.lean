/-
  C04 for the JSON parser mirror: whole documents and streams of documents through `Parse`
  and `Write*` + end of input.
-/
import SF.Proofs.JsonRefineTree
import SF.Proofs.JsonRefineTidy
set_option linter.unusedSimpArgs false
namespace SF.Json.ParseP
open SF SF.Json SF.Json.Parse SF.Json.Float SF.Json.Grammar ETree

/-- idle, clean, with a visitor that does not fail -/
def IdleN (p : P) : Prop := AtN p .startState []

theorem idleN_fresh : IdleN {} := ⟨⟨wf_fresh, ⟨rfl, rfl⟩, rfl, rfl⟩, rfl⟩

theorem IdleN.ready {p : P} (h : IdleN p) : ReadyN p .startState [] :=
  ⟨⟨Or.inl ⟨rfl, rfl⟩, Or.inl ⟨h.1, rfl⟩⟩, h.2⟩

theorem stopF_of_ws {ws : Bytes} (hws : allWs ws = true) (hne : ws ≠ []) : stopF ws := by
  cases ws with
  | nil => exact absurd rfl hne
  | cons a t =>
    simp only [allWs, List.all_cons, Bool.and_eq_true] at hws
    exact ⟨a, t, rfl, (isWs_space a hws.1).2⟩

/-- ONE DOCUMENT from an idle state: white space, the text of a value, white space (not
empty if the value is a bare number): no error, exactly the value's events, idle again -/
theorem doc_run (v : J) (hok : v.ok = true) (hs : v.sem = true) (ws1 ws2 : Bytes) (h1 : allWs ws1 = true)
    (h2 : allWs ws2 = true) (hn : v.isNum = true → ws2 ≠ []) (p : P) (hp : IdleN p) :
    ∃ q, IdleN q ∧ q.evs = v.events.reverse ++ p.evs ∧ runA p (ws1 ++ (v.wire ++ ws2)) = (q, none) := by
  obtain ⟨q, hq, he, hr⟩ := jreads v hok hs p .startState [] hp.ready ws2 (fun h => stopF_of_ws h2 (hn h))
  refine ⟨q, hq, he, ?_⟩
  rw [runA_skip p ws1 _ hp.1.wf.inv (by rw [hp.1.cs]; rfl) h1, hr]
  have := runA_skip q ws2 [] hq.1.wf.inv (by rw [hq.1.cs]; rfl) h2
  rw [List.append_nil, runA_nil] at this
  exact this

theorem finalize_idle (q : P) (hq : IdleN q) : finalize q = (q, none) := by
  unfold finalize
  simp [hq.1.cs, hq.1.st]

theorem parseFrom_idle (p : P) (b : Bytes) (hp : IdleN p) (q : P) (hq : IdleN q) (hr : runA p b = (q, none)) :
    parseFrom p b = ({ q with err := none }, none) := by
  unfold parseFrom
  rw [feedAll_run p b hp.1.wf.inv, hr]
  simp only [parseTail, finalize_idle q hq]

/-- a bare number at the very end of the input: `finalize` converts it.  (The token stays in
`literalBuffer`: the state after is idle only up to that — `Parse` clears the buffer when it
starts, a following `Write` does not.) -/
theorem num_end_run (tok : Bytes) (hb : tokOk tok = true) (ev : Ev) (hev : numEv tok = some ev) (ws1 : Bytes)
    (h1 : allWs ws1 = true) (p : P) (hp : IdleN p) :
    ∃ q, runA p (ws1 ++ tok) = (q, none) ∧
      finalize q = ({ p with isDouble := isDblTok tok, literalBuffer := tok, evs := ev :: p.evs,
                             nevs := p.nevs + 1 }, none) := by
  refine ⟨{ p with isDouble := isDblTok tok, literalBuffer := tok, states := .startState :: p.states,
                     currentState := .numberState }, ?_, ?_⟩
  · rw [runA_skip p ws1 _ hp.1.wf.inv (by rw [hp.1.cs]; rfl) h1]
    exact run_num_pending hp.ready tok hb
  · unfold finalize
    simp only [beq_self_eq_true, if_true]
    rw [reportNumber_numEv _ tok ev hev, visit_none _ _ (by exact hp.2)]
    simp only [popState, hp.1.st]
    have h1 : p.states = [] := hp.1.st
    have h2 : p.currentState = .startState := hp.1.cs
    cases p
    simp only at h1 h2
    subst h1; subst h2
    rfl

/-! ## `Parse` on a parser that has been used before -/

def resetP (p : P) : P := { p with states := [], literalBuffer := [], currentState := .startState }

theorem parse_eq_reset (p : P) (b : Bytes) : parse p b = parseFrom (resetP p) b := parse_eq_parseFrom p b

theorem idleN_reset {p : P} (h : Reusable p) : IdleN (resetP p) :=
  ⟨⟨⟨by constructor <;> simp [resetP, isLit], Or.inl ⟨rfl, rfl⟩⟩, ⟨rfl, h.1⟩, rfl, rfl⟩, h.2⟩

/-- ONE DOCUMENT through `Parse`, on ANY reusable parser value: accepted, exactly the
document's events are delivered (after those delivered before), the parser is reusable again -/
theorem parse_doc (v : J) (hok : v.ok = true) (hs : v.sem = true) (ws1 ws2 : Bytes) (h1 : allWs ws1 = true)
    (h2 : allWs ws2 = true) (p : P) (hp : Reusable p) :
    (parse p (ws1 ++ (v.wire ++ ws2))).2 = none ∧
    (parse p (ws1 ++ (v.wire ++ ws2))).1.evs = v.events.reverse ++ p.evs ∧
    Reusable (parse p (ws1 ++ (v.wire ++ ws2))).1 := by
  have hi := idleN_reset hp
  rw [parse_eq_reset]
  by_cases hn : v.isNum = true → ws2 ≠ []
  · obtain ⟨q, hq, he, hr⟩ := doc_run v hok hs ws1 ws2 h1 h2 hn _ hi
    rw [parseFrom_idle _ _ hi q hq hr]
    exact ⟨rfl, he, hq.1.clean.2, hq.2⟩
  · -- a bare number at the end of the input
    have hnum : v.isNum = true ∧ ws2 = [] := by
      cases hv : v.isNum with
      | true => refine ⟨rfl, ?_⟩
                cases ws2 with
                | nil => rfl
                | cons a t => exact absurd (fun _ => by simp) (by rw [hv] at hn; exact hn)
      | false => rw [hv] at hn; simp at hn
    obtain ⟨hvn, rfl⟩ := hnum
    cases v with
    | num tok =>
      simp only [J.sem] at hs
      obtain ⟨ev, hev⟩ := Option.isSome_iff_exists.mp hs
      obtain ⟨q, hr, hf⟩ := num_end_run tok (by simpa [J.ok] using hok) ev hev ws1 h1 _ hi
      simp only [J.wire, List.append_nil]
      unfold parseFrom
      rw [feedAll_run _ _ hi.1.wf.inv, hr]
      simp only [parseTail, hf, J.events, J.tree, numTree_events tok ev hev]
      exact ⟨trivial, rfl, hp.1, hp.2⟩
    | lit _ => simp [J.isNum] at hvn
    | str _ => simp [J.isNum] at hvn
    | arr _ _ => simp [J.isNum] at hvn
    | obj _ _ => simp [J.isNum] at hvn

/-! ## streams of documents -/

/-- a document of a stream: a value and the white space after it -/
abbrev Doc := J × Bytes

/-- grammatical, every token denotes, white space is white space, and a bare number is
followed by at least one white space character -/
def Doc.good (d : Doc) : Prop :=
  d.1.ok = true ∧ d.1.sem = true ∧ allWs d.2 = true ∧ (d.1.isNum = true → d.2 ≠ [])

def streamWire (ds : List Doc) : Bytes := (ds.map (fun d => d.1.wire ++ d.2)).flatten
def streamEvents (ds : List Doc) : List Ev := (ds.map (fun d => d.1.events)).flatten

theorem stream_run (ds : List Doc) (hd : ∀ d ∈ ds, d.good) (ws0 : Bytes) (h0 : allWs ws0 = true) (p : P)
    (hp : IdleN p) :
    ∃ q, IdleN q ∧ q.evs = (streamEvents ds).reverse ++ p.evs ∧ runA p (ws0 ++ streamWire ds) = (q, none) := by
  induction ds generalizing ws0 p with
  | nil =>
    refine ⟨p, hp, by simp [streamEvents], ?_⟩
    have := runA_skip p ws0 [] hp.1.wf.inv (by rw [hp.1.cs]; rfl) h0
    simpa [streamWire, runA_nil] using this
  | cons d ds ih =>
    obtain ⟨g1, g2, g3, g4⟩ := hd d (by simp)
    -- the first document, with nothing after it …
    obtain ⟨q, hq, he, hr⟩ := jreads d.1 g1 g2 p .startState [] hp.ready (d.2 ++ streamWire ds) (fun h => by
      have := stopF_of_ws g3 (g4 h)
      exact stopF_append this)
    -- … then the rest from the idle state reached
    obtain ⟨q2, hq2, he2, hr2⟩ := ih (fun d' hd' => hd d' (by simp [hd'])) d.2 g3 q hq
    refine ⟨q2, hq2, ?_, ?_⟩
    · rw [he2, he]; simp [streamEvents]
    · rw [runA_skip p ws0 _ hp.1.wf.inv (by rw [hp.1.cs]; rfl) h0]
      have e : streamWire (d :: ds) = d.1.wire ++ (d.2 ++ streamWire ds) := by simp [streamWire]
      rw [e, hr, hr2]

/-- A STREAM OF DOCUMENTS through `Parse`, on any reusable parser value -/
theorem parse_stream (ds : List Doc) (hd : ∀ d ∈ ds, d.good) (ws0 : Bytes) (h0 : allWs ws0 = true) (p : P)
    (hp : Reusable p) :
    (parse p (ws0 ++ streamWire ds)).2 = none ∧
    (parse p (ws0 ++ streamWire ds)).1.evs = (streamEvents ds).reverse ++ p.evs ∧
    Reusable (parse p (ws0 ++ streamWire ds)).1 := by
  have hi := idleN_reset hp
  obtain ⟨q, hq, he, hr⟩ := stream_run ds hd ws0 h0 _ hi
  rw [parse_eq_reset, parseFrom_idle _ _ hi q hq hr]
  exact ⟨rfl, he, hq.1.clean.2, hq.2⟩

/-! ## reuse: a history of `Parse` calls on ONE parser -/

/-- the parser after `Parse` has been called on each of the texts in turn -/
def parseSeq (p : P) (texts : List Bytes) : P := texts.foldl (fun q b => (parse q b).1) p

/-- a text: white space, a value, white space -/
structure Text where
  ws1 : Bytes
  v : J
  ws2 : Bytes

def Text.good (t : Text) : Prop := t.v.ok = true ∧ t.v.sem = true ∧ allWs t.ws1 = true ∧ allWs t.ws2 = true
def Text.bytes (t : Text) : Bytes := t.ws1 ++ (t.v.wire ++ t.ws2)

theorem parseSeq_docs (ts : List Text) (hg : ∀ t ∈ ts, t.good) (p : P) (hp : Reusable p) :
    Reusable (parseSeq p (ts.map Text.bytes)) ∧
    (parseSeq p (ts.map Text.bytes)).evs = ((ts.map (fun t => t.v.events)).flatten).reverse ++ p.evs := by
  induction ts generalizing p with
  | nil => exact ⟨hp, by simp [parseSeq]⟩
  | cons t ts ih =>
    obtain ⟨g1, g2, g3, g4⟩ := hg t (by simp)
    obtain ⟨k1, k2, k3⟩ := parse_doc t.v g1 g2 t.ws1 t.ws2 g3 g4 p hp
    obtain ⟨j1, j2⟩ := ih (fun t' ht' => hg t' (by simp [ht'])) (parse p t.bytes).1 k3
    refine ⟨j1, ?_⟩
    show (parseSeq (parse p t.bytes).1 (ts.map Text.bytes)).evs = _
    rw [j2]
    show _ ++ (parse p (t.ws1 ++ (t.v.wire ++ t.ws2))).1.evs = _
    rw [k2]; simp

/-- C17 for the JSON parser: after ANY history of grammatical documents, each given to
`Parse` on ONE parser, the parser is reusable (and has delivered exactly their events), and
`Parse` of a probe document on it is accepted and delivers exactly the probe's events — as
on a parser that never saw the history -/
theorem parser_reuse (hist : List Text) (probe : Text) (hh : ∀ t ∈ hist, t.good) (hp : probe.good) :
    Reusable (parseSeq {} (hist.map Text.bytes)) ∧
    events (parseSeq {} (hist.map Text.bytes)) = (hist.map (fun t => t.v.events)).flatten ∧
    (parse (parseSeq {} (hist.map Text.bytes)) probe.bytes).2 = none ∧
    (parse {} probe.bytes).2 = none ∧
    events (parse (parseSeq {} (hist.map Text.bytes)) probe.bytes).1 =
      events (parseSeq {} (hist.map Text.bytes)) ++ probe.v.events ∧
    events (parse {} probe.bytes).1 = probe.v.events := by
  have h0 : Reusable ({} : P) := ⟨rfl, rfl⟩
  obtain ⟨k1, k2⟩ := parseSeq_docs hist hh {} h0
  obtain ⟨g1, g2, g3, g4⟩ := hp
  obtain ⟨a1, a2, _⟩ := parse_doc probe.v g1 g2 probe.ws1 probe.ws2 g3 g4 _ k1
  obtain ⟨b1, b2, _⟩ := parse_doc probe.v g1 g2 probe.ws1 probe.ws2 g3 g4 {} h0
  refine ⟨k1, ?_, a1, b1, ?_, ?_⟩
  · simp only [Parse.events, k2]; simp
  · simp only [Parse.events]
    show (parse _ (probe.ws1 ++ (probe.v.wire ++ probe.ws2))).1.evs.reverse = _
    rw [a2]; simp
  · simp only [Parse.events]
    show (parse _ (probe.ws1 ++ (probe.v.wire ++ probe.ws2))).1.evs.reverse = _
    rw [b2]; simp

end SF.Json.ParseP
