/-
  Basic facts about the pieces of the JSON parser mirror (SF/Json/Parse.lean): bytes,
  visitor calls, state stack, the scanning functions, number conversion and `unquote`.
  Used by the C03 proofs for JSON (SF/Proofs/JsonStep.lean … JsonParseTop.lean).
-/
import SF.Json.Parse
set_option linter.unusedSimpArgs false
namespace SF.Json.ParseP
open SF SF.Json SF.Json.Parse SF.Json.Float

/-! ## bytes -/

/-- a property of all bytes can be checked on the 256 values -/
theorem forall_uint8 {P : UInt8 → Prop} (h : ∀ n : Fin 256, P (UInt8.ofNat n.val)) : ∀ c, P c := by
  intro c
  have := h ⟨c.toNat, UInt8.toNat_lt c⟩
  simpa using this

theorem kind_null : strBytes "null" = [110, 117, 108, 108] := by decide
theorem kind_true : strBytes "true" = [116, 114, 117, 101] := by decide
theorem kind_false : strBytes "false" = [102, 97, 108, 115, 101] := by decide

/-- a character that may start a number is not one of the characters that end it -/
theorem numStart_not_stop : ∀ c : UInt8,
    (c == ch '-' || c == ch '+' || c == ch '.' || Parse.isDigit c) = true → isStopChar c = false := by
  apply forall_uint8; decide +kernel

/-! ## the fatal outcomes -/

/-- `Safe e`: the outcome is neither of the two that stand for a crash of the Go code
(`panic`: slice index out of range; `outOfFuel`: a loop that does not end) -/
def Safe (e : Option Err) : Prop := e ≠ some .panic ∧ e ≠ some .outOfFuel

@[simp] theorem safe_none : Safe none := by simp [Safe]

theorem safe_some {e : Err} (h1 : e ≠ .panic) (h2 : e ≠ .outOfFuel) : Safe (some e) := by
  simp [Safe, h1, h2]

/-! ## visitor, state stack -/

theorem visit_fst (p : P) (e : Ev) : (visit p e).1 = { p with evs := e :: p.evs, nevs := p.nevs + 1 } := by
  simp only [visit]; split <;> (try split) <;> rfl

theorem visit_err (p : P) (e : Ev) : (visit p e).2 = none ∨ (visit p e).2 = some .visitor := by
  simp only [visit]; split <;> (try split) <;> simp

theorem visit_safe (p : P) (e : Ev) : Safe (visit p e).2 := by
  rcases visit_err p e with h | h <;> rw [h] <;> simp [Safe]

theorem visit_eq (p : P) (e : Ev) :
    visit p e = ({ p with evs := e :: p.evs, nevs := p.nevs + 1 }, (visit p e).2) := by
  rw [← visit_fst]


/-! ## trimLeft, scanning -/

theorem trimLeft_length_le (b : Bytes) : (trimLeft b).length ≤ b.length := by
  induction b with
  | nil => simp [trimLeft]
  | cons c rest ih =>
    simp only [trimLeft]
    split
    · simp only [List.length_cons]; omega
    · simp

/-- trimLeft returns a suffix -/
theorem trimLeft_suffix (b : Bytes) : ∃ ws, b = ws ++ trimLeft b := by
  induction b with
  | nil => exact ⟨[], by simp [trimLeft]⟩
  | cons c rest ih =>
    simp only [trimLeft]
    split
    · obtain ⟨ws, h⟩ := ih
      exact ⟨c :: ws, by simp [← h]⟩
    · exact ⟨[], by simp⟩

/-- the index found by scanString lies inside the scanned bytes -/
theorem scanString_some (buf : Bytes) (esc : Bool) (k i : Nat) (esc' : Bool)
    (h : scanString buf esc k = (some i, esc')) : k ≤ i ∧ i < k + buf.length := by
  induction buf generalizing esc k with
  | nil => simp [scanString] at h
  | cons c rest ih =>
    simp only [scanString] at h
    simp only [List.length_cons]
    split at h
    · have := ih _ _ h; omega
    · split at h
      · simp only [Prod.mk.injEq, Option.some.injEq] at h; omega
      · split at h
        · have := ih _ _ h; omega
        · have := ih _ _ h; omega

/-- scanNumber splits its input: token ++ rest, the token is free of stop characters, and
if it stopped then the rest begins with one -/
theorem scanNumber_split (b : Bytes) (dbl : Bool) :
    b = (scanNumber b dbl).1 ++ (scanNumber b dbl).2.1 := by
  induction b generalizing dbl with
  | nil => simp [scanNumber]
  | cons c rest ih =>
    simp only [scanNumber]
    split
    · simp
    · simp only [List.cons_append, List.cons.injEq, true_and]
      exact ih _

theorem scanNumber_not_done (b : Bytes) (dbl : Bool) (h : (scanNumber b dbl).2.2.1 = false) :
    (scanNumber b dbl).2.1 = [] := by
  induction b generalizing dbl with
  | nil => simp [scanNumber]
  | cons c rest ih =>
    simp only [scanNumber] at h ⊢
    split
    · rename_i hs; simp [hs] at h
    · rename_i hs
      simp only [hs] at h
      exact ih _ h

theorem scanNumber_tok_ne (c : UInt8) (rest : Bytes) (dbl : Bool) (h : isStopChar c = false) :
    (scanNumber (c :: rest) dbl).1 ≠ [] := by
  simp [scanNumber, h]

theorem scanNumber_rest_le (b : Bytes) (dbl : Bool) : (scanNumber b dbl).2.1.length ≤ b.length := by
  have h := congrArg List.length (scanNumber_split b dbl)
  simp only [List.length_append] at h
  omega


/-! ## numbers -/

/-- the errors `strconv`-style integer conversion can report -/
def NumErr (e : Err) : Prop := e = .expectedDigit ∨ e = .invalidNumber ∨ e = .numberOverflow

theorem parseUint_go_err (b : Bytes) (n : Nat) (e : Err) (h : parseUint.go (maxUint64 / 10 + 1) n b = .error e) :
    NumErr e := by
  induction b generalizing n with
  | nil => simp [parseUint.go] at h
  | cons c rest ih =>
    simp only [parseUint.go] at h
    split at h
    · injection h with h; subst h; simp [NumErr]
    · split at h
      · injection h with h; subst h; simp [NumErr]
      · split at h
        · injection h with h; subst h; simp [NumErr]
        · exact ih _ h

theorem parseUint_err (b : Bytes) (e : Err) (h : parseUint b = .error e) : NumErr e := by
  simp only [parseUint] at h
  split at h
  · injection h with h; subst h; simp [NumErr]
  · exact parseUint_go_err _ _ _ h

theorem parseInt_err (b : Bytes) (hb : b ≠ []) (e : Err) (h : parseInt b = .error e) : NumErr e := by
  cases b with
  | nil => exact absurd rfl hb
  | cons c rest =>
    simp only [parseInt] at h
    generalize (if (c == ch '+') = true then (false, rest)
        else if (c == ch '-') = true then (true, rest) else (false, c :: rest) : Bool × Bytes) = nb at h
    obtain ⟨neg, b'⟩ := nb
    simp only at h
    cases hu : parseUint b' with
    | error e' =>
      rw [hu] at h
      injection h with h; subst h
      exact parseUint_err _ _ hu
    | ok u =>
      rw [hu] at h
      simp only at h
      split at h
      · injection h with h; subst h; simp [NumErr]
      · simp at h

theorem numErr_safe {e : Err} (h : NumErr e) : Safe (some e) := by
  rcases h with h | h | h <;> subst h <;> simp [Safe]

/-- reportNumber on a non-empty token: the parser changes only by the event log, the
outcome is not fatal -/
theorem reportNumber_spec (p : P) (b : Bytes) (dbl : Bool) (hb : b ≠ []) :
    Safe (reportNumber p b dbl).2 ∧
    ∃ evs nevs, (reportNumber p b dbl).1 = { p with evs := evs, nevs := nevs } := by
  have hp : p = { p with evs := p.evs, nevs := p.nevs } := rfl
  simp only [reportNumber]
  split
  · split
    · exact ⟨visit_safe _ _, _, _, visit_fst _ _⟩
    · exact ⟨by simp [Safe], _, _, hp⟩
    · exact ⟨by simp [Safe], _, _, hp⟩
    · exact ⟨by simp [Safe], _, _, hp⟩
  · split
    · rename_i e he
      exact ⟨numErr_safe (parseInt_err _ hb _ he), _, _, hp⟩
    · split
      · exact ⟨visit_safe _ _, _, _, visit_fst _ _⟩
      · split
        · exact ⟨visit_safe _ _, _, _, visit_fst _ _⟩
        · exact ⟨visit_safe _ _, _, _, visit_fst _ _⟩


/-! ## unquote never runs out of fuel -/

theorem decodeRune_size_pos (c : UInt8) (rest : Bytes) : 1 ≤ (Utf8.decodeRune (c :: rest)).2 := by
  simp only [Utf8.decodeRune]
  repeat' split
  all_goals simp

theorem scanPlain_fuel (fuel : Nat) (l : Bytes) (i : Nat) (h : l.length < fuel) :
    scanPlain fuel l i ≠ none := by
  induction fuel generalizing l i with
  | zero => omega
  | succ fuel ih =>
    cases l with
    | nil => simp [scanPlain]
    | cons c rest =>
      simp only [scanPlain]
      split
      · simp
      · split
        · exact ih _ _ (by simp only [List.length_cons] at h; omega)
        · have hs := decodeRune_size_pos c rest
          generalize Utf8.decodeRune (c :: rest) = rs at hs ⊢
          obtain ⟨r, sz⟩ := rs
          simp only at hs ⊢
          split
          · simp
          · apply ih
            simp only [List.length_drop, List.length_cons] at h ⊢
            omega

/-- the rewrite loop of unquote neither runs out of fuel (every round consumes a byte)
nor indexes out of range -/
theorem unquoteLoop_fuel (fuel : Nat) (rest out : Bytes) (h : rest.length < fuel) (e : Err)
    (he : e = .outOfFuel ∨ e = .panic) : unquoteLoop fuel rest out ≠ .error e := by
  induction fuel generalizing rest out with
  | zero => omega
  | succ fuel ih =>
    cases rest with
    | nil => simp [unquoteLoop]
    | cons c tl =>
      simp only [List.length_cons] at h
      rw [unquoteLoop.eq_def]
      simp only
      by_cases hc : (c == ch '\\') = true
      · rw [if_pos hc]
        cases tl with
        | nil => rcases he with rfl | rfl <;> simp
        | cons e tl2 =>
          simp only [List.length_cons] at h
          simp only
          by_cases h1 : (e == ch '"' || e == ch '\\' || e == ch '/' || e == ch '\'') = true
          · rw [if_pos h1]; exact ih _ _ (by omega)
          rw [if_neg h1]
          by_cases h2 : (e == ch 'b') = true
          · rw [if_pos h2]; exact ih _ _ (by omega)
          rw [if_neg h2]
          by_cases h3 : (e == ch 'f') = true
          · rw [if_pos h3]; exact ih _ _ (by omega)
          rw [if_neg h3]
          by_cases h4 : (e == ch 'n') = true
          · rw [if_pos h4]; exact ih _ _ (by omega)
          rw [if_neg h4]
          by_cases h5 : (e == ch 'r') = true
          · rw [if_pos h5]; exact ih _ _ (by omega)
          rw [if_neg h5]
          by_cases h6 : (e == ch 't') = true
          · rw [if_pos h6]; exact ih _ _ (by omega)
          rw [if_neg h6]
          by_cases h7 : (e == ch 'u') = true
          · rw [if_pos h7]
            by_cases h8 : Utf8.lenLt tl2 4 = true
            · rw [if_pos h8]; rcases he with rfl | rfl <;> simp
            rw [if_neg h8]
            cases parseHex4 (List.take 4 tl2) with
            | none => rcases he with rfl | rfl <;> simp
            | some code =>
              simp only
              by_cases h9 : Utf8.isSurrogate code = true
              · rw [if_pos h9]
                apply ih
                have : ∀ (v : Bool) (x : Option Nat),
                    (if v = true then
                      match x with
                      | some code2 =>
                        if (Utf8.decodeSurrogates code code2 != Utf8.runeError) = true then
                          (Utf8.decodeSurrogates code code2, List.drop 6 (List.drop 4 tl2))
                        else (Utf8.decodeSurrogates code code2, List.drop 4 tl2)
                      | none => (Utf8.runeError, List.drop 4 tl2)
                    else (Utf8.runeError, List.drop 4 tl2)).snd.length ≤ tl2.length := by
                  intro v x
                  split
                  · split
                    · split
                      · simp only [List.length_drop]; omega
                      · simp only [List.length_drop]; omega
                    · simp only [List.length_drop]; omega
                  · simp only [List.length_drop]; omega
                exact Nat.lt_of_le_of_lt (this _ _) (by omega)
              · rw [if_neg h9]
                apply ih
                simp only [List.length_drop]; omega
          · rw [if_neg h7]; rcases he with rfl | rfl <;> simp
      · rw [if_neg hc]
        by_cases h1 : (c == ch '"' || decide (c < ch ' ')) = true
        · rw [if_pos h1]; rcases he with rfl | rfl <;> simp
        rw [if_neg h1]
        by_cases h2 : c < Utf8.runeSelf
        · rw [if_pos h2]; exact ih _ _ (by omega)
        rw [if_neg h2]
        have hs := decodeRune_size_pos c tl
        apply ih
        simp only [List.length_drop, List.length_cons]
        omega

theorem unquote_safe (inp : Bytes) (e : Err) (h : unquote inp = .error e) : Safe (some e) := by
  simp only [unquote] at h
  split at h
  · simp at h
  · have h1 := scanPlain_fuel (inp.length + 1) inp 0 (by omega)
    split at h
    · rename_i hn; exact absurd hn h1
    · split at h
      · simp at h
      · rename_i i _ _
        have h2 := unquoteLoop_fuel (inp.length + 1) (inp.drop i) (inp.take i).reverse
          (by simp only [List.length_drop]; omega)
        constructor
        · intro hc; injection hc with hc; subst hc; exact h2 _ (Or.inr rfl) h
        · intro hc; injection hc with hc; subst hc; exact h2 _ (Or.inl rfl) h


/-! ## doString, exactly -/

theorem scanString_fst_some (buf : Bytes) (esc : Bool) (i : Nat) (h : (scanString buf esc 0).1 = some i) :
    i < buf.length := by
  have := scanString_some buf esc 0 i (scanString buf esc 0).2 (by rw [← h])
  omega

/-- first write of a string (the buffer is empty, `c` is the opening quote), no closing
quote in this write: everything is buffered -/
theorem doString_start_none (p : P) (c : UInt8) (tl : Bytes) (hlb : p.literalBuffer = [])
    (h : (scanString tl p.inEscape 0).1 = none) :
    doString p (c :: tl) =
      ({ p with literalBuffer := c :: tl, inEscape := (scanString tl p.inEscape 0).2 }, [], false, [], none) := by
  unfold doString
  simp only [hlb, List.isEmpty_nil, List.isEmpty_cons, Bool.and_false, Bool.false_eq_true, if_false, if_true,
    List.drop_succ_cons, List.drop_zero, List.nil_append, h]

/-- first write of a string, closing quote at index `i` of the bytes after the opening
quote: the body is `tl.take i` -/
theorem doString_start_some (p : P) (c : UInt8) (tl : Bytes) (i : Nat) (hlb : p.literalBuffer = [])
    (h : (scanString tl p.inEscape 0).1 = some i) :
    doString p (c :: tl) =
      match unquote (tl.take i) with
      | .error e => ({ p with inEscape := (scanString tl p.inEscape 0).2 }, [], false, [], some e)
      | .ok s => ({ p with inEscape := (scanString tl p.inEscape 0).2 }, s, true, tl.drop (i + 1), none) := by
  have hi := scanString_fst_some _ _ _ h
  have h1 : (List.take (i + 2) (c :: tl)).length = i + 2 := by
    simp only [List.length_take, List.length_cons]; omega
  have h2 : List.take i (List.drop 1 (List.take (i + 2) (c :: tl))) = tl.take i := by
    simp only [List.take_succ_cons, List.drop_succ_cons, List.drop_zero, List.take_take]
    congr 1; omega
  have hp : ({ p with inEscape := (scanString tl p.inEscape 0).2 } : P) =
      { states := p.states, currentState := p.currentState, inEscape := (scanString tl p.inEscape 0).snd,
        isDouble := p.isDouble, required := p.required, err := p.err, evs := p.evs, nevs := p.nevs,
        failAt := p.failAt } := by
    cases p; simp only at hlb; subst hlb; rfl
  unfold doString
  simp only [hlb, List.isEmpty_nil, List.isEmpty_cons, Bool.and_false, Bool.false_eq_true, if_false, if_true,
    List.drop_succ_cons, List.drop_zero, List.nil_append, h, Bool.not_true, h1, Nat.add_sub_cancel, h2, hp,
    Nat.lt_irrefl, Nat.not_lt.mpr (Nat.le_add_left 2 i)]
  rfl

/-- later write of a string (`l :: ls` buffered, `l` the opening quote), no closing quote -/
theorem doString_cont_none (p : P) (b : Bytes) (l : UInt8) (ls : Bytes) (hlb : p.literalBuffer = l :: ls)
    (h : (scanString b p.inEscape 0).1 = none) :
    doString p b =
      ({ p with literalBuffer := l :: ls ++ b, inEscape := (scanString b p.inEscape 0).2 }, [], false, [], none) := by
  unfold doString
  simp only [hlb, List.isEmpty_cons, Bool.false_and, Bool.false_eq_true, if_false, h]

/-- later write of a string, closing quote at index `i` of this write: the body is what was
buffered after the opening quote followed by `b.take i` -/
theorem doString_cont_some (p : P) (b : Bytes) (l : UInt8) (ls : Bytes) (i : Nat) (hlb : p.literalBuffer = l :: ls)
    (h : (scanString b p.inEscape 0).1 = some i) :
    doString p b =
      match unquote (ls ++ b.take i) with
      | .error e => ({ p with literalBuffer := [], inEscape := (scanString b p.inEscape 0).2 }, [], false, [], some e)
      | .ok s => ({ p with literalBuffer := [], inEscape := (scanString b p.inEscape 0).2 }, s, true, b.drop (i + 1), none) := by
  have hi := scanString_fst_some _ _ _ h
  have h1 : (l :: ls ++ List.take (i + 1) b).length = ls.length + i + 2 := by
    simp only [List.length_cons, List.length_append, List.length_take]; omega
  have h2 : List.take (ls.length + i) (List.drop 1 (l :: ls ++ List.take (i + 1) b)) = ls ++ b.take i := by
    simp only [List.cons_append, List.drop_succ_cons, List.drop_zero]
    rw [List.take_append]
    simp only [Nat.le_add_right, List.take_of_length_le, Nat.add_sub_cancel_left, List.take_take]
    congr 2; omega
  unfold doString
  simp only [hlb, List.isEmpty_cons, Bool.false_and, Bool.false_eq_true, if_false, h, Bool.not_false, if_true,
    h1, Nat.add_sub_cancel, h2, Nat.not_lt.mpr (Nat.le_add_left 2 (ls.length + i))]
  rfl


/-! ## stepKind, stepNumber, exactly -/

theorem stepKind_short (p : P) (b kind : Bytes) (err : Err) (hn : p.required ≤ kind.length)
    (hb : b.length < p.required) :
    stepKind p b kind err =
      if hasPrefix b ((kind.drop (kind.length - p.required)).take b.length) then
        ({ p with required := p.required - b.length }, [], false, none)
      else ({ p with required := p.required - b.length }, b, false, some err) := by
  unfold stepKind
  have h1 : ¬ p.required > kind.length := by omega
  have h2 : (List.take p.required b).length = b.length := by simp only [List.length_take]; omega
  simp only [h1, if_false, h2, hb, if_true]
  split
  · rename_i h; simp at h; simp [h]
  · rename_i h; simp at h; simp [h]

theorem stepKind_full (p : P) (b kind : Bytes) (err : Err) (hn : p.required ≤ kind.length)
    (hb : p.required ≤ b.length) :
    stepKind p b kind err =
      if hasPrefix b (kind.drop (kind.length - p.required)) then
        (popState p, b.drop p.required, true, none)
      else (p, b, false, some err) := by
  unfold stepKind
  have h1 : ¬ p.required > kind.length := by omega
  have h2 : (List.take p.required b).length = p.required := by simp only [List.length_take]; omega
  simp only [h1, if_false, h2, Nat.lt_irrefl]
  split
  · rename_i h; simp at h; simp [h]
  · rename_i h; simp at h; simp [h]

theorem stepNumber_more (p : P) (b : Bytes) (h : (scanNumber b p.isDouble).2.2.1 = false) :
    stepNumber p b =
      { p := { p with isDouble := (scanNumber b p.isDouble).2.2.2, literalBuffer := p.literalBuffer ++ b },
        rest := [] } := by
  unfold stepNumber
  simp only [h, Bool.not_false, if_true]

theorem stepNumber_done (p : P) (b : Bytes) (h : (scanNumber b p.isDouble).2.2.1 = true) :
    stepNumber p b =
      { p := popState (reportNumber { p with isDouble := (scanNumber b p.isDouble).2.2.2, literalBuffer := [] }
                (p.literalBuffer ++ (scanNumber b p.isDouble).1) (scanNumber b p.isDouble).2.2.2).1,
        rest := (scanNumber b p.isDouble).2.1, reported := true,
        err := (reportNumber { p with isDouble := (scanNumber b p.isDouble).2.2.2, literalBuffer := [] }
                (p.literalBuffer ++ (scanNumber b p.isDouble).1) (scanNumber b p.isDouble).2.2.2).2 } := by
  unfold stepNumber
  simp only [h, Bool.not_true, Bool.false_eq_true, if_false]
  cases hlb : p.literalBuffer with
  | nil =>
    have : ({ p with isDouble := (scanNumber b p.isDouble).2.2.2, literalBuffer := [] } : P) =
      { p with isDouble := (scanNumber b p.isDouble).2.2.2 } := by
      cases p; simp only at hlb; subst hlb; rfl
    simp [this]
  | cons l ls => simp

theorem stepLit_short (p : P) (b : Bytes) (kind : String) (err : Err) (ev : Ev)
    (hn : p.required ≤ (strBytes kind).length) (hb : b.length < p.required) :
    stepLit p b kind err ev =
      if hasPrefix b (((strBytes kind).drop ((strBytes kind).length - p.required)).take b.length) then
        { p := { p with required := p.required - b.length }, rest := [], reported := false, err := none }
      else { p := { p with required := p.required - b.length }, rest := b, reported := false, err := some err } := by
  unfold stepLit
  rw [stepKind_short p b _ err hn hb]
  by_cases h : hasPrefix b (((strBytes kind).drop ((strBytes kind).length - p.required)).take b.length) = true
  · rw [if_pos h, if_pos h]; rfl
  · rw [if_neg h, if_neg h]; rfl

theorem stepLit_full (p : P) (b : Bytes) (kind : String) (err : Err) (ev : Ev)
    (hn : p.required ≤ (strBytes kind).length) (hb : p.required ≤ b.length) :
    stepLit p b kind err ev =
      if hasPrefix b ((strBytes kind).drop ((strBytes kind).length - p.required)) then
        { p := (visit (popState p) ev).1, rest := b.drop p.required, reported := true,
          err := (visit (popState p) ev).2 }
      else { p := p, rest := b, reported := false, err := some err } := by
  unfold stepLit
  rw [stepKind_full p b _ err hn hb]
  by_cases h : hasPrefix b ((strBytes kind).drop ((strBytes kind).length - p.required)) = true
  · rw [if_pos h, if_pos h]; rfl
  · rw [if_neg h, if_neg h]; rfl

end SF.Json.ParseP
