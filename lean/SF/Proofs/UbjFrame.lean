/-
  C17 for the UBJSON parser mirror, part 1: THE FRAME.

  `Fr v E0 p` is the parser `p` with another scratch field `valueType := v`, with the events `E0`
  delivered earlier (before everything `p` has delivered), and the visitor's fault index shifted
  accordingly.  Every step function commutes with the frame —

        f (Fr v E0 p) b = (f p b).mapP (Fr v E0)

  — except the two places that touch `valueType`: `stepType` WRITES it (there the frames of the
  two results carry the new value, `vtAfter`), and `stepArrayTyped` in step `stWithLen` READS it
  (there the equation needs `v = p.valueType`).  Hence `dispatch_fr` / `execStep_fr`.
-/
import SF.Proofs.UbjNoPanicLoop
namespace SF.Ubjson.Parse
open SF SF.Ubjson
open StateType StateStep

/-- the frame -/
def Fr (v : Nat) (E0 : List Ev) (p : P) : P :=
  { p with valueType := v, evs := p.evs ++ E0, failAt := p.failAt.map (· + E0.length) }

def R.mapP (f : P → P) (r : R) : R := { r with p := f r.p }

@[simp] theorem mapP_p (f : P → P) (r : R) : (r.mapP f).p = f r.p := rfl
@[simp] theorem mapP_rest (f : P → P) (r : R) : (r.mapP f).rest = r.rest := rfl
@[simp] theorem mapP_done (f : P → P) (r : R) : (r.mapP f).done = r.done := rfl
@[simp] theorem mapP_err (f : P → P) (r : R) : (r.mapP f).err = r.err := rfl

section
variable (v : Nat) (E0 : List Ev)

theorem fr_state (p : P) : (Fr v E0 p).state = p.state := rfl
theorem fr_valueState (p : P) : (Fr v E0 p).valueState = p.valueState := rfl
theorem fr_length (p : P) : (Fr v E0 p).length = p.length := rfl
theorem fr_buffer (p : P) : (Fr v E0 p).buffer = p.buffer := rfl
theorem fr_marker (p : P) : (Fr v E0 p).marker = p.marker := rfl
theorem fr_err (p : P) : (Fr v E0 p).err = p.err := rfl
theorem fr_valueType (p : P) : (Fr v E0 p).valueType = v := rfl
theorem fr_evs (p : P) : (Fr v E0 p).evs = p.evs ++ E0 := rfl

theorem fr_addEv (p : P) (e : Ev) : addEv (Fr v E0 p) e = Fr v E0 (addEv p e) := rfl

theorem fr_verr (p : P) : verr (Fr v E0 p) = verr p := by
  simp only [verr, Fr]
  cases p.failAt with
  | none => rfl
  | some k =>
    simp only [Option.map_some, List.length_append, ge_iff_le, Nat.add_le_add_iff_right]

theorem fr_visit (p : P) (e : Ev) : visit (Fr v E0 p) e = (Fr v E0 (addEv p e), verr p) := by
  rw [visit_eq, fr_addEv, fr_verr]

theorem fr_collectP (p : P) (b : Bytes) (n : Nat) :
    collectP (Fr v E0 p) b n = (Fr v E0 (collectP p b n).1, (collectP p b n).2.1, (collectP p b n).2.2) := rfl

theorem fr_popState (p : P) : popState (Fr v E0 p) = (Fr v E0 (popState p).1, (popState p).2) := rfl
theorem fr_popLenState (p : P) : popLenState (Fr v E0 p) = (Fr v E0 (popLenState p).1, (popLenState p).2) := rfl

/-- split on the outcome of a visitor call -/
macro "vsplit " q:term : tactic =>
  `(tactic| (rcases verr_cases $q with hve | hve <;> rw [hve] <;> simp only []))

/-- split an `if` on BOTH sides of the goal -/
macro "isplit" : tactic =>
  `(tactic| (split <;> rename_i hsp <;> (try simp only [hsp, if_true, if_false, Bool.false_eq_true, ↓reduceIte]) <;>
      (try rw [if_pos hsp]) <;> (try rw [if_neg hsp])))

/-! ### stepLen -/

theorem lenFin_fr (cont : St) (p : P) (b : Bytes) (L : Int) :
    lenFin cont (Fr v E0 p) b L = (lenFin cont p b L).mapP (Fr v E0) := by
  unfold lenFin
  split <;> rfl

theorem lenColl_fr (cont : St) (p : P) (b : Bytes) (n : Nat) (rd : Bytes → Int) :
    (match collectP (Fr v E0 p) b n with
      | (p, rest, none) => ({ p := p, rest := rest } : R)
      | (p, rest, some tmp) => lenFin cont p rest (rd tmp)) =
    (match collectP p b n with
      | (p, rest, none) => ({ p := p, rest := rest } : R)
      | (p, rest, some tmp) => lenFin cont p rest (rd tmp)).mapP (Fr v E0) := by
  rw [fr_collectP]
  rcases collectP p b n with ⟨q, rest, tmp⟩
  cases tmp with
  | none => rfl
  | some t => exact lenFin_fr v E0 cont q rest _

theorem lenValue_fr (cont : St) (p : P) (b : Bytes) :
    lenValue cont (Fr v E0 p) b = (lenValue cont p b).mapP (Fr v E0) := by
  unfold lenValue
  dsimp (instances := true) only [fr_marker]
  isplit
  · cases b with
    | nil => rfl
    | cons b0 bs => exact lenFin_fr v E0 cont p bs _
  isplit
  · cases b with
    | nil => rfl
    | cons b0 bs => exact lenFin_fr v E0 cont p bs _
  isplit
  · exact lenColl_fr v E0 cont p b 2 _
  isplit
  · exact lenColl_fr v E0 cont p b 4 _
  isplit
  · exact lenColl_fr v E0 cont p b 8 _
  rfl

theorem stepLen_fr (p : P) (b : Bytes) (cont : St) :
    stepLen (Fr v E0 p) b cont = (stepLen p b cont).mapP (Fr v E0) := by
  rw [stepLen_eq, stepLen_eq]
  dsimp (instances := true) only [fr_marker]
  isplit
  · cases b with
    | nil => rfl
    | cons b0 bs =>
      simp only []
      isplit
      · isplit
        · rfl
        · exact lenValue_fr v E0 cont { p with marker := b0 } bs
      · rfl
  · exact lenValue_fr v E0 cont p b

/-! ### stepValue -/

theorem stepValue_fr (p : P) (b : Bytes) : stepValue (Fr v E0 p) b = (stepValue p b).mapP (Fr v E0) := by
  unfold stepValue
  cases b with
  | nil => rfl
  | cons x bs =>
    simp only []
    split
    · rfl
    · split <;> (try simp only [visit_eq, fr_addEv, fr_verr]) <;> rfl

/-! ### stepFixedValue -/

theorem fixFin_fr (p : P) (b : Bytes) (done : Bool) (err : Option Err) :
    fixFin (Fr v E0 p) b done err = (fixFin p b done err).mapP (Fr v E0) := by
  unfold fixFin
  split <;> rfl

theorem fixNow_fr (p : P) (b : Bytes) (e : Ev) :
    (let (q, err) := visit (Fr v E0 p) e; fixFin q b true err) =
      (let (q, err) := visit p e; fixFin q b true err).mapP (Fr v E0) := by
  simp only [visit_eq, fr_addEv, fr_verr]
  exact fixFin_fr v E0 _ _ _ _

theorem fixColl_fr (p : P) (b : Bytes) (n : Nat) (mk : Bytes → Ev) :
    (match collectP (Fr v E0 p) b n with
      | (p, rest, none) => fixFin p rest false none
      | (p, rest, some tmp) => let (p, err) := visit p (mk tmp); fixFin p rest true err) =
    (match collectP p b n with
      | (p, rest, none) => fixFin p rest false none
      | (p, rest, some tmp) => let (p, err) := visit p (mk tmp); fixFin p rest true err).mapP (Fr v E0) := by
  rw [fr_collectP]
  rcases collectP p b n with ⟨q, rest, tmp⟩
  cases tmp with
  | none => exact fixFin_fr v E0 _ _ _ _
  | some t => exact fixNow_fr v E0 _ _ _

theorem stepFixedValue_fr (p : P) (b : Bytes) :
    stepFixedValue (Fr v E0 p) b = (stepFixedValue p b).mapP (Fr v E0) := by
  rw [stepFixedValue_eq, stepFixedValue_eq]
  dsimp (instances := true) only [fr_state]
  split
  · exact fixNow_fr v E0 _ _ _
  · exact fixFin_fr v E0 _ _ _ _
  · exact fixNow_fr v E0 _ _ _
  · exact fixNow_fr v E0 _ _ _
  · cases b with
    | nil => rfl
    | cons x bs => exact fixNow_fr v E0 _ _ _
  · cases b with
    | nil => rfl
    | cons x bs => exact fixNow_fr v E0 _ _ _
  · exact fixColl_fr v E0 _ _ _ _
  · exact fixColl_fr v E0 _ _ _ _
  · exact fixColl_fr v E0 _ _ _ _
  · exact fixColl_fr v E0 _ _ _ _
  · exact fixColl_fr v E0 _ _ _ _
  · exact fixColl_fr v E0 _ _ _ _
  · rfl

/-! ### stepString -/

theorem strFin_fr (p : P) (b : Bytes) (done : Bool) (err : Option Err) :
    strFin (Fr v E0 p) b done err = (strFin p b done err).mapP (Fr v E0) := by
  unfold strFin
  split <;> rfl

theorem strWithLen_fr (p : P) (b : Bytes) : strWithLen (Fr v E0 p) b = (strWithLen p b).mapP (Fr v E0) := by
  unfold strWithLen
  dsimp (instances := true) only [fr_length]
  isplit
  · simp only [visit_eq, fr_addEv, fr_verr]; exact strFin_fr v E0 _ _ _ _
  · isplit
    · rfl
    · simp only [fr_collectP]
      rcases collectP p b p.length.current.toNat with ⟨q, rest, tmp⟩
      cases tmp with
      | none => exact strFin_fr v E0 _ _ _ _
      | some t => simp only [visit_eq, fr_addEv, fr_verr]; exact strFin_fr v E0 _ _ _ _

theorem stepString_fr (p : P) (b : Bytes) : stepString (Fr v E0 p) b = (stepString p b).mapP (Fr v E0) := by
  rw [stepString_eq, stepString_eq]
  dsimp (instances := true) only [fr_state]
  split
  · simp only [stepLen_fr, mapP_err, mapP_p, mapP_rest, fr_state]
    isplit
    · exact strFin_fr v E0 _ _ _ _
    · exact strWithLen_fr v E0 _ _
  · exact strWithLen_fr v E0 _ _
  · exact strFin_fr v E0 _ _ _ _

/-! ### arrays -/

theorem fr_setType (p : P) (t : StateType) : setType (Fr v E0 p) t = Fr v E0 (setType p t) := rfl
theorem fr_setStep (p : P) (t : StateStep) : setStep (Fr v E0 p) t = Fr v E0 (setStep p t) := rfl
theorem fr_decLen (p : P) : decLen (Fr v E0 p) = Fr v E0 (decLen p) := rfl
theorem fr_popLen (p : P) : popLen (Fr v E0 p) = Fr v E0 (popLen p) := rfl

theorem stepArrayInit_fr (p : P) (b : Bytes) : stepArrayInit (Fr v E0 p) b = (stepArrayInit p b).mapP (Fr v E0) := by
  unfold stepArrayInit
  cases b with
  | nil => rfl
  | cons x bs =>
    simp only []
    isplit
    · rfl
    isplit
    · rfl
    · simp only [fr_setType, visit_eq, fr_addEv, fr_verr]; rfl

theorem stepArrayDyn_fr (p : P) (b : Bytes) : stepArrayDyn (Fr v E0 p) b = (stepArrayDyn p b).mapP (Fr v E0) := by
  unfold stepArrayDyn
  cases b with
  | nil => rfl
  | cons x bs =>
    simp only []
    isplit
    · simp only [visit_eq, fr_addEv, fr_verr]
      vsplit p <;> rfl
    · dsimp (instances := true) only [fr_state]
      isplit
      · simp only [fr_setStep, stepValue_fr]; rfl
      · simp only [stepValue_fr]; rfl

theorem acContent_fr (l : Int) (b : Bytes) (p : P) :
    acContent l b (Fr v E0 p) = (acContent l b p).mapP (Fr v E0) := by
  unfold acContent
  isplit
  · simp only [visit_eq, fr_addEv, fr_verr]
    vsplit p <;> rfl
  · cases b with
    | nil => rfl
    | cons x bs =>
      simp only []
      isplit
      · rfl
      · simp only [fr_decLen, stepValue_fr]; rfl

theorem stepArrayCount_fr (p : P) (b : Bytes) :
    stepArrayCount (Fr v E0 p) b = (stepArrayCount p b).mapP (Fr v E0) := by
  rw [stepArrayCount_eq, stepArrayCount_eq]
  dsimp (instances := true) only [fr_state, fr_length]
  isplit
  · simp only [stepLen_fr]; rfl
  · isplit
    · simp only [fr_setStep, visit_eq, fr_addEv, fr_verr]
      isplit
      · rfl
      · exact acContent_fr v E0 _ _ _
    · exact acContent_fr v E0 _ _ _

/-! ### the typed-container header: `valueType` is written -/

/-- the element type `stepType` stores when it succeeds on the first byte of `b` -/
def vtAfter (v : Nat) (b : Bytes) : Nat :=
  match b with
  | [] => v
  | m :: _ =>
    match markerToStartState m with
    | none => v
    | some _ => if m == noopMarker then v else markerToBaseType m

theorem stepType_fr (p : P) (b : Bytes) (cont : St) :
    stepType (Fr v E0 p) b cont = (stepType p b cont).mapP (Fr (vtAfter v b) E0) := by
  unfold stepType
  cases b with
  | nil => rfl
  | cons x bs =>
    simp only [vtAfter]
    cases markerToStartState x with
    | none => rfl
    | some st =>
      simp only []
      isplit <;> rfl

theorem stepTypeLenHeader_fr (p : P) (b : Bytes) (c : StateStep) :
    stepTypeLenHeader (Fr v E0 p) b c =
      (stepTypeLenHeader p b c).mapP (Fr (if p.state.current.step == stStart then vtAfter v b else v) E0) := by
  unfold stepTypeLenHeader
  dsimp (instances := true) only [fr_state]
  split
  · rename_i h; simp only [h, beq_self_eq_true, if_true]; exact stepType_fr v E0 _ _ _
  · rename_i h
    simp only [h, show (stWithType0 == stStart) = false from rfl, Bool.false_eq_true, if_false]
    cases b with
    | nil => rfl
    | cons x bs =>
      simp only []
      isplit <;> rfl
  · rename_i h
    simp only [h, show (stWithType1 == stStart) = false from rfl, Bool.false_eq_true, if_false]
    exact stepLen_fr v E0 _ _ _
  · rename_i h1 h2 h3
    have : (p.state.current.step == stStart) = false := by
      cases hs : p.state.current.step <;> simp_all
    simp only [this, Bool.false_eq_true, if_false]
    rfl

theorem atContent_fr (l : Int) (b : Bytes) (p : P) :
    atContent l b (Fr v E0 p) = (atContent l b p).mapP (Fr v E0) := by
  unfold atContent
  isplit
  · simp only [visit_eq, fr_addEv, fr_verr]
    vsplit p <;> rfl
  · rfl

/-- `stepArrayTyped`: in step `stWithLen` the announced element type is `valueType` -/
theorem stepArrayTyped_fr (p : P) (b : Bytes) (hv : p.state.current.step = stWithLen → v = p.valueType) :
    stepArrayTyped (Fr v E0 p) b =
      (stepArrayTyped p b).mapP (Fr (if p.state.current.step == stStart then vtAfter v b else v) E0) := by
  rw [stepArrayTyped_eq, stepArrayTyped_eq]
  dsimp (instances := true) only [fr_state, fr_length]
  isplit
  · simp only [stepTypeLenHeader_fr]; rfl
  · rename_i h
    have h0 : (p.state.current.step == stStart) = false := by
      cases hs : (p.state.current.step == stStart) with
      | false => rfl
      | true => simp [hs] at h
    simp only [h0, Bool.false_eq_true, if_false]
    isplit
    · rename_i hw
      have hw' : p.state.current.step = stWithLen := by simpa using hw
      have h2 : (setStep p stCont).valueType = v := by rw [hv hw']; rfl
      simp only [fr_setStep, fr_valueType, h2, visit_eq, fr_addEv, fr_verr]
      vsplit (setStep p stCont)
      · exact atContent_fr v E0 _ _ _
      · rfl
    · exact atContent_fr v E0 _ _ _

/-! ### objects -/

theorem stepObjectInit_fr (p : P) (b : Bytes) : stepObjectInit (Fr v E0 p) b = (stepObjectInit p b).mapP (Fr v E0) := by
  unfold stepObjectInit
  cases b with
  | nil => rfl
  | cons x bs =>
    simp only []
    isplit
    · rfl
    isplit
    · rfl
    · simp only [fr_setType, visit_eq, fr_addEv, fr_verr]; rfl

theorem fieldName_fr (p : P) (b : Bytes) : fieldName (Fr v E0 p) b = (fieldName p b).mapP (Fr v E0) := by
  unfold fieldName
  dsimp (instances := true) only [fr_length]
  isplit
  · rfl
  · simp only [fr_collectP]
    rcases collectP p b p.length.current.toNat with ⟨q, rest, tmp⟩
    cases tmp with
    | none => rfl
    | some t => simp only [fr_popLen, visit_eq, fr_addEv, fr_verr]; rfl

theorem odBody_fr (step : StateStep) (b : Bytes) (p : P) :
    odBody step b (Fr v E0 p) = (odBody step b p).mapP (Fr v E0) := by
  unfold odBody
  split
  · dsimp (instances := true) only [fr_state]; simp only [stepLen_fr]; rfl
  · exact fieldName_fr v E0 p b
  · cases b with
    | nil => rfl
    | cons x bs =>
      simp only []
      isplit
      · rfl
      · simp only [fr_setStep, stepValue_fr]; rfl
  · rfl

theorem stepObjectDyn_fr (p : P) (b : Bytes) : stepObjectDyn (Fr v E0 p) b = (stepObjectDyn p b).mapP (Fr v E0) := by
  rw [stepObjectDyn_eq, stepObjectDyn_eq]
  dsimp (instances := true) only [fr_state, fr_marker]
  isplit
  · cases b with
    | nil => rfl
    | cons x bs =>
      simp only []
      isplit
      · simp only [visit_eq, fr_addEv, fr_verr]
        vsplit p <;> rfl
      · exact odBody_fr v E0 _ _ _
  · exact odBody_fr v E0 _ _ _

theorem ocFin_fr (p : P) (end_ : Bool) (b : Bytes) (err : Option Err) :
    ocFin (Fr v E0 p) end_ b err = (ocFin p end_ b err).mapP (Fr v E0) := by
  unfold ocFin
  isplit
  · simp only [visit_eq, fr_addEv, fr_verr]; rfl
  · rfl

theorem ocAtFieldName_fr (p : P) (b : Bytes) : ocAtFieldName (Fr v E0 p) b = (ocAtFieldName p b).mapP (Fr v E0) := by
  unfold ocAtFieldName
  dsimp (instances := true) only [fr_length, fr_state]
  isplit
  · exact ocFin_fr v E0 _ _ _ _
  · simp only [stepLen_fr, mapP_p, mapP_rest, mapP_err]
    exact ocFin_fr v E0 _ _ _ _

theorem ocValue_fr (typed : Bool) (b : Bytes) (p : P) :
    ocValue typed b (Fr v E0 p) = (ocValue typed b p).mapP (Fr v E0) := by
  unfold ocValue
  have : setStep (decLen (Fr v E0 p)) stFieldName = Fr v E0 (setStep (decLen p) stFieldName) := rfl
  simp only [this]
  isplit
  · exact ocFin_fr v E0 (pushState (setStep (decLen p) stFieldName) (setStep (decLen p) stFieldName).valueState.current)
      _ _ _
  · simp only [stepValue_fr, mapP_p, mapP_rest, mapP_err]
    exact ocFin_fr v E0 _ _ _ _

theorem stepObjectCountedContent_fr (p : P) (b : Bytes) (typed : Bool) :
    stepObjectCountedContent (Fr v E0 p) b typed = (stepObjectCountedContent p b typed).mapP (Fr v E0) := by
  rw [stepObjectCountedContent_eq, stepObjectCountedContent_eq]
  dsimp (instances := true) only [fr_state, fr_length]
  split
  · simp only [visit_eq, fr_addEv, fr_verr]
    vsplit p
    · dsimp (instances := true) only [fr_length]
      isplit
      · exact ocFin_fr v E0 _ _ _ _
      · simp only [fr_setStep]
        isplit
        · exact ocFin_fr v E0 _ _ _ _
        · exact ocAtFieldName_fr v E0 _ _
    · rfl
  · exact ocAtFieldName_fr v E0 _ _
  · simp only [fieldName_fr, mapP_p, mapP_rest, mapP_err]
    exact ocFin_fr v E0 _ _ _ _
  · isplit
    · cases b with
      | nil => rfl
      | cons x bs =>
        simp only []
        isplit
        · rfl
        · exact ocValue_fr v E0 _ _ _
    · exact ocValue_fr v E0 _ _ _
  · exact ocFin_fr v E0 _ _ _ _

theorem stepObjectCount_fr (p : P) (b : Bytes) :
    stepObjectCount (Fr v E0 p) b = (stepObjectCount p b).mapP (Fr v E0) := by
  unfold stepObjectCount
  dsimp (instances := true) only [fr_state]
  isplit
  · simp only [stepLen_fr]; rfl
  · simp only [stepObjectCountedContent_fr, mapP_p, mapP_rest, mapP_err, mapP_done]
    isplit <;> rfl

theorem stepObjectTyped_fr (p : P) (b : Bytes) :
    stepObjectTyped (Fr v E0 p) b =
      (stepObjectTyped p b).mapP (Fr (if p.state.current.step == stStart then vtAfter v b else v) E0) := by
  unfold stepObjectTyped
  dsimp (instances := true) only [fr_state]
  isplit
  · simp only [stepTypeLenHeader_fr]; rfl
  · rename_i h
    have h0 : (p.state.current.step == stStart) = false := by
      cases hs : (p.state.current.step == stStart) with
      | false => rfl
      | true => simp [hs] at h
    simp only [h0, Bool.false_eq_true, if_false]
    simp only [stepObjectCountedContent_fr, mapP_p, mapP_rest, mapP_err, mapP_done]
    isplit <;> rfl

/-! ### dispatch / execStep -/

/-- a typed container about to read its element type -/
def isTypeStart (s : St) : Bool := (s.type == stArrayTyped || s.type == stObjectTyped) && s.step == stStart

/-- the state that READS `valueType` -/
def readsVt (s : St) : Bool := s.type == stArrayTyped && s.step == stWithLen

/-- the `valueType` after one step -/
def nv (v : Nat) (p : P) (b : Bytes) : Nat := if isTypeStart p.state.current then vtAfter v b else v

theorem nv_of_type {p : P} (v : Nat) (b : Bytes) (h1 : p.state.current.type ≠ stArrayTyped)
    (h2 : p.state.current.type ≠ stObjectTyped) : nv v p b = v := by
  simp [nv, isTypeStart, h1, h2]

theorem dispatch_fr (p : P) (b : Bytes) (hv : readsVt p.state.current = true → v = p.valueType) :
    dispatch (Fr v E0 p) b = (dispatch p b).mapP (Fr (nv v p b) E0) := by
  unfold dispatch
  dsimp (instances := true) only [fr_state]
  split
  · rename_i ht; rw [nv_of_type v b (by simp [ht]) (by simp [ht])]; rfl
  · rename_i ht; rw [nv_of_type v b (by simp [ht]) (by simp [ht])]; exact stepValue_fr v E0 _ _
  · rename_i ht; rw [nv_of_type v b (by simp [ht]) (by simp [ht])]; exact stepFixedValue_fr v E0 _ _
  · rename_i ht; rw [nv_of_type v b (by simp [ht]) (by simp [ht])]; exact stepString_fr v E0 _ _
  · rename_i ht; rw [nv_of_type v b (by simp [ht]) (by simp [ht])]; exact stepString_fr v E0 _ _
  · rename_i ht; rw [nv_of_type v b (by simp [ht]) (by simp [ht])]; exact stepArrayInit_fr v E0 _ _
  · rename_i ht; rw [nv_of_type v b (by simp [ht]) (by simp [ht])]; exact stepArrayDyn_fr v E0 _ _
  · rename_i ht; rw [nv_of_type v b (by simp [ht]) (by simp [ht])]; exact stepArrayCount_fr v E0 _ _
  · rename_i ht
    have : nv v p b = if p.state.current.step == stStart then vtAfter v b else v := by
      simp [nv, isTypeStart, ht]
    rw [this]
    exact stepArrayTyped_fr v E0 p b (fun hs => hv (by simp [readsVt, ht, hs]))
  · rename_i ht; rw [nv_of_type v b (by simp [ht]) (by simp [ht])]; exact stepObjectInit_fr v E0 _ _
  · rename_i ht; rw [nv_of_type v b (by simp [ht]) (by simp [ht])]; exact stepObjectDyn_fr v E0 _ _
  · rename_i ht; rw [nv_of_type v b (by simp [ht]) (by simp [ht])]; exact stepObjectCount_fr v E0 _ _
  · rename_i ht
    have : nv v p b = if p.state.current.step == stStart then vtAfter v b else v := by
      simp [nv, isTypeStart, ht]
    rw [this]
    exact stepObjectTyped_fr v E0 p b

/-- ONE STEP commutes with the frame: the framed parser does what the unframed one does; its
`valueType` afterwards is `nv v p b` (the old `v`, or the element type just read) -/
theorem execStep_fr (p : P) (b : Bytes) (hv : readsVt p.state.current = true → v = p.valueType) :
    execStep (Fr v E0 p) b = (execStep p b).mapP (Fr (nv v p b) E0) := by
  rw [execStep_eq, execStep_eq, dispatch_fr v E0 p b hv]
  simp only [mapP_err]
  cases (dispatch p b).err <;> rfl

end

/-! ### the unframed run: how `valueType` evolves -/

theorem fr_self (p : P) : Fr p.valueType [] p = p := by
  cases p with
  | mk st vs len buf m vt err evs fa =>
    simp only [Fr, List.append_nil, List.length_nil, Nat.add_zero]
    cases fa <;> rfl

theorem execStep_valueType (p : P) (b : Bytes) : (execStep p b).p.valueType = nv p.valueType p b := by
  have h := execStep_fr p.valueType [] p b (fun _ => rfl)
  rw [fr_self] at h
  have := congrArg (fun r => r.p.valueType) h
  simpa [fr_valueType] using this

theorem pending_fr (v : Nat) (E0 : List Ev) (p : P) : pending (Fr v E0 p) = pending p := rfl

end SF.Ubjson.Parse
