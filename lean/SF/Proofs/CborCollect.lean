/-
  The resumption law of `collect`, the partial-token buffer shared (verbatim) by the CBOR and
  the UBJSON parser.  Lives here so that both SF/Props/C02.lean and the chunk-independence
  proof (SF/Proofs/CborChunk*.lean) can use it.
-/
import SF.Cbor.Parse
namespace SF.Cbor.Collect
open SF SF.Cbor SF.Cbor.Parse

/-- what `collect` computes, as a two-line specification: with `buf` already parked (fewer
than `n` bytes), the token is the first `n` bytes of `buf ++ input` if there are that many,
else everything is parked -/
def collectSpec (buf b : Bytes) (n : Nat) : Bytes × Bytes × Option Bytes :=
  if buf.length + b.length ≥ n then ([], b.drop (n - buf.length), some (buf ++ b.take (n - buf.length)))
  else (buf ++ b, [], none)

/-- the mirrored `collect` (fast zero-copy path, buffered path, leftover handling) meets its
specification whenever the buffer invariant holds (fewer than `n` bytes parked) -/
theorem collect_eq_spec (buf b : Bytes) (n : Nat) (hn : 0 < n) (hb : buf.length < n) :
    collect buf b n = collectSpec buf b n := by
  unfold collect collectSpec
  by_cases hbuf : buf.length > 0
  · simp only [hbuf, if_true]
    have hd : ((n : Int) - buf.length > 0) := by omega
    have hN : ((n : Int) - (buf.length : Int)).toNat = n - buf.length := by omega
    simp only [hd, if_true, hN]
    by_cases hc : n - buf.length > b.length
    · have : ¬ (buf.length + b.length ≥ n) := by omega
      simp [hc, this]
    · have hge : buf.length + b.length ≥ n := by omega
      have hl : (buf ++ b.take (n - buf.length)).length = n := by
        simp [List.length_take]; omega
      simp only [hc, if_false, hge, if_true, hl, ge_iff_le, Nat.le_refl, beq_self_eq_true]
      have : (buf ++ b.take (n - buf.length)).take n = buf ++ b.take (n - buf.length) :=
        List.take_of_length_le (by omega)
      simp [this]
  · have hnil : buf = [] := by
      cases buf with
      | nil => rfl
      | cons a l => simp at hbuf
    subst hnil
    simp only [List.length_nil, Nat.lt_irrefl, gt_iff_lt, if_false, Nat.zero_add, Nat.sub_zero,
      List.nil_append, ge_iff_le]

/-- C02 core, `…_partial`: RESUMPTION.  Cutting the input of a collecting state at ANY point
changes nothing: feeding `a` and then `b` (with whatever `a` left parked) delivers the same
token, leaves the same remaining input and the same buffer as feeding `a ++ b` at once. -/
theorem collect_resume_partial (buf a b : Bytes) (n : Nat) (hn : 0 < n) (hb : buf.length < n) :
    collect buf (a ++ b) n =
      match collect buf a n with
      | (buf1, rest1, some t) => (buf1, rest1 ++ b, some t)
      | (buf1, _, none) => collect buf1 b n := by
  rw [collect_eq_spec buf (a ++ b) n hn hb, collect_eq_spec buf a n hn hb]
  unfold collectSpec
  by_cases h1 : buf.length + a.length ≥ n
  · have h2 : buf.length + (a ++ b).length ≥ n := by simp; omega
    simp only [h1, h2, if_true]
    have hk : n - buf.length ≤ a.length := by omega
    simp [List.take_append_of_le_length hk, List.drop_append_of_le_length hk]
  · simp only [h1, if_false]
    have hlt : (buf ++ a).length < n := by simp; omega
    rw [collect_eq_spec (buf ++ a) b n hn hlt]
    unfold collectSpec
    by_cases h2 : buf.length + (a ++ b).length ≥ n
    · have h3 : (buf ++ a).length + b.length ≥ n := by simp at h2 ⊢; omega
      simp only [h2, h3, if_true]
      have hk : a.length ≤ n - buf.length := by omega
      have e1 : n - (buf ++ a).length = n - buf.length - a.length := by simp; omega
      rw [e1]
      simp [List.take_append, List.drop_append, List.take_of_length_le hk, List.drop_of_length_le hk,
        List.append_assoc]
    · have h3 : ¬ ((buf ++ a).length + b.length ≥ n) := by simp at h2 ⊢; omega
      have h2' : ¬ (n ≤ buf.length + (a.length + b.length)) := by simp at h2; omega
      have h3' : ¬ (n ≤ buf.length + a.length + b.length) := by simp at h3; omega
      simp [h2', h3', List.append_assoc]

/-- corollary: byte-at-a-time delivery of a token equals whole delivery -/
theorem collect_bytewise_partial (buf : Bytes) (x : UInt8) (c : Bytes) (n : Nat) (hn : 0 < n)
    (hb : buf.length < n) :
    collect buf (x :: c) n =
      match collect buf [x] n with
      | (buf1, rest1, some t) => (buf1, rest1 ++ c, some t)
      | (buf1, _, none) => collect buf1 c n :=
  collect_resume_partial buf [x] c n hn hb

end SF.Cbor.Collect
