/-
  C06, converse direction, numbers: whatever bytes the parser READS as a fixed-width integer,
  a float or a length ARE the encoding of the value it delivers (the inverse of the facts of
  SF/Proofs/UbjNum.lean), and the value is in the range of its type.
-/
import SF.Proofs.UbjNum
namespace SF.Ubjson.Parse
open SF SF.Ubjson SF.Ubjson.Syn
open StateType StateStep

theorem pow_256_nat : ((256 : Nat) ^ 1 = 256) ∧ ((256 : Nat) ^ 2 = 65536) ∧ ((256 : Nat) ^ 4 = 4294967296) ∧
    ((256 : Nat) ^ 8 = 18446744073709551616) := by decide

/-- the signed reading of `w` bytes: its two's complement image is those bytes, and it lies
in the range of the type; if it is not negative it is the unsigned reading -/
theorem signed_1 (a : Bytes) (ha : a.length = 1) :
    Enc.twos 1 (toSigned 1 (beNat a)) = a ∧ -128 ≤ toSigned 1 (beNat a) ∧ toSigned 1 (beNat a) ≤ 127 ∧
    (0 ≤ toSigned 1 (beNat a) → toSigned 1 (beNat a) = (beNat a : Int) ∧ beNat a < 128) := by
  have hlt := beNat_lt a
  rw [ha, pow_256_nat.1] at hlt
  have e2 : (2 : Nat) ^ (8 * 1 - 1) = 128 := by rfl
  have e3 : ((2 : Int) ^ (8 * 1)) = 256 := by rfl
  have hv : ((toSigned 1 (beNat a)) % 256).toNat = beNat a := by
    unfold toSigned; rw [e2, e3]; split <;> omega
  refine ⟨?_, ?_, ?_, ?_⟩
  · unfold Enc.twos
    rw [pow_256.1, hv]
    have := beBytes_beNat a
    rw [ha] at this; exact this
  · unfold toSigned; rw [e2, e3]; split <;> omega
  · unfold toSigned; rw [e2, e3]; split <;> omega
  · unfold toSigned; rw [e2, e3]; split <;> omega

theorem signed_2 (a : Bytes) (ha : a.length = 2) :
    Enc.twos 2 (toSigned 2 (beNat a)) = a ∧ -32768 ≤ toSigned 2 (beNat a) ∧ toSigned 2 (beNat a) ≤ 32767 ∧
    (0 ≤ toSigned 2 (beNat a) → toSigned 2 (beNat a) = (beNat a : Int) ∧ beNat a < 32768) := by
  have hlt := beNat_lt a
  rw [ha, pow_256_nat.2.1] at hlt
  have e2 : (2 : Nat) ^ (8 * 2 - 1) = 32768 := by rfl
  have e3 : ((2 : Int) ^ (8 * 2)) = 65536 := by rfl
  have hv : ((toSigned 2 (beNat a)) % 65536).toNat = beNat a := by
    unfold toSigned; rw [e2, e3]; split <;> omega
  refine ⟨?_, ?_, ?_, ?_⟩
  · unfold Enc.twos
    rw [pow_256.2.1, hv]
    have := beBytes_beNat a
    rw [ha] at this; exact this
  · unfold toSigned; rw [e2, e3]; split <;> omega
  · unfold toSigned; rw [e2, e3]; split <;> omega
  · unfold toSigned; rw [e2, e3]; split <;> omega

theorem signed_4 (a : Bytes) (ha : a.length = 4) :
    Enc.twos 4 (toSigned 4 (beNat a)) = a ∧ -2147483648 ≤ toSigned 4 (beNat a) ∧
    toSigned 4 (beNat a) ≤ 2147483647 ∧
    (0 ≤ toSigned 4 (beNat a) → toSigned 4 (beNat a) = (beNat a : Int) ∧ beNat a < 2147483648) := by
  have hlt := beNat_lt a
  rw [ha, pow_256_nat.2.2.1] at hlt
  have e2 : (2 : Nat) ^ (8 * 4 - 1) = 2147483648 := by rfl
  have e3 : ((2 : Int) ^ (8 * 4)) = 4294967296 := by rfl
  have hv : ((toSigned 4 (beNat a)) % 4294967296).toNat = beNat a := by
    unfold toSigned; rw [e2, e3]; split <;> omega
  refine ⟨?_, ?_, ?_, ?_⟩
  · unfold Enc.twos
    rw [pow_256.2.2.1, hv]
    have := beBytes_beNat a
    rw [ha] at this; exact this
  · unfold toSigned; rw [e2, e3]; split <;> omega
  · unfold toSigned; rw [e2, e3]; split <;> omega
  · unfold toSigned; rw [e2, e3]; split <;> omega

theorem signed_8 (a : Bytes) (ha : a.length = 8) :
    Enc.twos 8 (toSigned 8 (beNat a)) = a ∧ -9223372036854775808 ≤ toSigned 8 (beNat a) ∧
    toSigned 8 (beNat a) ≤ 9223372036854775807 ∧
    (0 ≤ toSigned 8 (beNat a) → toSigned 8 (beNat a) = (beNat a : Int) ∧ beNat a < 9223372036854775808) := by
  have hlt := beNat_lt a
  rw [ha, pow_256_nat.2.2.2] at hlt
  have e2 : (2 : Nat) ^ (8 * 8 - 1) = 9223372036854775808 := by rfl
  have e3 : ((2 : Int) ^ (8 * 8)) = 18446744073709551616 := by rfl
  have hv : ((toSigned 8 (beNat a)) % 18446744073709551616).toNat = beNat a := by
    unfold toSigned; rw [e2, e3]; split <;> omega
  refine ⟨?_, ?_, ?_, ?_⟩
  · unfold Enc.twos
    rw [pow_256.2.2.2, hv]
    have := beBytes_beNat a
    rw [ha] at this; exact this
  · unfold toSigned; rw [e2, e3]; split <;> omega
  · unfold toSigned; rw [e2, e3]; split <;> omega
  · unfold toSigned; rw [e2, e3]; split <;> omega

/-- an unsigned byte -/
theorem unsigned_1 (b0 : UInt8) : Enc.twos 1 (b0.toNat : Int) = [b0] := by
  have hlt := b0.toNat_lt
  unfold Enc.twos
  rw [pow_256.1]
  have : ((b0.toNat : Int) % 256).toNat = b0.toNat := by omega
  rw [this]
  have := beBytes_beNat [b0]
  rw [beNat_single] at this
  exact this

theorem beBytes_single (b0 : UInt8) : beBytes 1 b0.toNat = [b0] := by
  have := beBytes_beNat [b0]
  rw [beNat_single] at this
  exact this

/-! ## the integer items the parser delivers -/

theorem int8_item (b0 : UInt8) :
    Enc.twos 1 (readInt8 b0) = [b0] ∧ IK.inRange .i8 (readInt8 b0) = true := by
  obtain ⟨h1, h2, h3, _⟩ := signed_1 [b0] rfl
  rw [beNat_single] at h1 h2 h3
  refine ⟨h1, ?_⟩
  simp only [IK.inRange, IK.kind, NumKind.inRange, NumKind.lo, NumKind.hi, Bool.and_eq_true, readInt8]
  exact ⟨decide_eq_true h2, decide_eq_true h3⟩

theorem uint8_item (b0 : UInt8) :
    Enc.twos 1 (b0.toNat : Int) = [b0] ∧ IK.inRange .u8 (b0.toNat : Int) = true := by
  refine ⟨unsigned_1 b0, ?_⟩
  have := b0.toNat_lt
  simp only [IK.inRange, IK.kind, NumKind.inRange, NumKind.lo, NumKind.hi, Bool.and_eq_true]
  exact ⟨decide_eq_true (by omega), decide_eq_true (by omega)⟩

theorem int16_item (a : Bytes) (ha : a.length = 2) :
    Enc.twos 2 (readInt16 a) = a ∧ IK.inRange .i16 (readInt16 a) = true := by
  obtain ⟨h1, h2, h3, _⟩ := signed_2 a ha
  refine ⟨h1, ?_⟩
  simp only [IK.inRange, IK.kind, NumKind.inRange, NumKind.lo, NumKind.hi, Bool.and_eq_true, readInt16]
  exact ⟨decide_eq_true h2, decide_eq_true h3⟩

theorem int32_item (a : Bytes) (ha : a.length = 4) :
    Enc.twos 4 (readInt32 a) = a ∧ IK.inRange .i32 (readInt32 a) = true := by
  obtain ⟨h1, h2, h3, _⟩ := signed_4 a ha
  refine ⟨h1, ?_⟩
  simp only [IK.inRange, IK.kind, NumKind.inRange, NumKind.lo, NumKind.hi, Bool.and_eq_true, readInt32]
  exact ⟨decide_eq_true h2, decide_eq_true h3⟩

theorem int64_item (a : Bytes) (ha : a.length = 8) :
    Enc.twos 8 (readInt64 a) = a ∧ IK.inRange .i64 (readInt64 a) = true := by
  obtain ⟨h1, h2, h3, _⟩ := signed_8 a ha
  refine ⟨h1, ?_⟩
  simp only [IK.inRange, IK.kind, NumKind.inRange, NumKind.lo, NumKind.hi, Bool.and_eq_true, readInt64]
  exact ⟨decide_eq_true h2, decide_eq_true h3⟩

theorem float32_item (a : Bytes) (ha : a.length = 4) : beBytes 4 (readFloat32 a).toNat = a := by
  have hlt := beNat_lt a
  rw [ha, pow_256_nat.2.2.1] at hlt
  have : (readFloat32 a).toNat = beNat a := by
    simp only [readFloat32, UInt32.toNat_ofNat']
    omega
  rw [this]
  have := beBytes_beNat a
  rw [ha] at this; exact this

theorem float64_item (a : Bytes) (ha : a.length = 8) : beBytes 8 (readFloat64 a).toNat = a := by
  have hlt := beNat_lt a
  rw [ha, pow_256_nat.2.2.2] at hlt
  have : (readFloat64 a).toNat = beNat a := by
    simp only [readFloat64, UInt64.toNat_ofNat']
    omega
  rw [this]
  have := beBytes_beNat a
  rw [ha] at this; exact this

/-! ## the lengths the parser reads -/

/-- a length read as non-negative: the bytes are `lenWire` of it, and it fits the marker -/
theorem len_i (b0 : UInt8) (h : 0 ≤ readInt8 b0) :
    ∃ n : Nat, readInt8 b0 = (n : Int) ∧ LW.fits .i n = true ∧ lenWire .i n = [int8Marker, b0] := by
  obtain ⟨_, _, _, h4⟩ := signed_1 [b0] rfl
  rw [beNat_single] at h4
  obtain ⟨k1, k2⟩ := h4 h
  refine ⟨b0.toNat, k1, by simpa [LW.fits] using k2, ?_⟩
  simp only [lenWire, LW.marker, LW.bytes, beBytes_single]

theorem len_U (b0 : UInt8) :
    LW.fits .U b0.toNat = true ∧ lenWire .U b0.toNat = [uint8Marker, b0] := by
  have := b0.toNat_lt
  refine ⟨by simpa [LW.fits] using this, ?_⟩
  simp only [lenWire, LW.marker, LW.bytes, beBytes_single]

theorem len_I (a : Bytes) (ha : a.length = 2) (h : 0 ≤ readInt16 a) :
    ∃ n : Nat, readInt16 a = (n : Int) ∧ LW.fits .I n = true ∧ lenWire .I n = int16Marker :: a := by
  obtain ⟨_, _, _, h4⟩ := signed_2 a ha
  obtain ⟨k1, k2⟩ := h4 h
  refine ⟨beNat a, k1, by simpa [LW.fits] using k2, ?_⟩
  have := beBytes_beNat a
  rw [ha] at this
  simp only [lenWire, LW.marker, LW.bytes, this]

theorem len_l (a : Bytes) (ha : a.length = 4) (h : 0 ≤ readInt32 a) :
    ∃ n : Nat, readInt32 a = (n : Int) ∧ LW.fits .l n = true ∧ lenWire .l n = int32Marker :: a := by
  obtain ⟨_, _, _, h4⟩ := signed_4 a ha
  obtain ⟨k1, k2⟩ := h4 h
  refine ⟨beNat a, k1, by simpa [LW.fits] using k2, ?_⟩
  have := beBytes_beNat a
  rw [ha] at this
  simp only [lenWire, LW.marker, LW.bytes, this]

theorem len_L (a : Bytes) (ha : a.length = 8) (h : 0 ≤ readInt64 a) :
    ∃ n : Nat, readInt64 a = (n : Int) ∧ LW.fits .L n = true ∧ lenWire .L n = int64Marker :: a := by
  obtain ⟨_, _, _, h4⟩ := signed_8 a ha
  obtain ⟨k1, k2⟩ := h4 h
  refine ⟨beNat a, k1, by simpa [LW.fits] using k2, ?_⟩
  have := beBytes_beNat a
  rw [ha] at this
  simp only [lenWire, LW.marker, LW.bytes, this]

end SF.Ubjson.Parse
