/-
  The run phase of the mirror on the LEAVES of good types with custom code: what `run` delivers
  for a type with a custom folder / a pointer to one (`folderIfc`, `userVal`, `userPtr`), what
  `foldInterfaceValue` does with such a dynamic type, and `embedd` (inline fields).
-/
import SF.Proofs.FoldRun
import SF.Proofs.CusLazy
namespace SF.FoldProofs.Custom
open SF SF.Gotype SF.Gotype.Fold SF.Gotype.Rules

variable {reg : Bool}

/-- delivering the events of one call of the custom code to a visitor; `none`: the code is not
defined on the receiver (a Go panic) -/
def deliverAll (c : VisRef) (s : St) (xs : Option (List XEv)) : St × Res :=
  match xs with
  | some xs => seqM (fun s x => emit s c x) s xs
  | none => (s, .panic)

/-! ## one-step equations -/

theorem run_folderIfc (rf : Nat) (o : FoldOpts) (c : VisRef) (rv : RV) (s : St) :
    run (rf + 1) o c .folderIfc rv s =
      if implementsFolder rv.t then
        if isNilValueFolder rv then emit s c (.ev .null) else deliverAll c s (folderEvents rv)
      else run rf o c .folderIfc ⟨.ptr rv.t, .ptr rv.v⟩ s := by
  rw [run]
  unfold deliverAll
  split
  · split
    · rfl
    · cases folderEvents rv <;> rfl
  · rfl

theorem run_userVal (rf : Nat) (o : FoldOpts) (c : VisRef) (n : String) (rv : RV) (s : St) :
    run (rf + 1) o c (.userVal n) rv s = deliverAll c s (customEvents n (.ptr rv.v)) := by
  rw [run]
  unfold deliverAll
  cases customEvents n (.ptr rv.v) <;> rfl

theorem run_userPtr_nil (rf : Nat) (o : FoldOpts) (c : VisRef) (n : String) (T : GoType) (s : St) :
    run (rf + 1) o c (.userPtr n) ⟨T, .nilPtr⟩ s = deliverAll c s (customEvents n .nilPtr) := by
  rw [run]
  unfold deliverAll
  simp only []
  cases customEvents n .nilPtr <;> rfl

theorem run_userPtr_ptr (rf : Nat) (o : FoldOpts) (c : VisRef) (n : String) (T : GoType) (x : GoVal) (s : St) :
    run (rf + 1) o c (.userPtr n) ⟨T, .ptr x⟩ s = deliverAll c s (customEvents n (.ptr x)) := by
  rw [run]
  unfold deliverAll
  simp only []
  cases customEvents n (.ptr x) <;> rfl

/-- `NewExpectObjVisitor(C.visitor)`: the state with a fresh `ExpectObjVisitor` -/
def newVs (s : St) (c : VisRef) : St :=
  { s with nextVs := s.nextVs + 1, vss := (s.nextVs, { active := some c, depth := 0 }) :: s.vss }

theorem run_embedd (rf : Nat) (o : FoldOpts) (c : VisRef) (obj : ReFold) (rv : RV) (s : St) :
    run (rf + 1) o c (.embedd obj) rv s =
      if isNilValue rv then (s, .ok) else
      match run rf o (.exp s.nextVs) obj rv (newVs s c) with
      | (s', r) => (s', if r == .ok && (s'.getVs s.nextVs).depth != 0 then .err .expectedObjectClose else r) := by
  rw [run]
  rfl

theorem newVs_inv {s : St} (hs : Inv s) : Inv (newVs s .user) := hs

theorem newVs_at (s : St) : ExpAt (newVs s .user) s.nextVs 0 := by
  simp [ExpAt, newVs, St.getVs]

theorem newVs_evs (s : St) (c : VisRef) : (newVs s c).evs = s.evs := rfl

/-! ## a type with a custom folder -/

/-- the custom code of a named type: by registration, else by its `Fold` method -/
theorem customOf_cases {n : String} {mm : Methods} {u : GoType} {n' : String} {b : Bool}
    (hc : customOf reg (.named n mm u) = some (n', b)) :
    n' = n ∧
    (((reg && userFoldTypes.contains n) = true ∧ b = true) ∨
     ((reg && userFoldTypes.contains n) = false ∧ mm.folder = .value ∧ b = false) ∨
     ((reg && userFoldTypes.contains n) = false ∧ mm.folder = .pointer ∧ b = true)) := by
  rw [customOf_named] at hc
  by_cases hr : (reg && userFoldTypes.contains n) = true
  · simp only [hr, if_true, Option.some.injEq, Prod.mk.injEq] at hc
    exact ⟨hc.1.symm, Or.inl ⟨hr, hc.2.symm⟩⟩
  · have hr' : (reg && userFoldTypes.contains n) = false := by simpa using hr
    simp only [hr', Bool.false_eq_true, if_false] at hc
    cases hm : mm.folder with
    | none => simp [hm] at hc
    | value =>
      simp only [hm, beq_self_eq_true, if_true, Option.some.injEq, Prod.mk.injEq] at hc
      exact ⟨hc.1.symm, Or.inr (Or.inl ⟨hr', rfl, hc.2.symm⟩)⟩
    | pointer =>
      have e1 : (Recv.pointer == Recv.value) = false := by decide
      simp only [hm, e1, Bool.false_eq_true, if_false, beq_self_eq_true, if_true, Option.some.injEq,
        Prod.mk.injEq] at hc
      exact ⟨hc.1.symm, Or.inr (Or.inr ⟨hr', rfl, hc.2.symm⟩)⟩

theorem isNilValueFolder_nonptr {T : GoType} (v : GoVal) (hu : ∀ e, T.under ≠ .ptr e) :
    isNilValueFolder ⟨T, v⟩ = false := by
  unfold isNilValueFolder
  simp only []
  cases hU : T.under <;> first | rfl | (exact absurd hU (hu _))

/-- the compiled folder of a type with a custom folder delivers the events of that folder -/
theorem run_leafC1 (rf : Nat) (o : FoldOpts) (c : VisRef) {n : String} {mm : Methods} {u : GoType}
    {n' : String} {b : Bool} (hu : badKind u = false)
    (hc : customOf reg (.named n mm u) = some (n', b)) (v : GoVal) (s : St) :
    run (rf + 2) o c (leafC1 reg n) ⟨.named n mm u, v⟩ s = deliverAll c s (customEvents n' (recvOf b v)) := by
  obtain ⟨rfl, h⟩ := customOf_cases hc
  have hnp : ∀ e, (GoType.named n' mm u).under ≠ .ptr e := by
    intro e he
    simp only [GoType.under] at he
    subst he
    simp [badKind] at hu
  unfold leafC1
  rcases h with ⟨hr, rfl⟩ | ⟨hr, hm, rfl⟩ | ⟨hr, hm, rfl⟩
  · simp only [hr, if_true, run_userVal, recvOf]
  · simp only [hr, Bool.false_eq_true, if_false, recvOf]
    rw [run_folderIfc]
    have h1 : implementsFolder (.named n' mm u) = true := by rw [implementsFolder_named, hm]; rfl
    simp only [h1, if_true, isNilValueFolder_nonptr v hnp, Bool.false_eq_true, if_false]
    rfl
  · simp only [hr, Bool.false_eq_true, if_false, recvOf, if_true]
    rw [run_folderIfc]
    have h1 : implementsFolder (.named n' mm u) = false := by rw [implementsFolder_named, hm]; rfl
    simp only [h1, Bool.false_eq_true, if_false]
    rw [run_folderIfc]
    have h2 : implementsFolder (.ptr (.named n' mm u)) = true := by rw [implementsFolder_ptr_named, hm]; rfl
    have h3 : isNilValueFolder ⟨.ptr (.named n' mm u), .ptr v⟩ = false := rfl
    have h4 : folderEvents ⟨.ptr (.named n' mm u), .ptr v⟩ = customEvents n' (.ptr v) := by
      simp only [folderEvents, GoType.whnf, hm, beq_self_eq_true, if_true]
    simp only [h2, if_true, h3, Bool.false_eq_true, if_false, h4]

/-! ## a pointer to a type with a custom folder -/

theorem run_leafC2_ptr (rf : Nat) (o : FoldOpts) (c : VisRef) {n : String} {mm : Methods} {u : GoType}
    {n' : String} {b : Bool}
    (hc : customOf reg (.named n mm u) = some (n', b)) (x : GoVal) (s : St) :
    run (rf + 1) o c (leafC2 reg n) ⟨.ptr (.named n mm u), .ptr x⟩ s =
      deliverAll c s (customEvents n' (recvOf b x)) := by
  obtain ⟨rfl, h⟩ := customOf_cases hc
  unfold leafC2
  have h3 : isNilValueFolder ⟨.ptr (.named n' mm u), .ptr x⟩ = false := rfl
  rcases h with ⟨hr, rfl⟩ | ⟨hr, hm, rfl⟩ | ⟨hr, hm, rfl⟩
  · simp only [hr, if_true, run_userPtr_ptr, recvOf]
  · simp only [hr, Bool.false_eq_true, if_false, recvOf]
    rw [run_folderIfc]
    have h2 : implementsFolder (.ptr (.named n' mm u)) = true := by rw [implementsFolder_ptr_named, hm]; rfl
    have e1 : (Recv.value == Recv.pointer) = false := by decide
    have h4 : folderEvents ⟨.ptr (.named n' mm u), .ptr x⟩ = customEvents n' x := by
      simp only [folderEvents, GoType.whnf, hm, e1, Bool.false_eq_true, if_false]
    simp only [h2, if_true, h3, Bool.false_eq_true, if_false, h4]
  · simp only [hr, Bool.false_eq_true, if_false, recvOf, if_true]
    rw [run_folderIfc]
    have h2 : implementsFolder (.ptr (.named n' mm u)) = true := by rw [implementsFolder_ptr_named, hm]; rfl
    have h4 : folderEvents ⟨.ptr (.named n' mm u), .ptr x⟩ = customEvents n' (.ptr x) := by
      simp only [folderEvents, GoType.whnf, hm, beq_self_eq_true, if_true]
    simp only [h2, if_true, h3, Bool.false_eq_true, if_false, h4]

/-- nil, the folder belongs to the pointer type: it is called with nil -/
theorem run_leafC2_nil_ptr (rf : Nat) (o : FoldOpts) (c : VisRef) {n : String} {mm : Methods} {u : GoType}
    {n' : String} (hc : customOf reg (.named n mm u) = some (n', true)) (s : St) :
    run (rf + 1) o c (leafC2 reg n) ⟨.ptr (.named n mm u), .nilPtr⟩ s =
      deliverAll c s (customEvents n' .nilPtr) := by
  obtain ⟨rfl, h⟩ := customOf_cases hc
  unfold leafC2
  rcases h with ⟨hr, _⟩ | ⟨hr, hm, hb⟩ | ⟨hr, hm, _⟩
  · simp only [hr, if_true, run_userPtr_nil]
  · cases hb
  · simp only [hr, Bool.false_eq_true, if_false]
    rw [run_folderIfc]
    have h2 : implementsFolder (.ptr (.named n' mm u)) = true := by rw [implementsFolder_ptr_named, hm]; rfl
    have h3 : isNilValueFolder ⟨.ptr (.named n' mm u), .nilPtr⟩ = false := by
      simp only [isNilValueFolder, GoType.under, implementsFolder_named, hm]
      rfl
    have h4 : folderEvents ⟨.ptr (.named n' mm u), .nilPtr⟩ = customEvents n' .nilPtr := by
      simp only [folderEvents, GoType.whnf, hm, beq_self_eq_true, if_true]
    simp only [h2, if_true, h3, Bool.false_eq_true, if_false, h4]

/-- nil, the folder is declared on the value receiver: null (`isNilValueFolder`) -/
theorem run_leafC2_nil_val (rf : Nat) (o : FoldOpts) (c : VisRef) {n : String} {mm : Methods} {u : GoType}
    {n' : String} (hc : customOf reg (.named n mm u) = some (n', false)) (s : St) :
    run (rf + 1) o c (leafC2 reg n) ⟨.ptr (.named n mm u), .nilPtr⟩ s = emit s c (.ev .null) := by
  obtain ⟨rfl, h⟩ := customOf_cases hc
  unfold leafC2
  rcases h with ⟨_, hb⟩ | ⟨hr, hm, _⟩ | ⟨_, _, hb⟩
  · cases hb
  · simp only [hr, Bool.false_eq_true, if_false]
    rw [run_folderIfc]
    have h2 : implementsFolder (.ptr (.named n' mm u)) = true := by rw [implementsFolder_ptr_named, hm]; rfl
    have h3 : isNilValueFolder ⟨.ptr (.named n' mm u), .nilPtr⟩ = true := by
      simp only [isNilValueFolder, GoType.under, implementsFolder_named, hm]
      rfl
    simp only [h2, if_true, h3]
  · cases hb

/-! ## `foldInterfaceValue` on a dynamic type with custom code -/

theorem getFoldConvert_c1 {n : String} {mm : Methods} {u : GoType}
    (hk : (mm.folder == .pointer && isSliceOrMap u) = false) (hm : mm.folder = .pointer) :
    getFoldConvert (.named n mm u) = none := by
  rw [hm] at hk
  simp only [beq_self_eq_true, Bool.true_and] at hk
  unfold getFoldConvert
  simp only [GoType.isNamed, Bool.not_true, Bool.false_eq_true, if_false, GoType.under]
  cases u <;> first | rfl | (simp [isSliceOrMap] at hk) | (simp [getFoldGoTypes, primOf?])

theorem fiv_c1 (rf : Nat) (o : FoldOpts) (hreg : o.folders = reg) (c : VisRef) {sn : List String} {n : String}
    {mm : Methods} {u : GoType} {n' : String} {b : Bool}
    (hg : goodC reg sn (.named n mm u) = true)
    (hc : customOf reg (.named n mm u) = some (n', b)) (v : GoVal) (s : St) :
    foldInterfaceValue (rf + 4) o c (.iface (.named n mm u) v) s =
      deliverAll c s (customEvents n' (recvOf b v)) := by
  have h1 : isC1 reg (.named n mm u) = true := by simp [isC1, hc]
  obtain ⟨_, _, _, he, _, hk1, hk2, _⟩ := c1_shape hg h1
  cases he
  rw [foldInterfaceValue]
  rw [userReg_named hreg]
  obtain ⟨hn, h⟩ := customOf_cases hc
  have hnp : ∀ e, (GoType.named n mm u).under ≠ .ptr e := by
    intro e he
    simp only [GoType.under] at he
    subst he
    simp [badKind] at hk1
  rcases h with ⟨hr, hb⟩ | ⟨hr, hm, hb⟩ | ⟨hr, hm, hb⟩
  · simp only [hr, if_true]
    have := run_leafC1 (rf + 1) o c hk1 hc v s
    unfold leafC1 at this
    simp only [hr, if_true] at this
    exact this
  · subst hn hb
    have hi : implementsFolder (.named n' mm u) = true := by rw [implementsFolder_named, hm]; rfl
    simp only [hr, Bool.false_eq_true, if_false, GoType.whnf, getFoldGoTypes_named, hi, if_true,
      isNilValueFolder_nonptr v hnp, recvOf]
    unfold deliverAll
    have : folderEvents ⟨.named n' mm u, v⟩ = customEvents n' v := rfl
    rw [this]
    cases customEvents n' v <;> rfl
  · have hi : implementsFolder (.named n mm u) = false := by rw [implementsFolder_named, hm]; rfl
    simp only [hr, Bool.false_eq_true, if_false, GoType.whnf, getFoldGoTypes_named, hi,
      getFoldConvert_c1 hk2 hm]
    rw [foldAnyReflect_eq]
    have hcf : compileFuel = 1999 + 1 := rfl
    simp only [hcf, grf_c1 1999 o {} hreg hg h1 (OpIn_empty _)]
    exact run_leafC1 rf o c hk1 hc v s

theorem fiv_c2 (rf : Nat) (o : FoldOpts) (hreg : o.folders = reg) (c : VisRef) {n : String}
    {mm : Methods} {u : GoType}
    (h1 : isC1 reg (.named n mm u) = true) (v : GoVal) (s : St) :
    foldInterfaceValue (rf + 2) o c (.iface (.ptr (.named n mm u)) v) s =
      run (rf + 1) o c (leafC2 reg n) ⟨.ptr (.named n mm u), v⟩ s := by
  rw [foldInterfaceValue]
  rw [userReg_ptr_named hreg]
  unfold leafC2
  by_cases hr : (reg && userFoldTypes.contains n) = true
  · simp only [hr, if_true]
  · have hr' : (reg && userFoldTypes.contains n) = false := by simpa using hr
    have hi : implementsFolder (.ptr (.named n mm u)) = true := by
      rw [isC1_named, hr', Bool.false_or] at h1
      rw [implementsFolder_ptr_named, h1]
    have hw : (GoType.ptr (.named n mm u)).whnf = .ptr (.named n mm u) := rfl
    have hg : getFoldGoTypes (.ptr (.named n mm u)) = none := rfl
    simp only [hr', Bool.false_eq_true, if_false, hw, hg, hi, if_true]
    rw [run_folderIfc]
    simp only [hi, if_true]
    unfold deliverAll
    split
    · rfl
    · cases folderEvents ⟨.ptr (.named n mm u), v⟩ <;> rfl

/-! ## delivering the events of a leaf -/

/-- to the user's visitor: one value -/
theorem leaf_user {xs : List XEv} {r : RVal} (hl : Leaf xs r) {s : St} (hs : Inv s) :
    ValOut s (deliverAll .user s (some xs)) r := by
  obtain ⟨s', h1, h2⟩ := seqM_emit_user hl.quiet s hs
  obtain ⟨g, henc, hrel⟩ := hl.enc
  exact ⟨s', xs, g, h1, h2, henc, hrel⟩

/-- a typed value of a struct / scalar / array kind is no nil value -/
theorem isNilValue_false {T : GoType} {v : GoVal} (hw : wtC reg T v = true)
    (hk : ∀ e, T.under ≠ .ptr e) (hi : T.under ≠ .iface) (hc : ∀ e, T.under ≠ .chan e)
    (ho : ∀ k, T.under ≠ .other k) (hs : v ≠ .nilSlice) (hm : v ≠ .nilMap) : isNilValue ⟨T, v⟩ = false := by
  rw [wtC_eq] at hw
  simp only [Bool.and_eq_true] at hw
  replace hw := hw.2
  unfold isNilValue
  simp only []
  generalize T.under = U at hw hk hi hc ho
  cases v <;> first
    | rfl
    | (exact absurd rfl hs)
    | (exact absurd rfl hm)
    | (cases U <;> first
        | (simp at hw; done)
        | (exact absurd rfl (hk _))
        | (exact absurd rfl hi)
        | (exact absurd rfl (hc _))
        | (exact absurd rfl (ho _)))

/-- `embeddObjReFold` around a leaf whose events are an object: the members of the object -/
theorem embedd_mems (rf : Nat) (o : FoldOpts) (obj : ReFold) (rv : RV) (hnil : isNilValue rv = false)
    {xs : List XEv} (hq : ∀ x ∈ xs, quietX x = true)
    (hrun : ∀ c s, run rf o c obj rv s = deliverAll c s (some xs))
    {ys : List XEv} {ms : List (Bytes × Val)} {segs : List Seg}
    (hthru : thru 0 xs = .ok (ys, 0)) (henc : EncMems (expandAll ys) ms) (hrel : RelSegs segs ms)
    {s : St} (hs : Inv s) :
    MemsOut s (run (rf + 1) o .user (.embedd obj) rv s) segs := by
  rw [run_embedd, hnil]
  simp only [Bool.false_eq_true, if_false, hrun]
  have := emit_exp_seq s.nextVs hq _ 0 (newVs_inv hs) (newVs_at s)
  rw [hthru] at this
  obtain ⟨s', h1, h2, h3⟩ := this
  unfold deliverAll
  simp only [h1]
  unfold ExpAt at h3
  refine ⟨s', ys, ms, ?_, ⟨by rw [h2.1, newVs_evs], h2.2⟩, henc, hrel⟩
  simp [h3]

/-- `embeddObjReFold` around a leaf whose events are no object: an error -/
theorem embedd_err (rf : Nat) (o : FoldOpts) (obj : ReFold) (rv : RV) (hnil : isNilValue rv = false)
    {xs : List XEv} (hq : ∀ x ∈ xs, quietX x = true)
    (hrun : ∀ c s, run rf o c obj rv s = deliverAll c s (some xs))
    {e : Err} (hthru : thru 0 xs = .error e) {s : St} (hs : Inv s) :
    ∃ s', run (rf + 1) o .user (.embedd obj) rv s = (s', .err e) := by
  rw [run_embedd, hnil]
  simp only [Bool.false_eq_true, if_false, hrun]
  have := emit_exp_seq s.nextVs hq _ 0 (newVs_inv hs) (newVs_at s)
  rw [hthru] at this
  obtain ⟨s', h1⟩ := this
  unfold deliverAll
  simp only [h1]
  exact ⟨s', by simp⟩

end SF.FoldProofs.Custom
