/-
  UBJSON refinement, base facts: fixed-width two's complement integers and lengths read back
  exactly.
-/
import SF.Proofs.UbjItem
import SF.Ubjson.Parse
namespace SF.Ubjson.Parse
open SF SF.Ubjson SF.Ubjson.Syn
open StateType StateStep

/-! ## reading numbers back -/

theorem twos_length (w : Nat) (v : Int) : (Enc.twos w v).length = w := by simp [Enc.twos]

theorem pow_256 : ((256 : Int) ^ 1 = 256) ∧ ((256 : Int) ^ 2 = 65536) ∧ ((256 : Int) ^ 4 = 4294967296) ∧
    ((256 : Int) ^ 8 = 18446744073709551616) := by decide

theorem toSigned_twos_1 (v : Int) (hlo : -128 ≤ v) (hhi : v ≤ 127) : toSigned 1 (beNat (Enc.twos 1 v)) = v := by
  have e2 : (2 : Nat) ^ (8 * 1 - 1) = 128 := by rfl
  have e3 : ((2 : Int) ^ (8 * 1)) = 256 := by rfl
  have hm : (v % 256).toNat < 256 ^ 1 := by have : (256 : Nat) ^ 1 = 256 := by rfl
                                            omega
  unfold Enc.twos toSigned
  rw [pow_256.1, beNat_beBytes 1 _ hm, e2, e3]
  split <;> omega

theorem toSigned_twos_2 (v : Int) (hlo : -32768 ≤ v) (hhi : v ≤ 32767) : toSigned 2 (beNat (Enc.twos 2 v)) = v := by
  have e2 : (2 : Nat) ^ (8 * 2 - 1) = 32768 := by rfl
  have e3 : ((2 : Int) ^ (8 * 2)) = 65536 := by rfl
  have hm : (v % 65536).toNat < 256 ^ 2 := by have : (256 : Nat) ^ 2 = 65536 := by rfl
                                              omega
  unfold Enc.twos toSigned
  rw [pow_256.2.1, beNat_beBytes 2 _ hm, e2, e3]
  split <;> omega

theorem toSigned_twos_4 (v : Int) (hlo : -2147483648 ≤ v) (hhi : v ≤ 2147483647) :
    toSigned 4 (beNat (Enc.twos 4 v)) = v := by
  have e2 : (2 : Nat) ^ (8 * 4 - 1) = 2147483648 := by rfl
  have e3 : ((2 : Int) ^ (8 * 4)) = 4294967296 := by rfl
  have hm : (v % 4294967296).toNat < 256 ^ 4 := by have : (256 : Nat) ^ 4 = 4294967296 := by rfl
                                                   omega
  unfold Enc.twos toSigned
  rw [pow_256.2.2.1, beNat_beBytes 4 _ hm, e2, e3]
  split <;> omega

theorem toSigned_twos_8 (v : Int) (hlo : -9223372036854775808 ≤ v) (hhi : v ≤ 9223372036854775807) :
    toSigned 8 (beNat (Enc.twos 8 v)) = v := by
  have e2 : (2 : Nat) ^ (8 * 8 - 1) = 9223372036854775808 := by rfl
  have e3 : ((2 : Int) ^ (8 * 8)) = 18446744073709551616 := by rfl
  have hm : (v % 18446744073709551616).toNat < 256 ^ 8 := by
    have : (256 : Nat) ^ 8 = 18446744073709551616 := by rfl
    omega
  unfold Enc.twos toSigned
  rw [pow_256.2.2.2, beNat_beBytes 8 _ hm, e2, e3]
  split <;> omega

theorem beNat_single (b : UInt8) : beNat [b] = b.toNat := by simp [beNat]

theorem single_of_length {a : Bytes} (h : a.length = 1) : ∃ b0, a = [b0] := by
  match a, h with
  | [b0], _ => exact ⟨b0, rfl⟩

/-- a non-negative length in `w` bytes reads back as itself (signed read) -/
theorem toSigned_len (w n : Nat) (hw : 0 < w) (h : n < 2 ^ (8 * w - 1)) : toSigned w (beNat (beBytes w n)) = n := by
  have h2 : n < 256 ^ w := by
    have : (256 : Nat) ^ w = 2 ^ (8 * w) := by
      rw [show (256 : Nat) = 2 ^ 8 by rfl, ← Nat.pow_mul]
    rw [this]
    have : 2 ^ (8 * w - 1) ≤ 2 ^ (8 * w) := Nat.pow_le_pow_right (by omega) (by omega)
    omega
  rw [beNat_beBytes w n h2]
  unfold toSigned
  split
  · omega
  · rfl

end SF.Ubjson.Parse
