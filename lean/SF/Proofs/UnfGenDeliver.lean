/-
  Consequences of `tree_generic` for particular delivery positions:
    * the `interface{}` target set by `SetTarget` on an idle Unfolder (`ifcCtx`);
    * an element of a `[]interface{}` / a value of a `map[string]interface{}` being unfolded
      (`unfolderArrIfc`, `unfolderMapIfc` on top, pointer anywhere);
    * prefixes of a run; invalid base type codes.
-/
import SF.Proofs.UnfGenNorm
namespace SF.Unf
open SF

/-! ### prefixes -/

/-- a run that succeeds has succeeded on every prefix -/
theorem run_prefix_ok (fuel : Nat) (a b : List UEv) (c c' : Ctx) (h : run fuel (a ++ b) c = .ok () c') :
    ∃ c1, run fuel a c = .ok () c1 ∧ run fuel b c1 = .ok () c' := by
  rw [run_append] at h
  cases h1 : run fuel a c with
  | ok u c1 => rw [h1] at h; exact ⟨c1, rfl, h⟩
  | err e c1 => rw [h1] at h; cases h
  | panic c1 => rw [h1] at h; cases h
  | outOfFuel => rw [h1] at h; cases h
  | gap m => rw [h1] at h; cases h

/-! ### `SetTarget(&v)` for `var v interface{}` -/

/-- the context `SetTarget` leaves for a target of type `interface{}` holding `v`:
`unfolderIfc` pushed with the pointer to the target -/
def ifcCtx (tbl : TypeTable) (v : GoVal) (c : Ctx) : Ctx :=
  { c with
    target := v, env := tbl
    unfolder := c.unfolder.push (.prim .ifc)
    ptr := c.ptr.push (some { root := .target }) }

theorem setTarget_ifc (tbl : TypeTable) (v : GoVal) (c : Ctx) :
    setTarget tbl .ifc v c = .ok (ifcCtx tbl v c) := rfl

/-- `unfolderIfc.assign` on that context: the target holds the value, both stacks are back -/
theorem primAssign_ifcCtx (tbl : TypeTable) (v w : GoVal) (c : Ctx) (kc : Symbols.Cache) :
    primAssign w (setKC (ifcCtx tbl v c) kc) = .ok () { c with target := w, env := tbl, keyCache := kc } := by
  simp [primAssign, bind_def, currentPtr, ifcCtx, setKC, Stk.push, store, rootVal, setRoot, primCleanup, popU, popPtr,
    Stk.pop, pure_def]

/-- after the top-level value nobody is left to be told -/
theorem after_idle (t : UTree) (S : Nat) (c : Ctx) (h : c.unfolder.stack = []) : after t S c = .ok () c := by
  cases t with
  | arr l bt xs => simp [after, reportChildDone, bind_def, getCtx, h, pure_def]
  | obj l bt ms => simp [after, reportChildDone, bind_def, getCtx, h, pure_def]
  | _ => rfl

/-- a disabled key cache never changes -/
theorem KCOk_disabled {kc kc' : Symbols.Cache} (hi : Symbols.Inv kc) (h : KCOk kc kc') (hd : kc.enabled = false) :
    kc' = kc := by
  obtain ⟨hi', he, hm⟩ := h
  obtain ⟨a1, a2⟩ := hi.dis hd
  obtain ⟨b1, b2⟩ := hi'.dis (he.trans hd)
  cases kc; cases kc'
  simp_all

/-! ### the stack of unfolders is not touched by `append` / `put` -/

theorem load_ok (p : Ptr) (c c' : Ctx) (v : GoVal) (h : load p c = .ok v c') : c' = c := by
  unfold load at h
  cases p with
  | none => cases h
  | some path =>
    simp only at h
    split at h
    · injection h with _ h; exact h.symm
    · cases h

theorem setRoot_unfolder (c c' : Ctx) (r : Root) (v : GoVal) (h : setRoot c r v = some c') :
    c'.unfolder = c.unfolder ∧ c'.idx = c.idx ∧ c'.key = c.key := by
  unfold setRoot at h
  cases r with
  | target => simp only [Option.some.injEq] at h; subst h; exact ⟨rfl, rfl, rfl⟩
  | cell n => simp only at h; split at h <;> simp only [Option.some.injEq, reduceCtorEq] at h; subst h; exact ⟨rfl, rfl, rfl⟩
  | arrays n => simp only at h; split at h <;> simp only [Option.some.injEq, reduceCtorEq] at h; subst h; exact ⟨rfl, rfl, rfl⟩
  | mapPrimitive n => simp only at h; split at h <;> simp only [Option.some.injEq, reduceCtorEq] at h; subst h; exact ⟨rfl, rfl, rfl⟩
  | mapAny n => simp only at h; split at h <;> simp only [Option.some.injEq, reduceCtorEq] at h; subst h; exact ⟨rfl, rfl, rfl⟩

theorem store_ok (p : Ptr) (v : GoVal) (c c' : Ctx) (h : store p v c = .ok () c') :
    c'.unfolder = c.unfolder ∧ c'.idx = c.idx ∧ c'.key = c.key := by
  unfold store at h
  cases p with
  | none => cases h
  | some path =>
    simp only at h
    split at h
    · split at h
      · rename_i c'' hs
        injection h with _ h; subst h
        exact setRoot_unfolder _ _ _ _ hs
      · cases h
    · cases h

theorem arrAppend_ok (v : GoVal) (c c' : Ctx) (h : arrAppend v c = .ok () c') : c'.unfolder = c.unfolder := by
  unfold arrAppend at h
  simp only [bind_def, currentIdx, currentPtr] at h
  cases hl : load c.ptr.current c with
  | ok sl c1 =>
    have := load_ok _ _ _ _ hl; subst this
    rw [hl] at h
    simp only at h
    have key : ∀ w, (store c1.ptr.current w >>= fun _ => setCurrentIdx (c1.idx.current + 1)) c1 = .ok () c' →
        c'.unfolder = c1.unfolder := by
      intro w hw
      rw [bind_def] at hw
      cases hs : store c1.ptr.current w c1 with
      | ok u c2 =>
        rw [hs] at hw
        simp only [setCurrentIdx, modifyCtx] at hw
        injection hw with _ hw; subst hw
        exact (store_ok _ _ _ _ hs).1
      | _ => rw [hs] at hw; cases hw
    cases sl with
    | sliceNil et => exact key _ h
    | slice et es hh =>
      simp only at h
      split at h
      · exact key _ h
      · exact key _ h
    | _ => simp [bind_def, modelGap] at h
  | _ => rw [hl] at h; cases h

theorem mapPut_ok (k : PK) (v : GoVal) (c c' : Ctx) (h : mapPut k v c = .ok () c') :
    c'.unfolder.stack = c.unfolder.stack := by
  unfold mapPut at h
  simp only [bind_def, currentPtr] at h
  cases hl : load c.ptr.current c with
  | ok m c1 =>
    have := load_ok _ _ _ _ hl; subst this
    rw [hl] at h
    simp only at h
    have key : ∀ et ms, (popKey >>= fun key => store c1.ptr.current (.map et (mapSet ms key v)) >>= fun _ =>
        setCurrentU (.mapKey k)) c1 = .ok () c' → c'.unfolder.stack = c1.unfolder.stack := by
      intro et ms hw
      rw [bind_def] at hw
      cases hp : popKey c1 with
      | ok key c2 =>
        rw [hp] at hw
        simp only [bind_def] at hw
        have hc2 : c2.unfolder = c1.unfolder := by
          unfold popKey at hp
          split at hp
          · injection hp with _ hp; subst hp; rfl
          · cases hp
        have hptr : c2.ptr = c1.ptr := by
          unfold popKey at hp
          split at hp
          · injection hp with _ hp; subst hp; rfl
          · cases hp
        cases hs : store c1.ptr.current (.map et (mapSet ms key v)) c2 with
        | ok u c3 =>
          rw [hs] at hw
          simp only [setCurrentU, modifyCtx] at hw
          injection hw with _ hw; subst hw
          simp only
          rw [(store_ok _ _ _ _ hs).1, hc2]
        | _ => rw [hs] at hw; cases hw
      | _ => rw [hp] at hw; cases hw
    cases m with
    | mapNil et => exact key et [] h
    | map et ms => exact key et ms h
    | _ => simp [modelGap] at h
  | _ => rw [hl] at h; cases h

/-- delivering to `unfolderArrIfc` / `unfolderMapIfc` does not pop anything: the report loop ends -/
theorem deliver_after_noshrink (t : UTree) (u : U) (v : GoVal) (c : Ctx)
    (hu : u = .arr .ifc ∨ u = .mapVal .ifc) :
    (pukDeliver u v >>= fun _ => after t c.unfolder.stack.length) c = pukDeliver u v c := by
  rw [bind_def]
  cases h : pukDeliver u v c with
  | ok x c' =>
    have hlen : c'.unfolder.stack.length = c.unfolder.stack.length := by
      rcases hu with hu | hu <;> subst hu
      · rw [arrAppend_ok v c c' h]
      · rw [mapPut_ok .ifc v c c' h]
    simp only
    rw [← hlen]
    exact after_noshrink t c'
  | _ => rfl

end SF.Unf

namespace SF.Unf
open SF

/-! ### everything but the last event: no delivery yet, no failure, whatever the memory looks like -/

theorem events_ne_nil (t : UTree) : t.events ≠ [] := by
  cases t <;> simp [UTree.events]

/-- in ANY context with a generic position on top — whatever the pointers and the memory are —
all events of a well-formed value but the last one are accepted -/
theorem tree_generic_init (f : Nat) (t : UTree) (c : Ctx) (hwf : t.wf = true)
    (hu : isSink c.unfolder.current) (hkc : Symbols.Inv c.keyCache) :
    ∃ c', run (f + 1) t.events.dropLast c = .ok () c' := by
  cases t with
  | scalar s => exact ⟨c, by simp [UTree.events, run]⟩
  | strRef s => exact ⟨c, by simp [UTree.events, run]⟩
  | arr l bt xs =>
    simp only [UTree.wf, Bool.and_eq_true, decide_eq_true_eq] at hwf
    obtain ⟨⟨hl, hbt⟩, hxs⟩ := hwf
    have hk := btKind_of_le bt hbt
    have h1 : stepEv (f + 1) (.arrStart l bt) c = .ok () (arrCtx c (kindOf bt) bt l []) := by
      simp only [stepEv, mod256 bt hbt]
      exact arrStart_sink f l bt _ c hu hk
    obtain ⟨kc', _, hrun⟩ := list_generic f xs c bt l [] hbt hxs hkc
    refine ⟨arrCtx (setKC c kc') (kindOf bt) bt l ([] ++ genList (kindOf bt) xs), ?_⟩
    rw [UTree.events, List.dropLast_concat, run_cons_ok _ _ _ _ _ h1, hrun]
  | obj l bt ms =>
    simp only [UTree.wf, Bool.and_eq_true, decide_eq_true_eq] at hwf
    obtain ⟨hbt, hms⟩ := hwf
    have hk := btKind_of_le bt hbt
    have h1 : stepEv (f + 1) (.objStart l bt) c = .ok () (mapCtx c (kindOf bt) bt []) := by
      simp only [stepEv, mod256 bt hbt]
      exact objStart_sink f l bt _ c hu hk
    obtain ⟨kc', _, hrun⟩ := mems_generic f ms c bt [] hbt hms hkc
    refine ⟨mapCtx (setKC c kc') (kindOf bt) bt (genMems (kindOf bt) ms []), ?_⟩
    rw [UTree.events, List.dropLast_concat, run_cons_ok _ _ _ _ _ h1, hrun]

/-- a proper prefix is a prefix of `dropLast` -/
theorem proper_prefix_dropLast {α : Type} (l a b : List α) (h : l = a ++ b) (hb : b ≠ []) :
    ∃ r, l.dropLast = a ++ r := by
  subst h
  exact ⟨b.dropLast, by rw [List.dropLast_append_of_ne_nil hb]⟩

/-! ### invalid base type codes -/

theorem btKind_none_iff (b : Nat) : btKind b = none ↔ 17 ≤ b := by
  constructor
  · intro h
    by_cases hb : b ≤ 16
    · rw [btKind_of_le b hb] at h; cases h
    · omega
  · intro h
    have e : ∀ n : Nat, n ≤ 16 → ¬ b = n := by
      intro n hn; omega
    simp only [btKind, BT.any, BT.byte, BT.string, BT.bool, BT.zero, BT.int, BT.int8, BT.int16, BT.int32, BT.int64,
      BT.uint, BT.uint8, BT.uint16, BT.uint32, BT.uint64, BT.float32, BT.float64, beq_iff_eq]
    simp only [e 0 (by omega), e 1 (by omega), e 2 (by omega), e 3 (by omega), e 4 (by omega), e 5 (by omega),
      e 6 (by omega), e 7 (by omega), e 8 (by omega), e 9 (by omega), e 10 (by omega), e 11 (by omega),
      e 12 (by omega), e 13 (by omega), e 14 (by omega), e 15 (by omega), e 16 (by omega), if_false]

theorem arrStart_invalid (f : Nat) (l : Int) (bt : Nat) (c : Ctx)
    (hu : isSink c.unfolder.current) (hk : btKind bt = none) :
    onArrayStart (f + 1) l bt c = .panic c := by
  have h1 : onArrayStart (f + 1) l bt c = unfoldIfcStartSubArray l bt c := by
    rcases hu with h | h | h <;> simp [onArrayStart, bind_def, currentU_eq, h]
  rw [h1]
  simp [unfoldIfcStartSubArray, makeArrayPtr, hk, bind_def, goPanic]

theorem objStart_invalid (f : Nat) (l : Int) (bt : Nat) (c : Ctx)
    (hu : isSink c.unfolder.current) (hk : btKind bt = none) :
    onObjectStart (f + 1) l bt c = .panic c := by
  have h1 : onObjectStart (f + 1) l bt c = unfoldIfcStartSubMap l bt c := by
    rcases hu with h | h | h <;> simp [onObjectStart, bind_def, currentU_eq, h]
  rw [h1]
  simp [unfoldIfcStartSubMap, makeMapPtr, hk, bind_def, goPanic]

end SF.Unf

namespace SF.Unf
open SF

/-- for `unfolderArrIfc` / `unfolderMapIfc` on top the run IS the delivery -/
theorem tree_into_container (f : Nat) (t : UTree) (c : Ctx) (hwf : t.wf = true)
    (hu : c.unfolder.current = .arr .ifc ∨ c.unfolder.current = .mapVal .ifc)
    (hS : c.unfolder.stack ≠ []) (hkc : Symbols.Inv c.keyCache) :
    ∃ kc', KCOk c.keyCache kc' ∧
      run (f + 1) t.events c = pukDeliver c.unfolder.current t.gen (setKC c kc') := by
  obtain ⟨kc', hok, hrun⟩ := tree_generic f t c hwf (Or.inr hu) hS hkc
  exact ⟨kc', hok, by rw [hrun]; exact deliver_after_noshrink t _ _ (setKC c kc') hu⟩

end SF.Unf

namespace SF.Unf
open SF

/-! ### an `interface{}` FIELD of a struct being unfolded -/

theorem primAssign_ok (v : GoVal) (c c' : Ctx) (cur x : U) (r : List U) (hu : c.unfolder = ⟨cur, x :: r⟩)
    (h : primAssign v c = .ok () c') : c'.unfolder = ⟨x, r⟩ := by
  unfold primAssign at h
  simp only [bind_def, currentPtr] at h
  cases hs : store c.ptr.current v c with
  | ok u c1 =>
    rw [hs] at h
    have hu1 : c1.unfolder = ⟨cur, x :: r⟩ := by rw [(store_ok _ _ _ _ hs).1, hu]
    simp only [primCleanup, bind_def, popU_eq c1 cur x r hu1] at h
    unfold popPtr at h
    simp only [withU] at h
    cases hp : c1.ptr.pop with
    | none => rw [hp] at h; cases h
    | some ps =>
      rw [hp] at h
      simp only [pure_def] at h
      injection h with _ h; subst h; rfl
  | _ => rw [hs] at h; cases h

/-- after the value of an `interface{}` field was assigned the struct state is told that a child
is done (a no-op) and the loop ends -/
theorem after_struct (t : UTree) (c : Ctx) (fields : Fields) (rest : List U)
    (hu : c.unfolder = ⟨.struct fields, rest⟩) :
    after t (rest.length + 1) c = .ok () c := by
  have hcur : c.unfolder.current = .struct fields := by rw [hu]
  have hlen : c.unfolder.stack.length = rest.length := by rw [hu]
  have hrep : onChildArrayDone c = .ok () c ∧ onChildObjectDone c = .ok () c := by
    simp [onChildArrayDone, onChildObjectDone, bind_def, currentU_eq, hcur, pure_def]
  cases t with
  | arr l bt xs =>
    have := report_one onChildArrayDone (rest.length + 1) c hrep.1
    rw [hlen] at this
    exact this
  | obj l bt ms =>
    have := report_one onChildObjectDone (rest.length + 1) c hrep.2
    rw [hlen] at this
    exact this
  | _ => rfl

theorem tree_into_field (f : Nat) (t : UTree) (c : Ctx) (fields : Fields) (rest : List U) (hwf : t.wf = true)
    (hu : c.unfolder = ⟨.prim .ifc, .struct fields :: rest⟩) (hkc : Symbols.Inv c.keyCache) :
    ∃ kc', KCOk c.keyCache kc' ∧
      run (f + 1) t.events c = primAssign t.gen (setKC c kc') := by
  have hcur : c.unfolder.current = .prim .ifc := by rw [hu]
  obtain ⟨kc', hok, hrun⟩ := tree_generic f t c hwf (Or.inl hcur) (by rw [hu]; simp) hkc
  refine ⟨kc', hok, ?_⟩
  rw [hrun, bind_def, hcur]
  have hlen : c.unfolder.stack.length = rest.length + 1 := by rw [hu]; rfl
  cases h : pukDeliver (.prim .ifc) t.gen (setKC c kc') with
  | ok x c' =>
    have hu' : c'.unfolder = ⟨.struct fields, rest⟩ :=
      primAssign_ok t.gen (setKC c kc') c' _ _ _ hu h
    simp only [hlen]
    rw [after_struct t c' fields rest hu']
    exact h.symm
  | err e c' => exact h.symm
  | panic c' => exact h.symm
  | outOfFuel => exact h.symm
  | gap m => exact h.symm

end SF.Unf
