/-
  UBJSON parser mirror (SF/Ubjson/Parse.lean) — final property theorems.

  (A) C03, no-panic clause: `feedUntil`, `feed`, `write`, `parse`, `writeChunks`,
      `parseReader` never return `Err.panic`, for ALL byte strings and ALL chunkings, from
      every parser state that satisfies the invariant `Inv` (SF/Proofs/UbjNoPanic.lean) and
      whose stored error is not already a panic.  `Inv` holds for `{}` / `init`, and is
      preserved by every entry point.  It cannot be dropped: three concrete states outside
      it panic (examples below).

  (B) C06, refinement: for every grammatical item `it` (SF/Proofs/UbjItem.lean: `Item`,
      `wire`, `events`, `value`, `ok` — scalars of every width, strings / high-precision
      numbers with lengths in every integer width, plain / counted / typed arrays and objects
      nested arbitrarily, no-ops where the grammar of SF/Ubjson/Cst.lean has them) `feedUntil`
      on `it.wire ++ rest` delivers exactly `it.events`, reports done and leaves `rest`;
      `parse` on a stream delivers the events of all its items with verdict `none`, and
      these events build exactly the items' values.
      The ONLY side condition is about FUEL, and it is forced by the recorded finding that a
      typed array with a payload-free element type needs `2·count` loop iterations whatever
      the input length: `feedUntil` is proved for every fuel ≥ `vcost it + 1` (an explicit
      function, ≤ 3·|wire| + 2·(number of payload-free elements)); `parse` — whose inner
      fuel is the model constant `fuelFor b = 8·|b| + 2000000` — for streams whose items
      have at most 1000000 payload-free elements each.

  (C) C03, no-hang clause: THE LOOPS NEVER SPIN.  From every state satisfying the shape
      invariant `G` (SF/Proofs/UbjProg.lean; holds for `{}`, preserved by every step), for ALL
      byte strings and fuels: if `feedUntil` runs out of fuel after `f` iterations then
      `f ≤ 1 + 2·(2·|b| + |buffer|) + 2·(events delivered)` — every second iteration consumed
      a byte or delivered an event.  The outer loop of `feed` and the loop of `finalize` never
      exhaust their own fuel.  Hence `parse` / `writeChunks` (any chunking) can report
      `outOfFuel` only after at least `1000000 - (bytes received)` events: for inputs below
      a megabyte only an event flood — the recorded finding, `[$Z#l…`: `count` events from a
      dozen bytes — exhausts the model's fuel, never a spinning loop.  (A bound in the input
      length alone is false.)  Not proved: an a-priori bound on the number of events, hence
      termination proper — see the note at the end.
-/
import SF.Proofs.UbjNoPanicLoop
import SF.Proofs.UbjRefTop
import SF.Proofs.UbjTree
import SF.Ubjson.Cst
import SF.Proofs.UbjProgFeed
namespace SF.Props.UbjParse
open SF SF.Ubjson SF.Ubjson.Parse
open StateType StateStep

/-! ## (A) no panic -/

instance (p : P) : Decidable (Inv p) :=
  decidable_of_iff
    ((crit p.state.current = true → 0 ≤ p.length.current) ∧ (∀ s ∈ p.state.stack, crit s = false) ∧
      crit p.valueState.current = false ∧ (∀ s ∈ p.valueState.stack, crit s = false))
    ⟨fun ⟨a, b, c, d⟩ => ⟨a, b, c, d⟩, fun h => ⟨h.cur, h.stk, h.vcur, h.vstk⟩⟩

/-- the invariant holds initially -/
theorem inv_init (failAt : Option Nat) : Inv (init failAt) := Parse.inv_init failAt
theorem inv_default : Inv ({} : P) := Parse.inv_default

/-- WITHOUT the invariant the mirror does reach its `Err.panic` outcomes (in Go: a slice
bound out of range / index out of range): a negative `length.current` under a state that
uses it as a byte count or element count.  (Such states are unreachable from `NewParser`:
`stepLen` refuses negative lengths — that is what `Inv` records.) -/
example : (feedUntil 10 { state := { current := ⟨stString, stWithLen⟩ }, length := { current := -1 } } [0x61]).err
    = some .panic := by decide +kernel
example : (feedUntil 10 { state := { current := ⟨stObjectDyn, stFieldNameLen⟩ }, length := { current := -1 } } [0x61]).err
    = some .panic := by decide +kernel
example : (feedUntil 10 { state := { current := ⟨stArrayCount, stWithLen⟩ }, length := { current := -1 } } []).err
    = some .panic := by decide +kernel
example : ¬ Inv { state := { current := ⟨stString, stWithLen⟩ }, length := { current := -1 } } := by decide

/-- ONE STEP never panics and keeps the invariant, for every input the loop can pass -/
theorem execStep_no_panic (p : P) (b : Bytes) (h : Inv p) (herr : p.err ≠ some .panic)
    (hg : b ≠ [] ∨ pending p = true) :
    (execStep p b).err ≠ some .panic ∧ Inv (execStep p b).p ∧ (execStep p b).p.err ≠ some .panic := by
  have := execStep_safe p b ⟨h, herr⟩ hg
  exact ⟨this.1, this.2.inv, this.2.err⟩

/-- C03 (no-panic clause), UBJSON: `feedUntil` (the loop of `Write` / `Parse` /
`Decoder.Next`) NEVER PANICS — every amount of fuel, every input, every state satisfying the
invariant — and re-establishes the invariant -/
theorem feedUntil_no_panic (f : Nat) (p : P) (b : Bytes) (h : Inv p) (herr : p.err ≠ some .panic) :
    (feedUntil f p b).err ≠ some .panic ∧ Inv (feedUntil f p b).p ∧ (feedUntil f p b).p.err ≠ some .panic := by
  have := feedUntil_safe f p b ⟨h, herr⟩
  exact ⟨this.1, this.2.inv, this.2.err⟩

/-- `Parser.feed` never panics -/
theorem feed_no_panic (fuel : Nat) (p : P) (b : Bytes) (h : Inv p) (herr : p.err ≠ some .panic) :
    (feed fuel p b).2 ≠ some .panic ∧ Inv (feed fuel p b).1 ∧ (feed fuel p b).1.err ≠ some .panic := by
  have := feed_safe fuel p b ⟨h, herr⟩
  exact ⟨this.1, this.2.inv, this.2.err⟩

/-- `Parser.Write` never panics and leaves a state from which the next `Write` cannot
panic either -/
theorem write_no_panic (p : P) (b : Bytes) (h : Inv p) (herr : p.err ≠ some .panic) :
    (write p b).2 ≠ some .panic ∧ Inv (write p b).1 ∧ (write p b).1.err ≠ some .panic := by
  have := write_safe p b ⟨h, herr⟩
  exact ⟨this.1, this.2.inv, this.2.err⟩

/-- `Parser.finalize` has no panic outcome at all (any state) -/
theorem finalize_no_panic (p : P) : (finalize p).2 ≠ some .panic := Parse.finalize_no_panic p

/-- `ubjson.Parse` / `ParseString` never panic, from any state satisfying the invariant … -/
theorem parse_no_panic' (p : P) (b : Bytes) (h : Inv p) (herr : p.err ≠ some .panic) :
    (parse p b).2 ≠ some .panic := by
  unfold parse feedAll
  have h1 := feed_safe (2 * b.length + 2) p b ⟨h, herr⟩
  rcases hf : feed (2 * b.length + 2) p b with ⟨q, e⟩
  rw [hf] at h1
  cases e with
  | some e => simpa using h1.1
  | none =>
    simp only []
    have := Parse.finalize_no_panic q
    rcases hq : finalize q with ⟨q', e'⟩
    rw [hq] at this
    simpa using this

/-- … in particular on ANY byte string from a fresh parser -/
theorem parse_no_panic (b : Bytes) : (parse {} b).2 ≠ some .panic :=
  parse_no_panic' {} b inv_default (by simp)

theorem parse_init_no_panic (failAt : Option Nat) (b : Bytes) : (parse (init failAt) b).2 ≠ some .panic :=
  parse_no_panic' _ b (inv_init failAt) (by simp [init])

/-- any sequence of `Write` calls with ANY chunking followed by the end-of-input check -/
theorem writeChunks_no_panic (cs : List Bytes) (p : P) (h : Inv p) (herr : p.err ≠ some .panic) :
    (writeChunks p cs).2 ≠ some .panic := by
  induction cs generalizing p with
  | nil => exact Parse.finalize_no_panic p
  | cons c cs ih =>
    simp only [writeChunks]
    have h1 := write_safe p c ⟨h, herr⟩
    rcases hw : write p c with ⟨q, e⟩
    rw [hw] at h1
    cases e with
    | some e => simpa using h1.1
    | none => simp only []; exact ih q h1.2.inv h1.2.err

/-- `ParseReader` (io.Copy + finalize), whatever the reader returns -/
theorem parseReader_no_panic (reads : List Bytes) (p : P) (h : Inv p) (herr : p.err ≠ some .panic) :
    (parseReader p reads).2 ≠ some .panic :=
  writeChunks_no_panic _ p h herr

/-- non-vacuity: a state in the middle of a document (inside a counted array inside a typed
array, a string length just read) satisfies the invariant -/
example : Inv { state := { stack := [⟨stArrayCount, stCont⟩, ⟨stArrayTyped, stCont⟩, ⟨stNext, stStart⟩],
                           current := ⟨stString, stWithLen⟩ },
                valueState := { current := ⟨stArray, stStart⟩ },
                length := { stack := [1, 2, 0], current := 5 } } := by decide

/-- the states reached from `{}` satisfy it (here: after a chunk that ends inside a key) -/
example : Inv (write {} [0x7b, 0x23, 0x69, 0x02, 0x69, 0x03, 0x61]).1 := by decide +kernel

/-- non-vacuity of the conclusion: inputs that exercise the guarded index operations end in
plain errors -/
example : (parse {} [0x53, 0x69, 0xff]).2 = some .negativeLen ∧ (parse {} [0x5b, 0x23, 0x69, 0x05]).2 = some .missingArrEnd ∧
    (parse {} [0x7b, 0x69]).2 = some .incomplete ∧ (parse {} [0x5b, 0x24, 0x4e]).2 = some .unknownMarker := by
  decide +kernel


/-! ## (B) refinement of the grammar -/

open SF.Ubjson.Syn

/-- the parser state after a run from `{}`: idle, `E` delivered (newest first); `valueType` is
a scratch field (the element type of the last typed container seen) -/
theorem idle_eq (E : List Ev) (vt : Nat) : idle E vt = { evs := E, valueType := vt } := rfl

/-- C06 (one value, `feedUntil` = what `Decoder.Next` runs): for EVERY grammatical item, with
any number of no-ops before it and ANY bytes after it, from the idle state: exactly
`it.events` are delivered, `done` is reported, `rest` is left untouched, and the parser is
idle again — for every amount of fuel ≥ `n + 1 + vcost it`. -/
theorem feedUntil_refines (n : Nat) (it : Item) (h : it.ok = true) (rest : Bytes) (F : Nat)
    (hF : n + 1 + vcost it ≤ F) :
    ∃ vt, feedUntil F {} (noops n ++ (it.wire ++ rest)) =
      { p := { evs := it.events.reverse, valueType := vt }, rest := rest, done := true, err := none } := by
  obtain ⟨vt, hv⟩ := feedUntil_value n it h [] BT.any rest F hF
  exact ⟨vt, by rw [default_eq_idle, hv]; simp [idle]⟩

/-- the loop cost is linear in the wire length plus the payload-free elements -/
theorem vcost_linear (it : Item) : vcost it + 1 ≤ 3 * it.wire.length + 2 * free it := vcost_le it

/-- … hence with the fuel `feed` passes (`fuelFor`), whenever the item has at most 1000000
payload-free elements (elements of `[$Z#n`, `[$T#n`, `[$F#n`) -/
theorem feedUntil_refines_fuelFor (it : Item) (h : it.ok = true) (hfree : free it ≤ 1000000) (rest : Bytes) :
    ∃ vt, feedUntil (fuelFor (it.wire ++ rest)) {} (it.wire ++ rest) =
      { p := { evs := it.events.reverse, valueType := vt }, rest := rest, done := true, err := none } := by
  have := feedUntil_refines 0 it h rest (fuelFor (it.wire ++ rest)) (by
    have := vcost_le it
    simp only [fuelFor, List.length_append]; omega)
  simpa [noops] using this

/-- C06 (streams, `Parse` / `ParseString`): for EVERY stream of grammatical items — no-ops
before each item and at the end — `parse` accepts, delivers exactly the events of all items
in order, and ends idle. -/
theorem parse_refines (xs : List (Nat × Item)) (trail : Nat) (h : okElems xs = true)
    (hfree : ∀ nx ∈ xs, free nx.2 ≤ 1000000) :
    ∃ vt, parse {} (wireStream xs trail) = ({ evs := (evElems xs).reverse, valueType := vt }, none) := by
  obtain ⟨vt, hv⟩ := parse_stream_idle xs trail h hfree
  exact ⟨vt, by rw [hv]; rfl⟩

/-- … accepted, with exactly the specified events … -/
theorem parse_refines_events (xs : List (Nat × Item)) (trail : Nat) (h : okElems xs = true)
    (hfree : ∀ nx ∈ xs, free nx.2 ≤ 1000000) :
    (parse {} (wireStream xs trail)).2 = none ∧ events (parse {} (wireStream xs trail)).1 = evElems xs := by
  obtain ⟨vt, hv⟩ := parse_refines xs trail h hfree
  rw [hv]; simp [events]

/-- … hence the reported VALUES are the values draft 12 assigns -/
theorem parse_refines_value (xs : List (Nat × Item)) (trail : Nat) (h : okElems xs = true)
    (hfree : ∀ nx ∈ xs, free nx.2 ≤ 1000000) :
    buildAll (events (parse {} (wireStream xs trail)).1) = some (valElems xs) := by
  rw [(parse_refines_events xs trail h hfree).2, buildAll_evElems]

/-- … and form a contract-conforming event stream (the Visitor contract automaton of C09) -/
theorem parse_refines_wf (xs : List (Nat × Item)) (trail : Nat) (h : okElems xs = true)
    (hfree : ∀ nx ∈ xs, free nx.2 ≤ 1000000) :
    WF (events (parse {} (wireStream xs trail)).1) = true := by
  rw [(parse_refines_events xs trail h hfree).2, wf_evElems xs h]

theorem wireStream_plain (its : List Item) :
    wireStream (its.map fun it => (0, it)) 0 = its.flatMap Item.wire := by
  induction its with
  | nil => rfl
  | cons it its ih =>
    simp only [wireStream, List.append_nil, noops, List.replicate] at ih ⊢
    simp [wireElems, noops, Item.wire, ih]

theorem evElems_plain (its : List Item) : evElems (its.map fun it => (0, it)) = its.flatMap Item.events := by
  induction its with
  | nil => rfl
  | cons it its ih => simp [evElems, ih]

theorem okElems_plain (its : List Item) (h : ∀ it ∈ its, it.ok = true) :
    okElems (its.map fun it => (0, it)) = true := by
  induction its with
  | nil => rfl
  | cons it its ih => simp [okElems, h it (by simp), ih (fun x hx => h x (by simp [hx]))]

/-- streams without no-ops: plain concatenation of wire forms -/
theorem parse_refines_items (its : List Item) (h : ∀ it ∈ its, it.ok = true)
    (hfree : ∀ it ∈ its, free it ≤ 1000000) :
    (parse {} (its.flatMap Item.wire)).2 = none ∧
      events (parse {} (its.flatMap Item.wire)).1 = its.flatMap Item.events := by
  have := parse_refines_events (its.map fun it => (0, it)) 0 (okElems_plain its h) (by
    intro nx hnx
    simp only [List.mem_map] at hnx
    obtain ⟨it, hit, rfl⟩ := hnx
    exact hfree it hit)
  rw [wireStream_plain, evElems_plain] at this
  exact this

/-- a single document -/
theorem parse_refines_one (it : Item) (h : it.ok = true) (hfree : free it ≤ 1000000) :
    (parse {} it.wire).2 = none ∧ events (parse {} it.wire).1 = it.events ∧
      build (events (parse {} it.wire).1) = some it.value := by
  have hw : wireStream [(0, it)] 0 = it.wire := by simp [wireStream, wireElems, noops, Item.wire]
  have := parse_refines_events [(0, it)] 0 (by simp [okElems, h]) (by simpa using hfree)
  rw [hw] at this
  have he : evElems [(0, it)] = it.events := by simp [evElems]
  rw [he] at this
  exact ⟨this.1, this.2, by rw [this.2, build_item_events]⟩

/-! ### non-vacuity -/

/-- a document exercising every construct: typed array of typed arrays, typed object with a
payload-free element type and an empty key, counted array with no-ops, plain object, strings
with 1-, 2- and 4-byte lengths, high-precision number, every integer width at its negative
boundary, both float widths, zero-length counted and typed containers -/
def sample : Item :=
  .arr [(0, .arrT 0x5b .i [.arrT 0x69 .U [.int .i8 (-128), .int .i8 127], .arrN .I [(2, .null)], .arr [] 1]),
        (1, .objT 0x5a .i [(.i, [0x61], .null), (.l, [], .null)]),
        (0, .arrN .U [(1, .int .i16 (-32768)), (0, .int .i32 (-2147483648)), (0, .int .i64 (-9223372036854775808))]),
        (0, .obj [(.I, [0x6b], .str .l [0x68, 0x69]), (.U, [0x6b, 0x32], .hp .i [0x31, 0x32])]),
        (0, .objN .i [(.i, [0x78], .f32 0x3fc00000), (.i, [0x79], .f64 0x3ff8000000000000)]),
        (0, .arrT 0x54 .i [.tru, .tru, .tru]), (0, .arrN .i []), (0, .arrT 0x44 .L []), (0, .objN .l []),
        (0, .objT 0x7b .i [(.i, [0x6f], .obj [])]), (0, .int .u8 255), (0, .char 0x41), (0, .fals)] 2

example : sample.ok = true := by decide +kernel
example : free sample = 3 := by decide +kernel
/-- the theorem's conclusion on this instance, checked by evaluation as well -/
example : (parse {} sample.wire).2 = none ∧ events (parse {} sample.wire).1 = sample.events := by
  decide +kernel
example : vcost sample + 1 ≤ 3 * sample.wire.length + 2 * free sample := by decide +kernel

/-- the independent reference decoder of SF/Ubjson/Cst.lean reads the same bytes as the same
value (consistency of the two specification styles on this instance) -/
example : (match Cst.decodeStream sample.wire with | .ok vs => vs == [sample.value] | _ => false) = true := by
  decide +kernel

/-- the negative boundaries of every width are grammatical (two's complement reads) -/
example : (Item.int .i8 (-128)).ok = true ∧ (Item.int .i16 (-32768)).ok = true ∧ (Item.int .i32 (-2147483648)).ok = true ∧
    (Item.int .i64 (-9223372036854775808)).ok = true ∧ (Item.int .i64 9223372036854775807).ok = true ∧
    (Item.int .i8 (-129)).ok = false ∧ (Item.int .u8 256).ok = false := by decide +kernel
example : (Item.int .i64 (-9223372036854775808)).wire = [0x4c, 0x80, 0, 0, 0, 0, 0, 0, 0] := by decide +kernel

/- THE FUEL SIDE CONDITION CANNOT BE DROPPED for `parse` (known finding, DESIGN: payload-free
   element types): `[$Z#l 00 10 00 00` (1048576 nulls from 9 bytes) is grammatical —
   `(Item.arrT 0x5a .l (List.replicate 1048576 .null)).ok` — but needs 2·1048576 + 7 > fuelFor
   iterations:
       #eval (parse {} [0x5b, 0x24, 0x5a, 0x23, 0x6c, 0x00, 0x10, 0x00, 0x00]).2   -- some outOfFuel
       #eval (parse {} [0x5b, 0x24, 0x5a, 0x23, 0x6c, 0x00, 0x0f, 0x42, 0x40]).2   -- none (1000000 nulls)
   (10 s each in the interpreter, therefore not part of the build).  The full statement
       ∀ xs trail, okElems xs → parse {} (wireStream xs trail) = (idle (evElems xs).reverse _, none)
   is FALSE for the mirror as it stands (it is true of the Go code, which has no fuel);
   `feedUntil_refines` is the fuel-independent form: it holds for ALL grammatical items with
   the explicit iteration count `vcost`. -/


/-! ## (C) no hang -/

instance (p : P) : Decidable (G p) :=
  decidable_of_iff
    ((∀ s ∈ sl p, validSt s = true) ∧ chain (sl p) = true ∧ (p.marker = noMarker ∨ isIntMarker p.marker = true) ∧
      (isStart p.valueState.current = true ∨ (p.valueState.current.type = stFail ∧ p.valueState.stack = [])) ∧
      (∀ s ∈ p.valueState.stack, isStart s = true) ∧ nT (sl p) = vdepth p.valueState)
    ⟨fun ⟨a, b, c, d, e, f⟩ => ⟨a, b, c, d, e, f⟩, fun h => ⟨h.val, h.chn, h.mrk, h.vcur, h.vstk, h.cnt⟩⟩

/-- the shape invariant holds initially -/
theorem shape_default : G ({} : P) := g_default
theorem shape_init (failAt : Option Nat) : G (init failAt) := g_init failAt

/-- WITHOUT the invariant the loop does spin: states no run from `NewParser` reaches (a `N`
element state, an object state in a step it never uses, a failed state with no stored error)
make no progress at all, whatever the input -/
example : (feedUntil 1000 { state := { stack := [⟨stNext, stStart⟩], current := ⟨stFixed, stNoop⟩ } } [0x5a]).err
    = some .outOfFuel := by decide +kernel
example : (feedUntil 1000 { state := { stack := [⟨stNext, stStart⟩], current := ⟨stObjectDyn, stWithLen⟩ } } [0x5a]).err
    = some .outOfFuel := by decide +kernel
example : (feedUntil 1000 { state := { current := ⟨stFail, stStart⟩ } } [0x5a]).err = some .outOfFuel := by
  decide +kernel
example : ¬ G { state := { stack := [⟨stNext, stStart⟩], current := ⟨stFixed, stNoop⟩ } } := by decide

/-- every step keeps the shape invariant and advances (consumes, delivers, or is the element
push of a typed container, which the next step makes up for) -/
theorem execStep_advances (p : P) (b : Bytes) (hg : G p) (hgd : b ≠ [] ∨ pending p = true) :
    (execStep p b).err ≠ some .outOfFuel ∧ ((execStep p b).err = none → G (execStep p b).p ∧ Adv p b (execStep p b)) := by
  have := execStep_step p b hg hgd
  exact ⟨this.nof, this.ok⟩

/-- C03 (no-hang clause), UBJSON, the inner loop: for EVERY fuel, input and state satisfying
the invariant — if `feedUntil` runs out of fuel, the fuel was spent productively: at most
two iterations per consumed byte (four per input byte: a byte may pass through the
partial-token buffer) or delivered event, plus one -/
theorem feedUntil_no_spin (f : Nat) (p : P) (b : Bytes) (hg : G p)
    (h : (feedUntil f p b).err = some .outOfFuel) :
    f + 2 * p.evs.length ≤ 1 + 4 * b.length + 2 * p.buffer.length + 2 * (feedUntil f p b).p.evs.length := by
  have := (feedUntil_progress f p b hg).2 h
  have ht := tS_le p.state.current
  simp only [pot] at this
  omega

/-- … and it keeps the invariant -/
theorem feedUntil_shape (f : Nat) (p : P) (b : Bytes) (hg : G p) (h : (feedUntil f p b).err = none) :
    G (feedUntil f p b).p := (feedUntil_progress f p b hg).1 h

/-- from a fresh parser: `f` iterations that did not suffice imply more than `(f - 4·|b|) / 2`
events -/
theorem feedUntil_no_spin_fresh (f : Nat) (b : Bytes) (h : (feedUntil f {} b).err = some .outOfFuel) :
    f ≤ 4 * b.length + 2 * (feedUntil f {} b).p.evs.length := by
  have := (feedUntil_progress f {} b g_default).2 h
  have h0 : tS ({} : P).state.current = 0 := rfl
  have h1 : ({} : P).evs.length = 0 := rfl
  have h2 : ({} : P).buffer.length = 0 := rfl
  simp only [pot] at this
  rw [h0, h1, h2] at this
  omega

/-- the loop of `finalize` always has enough fuel -/
theorem finalize_terminates (p : P) : (finalize p).2 ≠ some .outOfFuel := finalize_no_fuel p

/-- C03 (no-hang clause), UBJSON, `Parse` / `ParseString`: on ANY byte string the model's fuel
runs out only if the document has delivered at least `1000000 - |b|` events by then.  (In
particular never on inputs that deliver fewer events — no loop spins; and by
`parse_refines` never on grammatical streams with ≤ 1000000 payload-free elements per item.) -/
theorem parse_no_hang (b : Bytes) (h : (parse {} b).2 = some .outOfFuel) :
    1000000 ≤ (parse {} b).1.evs.length + b.length := parse_hang b h

/- non-vacuity of the hypothesis: the 9-byte document of the recorded finding,
       #eval (parse {} [0x5b, 0x24, 0x5a, 0x23, 0x6c, 0x00, 0x10, 0x00, 0x00]).2            -- some outOfFuel
       #eval (parse {} [0x5b, 0x24, 0x5a, 0x23, 0x6c, 0x00, 0x10, 0x00, 0x00]).1.evs.length -- 1000034
   (two million loop iterations: 10 s in the interpreter, too slow for `decide +kernel`; the
   small-fuel instance of the same situation is the `feedUntil 10` example below) -/

/-- … `Write*` with ANY chunking + end of input / `ParseReader`, from any state satisfying the
invariant -/
theorem writeChunks_no_hang (cs : List Bytes) (p : P) (hg : G p)
    (h : (writeChunks p cs).2 = some .outOfFuel) :
    1000000 ≤ (writeChunks p cs).1.evs.length + cs.flatten.length + p.buffer.length :=
  writeChunks_hang cs p hg h

/-- non-vacuity: a state in the middle of a document satisfies the shape invariant … -/
example : G (write {} [0x5b, 0x24, 0x5b, 0x23, 0x69, 0x02, 0x24, 0x69, 0x23, 0x49, 0x01]).1 := by decide +kernel
/-- … and so does a hand-written one: inside a string inside a typed array of counted arrays -/
example : G { state := { stack := [⟨stArrayCount, stCont⟩, ⟨stArrayTyped, stCont⟩, ⟨stNext, stStart⟩],
                         current := ⟨stString, stWithLen⟩ },
              valueState := { current := ⟨stArray, stStart⟩ },
              length := { stack := [1, 2, 0], current := 5 } } := by decide
/-- the hypothesis of `feedUntil_no_spin` is satisfiable: 10 iterations do not suffice for 6
nulls of a typed array, and indeed 10 ≤ 1 + 4·6 + 2·(events) -/
example : (feedUntil 10 {} [0x5b, 0x24, 0x5a, 0x23, 0x69, 0x06]).err = some .outOfFuel ∧
    (feedUntil 10 {} [0x5b, 0x24, 0x5a, 0x23, 0x69, 0x06]).p.evs.length = 3 := by decide +kernel

/- NOT PROVED (C03 no-hang, remaining gap): an a-priori bound on the number of events in terms
   of the input alone, i.e.
       ∀ b, ∃ F, ∀ f ≥ F, (feedUntil f {} b).err ≠ some .outOfFuel        (termination)
       steps ≤ c · (|input| + Σ announced counts of payload-free typed arrays)   (the true bound)
   `feedUntil_no_spin` reduces both to bounding the events; that needs the ownership invariant
   tying each typed-array state to its remaining count on the length stack (events ≤ 2·|b| + Σ
   counts).  For grammatical input the explicit count is proved: `feedUntil_refines` with
   `vcost_linear`. -/

end SF.Props.UbjParse
