/-
  The universe of FoldRulesTop is a sub-universe of the one with custom code:
  `goodT ⊆ goodC reg`, and on good types `wt ⊆ wtC reg` — the theorems of `FoldCustomTop`
  contain those of `FoldRulesTop` (for `o.folders = reg`).
-/
import SF.Proofs.FoldTypeOk
import SF.Proofs.CusWalk
namespace SF.FoldProofs.Custom
open SF SF.Gotype SF.Gotype.Fold SF.Gotype.Rules

theorem namedOK_of_plain (reg : Bool) {n : String} {m : Methods} {u : GoType} (hm : noMethods m = true)
    (hr : userFoldTypes.contains n = false) : namedOK reg n m u = true := by
  unfold namedOK
  rw [hm, hr]
  simp

mutual
theorem goodC_of_goodT (reg : Bool) : ∀ (T : GoType) (sn : List String), goodT sn T = true → goodC reg sn T = true
  | .bool, _, _ | .string, _, _ | .int _, _, _ | .float32, _, _ | .float64, _, _ | .iface, _, _
  | .other _, _, _ => rfl
  | .slice e, sn, h => by
    simp only [goodT] at h; simp only [goodC]; exact goodC_of_goodT reg e sn h
  | .array _ e, sn, h => by
    simp only [goodT] at h; simp only [goodC]; exact goodC_of_goodT reg e sn h
  | .ptr e, sn, h => by
    simp only [goodT] at h; simp only [goodC]; exact goodC_of_goodT reg e sn h
  | .chan e, sn, h => by
    simp only [goodT] at h; simp only [goodC]; exact goodC_of_goodT reg e sn h
  | .map key e, sn, h => by
    simp only [goodT, Bool.and_eq_true] at h
    simp only [goodC, Bool.and_eq_true]
    exact ⟨goodC_of_goodT reg key sn h.1, goodC_of_goodT reg e sn h.2⟩
  | .struct fs, sn, h => by
    simp only [goodT] at h; simp only [goodC]; exact goodCFs_of_goodFs reg fs sn h
  | .named n m u, sn, h => by
    simp only [goodT, Bool.and_eq_true, Bool.not_eq_true'] at h
    simp only [goodC, Bool.and_eq_true, Bool.not_eq_true']
    exact ⟨⟨⟨h.1.1.1.1, namedOK_of_plain reg h.1.1.1.2 h.1.1.2⟩, h.1.2⟩, goodC_of_goodT reg u (n :: sn) h.2⟩
  | .ref _, _, h => by simp [goodT] at h
theorem goodCFs_of_goodFs (reg : Bool) : ∀ (fs : List Field) (sn : List String), goodFs sn fs = true →
    goodCFs reg sn fs = true
  | [], _, _ => rfl
  | f :: fs, sn, h => by
    simp only [goodFs, Bool.and_eq_true] at h
    simp only [goodCFs, Bool.and_eq_true]
    exact ⟨goodCF_of_goodF reg f sn h.1, goodCFs_of_goodFs reg fs sn h.2⟩
theorem goodCF_of_goodF (reg : Bool) : ∀ (f : Field) (sn : List String), goodF sn f = true → goodCF reg sn f = true
  | .mk n t tag a, sn, h => by
    simp only [goodF, Bool.and_eq_true, Bool.not_eq_true'] at h
    simp only [goodCF, Bool.and_eq_true, Bool.not_eq_true']
    refine ⟨⟨goodC_of_goodT reg t sn h.1, h.2⟩, ?_⟩
    -- the base type of a good type has no custom folder
    obtain ⟨sn', _, hb⟩ := SF.FoldProofs.good_stripPtr t sn h.1
    unfold inlineNilF
    simp only [Field.typ]
    split
    · rw [customOf_good reg hb]; rfl
    · rfl
end

theorem nilTop_good (reg : Bool) (b : Bool) {sn : List String} {e : GoType} (h : goodT sn e = true) :
    nilTop reg b e = true := by
  unfold nilTop
  rw [customOf_good reg h]

mutual
theorem wtC_of_wt (reg : Bool) : ∀ (v : GoVal) (T : GoType) (sn : List String), goodT sn T = true →
    wt T v = true → wtC reg T v = true
  | v, T, sn, hg, hw => by
    have hgu := SF.FoldProofs.good_under hg
    rw [wtC_eq]
    have h1 : cusOK reg T v = true := by simp [cusOK, customOf_good reg hg]
    have h2 : zeroOK T v = true := by simp [zeroOK, hasIsZero_good hg]
    rw [h1, h2, Bool.true_and, Bool.true_and]
    unfold wt at hw
    generalize hU : T.under = U at hw hgu
    match U, v, hw with
    | .bool, .bool _, _ => rfl
    | .string, .str _, _ => rfl
    | .int _, .int _, _ => rfl
    | .float32, .f32 _, _ => rfl
    | .float64, .f64 _, _ => rfl
    | .slice _, .nilSlice, _ => rfl
    | .slice e, .slice xs, hw =>
      exact wtCL_of_wtL reg xs e (snU sn T) (by simpa [goodT] using hgu.1) hw
    | .array _ e, .array xs, hw =>
      exact wtCL_of_wtL reg xs e (snU sn T) (by simpa [goodT] using hgu.1) hw
    | .map _ _, .nilMap, _ => rfl
    | .map k e, .map ms, hw =>
      simp only [Bool.and_eq_true] at hw ⊢
      have hke : goodT (snU sn T) k = true ∧ goodT (snU sn T) e = true := by simpa [goodT] using hgu.1
      exact ⟨wtCP_of_wtP reg ms k e (snU sn T) hke.1 hke.2 hw.1, hw.2⟩
    | .ptr e, .nilPtr, _ =>
      exact nilTop_good reg _ (sn := snU sn T) (by simpa [goodT] using hgu.1)
    | .ptr e, .ptr x, hw =>
      have he : goodT (snU sn T) e = true := by simpa [goodT] using hgu.1
      simp only [Bool.and_eq_true]
      refine ⟨wtC_of_wt reg x e (snU sn T) he hw, ?_⟩
      unfold nilIn
      split
      · rename_i e' heq
        have := (SF.FoldProofs.good_under he).1
        rw [heq] at this
        exact nilTop_good reg true (sn := snU (snU sn T) e) (by simpa [goodT] using this)
      · rfl
    | .iface, .nilIface, _ => rfl
    | .iface, .iface dt dv, hw =>
      simp only [Bool.and_eq_true, decide_eq_true_eq] at hw ⊢
      exact ⟨⟨goodC_of_goodT reg dt [] hw.1.1, hw.1.2⟩, wtC_of_wt reg dv dt [] hw.1.1 hw.2⟩
    | .struct fs, .struct vs, hw =>
      exact wtCF_of_wtF reg vs fs (snU sn T) (by simpa [goodT] using hgu.1) hw
    | .chan _, _, _ => rfl
    | .other _, _, _ => rfl
theorem wtCL_of_wtL (reg : Bool) : ∀ (xs : List GoVal) (e : GoType) (sn : List String), goodT sn e = true →
    wtL e xs = true → wtCL reg e xs = true
  | [], _, _, _, _ => rfl
  | x :: xs, e, sn, hg, hw => by
    simp only [wtL, Bool.and_eq_true] at hw
    simp only [wtCL, Bool.and_eq_true]
    exact ⟨wtC_of_wt reg x e sn hg hw.1, wtCL_of_wtL reg xs e sn hg hw.2⟩
theorem wtCP_of_wtP (reg : Bool) : ∀ (ms : List (GoVal × GoVal)) (k e : GoType) (sn : List String),
    goodT sn k = true → goodT sn e = true → wtP k e ms = true → wtCP reg k e ms = true
  | [], _, _, _, _, _, _ => rfl
  | (kv, x) :: ms, k, e, sn, hk, he, hw => by
    simp only [wtP, Bool.and_eq_true] at hw
    simp only [wtCP, Bool.and_eq_true]
    exact ⟨⟨wtC_of_wt reg kv k sn hk hw.1.1, wtC_of_wt reg x e sn he hw.1.2⟩, wtCP_of_wtP reg ms k e sn hk he hw.2⟩
theorem wtCF_of_wtF (reg : Bool) : ∀ (vs : List GoVal) (fs : List Field) (sn : List String),
    goodFs sn fs = true → wtF fs vs = true → wtCF reg fs vs = true
  | [], [], _, _, _ => rfl
  | [], _ :: _, _, _, hw => by simp [wtF] at hw
  | _ :: _, [], _, _, hw => by simp [wtF] at hw
  | v :: vs, f :: fs, sn, hg, hw => by
    simp only [wtF, Bool.and_eq_true] at hw
    simp only [goodFs, Bool.and_eq_true] at hg
    simp only [wtCF, Bool.and_eq_true]
    exact ⟨⟨wtC_of_wt reg v f.typ sn (SF.FoldProofs.goodF_typ hg.1) hw.1.1, hw.1.2⟩,
      wtCF_of_wtF reg vs fs sn hg.2 hw.2⟩
end

end SF.FoldProofs.Custom
