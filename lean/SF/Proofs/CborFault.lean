/-
  Visitor faults in the CBOR parser mirror: once the visitor has returned an error the step
  in progress returns that error at once and no further event is delivered.
  Helper lemmas for C16 (property theorems in SF/Props/C16.lean).
-/
import SF.Cbor.Parse
namespace SF.Cbor.Parse
open SF SF.Cbor

/-- the visitor has not failed yet: fewer than k+1 events delivered (fault index k) -/
def NoFault (p : P) : Prop := ∀ k, p.failAt = some k → p.evs.length ≤ k

/-- the visitor has just failed: exactly k+1 events delivered -/
def Stopped (p : P) : Prop := ∃ k, p.failAt = some k ∧ p.evs.length = k + 1

/-- outcome of a computation that started with `NoFault`: either still no fault and the
error (if any) is not the visitor's, or the visitor's error with delivery stopped right there -/
def GoodOut (q : P) (err : Option Err) : Prop :=
  (err ≠ some .visitor ∧ NoFault q) ∨ (err = some .visitor ∧ Stopped q)

@[simp] theorem setMajor_failAt' (p : P) (m : UInt8) : (setMajor p m).failAt = p.failAt := rfl
@[simp] theorem setMajor_evs (p : P) (m : UInt8) : (setMajor p m).evs = p.evs := rfl
@[simp] theorem setMinor_evs (p : P) (m : UInt8) : (setMinor p m).evs = p.evs := rfl
@[simp] theorem pushState_evs (p : P) (s : St) : (pushState p s).evs = p.evs := rfl
@[simp] theorem pushState_failAt (p : P) (s : St) : (pushState p s).failAt = p.failAt := rfl
@[simp] theorem popSt_evs (p : P) : (popSt p).evs = p.evs := rfl
@[simp] theorem popSt_failAt (p : P) : (popSt p).failAt = p.failAt := rfl
@[simp] theorem pushLen_evs (p : P) (l : Int) : (pushLen p l).evs = p.evs := rfl
@[simp] theorem popLen_evs (p : P) : (popLen p).evs = p.evs := rfl
@[simp] theorem popLen_failAt (p : P) : (popLen p).failAt = p.failAt := rfl
@[simp] theorem decLen_evs (p : P) (n : Int) : (decLen p n).evs = p.evs := rfl
@[simp] theorem decLen_failAt (p : P) (n : Int) : (decLen p n).failAt = p.failAt := rfl
@[simp] theorem collectP_evs (p : P) (b : Bytes) (n : Nat) : (collectP p b n).1.evs = p.evs := by simp [collectP]
@[simp] theorem collectP_failAt (p : P) (b : Bytes) (n : Nat) : (collectP p b n).1.failAt = p.failAt := by simp [collectP]

/-- `NoFault` / `Stopped` only look at `evs` and `failAt` -/
theorem noFault_congr {p q : P} (h1 : q.evs = p.evs) (h2 : q.failAt = p.failAt) : NoFault p → NoFault q := by
  intro h k hk; rw [h1]; exact h k (by rw [← h2]; exact hk)
theorem stopped_congr {p q : P} (h1 : q.evs = p.evs) (h2 : q.failAt = p.failAt) : Stopped p → Stopped q := by
  rintro ⟨k, hk, hl⟩; exact ⟨k, by rw [h2]; exact hk, by rw [h1]; exact hl⟩
theorem goodOut_congr {p q : P} {e : Option Err} (h1 : q.evs = p.evs) (h2 : q.failAt = p.failAt) :
    GoodOut p e → GoodOut q e := by
  rintro (⟨he, h⟩ | ⟨he, h⟩)
  · exact Or.inl ⟨he, noFault_congr h1 h2 h⟩
  · exact Or.inr ⟨he, stopped_congr h1 h2 h⟩

/-- the visitor call itself -/
theorem visit_goodOut (p : P) (e : Ev) (h : NoFault p) :
    ((visit p e).2 = none ∧ NoFault (visit p e).1) ∨ ((visit p e).2 = some .visitor ∧ Stopped (visit p e).1) := by
  unfold visit
  cases hf : p.failAt with
  | none => left; simp [NoFault]
  | some k =>
    have hk := h k hf
    simp only
    split
    · right
      refine ⟨rfl, k, by simp [hf], ?_⟩
      simp; omega
    · left
      refine ⟨rfl, ?_⟩
      intro k' hk'
      simp only [hf] at hk'
      cases hk'
      simp; omega

/-- a non-visiting result keeps NoFault -/
theorem good_of_noFault {p : P} {e : Option Err} (h : NoFault p) (he : e ≠ some .visitor) : GoodOut p e :=
  Or.inl ⟨he, h⟩

end SF.Cbor.Parse

namespace SF.Cbor.Parse
open SF SF.Cbor

set_option hygiene false in
/-- case split on a visitor call made under `NoFault`: it succeeded (still `NoFault`), or it
returned the injected error and delivery is `Stopped` -/
macro "visit_fault " X:term:max e:term:max h:term:max : tactic =>
  `(tactic| (rcases hvis : visit $X $e with ⟨q, err⟩
             have hv := visit_goodOut $X $e $h
             rw [hvis] at hv
             rcases hv with ⟨h1, hq⟩ | ⟨h1, hq⟩ <;> simp only at h1 hq <;> subst h1 <;> simp only []))

theorem stopped_good {q : P} (h : Stopped q) : GoodOut q (some .visitor) := Or.inr ⟨rfl, h⟩

theorem visitAll_goodOut (p : P) (es : List Ev) (h : NoFault p) :
    GoodOut (visitAll p es).1 (visitAll p es).2 ∧ ((visitAll p es).2 = none ∨ (visitAll p es).2 = some .visitor) := by
  induction es generalizing p with
  | nil => exact ⟨good_of_noFault h (by simp [visitAll]), Or.inl rfl⟩
  | cons e es ih =>
    simp only [visitAll]
    visit_fault p e h
    · exact ih q hq
    · exact ⟨stopped_good hq, by simp⟩

theorem onValue_good (n : Nat) (p : P) (h : NoFault p) : GoodOut (onValue n p).1 (onValue n p).2.2 := by
  induction n generalizing p with
  | zero =>
    unfold onValue
    simp only
    split
    · split
      · exact good_of_noFault (noFault_congr (by simp) (by simp) h) (by simp)
      · have hd : NoFault (decLen p 1) := noFault_congr (by simp) (by simp) h
        visit_fault (decLen p 1) (if p.state.current.major == majorArr then Ev.arrEnd else Ev.objEnd) hd
        · exact good_of_noFault (noFault_congr (by simp) (by simp) hq) (by simp)
        · exact stopped_good hq
    · split <;> exact good_of_noFault h (by simp)
  | succ n ih =>
    unfold onValue
    simp only
    split
    · split
      · exact good_of_noFault (noFault_congr (by simp) (by simp) h) (by simp)
      · have hd : NoFault (decLen p 1) := noFault_congr (by simp) (by simp) h
        visit_fault (decLen p 1) (if p.state.current.major == majorArr then Ev.arrEnd else Ev.objEnd) hd
        · exact ih _ (noFault_congr (by simp) (by simp) hq)
        · exact stopped_good hq
    · split <;> exact good_of_noFault h (by simp)

theorem popState_good (n : Nat) (p : P) (h : NoFault p) : GoodOut (popState n p).1 (popState n p).2.2 := by
  cases n with
  | zero => simp only [popState]; exact good_of_noFault (noFault_congr (by simp) (by simp) h) (by simp)
  | succ n => simp only [popState]; exact onValue_good n _ (noFault_congr (by simp) (by simp) h)

theorem handleLenD_good (isArr : Bool) (n : Nat) (p : P) (h : NoFault p) :
    GoodOut (handleLenD isArr n p).1 (handleLenD isArr n p).2.2 := by
  unfold handleLenD
  split
  · exact good_of_noFault h (by simp)
  · visit_fault p (if isArr then Ev.arrEnd else Ev.objEnd) h
    · exact popState_good _ _ (noFault_congr (by simp) (by simp) hq)
    · exact stopped_good hq

theorem scalar_good (p : P) (e : Ev) (rest : Bytes) (h : NoFault p) :
    GoodOut (scalar p e rest).p (scalar p e rest).err := by
  unfold scalar
  visit_fault p e h
  · simp only [onValueR]; exact onValue_good _ _ hq
  · exact stopped_good hq

theorem scalarPop_good (p : P) (e : Ev) (rest : Bytes) (h : NoFault p) :
    GoodOut (scalarPop p e rest).p (scalarPop p e rest).err := by
  unfold scalarPop
  visit_fault p e h
  · simp only [popStateR]; exact popState_good _ _ hq
  · exact stopped_good hq

theorem initByteSeq_good (p : P) (a b : UInt8) (bs : Bytes) (h : NoFault p) :
    GoodOut (initByteSeq p a b bs).p (initByteSeq p a b bs).err := by
  unfold initByteSeq
  split
  · exact good_of_noFault (noFault_congr (by simp [pushLen]) (by simp [pushLen]) h) (by simp)
  · split
    · exact good_of_noFault h (by simp)
    · exact good_of_noFault (noFault_congr (by simp) (by simp) h) (by simp)

theorem initSub_good (p : P) (a b : UInt8) (bs : Bytes) (h : NoFault p) :
    GoodOut (initSub p a b bs).p (initSub p a b bs).err := by
  unfold initSub
  split
  · exact good_of_noFault (noFault_congr (by simp) (by simp) h) (by simp)
  · split
    · exact good_of_noFault (noFault_congr (by simp [pushLen]) (by simp [pushLen]) h) (by simp)
    · split
      · exact good_of_noFault h (by simp)
      · exact good_of_noFault (noFault_congr (by simp) (by simp) h) (by simp)

theorem stepValue_good (p : P) (b : Bytes) (h : NoFault p) :
    GoodOut (stepValue p b).p (stepValue p b).err := by
  unfold stepValue
  split
  · exact good_of_noFault h (by simp)
  · simp only
    repeat' split
    all_goals first
      | exact scalar_good _ _ _ h
      | exact initByteSeq_good _ _ _ _ h
      | exact initSub_good _ _ _ _ h
      | exact good_of_noFault h (by simp)
      | exact good_of_noFault (noFault_congr (by simp) (by simp) h) (by simp)

theorem getArg_keeps (p : P) (b : Bytes) (w : Nat) (r : P × Bytes × Option Nat) (hr : getArg p b w = .ok r) :
    r.1.evs = p.evs ∧ r.1.failAt = p.failAt := by
  unfold getArg at hr
  split at hr
  · split at hr
    · simp at hr
    · injection hr with hr; subst hr; exact ⟨rfl, rfl⟩
  · injection hr with hr; subst hr; simp

end SF.Cbor.Parse

namespace SF.Cbor.Parse
open SF SF.Cbor

theorem stepUint_good (p : P) (b : Bytes) (h : NoFault p) : GoodOut (stepUint p b).p (stepUint p b).err := by
  unfold stepUint
  split
  · exact good_of_noFault h (by simp)
  · rename_i w _
    cases hg : getArg p b w with
    | error e =>
      simp only
      have : e = Err.panic := by
        unfold getArg at hg; split at hg
        · split at hg
          · injection hg with hg; exact hg.symm
          · simp at hg
        · simp at hg
      subst this; exact good_of_noFault h (by simp)
    | ok r =>
      obtain ⟨q, rest, v⟩ := r
      have hk := getArg_keeps p b w _ hg
      have hq : NoFault q := noFault_congr hk.1 hk.2 h
      cases v with
      | none => exact good_of_noFault hq (by simp)
      | some v => simp only; exact scalarPop_good _ _ _ hq

theorem stepNeg_good (p : P) (b : Bytes) (h : NoFault p) : GoodOut (stepNeg p b).p (stepNeg p b).err := by
  unfold stepNeg
  split
  · exact good_of_noFault h (by simp)
  · rename_i w _
    cases hg : getArg p b w with
    | error e =>
      simp only
      have : e = Err.panic := by
        unfold getArg at hg; split at hg
        · split at hg
          · injection hg with hg; exact hg.symm
          · simp at hg
        · simp at hg
      subst this; exact good_of_noFault h (by simp)
    | ok r =>
      obtain ⟨q, rest, v⟩ := r
      have hk := getArg_keeps p b w _ hg
      have hq : NoFault q := noFault_congr hk.1 hk.2 h
      cases v with
      | none => exact good_of_noFault hq (by simp)
      | some v =>
        simp only
        cases hn : negEvent w v with
        | error e =>
          simp only
          have : e = Err.intRange := by
            unfold negEvent at hn
            repeat' split at hn
            all_goals (first | (injection hn with hn; exact hn.symm) | simp at hn)
          subst this; exact good_of_noFault hq (by simp)
        | ok ev => simp only; exact scalarPop_good _ _ _ hq

theorem stepLen_good (p : P) (b : Bytes) (h : NoFault p) : GoodOut (stepLen p b).p (stepLen p b).err := by
  unfold stepLen
  split
  · exact good_of_noFault h (by simp)
  · rename_i w _
    cases hg : getArg p b w with
    | error e =>
      simp only
      have : e = Err.panic := by
        unfold getArg at hg; split at hg
        · split at hg
          · injection hg with hg; exact hg.symm
          · simp at hg
        · simp at hg
      subst this; exact good_of_noFault h (by simp)
    | ok r =>
      obtain ⟨q, rest, v⟩ := r
      have hk := getArg_keeps p b w _ hg
      have hq : NoFault q := noFault_congr hk.1 hk.2 h
      cases v with
      | none => exact good_of_noFault hq (by simp)
      | some v =>
        simp only
        split
        · exact good_of_noFault (noFault_congr (by simp [pushLen]) (by simp [pushLen]) hq) (by simp)
        · exact good_of_noFault (noFault_congr (by simp [pushLen]) (by simp [pushLen]) hq) (by simp)

theorem stepFloat_good (p : P) (b : Bytes) (w : Nat) (h : NoFault p) :
    GoodOut (stepFloat p b w).p (stepFloat p b w).err := by
  unfold stepFloat
  simp only
  have hc : NoFault (collectP p b w).1 := noFault_congr (by simp) (by simp) h
  split
  · exact good_of_noFault hc (by simp)
  · rename_i t _
    visit_fault (collectP p b w).1 (if w == 4 then Ev.f32 (UInt32.ofNat (beNat t)) else Ev.f64 (UInt64.ofNat (beNat t))) hc
    · simp only [popStateR]; exact popState_good _ _ hq
    · exact stopped_good hq

theorem stepBytesGo_good (p : P) (b : Bytes) (h : NoFault p) :
    GoodOut (stepBytesGo p b).p (stepBytesGo p b).err := by
  unfold stepBytesGo
  simp only []
  have hva : ∀ (X : P) (es : List Ev) (q : P) (r : Option Err), NoFault X → visitAll X es = (q, r) →
      GoodOut q r ∧ (r = none ∨ r = some .visitor) := by
    intro X es q r hX hh; have := visitAll_goodOut X es hX; rw [hh] at this; exact this
  have hp' : NoFault (if b.length ≥ p.length.current.toNat then p
      else decLen p ↑(if b.length ≥ p.length.current.toNat then p.length.current.toNat else b.length)) := by
    split
    · exact h
    · exact noFault_congr (by simp) (by simp) h
  split
  · rename_i q e heq
    obtain ⟨hg, he⟩ := hva _ _ _ _ hp' heq
    rcases he with he | he
    · simp at he
    · have he' : e = Err.visitor := by simpa using he
      subst he'
      rcases hg with ⟨hne, _⟩ | ⟨_, hs⟩
      · exact absurd rfl hne
      · exact stopped_good hs
  · rename_i q heq
    obtain ⟨hg, _⟩ := hva _ _ _ _ hp' heq
    have hq : NoFault q := by
      rcases hg with ⟨_, hq⟩ | ⟨he, _⟩
      · exact hq
      · simp at he
    split
    · rcases hvis2 : visit q Ev.arrEnd with ⟨q2, err2⟩
      have hv2 := visit_goodOut q Ev.arrEnd hq
      rw [hvis2] at hv2
      rcases hv2 with ⟨h2, hq2⟩ | ⟨h2, hq2⟩ <;> simp only at h2 hq2 <;> subst h2 <;> simp only []
      · simp only [popStateR]; exact popState_good _ _ (noFault_congr (by simp) (by simp) hq2)
      · exact Or.inr ⟨rfl, stopped_congr (by simp) (by simp) hq2⟩
    · exact good_of_noFault hq (by simp)

theorem stepBytes_good (p : P) (b : Bytes) (h : NoFault p) : GoodOut (stepBytes p b).p (stepBytes p b).err := by
  unfold stepBytes
  split
  · visit_fault p (Ev.arrStart p.length.current BT.byte) h
    · exact stepBytesGo_good _ _ (noFault_congr rfl rfl hq)
    · exact stopped_good hq
  · exact stepBytesGo_good _ _ h

theorem stepText_good (p : P) (b : Bytes) (h : NoFault p) : GoodOut (stepText p b).p (stepText p b).err := by
  unfold stepText
  simp only
  have hc : NoFault (collectP p b p.length.current.toNat).1 := noFault_congr (by simp) (by simp) h
  split
  · exact good_of_noFault hc (by simp)
  · rename_i t _
    visit_fault (popLen (collectP p b p.length.current.toNat).1) (Ev.str t) (noFault_congr (by simp) (by simp) hc)
    · simp only [popStateR]; exact popState_good _ _ hq
    · exact stopped_good hq

theorem stepKey_good (p : P) (b : Bytes) (h : NoFault p) : GoodOut (stepKey p b).p (stepKey p b).err := by
  unfold stepKey
  simp only
  have hc : NoFault (collectP p b p.length.current.toNat).1 := noFault_congr (by simp) (by simp) h
  split
  · exact good_of_noFault hc (by simp)
  · rename_i t _
    visit_fault (collectP p b p.length.current.toNat).1 (Ev.key t) hc
    · exact good_of_noFault (noFault_congr (by simp) (by simp) hq) (by simp)
    · exact stopped_good hq

theorem initMapKey_good (p : P) (b : Bytes) (h : NoFault p) : GoodOut (initMapKey p b).p (initMapKey p b).err := by
  unfold initMapKey
  cases b with
  | nil => exact good_of_noFault h (by simp)
  | cons b0 bs =>
    simp only
    split
    · exact good_of_noFault h (by simp)
    · split
      · exact good_of_noFault h (by simp)
      · exact initByteSeq_good _ _ _ _ h

theorem stepArray_good (p : P) (b : Bytes) (h : NoFault p) : GoodOut (stepArray p b).p (stepArray p b).err := by
  unfold stepArray
  split
  · exact stepValue_good _ _ h
  · simp only; exact handleLenD_good _ _ _ h

theorem stepMap_good (p : P) (b : Bytes) (h : NoFault p) : GoodOut (stepMap p b).p (stepMap p b).err := by
  unfold stepMap
  split
  · split
    · exact initMapKey_good _ _ h
    · exact good_of_noFault h (by simp)
  · simp only; exact handleLenD_good _ _ _ h

theorem indefArr_good (p : P) (b : Bytes) (h : NoFault p) : GoodOut (indefArr p b).p (indefArr p b).err := by
  unfold indefArr
  cases b with
  | nil => exact good_of_noFault h (by simp)
  | cons b0 bs =>
    simp only
    split
    · visit_fault p Ev.arrEnd h
      · simp only [popStateR]; exact popState_good _ _ hq
      · exact stopped_good hq
    · exact stepValue_good _ _ h

theorem indefMap_good (p : P) (b : Bytes) (h : NoFault p) : GoodOut (indefMap p b).p (indefMap p b).err := by
  unfold indefMap
  cases b with
  | nil => exact good_of_noFault h (by simp)
  | cons b0 bs =>
    simp only
    split
    · visit_fault p Ev.objEnd h
      · simp only [popStateR]; exact popState_good _ _ hq
      · exact stopped_good hq
    · exact initMapKey_good _ _ h

/-- ONE STEP under a possibly failing visitor: starting without a fault, either no fault
occurred (and any error is the parser's own), or the visitor failed, the step returned THE
VISITOR'S error, and exactly the failing event was the last one delivered -/
theorem execStep_good (p : P) (b : Bytes) (h : NoFault p) (herr : p.err ≠ some .visitor) :
    GoodOut (execStep p b).p (execStep p b).err := by
  unfold execStep
  simp only []
  by_cases hX : (p.state.current.major == stFail) = true
  · simp only [hX, if_true]
    exact good_of_noFault h herr
  simp only [hX, Bool.false_eq_true, if_false]
  clear hX
  by_cases hX : (p.state.current.major == stValue) = true
  · simp only [hX, if_true]
    exact stepValue_good _ _ h
  simp only [hX, Bool.false_eq_true, if_false]
  clear hX
  by_cases hX : (p.state.current.major == stLen) = true
  · simp only [hX, if_true]
    exact stepLen_good _ _ h
  simp only [hX, Bool.false_eq_true, if_false]
  clear hX
  by_cases hX : (p.state.current.major == majorUint) = true
  · simp only [hX, if_true]
    exact stepUint_good _ _ h
  simp only [hX, Bool.false_eq_true, if_false]
  clear hX
  by_cases hX : (p.state.current.major == majorNeg) = true
  · simp only [hX, if_true]
    exact stepNeg_good _ _ h
  simp only [hX, Bool.false_eq_true, if_false]
  clear hX
  by_cases hX : (p.state.current.major == codeSingleFloat) = true
  · simp only [hX, if_true]
    exact stepFloat_good _ _ _ h
  simp only [hX, Bool.false_eq_true, if_false]
  clear hX
  by_cases hX : (p.state.current.major == codeDoubleFloat) = true
  · simp only [hX, if_true]
    exact stepFloat_good _ _ _ h
  simp only [hX, Bool.false_eq_true, if_false]
  clear hX
  by_cases hX : (p.state.current.major == (majorBytes ||| stStartX)) = true
  · simp only [hX, if_true]
    split
    · visit_fault p (Ev.arrStart 0 BT.byte) h
      · rcases hvis2 : visit q Ev.arrEnd with ⟨q2, err2⟩
        have hv2 := visit_goodOut q Ev.arrEnd hq
        rw [hvis2] at hv2
        rcases hv2 with ⟨h2, hq2⟩ | ⟨h2, hq2⟩ <;> simp only at h2 hq2 <;> subst h2 <;> simp only []
        · simp only [popStateR]; exact popState_good _ _ (noFault_congr (by simp) (by simp) hq2)
        · exact Or.inr ⟨rfl, stopped_congr (by simp) (by simp) hq2⟩
      · exact stopped_good hq
    · split
      · exact good_of_noFault (noFault_congr (by simp) (by simp) h) (by simp)
      · exact stepBytes_good _ _ (noFault_congr (by simp) (by simp) h)
  simp only [hX, Bool.false_eq_true, if_false]
  clear hX
  by_cases hX : (p.state.current.major == majorBytes) = true
  · simp only [hX, if_true]
    exact stepBytes_good _ _ h
  simp only [hX, Bool.false_eq_true, if_false]
  clear hX
  by_cases hX : (p.state.current.major == (majorText ||| stStartX)) = true
  · simp only [hX, if_true]
    split
    · visit_fault (popLen p) (Ev.str []) (noFault_congr (by simp) (by simp) h)
      · simp only [popStateR]; exact popState_good _ _ hq
      · exact stopped_good hq
    · split
      · exact good_of_noFault (noFault_congr (by simp) (by simp) h) (by simp)
      · exact stepText_good _ _ (noFault_congr (by simp) (by simp) h)
  simp only [hX, Bool.false_eq_true, if_false]
  clear hX
  by_cases hX : (p.state.current.major == majorText) = true
  · simp only [hX, if_true]
    exact stepText_good _ _ h
  simp only [hX, Bool.false_eq_true, if_false]
  clear hX
  by_cases hX : (p.state.current.major == stStartArr) = true
  · simp only [hX, if_true]
    visit_fault p (Ev.arrStart p.length.current BT.any) h
    · exact stepArray_good _ _ (noFault_congr (by simp) (by simp) hq)
    · exact stopped_good hq
  simp only [hX, Bool.false_eq_true, if_false]
  clear hX
  by_cases hX : (p.state.current.major == majorArr) = true
  · simp only [hX, if_true]
    exact stepArray_good _ _ h
  simp only [hX, Bool.false_eq_true, if_false]
  clear hX
  by_cases hX : (p.state.current.major == stStartIndefArr) = true
  · simp only [hX, if_true]
    visit_fault p (Ev.arrStart (-1) BT.any) h
    · exact indefArr_good _ _ (noFault_congr (by simp) (by simp) hq)
    · exact stopped_good hq
  simp only [hX, Bool.false_eq_true, if_false]
  clear hX
  by_cases hX : (p.state.current.major == (majorArr ||| stIndef)) = true
  · simp only [hX, if_true]
    exact indefArr_good _ _ h
  simp only [hX, Bool.false_eq_true, if_false]
  clear hX
  by_cases hX : (p.state.current.major == stStartMap) = true
  · simp only [hX, if_true]
    visit_fault p (Ev.objStart p.length.current BT.any) h
    · exact stepMap_good _ _ (noFault_congr (by simp) (by simp) hq)
    · exact stopped_good hq
  simp only [hX, Bool.false_eq_true, if_false]
  clear hX
  by_cases hX : (p.state.current.major == majorMap) = true
  · simp only [hX, if_true]
    exact stepMap_good _ _ h
  simp only [hX, Bool.false_eq_true, if_false]
  clear hX
  by_cases hX : (p.state.current.major == stStartIndefMap) = true
  · simp only [hX, if_true]
    visit_fault p (Ev.objStart (-1) BT.any) h
    · exact indefMap_good _ _ (noFault_congr (by simp) (by simp) hq)
    · exact stopped_good hq
  simp only [hX, Bool.false_eq_true, if_false]
  clear hX
  by_cases hX : (p.state.current.major == (majorMap ||| stIndef)) = true
  · simp only [hX, if_true]
    exact indefMap_good _ _ h
  simp only [hX, Bool.false_eq_true, if_false]
  clear hX
  by_cases hX : (p.state.current.major == (stKey ||| stStartX)) = true
  · simp only [hX, if_true]
    split
    · visit_fault p (Ev.key []) h
      · exact good_of_noFault (noFault_congr (by simp) (by simp) hq) (by simp)
      · exact stopped_good hq
    · exact stepKey_good _ _ (noFault_congr (by simp) (by simp) h)
  simp only [hX, Bool.false_eq_true, if_false]
  clear hX
  by_cases hX : (p.state.current.major == stKey) = true
  · simp only [hX, if_true]
    exact stepKey_good _ _ h
  simp only [hX, Bool.false_eq_true, if_false]
  clear hX
  by_cases hX : (p.state.current.major == stElem) = true
  · simp only [hX, if_true]
    exact stepValue_good _ _ (noFault_congr (by simp) (by simp) h)
  simp only [hX, Bool.false_eq_true, if_false]
  clear hX
  exact good_of_noFault h (by simp)

end SF.Cbor.Parse
