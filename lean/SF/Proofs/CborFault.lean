/-
  Visitor faults in the CBOR parser mirror: once the visitor has returned an error the step
  in progress returns that error at once and no further event is delivered.
  Helper lemmas for C16 (property theorems in SF/Props/C16.lean).
-/
import SF.Cbor.Parse
namespace SF.Cbor.Parse
open SF SF.Cbor

/-- the visitor has not failed yet: fewer than k+1 events delivered (fault index k) -/
def NoFault (p : P) : Prop := ∀ k, p.failAt = some k → p.evs.length ≤ k

/-- the visitor has just failed: exactly k+1 events delivered -/
def Stopped (p : P) : Prop := ∃ k, p.failAt = some k ∧ p.evs.length = k + 1

/-- outcome of a computation that started with `NoFault`: either still no fault and the
error (if any) is not the visitor's, or the visitor's error with delivery stopped right there -/
def GoodOut (q : P) (err : Option Err) : Prop :=
  (err ≠ some .visitor ∧ NoFault q) ∨ (err = some .visitor ∧ Stopped q)

@[simp] theorem setMajor_failAt' (p : P) (m : UInt8) : (setMajor p m).failAt = p.failAt := rfl
@[simp] theorem setMajor_evs (p : P) (m : UInt8) : (setMajor p m).evs = p.evs := rfl
@[simp] theorem setMinor_evs (p : P) (m : UInt8) : (setMinor p m).evs = p.evs := rfl
@[simp] theorem pushState_evs (p : P) (s : St) : (pushState p s).evs = p.evs := rfl
@[simp] theorem pushState_failAt (p : P) (s : St) : (pushState p s).failAt = p.failAt := rfl
@[simp] theorem popSt_evs (p : P) : (popSt p).evs = p.evs := rfl
@[simp] theorem popSt_failAt (p : P) : (popSt p).failAt = p.failAt := rfl
@[simp] theorem pushLen_evs (p : P) (l : Int) : (pushLen p l).evs = p.evs := rfl
@[simp] theorem popLen_evs (p : P) : (popLen p).evs = p.evs := rfl
@[simp] theorem popLen_failAt (p : P) : (popLen p).failAt = p.failAt := rfl
@[simp] theorem decLen_evs (p : P) (n : Int) : (decLen p n).evs = p.evs := rfl
@[simp] theorem decLen_failAt (p : P) (n : Int) : (decLen p n).failAt = p.failAt := rfl
@[simp] theorem collectP_evs (p : P) (b : Bytes) (n : Nat) : (collectP p b n).1.evs = p.evs := by simp [collectP]
@[simp] theorem collectP_failAt (p : P) (b : Bytes) (n : Nat) : (collectP p b n).1.failAt = p.failAt := by simp [collectP]

/-- `NoFault` / `Stopped` only look at `evs` and `failAt` -/
theorem noFault_congr {p q : P} (h1 : q.evs = p.evs) (h2 : q.failAt = p.failAt) : NoFault p → NoFault q := by
  intro h k hk; rw [h1]; exact h k (by rw [← h2]; exact hk)
theorem stopped_congr {p q : P} (h1 : q.evs = p.evs) (h2 : q.failAt = p.failAt) : Stopped p → Stopped q := by
  rintro ⟨k, hk, hl⟩; exact ⟨k, by rw [h2]; exact hk, by rw [h1]; exact hl⟩
theorem goodOut_congr {p q : P} {e : Option Err} (h1 : q.evs = p.evs) (h2 : q.failAt = p.failAt) :
    GoodOut p e → GoodOut q e := by
  rintro (⟨he, h⟩ | ⟨he, h⟩)
  · exact Or.inl ⟨he, noFault_congr h1 h2 h⟩
  · exact Or.inr ⟨he, stopped_congr h1 h2 h⟩

/-- the visitor call itself -/
theorem visit_good (p : P) (e : Ev) (h : NoFault p) :
    ((visit p e).2 = none ∧ NoFault (visit p e).1) ∨ ((visit p e).2 = some .visitor ∧ Stopped (visit p e).1) := by
  unfold visit
  cases hf : p.failAt with
  | none => left; simp [NoFault]
  | some k =>
    have hk := h k hf
    simp only
    split
    · right
      refine ⟨rfl, k, by simp [hf], ?_⟩
      simp; omega
    · left
      refine ⟨rfl, ?_⟩
      intro k' hk'
      simp only [hf] at hk'
      cases hk'
      simp; omega

/-- a non-visiting result keeps NoFault -/
theorem good_of_noFault {p : P} {e : Option Err} (h : NoFault p) (he : e ≠ some .visitor) : GoodOut p e :=
  Or.inl ⟨he, h⟩

end SF.Cbor.Parse
