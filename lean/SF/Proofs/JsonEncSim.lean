/-
  A run of the JSON encoder over a writer that fails from some call on, compared with the run
  of the same visitor over a writer that never fails: the two agree (same result, same state
  apart from the writer) unless a Write failed, and then the faulty run returns an error.
-/
import SF.Proofs.JsonEncFault
namespace SF.Json.Enc
open SF SF.Json SF.Json.Float

/-- outcome of the faulty run `(s1, r)` against the healthy run `h` -/
def SimOut (s1 : Enc) (r : Res) (h : Enc × Res) : Prop :=
  (r = .err ∧ ¬ Clean s1.w) ∨
  (Clean s1.w ∧ ∃ w'', w''.failFrom = none ∧ h = ({ s1 with w := w'' }, r))

theorem write_none (w : Writer) (hf : w.failFrom = none) (b : Bytes) :
    (w.write b).2 = true ∧ (w.write b).1.failFrom = none := by
  simp [Writer.write, hf]

theorem exec_sim (as : List Act) (s : Enc) (w' : Writer) (hc : Clean s.w) (hf : w'.failFrom = none) :
    SimOut (exec s as).1 (exec s as).2 (exec { s with w := w' } as) := by
  induction as generalizing s w' with
  | nil => exact Or.inr ⟨hc, w', hf, rfl⟩
  | cons a as ih =>
    -- a write of `b`, then the rest (shared by write / tryElemNext / onFieldNext)
    have hwrite : ∀ (b : Bytes),
        SimOut
          (match s.w.write b with
            | (w1, true) => exec { s with w := w1 } as
            | (w1, false) => ({ s with w := w1 }, Res.err)).1
          (match s.w.write b with
            | (w1, true) => exec { s with w := w1 } as
            | (w1, false) => ({ s with w := w1 }, Res.err)).2
          (match w'.write b with
            | (w1, true) => exec { s with w := w1 } as
            | (w1, false) => ({ s with w := w1 }, Res.err)) := by
      intro b
      have hw := write_clean s.w b hc
      have hn := write_none w' hf b
      rcases hwr : s.w.write b with ⟨w1, ok⟩
      rcases hwr' : w'.write b with ⟨w1', ok'⟩
      rw [hwr] at hw
      rw [hwr'] at hn
      simp only at hn
      obtain ⟨rfl, hn2⟩ := hn
      cases ok with
      | true =>
        simp only
        exact ih { s with w := w1 } w1' (hw.1.mp rfl) hn2
      | false =>
        simp only
        exact Or.inl ⟨rfl, fun hcl => absurd (hw.1.mpr hcl) (by simp)⟩
    cases a with
    | write b => simp only [exec]; exact hwrite b
    | tryElemNext =>
      simp only [exec]
      split
      · exact ih s w' hc hf
      · split
        · exact ih { s with first := { s.first with current := false } } w' hc hf
        · exact hwrite _
    | onFieldNext =>
      simp only [exec]
      split
      · exact ih { s with first := { s.first with current := false } } w' hc hf
      · exact hwrite _
    | push a =>
      simp only [exec]
      exact ih { s with first := s.first.push true, inArray := s.inArray.push a } w' hc hf
    | pop =>
      simp only [exec]
      split
      · exact Or.inr ⟨hc, w', hf, rfl⟩
      · split
        · exact Or.inr ⟨hc, w', hf, rfl⟩
        · rename_i _ f _ _ a _
          exact ih { s with first := f, inArray := a } w' hc hf
    | fail => simp only [exec]; exact Or.inr ⟨hc, w', hf, rfl⟩
    | hang => simp only [exec]; exact Or.inr ⟨hc, w', hf, rfl⟩

theorem acts_with_w (s : Enc) (w' : Writer) (e : Ev) : acts { s with w := w' } e = acts s e := by
  cases e <;> rfl

theorem execEvs_sim (es : List Ev) (s : Enc) (w' : Writer) (hc : Clean s.w) (hf : w'.failFrom = none) :
    SimOut (execEvs s es).1 (execEvs s es).2 (execEvs { s with w := w' } es) := by
  induction es generalizing s w' with
  | nil => exact Or.inr ⟨hc, w', hf, rfl⟩
  | cons e es ih =>
    simp only [execEvs, acts_with_w]
    have h := exec_sim (acts s e) s w' hc hf
    rcases hx : exec s (acts s e) with ⟨s1, r⟩
    rw [hx] at h
    rcases h with ⟨hr, hd⟩ | ⟨hcl, w'', hf'', heq⟩
    · simp only at hr hd; subst hr; exact Or.inl ⟨rfl, hd⟩
    · simp only at hcl heq
      rw [heq]
      cases r with
      | ok => exact ih s1 w'' hcl hf''
      | err => exact Or.inr ⟨hcl, w'', hf'', rfl⟩
      | panic => exact Or.inr ⟨hcl, w'', hf'', rfl⟩
      | hang => exact Or.inr ⟨hcl, w'', hf'', rfl⟩

theorem step_sim (x : XEv) (s : Enc) (w' : Writer) (hc : Clean s.w) (hf : w'.failFrom = none) :
    SimOut (step s x).1 (step s x).2 (step { s with w := w' } x) := by
  cases x with
  | ev e => simp only [step, acts_with_w]; exact exec_sim _ s w' hc hf
  | strRef b => exact exec_sim _ s w' hc hf
  | keyRef b => exact exec_sim _ s w' hc hf
  | boolArr xs => exact execEvs_sim _ s w' hc hf
  | strArr xs => exact execEvs_sim _ s w' hc hf
  | numArr k xs => exact execEvs_sim _ s w' hc hf
  | f32Arr xs => exact execEvs_sim _ s w' hc hf
  | f64Arr xs => exact execEvs_sim _ s w' hc hf
  | boolObj ms => exact execEvs_sim _ s w' hc hf
  | strObj ms => exact execEvs_sim _ s w' hc hf
  | numObj k ms => exact execEvs_sim _ s w' hc hf
  | f32Obj ms => exact execEvs_sim _ s w' hc hf
  | f64Obj ms => exact execEvs_sim _ s w' hc hf

/-- the whole run: either a Write failed and the run returns an error, or no Write failed and
state (apart from the writer), failing index and result are those of the healthy run -/
theorem run_go_sim (xs : List XEv) (s : Enc) (i : Nat) (w' : Writer) (hc : Clean s.w) (hf : w'.failFrom = none) :
    ((run.go s i xs).2.2 = .err ∧ ¬ Clean (run.go s i xs).1.w) ∨
    (Clean (run.go s i xs).1.w ∧ ∃ w'', w''.failFrom = none ∧
      run.go { s with w := w' } i xs = ({ (run.go s i xs).1 with w := w'' }, (run.go s i xs).2)) := by
  induction xs generalizing s i w' with
  | nil => exact Or.inr ⟨hc, w', hf, rfl⟩
  | cons x xs ih =>
    simp only [run.go]
    have h := step_sim x s w' hc hf
    rcases hx : step s x with ⟨s1, r⟩
    rw [hx] at h
    rcases h with ⟨hr, hd⟩ | ⟨hcl, w'', hf'', heq⟩
    · simp only at hr hd; subst hr; exact Or.inl ⟨rfl, hd⟩
    · simp only at hcl heq
      rw [heq]
      cases r with
      | ok => exact ih s1 (i + 1) w'' hcl hf''
      | err => exact Or.inr ⟨hcl, w'', hf'', rfl⟩
      | panic => exact Or.inr ⟨hcl, w'', hf'', rfl⟩
      | hang => exact Or.inr ⟨hcl, w'', hf'', rfl⟩

end SF.Json.Enc
