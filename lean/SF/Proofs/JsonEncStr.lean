/-
  The string loop of the JSON encoder (json/visitor.go OnString): its output, piece by piece.

  `Body html s out san`: the source bytes `s` split into pieces — plain ASCII, escaped ASCII,
  an invalid byte, U+2028 / U+2029, any other well-formed multi-byte sequence — `out` the bytes
  written for them followed by the closing quote, `san` the string a reader gets back.
-/
import SF.Json.Enc
import SF.Json.Cst
import SF.Proofs.JsonEncUtf8
namespace SF.Json.Enc
open SF SF.Json SF.Json.Float SF.Json.Utf8

/-- concatenation of the payloads of the `write` actions -/
def outOf : List Act → Bytes
  | [] => []
  | .write b :: r => b ++ outOf r
  | _ :: r => outOf r

/-- only `write` actions -/
def PureWrites (as : List Act) : Prop := ∀ a ∈ as, ∃ b, a = Act.write b

theorem outOf_append (a b : List Act) : outOf (a ++ b) = outOf a ++ outOf b := by
  induction a with
  | nil => rfl
  | cons x a ih => cases x <;> simp [outOf, ih]

theorem pureWrites_append {a b : List Act} (ha : PureWrites a) (hb : PureWrites b) : PureWrites (a ++ b) := by
  intro x hx; rcases List.mem_append.mp hx with h | h
  · exact ha x h
  · exact hb x h

theorem pureWrites_cons {b : Bytes} {r : List Act} (hr : PureWrites r) : PureWrites (.write b :: r) := by
  intro x hx; rcases List.mem_cons.mp hx with h | h
  · exact ⟨b, h⟩
  · exact hr x h

theorem pureWrites_flush (p : Bytes) : PureWrites (flush p) := by
  unfold flush; split
  · intro x hx; simp at hx
  · intro x hx; simp at hx; exact ⟨_, hx⟩

theorem outOf_flush (p : Bytes) : outOf (flush p) = p.reverse := by
  unfold flush; split
  · rename_i h; simp at h; simp [h, outOf]
  · simp [outOf]

def ufffd : Bytes := [0xEF, 0xBF, 0xBD]

/-- one round of the loop: source bytes, what follows them, bytes written, bytes read back -/
inductive Piece (html : Bool) : Bytes → Bytes → Bytes → Bytes → Prop
  | plain (b : UInt8) (rest : Bytes) : b.toNat < 0x80 → escapeSet html b = false → Piece html [b] rest [b] [b]
  | esc (b : UInt8) (rest : Bytes) : b.toNat < 0x80 → escapeSet html b = true → Piece html [b] rest (escapeSeq b) [b]
  | bad (b : UInt8) (rest : Bytes) : 0x80 ≤ b.toNat → mbDecode (b :: rest) = none →
      Piece html [b] rest invalidCharSym ufffd
  | ls (rest : Bytes) : Piece html [0xE2, 0x80, 0xA8] rest (strBytes "\\u2028") [0xE2, 0x80, 0xA8]
  | ps (rest : Bytes) : Piece html [0xE2, 0x80, 0xA9] rest (strBytes "\\u2029") [0xE2, 0x80, 0xA9]
  | mb (src rest : Bytes) (c : Nat) : mbDecode (src ++ rest) = some (c, src.length) →
      Piece html src rest src src

inductive Body (html : Bool) : Bytes → Bytes → Bytes → Prop
  | nil : Body html [] [ch '"'] []
  | cons {src rest out san out' san' : Bytes} : Piece html src rest out san → Body html rest out' san' →
      Body html (src ++ rest) (out ++ out') (san ++ san')

theorem lt_runeSelf (b : UInt8) : b < Utf8.runeSelf ↔ b.toNat < 0x80 := by
  simp [Utf8.runeSelf, UInt8.lt_iff_toNat_lt]

/-- the loop writes `pending`, then a `Body` of the remaining source; it never hangs -/
theorem stringLoop_spec (html : Bool) (fuel : Nat) (rest pending : Bytes) (hf : rest.length < fuel) :
    ∃ out san, Body html rest out san ∧ PureWrites (stringLoop html fuel rest pending) ∧
      outOf (stringLoop html fuel rest pending) = pending.reverse ++ out := by
  induction fuel generalizing rest pending with
  | zero => omega
  | succ fuel ih =>
    match rest with
    | [] =>
      refine ⟨_, _, Body.nil, ?_, ?_⟩
      · simp only [stringLoop]
        exact pureWrites_append (pureWrites_flush _) (pureWrites_cons (fun x hx => by simp at hx))
      · simp [stringLoop, outOf_append, outOf_flush, outOf]
    | b :: tl =>
      simp only [List.length_cons] at hf
      by_cases hb : b < Utf8.runeSelf
      · have hb' := (lt_runeSelf b).mp hb
        by_cases he : escapeSet html b = true
        · obtain ⟨out, san, hB, hP, hO⟩ := ih tl [] (by omega)
          refine ⟨_, _, Body.cons (Piece.esc b tl hb' he) hB, ?_, ?_⟩
          · simp only [stringLoop, hb, if_true, he, Bool.not_true, Bool.false_eq_true, if_false]
            exact pureWrites_append (pureWrites_flush _) (pureWrites_cons hP)
          · simp only [stringLoop, hb, if_true, he, Bool.not_true, Bool.false_eq_true, if_false]
            simp [outOf_append, outOf_flush, outOf, hO]
        · have he' : escapeSet html b = false := by simpa using he
          obtain ⟨out, san, hB, hP, hO⟩ := ih tl (b :: pending) (by omega)
          refine ⟨_, _, Body.cons (Piece.plain b tl hb' he') hB, ?_, ?_⟩
          · simp only [stringLoop, hb, if_true, he', Bool.not_false]
            exact hP
          · simp only [stringLoop, hb, if_true, he', Bool.not_false]
            simp [hO]
      · have hb' : 0x80 ≤ b.toNat := by have h := mt (lt_runeSelf b).mpr hb; omega
        have hd := decodeRune_mb b tl hb'
        cases hm : mbDecode (b :: tl) with
        | none =>
          rw [hm] at hd
          simp only [Option.getD_none] at hd
          obtain ⟨out, san, hB, hP, hO⟩ := ih tl [] (by omega)
          refine ⟨_, _, Body.cons (Piece.bad b tl hb' hm) hB, ?_, ?_⟩
          · simp only [stringLoop, hb, if_false, hd, beq_self_eq_true, Bool.and_self, if_true, List.drop_succ_cons,
              List.drop_zero]
            exact pureWrites_append (pureWrites_flush _) (pureWrites_cons hP)
          · simp only [stringLoop, hb, if_false, hd, beq_self_eq_true, Bool.and_self, if_true, List.drop_succ_cons,
              List.drop_zero]
            simp [outOf_append, outOf_flush, outOf, hO]
        | some cn =>
          obtain ⟨c, n⟩ := cn
          rw [hm] at hd
          simp only [Option.getD_some] at hd
          obtain ⟨hn2, hn4, hnl, hge, hany, hc, hls, hps⟩ := mbDecode_some hm
          have hsplit : b :: tl = (b :: tl).take n ++ (b :: tl).drop n := (List.take_append_drop n _).symm
          have hlen : ((b :: tl).take n).length = n := by simp only [List.length_take, List.length_cons] at hnl ⊢; omega
          have hdl : ((b :: tl).drop n).length < fuel := by simp only [List.length_drop, List.length_cons]; omega
          have hnot1 : (c == Utf8.runeError && n == 1) = false := by
            have : n ≠ 1 := by omega
            simp [this]
          by_cases hc1 : c = 0x2028
          · subst hc1
            obtain ⟨out, san, hB, hP, hO⟩ := ih ((b :: tl).drop n) [] hdl
            have hB' := Body.cons (Piece.ls (html := html) ((b :: tl).drop n)) hB
            rw [← hls rfl, ← hsplit] at hB'
            refine ⟨_, _, hB', ?_, ?_⟩
            · simp only [stringLoop, hb, if_false, hd, hnot1, Bool.false_eq_true, if_false, beq_self_eq_true, Bool.true_or, if_true]
              exact pureWrites_append (pureWrites_flush _) (pureWrites_cons (pureWrites_cons hP))
            · simp only [stringLoop, hb, if_false, hd, hnot1, Bool.false_eq_true, if_false, beq_self_eq_true, Bool.true_or, if_true]
              simp only [outOf_append, outOf_flush, outOf, hO, List.reverse_nil, List.nil_append]
              have : strBytes "\\u202" ++ [hex (8232 &&& 15)] = strBytes "\\u2028" := by decide
              simp [← this]
          · by_cases hc2 : c = 0x2029
            · subst hc2
              obtain ⟨out, san, hB, hP, hO⟩ := ih ((b :: tl).drop n) [] hdl
              have hB' := Body.cons (Piece.ps (html := html) ((b :: tl).drop n)) hB
              rw [← hps rfl, ← hsplit] at hB'
              refine ⟨_, _, hB', ?_, ?_⟩
              · simp only [stringLoop, hb, if_false, hd, hnot1, Bool.false_eq_true, if_false, beq_self_eq_true, Bool.or_true, if_true]
                exact pureWrites_append (pureWrites_flush _) (pureWrites_cons (pureWrites_cons hP))
              · simp only [stringLoop, hb, if_false, hd, hnot1, Bool.false_eq_true, if_false, beq_self_eq_true, Bool.or_true, if_true]
                simp only [outOf_append, outOf_flush, outOf, hO, List.reverse_nil, List.nil_append]
                have : strBytes "\\u202" ++ [hex (8233 &&& 15)] = strBytes "\\u2029" := by decide
                simp [← this]
            · obtain ⟨out, san, hB, hP, hO⟩ := ih ((b :: tl).drop n) (((b :: tl).take n).reverse ++ pending) hdl
              have hp : Piece html ((b :: tl).take n) ((b :: tl).drop n) _ _ :=
                Piece.mb ((b :: tl).take n) ((b :: tl).drop n) c (by rw [← hsplit, hlen]; exact hm)
              have hB' := Body.cons hp hB
              rw [← hsplit] at hB'
              have hcc : (c == 0x2028 || c == 0x2029) = false := by simp [hc1, hc2]
              refine ⟨_, _, hB', ?_, ?_⟩
              · simp only [stringLoop, hb, if_false, hd, hnot1, Bool.false_eq_true, hcc]
                exact hP
              · simp only [stringLoop, hb, if_false, hd, hnot1, Bool.false_eq_true, hcc]
                simp [hO]

/-! ## an explicit recogniser for RFC 8259 §7 string tokens (over UTF-8, RFC 3629) -/

def isHexDigit (c : UInt8) : Bool :=
  (0x30 ≤ c && c ≤ 0x39) || (0x41 ≤ c && c ≤ 0x46) || (0x61 ≤ c && c ≤ 0x66)

/-- `"` `\` `/` `b` `f` `n` `r` `t` -/
def isSimpleEscape (c : UInt8) : Bool :=
  c == 0x22 || c == 0x5C || c == 0x2F || c == 0x62 || c == 0x66 || c == 0x6E || c == 0x72 || c == 0x74

/-- `*char quotation-mark` and nothing after it:
      char = unescaped / `\` ( `"` `\` `/` b f n r t / u 4HEXDIG )
      unescaped = %x20-21 / %x23-5B / %x5D-10FFFF   (multi-byte: well-formed UTF-8) -/
def strChars : Bytes → Bool
  | [] => false
  | b :: tl =>
    if b == 0x22 then tl.isEmpty
    else if b == 0x5C then
      match tl with
      | [] => false
      | e :: tl1 =>
        if e == 0x75 then
          match tl1 with
          | h1 :: h2 :: h3 :: h4 :: tl2 =>
            isHexDigit h1 && isHexDigit h2 && isHexDigit h3 && isHexDigit h4 && strChars tl2
          | _ => false
        else isSimpleEscape e && strChars tl1
    else if b.toNat < 0x20 then false
    else if b.toNat < 0x80 then strChars tl
    else
      match tl with
      | [] => false
      | b1 :: tl1 =>
        if V2 b.toNat b1.toNat then strChars tl1
        else match tl1 with
          | [] => false
          | b2 :: tl2 =>
            if V3 b.toNat b1.toNat b2.toNat then strChars tl2
            else match tl2 with
              | [] => false
              | b3 :: tl3 => if V4 b.toNat b1.toNat b2.toNat b3.toNat then strChars tl3 else false

theorem strChars_cons (b : UInt8) (tl : Bytes) : strChars (b :: tl) =
    if b == 0x22 then tl.isEmpty
    else if b == 0x5C then
      match tl with
      | [] => false
      | e :: tl1 =>
        if e == 0x75 then
          match tl1 with
          | h1 :: h2 :: h3 :: h4 :: tl2 =>
            isHexDigit h1 && isHexDigit h2 && isHexDigit h3 && isHexDigit h4 && strChars tl2
          | _ => false
        else isSimpleEscape e && strChars tl1
    else if b.toNat < 0x20 then false
    else if b.toNat < 0x80 then strChars tl
    else
      match tl with
      | [] => false
      | b1 :: tl1 =>
        if V2 b.toNat b1.toNat then strChars tl1
        else match tl1 with
          | [] => false
          | b2 :: tl2 =>
            if V3 b.toNat b1.toNat b2.toNat then strChars tl2
            else match tl2 with
              | [] => false
              | b3 :: tl3 => if V4 b.toNat b1.toNat b2.toNat b3.toNat then strChars tl3 else false := by
  rw [strChars.eq_def]; rfl

/-- RFC 8259 string token: `quotation-mark *char quotation-mark` -/
def isJsonString : Bytes → Bool
  | [] => false
  | q :: tl => q == 0x22 && strChars tl

example : isJsonString (strBytes "\"a\\u00e9\\n\\\"x\"") = true := by decide +kernel
example : isJsonString (strBytes "\"a\nb\"") = false := by decide +kernel
example : isJsonString (strBytes "\"a\"b\"") = false := by decide +kernel
example : isJsonString [0x22, 0xC3, 0xA9, 0x22] = true := by decide +kernel
example : isJsonString [0x22, 0xC3, 0x22] = false := by decide +kernel
example : isJsonString [0x22, 0xED, 0xA0, 0x80, 0x22] = false := by decide +kernel

/-! ## what a reader gets back: `s` with every byte outside a well-formed sequence ↦ U+FFFD -/

def sanitizeAux : Nat → Bytes → Bytes
  | _, [] => []
  | k + 1, b :: tl => b :: sanitizeAux k tl
  | 0, b :: tl =>
    if b.toNat < 0x80 then b :: sanitizeAux 0 tl
    else match mbDecode (b :: tl) with
      | some (_, n) => b :: sanitizeAux (n - 1) tl
      | none => ufffd ++ sanitizeAux 0 tl

def sanitize (s : Bytes) : Bytes := sanitizeAux 0 s

def validUtf8Aux : Nat → Bytes → Bool
  | _, [] => true
  | k + 1, _ :: tl => validUtf8Aux k tl
  | 0, b :: tl =>
    if b.toNat < 0x80 then validUtf8Aux 0 tl
    else match mbDecode (b :: tl) with
      | some (_, n) => validUtf8Aux (n - 1) tl
      | none => false

/-- `s` is well-formed UTF-8 (RFC 3629) -/
def validUtf8 (s : Bytes) : Bool := validUtf8Aux 0 s

theorem sanitizeAux_valid (k : Nat) (s : Bytes) (h : validUtf8Aux k s = true) : sanitizeAux k s = s := by
  induction s generalizing k with
  | nil => cases k <;> rfl
  | cons b tl ih =>
    cases k with
    | succ k => simp only [validUtf8Aux] at h; simp [sanitizeAux, ih k h]
    | zero =>
      simp only [validUtf8Aux] at h
      simp only [sanitizeAux]
      split
      · rename_i hb; simp only [hb, if_true] at h; rw [ih 0 h]
      · rename_i hb
        simp only [hb, if_false] at h
        cases hm : mbDecode (b :: tl) with
        | none => simp [hm] at h
        | some cn => obtain ⟨c, n⟩ := cn; simp only [hm] at h ⊢; rw [ih _ h]

theorem sanitize_valid (s : Bytes) (h : validUtf8 s = true) : sanitize s = s := sanitizeAux_valid 0 s h

example : sanitize [0x61, 0xFF, 0xC3, 0xA9, 0xC3] = [0x61, 0xEF, 0xBF, 0xBD, 0xC3, 0xA9, 0xEF, 0xBF, 0xBD] := by
  decide +kernel

theorem beq_false_of_toNat_ne (b c : UInt8) (h : b.toNat ≠ c.toNat) : (b == c) = false := by
  simp only [beq_eq_false_iff_ne, ne_eq]
  intro e; exact h (by rw [e])

theorem sanitizeAux_skip (k : Nat) (tl : Bytes) :
    sanitizeAux k tl = tl.take k ++ sanitizeAux 0 (tl.drop k) := by
  induction k generalizing tl with
  | zero => simp
  | succ k ih =>
    cases tl with
    | nil => simp [sanitizeAux]
    | cons b tl => simp [sanitizeAux, ih tl]

/-- a source that starts with a complete well-formed sequence `src` -/
structure Seq (src : Bytes) (c : Nat) : Prop where
  any : ∀ X, mbDecode (src ++ X) = some (c, src.length)
  len : 2 ≤ src.length
  hi : ∀ x ∈ src, 0x80 ≤ x.toNat

theorem seq_of_mbDecode {src rest : Bytes} {c : Nat} (h : mbDecode (src ++ rest) = some (c, src.length)) :
    Seq src c := by
  obtain ⟨h2, _, _, hge, hany, _, _, _⟩ := mbDecode_some h
  have ht : (src ++ rest).take src.length = src := by simp
  rw [ht] at hany hge
  exact ⟨hany, h2, hge⟩

theorem seq_ls : Seq [0xE2, 0x80, 0xA8] 0x2028 :=
  seq_of_mbDecode (rest := []) (by decide)
theorem seq_ps : Seq [0xE2, 0x80, 0xA9] 0x2029 :=
  seq_of_mbDecode (rest := []) (by decide)

theorem sanitize_seq {src : Bytes} {c : Nat} (h : Seq src c) (rest : Bytes) :
    sanitize (src ++ rest) = src ++ sanitize rest := by
  match src, h with
  | [], h => have := h.len; simp at this
  | b :: src', h =>
    have hb : ¬ b.toNat < 0x80 := by have := h.hi b (by simp); omega
    have hm := h.any rest
    simp only [List.cons_append] at hm
    simp only [sanitize, List.cons_append, sanitizeAux, hb, if_false, hm]
    rw [sanitizeAux_skip]
    simp

theorem strChars_mbDecode {p : Bytes} {c n : Nat} (h : mbDecode p = some (c, n)) :
    strChars p = strChars (p.drop n) := by
  match p with
  | [] => simp [mbDecode] at h
  | [_] => simp [mbDecode] at h
  | b0 :: b1 :: rest =>
    have h0 : 0x80 ≤ b0.toNat := (mbDecode_some h).2.2.2.1 b0 (by
      have := (mbDecode_some h).1
      cases n with
      | zero => omega
      | succ n => simp)
    have e1 : (b0 == 0x22) = false := beq_false_of_toNat_ne _ _ (by simp; omega)
    have e2 : (b0 == 0x5C) = false := beq_false_of_toNat_ne _ _ (by simp; omega)
    have e3 : ¬ b0.toNat < 0x20 := by omega
    have e4 : ¬ b0.toNat < 0x80 := by omega
    simp only [mbDecode] at h
    rw [strChars_cons]
    simp only [e1, e2, e3, e4, Bool.false_eq_true, if_false]
    split at h
    · rename_i hv
      simp only [Option.some.injEq, Prod.mk.injEq] at h
      simp [hv, ← h.2]
    · rename_i hv2
      simp only [hv2, if_false]
      match rest with
      | [] => simp at h
      | b2 :: rest =>
        simp only at h ⊢
        split at h
        · rename_i hv
          simp only [Option.some.injEq, Prod.mk.injEq] at h
          simp [hv, ← h.2]
        · rename_i hv3
          simp only [hv3, if_false]
          match rest with
          | [] => simp at h
          | b3 :: rest =>
            simp only at h ⊢
            split at h
            · rename_i hv
              simp only [Option.some.injEq, Prod.mk.injEq] at h
              simp [hv, ← h.2]
            · simp at h

theorem strChars_seq {src : Bytes} {c : Nat} (h : Seq src c) (X : Bytes) :
    strChars (src ++ X) = strChars X := by
  rw [strChars_mbDecode (h.any X)]; simp


open SF.Json.Cst in
theorem lex_quote (f : Nat) (X acc : Bytes) : lexString (f + 1) (0x22 :: X) acc = .ok (acc.reverse, X) := by
  conv => lhs; rw [lexString.eq_def]; simp

open SF.Json.Cst in
theorem lex_plain (f : Nat) (b : UInt8) (X acc : Bytes) (h1 : b.toNat ≠ 0x22) (h2 : b.toNat ≠ 0x5C)
    (h3 : 0x20 ≤ b.toNat) (h4 : b.toNat < 0x80) :
    lexString (f + 1) (b :: X) acc = lexString f X (b :: acc) := by
  conv => lhs; rw [lexString.eq_def]
  have e1 : (b == 0x22) = false := by simp [← UInt8.toNat_inj]; omega
  have e2 : (b == 0x5C) = false := by simp [← UInt8.toNat_inj]; omega
  have e3 : ¬ (b < 0x20) := by simp [UInt8.lt_iff_toNat_lt]; omega
  have e4 : (b < 0x80) := by simp [UInt8.lt_iff_toNat_lt]; omega
  simp [e1, e2, e3, e4]

open SF.Json.Cst in
theorem lex_simple (f : Nat) (e v : UInt8) (X acc : Bytes)
    (h : (e, v) = (0x22, 0x22) ∨ (e, v) = (0x5C, 0x5C) ∨ (e, v) = (0x6E, 0x0A) ∨ (e, v) = (0x72, 0x0D) ∨
      (e, v) = (0x74, 0x09)) :
    lexString (f + 1) (0x5C :: e :: X) acc = lexString f X (v :: acc) := by
  conv => lhs; rw [lexString.eq_def]
  rcases h with h | h | h | h | h <;> cases h <;> simp

open SF.Json.Cst in
theorem lex_u (f : Nat) (h1 h2 h3 h4 : UInt8) (r : Nat) (X acc : Bytes)
    (hh : hex4 (h1 :: h2 :: h3 :: h4 :: X) = .ok (r, X)) (hr : r < Utf8.surr1 ∨ Utf8.surr3 ≤ r) :
    lexString (f + 1) (0x5C :: 0x75 :: h1 :: h2 :: h3 :: h4 :: X) acc =
      lexString f X ((Utf8.encodeRune r).reverse ++ acc) := by
  conv => lhs; rw [lexString.eq_def]
  have a1 : ¬ (Utf8.surr1 ≤ r ∧ r < Utf8.surr2) := by simp [Utf8.surr1, Utf8.surr2, Utf8.surr3] at *; omega
  have a2 : ¬ (Utf8.surr2 ≤ r ∧ r < Utf8.surr3) := by simp [Utf8.surr1, Utf8.surr2, Utf8.surr3] at *; omega
  simp [hh, a1, a2]

open SF.Json.Cst in
theorem lex_seq (f : Nat) {src : Bytes} {c : Nat} (h : Seq src c) (X acc : Bytes) :
    lexString (f + 1) (src ++ X) acc = lexString f X (src.reverse ++ acc) := by
  match src, h with
  | [], h => have := h.len; simp at this
  | b :: src', h =>
    have hb : 0x80 ≤ b.toNat := h.hi b (by simp)
    have hm := h.any X
    have hd := decodeRune_mb b (src' ++ X) hb
    simp only [List.cons_append] at hm
    rw [hm] at hd
    simp only [Option.getD_some] at hd
    have e1 : (b == 0x22) = false := by simp [← UInt8.toNat_inj]; omega
    have e2 : (b == 0x5C) = false := by simp [← UInt8.toNat_inj]; omega
    have e3 : ¬ (b < 0x20) := by simp [UInt8.lt_iff_toNat_lt]; omega
    have e4 : ¬ (b < 0x80) := by simp [UInt8.lt_iff_toNat_lt]; omega
    have hl := h.len
    have e5 : ¬ ((b :: src').length ≤ 1) := by omega
    conv => lhs; rw [List.cons_append, lexString.eq_def]
    simp only [e1, e2, e3, e4, hd, e5, Bool.false_eq_true, if_false]
    have : ∀ (l : Bytes) (n : Nat), n = l.length → (l ++ X).drop n = X ∧ (l ++ X).take n = l := by
      intro l n hn; subst hn; simp
    have := this (b :: src') _ rfl
    simp only [List.cons_append] at this
    rw [this.1, this.2]

theorem escapeSet_false {html : Bool} {b : UInt8} (h : escapeSet html b = false) :
    0x20 ≤ b.toNat ∧ b.toNat ≠ 0x22 ∧ b.toNat ≠ 0x5C ∧
      (html = true → b.toNat ≠ 0x26 ∧ b.toNat ≠ 0x3C ∧ b.toNat ≠ 0x3E) := by
  cases html <;> simp [escapeSet, htmlEscapeSet, jsonEscapeSet] at h ⊢ <;> omega

theorem hex_facts (b : UInt8) (hb : b.toNat < 0x80) :
    Cst.hexVal (hex (b.toNat >>> 4)) = some (b.toNat / 16) ∧
    Cst.hexVal (hex (b.toNat &&& 0xF)) = some (b.toNat % 16) ∧
    isHexDigit (hex (b.toNat >>> 4)) = true ∧ isHexDigit (hex (b.toNat &&& 0xF)) = true := by
  have := forall_uint8 (fun b => !(decide (b.toNat < 0x80)) ||
    (Cst.hexVal (hex (b.toNat >>> 4)) == some (b.toNat / 16) &&
     Cst.hexVal (hex (b.toNat &&& 0xF)) == some (b.toNat % 16) &&
     isHexDigit (hex (b.toNat >>> 4)) && isHexDigit (hex (b.toNat &&& 0xF)))) (by decide +kernel) b
  simp [hb] at this
  exact ⟨this.1.1.1, this.1.1.2, this.1.2, this.2⟩

theorem isHexDigit_facts (c : UInt8) (h : isHexDigit c = true) :
    0x20 ≤ c.toNat ∧ c.toNat ≠ 0x26 ∧ c.toNat ≠ 0x3C ∧ c.toNat ≠ 0x3E := by
  have := forall_uint8 (fun c => !(isHexDigit c) ||
    (decide (0x20 ≤ c.toNat) && decide (c.toNat ≠ 0x26) && decide (c.toNat ≠ 0x3C) && decide (c.toNat ≠ 0x3E)))
    (by decide +kernel) c
  simp [h] at this
  exact ⟨this.1.1.1, this.1.1.2, this.1.2, this.2⟩

theorem ch_bs : ch '\\' = 0x5C := by decide
theorem ch_quote : ch '"' = 0x22 := by decide
theorem ch_n : ch 'n' = 0x6E := by decide
theorem ch_r : ch 'r' = 0x72 := by decide
theorem ch_t : ch 't' = 0x74 := by decide
theorem ch_u : ch 'u' = 0x75 := by decide
theorem ch_0 : ch '0' = 0x30 := by decide

theorem escapeSeq_cases (b : UInt8) :
    ((b.toNat = 0x5C ∨ b.toNat = 0x22) ∧ escapeSeq b = [0x5C, b]) ∨
    (b.toNat = 0x0A ∧ escapeSeq b = [0x5C, 0x6E]) ∨
    (b.toNat = 0x0D ∧ escapeSeq b = [0x5C, 0x72]) ∨
    (b.toNat = 0x09 ∧ escapeSeq b = [0x5C, 0x74]) ∨
    (escapeSeq b = [0x5C, 0x75, 0x30, 0x30, hex (b.toNat >>> 4), hex (b.toNat &&& 0xF)]) := by
  unfold escapeSeq
  simp only [ch_bs, ch_quote, ch_n, ch_r, ch_t, ch_u, ch_0]
  split
  · rename_i h
    left
    simp [← UInt8.toNat_inj] at h
    exact ⟨h, rfl⟩
  · split
    · rename_i h; simp [← UInt8.toNat_inj] at h; exact Or.inr (Or.inl ⟨h, rfl⟩)
    · split
      · rename_i h; simp [← UInt8.toNat_inj] at h; exact Or.inr (Or.inr (Or.inl ⟨h, rfl⟩))
      · split
        · rename_i h; simp [← UInt8.toNat_inj] at h; exact Or.inr (Or.inr (Or.inr (Or.inl ⟨h, rfl⟩)))
        · exact Or.inr (Or.inr (Or.inr (Or.inr rfl)))

open SF.Json.Cst in
theorem hex4_esc (b : UInt8) (hb : b.toNat < 0x80) (X : Bytes) :
    hex4 (0x30 :: 0x30 :: hex (b.toNat >>> 4) :: hex (b.toNat &&& 0xF) :: X) = .ok (b.toNat, X) := by
  obtain ⟨h1, h2, _, _⟩ := hex_facts b hb
  have h0 : Cst.hexVal 0x30 = some 0 := by decide
  simp only [hex4, h0, h1, h2]
  have : ((0 * 16 + 0) * 16 + b.toNat / 16) * 16 + b.toNat % 16 = b.toNat := by omega
  rw [this]


theorem invalidCharSym_eq : invalidCharSym = [0x5C, 0x75, 0x66, 0x66, 0x66, 0x64] := by decide
theorem ls_eq : Float.strBytes "\\u2028" = [0x5C, 0x75, 0x32, 0x30, 0x32, 0x38] := by decide
theorem ps_eq : Float.strBytes "\\u2029" = [0x5C, 0x75, 0x32, 0x30, 0x32, 0x39] := by decide

/-- the recogniser accepts every piece -/
theorem piece_strChars {html : Bool} {src rest out san : Bytes} (h : Piece html src rest out san) (X : Bytes) :
    strChars (out ++ X) = strChars X := by
  cases h with
  | plain b rest hb he =>
    obtain ⟨h1, h2, h3, _⟩ := escapeSet_false he
    have e1 : (b == 0x22) = false := by simp [← UInt8.toNat_inj]; omega
    have e2 : (b == 0x5C) = false := by simp [← UInt8.toNat_inj]; omega
    have e3 : ¬ b.toNat < 0x20 := by omega
    rw [List.singleton_append, strChars_cons]
    simp [e1, e2, e3, hb]
  | esc b rest hb he =>
    rcases escapeSeq_cases b with ⟨hc, hs⟩ | ⟨hc, hs⟩ | ⟨hc, hs⟩ | ⟨hc, hs⟩ | hs <;> rw [hs]
    · rcases hc with hc | hc
      · rw [u8_eq_of_toNat b _ (by omega) hc]; simp [strChars_cons, isSimpleEscape]
      · rw [u8_eq_of_toNat b _ (by omega) hc]; simp [strChars_cons, isSimpleEscape]
    · simp [strChars_cons, isSimpleEscape]
    · simp [strChars_cons, isSimpleEscape]
    · simp [strChars_cons, isSimpleEscape]
    · obtain ⟨_, _, h3, h4⟩ := hex_facts b hb
      have i0 : isHexDigit 0x30 = true := by decide
      simp [strChars_cons, h3, h4, i0]
  | bad b rest hb hm =>
    rw [invalidCharSym_eq]
    have i0 : isHexDigit 0x66 = true := by decide
    have i1 : isHexDigit 0x64 = true := by decide
    simp [strChars_cons, i0, i1]
  | ls rest =>
    rw [ls_eq]
    have i0 : isHexDigit 0x32 = true := by decide
    have i1 : isHexDigit 0x30 = true := by decide
    have i2 : isHexDigit 0x38 = true := by decide
    simp [strChars_cons, i0, i1, i2]
  | ps rest =>
    rw [ps_eq]
    have i0 : isHexDigit 0x32 = true := by decide
    have i1 : isHexDigit 0x30 = true := by decide
    have i2 : isHexDigit 0x39 = true := by decide
    simp [strChars_cons, i0, i1, i2]
  | mb src rest c hm => exact strChars_seq (seq_of_mbDecode hm) X

theorem encodeRune_ascii (b : UInt8) (hb : b.toNat < 0x80) : Utf8.encodeRune b.toNat = [b] := by
  have : b.toNat ≤ 0x7F := by omega
  simp [Utf8.encodeRune, this]

open SF.Json.Cst in
/-- the reference lexer reads every piece back as `san` (one unit of fuel per piece) -/
theorem piece_lex {html : Bool} {src rest out san : Bytes} (h : Piece html src rest out san)
    (f : Nat) (X acc : Bytes) :
    lexString (f + 1) (out ++ X) acc = lexString f X (san.reverse ++ acc) := by
  cases h with
  | plain b rest hb he =>
    obtain ⟨h1, h2, h3, _⟩ := escapeSet_false he
    exact lex_plain f b X acc h2 h3 h1 hb
  | esc b rest hb he =>
    rcases escapeSeq_cases b with ⟨hc, hs⟩ | ⟨hc, hs⟩ | ⟨hc, hs⟩ | ⟨hc, hs⟩ | hs <;> rw [hs]
    · rcases hc with hc | hc
      · rw [u8_eq_of_toNat b _ (by omega) hc]; exact lex_simple f _ _ X acc (by simp)
      · rw [u8_eq_of_toNat b _ (by omega) hc]; exact lex_simple f _ _ X acc (by simp)
    · rw [u8_eq_of_toNat b _ (by omega) hc]; exact lex_simple f _ _ X acc (by simp)
    · rw [u8_eq_of_toNat b _ (by omega) hc]; exact lex_simple f _ _ X acc (by simp)
    · rw [u8_eq_of_toNat b _ (by omega) hc]; exact lex_simple f _ _ X acc (by simp)
    · have := lex_u f _ _ _ _ b.toNat X acc (hex4_esc b hb X) (by simp [Utf8.surr1]; omega)
      rw [encodeRune_ascii b hb] at this
      exact this
  | bad b rest hb hm =>
    rw [invalidCharSym_eq]
    have h4 : hex4 (0x66 :: 0x66 :: 0x66 :: 0x64 :: X) = .ok (0xFFFD, X) := by
      simp [hex4, Cst.hexVal]
    have := lex_u f _ _ _ _ _ X acc h4 (by simp [Utf8.surr3])
    have e : Utf8.encodeRune 0xFFFD = ufffd := by decide
    rw [e] at this
    exact this
  | ls rest =>
    rw [ls_eq]
    have h4 : hex4 (0x32 :: 0x30 :: 0x32 :: 0x38 :: X) = .ok (0x2028, X) := by
      simp [hex4, Cst.hexVal]
    have := lex_u f _ _ _ _ _ X acc h4 (by simp [Utf8.surr1])
    have e : Utf8.encodeRune 0x2028 = [0xE2, 0x80, 0xA8] := by decide
    rw [e] at this
    exact this
  | ps rest =>
    rw [ps_eq]
    have h4 : hex4 (0x32 :: 0x30 :: 0x32 :: 0x39 :: X) = .ok (0x2029, X) := by
      simp [hex4, Cst.hexVal]
    have := lex_u f _ _ _ _ _ X acc h4 (by simp [Utf8.surr1])
    have e : Utf8.encodeRune 0x2029 = [0xE2, 0x80, 0xA9] := by decide
    rw [e] at this
    exact this
  | mb src rest c hm => exact lex_seq f (seq_of_mbDecode hm) X acc

theorem sanitize_ascii (b : UInt8) (hb : b.toNat < 0x80) (rest : Bytes) :
    sanitize (b :: rest) = b :: sanitize rest := by
  simp [sanitize, sanitizeAux, hb]

theorem piece_san {html : Bool} {src rest out san : Bytes} (h : Piece html src rest out san) :
    sanitize (src ++ rest) = san ++ sanitize rest := by
  cases h with
  | plain b rest hb he => exact sanitize_ascii b hb rest
  | esc b rest hb he => exact sanitize_ascii b hb rest
  | bad b rest hb hm =>
    have : ¬ b.toNat < 0x80 := by omega
    simp [sanitize, sanitizeAux, this, hm]
  | ls rest => exact sanitize_seq seq_ls rest
  | ps rest => exact sanitize_seq seq_ps rest
  | mb src rest c hm => exact sanitize_seq (seq_of_mbDecode hm) rest

theorem outOK_imp {html : Bool} {out : Bytes}
    (h : out ≠ [] ∧ ∀ x ∈ out, 0x20 ≤ x.toNat ∧ x.toNat ≠ 0x26 ∧ x.toNat ≠ 0x3C ∧ x.toNat ≠ 0x3E) :
    out ≠ [] ∧ (∀ x ∈ out, 0x20 ≤ x.toNat) ∧
      (html = true → ∀ x ∈ out, x.toNat ≠ 0x26 ∧ x.toNat ≠ 0x3C ∧ x.toNat ≠ 0x3E) :=
  ⟨h.1, fun x hx => (h.2 x hx).1, fun _ x hx => (h.2 x hx).2⟩

/-- what the written bytes look like: never empty, no control byte, and with HTML escaping
no `<` `>` `&` -/
theorem piece_out {html : Bool} {src rest out san : Bytes} (h : Piece html src rest out san) :
    out ≠ [] ∧ (∀ x ∈ out, 0x20 ≤ x.toNat) ∧
      (html = true → ∀ x ∈ out, x.toNat ≠ 0x26 ∧ x.toNat ≠ 0x3C ∧ x.toNat ≠ 0x3E) := by
  cases h with
  | plain b rest hb he =>
    obtain ⟨h1, h2, h3, h4⟩ := escapeSet_false he
    refine ⟨by simp, by simpa using h1, fun hh => by simpa using h4 hh⟩
  | esc b rest hb he =>
    rcases escapeSeq_cases b with ⟨hc, hs⟩ | ⟨hc, hs⟩ | ⟨hc, hs⟩ | ⟨hc, hs⟩ | hs <;> rw [hs]
    · rcases hc with hc | hc <;> (rw [u8_eq_of_toNat b _ (by omega) hc]; exact outOK_imp (by decide))
    · exact outOK_imp (by decide)
    · exact outOK_imp (by decide)
    · exact outOK_imp (by decide)
    · obtain ⟨_, _, h3, h4⟩ := hex_facts b hb
      have a3 := isHexDigit_facts _ h3
      have a4 := isHexDigit_facts _ h4
      refine ⟨by simp, ?_, fun _ => ?_⟩
      · intro x hx
        simp only [List.mem_cons, List.not_mem_nil, or_false] at hx
        rcases hx with rfl | rfl | rfl | rfl | rfl | rfl <;> first | decide | exact a3.1 | exact a4.1
      · intro x hx
        simp only [List.mem_cons, List.not_mem_nil, or_false] at hx
        rcases hx with rfl | rfl | rfl | rfl | rfl | rfl <;> first | decide | exact a3.2 | exact a4.2
  | bad b rest hb hm => rw [invalidCharSym_eq]; exact outOK_imp (by decide)
  | ls rest => rw [ls_eq]; exact outOK_imp (by decide)
  | ps rest => rw [ps_eq]; exact outOK_imp (by decide)
  | mb src rest c hm =>
    have hs := seq_of_mbDecode hm
    refine ⟨?_, ?_, fun _ => ?_⟩
    · intro e; have := hs.len; rw [e] at this; simp at this
    · intro x hx; have := hs.hi x hx; omega
    · intro x hx; have := hs.hi x hx; omega


theorem body_strChars {html : Bool} {s out san : Bytes} (h : Body html s out san) : strChars out = true := by
  induction h with
  | nil => decide
  | cons hp _ ih => rw [piece_strChars hp]; exact ih

theorem body_san {html : Bool} {s out san : Bytes} (h : Body html s out san) : san = sanitize s := by
  induction h with
  | nil => rfl
  | cons hp _ ih => rw [piece_san hp, ih]

open SF.Json.Cst in
theorem body_lex {html : Bool} {s out san : Bytes} (h : Body html s out san) (f : Nat) (X acc : Bytes)
    (hf : out.length ≤ f) : lexString f (out ++ X) acc = .ok (acc.reverse ++ san, X) := by
  induction h generalizing f acc with
  | nil =>
    cases f with
    | zero => simp at hf
    | succ f => rw [ch_quote]; simpa using lex_quote f X acc
  | @cons src rest out san out' san' hp _ ih =>
    have hne := (piece_out hp).1
    have hpos : 1 ≤ out.length := by cases out with | nil => exact absurd rfl hne | cons _ _ => simp
    cases f with
    | zero => simp only [List.length_append] at hf; omega
    | succ f =>
      rw [List.append_assoc, piece_lex hp, ih f _ (by simp only [List.length_append] at hf; omega)]
      simp

theorem body_out {html : Bool} {s out san : Bytes} (h : Body html s out san) :
    (∀ x ∈ out, 0x20 ≤ x.toNat) ∧
      (html = true → ∀ x ∈ out, x.toNat ≠ 0x26 ∧ x.toNat ≠ 0x3C ∧ x.toNat ≠ 0x3E) := by
  induction h with
  | nil => rw [ch_quote]; exact ⟨by decide, fun _ => by decide⟩
  | cons hp _ ih =>
    obtain ⟨_, h1, h2⟩ := piece_out hp
    refine ⟨fun x hx => ?_, fun hh x hx => ?_⟩
    · rcases List.mem_append.mp hx with h | h
      · exact h1 x h
      · exact ih.1 x h
    · rcases List.mem_append.mp hx with h | h
      · exact h2 hh x h
      · exact ih.2 hh x h

/-- the bytes OnString writes for `s` (all Write calls concatenated): the string token -/
def strToken (html : Bool) (s : Bytes) : Bytes := outOf (onString html s)

/-- OnString: only writes (after the separator logic), never hangs; the token is a quote
followed by a `Body` of `s` -/
theorem onString_spec (html : Bool) (s : Bytes) :
    ∃ out, Body html s out (sanitize s) ∧ strToken html s = 0x22 :: out ∧
      ∃ ws, onString html s = .tryElemNext :: ws ∧ PureWrites ws ∧ outOf ws = 0x22 :: out := by
  obtain ⟨out, san, hB, hP, hO⟩ := stringLoop_spec html (s.length + 1) s [] (by omega)
  have hs := body_san hB
  subst hs
  refine ⟨out, hB, ?_, _, rfl, pureWrites_cons hP, ?_⟩
  · simp [strToken, onString, outOf, hO, ch_quote]
  · simp [outOf, hO, ch_quote]


end SF.Json.Enc
