/-
  Helper lemmas for C20 (key cache).  Property theorems are in SF/Props/C20.lean.
-/
import SF.Gotype.Symbols
namespace SF.Symbols

/-- representation invariant of `symbolCache`: map and ring hold the same keys, no
duplicates, at most `max` of them, `max ≥ 1` whenever the cache is enabled -/
structure Inv (c : Cache) : Prop where
  pos : c.enabled = true → 1 ≤ c.max
  same : ∀ k, k ∈ c.m ↔ k ∈ c.lst
  ndm : c.m.Nodup
  ndl : c.lst.Nodup
  len : c.m.length = c.lst.length
  bound : c.enabled = true → (c.lst.length : Int) ≤ c.max
  dis : c.enabled = false → c.m = [] ∧ c.lst = []

theorem inv_init (max : Int) : Inv (init max) := by
  unfold init
  split
  · constructor <;> simp
  · constructor <;> simp <;> omega

theorem nodup_snoc {l : List Bytes} {k : Bytes} (h : l.Nodup) (hk : k ∉ l) : (l ++ [k]).Nodup := by
  rw [List.nodup_append]
  refine ⟨h, by simp, ?_⟩
  intro a ha b hb
  simp at hb
  subst hb
  intro hab; subst hab; exact hk ha

theorem lookup_hit {c : Cache} {k : Bytes} (hi : Inv c) (hk : k ∈ c.m) :
    lookup c k = ({ c with lst := c.lst.erase k ++ [k] }, some k) ∧
    Inv { c with lst := c.lst.erase k ++ [k] } := by
  have hkl : k ∈ c.lst := (hi.same k).mp hk
  refine ⟨by simp [lookup, hk], ?_⟩
  have hlen : (c.lst.erase k ++ [k]).length = c.lst.length := by
    have h0 : 0 < c.lst.length := List.length_pos_of_mem hkl
    simp [List.length_erase_of_mem hkl]; omega
  constructor
  · exact hi.pos
  · intro x
    simp only [List.mem_append, List.mem_singleton]
    rw [hi.same x, hi.ndl.mem_erase_iff]
    constructor
    · intro h
      by_cases hx : x = k
      · exact Or.inr hx
      · exact Or.inl ⟨hx, h⟩
    · rintro (⟨_, h⟩ | h)
      · exact h
      · subst h; exact hkl
  · exact hi.ndm
  · exact nodup_snoc (hi.ndl.erase k) hi.ndl.not_mem_erase
  · simp only [hlen]; exact hi.len
  · intro he; simp only [hlen]; exact hi.bound he
  · intro he
    have := (hi.dis he).1
    simp [this] at hk

theorem lookup_miss {c : Cache} {k : Bytes} (hk : k ∉ c.m) : lookup c k = (c, none) := by
  simp [lookup, hk]

theorem add_ok {c : Cache} {k : Bytes} (hi : Inv c) (he : c.enabled = true) (hk : k ∉ c.m) :
    ∃ c', add c k = .ok c' ∧ Inv c' ∧ c'.enabled = true ∧ c'.max = c.max ∧
      c'.lst = (if (c.lst.length : Int) == c.max then c.lst.tail else c.lst) ++ [k] := by
  obtain ⟨en, m, lst, max⟩ := c
  simp only at he hk
  subst he
  have hpos := hi.pos rfl
  have hsame := hi.same
  have hndm := hi.ndm
  have hndl := hi.ndl
  have hlen := hi.len
  have hbound := hi.bound rfl
  simp only at hpos hsame hndm hndl hlen hbound
  have hkl : k ∉ lst := fun h => hk ((hsame k).mpr h)
  unfold add
  by_cases hfull : (m.length : Int) == max
  · -- at capacity: the ring is non-empty, evict its head
    have hfull' : (lst.length : Int) = max := by rw [← hlen]; simpa using hfull
    have hfl : ((lst.length : Int) == max) = true := by simpa using hfull'
    simp only [hfull, if_true, hfl]
    cases lst with
    | nil => simp at hfull'; omega
    | cons old rest =>
      have ⟨hold, hrest⟩ := List.nodup_cons.mp hndl
      have holdm : old ∈ m := (hsame old).mpr (by simp)
      refine ⟨⟨true, m.erase old ++ [k], rest ++ [k], max⟩, by simp [pop], ?_, rfl, rfl, by simp⟩
      constructor
      · intro _; exact hpos
      · intro x
        simp only [List.mem_append, List.mem_singleton]
        rw [hndm.mem_erase_iff, hsame x]
        simp only [List.mem_cons]
        constructor
        · rintro (⟨hne, h⟩ | h)
          · rcases h with h | h
            · exact absurd h hne
            · exact Or.inl h
          · exact Or.inr h
        · rintro (h | h)
          · exact Or.inl ⟨fun hx => hold (hx ▸ h), Or.inr h⟩
          · exact Or.inr h
      · exact nodup_snoc (hndm.erase old) (fun h => hk (List.mem_of_mem_erase h))
      · exact nodup_snoc hrest (fun h => hkl (List.mem_cons_of_mem _ h))
      · have h0 : 0 < m.length := List.length_pos_of_mem holdm
        simp only [List.length_append, List.length_erase_of_mem holdm, List.length_singleton,
          List.length_cons] at *
        omega
      · intro _
        simp only [List.length_append, List.length_singleton, List.length_cons] at *
        omega
      · intro h; simp at h
  · have hnf : ¬ (lst.length : Int) = max := by
      rw [← hlen]; simpa using hfull
    have hfl : ((lst.length : Int) == max) = false := by simpa using hnf
    simp only [hfull, hfl]
    refine ⟨⟨true, m ++ [k], lst ++ [k], max⟩, rfl, ?_, rfl, rfl, by simp⟩
    constructor
    · intro _; exact hpos
    · intro x; simp only [List.mem_append, List.mem_singleton]; rw [hsame x]
    · exact nodup_snoc hndm hk
    · exact nodup_snoc hndl hkl
    · simp [hlen]
    · intro _
      simp only [List.length_append, List.length_singleton]
      omega
    · intro h; simp at h

end SF.Symbols
