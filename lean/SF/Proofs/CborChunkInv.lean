/-
  Helper lemmas for C02 (CBOR parser mirror): the stack invariant `Inv` of the reachable
  parser states, the fuel-free big-step relation `Runs`, and the post-conditions of the
  building blocks of `execStep` (onValue, popState, scalar, init…).
  Property theorems: SF/Proofs/CborChunkTop.lean.
-/
import SF.Proofs.CborParse
import SF.Proofs.CborNoPanic
import SF.Proofs.CborCollect
set_option linter.unusedSimpArgs false
set_option linter.unusedVariables false
namespace SF.Cbor.Chunk
open SF SF.Cbor SF.Cbor.Parse
open SF.Props.C03 (startPending)

/-! ## the visitor call, in closed form -/

def addEv (p : P) (e : Ev) : P := { p with evs := e :: p.evs }

/-- does the (possibly failing) visitor refuse the next event? -/
def vfail (p : P) : Bool :=
  match p.failAt with
  | some k => decide (p.evs.length ≥ k)
  | none => false

theorem visit_eq (p : P) (e : Ev) :
    visit p e = (addEv p e, if vfail p then some Err.visitor else none) := by
  unfold visit vfail addEv
  cases h : p.failAt with
  | none => simp
  | some k => by_cases hk : p.evs.length ≥ k <;> simp [hk]

@[simp] theorem addEv_state (p : P) (e : Ev) : (addEv p e).state = p.state := rfl
@[simp] theorem addEv_length (p : P) (e : Ev) : (addEv p e).length = p.length := rfl
@[simp] theorem addEv_buffer (p : P) (e : Ev) : (addEv p e).buffer = p.buffer := rfl
@[simp] theorem addEv_failAt (p : P) (e : Ev) : (addEv p e).failAt = p.failAt := rfl
@[simp] theorem addEv_err (p : P) (e : Ev) : (addEv p e).err = p.err := rfl
@[simp] theorem addEv_evs (p : P) (e : Ev) : (addEv p e).evs = e :: p.evs := rfl

/-! ## value-context stacks -/

/-- a state stack (top first) in which a value may start: the bottom `stValue`, below any
number of open containers (definite / indefinite arrays and maps) -/
def VStack : List St → Prop
  | [] => False
  | [s] => s.major = 2
  | s :: u :: t => (s.major = 0x80 ∨ s.major = 0xa0 ∨ s.major = 0x81 ∨ s.major = 0xa1) ∧ VStack (u :: t)

theorem VStack.ne_nil {l : List St} (h : VStack l) : l ≠ [] := by
  intro hc; subst hc; exact h

theorem VStack.head_cases {s : St} {t : List St} (h : VStack (s :: t)) :
    s.major = 2 ∨ s.major = 0x80 ∨ s.major = 0xa0 ∨ s.major = 0x81 ∨ s.major = 0xa1 := by
  cases t with
  | nil => exact Or.inl h
  | cons u t => exact Or.inr h.1

theorem VStack.head_ne_fail {s : St} {t : List St} (h : VStack (s :: t)) : s.major ≠ stFail := by
  rcases h.head_cases with h | h | h | h | h <;> rw [h] <;> decide

theorem VStack.head_not_pending {s : St} {t : List St} (h : VStack (s :: t)) :
    ((s.major &&& (stStartX ||| stIndef)) == stStartX) = false := by
  rcases h.head_cases with h | h | h | h | h <;> rw [h] <;> decide

theorem VStack.push {s : St} {l : List St} (h : VStack l)
    (hs : s.major = 0x80 ∨ s.major = 0xa0 ∨ s.major = 0x81 ∨ s.major = 0xa1) : VStack (s :: l) := by
  cases l with
  | nil => exact absurd rfl h.ne_nil
  | cons u t => exact ⟨hs, h⟩

/-- the current state is a value context and nothing is parked; a definite container on top
still expects elements -/
structure ValOK (p : P) : Prop where
  vs : VStack (p.state.current :: p.state.stack)
  buf : p.buffer = []
  len : (p.state.current.major = 0x80 ∨ p.state.current.major = 0xa0) → p.length.current > 0

theorem ValOK.not_pending {p : P} (h : ValOK p) : startPending p = false := h.vs.head_not_pending

/-! ## onValue by state -/

theorem onValue_arr (n : Nat) (p : P) (h : p.state.current.major = 0x80) :
    onValue n p =
      if (decLen p 1).length.current > 0 then (decLen p 1, false, none) else
      match visit (decLen p 1) .arrEnd with
      | (p, some e) => (p, false, some e)
      | (p, none) =>
        match n with
        | 0 => (popSt (popLen p), true, none)
        | n + 1 => onValue n (popSt (popLen p)) := by
  conv => lhs; unfold onValue
  simp +decide [h]
  rfl

theorem onValue_map (n : Nat) (p : P) (h : p.state.current.major = 0xa0) :
    onValue n p =
      if (decLen p 1).length.current > 0 then (decLen p 1, false, none) else
      match visit (decLen p 1) .objEnd with
      | (p, some e) => (p, false, some e)
      | (p, none) =>
        match n with
        | 0 => (popSt (popLen p), true, none)
        | n + 1 => onValue n (popSt (popLen p)) := by
  conv => lhs; unfold onValue
  simp +decide [h]
  rfl

theorem onValue_val (n : Nat) (p : P) (h : p.state.current.major = 2) :
    onValue n p = (p, true, none) := by
  unfold onValue
  simp +decide [h]

theorem onValue_indef (n : Nat) (p : P)
    (h : p.state.current.major = 0x81 ∨ p.state.current.major = 0xa1) :
    onValue n p = (p, false, none) := by
  unfold onValue
  rcases h with h | h <;> simp +decide [h]

/-- the tail of onValue in a definite container that is now full -/
theorem onValue_close (n : Nat) (p : P) (e : Ev) (u : St) (t : List St)
    (hs : p.state.stack = u :: t) (hv : VStack (u :: t)) (hb : p.buffer = [])
    (hn : n = p.state.stack.length)
    (ih : ∀ q : P, VStack (q.state.current :: q.state.stack) → q.buffer = [] →
      t.length = q.state.stack.length → (onValue t.length q).2.2 = none → ValOK (onValue t.length q).1) :
    (match visit p e with
      | (p, some e) => (p, false, some e)
      | (p, none) =>
        match n with
        | 0 => (popSt (popLen p), true, none)
        | n + 1 => onValue n (popSt (popLen p)) : P × Bool × Option Err).2.2 = none →
    ValOK (match visit p e with
      | (p, some e) => (p, false, some e)
      | (p, none) =>
        match n with
        | 0 => (popSt (popLen p), true, none)
        | n + 1 => onValue n (popSt (popLen p)) : P × Bool × Option Err).1 := by
  rw [visit_eq]
  by_cases hf : vfail p = true
  · simp [hf]
  · simp only [hf, Bool.false_eq_true, if_false]
    rw [hs] at hn
    subst hn
    simp only [List.length_cons]
    apply ih
    · simpa [popSt, popLen, StateStack.pop, hs] using hv
    · simpa [popSt, popLen] using hb
    · simp [popSt, popLen, StateStack.pop, hs]

theorem onValue_ok (n : Nat) (p : P) (hv : VStack (p.state.current :: p.state.stack))
    (hb : p.buffer = []) (hn : n = p.state.stack.length) :
    (onValue n p).2.2 = none → ValOK (onValue n p).1 := by
  induction n generalizing p with
  | zero =>
    cases hs : p.state.stack with
    | cons u t => rw [hs] at hn; simp at hn
    | nil =>
      rw [hs] at hv
      have hm : p.state.current.major = 2 := hv
      rw [onValue_val _ _ hm]
      intro _
      exact ⟨by rw [hs]; exact hv, hb, fun h => by rw [hm] at h; exact absurd h (by decide)⟩
  | succ n ih =>
    cases hs : p.state.stack with
    | nil => rw [hs] at hn; simp at hn
    | cons u t =>
      rw [hs] at hv
      have hn' : n = t.length := by rw [hs] at hn; simpa using hn
      subst hn'
      obtain ⟨hm, hv'⟩ := hv
      have hvp : VStack (p.state.current :: p.state.stack) := by rw [hs]; exact ⟨hm, hv'⟩
      rcases hm with hm | hm | hm | hm
      · rw [onValue_arr _ _ hm]
        by_cases hl : (decLen p 1).length.current > 0
        · simp only [hl, if_true]
          intro _
          exact ⟨hvp, hb, fun _ => hl⟩
        · simp only [hl, if_false]
          exact onValue_close (t.length + 1) (decLen p 1) .arrEnd u t hs hv' hb (by simp [decLen, hs])
            (fun q h1 h2 h3 => ih q h1 h2 h3)
      · rw [onValue_map _ _ hm]
        by_cases hl : (decLen p 1).length.current > 0
        · simp only [hl, if_true]
          intro _
          exact ⟨hvp, hb, fun _ => hl⟩
        · simp only [hl, if_false]
          exact onValue_close (t.length + 1) (decLen p 1) .objEnd u t hs hv' hb (by simp [decLen, hs])
            (fun q h1 h2 h3 => ih q h1 h2 h3)
      · rw [onValue_indef _ _ (Or.inl hm)]
        intro _
        exact ⟨hvp, hb, fun h => by rw [hm] at h; exact absurd h (by decide)⟩
      · rw [onValue_indef _ _ (Or.inr hm)]
        intro _
        exact ⟨hvp, hb, fun h => by rw [hm] at h; exact absurd h (by decide)⟩

/-! ## the first byte of a value decides the shape of `stepValue` -/

theorem forall_uint8 {P : UInt8 → Prop} (h : ∀ n : Fin 256, P (UInt8.ofNat n.val)) (x : UInt8) : P x := by
  have := h ⟨x.toNat, x.toNat_lt⟩
  simpa using this

theorem bits_uint : ∀ x : UInt8, (x &&& majorMask) = majorUint → ¬ x < len8b → ¬ (x &&& minorMask) > len64b →
    (widthOf (x &&& minorMask)).isSome = true := by
  apply forall_uint8
  decide +kernel

theorem bits_neg : ∀ x : UInt8, ¬ (x &&& minorMask) < len8b → ¬ (x &&& minorMask) > len64b →
    (widthOf (x &&& minorMask)).isSome = true := by
  apply forall_uint8
  decide +kernel

theorem stepValue_cases (x : UInt8) :
    (∃ e, ∀ p bs, stepValue p (x :: bs) = scalar p e bs) ∨
    (∃ err, ∀ p bs, stepValue p (x :: bs) = { p := p, rest := [], err := some err }) ∨
    (∃ m minor w, (m = majorUint ∨ m = majorNeg) ∧ widthOf minor = some w ∧
        ∀ p bs, stepValue p (x :: bs) = { p := pushState p ⟨m, minor⟩, rest := bs }) ∨
    (∃ m, (m = codeSingleFloat ∨ m = codeDoubleFloat) ∧
        ∀ p bs, stepValue p (x :: bs) = { p := pushState p ⟨m, stStart⟩, rest := bs }) ∨
    (∃ m minor, (m = majorBytes ∨ m = majorText) ∧
        ∀ p bs, stepValue p (x :: bs) = initByteSeq p m minor bs) ∨
    (∃ m minor, (m = majorArr ∨ m = majorMap) ∧ ∀ p bs, stepValue p (x :: bs) = initSub p m minor bs) := by
  by_cases h1 : (x &&& majorMask) = majorUint
  · by_cases h2 : x < len8b
    · exact Or.inl ⟨.num .u8 x.toNat, fun p bs => by simp +decide [stepValue, h1, h2]⟩
    · by_cases h3 : (x &&& minorMask) > len64b
      · exact Or.inr (Or.inl ⟨.invalidCode, fun p bs => by simp +decide [stepValue, h1, h2, h3]⟩)
      · have := bits_uint x h1 h2 h3
        obtain ⟨w, hw⟩ := Option.isSome_iff_exists.mp this
        refine Or.inr (Or.inr (Or.inl ⟨majorUint, _, w, Or.inl rfl, hw, fun p bs => ?_⟩))
        simp +decide [stepValue, h1, h2, h3]
  by_cases h2 : (x &&& majorMask) = majorNeg
  · by_cases h3 : (x &&& minorMask) < len8b
    · exact Or.inl ⟨.num .i8 (-1 - ((x &&& minorMask).toNat : Int)), fun p bs => by simp +decide [stepValue, h1, h2, h3]⟩
    · by_cases h4 : (x &&& minorMask) > len64b
      · exact Or.inr (Or.inl ⟨.invalidCode, fun p bs => by simp +decide [stepValue, h1, h2, h3, h4]⟩)
      · have := bits_neg x h3 h4
        obtain ⟨w, hw⟩ := Option.isSome_iff_exists.mp this
        refine Or.inr (Or.inr (Or.inl ⟨majorNeg, _, w, Or.inr rfl, hw, fun p bs => ?_⟩))
        simp +decide [stepValue, h1, h2, h3, h4]
  by_cases h3 : (x &&& majorMask) = majorBytes ∨ (x &&& majorMask) = majorText
  · by_cases h4 : (x &&& minorMask) = lenIndef
    · exact Or.inr (Or.inl ⟨.indefByteSeq, fun p bs => by simp +decide [stepValue, h1, h2, h3, h4]⟩)
    · refine Or.inr (Or.inr (Or.inr (Or.inr (Or.inl ⟨x &&& majorMask, x &&& minorMask, h3, fun p bs => ?_⟩))))
      simp +decide [stepValue, h1, h2, h3, h4]
  by_cases h4 : (x &&& majorMask) = majorArr ∨ (x &&& majorMask) = majorMap
  · refine Or.inr (Or.inr (Or.inr (Or.inr (Or.inr ⟨x &&& majorMask, x &&& minorMask, h4, fun p bs => ?_⟩))))
    simp +decide [stepValue, h1, h2, h3, h4]
  by_cases h5 : (x &&& majorMask) = majorTag
  · exact Or.inr (Or.inl ⟨.tagUnsupported, fun p bs => by simp +decide [stepValue, h1, h2, h3, h4, h5]⟩)
  by_cases h6 : x = codeFalse
  · exact Or.inl ⟨.bool false, fun p bs => by simp +decide [stepValue, h1, h2, h3, h4, h5, h6]⟩
  by_cases h7 : x = codeTrue
  · exact Or.inl ⟨.bool true, fun p bs => by simp +decide [stepValue, h1, h2, h3, h4, h5, h6, h7]⟩
  by_cases h8 : x = codeNull ∨ x = codeUndef
  · exact Or.inl ⟨.null, fun p bs => by simp +decide [stepValue, h1, h2, h3, h4, h5, h6, h7, h8]⟩
  by_cases h9 : x = codeHalfFloat
  · exact Or.inr (Or.inl ⟨.halfFloatUnsupported, fun p bs => by simp +decide [stepValue, h1, h2, h3, h4, h5, h6, h7, h8, h9]⟩)
  by_cases h10 : x = codeSingleFloat ∨ x = codeDoubleFloat
  · refine Or.inr (Or.inr (Or.inr (Or.inl ⟨x, h10, fun p bs => ?_⟩)))
    simp +decide [stepValue, h1, h2, h3, h4, h5, h6, h7, h8, h9, h10]
  · exact Or.inr (Or.inl ⟨.invalidCode, fun p bs => by simp +decide [stepValue, h1, h2, h3, h4, h5, h6, h7, h8, h9, h10]⟩)


theorem bits_width : ∀ m : UInt8, ¬ m < len8b → ¬ m > len64b → (widthOf m).isSome = true := by
  apply forall_uint8
  decide +kernel

theorem widthOf_cases {m : UInt8} {w : Nat} (h : widthOf m = some w) : w = 1 ∨ w = 2 ∨ w = 4 ∨ w = 8 := by
  unfold widthOf at h
  repeat' split at h
  all_goals simp at h
  all_goals omega

theorem widthOf_pos {m : UInt8} {w : Nat} (h : widthOf m = some w) : 0 < w := by
  rcases widthOf_cases h with h | h | h | h <;> omega

/-! ## the invariant of reachable parser states -/

/-- (start state, container state) pairs pushed by `initSub` -/
def SubPair (a b : UInt8) : Prop :=
  (a = 0x84 ∧ b = 0x80) ∨ (a = 0xa4 ∧ b = 0xa0) ∨ (a = 0x85 ∧ b = 0x81) ∨ (a = 0xa5 ∧ b = 0xa1)

/-- start states of byte strings, text strings and keys -/
def SeqStart (m : UInt8) : Prop := m = 0x44 ∨ m = 0x64 ∨ m = 0xac

/-- the frames that may sit directly below a `stLen` state -/
def StartOK (s : St) (t : List St) : Prop :=
  (SeqStart s.major ∧ VStack t) ∨ (∃ c t', t = c :: t' ∧ SubPair s.major c.major ∧ VStack t')

/-- INVARIANT of every parser state reachable from a fresh parser (between two steps): the
state stack is a value-context stack, possibly below one of the transient states; the
partial-token buffer is empty except in the token-collecting states, where it is shorter
than the token. -/
inductive Inv : P → Prop
  | val {p : P} : ValOK p → Inv p
  | uint {p : P} (w : Nat) : p.state.current.major = 0x00 → widthOf p.state.current.minor = some w →
      p.buffer.length < w → VStack p.state.stack → Inv p
  | neg {p : P} (w : Nat) : p.state.current.major = 0x20 → widthOf p.state.current.minor = some w →
      p.buffer.length < w → VStack p.state.stack → Inv p
  | f32 {p : P} : p.state.current.major = 0xfa → p.buffer.length < 4 → VStack p.state.stack → Inv p
  | f64 {p : P} : p.state.current.major = 0xfb → p.buffer.length < 8 → VStack p.state.stack → Inv p
  | len {p : P} (w : Nat) (s : St) (t : List St) : p.state.current.major = 3 →
      widthOf p.state.current.minor = some w → p.buffer.length < w → p.state.stack = s :: t →
      StartOK s t → Inv p
  | startSeq {p : P} : SeqStart p.state.current.major → p.buffer = [] → p.length.current ≥ 0 →
      VStack p.state.stack → Inv p
  | startSub {p : P} (c : St) (t : List St) : p.state.stack = c :: t →
      SubPair p.state.current.major c.major → VStack t → p.buffer = [] → Inv p
  | bytes {p : P} : p.state.current.major = 0x40 → p.buffer = [] → p.length.current > 0 →
      VStack p.state.stack → Inv p
  | text {p : P} : p.state.current.major = 0x60 → (p.buffer.length : Int) < p.length.current →
      VStack p.state.stack → Inv p
  | key {p : P} : p.state.current.major = 0xa8 → (p.buffer.length : Int) < p.length.current →
      VStack p.state.stack → Inv p
  | elem {p : P} : p.state.current.major = 0xa9 → p.buffer = [] → VStack p.state.stack → Inv p

theorem inv_init (k : Option Nat) (evs : List Ev) : Inv { failAt := k, evs := evs } :=
  Inv.val ⟨rfl, rfl, fun h => by
    have h' : (2 : UInt8) = 0x80 ∨ (2 : UInt8) = 0xa0 := h
    exact absurd h' (by decide)⟩

/-! ## the big-step relation -/

/-- the main loop takes (another) step: input is left, or a start state is pending -/
def More (p : P) (b : Bytes) : Prop := b ≠ [] ∨ startPending p = true

instance (p : P) (b : Bytes) : Decidable (More p b) := by unfold More; infer_instance

/-- `Runs p b p' e`: stepping from `p` over input `b` until the input is used up and no
start state is pending, or an error occurs, ends in `p'` with verdict `e`.  (The loops of
`feedUntil` and `feed`, flattened and without fuel.) -/
inductive Runs : P → Bytes → P → Option Err → Prop
  | stop {p : P} {b : Bytes} : ¬ More p b → Runs p b p none
  | err {p : P} {b : Bytes} {e : Err} : More p b → (execStep p b).err = some e →
      Runs p b (execStep p b).p (some e)
  | step {p : P} {b : Bytes} {p' : P} {e : Option Err} : More p b → (execStep p b).err = none →
      Runs (execStep p b).p (execStep p b).rest p' e → Runs p b p' e

theorem Runs.det {p : P} {b : Bytes} {p1 p2 : P} {e1 e2 : Option Err}
    (h1 : Runs p b p1 e1) (h2 : Runs p b p2 e2) : p1 = p2 ∧ e1 = e2 := by
  induction h1 generalizing p2 e2 with
  | stop hm =>
    cases h2 with
    | stop _ => exact ⟨rfl, rfl⟩
    | err hm' _ => exact absurd hm' hm
    | step hm' _ _ => exact absurd hm' hm
  | err hm he =>
    cases h2 with
    | stop hm' => exact absurd hm hm'
    | err _ he' => rw [he] at he'; injection he' with he'; subst he'; exact ⟨rfl, rfl⟩
    | step _ he' _ => rw [he] at he'; cases he'
  | step hm he _ ih =>
    cases h2 with
    | stop hm' => exact absurd hm hm'
    | err _ he' => rw [he] at he'; cases he'
    | step _ _ h2' => exact ih h2'

/-- the measure that every successful step decreases -/
def mu (p : P) (b : Bytes) : Nat := 2 * b.length + (if startPending p = true then 1 else 0)

/-- what a successful step establishes -/
structure StepOK (p : P) (a : Bytes) (r : R) : Prop where
  inv : Inv r.p
  dec : mu r.p r.rest < mu p a
  done : r.done = true → startPending r.p = false

theorem StepOK.consume {p : P} {a : Bytes} {r : R} (hi : Inv r.p) (hl : r.rest.length < a.length)
    (hd : r.done = true → startPending r.p = false) : StepOK p a r := by
  refine ⟨hi, ?_, hd⟩
  unfold mu
  split <;> split <;> omega

theorem StepOK.zero {p : P} {a : Bytes} {r : R} (hi : Inv r.p) (hl : r.rest.length ≤ a.length)
    (hp : startPending p = true) (hq : startPending r.p = false) : StepOK p a r := by
  refine ⟨hi, ?_, fun _ => hq⟩
  unfold mu
  simp only [hp, hq, if_true, Bool.false_eq_true, if_false]
  omega

end SF.Cbor.Chunk
