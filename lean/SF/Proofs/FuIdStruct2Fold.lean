/-
  C11, direct path, STRUCT types with fields of primitive kind, now with OMITEMPTY members — FOLD side
  (continuation of FuIdStructFold.lean; the vocabulary `FD`, `Desc`, … is re-stated with one more constructor
  as `FD2`, `Desc2`, …).

  What the mirror (and the Go code: `makeResolveNonEmptyValue`) does with an `omitempty` member of SCALAR type:
    * string: the resolver chain is `[bySize]` — the member is left out iff the string is "";
    * bool, every integer width, float32/64: the resolver chain is EMPTY — `makeNonEmptyFieldFold` degenerates to the
      plain field folder, the member is NEVER left out (0 / false are reported).
  This is exactly `Rules.isEmptyF` on these types (`isEmptyF_prim`).
-/
import SF.Proofs.FuIdStructAgree
namespace SF.FuId
open SF SF.Gotype SF.Gotype.Fold SF.FoldProofs

/-- what becomes of a struct field of scalar type `p`: dropped, the member `nm`, or the `omitempty` member `nm` -/
inductive FD2
  | drop (p : Prim)
  | mem (nm : Bytes) (p : Prim)
  | oe (nm : Bytes) (p : Prim)
  deriving DecidableEq, Repr

def FD2.prim : FD2 → Prim
  | .drop p => p
  | .mem _ p => p
  | .oe _ p => p

/-- the field `f` is described by `d` (`fieldKind`: computed from the documented tag grammar) -/
def DescF2 (f : Field) : FD2 → Prop
  | .drop p => fieldKind f = .drop ∧ f.typ = primTy p
  | .mem nm p => fieldKind f = .plain nm ∧ f.typ = primTy p
  | .oe nm p => fieldKind f = .omitEmpty nm ∧ f.typ = primTy p

inductive Desc2 : List Field → List FD2 → Prop
  | nil : Desc2 [] []
  | cons {f : Field} {d : FD2} {fs : List Field} {ds : List FD2} : DescF2 f d → Desc2 fs ds → Desc2 (f :: fs) (d :: ds)

/-- one Go value per field, of the field's scalar type -/
inductive Vals2 : List FD2 → List GoVal → Prop
  | nil : Vals2 [] []
  | cons {d : FD2} {v : GoVal} {ds : List FD2} {vs : List GoVal} : hasPrim d.prim v = true → Vals2 ds vs → Vals2 (d :: ds) (v :: vs)

/-- the scalar value is EMPTY in the sense of `omitempty` (rule 6e on scalar types): the empty string only -/
def isEmptyP : Prim → GoVal → Bool
  | .string, v => (getS v).isEmpty
  | _, _ => false

theorem isEmptyF_prim (p : Prim) (v : GoVal) (h : hasPrim p v = true) :
    Rules.isEmptyF 100000 (primTy p) v = isEmptyP p v := by
  cases p <;> cases v <;> simp [hasPrim] at h <;> first | rfl | skip
  rename_i s
  cases s <;> rfl

/-- the folder `makeNonEmptyFieldFold` builds for a scalar field -/
def omitFolder (nm : Bytes) (i : Nat) : Prim → ReFold
  | .string => .nonEmptyField nm i [.bySize] (.prim .string)
  | p => .field nm i (.prim p)

/-- the compiled field folders -/
def foldersOf2 : List FD2 → Nat → List ReFold
  | [], _ => []
  | .drop _ :: r, i => foldersOf2 r (i + 1)
  | .mem nm p :: r, i => .field nm i (.prim p) :: foldersOf2 r (i + 1)
  | .oe nm p :: r, i => omitFolder nm i p :: foldersOf2 r (i + 1)

/-- the events of the members -/
def memEvs2 : List FD2 → List GoVal → List XEv
  | .drop _ :: ds, _ :: vs => memEvs2 ds vs
  | .mem nm p :: ds, v :: vs => .ev (.key nm) :: .ev (evOfPrim p v) :: memEvs2 ds vs
  | .oe nm p :: ds, v :: vs =>
    if isEmptyP p v then memEvs2 ds vs else .ev (.key nm) :: .ev (evOfPrim p v) :: memEvs2 ds vs
  | _, _ => []

/-! ## compile -/

theorem bt_prim (p : Prim) : baseType (primTy p) = (0, primTy p) := by cases p <;> rfl

theorem omit_sel (nm : Bytes) (i : Nat) (p : Prim) :
    (if (makeResolveNonEmptyValue (primTy p)).isEmpty then
        (Except.ok (some (ReFold.field nm i (.prim p))) : Except Res (Option ReFold))
     else .ok (some (.nonEmptyField nm i (makeResolveNonEmptyValue (primTy p)) (.prim p)))) =
      .ok (some (omitFolder nm i p)) := by
  cases p <;> rfl

theorem build_fields2 (cf : Nat) (o : FoldOpts) (op : Open) : ∀ (fs : List Field) (ds : List FD2) (i : Nat), Desc2 fs ds →
    ∃ fvs, (fs.zipIdx i).mapM (fun (x : Field × Nat) => buildFieldFold (cf + 2) o op x.1 x.2) = .ok fvs ∧
      fvs.filterMap id = foldersOf2 ds i := by
  intro fs ds i h
  induction h generalizing i with
  | nil => exact ⟨[], rfl, rfl⟩
  | @cons f d fs ds hf _ ih =>
    obtain ⟨fvs, h1, h2⟩ := ih (i + 1)
    rw [List.zipIdx_cons, mapM_cons, h1, buildFieldFold_eq]
    cases d with
    | drop p =>
      obtain ⟨hk, _⟩ := hf
      simp only [hk]
      exact ⟨none :: fvs, rfl, by simpa [foldersOf2] using h2⟩
    | mem nm p =>
      obtain ⟨hk, ht⟩ := hf
      simp only [hk, ht, compile_prim]
      exact ⟨some (.field nm i (.prim p)) :: fvs, rfl, by simp [foldersOf2, h2]⟩
    | oe nm p =>
      obtain ⟨hk, ht⟩ := hf
      simp only [hk, ht, bt_prim, compile_prim, omit_sel]
      exact ⟨some (omitFolder nm i p) :: fvs, rfl, by simp [foldersOf2, h2]⟩

theorem good_of_desc2 (sn : List String) : ∀ (fs : List Field) (ds : List FD2), Desc2 fs ds → goodFs sn fs = true := by
  intro fs ds h
  induction h with
  | nil => rfl
  | @cons f d fs ds hf _ ih =>
    obtain ⟨n, t, tag, a⟩ := f
    have hk : fieldKind (.mk n t tag a) ≠ .inline ∧ t = primTy d.prim := by
      cases d <;> obtain ⟨hk, ht⟩ := hf <;> exact ⟨by rw [hk]; simp, ht⟩
    have hi : inlineIfaceF (.mk n t tag a) = false := by
      unfold inlineIfaceF
      cases hfk : fieldKind (.mk n t tag a) <;> first | rfl | exact absurd hfk hk.1
    obtain ⟨_, rfl⟩ := hk
    simp only [goodFs, goodF, hi, good_primTy, ih]
    rfl

theorem compile_struct2 (o : FoldOpts) (S : GoType) (fs : List Field) (ds : List FD2)
    (hg : goodT [] S = true) (hu : S.under = .struct fs) (hd : Desc2 fs ds) :
    getReflectFold compileFuel o {} S =
      .ok (.structFold (foldersOf2 ds 0) (structFoldLen fs (foldersOf2 ds 0).length)) := by
  show getReflectFold (1999 + 1) o {} S = _
  rw [grf_struct 1999 o {} hg (OpIn_empty []) hu]
  show getReflectFoldStruct (1998 + 1) o _ fs false = _
  rw [grfs_eq]
  obtain ⟨fvs, h1, h2⟩ := build_fields2 1996 o (Open.enter {} S) fs ds 0 hd
  have : fs.zipIdx = fs.zipIdx 0 := rfl
  rw [this, h1]
  simp only [h2, Bool.false_eq_true, if_false]

/-! ## run -/

theorem ar_bySize (s : Bytes) :
    applyResolvers 1000 [.bySize] ⟨.string, .str s⟩ = if s.isEmpty then .drop else .keep ⟨.string, .str s⟩ := by
  cases s <;> rfl

/-- one member: key, value -/
theorem run_member (rf : Nat) (o : FoldOpts) (S : GoType) (vsAll : List GoVal) (nm : Bytes) (i : Nat) (p : Prim)
    (v : GoVal) (hp : hasPrim p v = true) (hfield : RV.field ⟨S, .struct vsAll⟩ i = some ⟨primTy p, v⟩)
    (s : St) (hs : s.failAt = none) :
    ∃ s', run (rf + 2) o .user (.field nm i (.prim p)) ⟨S, .struct vsAll⟩ s = (s', .ok) ∧
      s'.evs = .ev (evOfPrim p v) :: .ev (.key nm) :: s.evs ∧ s'.failAt = none := by
  obtain ⟨s1, he1, hev1, hf1⟩ := emit_ev' s (.key nm) hs
  obtain ⟨s2, he2, hev2, hf2⟩ := emit_ev' s1 (evOfPrim p v) hf1
  refine ⟨s2, ?_, by rw [hev2, hev1], hf2⟩
  rw [run_field, he1]
  simp only [hfield]
  rw [run_prim]
  simp only [primEv_refl p v hp, he2]

/-- one `omitempty` member: nothing when empty -/
theorem run_omit (rf : Nat) (o : FoldOpts) (S : GoType) (vsAll : List GoVal) (nm : Bytes) (i : Nat) (p : Prim)
    (v : GoVal) (hp : hasPrim p v = true) (hfield : RV.field ⟨S, .struct vsAll⟩ i = some ⟨primTy p, v⟩)
    (s : St) (hs : s.failAt = none) :
    ∃ s', run (rf + 2) o .user (omitFolder nm i p) ⟨S, .struct vsAll⟩ s = (s', .ok) ∧
      s'.evs = (if isEmptyP p v then [] else [.ev (evOfPrim p v), .ev (.key nm)]) ++ s.evs ∧ s'.failAt = none := by
  by_cases hstr : p = .string
  · subst hstr
    cases v <;> simp [hasPrim] at hp
    rename_i str
    show ∃ s', run (rf + 2) o .user (.nonEmptyField nm i [.bySize] (.prim .string)) _ s = _ ∧ _
    rw [run_nonEmptyField]
    simp only [hfield, primTy, ar_bySize]
    by_cases he : str.isEmpty = true
    · refine ⟨s, ?_, ?_, hs⟩
      · simp only [he, if_true]
      · simp [isEmptyP, getS, he]
    · obtain ⟨s1, he1, hev1, hf1⟩ := emit_ev' s (.key nm) hs
      obtain ⟨s2, he2, hev2, hf2⟩ := emit_ev' s1 (evOfPrim .string (.str str)) hf1
      refine ⟨s2, ?_, ?_, hf2⟩
      · simp only [he, Bool.false_eq_true, if_false, he1]
        rw [run_prim]
        simp only [primEv_refl .string (.str str) rfl, he2]
      · rw [hev2, hev1]
        simp [isEmptyP, getS, he]
  · obtain ⟨s', h1, h2, h3⟩ := run_member rf o S vsAll nm i p v hp hfield s hs
    have hf : omitFolder nm i p = .field nm i (.prim p) := by cases p <;> first | rfl | exact absurd rfl hstr
    have he : isEmptyP p v = false := by cases p <;> first | rfl | exact absurd rfl hstr
    refine ⟨s', by rw [hf]; exact h1, ?_, h3⟩
    rw [h2, he]
    rfl

theorem seq_fields2 (rf : Nat) (o : FoldOpts) (S : GoType) (fsAll : List Field) (vsAll : List GoVal)
    (hu : S.under = .struct fsAll) :
    ∀ (fs : List Field) (ds : List FD2), Desc2 fs ds → ∀ (vs : List GoVal) (i : Nat), Vals2 ds vs →
      fsAll.drop i = fs → vsAll.drop i = vs → ∀ s : St, s.failAt = none →
      ∃ s', seqM (fun s fv => run (rf + 2) o .user fv ⟨S, .struct vsAll⟩ s) s (foldersOf2 ds i) = (s', .ok) ∧
        s'.evs = (memEvs2 ds vs).reverse ++ s.evs ∧ s'.failAt = none := by
  intro fs ds h
  induction h with
  | nil =>
    intro vs i hv _ _ s hs
    cases hv
    exact ⟨s, rfl, by simp [memEvs2], hs⟩
  | @cons f d fs ds hf _ ih =>
    intro vs i hv hfs hvs s hs
    cases hv with
    | @cons _ v _ vs' hp hv' =>
    obtain ⟨hfi, hfr⟩ := drop_head hfs
    obtain ⟨hvi, hvr⟩ := drop_head hvs
    cases d with
    | drop p =>
      obtain ⟨s', h1, h2, h3⟩ := ih vs' (i + 1) hv' hfr hvr s hs
      exact ⟨s', by simpa [foldersOf2] using h1, by simpa [memEvs2] using h2, h3⟩
    | mem nm p =>
      obtain ⟨_, ht⟩ := hf
      have hfield : RV.field ⟨S, .struct vsAll⟩ i = some ⟨primTy p, v⟩ := by
        simp only [RV.field, hu, hfi, hvi, ht]
      obtain ⟨s2, hstep, hev2, hf2⟩ := run_member rf o S vsAll nm i p v hp hfield s hs
      obtain ⟨s', h1, h2, h3⟩ := ih vs' (i + 1) hv' hfr hvr s2 hf2
      refine ⟨s', ?_, ?_, h3⟩
      · simp only [foldersOf2, seqM, hstep]
        exact h1
      · rw [h2, hev2]
        simp [memEvs2]
    | oe nm p =>
      obtain ⟨_, ht⟩ := hf
      have hfield : RV.field ⟨S, .struct vsAll⟩ i = some ⟨primTy p, v⟩ := by
        simp only [RV.field, hu, hfi, hvi, ht]
      obtain ⟨s2, hstep, hev2, hf2⟩ := run_omit rf o S vsAll nm i p v hp hfield s hs
      obtain ⟨s', h1, h2, h3⟩ := ih vs' (i + 1) hv' hfr hvr s2 hf2
      refine ⟨s', ?_, ?_, h3⟩
      · simp only [foldersOf2, seqM, hstep]
        exact h1
      · rw [h2, hev2]
        by_cases he : isEmptyP p v = true
        · simp [memEvs2, he]
        · simp [memEvs2, he]

/-- STRUCT, fold side -/
theorem impl_struct2 (o : FoldOpts) (hfail : o.failAt = none) (S : GoType) (fs : List Field) (ds : List FD2)
    (vs : List GoVal) (hg : goodT [] S = true) (hu : S.under = .struct fs) (hd : Desc2 fs ds) (hv : Vals2 ds vs) :
    impl o S (.struct vs) =
      { evs := .ev (.objStart (structFoldLen fs (foldersOf2 ds 0).length) BT.any) :: memEvs2 ds vs ++ [.ev .objEnd],
        res := .ok } := by
  obtain ⟨s1, he1, hev1, hf1⟩ := emit_ev' (st0 o) (.objStart (structFoldLen fs (foldersOf2 ds 0).length) BT.any) hfail
  obtain ⟨s2, hseq, hev2, hf2⟩ := seq_fields2 99995 o S fs vs hu fs ds hd vs 0 hv rfl rfl s1 hf1
  obtain ⟨s3, he3, hev3, _⟩ := emit_ev' s2 .objEnd hf2
  have : foldInterfaceValue runFuel o .user (.iface S (.struct vs)) (st0 o) = (s3, .ok) := by
    show foldInterfaceValue (99999 + 1) o .user _ _ = _
    rw [fiv_good 99999 o .user _ _ hg, fastSel_struct hg hu]
    show foldAnyReflect (99998 + 1) o .user _ _ = _
    rw [foldAnyReflect_eq]
    simp only [compile_struct2 o S fs ds hg hu hd]
    show run (99997 + 1) o .user _ _ _ = _
    rw [run_structFold, he1]
    simp only [hseq, he3]
  rw [impl_of o S _ _ _ (by rw [hu]; simp) this, hev3, hev2, hev1]
  simp [st0]

end SF.FuId
