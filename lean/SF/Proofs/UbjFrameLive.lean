/-
  C17 for the UBJSON parser mirror, part 2: WHEN IS `valueType` LIVE?

  `valueType` is written by `stepType` (typed-container header, step `stStart`) and read by
  `stepArrayTyped` in step `stWithLen`.  A state is LIVE (`liveSt`) when it is a typed-array
  state between the two: `stWithType0`, `stWithType1`, `stWithLen`.  No step creates a live
  state except the header steps themselves (`NLs p q`: every live state of `q` is a state of
  `p`): a parser without live states reads `valueType` only after having written it.
-/
import SF.Proofs.UbjFrame
import SF.Proofs.UbjProgLoop
namespace SF.Ubjson.Parse
open SF SF.Ubjson
open StateType StateStep

/-- a typed array between reading its element type and announcing it -/
def liveSt (s : St) : Bool :=
  s.type == stArrayTyped && (s.step == stWithType0 || s.step == stWithType1 || s.step == stWithLen)

/-- no new live state: every state of `q` is a state of `p` or is not live -/
def NLs (p q : P) : Prop := ∀ s ∈ sl q, s ∈ sl p ∨ liveSt s = false

theorem NLs.refl (p : P) : NLs p p := fun _ hs => Or.inl hs

theorem NLs.trans {p q r : P} (h1 : NLs p q) (h2 : NLs q r) : NLs p r := by
  intro s hs
  rcases h2 s hs with h | h
  · exact h1 s h
  · exact Or.inr h

theorem NLs.of_state {p q q' : P} (hn : NLs p q) (h : q'.state = q.state) : NLs p q' := by
  intro s hs
  exact hn s (by simpa [sl, h] using hs)

theorem NLs.addEv {p q : P} (hn : NLs p q) (e : Ev) : NLs p (addEv q e) := hn.of_state rfl
theorem NLs.pushLen {p q : P} (hn : NLs p q) (l : Int) : NLs p (pushLen q l) := hn.of_state rfl
theorem NLs.popLen {p q : P} (hn : NLs p q) : NLs p (popLen q) := hn.of_state rfl
theorem NLs.decLen {p q : P} (hn : NLs p q) : NLs p (decLen q) := hn.of_state rfl
theorem NLs.setMarker {p q : P} (hn : NLs p q) (m : UInt8) : NLs p { q with marker := m } := hn.of_state rfl
theorem NLs.popValueState {p q : P} (hn : NLs p q) : NLs p (popValueState q) := hn.of_state rfl
theorem NLs.collectP {p q : P} (hn : NLs p q) (b : Bytes) (n : Nat) : NLs p (collectP q b n).1 := hn.of_state rfl

theorem NLs.setCurrent {p q : P} (hn : NLs p q) (c : St) (hc : liveSt c = false) : NLs p (setCurrent q c) := by
  intro s hs
  simp only [sl, Parse.setCurrent, List.mem_cons] at hs
  rcases hs with rfl | hs
  · exact Or.inr hc
  · exact hn s (by simp [sl, hs])

theorem live_fail : liveSt ⟨stFail, stStart⟩ = false := by decide

theorem NLs.popState {p q : P} (hn : NLs p q) : NLs p (popState q).1 := by
  intro s hs
  simp only [sl, Parse.popState, StateStack.pop] at hs
  cases hst : q.state.stack with
  | nil =>
    simp only [hst, List.mem_cons, List.not_mem_nil, or_false] at hs
    subst hs
    exact Or.inr live_fail
  | cons t rest =>
    simp only [hst, List.mem_cons] at hs
    exact hn s (by simp only [sl, hst, List.mem_cons]; rcases hs with h | h <;> simp [h])

theorem NLs.popLenState {p q : P} (hn : NLs p q) : NLs p (popLenState q).1 :=
  (hn.popLen).popState

theorem NLs.pushState {p q : P} (hn : NLs p q) (c : St) (hc : liveSt c = false) : NLs p (pushState q c) := by
  intro s hs
  simp only [sl, Parse.pushState, StateStack.push] at hs
  split at hs
  · simp only [List.mem_cons] at hs
    rcases hs with rfl | hs
    · exact Or.inr hc
    · exact hn s (by simp only [sl, List.mem_cons]; exact hs)
  · simp only [List.mem_cons] at hs
    rcases hs with rfl | hs
    · exact Or.inr hc
    · exact hn s (by simp [sl, hs])

theorem live_of_type {s : St} (h : s.type ≠ stArrayTyped) : liveSt s = false := by
  simp [liveSt, h]

theorem live_withStep {c : St} (h : c.type ≠ stArrayTyped) (s : StateStep) : liveSt (c.withStep s) = false :=
  live_of_type (by simpa [St.withStep] using h)

theorem live_start_all : ∀ n : Fin 256,
    (markerToStartState (UInt8.ofNat n.val)).all (fun s => !liveSt s) = true := by decide +kernel

theorem live_start {m : UInt8} {s : St} (h : markerToStartState m = some s) : liveSt s = false := by
  have := live_start_all ⟨m.toNat, m.toNat_lt⟩
  simp only [UInt8.ofNat_toNat] at this
  rw [h] at this
  simpa using this

theorem live_isStart {s : St} (h : isStart s = true) : liveSt s = false := by
  cases s with | mk t st => cases t <;> simp_all [isStart, liveSt]

/-- what the `valueState` stack hands out is never live -/
theorem live_vcur {p : P} (hg : G p) : liveSt p.valueState.current = false := by
  rcases hg.vcur with h | h
  · exact live_isStart h
  · exact live_of_type (by rw [h.1]; decide)

/-! ### stepLen -/

theorem lenFin_nl (cont : St) (p : P) (b : Bytes) (L : Int) (p0 : P) (h : NLs p0 p) (hc : liveSt cont = false) :
    NLs p0 (lenFin cont p b L).p := by
  unfold lenFin
  split
  · exact h
  · exact (((h.setMarker _).setCurrent _ hc).pushLen _)

theorem lenColl_nl (cont : St) (p : P) (b : Bytes) (n : Nat) (rd : Bytes → Int) (p0 : P) (h : NLs p0 p)
    (hc : liveSt cont = false) :
    NLs p0 (match collectP p b n with
      | (p, rest, none) => ({ p := p, rest := rest } : R)
      | (p, rest, some tmp) => lenFin cont p rest (rd tmp)).p := by
  have h2 := h.collectP b n
  generalize collectP p b n = c at h2 ⊢
  obtain ⟨q, rest, tmp⟩ := c
  cases tmp with
  | none => exact h2
  | some t => exact lenFin_nl cont q rest _ p0 h2 hc

theorem lenValue_nl (cont : St) (p : P) (b : Bytes) (p0 : P) (h : NLs p0 p) (hc : liveSt cont = false) :
    NLs p0 (lenValue cont p b).p := by
  unfold lenValue
  simp only []
  split
  · split
    · exact h
    · exact lenFin_nl _ _ _ _ _ h hc
  split
  · split
    · exact h
    · exact lenFin_nl _ _ _ _ _ h hc
  split
  · exact lenColl_nl _ _ _ _ _ _ h hc
  split
  · exact lenColl_nl _ _ _ _ _ _ h hc
  split
  · exact lenColl_nl _ _ _ _ _ _ h hc
  exact h

theorem stepLen_nl (p : P) (b : Bytes) (cont : St) (p0 : P) (h : NLs p0 p) (hc : liveSt cont = false) :
    NLs p0 (stepLen p b cont).p := by
  rw [stepLen_eq]
  split
  · split
    · exact h
    · simp only []
      split
      · split
        · exact h.setMarker _
        · exact lenValue_nl _ _ _ _ (h.setMarker _) hc
      · exact h
  · exact lenValue_nl _ _ _ _ h hc

/-! ### stepValue -/

theorem stepValue_nl (p : P) (b : Bytes) (p0 : P) (h : NLs p0 p) : NLs p0 (stepValue p b).p := by
  unfold stepValue
  cases b with
  | nil => exact h
  | cons x bs =>
    simp only []
    split
    · exact h
    · rename_i st hst
      have hl := live_start hst
      split <;> (try simp only [visit_eq]) <;>
        first
        | exact h
        | exact h.addEv _
        | exact h.pushState _ hl

/-! ### stepFixedValue -/

theorem fixFin_nl (p : P) (b : Bytes) (done : Bool) (err : Option Err) (p0 : P) (h : NLs p0 p) :
    NLs p0 (fixFin p b done err).p := by
  unfold fixFin
  split
  · exact h.popState
  · exact h

theorem fixNow_nl (p : P) (b : Bytes) (e : Ev) (p0 : P) (h : NLs p0 p) :
    NLs p0 (let (q, err) := visit p e; fixFin q b true err).p := by
  simp only [visit_eq]
  exact fixFin_nl _ _ _ _ _ (h.addEv _)

theorem fixColl_nl (p : P) (b : Bytes) (n : Nat) (mk : Bytes → Ev) (p0 : P) (h : NLs p0 p) :
    NLs p0 (match collectP p b n with
      | (p, rest, none) => fixFin p rest false none
      | (p, rest, some tmp) => let (p, err) := visit p (mk tmp); fixFin p rest true err).p := by
  have h2 := h.collectP b n
  generalize collectP p b n = c at h2 ⊢
  obtain ⟨q, rest, tmp⟩ := c
  cases tmp with
  | none => exact fixFin_nl _ _ _ _ _ h2
  | some t => exact fixNow_nl _ _ _ _ h2

theorem stepFixedValue_nl (p : P) (b : Bytes) : NLs p (stepFixedValue p b).p := by
  have h := NLs.refl p
  rw [stepFixedValue_eq]
  split
  · exact fixNow_nl _ _ _ _ h
  · exact fixFin_nl _ _ _ _ _ h
  · exact fixNow_nl _ _ _ _ h
  · exact fixNow_nl _ _ _ _ h
  · cases b with
    | nil => exact h
    | cons x bs => exact fixNow_nl _ _ _ _ h
  · cases b with
    | nil => exact h
    | cons x bs => exact fixNow_nl _ _ _ _ h
  · exact fixColl_nl _ _ _ _ _ h
  · exact fixColl_nl _ _ _ _ _ h
  · exact fixColl_nl _ _ _ _ _ h
  · exact fixColl_nl _ _ _ _ _ h
  · exact fixColl_nl _ _ _ _ _ h
  · exact fixColl_nl _ _ _ _ _ h
  · exact h

/-! ### stepString -/

theorem strFin_nl (p : P) (b : Bytes) (done : Bool) (err : Option Err) (p0 : P) (h : NLs p0 p) :
    NLs p0 (strFin p b done err).p := by
  unfold strFin
  split
  · exact h.popLenState
  · exact h

theorem strWithLen_nl (p : P) (b : Bytes) (p0 : P) (h : NLs p0 p) : NLs p0 (strWithLen p b).p := by
  unfold strWithLen
  simp only []
  split
  · simp only [visit_eq]; exact strFin_nl _ _ _ _ _ (h.addEv _)
  · split
    · exact h
    · have h2 := h.collectP b p.length.current.toNat
      generalize collectP p b p.length.current.toNat = c at h2 ⊢
      obtain ⟨q, rest, tmp⟩ := c
      cases tmp with
      | none => exact strFin_nl _ _ _ _ _ h2
      | some t => simp only [visit_eq]; exact strFin_nl _ _ _ _ _ (h2.addEv _)

theorem stepString_nl (p : P) (b : Bytes) (ht : p.state.current.type ≠ stArrayTyped) :
    NLs p (stepString p b).p := by
  rw [stepString_eq]
  split
  · have hl := stepLen_nl p b (p.state.current.withStep stWithLen) p (NLs.refl p) (live_withStep ht _)
    simp only []
    split
    · exact strFin_nl _ _ _ _ _ hl
    · exact strWithLen_nl _ _ _ hl
  · exact strWithLen_nl _ _ _ (NLs.refl p)
  · exact strFin_nl _ _ _ _ _ (NLs.refl p)

/-! ### arrays -/

theorem live_setType (c : St) (t : StateType) (h : t ≠ stArrayTyped ∨ c.step = stStart) :
    liveSt { c with type := t } = false := by
  rcases h with h | h
  · exact live_of_type h
  · simp [liveSt, h]

theorem NLs.setType {p q : P} (hn : NLs p q) (t : StateType) (h : t ≠ stArrayTyped ∨ q.state.current.step = stStart) :
    NLs p (setType q t) := hn.setCurrent _ (live_setType _ _ h)

theorem NLs.setStep {p q : P} (hn : NLs p q) (s : StateStep) (h : q.state.current.type ≠ stArrayTyped) :
    NLs p (setStep q s) := hn.setCurrent _ (live_of_type h)

theorem stepArrayInit_nl (p : P) (b : Bytes) (hs : p.state.current.step = stStart) :
    NLs p (stepArrayInit p b).p := by
  have h := NLs.refl p
  unfold stepArrayInit
  cases b with
  | nil => exact h
  | cons x bs =>
    simp only []
    split
    · exact h.setType _ (Or.inr hs)
    split
    · exact h.setType _ (Or.inr hs)
    · simp only [visit_eq]; exact (h.setType _ (Or.inr hs)).addEv _

theorem stepArrayDyn_nl (p : P) (b : Bytes) (ht : p.state.current.type = stArrayDyn) :
    NLs p (stepArrayDyn p b).p := by
  have h := NLs.refl p
  have ht' : p.state.current.type ≠ stArrayTyped := by rw [ht]; decide
  unfold stepArrayDyn
  cases b with
  | nil => exact h
  | cons x bs =>
    simp only []
    split
    · simp only [visit_eq]
      vsplit p
      · exact (h.addEv _).popState
      · exact h.addEv _
    · split
      · exact stepValue_nl _ _ _ (h.setStep _ ht')
      · exact stepValue_nl _ _ _ h

theorem acContent_nl (l : Int) (b : Bytes) (p p0 : P) (h : NLs p0 p) : NLs p0 (acContent l b p).p := by
  unfold acContent
  split
  · simp only [visit_eq]
    vsplit p
    · exact (h.addEv _).popLenState
    · exact h.addEv _
  · cases b with
    | nil => exact h
    | cons x bs =>
      simp only []
      split
      · exact h
      · exact stepValue_nl _ _ _ h.decLen

theorem stepArrayCount_nl (p : P) (b : Bytes) (ht : p.state.current.type = stArrayCount) :
    NLs p (stepArrayCount p b).p := by
  have h := NLs.refl p
  have ht' : p.state.current.type ≠ stArrayTyped := by rw [ht]; decide
  rw [stepArrayCount_eq]
  split
  · exact stepLen_nl _ _ _ _ h (live_withStep ht' _)
  · split
    · simp only [visit_eq]
      split
      · exact (h.setStep _ ht').addEv _
      · exact acContent_nl _ _ _ _ ((h.setStep _ ht').addEv _)
    · exact acContent_nl _ _ _ _ h

theorem atContent_nl (l : Int) (b : Bytes) (p p0 : P) (h : NLs p0 p) (hv : liveSt p.valueState.current = false) :
    NLs p0 (atContent l b p).p := by
  unfold atContent
  split
  · simp only [visit_eq]
    vsplit p
    · exact ((h.addEv _).popValueState).popLenState
    · exact h.addEv _
  · exact h.decLen.pushState _ hv

/-- a typed array that is neither live nor about to read its type is in its element loop -/
theorem stepArrayTyped_nl (p : P) (b : Bytes) (hg : G p) (h1 : liveSt p.state.current = false)
    (h2 : isTypeStart p.state.current = false) (ht : p.state.current.type = stArrayTyped) :
    NLs p (stepArrayTyped p b).p := by
  have hs0 : (p.state.current.step == stStart) = false := by simpa [isTypeStart, ht] using h2
  have hs1 : ((p.state.current.step == stWithType0) = false ∧ (p.state.current.step == stWithType1) = false) ∧
      (p.state.current.step == stWithLen) = false := by
    simpa [liveSt, ht] using h1
  rw [stepArrayTyped_eq]
  simp only [hs0, hs1.1.1, hs1.1.2, hs1.2, Bool.or_self, Bool.false_eq_true, if_false]
  exact atContent_nl _ _ _ _ (NLs.refl p) (live_vcur hg)

/-! ### objects -/

theorem stepObjectInit_nl (p : P) (b : Bytes) : NLs p (stepObjectInit p b).p := by
  have h := NLs.refl p
  unfold stepObjectInit
  cases b with
  | nil => exact h
  | cons x bs =>
    simp only []
    split
    · exact h.setType _ (Or.inl (by decide))
    split
    · exact h.setType _ (Or.inl (by decide))
    · simp only [visit_eq]; exact (h.setType _ (Or.inl (by decide))).addEv _

theorem fieldName_nl (p : P) (b : Bytes) (p0 : P) (h : NLs p0 p) (ht : p.state.current.type ≠ stArrayTyped) :
    NLs p0 (fieldName p b).p := by
  unfold fieldName
  simp only []
  split
  · exact h
  · have h2 := h.collectP b p.length.current.toNat
    have ht2 : (collectP p b p.length.current.toNat).1.state.current.type ≠ stArrayTyped := ht
    generalize collectP p b p.length.current.toNat = c at h2 ht2 ⊢
    obtain ⟨q, rest, tmp⟩ := c
    cases tmp with
    | none => exact h2
    | some t =>
      simp only [visit_eq]
      exact (h2.popLen.addEv _).setStep _ ht2

theorem odBody_nl (step : StateStep) (b : Bytes) (p : P) (ht : p.state.current.type ≠ stArrayTyped) :
    NLs p (odBody step b p).p := by
  have h := NLs.refl p
  unfold odBody
  split
  · exact stepLen_nl _ _ _ _ h (live_withStep ht _)
  · exact fieldName_nl _ _ _ h ht
  · cases b with
    | nil => exact h
    | cons x bs =>
      simp only []
      split
      · exact h
      · exact stepValue_nl _ _ _ (h.setStep _ ht)
  · exact h

theorem stepObjectDyn_nl (p : P) (b : Bytes) (ht : p.state.current.type ≠ stArrayTyped) :
    NLs p (stepObjectDyn p b).p := by
  have h := NLs.refl p
  rw [stepObjectDyn_eq]
  split
  · cases b with
    | nil => exact h
    | cons x bs =>
      simp only []
      split
      · simp only [visit_eq]
        vsplit p
        · exact (h.addEv _).popState
        · exact h.addEv _
      · exact odBody_nl _ _ _ ht
  · exact odBody_nl _ _ _ ht

theorem ocFin_nl (p : P) (end_ : Bool) (b : Bytes) (err : Option Err) (p0 : P) (h : NLs p0 p) :
    NLs p0 (ocFin p end_ b err).p := by
  unfold ocFin
  split
  · simp only [visit_eq]; exact h.addEv _
  · exact h

theorem ocAtFieldName_nl (p : P) (b : Bytes) (p0 : P) (h : NLs p0 p) (ht : p.state.current.type ≠ stArrayTyped) :
    NLs p0 (ocAtFieldName p b).p := by
  unfold ocAtFieldName
  split
  · exact ocFin_nl _ _ _ _ _ h
  · exact ocFin_nl _ _ _ _ _ (stepLen_nl _ _ _ _ h (live_withStep ht _))

theorem ocValue_nl (typed : Bool) (b : Bytes) (p : P) (p0 : P) (h : NLs p0 p)
    (ht : p.state.current.type ≠ stArrayTyped) (hv : liveSt p.valueState.current = false) :
    NLs p0 (ocValue typed b p).p := by
  unfold ocValue
  simp only []
  have h2 : NLs p0 (setStep (decLen p) stFieldName) := h.decLen.setStep _ ht
  split
  · exact ocFin_nl _ _ _ _ _ (h2.pushState _ hv)
  · exact ocFin_nl _ _ _ _ _ (stepValue_nl _ _ _ h2)

theorem stepObjectCountedContent_nl (p : P) (b : Bytes) (typed : Bool)
    (ht : p.state.current.type ≠ stArrayTyped) (hv : liveSt p.valueState.current = false) :
    NLs p (stepObjectCountedContent p b typed).p := by
  have h := NLs.refl p
  rw [stepObjectCountedContent_eq]
  split
  · simp only [visit_eq]
    vsplit p
    · split
      · exact ocFin_nl _ _ _ _ _ (h.addEv _)
      · split
        · exact ocFin_nl _ _ _ _ _ ((h.addEv _).setStep _ ht)
        · exact ocAtFieldName_nl _ _ _ ((h.addEv _).setStep _ ht) (by simpa [setStep, setCurrent, addEv] using ht)
    · exact h.addEv _
  · exact ocAtFieldName_nl _ _ _ h ht
  · exact ocFin_nl _ _ _ _ _ (fieldName_nl _ _ _ h ht)
  · split
    · cases b with
      | nil => exact h
      | cons x bs =>
        simp only []
        split
        · exact h
        · exact ocValue_nl _ _ _ _ h ht hv
    · exact ocValue_nl _ _ _ _ h ht hv
  · exact ocFin_nl _ _ _ _ _ h

theorem stepObjectCount_nl (p : P) (b : Bytes) (hg : G p) (ht : p.state.current.type = stObjectCount) :
    NLs p (stepObjectCount p b).p := by
  have ht' : p.state.current.type ≠ stArrayTyped := by rw [ht]; decide
  unfold stepObjectCount
  split
  · exact stepLen_nl _ _ _ _ (NLs.refl p) (live_withStep ht' _)
  · have := stepObjectCountedContent_nl p b false ht' (live_vcur hg)
    simp only []
    split
    · exact this.popLenState
    · exact this

theorem stepTypeLenHeader_nl (p : P) (b : Bytes) (c : StateStep) (ht : p.state.current.type ≠ stArrayTyped) :
    NLs p (stepTypeLenHeader p b c).p := by
  have h := NLs.refl p
  unfold stepTypeLenHeader
  simp only []
  split
  · unfold stepType
    cases b with
    | nil => exact h
    | cons x bs =>
      simp only []
      have h2 : NLs p (setCurrent p (p.state.current.withStep stWithType0)) := h.setCurrent _ (live_withStep ht _)
      split
      · exact h2
      · split
        · exact h2
        · exact h2.of_state rfl
  · cases b with
    | nil => exact h
    | cons x bs =>
      simp only []
      split
      · exact h
      · exact h.setCurrent _ (live_withStep ht _)
  · exact stepLen_nl _ _ _ _ h (live_withStep ht _)
  · exact h

theorem stepObjectTyped_nl (p : P) (b : Bytes) (hg : G p) (ht : p.state.current.type = stObjectTyped) :
    NLs p (stepObjectTyped p b).p := by
  have ht' : p.state.current.type ≠ stArrayTyped := by rw [ht]; decide
  unfold stepObjectTyped
  simp only []
  split
  · exact stepTypeLenHeader_nl _ _ _ ht'
  · have := stepObjectCountedContent_nl p b true ht' (live_vcur hg)
    split
    · exact (this.popValueState).popLenState
    · exact this

/-! ### dispatch / execStep -/

theorem dispatch_nl (p : P) (b : Bytes) (hg : G p) (h1 : liveSt p.state.current = false)
    (h2 : isTypeStart p.state.current = false) : NLs p (dispatch p b).p := by
  unfold dispatch
  split
  · exact NLs.refl p
  · exact stepValue_nl _ _ _ (NLs.refl p)
  · exact stepFixedValue_nl _ _
  · rename_i ht; exact stepString_nl _ _ (by rw [ht]; decide)
  · rename_i ht; exact stepString_nl _ _ (by rw [ht]; decide)
  · rename_i ht
    have := hg.val p.state.current (by simp [sl])
    exact stepArrayInit_nl _ _ (by simpa [validSt, ht] using this)
  · rename_i ht; exact stepArrayDyn_nl _ _ ht
  · rename_i ht; exact stepArrayCount_nl _ _ ht
  · rename_i ht; exact stepArrayTyped_nl _ _ hg h1 h2 ht
  · exact stepObjectInit_nl _ _
  · rename_i ht; exact stepObjectDyn_nl _ _ (by rw [ht]; decide)
  · rename_i ht; exact stepObjectCount_nl _ _ hg ht
  · rename_i ht; exact stepObjectTyped_nl _ _ hg ht

theorem execStep_state (p : P) (b : Bytes) : (execStep p b).p.state = (dispatch p b).p.state := by
  rw [execStep_eq]
  cases (dispatch p b).err <;> rfl

/-- a parser state has a live typed-array state somewhere -/
def liveAny (p : P) : Bool := (sl p).any liveSt

theorem liveAny_false_iff (p : P) : liveAny p = false ↔ ∀ s ∈ sl p, liveSt s = false := by
  simp [liveAny]

/-- ONE STEP creates no live state unless it is the header step that reads the element type -/
theorem execStep_nl (p : P) (b : Bytes) (hg : G p) (h1 : liveAny p = false)
    (h2 : isTypeStart p.state.current = false) : liveAny (execStep p b).p = false := by
  rw [liveAny_false_iff] at h1 ⊢
  have hn := (dispatch_nl p b hg (h1 _ (by simp [sl])) h2).of_state (execStep_state p b)
  intro s hs
  rcases hn s hs with h | h
  · exact h1 s h
  · exact h

end SF.Ubjson.Parse
