/-
  Property C12 — "folding a Go value emits exactly the value defined by the documented tag
  rules": the MIRROR of the code (`SF.Gotype.Fold.impl`: compile the type into a `ReFold`
  term, interpret it) agrees with the SPECIFICATION written from the documentation
  (`SF.Gotype.Rules.foldR`), machine-checked for all types / values of an explicit decidable
  sub-universe, in both directions:

    fold_agrees    rules give `r`      ⇒  mirror returns ok, its events build a value that
                                          `Rules.agrees` accepts for `r`
    fold_refuses   rules refuse (≠ own fuel) ⇒  mirror returns a Go error (never ok / panic / fatal)
    fold_agrees'   the same with every side condition on the inputs (`vcost v ≤ 100000`)
    fold_total     both directions in one statement
    fold_agrees_stage1 … fold_agrees_stage6   the stages of the universe, one theorem each
    fold_agrees_rec   the same agreement on RECURSIVE types: menagerie members referring to
                      themselves (linked lists, trees, `type L []L`, …), relative to an explicit,
                      checkable hypothesis on the menagerie's declarations (`FoldRec.MenOK`)

  THE UNIVERSE (`goodT`, `wt`; `SF.Proofs.FoldUniv`)
    types   bool, string, all integer widths, float32/64, interface{}, slices, arrays, maps
            (any key type whose kind is string; any other key type is the error direction),
            pointers, structs with ARBITRARY tag strings (unexported, `-`, `omit`, name,
            `omitempty`, `inline`/`squash`, the declaration error inline+omitempty), chan / func /
            complex / uintptr (error direction), named types without methods, without registered
            fold function, not recursive;
            EXCLUDED: `inline` fields whose type (behind pointers) is of interface kind (they fold
            through an ExpectObjVisitor), named types with `Fold` / `IsZero` methods or a
            registered fold function.  Recursive types have their own universe (`FoldRec.goodR`:
            unnamed constructs, references `ref n` to menagerie members `n ∈ ns`, the members' own
            declarations; the members' bodies must not declare further named types, which leaves
            out mutually recursive members as the type parser writes them) and theorem
            (`fold_agrees_rec`, agreement direction only).
    values  typed (`wt`): shapes fit the type, one value per struct field, map keys distinct,
            dynamic types of interface values again good types.
    sizes   depth of types ≤ 499 (compile fuel 2000: 4 per level), depth of values ≤ 33331
            (run fuel 100000: 3 per level), values of `omitempty` interface fields ≤ 498 deep
            (resolver fuel 1000: 2 per level), `rcost r ≤ 100000` (fuel of `Rules.agrees`); for
            the error direction types ≤ 332 deep (`typeOk` fuel 1000: 3 per level).
    options every order oracle `FoldOpts.order` (Go's map iteration order) that mentions no
            key twice inside one typed map (necessary: counterexample at the end), with or
            without registered user folders, visitor that never fails (`failAt = none`; faults
            are property C16).

  FILES (all under SF/Proofs)
    FoldList      `All2`, `mapM` in `Except`
    FoldBuild     event side: `Enc evs g` / `EncMems` / `EncElems`, typed arrays and maps expanded
    FoldMatch     comparison side: fuel-free `Rel`, exact fuel `rcost`, `Rel → matchesF`
    FoldVisit     `emit` / `seqM` / `rangeM` on a healthy visitor; the order oracle only permutes
    FoldTags      `fieldKind`: one decision per field, from `FoldTagRules.tag_rules_agree`
    FoldUniv      the universe: `goodT`, `wt`, depths
    FoldCompile   `getReflectFold` … one level at a time      FoldRun   the same for `run` …
    FoldSem       `ValOut` / `MemsOut` composed over the control structures
    FoldSpec, FoldPrim, FoldWalk, FoldEmpty, FoldLazy   the specification one level at a time;
                  scalars, typed arrays / maps; pointers; `omitempty` resolvers (lazy interfaces)
    FoldTypeOk    accepted types compile (`compile_ok`)      FoldCompileErr  refused ones do not
    FoldMain      the induction on the depth of the value (R) `run`, (I) `foldInterfaceValue`,
                  (F) field folders: `sound_all`
    FoldNoFuel, FoldErrSem, FoldErr   the error direction: `err_all`
    FoldCost      `rcost r ≤ vcost v`: the fuel of `Rules.agrees` from the Go value alone
    FoldStages, FoldExamples, FoldRulesTop (this file)
    RecBeq, RecUniv, RecCompile, RecSpec, RecEmpty, RecTypeOk, RecLazy, RecMain, RecExamples
                  the same development over menagerie members (`goodR`, `MenOK`): forwarding
                  folders (`forward`, `forwardInline`) recompile at fold time (`RecTypeOk`: this
                  succeeds, by induction on the number of members not yet under compilation);
                  `RecMain.sound_allR`
-/
import SF.Proofs.FoldStages
import SF.Proofs.FoldExamples
import SF.Proofs.FoldErr
import SF.Proofs.FoldCost
import SF.Proofs.RecExamples
namespace SF.FoldProofs
open SF SF.Gotype SF.Gotype.Fold SF.Gotype.Rules

/-- the mirror folded the value without error and the events it delivered describe a value
that `Rules.agrees` accepts for `r` -/
def AgreesWith (out : Outcome) (r : RVal) : Prop :=
  out.res = .ok ∧ ∃ g, build (expandAll out.evs) = some g ∧ Rules.agrees r g = true

theorem impl_eq (o : FoldOpts) (T : GoType) (v : GoVal) :
    impl o T v =
      { evs := (foldInterfaceValue runFuel o .user
          (match T.under with | .iface => v | _ => .iface T v) { failAt := o.failAt, hint := o.order }).1.evs.reverse,
        res := (foldInterfaceValue runFuel o .user
          (match T.under with | .iface => v | _ => .iface T v) { failAt := o.failAt, hint := o.order }).2 } := rfl

/-- MAIN THEOREM (good types).  For every good type `T` (`goodT`: any nesting of scalars,
slices, arrays, string-keyed maps, pointers, interfaces, structs with any tags, named types
without methods / registered folder / recursion; no `inline` field of INTERFACE type) of depth ≤ 499, every value `v` of type `T` (`wt`: shapes fit, one value per struct
field, map keys distinct, dynamic types good and of depth ≤ 499, values of `omitempty`
interface fields of depth ≤ 498) of depth ≤ 33331, every
order oracle `o.order` that mentions no key twice inside one typed map (`hintOK`), registered
user folders or not (`o.folders`, `reg`), and a visitor that never fails:
if the rules give `r`, the mirror returns `ok` and the events it delivered build a value that
`Rules.agrees` accepts for `r` — provided `Rules.agrees` has the fuel to compare
(`rcost r ≤ 100000`; `rcost` is the exact fuel `matchesF` needs on `r`). -/
theorem fold_agrees (o : FoldOpts) (reg : Bool) (T : GoType) (v : GoVal) (r : RVal)
    (hp : goodT [] T = true) (hdt : tdepth T ≤ dynBound) (hw : wt T v = true)
    (hdv : 3 * vdepth v + 6 ≤ runFuel)
    (hfail : o.failAt = none) (hord : hintOK o.order)
    (hspec : Rules.foldR T v reg = .ok r) (hcost : rcost r ≤ 100000) :
    AgreesWith (impl o T v) r := by
  obtain ⟨_, hI, _⟩ := sound_all o reg (vdepth v + 2)
  -- the specification on the interface value `impl` folds
  unfold Rules.foldR at hspec
  cases htok : typeOk reg T with
  | error e => simp [htok] at hspec
  | ok u =>
  simp only [htok] at hspec
  let i : GoVal := match T.under with | .iface => v | _ => .iface T v
  have hs0 : Inv { failAt := o.failAt, hint := o.order } := ⟨hfail, hord⟩
  have hi : wt .iface i = true ∧ vdepth i ≤ vdepth v + 1 ∧ ∃ m, foldF m reg .iface i = .ok r := by
    by_cases hT : T.under = .iface
    · have : i = v := by
        show (match T.under with | .iface => v | _ => .iface T v) = _
        rw [hT]
      rw [this]
      refine ⟨?_, Nat.le_succ _, 100000, ?_⟩
      · rw [← wt_under hp, hT] at hw; exact hw
      · rw [foldF_under' _ reg hp, hT] at hspec; exact hspec
    · have : i = .iface T v := by
        show (match T.under with | .iface => v | _ => .iface T v) = _
        cases hU : T.under <;> first | rfl | exact absurd hU hT
      rw [this]
      refine ⟨wt_iface_mk hp hdt hw, by rw [vdepth_iface]; omega, 100001, ?_⟩
      show foldF (100000 + 1) reg .iface (.iface T v) = .ok r
      rw [foldF_iface, htok]
      exact hspec
  obtain ⟨hwi, hdi, m, hm⟩ := hi
  obtain ⟨s', xs, g, hout, hadv, henc, hrel⟩ :=
    hI i (by omega) hwi m r hm runFuel (by omega) _ hs0
  rw [impl_eq]
  show AgreesWith { evs := (foldInterfaceValue runFuel o .user i _).1.evs.reverse,
                    res := (foldInterfaceValue runFuel o .user i _).2 } r
  rw [hout]
  refine ⟨rfl, g, ?_, agrees_of_Rel hrel hcost⟩
  have : s'.evs.reverse = xs := by rw [hadv.1]; simp
  simp only [this]
  exact build_of_Enc henc

/-- the same, with every side condition on the INPUTS: `vcost v` (a structural measure of the
value: nesting depth plus, per struct, the number of its nodes, per map its length) bounds the
comparison fuel `rcost r` of whatever the rules give (`FoldCost.rcost_le_vcost`) -/
theorem fold_agrees' (o : FoldOpts) (reg : Bool) (T : GoType) (v : GoVal) (r : RVal)
    (hp : goodT [] T = true) (hdt : tdepth T ≤ dynBound) (hw : wt T v = true)
    (hdv : 3 * vdepth v + 6 ≤ runFuel) (hcost : vcost v ≤ 100000)
    (hfail : o.failAt = none) (hord : hintOK o.order)
    (hspec : Rules.foldR T v reg = .ok r) :
    AgreesWith (impl o T v) r :=
  fold_agrees o reg T v r hp hdt hw hdv hfail hord hspec
    (Nat.le_trans (rcost_le_vcost hp hw hspec) hcost)

/-! ## the stages -/

/-- the side conditions shared by the stages ≥ 2: depths within the fuel of the mirror -/
structure Sized (T : GoType) (v : GoVal) : Prop where
  typ : tdepth T ≤ dynBound
  val : 3 * vdepth v + 6 ≤ runFuel

/-- the visitor never fails; the order oracle mentions no key twice inside one typed map -/
structure Healthy (o : FoldOpts) : Prop where
  noFault : o.failAt = none
  order : hintOK o.order

theorem fold_agrees_stage (k : Nat) (o : FoldOpts) (reg : Bool) (T : GoType) (v : GoVal) (r : RVal)
    (hT : stageT k [] T = true) (hw : wt T v = true) (hsz : Sized T v) (ho : Healthy o)
    (hspec : Rules.foldR T v reg = .ok r) (hcost : rcost r ≤ 100000) :
    AgreesWith (impl o T v) r :=
  fold_agrees o reg T v r (stage_good k T [] hT) hsz.typ hw hsz.val ho.noFault ho.order hspec hcost

theorem stage1_prim {T : GoType} (h : stageT 1 [] T = true) : ∃ p, primOf? T = some p := by
  cases T <;> first | exact ⟨_, rfl⟩ | (simp [stageT] at h)

/-- STAGE 1: scalars of every kind at top level — no side condition on sizes at all -/
theorem fold_agrees_stage1 (o : FoldOpts) (reg : Bool) (T : GoType) (v : GoVal) (r : RVal)
    (hT : stageT 1 [] T = true) (hw : wt T v = true) (ho : Healthy o)
    (hspec : Rules.foldR T v reg = .ok r) : AgreesWith (impl o T v) r := by
  obtain ⟨p, hp⟩ := stage1_prim hT
  have hspec' := hspec
  unfold Rules.foldR at hspec'
  cases htok : typeOk reg T with
  | error e => simp [htok] at hspec'
  | ok u =>
  simp only [htok] at hspec'
  have hd : tdepth T = 0 := by
    cases T <;> first | rfl | (simp [primOf?] at hp)
  have hshape := foldF_prim_inv hp hspec'
  have hv : vdepth v = 0 ∧ rcost r = 1 := by
    rcases hshape with ⟨_, _, rfl, rfl⟩ | ⟨_, _, rfl, rfl⟩ | ⟨_, _, _, rfl, rfl⟩ | ⟨_, _, rfl, rfl⟩ |
      ⟨_, _, rfl, rfl⟩ <;> exact ⟨rfl, rfl⟩
  refine fold_agrees_stage 1 o reg T v r hT hw ⟨by rw [hd]; exact Nat.zero_le _, ?_⟩ ho hspec (by omega)
  rw [hv.1]; decide

/- non-vacuity of stage 1: a float32 holding a SIGNALLING NaN (the reflection path quiets it;
the rules count any NaN as the same number) -/
example : stageT 1 [] .float32 = true ∧ wt .float32 (.f32 0x7fa00000) = true ∧
    Rules.foldR .float32 (.f32 0x7fa00000) = .ok (.f32 0x7fa00000) :=
  ⟨by decide +kernel, by decide +kernel, rfl⟩
example : AgreesWith (impl {} .float32 (.f32 0x7fa00000)) (.f32 0x7fa00000) :=
  fold_agrees_stage1 {} true _ _ _ (by decide +kernel) (by decide +kernel) ⟨rfl, hintOK_nil⟩ rfl

/-- STAGE 2: + slices / arrays (typed-array fast paths included), maps with string keys (any
iteration order), pointers, interfaces holding such values -/
theorem fold_agrees_stage2 (o : FoldOpts) (reg : Bool) (T : GoType) (v : GoVal) (r : RVal)
    (hT : stageT 2 [] T = true) (hw : wt T v = true) (hsz : Sized T v) (ho : Healthy o)
    (hspec : Rules.foldR T v reg = .ok r) (hcost : rcost r ≤ 100000) :
    AgreesWith (impl o T v) r := fold_agrees_stage 2 o reg T v r hT hw hsz ho hspec hcost

/- non-vacuity of stage 2: `map[string][]*int32{"a": {nil, &5}, "b": nil}` with an order oracle
that asks for "b" first, and `[]interface{}{int8(1), []string{"x"}, nil}` (typed-array fast
path inside the interface fast path) -/
example :
    let T : GoType := .map .string (.slice (.ptr (.int .i32)))
    let v : GoVal := .map [(.str [97], .slice [.nilPtr, .ptr (.int 5)]), (.str [98], .nilSlice)]
    let r : RVal := .obj [(true, [([97], .arr [.null, .int 5]), ([98], .arr [])])]
    let o : FoldOpts := { order := [.ev (.objStart 2 0), .ev (.key [98])] }
    stageT 2 [] T = true ∧ wt T v = true ∧ tdepth T ≤ dynBound ∧ 3 * vdepth v + 6 ≤ runFuel ∧
      Rules.foldR T v = .ok r ∧ rcost r ≤ 100000 ∧ AgreesWith (impl o T v) r := by
  intro T v r o
  have h1 : stageT 2 [] T = true := by decide +kernel
  have h2 : wt T v = true := by decide +kernel
  have h3 : tdepth T ≤ dynBound := by decide +kernel
  have h4 : 3 * vdepth v + 6 ≤ runFuel := by decide +kernel
  have h5 : Rules.foldR T v = .ok r := rfl
  have h6 : rcost r ≤ 100000 := by decide +kernel
  have ho : Healthy o := ⟨rfl, by intro x hx ks hk; simp [o] at hx; rcases hx with rfl | rfl <;> simp [objKeys] at hk⟩
  exact ⟨h1, h2, h3, h4, h5, h6, fold_agrees_stage2 o true T v r h1 h2 ⟨h3, h4⟩ ho h5 h6⟩
example :
    let T : GoType := .slice .iface
    let v : GoVal := .slice [.iface (.int .i8) (.int 1), .iface (.slice .string) (.slice [.str [120]]), .nilIface]
    let r : RVal := .arr [.int 1, .arr [.str [120]], .null]
    stageT 2 [] T = true ∧ wt T v = true ∧ Rules.foldR T v = .ok r ∧ AgreesWith (impl {} T v) r := by
  intro T v r
  have h1 : stageT 2 [] T = true := by decide +kernel
  have h2 : wt T v = true := by decide +kernel
  have h5 : Rules.foldR T v = .ok r := rfl
  exact ⟨h1, h2, h5, fold_agrees_stage2 {} true T v r h1 h2 ⟨by decide +kernel, by decide +kernel⟩
    ⟨rfl, hintOK_nil⟩ h5 (by decide +kernel)⟩

/-- STAGE 3: + structs whose fields carry a tag name or no tag (member name = tag name or
lower-cased field name), unexported fields, `-`, `omit` -/
theorem fold_agrees_stage3 (o : FoldOpts) (reg : Bool) (T : GoType) (v : GoVal) (r : RVal)
    (hT : stageT 3 [] T = true) (hw : wt T v = true) (hsz : Sized T v) (ho : Healthy o)
    (hspec : Rules.foldR T v reg = .ok r) (hcost : rcost r ≤ 100000) :
    AgreesWith (impl o T v) r := fold_agrees_stage 3 o reg T v r hT hw hsz ho hspec hcost

/- non-vacuity of stage 3: `struct{A int; b string}{5, "x"}` ↦ `{"a": 5}` (tag strings are parsed
in `FoldExamples`; the kernel cannot run `String.splitOn`) -/
example : stageT 3 [] Examples.T3 = true ∧ wt Examples.T3 Examples.v3 = true ∧
    Rules.foldR Examples.T3 Examples.v3 = .ok Examples.r3 ∧
    AgreesWith (impl {} Examples.T3 Examples.v3) Examples.r3 :=
  ⟨Examples.stage3, Examples.wt3, Examples.spec3,
   fold_agrees_stage3 {} true _ _ _ Examples.stage3 Examples.wt3
     ⟨by decide +kernel, by decide +kernel⟩ ⟨rfl, hintOK_nil⟩ Examples.spec3 (by decide +kernel)⟩

/-- STAGE 4: + `omitempty` -/
theorem fold_agrees_stage4 (o : FoldOpts) (reg : Bool) (T : GoType) (v : GoVal) (r : RVal)
    (hT : stageT 4 [] T = true) (hw : wt T v = true) (hsz : Sized T v) (ho : Healthy o)
    (hspec : Rules.foldR T v reg = .ok r) (hcost : rcost r ≤ 100000) :
    AgreesWith (impl o T v) r := fold_agrees_stage 4 o reg T v r hT hw hsz ho hspec hcost

/- non-vacuity of stage 4: `struct{A int; b string; C []string "n,omitempty"}` with `C` nil
(dropped) and with `C = {"y"}` (kept) -/
example : stageT 4 [] Examples.T4 = true ∧ wt Examples.T4 Examples.v4 = true ∧
    Rules.foldR Examples.T4 Examples.v4 = .ok Examples.r4 ∧
    AgreesWith (impl {} Examples.T4 Examples.v4) Examples.r4 :=
  ⟨Examples.stage4, Examples.wt4, Examples.spec4,
   fold_agrees_stage4 {} true _ _ _ Examples.stage4 Examples.wt4
     ⟨by decide +kernel, by decide +kernel⟩ ⟨rfl, hintOK_nil⟩ Examples.spec4 (by decide +kernel)⟩
example : wt Examples.T4 Examples.v4' = true ∧ Rules.foldR Examples.T4 Examples.v4' = .ok Examples.r4' ∧
    AgreesWith (impl {} Examples.T4 Examples.v4') Examples.r4' :=
  ⟨Examples.wt4', Examples.spec4',
   fold_agrees_stage4 {} true _ _ _ Examples.stage4 Examples.wt4'
     ⟨by decide +kernel, by decide +kernel⟩ ⟨rfl, hintOK_nil⟩ Examples.spec4' (by decide +kernel)⟩
/- … and an `omitempty` INTERFACE field (the lazy resolver):
`struct{A int; E interface{} "n,omitempty"}` with `E = (*[]string)(&[]string{})` (dropped: empty
behind the interface and the pointer) and with `E = []string{"y"}` (kept) -/
example : stageT 4 [] Examples.T4i = true ∧ wt Examples.T4i Examples.v4i = true ∧
    Rules.foldR Examples.T4i Examples.v4i = .ok Examples.r4i ∧
    AgreesWith (impl {} Examples.T4i Examples.v4i) Examples.r4i :=
  ⟨Examples.stage4i, Examples.wt4i, Examples.spec4i,
   fold_agrees_stage4 {} true _ _ _ Examples.stage4i Examples.wt4i
     ⟨by decide +kernel, by decide +kernel⟩ ⟨rfl, hintOK_nil⟩ Examples.spec4i (by decide +kernel)⟩
example : wt Examples.T4i Examples.v4i' = true ∧ Rules.foldR Examples.T4i Examples.v4i' = .ok Examples.r4i' ∧
    AgreesWith (impl {} Examples.T4i Examples.v4i') Examples.r4i' :=
  ⟨Examples.wt4i', Examples.spec4i',
   fold_agrees_stage4 {} true _ _ _ Examples.stage4i Examples.wt4i'
     ⟨by decide +kernel, by decide +kernel⟩ ⟨rfl, hintOK_nil⟩ Examples.spec4i' (by decide +kernel)⟩

/-- STAGE 5: + `inline` / `squash` -/
theorem fold_agrees_stage5 (o : FoldOpts) (reg : Bool) (T : GoType) (v : GoVal) (r : RVal)
    (hT : stageT 5 [] T = true) (hw : wt T v = true) (hsz : Sized T v) (ho : Healthy o)
    (hspec : Rules.foldR T v reg = .ok r) (hcost : rcost r ≤ 100000) :
    AgreesWith (impl o T v) r := fold_agrees_stage 5 o reg T v r hT hw hsz ho hspec hcost

/- non-vacuity of stage 5:
`struct{A int; b string; C []string "n,omitempty"; D *struct{X bool} ",inline"}{5, "x", nil, &{true}}`
↦ `{"a": 5, "x": true}` -/
example : stageT 5 [] Examples.T5 = true ∧ wt Examples.T5 Examples.v5 = true ∧
    Rules.foldR Examples.T5 Examples.v5 = .ok Examples.r5 ∧
    AgreesWith (impl {} Examples.T5 Examples.v5) Examples.r5 :=
  ⟨Examples.stage5, Examples.wt5, Examples.spec5,
   fold_agrees_stage5 {} true _ _ _ Examples.stage5 Examples.wt5
     ⟨by decide +kernel, by decide +kernel⟩ ⟨rfl, hintOK_nil⟩ Examples.spec5 (by decide +kernel)⟩

/-- STAGE 6: + named types (no methods, no registered folder, not recursive) -/
theorem fold_agrees_stage6 (o : FoldOpts) (reg : Bool) (T : GoType) (v : GoVal) (r : RVal)
    (hT : stageT 6 [] T = true) (hw : wt T v = true) (hsz : Sized T v) (ho : Healthy o)
    (hspec : Rules.foldR T v reg = .ok r) (hcost : rcost r ≤ 100000) :
    AgreesWith (impl o T v) r := fold_agrees_stage 6 o reg T v r hT hw hsz ho hspec hcost

/- non-vacuity of stage 6: `type NMapP map[NStr]*NInts` with `type NStr string`, `type NInts []int`,
`NMapP{"k": &NInts{1, 2}}` (a named slice takes no typed-array fast path: element events) -/
example :
    let T : GoType := .named "NMapP" {} (.map (.named "NStr" {} .string) (.ptr (.named "NInts" {} (.slice (.int .int)))))
    let v : GoVal := .map [(.str [107], .ptr (.slice [.int 1, .int 2]))]
    let r : RVal := .obj [(true, [([107], .arr [.int 1, .int 2])])]
    stageT 6 [] T = true ∧ wt T v = true ∧ Rules.foldR T v = .ok r ∧ AgreesWith (impl {} T v) r := by
  intro T v r
  have h1 : stageT 6 [] T = true := by decide +kernel
  have h2 : wt T v = true := by decide +kernel
  have h5 : Rules.foldR T v = .ok r := rfl
  exact ⟨h1, h2, h5, fold_agrees_stage6 {} true T v r h1 h2 ⟨by decide +kernel, by decide +kernel⟩
    ⟨rfl, hintOK_nil⟩ h5 (by decide +kernel)⟩

/-! ## the error direction -/

theorem iface_typeOk {reg : Bool} {T : GoType} (hg : goodT [] T = true) (hu : T.under = .iface) :
    typeOk reg T = .ok () := by
  unfold typeOk
  rcases headKind hg with h | ⟨nm, m, u, rfl⟩
  · rw [under_unnamed h] at hu
    subst hu
    rfl
  · rw [typeOkF_named 999 reg [] hg (fun _ hx => by cases hx)]
    simp only [GoType.under] at hu
    subst hu
    rfl

/-- ERROR DIRECTION (good types).  If the rules REFUSE the value (`Rules.foldR … = .error e`:
an unsupported kind anywhere in the static type or in a dynamic type that is reached, a map
key type that is no string kind, `inline` together with `omitempty`, `inline` on something
that is no object) — and not merely because the specification ran out of its own fuel
(`e ≠ .fuel`; `.userCode` cannot occur on good types) — then the mirror returns a Go error:
never `ok`, never a panic, never fuel exhaustion.  Side conditions as in `fold_agrees`, with
the tighter depth bound 332 on the types (`typeOk` spends 3 units of its fuel 1000 per level;
`dynSmall`: the same bound for the dynamic types inside `v`). -/
theorem fold_refuses (o : FoldOpts) (reg : Bool) (T : GoType) (v : GoVal) (e : RuleErr)
    (hp : goodT [] T = true) (hdt : tdepth T ≤ specDynBound) (hw : wt T v = true)
    (hsm : dynSmall v = true) (hdv : 3 * vdepth v + 6 ≤ runFuel)
    (hfail : o.failAt = none) (hord : hintOK o.order)
    (hspec : Rules.foldR T v reg = .error e) (hne : e ≠ .fuel) :
    ∃ e', (impl o T v).res = .err e' := by
  obtain ⟨_, hI, _⟩ := err_all o reg (vdepth v + 2)
  have hdt' : tdepth T ≤ dynBound := by unfold specDynBound at hdt; unfold dynBound; omega
  have hs0 : Inv { failAt := o.failAt, hint := o.order } := ⟨hfail, hord⟩
  let i : GoVal := match T.under with | .iface => v | _ => .iface T v
  have hi : wt .iface i = true ∧ dynSmall i = true ∧ vdepth i ≤ vdepth v + 1 ∧
      ∃ m, 3 * vdepth i + 1 ≤ m ∧ foldF m reg .iface i = .error e := by
    by_cases hT : T.under = .iface
    · have : i = v := by
        show (match T.under with | .iface => v | _ => .iface T v) = _
        rw [hT]
      rw [this]
      unfold Rules.foldR at hspec
      rw [iface_typeOk hp hT] at hspec
      simp only [] at hspec
      refine ⟨?_, hsm, Nat.le_succ _, 100000, by unfold runFuel at hdv; omega, ?_⟩
      · rw [← wt_under hp, hT] at hw; exact hw
      · rw [foldF_under' _ reg hp, hT] at hspec; exact hspec
    · have : i = .iface T v := by
        show (match T.under with | .iface => v | _ => .iface T v) = _
        cases hU : T.under <;> first | rfl | exact absurd hU hT
      rw [this]
      refine ⟨wt_iface_mk hp hdt' hw, ?_, by rw [vdepth_iface]; omega, 100001,
        by rw [vdepth_iface]; unfold runFuel at hdv; omega, ?_⟩
      · simp only [dynSmall, Bool.and_eq_true, decide_eq_true_eq]
        exact ⟨hdt, hsm⟩
      · show foldF (100000 + 1) reg .iface (.iface T v) = .error e
        rw [foldF_iface]
        unfold Rules.foldR at hspec
        exact hspec
  obtain ⟨hwi, hsmi, hdi, m, hm, hfm⟩ := hi
  obtain ⟨s', e', hout⟩ := hI i (by omega) hwi hsmi m e hm hfm hne runFuel (by omega) _ hs0
  rw [impl_eq]
  show ∃ e', (foldInterfaceValue runFuel o .user i _).2 = .err e'
  dsimp only at hout
  rw [hout]
  exact ⟨e', rfl⟩

/- non-vacuity of the error direction: a channel inside a dynamic type
(`[]interface{}{1, (chan int)(nil)}`: the static type is fine, the rules refuse the second
element), and a refused static type (`struct{a int; C map[int]string}`… here without tags:
`map[int8]string`) -/
example :
    let T : GoType := .slice .iface
    let v : GoVal := .slice [.iface (.int .int) (.int 1), .iface (.chan (.int .int)) .nilOther]
    goodT [] T = true ∧ wt T v = true ∧ dynSmall v = true ∧
      Rules.foldR T v = .error .unsupported ∧ ∃ e', (impl {} T v).res = .err e' := by
  intro T v
  have h1 : goodT [] T = true := by decide +kernel
  have h2 : wt T v = true := by decide +kernel
  have h3 : dynSmall v = true := by decide +kernel
  have h4 : Rules.foldR T v = .error .unsupported := rfl
  exact ⟨h1, h2, h3, h4, fold_refuses {} true T v _ h1 (by decide +kernel) h2 h3 (by decide +kernel) rfl
    hintOK_nil h4 (by decide)⟩
example :
    let T : GoType := .ptr (.map (.int .i8) .string)
    let v : GoVal := .nilPtr
    Rules.foldR T v = .error .nonStringKey ∧ ∃ e', (impl {} T v).res = .err e' := by
  intro T v
  have h4 : Rules.foldR T v = .error .nonStringKey := rfl
  exact ⟨h4, fold_refuses {} true T v _ (by decide +kernel) (by decide +kernel) (by decide +kernel)
    (by decide +kernel) (by decide +kernel) rfl hintOK_nil h4 (by decide)⟩

/-- both directions at once: on the universe, the mirror's verdict is the rules' verdict -/
theorem fold_total (o : FoldOpts) (reg : Bool) (T : GoType) (v : GoVal)
    (hp : goodT [] T = true) (hdt : tdepth T ≤ specDynBound) (hw : wt T v = true)
    (hsm : dynSmall v = true) (hdv : 3 * vdepth v + 6 ≤ runFuel) (hcost : vcost v ≤ 100000)
    (hfail : o.failAt = none) (hord : hintOK o.order) :
    match Rules.foldR T v reg with
    | .ok r => AgreesWith (impl o T v) r
    | .error e => e = .fuel ∨ ∃ e', (impl o T v).res = .err e' := by
  cases hspec : Rules.foldR T v reg with
  | ok r =>
    exact fold_agrees' o reg T v r hp (by unfold specDynBound at hdt; unfold dynBound; omega) hw hdv hcost
      hfail hord hspec
  | error e =>
    by_cases he : e = .fuel
    · exact Or.inl he
    · exact Or.inr (fold_refuses o reg T v e hp hdt hw hsm hdv hfail hord hspec he)

/-! ## recursive types (stage 6, second half) -/

/-- MAIN THEOREM (recursive types).  `ns`: menagerie members, declared there as good named
types of depth < `D` that the rules accept locally (`MenOK`); `FuelOK`: the mirror's compile
fuel covers `ns` and `D`.  For every type `T` that is good over `ns` (`goodR`: unnamed
constructs, references to members, members written out as the menagerie declares them) of
depth ≤ `D`, every value `v` of type `T` (`wtR`; dynamic types again good over `ns`, of depth
≤ `D`) of depth ≤ 24998, every healthy visitor / order oracle: if the rules give `r`, the
mirror returns `ok` and its events build a value that `Rules.agrees` accepts for `r`. -/
theorem fold_agrees_rec {ns : List String} {D : Nat} (hM : FoldRec.MenOK ns D) (hD : D ≤ 1000)
    (hfuel : FoldRec.FuelOK ns D)
    (o : FoldOpts) (reg : Bool) (T : GoType) (v : GoVal) (r : RVal)
    (hp : FoldRec.goodR ns T = true) (hdt : tdepth T ≤ D) (hw : FoldRec.wtR ns D T v = true)
    (hdv : 4 * vdepth v + 8 ≤ runFuel) (ho : Healthy o)
    (hspec : Rules.foldR T v reg = .ok r) (hcost : rcost r ≤ 100000) :
    AgreesWith (impl o T v) r := by
  obtain ⟨_, hI, _⟩ := FoldRec.sound_allR hM o reg hD hfuel (vdepth v + 2)
  unfold Rules.foldR at hspec
  cases htok : typeOk reg T with
  | error e => simp [htok] at hspec
  | ok u =>
  simp only [htok] at hspec
  let i : GoVal := match T.under with | .iface => v | _ => .iface T v
  have hs0 : Inv { failAt := o.failAt, hint := o.order } := ⟨ho.noFault, ho.order⟩
  have hi : FoldRec.wtR ns D .iface i = true ∧ vdepth i ≤ vdepth v + 1 ∧ ∃ m, foldF m reg .iface i = .ok r := by
    by_cases hT : T.under = .iface
    · have : i = v := by
        show (match T.under with | .iface => v | _ => .iface T v) = _
        rw [hT]
      rw [this]
      refine ⟨?_, Nat.le_succ _, 100000, ?_⟩
      · rw [← FoldRec.wtR_under hM hp, hT] at hw; exact hw
      · rw [FoldRec.foldF_underR' hM _ reg hp, hT] at hspec; exact hspec
    · have : i = .iface T v := by
        show (match T.under with | .iface => v | _ => .iface T v) = _
        cases hU : T.under <;> first | rfl | exact absurd hU hT
      rw [this]
      refine ⟨FoldRec.wtR_iface_mk hp hdt hw, by rw [vdepth_iface]; omega, 100001, ?_⟩
      show foldF (100000 + 1) reg .iface (.iface T v) = .ok r
      rw [foldF_iface, htok]
      exact hspec
  obtain ⟨hwi, hdi, m, hm⟩ := hi
  obtain ⟨s', xs, g, hout, hadv, henc, hrel⟩ :=
    hI i (by omega) hwi m r hm runFuel (by omega) _ hs0
  rw [impl_eq]
  show AgreesWith { evs := (foldInterfaceValue runFuel o .user i _).1.evs.reverse,
                    res := (foldInterfaceValue runFuel o .user i _).2 } r
  rw [hout]
  refine ⟨rfl, g, ?_, agrees_of_Rel hrel hcost⟩
  have : s'.evs.reverse = xs := by rw [hadv.1]; simp
  simp only [this]
  exact build_of_Enc henc


/-- non-vacuity: the linked list `N{1, &N{2, nil}}`, its type given by reference -/
example : FoldRec.MenOK ["N"] 3 ∧ FoldRec.FuelOK ["N"] 3 ∧ FoldRec.goodR ["N"] (.ref "N") = true ∧ FoldRec.wtR ["N"] 3 (.ref "N") FoldRec.Examples.vN = true ∧
    Rules.foldR (.ref "N") FoldRec.Examples.vN = .ok FoldRec.Examples.rN ∧ AgreesWith (impl {} (.ref "N") FoldRec.Examples.vN) FoldRec.Examples.rN :=
  ⟨FoldRec.Examples.menN, FoldRec.Examples.fuelN, by decide +kernel, FoldRec.Examples.wtN, FoldRec.Examples.specN,
   fold_agrees_rec FoldRec.Examples.menN (by decide) FoldRec.Examples.fuelN {} true _ _ _ (by decide +kernel) (by decide +kernel) FoldRec.Examples.wtN
     (by decide +kernel) ⟨rfl, hintOK_nil⟩ FoldRec.Examples.specN (by decide +kernel)⟩


/- the same with the type as the type parser writes it: `N`'s own declaration -/
example : FoldRec.goodR ["N"] FoldRec.Examples.TN = true ∧ FoldRec.wtR ["N"] 3 FoldRec.Examples.TN FoldRec.Examples.vN = true ∧ Rules.foldR FoldRec.Examples.TN FoldRec.Examples.vN = .ok FoldRec.Examples.rN ∧
    AgreesWith (impl {} FoldRec.Examples.TN FoldRec.Examples.vN) FoldRec.Examples.rN :=
  ⟨FoldRec.Examples.goodTN, FoldRec.Examples.wtTN, FoldRec.Examples.specTN,
   fold_agrees_rec FoldRec.Examples.menN (by decide) FoldRec.Examples.fuelN {} true _ _ _ FoldRec.Examples.goodTN (by decide +kernel) FoldRec.Examples.wtTN
     (by decide +kernel) ⟨rfl, hintOK_nil⟩ FoldRec.Examples.specTN (by decide +kernel)⟩


/-! ## the side condition on the order oracle is necessary

`FoldOpts.order` is the mirror's oracle for Go's map iteration order.  For a typed map
(`OnInt64Object` …) the mirror reorders the members like the keys of the observed event
(`reorderByHint` / `orderLike`); an oracle that lists a key TWICE there makes `orderLike`
deliver that member twice, and the agreement fails.  `hintOK` excludes exactly this. -/
example :
    let T : GoType := .map .string (.int .int)
    let v : GoVal := .map [(.str [1], .int 1), (.str [2], .int 2)]
    let o : FoldOpts := { order := [.numObj .int [([1], 0), ([1], 0)]] }
    Rules.foldR T v = .ok (.obj [(true, [([1], .int 1), ([2], .int 2)])]) ∧
    (impl o T v).evs = [.numObj .int [([1], 1), ([1], 1), ([2], 2)]] ∧
    (match build (expandAll (impl o T v).evs) with
     | some g => Rules.agrees (.obj [(true, [([1], .int 1), ([2], .int 2)])]) g
     | none => false) = false :=
  ⟨rfl, by decide +kernel, by decide +kernel⟩

end SF.FoldProofs
