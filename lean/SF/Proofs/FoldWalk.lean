/-
  Typed values: inversion of `wt`, depth of sub-values, and following pointers
  (`ptrWalk` in the mirror, the `.ptr` cases of `foldF` in the specification).
-/
import SF.Proofs.FoldSpec
import SF.Proofs.FoldCompile
namespace SF.FoldProofs
open SF SF.Gotype SF.Gotype.Fold SF.Gotype.Rules

/-! ## inversion of `wt` -/

theorem wt_slice_inv {T e : GoType} {v : GoVal} (hu : T.under = .slice e) (h : wt T v = true) :
    v = .nilSlice ∨ ∃ xs, v = .slice xs ∧ wtL e xs = true := by
  unfold wt at h
  rw [hu] at h
  cases v <;> simp at h ⊢ <;> exact h

theorem wt_array_inv {T : GoType} {n : Nat} {e : GoType} {v : GoVal} (hu : T.under = .array n e)
    (h : wt T v = true) : ∃ xs, v = .array xs ∧ wtL e xs = true := by
  unfold wt at h
  rw [hu] at h
  cases v <;> simp at h ⊢ <;> exact h

theorem wt_map_inv {T k e : GoType} {v : GoVal} (hu : T.under = .map k e) (h : wt T v = true) :
    v = .nilMap ∨ ∃ ms, v = .map ms ∧ wtP k e ms = true ∧ (mapKeys ms).Nodup := by
  unfold wt at h
  rw [hu] at h
  cases v <;> simp at h ⊢ <;> exact h

theorem wt_ptr_inv {T e : GoType} {v : GoVal} (hu : T.under = .ptr e) (h : wt T v = true) :
    v = .nilPtr ∨ ∃ x, v = .ptr x ∧ wt e x = true := by
  unfold wt at h
  rw [hu] at h
  cases v <;> simp at h ⊢ <;> exact h

theorem wt_iface_inv {T : GoType} {v : GoVal} (hu : T.under = .iface) (h : wt T v = true) :
    v = .nilIface ∨ ∃ dt dv, v = .iface dt dv ∧ goodT [] dt = true ∧ tdepth dt ≤ dynBound ∧ wt dt dv = true := by
  unfold wt at h
  rw [hu] at h
  cases v <;> simp at h ⊢
  rename_i t x
  exact ⟨t, x, ⟨rfl, rfl⟩, h.1.1, h.1.2, h.2⟩

theorem wt_struct_inv {T : GoType} {fs : List Field} {v : GoVal} (hu : T.under = .struct fs)
    (h : wt T v = true) : ∃ vs, v = .struct vs ∧ wtF fs vs = true := by
  unfold wt at h
  rw [hu] at h
  cases v <;> simp at h ⊢ <;> exact h

theorem wt_iface_mk {dt : GoType} {dv : GoVal} (hg : goodT [] dt = true) (hd : tdepth dt ≤ dynBound)
    (hw : wt dt dv = true) : wt .iface (.iface dt dv) = true := by
  unfold wt
  simp [GoType.under, hg, hd, hw]

theorem wtL_mem {e : GoType} {xs : List GoVal} (h : wtL e xs = true) {x : GoVal} (hx : x ∈ xs) :
    wt e x = true := by
  induction xs with
  | nil => cases hx
  | cons a l ih =>
    simp only [wtL, Bool.and_eq_true] at h
    rcases List.mem_cons.mp hx with rfl | hx'
    · exact h.1
    · exact ih h.2 hx'

theorem wtP_mem {k e : GoType} {ms : List (GoVal × GoVal)} (h : wtP k e ms = true)
    {kx : GoVal × GoVal} (hx : kx ∈ ms) : wt e kx.2 = true := by
  induction ms with
  | nil => cases hx
  | cons a l ih =>
    obtain ⟨ak, ax⟩ := a
    simp only [wtP, Bool.and_eq_true] at h
    rcases List.mem_cons.mp hx with rfl | hx'
    · exact h.1.2
    · exact ih h.2 hx'

theorem wtF_length {fs : List Field} {vs : List GoVal} (h : wtF fs vs = true) : fs.length = vs.length := by
  induction fs generalizing vs with
  | nil => cases vs <;> simp_all [wtF]
  | cons f fs ih =>
    cases vs with
    | nil => simp [wtF] at h
    | cons v vs =>
      simp only [wtF, Bool.and_eq_true] at h
      simp [ih h.2]

/-! ## depth of sub-values -/

theorem vdepthL_mem {xs : List GoVal} {x : GoVal} (hx : x ∈ xs) : vdepth x ≤ vdepthL xs := by
  induction xs with
  | nil => cases hx
  | cons a l ih =>
    simp only [vdepthL]
    rcases List.mem_cons.mp hx with rfl | hx'
    · exact Nat.le_max_left _ _
    · exact Nat.le_trans (ih hx') (Nat.le_max_right _ _)

theorem vdepthP_mem {ms : List (GoVal × GoVal)} {kx : GoVal × GoVal} (hx : kx ∈ ms) :
    vdepth kx.2 ≤ vdepthP ms := by
  induction ms with
  | nil => cases hx
  | cons a l ih =>
    obtain ⟨ak, ax⟩ := a
    simp only [vdepthP]
    rcases List.mem_cons.mp hx with rfl | hx'
    · simp only []; omega
    · have := ih hx'; omega

theorem vdepth_slice (xs : List GoVal) : vdepth (.slice xs) = vdepthL xs + 1 := rfl
theorem vdepth_array (xs : List GoVal) : vdepth (.array xs) = vdepthL xs + 1 := rfl
theorem vdepth_struct (xs : List GoVal) : vdepth (.struct xs) = vdepthL xs + 1 := rfl
theorem vdepth_map (ms : List (GoVal × GoVal)) : vdepth (.map ms) = vdepthP ms + 1 := rfl
theorem vdepth_ptr (x : GoVal) : vdepth (.ptr x) = vdepth x + 1 := rfl
theorem vdepth_iface (t : GoType) (x : GoVal) : vdepth (.iface t x) = vdepth x + 1 := rfl

/-! ## following pointers -/

/-- follow `n` pointers; `none` = a nil pointer on the way -/
def deref : Nat → GoVal → Option GoVal
  | 0, v => some v
  | n + 1, .ptr x => deref n x
  | _ + 1, _ => none

theorem good_elem_of_ptr {sn : List String} {T e : GoType} (hg : goodT sn T = true) (hu : T.under = .ptr e) :
    goodT (snU sn T) e = true := by
  have := (good_under hg).1
  rw [hu] at this
  simpa [goodT] using this

theorem headKind {sn : List String} {T : GoType} (hg : goodT sn T = true) :
    unnamedHead T = true ∨ ∃ n m u, T = .named n m u := by
  cases T <;> simp_all [unnamedHead, goodT]

/-- induction along the pointer chain of a good type -/
theorem strip_induction (P : List String → GoType → Prop)
    (base : ∀ sn T, goodT sn T = true → (∀ e, T.under ≠ .ptr e) → stripPtr T = (0, T) → P sn T)
    (step : ∀ sn T e, goodT sn T = true → T.under = .ptr e → goodT (snU sn T) e = true →
      stripPtr T = ((stripPtr e).1 + 1, (stripPtr e).2) → P (snU sn T) e → P sn T) :
    ∀ sn T, goodT sn T = true → P sn T := by
  have key : ∀ n sn T, goodT sn T = true → (stripPtr T).1 = n → P sn T := by
    intro n
    induction n with
    | zero =>
      intro sn T hg h0
      by_cases hp : ∃ e, T.under = .ptr e
      · obtain ⟨e, he⟩ := hp
        rw [stripPtr_of_under_ptr he (headKind hg)] at h0
        simp at h0
      · have hnp : ∀ e, T.under ≠ .ptr e := fun e he => hp ⟨e, he⟩
        exact base sn T hg hnp (stripPtr_of_under_nonptr hg hnp)
    | succ n ih =>
      intro sn T hg hn
      by_cases hp : ∃ e, T.under = .ptr e
      · obtain ⟨e, he⟩ := hp
        have hs := stripPtr_of_under_ptr he (headKind hg)
        have hge := good_elem_of_ptr hg he
        rw [hs] at hn
        exact step sn T e hg he hge hs (ih _ e hge (by simpa using hn))
      · have hnp : ∀ e, T.under ≠ .ptr e := fun e he => hp ⟨e, he⟩
        rw [stripPtr_of_under_nonptr hg hnp] at hn
        simp at hn
  intro sn T hg
  exact key _ sn T hg rfl

theorem ptrWalk_succ_ptr (n : Nat) {T e : GoType} (x : GoVal) (hu : T.under = .ptr e) :
    ptrWalk (n + 1) ⟨T, .ptr x⟩ = ptrWalk n ⟨e, x⟩ := by
  simp only [ptrWalk, elem_of_under.2.2.2.1 e hu]

theorem ptrWalk_good : ∀ (sn : List String) (T : GoType), goodT sn T = true → ∀ v, wt T v = true →
    ptrWalk (stripPtr T).1 ⟨T, v⟩ =
      match deref (stripPtr T).1 v with
      | none => .nil
      | some x => .val ⟨(stripPtr T).2, x⟩ := by
  refine strip_induction _ ?_ ?_
  · intro sn T _ _ hs v _
    rw [hs]; rfl
  · intro sn T e _ hu _ hs ih v hw
    rw [hs]
    rcases wt_ptr_inv hu hw with rfl | ⟨x, rfl, hx⟩
    · rfl
    · simp only [deref, ptrWalk_succ_ptr _ x hu]
      exact ih x hx

theorem deref_wt : ∀ (sn : List String) (T : GoType), goodT sn T = true → ∀ v x, wt T v = true →
    deref (stripPtr T).1 v = some x →
    wt (stripPtr T).2 x = true ∧ vdepth x + (stripPtr T).1 = vdepth v := by
  refine strip_induction _ ?_ ?_
  · intro sn T _ _ hs v x hw hd
    rw [hs] at hd ⊢
    simp only [deref, Option.some.injEq] at hd
    subst hd
    exact ⟨hw, rfl⟩
  · intro sn T e _ hu _ hs ih v x hw hd
    rw [hs] at hd ⊢
    rcases wt_ptr_inv hu hw with rfl | ⟨y, rfl, hy⟩
    · simp [deref] at hd
    · simp only [deref] at hd
      obtain ⟨h1, h2⟩ := ih y x hy hd
      exact ⟨h1, by rw [vdepth_ptr]; simp only []; omega⟩

/-- the specification follows pointers: nil ↦ null, else the value of the target -/
theorem foldF_deref (reg : Bool) : ∀ (sn : List String) (T : GoType), goodT sn T = true →
    ∀ v m r, wt T v = true → foldF m reg T v = .ok r →
    match deref (stripPtr T).1 v with
    | none => r = .null
    | some x => ∃ m', foldF m' reg (stripPtr T).2 x = .ok r := by
  refine strip_induction _ ?_ ?_
  · intro sn T _ _ hs v m r _ h
    rw [hs]
    exact ⟨m, h⟩
  · intro sn T e hg hu hge hs ih v m r hw h
    rw [hs]
    cases m with
    | zero => simp [foldF] at h
    | succ m =>
      rw [foldF_under m reg hg, hu] at h
      rcases wt_ptr_inv hu hw with rfl | ⟨y, rfl, hy⟩
      · rw [foldF_ptr_nil _ _ _ (customOf_good reg hge)] at h
        cases h
        rfl
      · rw [foldF_ptr] at h
        simp only [deref]
        exact ih y m r hy h

end SF.FoldProofs
