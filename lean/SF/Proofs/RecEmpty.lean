/-
  `omitempty` and `inline` on good types over menagerie members (cf. `FoldEmpty`).
-/
import SF.Proofs.RecSpec
import SF.Proofs.FoldEmpty
namespace SF.FoldRec
open SF SF.Gotype SF.Gotype.Fold SF.Gotype.Rules SF.FoldProofs

section
variable {ns : List String} {D : Nat} (hM : MenOK ns D)
include hM

theorem isEmptyF_baseR (f : Nat) {T : GoType} (hp : goodR ns T = true)
    (hni : isIfaceT T = false) (hnp : ∀ e, T.under ≠ .ptr e) (v : GoVal) :
    isEmptyF (f + 1) T v = sizedEmpty T v := by
  unfold isEmptyF sizedEmpty
  rw [hasIsZero_goodR hM hp]
  have hgu := (good_underR hM hp).2
  unfold isIfaceT at hni
  generalize T.under = U at hni hnp hgu
  cases U <;> first
    | (simp [unnamedHead] at hgu; done)
    | (simp at hni; done)
    | (exact absurd rfl (hnp _))
    | (cases v <;> simp)

theorem isEmptyF_deref_noneR : ∀ (T : GoType), goodR ns T = true → ∀ v fe, wtR ns D T v = true →
    deref (stripPtr T).1 v = none → vdepth v + 2 ≤ fe → isEmptyF fe T v = true := by
  refine strip_inductionR hM _ ?_ ?_
  · intro T _ _ hs v fe _ hn _
    rw [hs] at hn
    simp [deref] at hn
  · intro T e _ hu _ hs ih v fe hw hn hfe
    rw [hs] at hn
    obtain ⟨fe', rfl⟩ : ∃ fe', fe = fe' + 1 := ⟨fe - 1, by omega⟩
    rcases wtR_ptr_inv hu hw with rfl | ⟨y, rfl, hy⟩
    · exact isEmptyF_ptr_nil fe' hu
    · rw [isEmptyF_ptr fe' hu]
      simp only [deref] at hn
      rw [vdepth_ptr] at hfe
      exact ih y fe' hy hn (by omega)

theorem isPtrKind_goodR {t : GoType} (hp : goodR ns t = true) :
    isPtrKind t = decide (1 ≤ (stripPtr t).1) := by
  unfold isPtrKind
  by_cases h : ∃ e, t.under = .ptr e
  · obtain ⟨e, he⟩ := h
    rw [he, stripPtr_ptrR hM hp he]
    simp
  · have hnp : ∀ e, t.under ≠ .ptr e := fun e he => h ⟨e, he⟩
    rw [stripPtr_nonptrR hnp]
    cases hu : t.under <;> first | (simp; done) | (exact absurd hu (hnp _))

theorem mrnev_goodR {t : GoType} (hp : goodR ns t = true) (hd : tdepth t ≤ 1000)
    (hni : isIfaceT (stripPtr t).2 = false) :
    makeResolveNonEmptyValue t =
      (if 1 ≤ (stripPtr t).1 then [Resolver.pointers (stripPtr t).1] else []) ++
      (if isSized (stripPtr t).2 then [Resolver.bySize] else []) := by
  unfold makeResolveNonEmptyValue
  rw [baseType_goodR hM hp hd]
  have hpb := good_stripPtrR hM t hp
  simp only [isPtrKind_goodR hM hp, decide_eq_true_eq, implementsIsZeroer_goodR hM hpb,
    implementsPtrIsZeroer_goodR hM hpb, Bool.false_eq_true, if_false]
  congr 1
  unfold isIfaceT at hni
  unfold isSized
  generalize (stripPtr t).2.under = U at hni
  cases U <;> first | rfl | (simp at hni)

omit hM in
/-- a typed value of a sized kind has a length -/
theorem len_of_sizedR {bt : GoType} {x : GoVal} (hs : isSized bt = true) (hw : wtR ns D bt x = true) :
    ∃ l, len? x = some l := by
  unfold isSized at hs
  unfold wtR at hw
  generalize bt.under = U at hs hw
  cases U <;> simp at hs <;> cases x <;> simp_all [len?]

/-- the resolver chain of an `omitempty` field whose base type is no interface -/
theorem resolve_goodR {t : GoType} {x : GoVal} (hp : goodR ns t = true)
    (hw : wtR ns D t x = true) (hd : tdepth t ≤ 1000) (hni : isIfaceT (stripPtr t).2 = false) :
    applyResolvers 1000 (makeResolveNonEmptyValue t) ⟨t, x⟩ =
      match deref (stripPtr t).1 x with
      | none => .drop
      | some x' => if sizedEmpty (stripPtr t).2 x' then .drop else .keep ⟨(stripPtr t).2, x'⟩ := by
  rw [mrnev_goodR hM hp hd hni]
  have hw' := ptrWalk_goodR hM t hp x hw
  have h1000 : (1000 : Nat) = 997 + 1 + 1 + 1 := rfl
  rw [h1000]
  -- after the pointers
  have tail : ∀ (f : Nat) (x' : GoVal), wtR ns D (stripPtr t).2 x' = true →
      applyResolvers (f + 1 + 1) (if isSized (stripPtr t).2 then [Resolver.bySize] else []) ⟨(stripPtr t).2, x'⟩ =
        if sizedEmpty (stripPtr t).2 x' then .drop else .keep ⟨(stripPtr t).2, x'⟩ := by
    intro f x' hx'
    by_cases hs : isSized (stripPtr t).2 = true
    · obtain ⟨l, hl⟩ := len_of_sizedR hs hx'
      simp only [hs, if_true, applyResolvers_bySize, hl, sizedEmpty_sized hs, applyResolvers_nil]
      cases l with
      | zero => simp
      | succ l => simp
    · have hs' : isSized (stripPtr t).2 = false := by simpa using hs
      simp only [hs', Bool.false_eq_true, if_false, applyResolvers_nil, sizedEmpty_unsized hs']
  by_cases hn : 1 ≤ (stripPtr t).1
  · simp only [hn, if_true, List.singleton_append, applyResolvers_pointers, hw']
    cases hdr : deref (stripPtr t).1 x with
    | none => rfl
    | some x' =>
      simp only []
      exact tail 997 x' (deref_wtR hM t hp x x' hw hdr).1
  · have hn0 : (stripPtr t).1 = 0 := by omega
    have hb : (stripPtr t).2 = t := by
      by_cases hpp : ∃ e, t.under = .ptr e
      · obtain ⟨e, he⟩ := hpp
        rw [stripPtr_ptrR hM hp he] at hn0
        simp at hn0
      · rw [stripPtr_nonptrR (fun e he => hpp ⟨e, he⟩)]
    have := tail 998 x (by rw [hb]; exact hw)
    rw [hn0]
    simp only [deref]
    rw [hb] at this ⊢
    exact this

/-- the resolver chain of any good type -/
theorem mrnev_genR {t : GoType} (hp : goodR ns t = true) (hd : tdepth t ≤ 1000) :
    makeResolveNonEmptyValue t =
      (if 1 ≤ (stripPtr t).1 then [Resolver.pointers (stripPtr t).1] else []) ++
      (if isIfaceT (stripPtr t).2 then [Resolver.interfaceLazy]
       else if isSized (stripPtr t).2 then [Resolver.bySize] else []) := by
  by_cases hni : isIfaceT (stripPtr t).2 = true
  · unfold makeResolveNonEmptyValue
    rw [baseType_goodR hM hp hd]
    have hpb := good_stripPtrR hM t hp
    simp only [isPtrKind_goodR hM hp, decide_eq_true_eq, hni, if_true]
    congr 1
    unfold isIfaceT at hni
    generalize (stripPtr t).2.under = U at hni
    cases U <;> first | rfl | (simp at hni)
  · have hni' : isIfaceT (stripPtr t).2 = false := by simpa using hni
    rw [mrnev_goodR hM hp hd hni']
    simp only [hni', Bool.false_eq_true, if_false]

/-- emptiness through pointers, whatever the base type -/
theorem isEmptyF_deref_genR : ∀ (T : GoType), goodR ns T = true → ∀ v f, wtR ns D T v = true →
    isEmptyF (f + (stripPtr T).1) T v =
      match deref (stripPtr T).1 v with
      | none => true
      | some x => isEmptyF f (stripPtr T).2 x := by
  refine strip_inductionR hM _ ?_ ?_
  · intro T _ _ hs v f _
    rw [hs]
    rfl
  · intro T e hg hu _ hs ih v f hw
    rw [hs]
    have : f + ((stripPtr e).1 + 1) = (f + (stripPtr e).1) + 1 := by omega
    simp only [this]
    rcases wtR_ptr_inv hu hw with rfl | ⟨y, rfl, hy⟩
    · rw [isEmptyF_ptr_nil _ hu]; rfl
    · rw [isEmptyF_ptr _ hu]
      simp only [deref]
      exact ih y f hy

/-- the resolver chain of an `omitempty` field of any good type: it drops exactly the values the
rules call empty, and keeps a value reached through pointers and interfaces otherwise -/
theorem lazy_resolveR (hD : D ≤ 1000) : ∀ (N : Nat) (t : GoType) (x : GoVal), vdepth x < N →
    goodR ns t = true → wtR ns D t x = true → tdepth t ≤ 1000 →
    ∀ F fe, 2 * vdepth x + 3 ≤ F → vdepth x + 2 ≤ fe →
    (isEmptyF fe t x = true ∧ applyResolvers F (makeResolveNonEmptyValue t) ⟨t, x⟩ = .drop) ∨
    (isEmptyF fe t x = false ∧ ∃ rv, Lazy t x rv ∧
      applyResolvers F (makeResolveNonEmptyValue t) ⟨t, x⟩ = .keep rv) := by
  intro N
  induction N with
  | zero => intro t x hd; omega
  | succ N ih =>
    intro t x hd hp hw hdt F fe hF hfe
    rw [mrnev_genR hM hp hdt]
    have hwalk := ptrWalk_goodR hM t hp x hw
    have hpb := good_stripPtrR hM t hp
    have hnp := stripPtr_not_ptrR hM t hp
    -- the value behind the pointers: the rest of the chain on it
    have tail : ∀ (f : Nat) (x' : GoVal), deref (stripPtr t).1 x = some x' → wtR ns D (stripPtr t).2 x' = true →
        vdepth x' ≤ vdepth x → 2 * vdepth x' + 2 ≤ f → ∀ fe', vdepth x' + 2 ≤ fe' →
        (isEmptyF fe' (stripPtr t).2 x' = true ∧
          applyResolvers f (if isIfaceT (stripPtr t).2 then [Resolver.interfaceLazy]
            else if isSized (stripPtr t).2 then [Resolver.bySize] else []) ⟨(stripPtr t).2, x'⟩ = .drop) ∨
        (isEmptyF fe' (stripPtr t).2 x' = false ∧ ∃ rv, Lazy t x rv ∧
          applyResolvers f (if isIfaceT (stripPtr t).2 then [Resolver.interfaceLazy]
            else if isSized (stripPtr t).2 then [Resolver.bySize] else []) ⟨(stripPtr t).2, x'⟩ = .keep rv) := by
      intro f x' hdr hx' hdx' hf fe' hfe'
      obtain ⟨f1, rfl⟩ : ∃ f1, f = f1 + 1 := ⟨f - 1, by omega⟩
      obtain ⟨f2, rfl⟩ : ∃ f2, f1 = f2 + 1 := ⟨f1 - 1, by omega⟩
      obtain ⟨fe1, rfl⟩ : ∃ fe1, fe' = fe1 + 1 := ⟨fe' - 1, by omega⟩
      by_cases hi : isIfaceT (stripPtr t).2 = true
      · have hu : (stripPtr t).2.under = .iface := by
          unfold isIfaceT at hi
          cases hU : (stripPtr t).2.under <;> simp_all
        rw [if_pos hi, applyResolvers_lazy]
        rcases wtR_iface_inv hu hx' with rfl | ⟨dt, dv, rfl, hpd, hdd, hwd⟩
        · exact Or.inl ⟨isEmptyF_iface_nil fe1 hu, rfl⟩
        · rw [isEmptyF_iface fe1 hu]
          rw [vdepth_iface] at hdx' hf hfe'
          have hrec := ih dt dv (by omega) hpd hwd (by omega) (f2 + 1) fe1
            (by omega) (by omega)
          by_cases hem : (makeResolveNonEmptyValue dt).isEmpty = true
          · have hnil : makeResolveNonEmptyValue dt = [] := by
              cases h : makeResolveNonEmptyValue dt with
              | nil => rfl
              | cons a l => rw [h] at hem; simp at hem
            rw [hnil, applyResolvers_nil] at hrec
            rcases hrec with ⟨_, h2⟩ | ⟨h1, _⟩
            · cases h2
            · refine Or.inr ⟨h1, _, Lazy.keep hdr hi hem, ?_⟩
              show (if (makeResolveNonEmptyValue dt).isEmpty = true then _ else _) = _
              rw [if_pos hem, applyResolvers_nil]
          · have hem' : (makeResolveNonEmptyValue dt).isEmpty = false := by simpa using hem
            rcases hrec with ⟨h1, h2⟩ | ⟨h1, rv, hl, h2⟩
            · refine Or.inl ⟨h1, ?_⟩
              show (if (makeResolveNonEmptyValue dt).isEmpty = true then _ else _) = _
              rw [if_neg hem, h2]
            · refine Or.inr ⟨h1, rv, Lazy.step hdr hi hem' hl, ?_⟩
              show (if (makeResolveNonEmptyValue dt).isEmpty = true then _ else _) = _
              rw [if_neg hem, h2]
              exact applyResolvers_nil f2 rv
      · have hi' : isIfaceT (stripPtr t).2 = false := by simpa using hi
        rw [if_neg hi, isEmptyF_baseR hM fe1 hpb hi' hnp]
        by_cases hs : isSized (stripPtr t).2 = true
        · obtain ⟨l, hl⟩ := len_of_sizedR hs hx'
          rw [if_pos hs, applyResolvers_bySize]
          simp only [hl, sizedEmpty_sized hs, applyResolvers_nil]
          cases l with
          | zero => exact Or.inl ⟨by simp, by simp⟩
          | succ l =>
            refine Or.inr ⟨by simp, _, Lazy.base hdr hi' ?_, by simp⟩
            rw [sizedEmpty_sized hs, hl]; simp
        · have hs' : isSized (stripPtr t).2 = false := by simpa using hs
          rw [if_neg hs, applyResolvers_nil, sizedEmpty_unsized hs']
          exact Or.inr ⟨rfl, _, Lazy.base hdr hi' (sizedEmpty_unsized hs' x'), rfl⟩
    -- assemble
    obtain ⟨F1, rfl⟩ : ∃ F1, F = F1 + 1 := ⟨F - 1, by omega⟩
    by_cases hn : 1 ≤ (stripPtr t).1
    · rw [if_pos hn, List.singleton_append, applyResolvers_pointers, hwalk]
      cases hdr : deref (stripPtr t).1 x with
      | none =>
        exact Or.inl ⟨isEmptyF_deref_noneR hM t hp x fe hw hdr hfe, rfl⟩
      | some x' =>
        simp only []
        obtain ⟨hwx', hdx'⟩ := deref_wtR hM t hp x x' hw hdr
        have hemp := isEmptyF_deref_genR hM t hp x (fe - (stripPtr t).1) hw
        rw [show fe - (stripPtr t).1 + (stripPtr t).1 = fe by omega, hdr] at hemp
        simp only [] at hemp
        rw [hemp]
        exact tail F1 x' hdr hwx' (by omega) (by omega) (fe - (stripPtr t).1) (by omega)
    · have hn0 : (stripPtr t).1 = 0 := by omega
      have hb : (stripPtr t).2 = t := by
        by_cases hpp : ∃ e, t.under = .ptr e
        · obtain ⟨e, he⟩ := hpp
          rw [stripPtr_ptrR hM hp he] at hn0
          simp at hn0
        · rw [stripPtr_nonptrR (fun e he => hpp ⟨e, he⟩)]
      have hdr : deref (stripPtr t).1 x = some x := by rw [hn0]; rfl
      have := tail (F1 + 1) x hdr (by rw [hb]; exact hw) (Nat.le_refl _) (by omega) fe hfe
      rw [if_neg hn, List.nil_append]
      rw [hb] at this ⊢
      exact this

theorem inlineF_derefR (reg : Bool) : ∀ (T : GoType), goodR ns T = true →
    ∀ v m segs, wtR ns D T v = true → inlineF m reg T v = .ok segs →
    match deref (stripPtr T).1 v with
    | none => segs = []
    | some x => ∃ m', inlineF m' reg (stripPtr T).2 x = .ok segs := by
  refine strip_inductionR hM _ ?_ ?_
  · intro T _ _ hs v m segs _ h
    rw [hs]
    exact ⟨m, h⟩
  · intro T e hg hu _ hs ih v m segs hw h
    rw [hs]
    cases m with
    | zero => simp [inlineF] at h
    | succ m =>
      rw [inlineF_underR hM m reg hg, hu] at h
      rcases wtR_ptr_inv hu hw with rfl | ⟨y, rfl, hy⟩
      · have : inlineF (m + 1) reg (.ptr e) .nilPtr = .ok [] := rfl
        rw [this] at h
        cases h
        rfl
      · have : inlineF (m + 1) reg (.ptr e) (.ptr y) = inlineF m reg e y := rfl
        rw [this] at h
        simp only [deref]
        exact ih y m segs hy h

theorem isEmptyF_derefR : ∀ (T : GoType), goodR ns T = true → ∀ v f, wtR ns D T v = true →
    (stripPtr T).1 < f → isIfaceT (stripPtr T).2 = false →
    isEmptyF f T v =
      match deref (stripPtr T).1 v with
      | none => true
      | some x => sizedEmpty (stripPtr T).2 x := by
  refine strip_inductionR hM _ ?_ ?_
  · intro T hg hnp hs v f _ hf hni
    rw [hs] at hni ⊢
    obtain ⟨f', rfl⟩ : ∃ f', f = f' + 1 := ⟨f - 1, by omega⟩
    simp only [deref]
    exact isEmptyF_baseR hM f' hg hni hnp v
  · intro T e hg hu _ hs ih v f hw hf hni
    rw [hs] at hf hni ⊢
    obtain ⟨f', rfl⟩ : ∃ f', f = f' + 1 := ⟨f - 1, by omega⟩
    rcases wtR_ptr_inv hu hw with rfl | ⟨y, rfl, hy⟩
    · rw [isEmptyF_ptr_nil f' hu]; rfl
    · rw [isEmptyF_ptr f' hu]
      simp only [deref]
      exact ih y f' hy (by simp only [] at hf; omega) hni

end

end SF.FoldRec
