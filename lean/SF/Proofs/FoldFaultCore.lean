/-
  Property C16 for the gotype fold mirror — the visitor side.

  A run of any computation of the fold mirror on a visitor that fails at event index `k`
  (`St.failAt = some k`) is the run on the healthy visitor (`failAt = none`) TRUNCATED at
  the fault: nothing in the mirror but `deliver` reads `failAt`, every control structure
  (`seqM`, `rangeM`, the `match … | (s, .ok) => … | r => r` chains, the ExpectObjVisitor
  forwarding of `visit`) hands the first result that is not `ok` to its caller unchanged.

  This file: the simulation relation (`Rel`), the class `FOK` of computations that respect
  it, closure of `FOK` under the control structures, `deliver` / `visit` / `emit`.
-/
import SF.Gotype.Fold
namespace SF.FoldProofs.Fault
open SF SF.Gotype SF.Gotype.Fold

/-- the faulted twin of a state: the same state on a visitor failing at event `k` -/
def arm (k : Nat) (s : St) : St := { s with failAt := some k }

/-- `t` comes after `s`: events were only added (newest first), `n` counts them, the fault
index is never touched -/
structure Ext (s t : St) : Prop where
  fa : t.failAt = s.failAt
  grow : ∃ more, t.evs = more ++ s.evs ∧ t.n = s.n + more.length

theorem Ext.refl (s : St) : Ext s s := ⟨rfl, [], by simp, by simp⟩

theorem Ext.trans {s t u : St} (h1 : Ext s t) (h2 : Ext t u) : Ext s u := by
  obtain ⟨f1, m1, e1, n1⟩ := h1
  obtain ⟨f2, m2, e2, n2⟩ := h2
  refine ⟨f2.trans f1, m2 ++ m1, ?_, ?_⟩
  · rw [e2, e1]; simp
  · rw [n2, n1]; simp; omega

theorem Ext.n_le {s t : St} (h : Ext s t) : s.n ≤ t.n := by
  obtain ⟨_, m, _, hn⟩ := h; omega

/-- `a`: outcome on the healthy visitor, `b`: outcome of the same computation on the visitor
failing at event `k`.  Either the fault was not reached (same state, same result), or `b`
stopped with the injected error right after event `k` and `a` only went on from there. -/
def Rel (k : Nat) (a b : St × Res) : Prop :=
  (a.1.n ≤ k ∧ b = (arm k a.1, a.2)) ∨
  (k < a.1.n ∧ b.2 = .err .injected ∧ b.1.n = k + 1 ∧
    ∃ more, a.1.evs = more ++ b.1.evs ∧ a.1.n = b.1.n + more.length)

/-- computations (state transformers with a result) that commute with the fault -/
structure FOK (F : St → St × Res) : Prop where
  mono : ∀ s, Ext s (F s).1
  sim : ∀ k s, s.failAt = none → s.n ≤ k → Rel k (F s) (F (arm k s))

/-- `match F s with | (s, .ok) => G s | r => r` -/
def bindM (F G : St → St × Res) : St → St × Res := fun s =>
  match F s with
  | (t, .ok) => G t
  | r => r

theorem FOK.pure (r : Res) : FOK (fun s => (s, r)) :=
  ⟨fun s => Ext.refl s, fun _ _ _ hn => Or.inl ⟨hn, rfl⟩⟩

theorem FOK.congr {F G : St → St × Res} (h : ∀ s, F s = G s) (hG : FOK G) : FOK F := by
  have : F = G := funext h
  rw [this]; exact hG

theorem Rel.later {k : Nat} {a b : St × Res} {a' : St × Res}
    (h : k < a.1.n ∧ b.2 = .err .injected ∧ b.1.n = k + 1 ∧
      ∃ more, a.1.evs = more ++ b.1.evs ∧ a.1.n = b.1.n + more.length)
    (he : Ext a.1 a'.1) : Rel k a' b := by
  obtain ⟨hk, hr, hn, m, hev, hnn⟩ := h
  obtain ⟨_, m2, e2, n2⟩ := he
  refine Or.inr ⟨by omega, hr, hn, m2 ++ m, ?_, ?_⟩
  · rw [e2, hev]; simp
  · rw [n2, hnn]; simp; omega

theorem FOK.bind {F G : St → St × Res} (hF : FOK F) (hG : FOK G) : FOK (bindM F G) := by
  constructor
  · intro s
    have h1 := hF.mono s
    unfold bindM
    rcases hFs : F s with ⟨t, r⟩
    rw [hFs] at h1
    cases r with
    | ok => exact h1.trans (hG.mono t)
    | err e => exact h1
    | panic => exact h1
    | fatal => exact h1
  · intro k s hfa hn
    have h1 := hF.mono s
    have h2 := hF.sim k s hfa hn
    unfold bindM
    rcases hFs : F s with ⟨t, r⟩
    rw [hFs] at h1 h2
    rcases h2 with ⟨htk, hb⟩ | hlater
    · -- the fault was not reached inside `F`
      rw [hb]
      cases r with
      | ok => exact hG.sim k t (h1.fa.trans hfa) htk
      | err e => exact Or.inl ⟨htk, rfl⟩
      | panic => exact Or.inl ⟨htk, rfl⟩
      | fatal => exact Or.inl ⟨htk, rfl⟩
    · -- `F` hit the fault: its error is the result, whatever the healthy run goes on to do
      rcases hFa : F (arm k s) with ⟨t', r'⟩
      rw [hFa] at hlater
      have hr' : r' = .err .injected := hlater.2.1
      subst hr'
      cases r with
      | ok => exact Rel.later hlater (hG.mono t)
      | err e => exact Or.inr hlater
      | panic => exact Or.inr hlater
      | fatal => exact Or.inr hlater


/-- the computation may depend on anything it reads from the state, as long as that is not
the fault index -/
theorem FOK.dep {β : Type} (sel : St → β) (F : β → St → St × Res)
    (hsel : ∀ k s, sel (arm k s) = sel s) (h : ∀ b, FOK (F b)) : FOK (fun s => F (sel s) s) := by
  constructor
  · intro s; exact (h (sel s)).mono s
  · intro k s hfa hn
    show Rel k (F (sel s) s) (F (sel (arm k s)) (arm k s))
    rw [hsel]
    exact (h (sel s)).sim k s hfa hn

/-- a state update that touches neither the event log nor the fault index, first -/
theorem FOK.pre (upd : St → St) {F : St → St × Res}
    (harm : ∀ k s, upd (arm k s) = arm k (upd s))
    (hevs : ∀ s, (upd s).evs = s.evs) (hn : ∀ s, (upd s).n = s.n)
    (hfa : ∀ s, (upd s).failAt = s.failAt) (hF : FOK F) : FOK (fun s => F (upd s)) := by
  have hext : ∀ s, Ext s (upd s) := fun s => ⟨hfa s, [], by simp [hevs], by simp [hn]⟩
  constructor
  · intro s; exact (hext s).trans (hF.mono _)
  · intro k s hf hk
    show Rel k (F (upd s)) (F (upd (arm k s)))
    rw [harm]
    exact hF.sim k (upd s) ((hfa s).trans hf) (by rw [hn]; exact hk)

/-- the result is adjusted afterwards, but only a result `ok` -/
theorem FOK.post (g : St → Res → Res) {F : St → St × Res}
    (hg : ∀ k t r, g (arm k t) r = g t r) (hne : ∀ t e, g t (.err e) = .err e)
    (hF : FOK F) : FOK (fun s => match F s with | (t, r) => (t, g t r)) := by
  constructor
  · intro s; exact hF.mono s
  · intro k s hf hk
    have h2 := hF.sim k s hf hk
    show Rel k (match F s with | (t, r) => (t, g t r)) (match F (arm k s) with | (t, r) => (t, g t r))
    rcases hFs : F s with ⟨t, r⟩
    rcases hFa : F (arm k s) with ⟨t', r'⟩
    rw [hFs, hFa] at h2
    rcases h2 with ⟨htk, hb⟩ | ⟨hk', hr, hrest⟩
    · cases hb
      exact Or.inl ⟨htk, by simp only [hg]⟩
    · have hr' : r' = .err .injected := hr
      subst hr'
      exact Or.inr ⟨hk', hne _ _, hrest⟩

theorem seqM_cons {α : Type} (step : St → α → St × Res) (x : α) (xs : List α) :
    (fun s => seqM step s (x :: xs)) = bindM (fun s => step s x) (fun s => seqM step s xs) := by
  funext s
  simp only [seqM, bindM]
  rcases step s x with ⟨t, r⟩
  cases r <;> rfl

theorem FOK.seq {α : Type} {step : St → α → St × Res} (h : ∀ x, FOK (fun s => step s x))
    (xs : List α) : FOK (fun s => seqM step s xs) := by
  induction xs with
  | nil => exact FOK.pure .ok
  | cons x xs ih => rw [seqM_cons]; exact (h x).bind ih

theorem pickEntry_arm {α : Type} (k : Nat) (s : St) (es : List (Bytes × α)) :
    pickEntry (arm k s) es = pickEntry s es := rfl

/-- one round of `rangeM`, given the entry picked -/
def rangeBody {α : Type} (step : St → Bytes × α → St × Res) (n : Nat) :
    Option ((Bytes × α) × List (Bytes × α)) → St → St × Res
  | none => fun s => (s, .ok)
  | some (e, rest) => bindM (fun s => step s e) (fun s => rangeM step n s rest)

theorem rangeM_succ {α : Type} (step : St → Bytes × α → St × Res) (n : Nat) (es : List (Bytes × α)) :
    (fun s => rangeM step (n + 1) s es) = (fun s => rangeBody step n (pickEntry s es) s) := by
  funext s
  simp only [rangeM, rangeBody]
  cases pickEntry s es with
  | none => rfl
  | some p =>
    obtain ⟨e, rest⟩ := p
    simp only [bindM]
    rcases step s e with ⟨t, r⟩
    cases r <;> rfl

theorem FOK.range {α : Type} {step : St → Bytes × α → St × Res}
    (h : ∀ e, FOK (fun s => step s e)) (n : Nat) (es : List (Bytes × α)) :
    FOK (fun s => rangeM step n s es) := by
  induction n generalizing es with
  | zero => exact FOK.pure .ok
  | succ n ih =>
    rw [rangeM_succ]
    apply FOK.dep (fun s => pickEntry s es) (rangeBody step n) (fun k s => pickEntry_arm k s es)
    intro p
    cases p with
    | none => exact FOK.pure .ok
    | some p =>
      obtain ⟨e, rest⟩ := p
      exact (h e).bind (ih rest)

/-! ## the user's visitor -/

theorem FOK.deliv (x : XEv) : FOK (fun s => deliver s x) := by
  constructor
  · intro s
    have h1 : (deliver s x).1 =
        { s with evs := reorderByHint s x :: s.evs, n := s.n + 1, hint := s.hint.drop 1 } := by
      unfold deliver
      cases s.failAt with
      | none => rfl
      | some k => simp only; split <;> rfl
    rw [h1]
    exact ⟨rfl, [reorderByHint s x], rfl, rfl⟩
  · intro k s hfa hn
    have h1 : deliver s x =
        ({ s with evs := reorderByHint s x :: s.evs, n := s.n + 1, hint := s.hint.drop 1 }, .ok) := by
      simp [deliver, hfa]
    by_cases hk : s.n = k
    · have h2 : deliver (arm k s) x =
          (arm k { s with evs := reorderByHint s x :: s.evs, n := s.n + 1, hint := s.hint.drop 1 },
            .err .injected) := by
        simp [deliver, arm, hk, reorderByHint]
      rw [h1, h2]
      exact Or.inr ⟨by simp; omega, rfl, by simp [arm]; omega, [], by simp [arm], by simp [arm]⟩
    · have h2 : deliver (arm k s) x =
          (arm k { s with evs := reorderByHint s x :: s.evs, n := s.n + 1, hint := s.hint.drop 1 },
            .ok) := by
        have : ¬ s.n ≥ k := by omega
        simp [deliver, arm, this, reorderByHint]
      rw [h1, h2]
      exact Or.inl ⟨by simp; omega, rfl⟩


/-! ## `foldContext.visitor`: the user's visitor behind any chain of ExpectObjVisitors -/

/-- `forward` of `visit` -/
def fwd (fuel : Nat) (vs : Vs) (x : XEv) : St → St × Res :=
  match vs.active with
  | none => fun s => (s, .panic)
  | some c => fun s => visit fuel s c x

/-- `visit` on an ExpectObjVisitor whose state `vs` has been read -/
def visitExp (fuel : Nat) (id : VsId) (x : XEv) (vs : Vs) : St → St × Res :=
  match x with
  | .ev (.objStart _ _) => fun s =>
    (if vs.depth + 1 == 1 then (fun s => (s, Res.ok)) else fwd fuel vs x)
      (s.setVs id { vs with depth := vs.depth + 1 })
  | .ev .objEnd => fun s =>
    (if vs.depth - 1 == 0 then (fun s => (s, Res.ok)) else fwd fuel vs x)
      (s.setVs id { vs with depth := vs.depth - 1 })
  | .ev _ | .strRef _ | .keyRef _ =>
    if vs.depth == 0 then (fun s => (s, .err .inlineNoObject)) else fwd fuel vs x
  | x =>
    match objMembers x with
    | some (bt, ms) =>
      bindM (fun s => visit fuel s (.exp id) (.ev (.objStart ms.length bt)))
        (bindM (fun s => rangeM (fun s m =>
            bindM (fun s => visit fuel s (.exp id) (.ev (.key m.1)))
              (fun s => visit fuel s (.exp id) (.ev m.2)) s) ms.length s ms)
          (fun s => visit fuel s (.exp id) (.ev .objEnd)))
    | none => fun s => seqM (fun s e => visit fuel s (.exp id) (.ev e)) s x.expand

theorem visit_exp (fuel : Nat) (id : VsId) (x : XEv) (s : St) :
    visit (fuel + 1) s (.exp id) x = visitExp fuel id x (s.getVs id) s := by
  cases hact : (s.getVs id).active with
  | none =>
    cases x with
    | ev e => cases e <;> simp only [visit, visitExp, fwd, hact] <;> (try split) <;> rfl
    | strRef b => simp only [visit, visitExp, fwd, hact]; split <;> rfl
    | keyRef b => simp only [visit, visitExp, fwd, hact]; split <;> rfl
    | _ => simp only [visit, visitExp, objMembers, bindM] <;> rfl
  | some c =>
    cases x with
    | ev e => cases e <;> simp only [visit, visitExp, fwd, hact] <;> (try split) <;> rfl
    | strRef b => simp only [visit, visitExp, fwd, hact]; split <;> rfl
    | keyRef b => simp only [visit, visitExp, fwd, hact]; split <;> rfl
    | _ => simp only [visit, visitExp, objMembers, bindM] <;> rfl

theorem getVs_arm (k : Nat) (s : St) (id : VsId) : (arm k s).getVs id = s.getVs id := rfl
theorem setVs_arm (k : Nat) (s : St) (id : VsId) (v : Vs) : (arm k s).setVs id v = arm k (s.setVs id v) := rfl

theorem FOK.setVs (id : VsId) (v : Vs) {F : St → St × Res} (hF : FOK F) :
    FOK (fun s => F (s.setVs id v)) :=
  FOK.pre (fun s => s.setVs id v) (fun k s => setVs_arm k s id v) (fun _ => rfl) (fun _ => rfl)
    (fun _ => rfl) hF

theorem FOK.ite (c : Prop) [Decidable c] {F G : St → St × Res} (hF : FOK F) (hG : FOK G) :
    FOK (if c then F else G) := by
  split
  · exact hF
  · exact hG

/-- every event, through every chain of ExpectObjVisitors, commutes with the fault -/
theorem FOK.visit : ∀ (fuel : Nat) (c : VisRef) (x : XEv), FOK (fun s => Fold.visit fuel s c x) := by
  intro fuel
  induction fuel with
  | zero => intro c x; exact FOK.pure .fatal
  | succ fuel ih =>
    intro c x
    cases c with
    | user => exact FOK.deliv x
    | exp id =>
      have hfwd : ∀ (vs : Vs) (x : XEv), FOK (fwd fuel vs x) := by
        intro vs x
        unfold fwd
        cases vs.active with
        | none => exact FOK.pure .panic
        | some c => exact ih c x
      have hbody : ∀ vs, FOK (visitExp fuel id x vs) := by
        intro vs
        cases x with
        | ev e =>
          cases e <;> simp only [visitExp] <;>
            first
              | exact FOK.ite _ (FOK.pure _) (hfwd _ _)
              | exact FOK.setVs _ _ (FOK.ite _ (FOK.pure _) (hfwd _ _))
        | strRef b => simp only [visitExp]; exact FOK.ite _ (FOK.pure _) (hfwd _ _)
        | keyRef b => simp only [visitExp]; exact FOK.ite _ (FOK.pure _) (hfwd _ _)
        | boolArr xs => simp only [visitExp, objMembers]; exact FOK.seq (fun e => ih _ _) _
        | strArr xs => simp only [visitExp, objMembers]; exact FOK.seq (fun e => ih _ _) _
        | numArr k xs => simp only [visitExp, objMembers]; exact FOK.seq (fun e => ih _ _) _
        | f32Arr xs => simp only [visitExp, objMembers]; exact FOK.seq (fun e => ih _ _) _
        | f64Arr xs => simp only [visitExp, objMembers]; exact FOK.seq (fun e => ih _ _) _
        | _ =>
          simp only [visitExp, objMembers]
          exact (ih _ _).bind ((FOK.range (fun m => (ih _ _).bind (ih _ _)) _ _).bind (ih _ _))
      have : (fun s => Fold.visit (fuel + 1) s (.exp id) x) =
          (fun s => visitExp fuel id x (s.getVs id) s) := funext (visit_exp fuel id x)
      rw [this]
      exact FOK.dep (fun s => s.getVs id) (visitExp fuel id x) (fun k s => getVs_arm k s id) hbody

theorem FOK.emit (c : VisRef) (x : XEv) : FOK (fun s => Fold.emit s c x) := FOK.visit visitFuel c x

end SF.FoldProofs.Fault
