/-
  `omitempty` on interface-typed fields, over menagerie members (cf. `FoldLazy`).
-/
import SF.Proofs.RecTypeOk
import SF.Proofs.FoldLazy
namespace SF.FoldRec
open SF SF.Gotype SF.Gotype.Fold SF.Gotype.Rules SF.FoldProofs

section
variable {ns : List String} {D : Nat} (hM : MenOK ns D)
include hM

/-- what the rules know about the target of a kept value, when they accept the field -/
structure LazyOKR (ns : List String) (D : Nat) (reg : Bool) (r : RVal) (t : GoType) (x : GoVal)
    (T : GoType) (v : GoVal) : Prop where
  good : goodR ns T = true
  accepted : LocOK reg T
  depth : tdepth T ≤ max (tdepth t) D
  typed : wtR ns D T v = true
  inside : vdepth v ≤ vdepth x
  folds : ∃ m, foldF m reg T v = .ok r

theorem lazy_okR (reg : Bool) {t : GoType} {x : GoVal} {rv : RV} (hl : Lazy t x rv) :
    ∀ {m : Nat} {r : RVal}, goodR ns t = true → wtR ns D t x = true →
    foldF m reg t x = .ok r →
    (isIfaceT (stripPtr t).2 = true ∨ LocOK reg t) →
    ∃ T v, Target rv T v ∧ LazyOKR ns D reg r t x T v ∧
      (isIfaceT (stripPtr t).2 = true → vdepth v + 1 ≤ vdepth x ∧ tdepth T ≤ D) := by
  induction hl with
  | @base t x x' hdr hni hse =>
    intro m r hg hw hspec hty
    obtain ⟨hwx', hdx'⟩ := deref_wtR hM t hg x x' hw hdr
    have hsp := foldF_derefR hM reg t hg x m r hw hspec
    rw [hdr] at hsp
    obtain ⟨m', hm'⟩ := hsp
    rcases hty with hi | hloc
    · rw [hni] at hi; cases hi
    · have hdb := tdepth_stripPtr t
      refine ⟨_, _, Or.inr ⟨hni, rfl⟩,
        ⟨good_stripPtrR hM t hg, locOK_strip hM reg t hg hloc, by omega, hwx', by omega, m', hm'⟩, ?_⟩
      intro hi; rw [hni] at hi; cases hi
  | @keep t x dt dv hdr hi hem =>
    intro m r hg hw hspec _
    obtain ⟨hwx', hdx'⟩ := deref_wtR hM t hg x _ hw hdr
    have hsp := foldF_derefR hM reg t hg x m r hw hspec
    rw [hdr] at hsp
    obtain ⟨m', hm'⟩ := hsp
    have hpb := good_stripPtrR hM t hg
    have hu := isIfaceT_iff.mp hi
    cases m' with
    | zero => simp [foldF] at hm'
    | succ m' =>
    rw [foldF_underR hM m' reg hpb, hu, foldF_iface] at hm'
    rcases wtR_iface_inv hu hwx' with h | ⟨dt', dv', h, hpd, hdd, hwd⟩
    · cases h
    · cases h
      cases htok : typeOk reg dt with
      | error e => simp [htok] at hm'
      | ok u =>
        simp only [htok] at hm'
        rw [vdepth_iface] at hdx'
        refine ⟨dt, dv, Or.inl ⟨hu, rfl⟩,
          ⟨hpd, ⟨1000, [], htok⟩, by omega, hwd, by omega, m', hm'⟩, ?_⟩
        intro _; exact ⟨by omega, hdd⟩
  | @step t x dt dv rv hdr hi hem _ ih =>
    intro m r hg hw hspec _
    obtain ⟨hwx', hdx'⟩ := deref_wtR hM t hg x _ hw hdr
    have hsp := foldF_derefR hM reg t hg x m r hw hspec
    rw [hdr] at hsp
    obtain ⟨m', hm'⟩ := hsp
    have hpb := good_stripPtrR hM t hg
    have hu := isIfaceT_iff.mp hi
    cases m' with
    | zero => simp [foldF] at hm'
    | succ m' =>
    rw [foldF_underR hM m' reg hpb, hu, foldF_iface] at hm'
    rcases wtR_iface_inv hu hwx' with h | ⟨dt', dv', h, hpd, hdd, hwd⟩
    · cases h
    · cases h
      cases htok : typeOk reg dt with
      | error e => simp [htok] at hm'
      | ok u =>
        simp only [htok] at hm'
        rw [vdepth_iface] at hdx'
        obtain ⟨T, v, h1, h2, _⟩ := ih hpd hwd hm' (Or.inr ⟨1000, [], htok⟩)
        have hdep := h2.depth
        refine ⟨T, v, h1, ⟨h2.good, h2.accepted, by omega, h2.typed, by have := h2.inside; omega, h2.folds⟩, ?_⟩
        intro _
        have := h2.inside
        exact ⟨by omega, by omega⟩

end

end SF.FoldRec
