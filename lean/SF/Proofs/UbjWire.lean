/-
  A grammar of UBJSON (draft 12) documents as a tree type `UItem` with its `wire` form and its
  `value`, and the round trip through the REFERENCE decoder of SF/Ubjson/Cst.lean:

      ok x → Cst.value fuel (x.wire ++ rest) = .ok (x.value, rest)      (fuel ≥ 2·|wire|)
      ok x → Cst.decodeStream x.wire = .ok [x.value]

  (CBOR analogue: SF/Proofs/CborDecode.lean.)  `UItem` covers every form the draft defines
  except no-ops: plain / counted / typed ("optimized") arrays and objects — typed containers of
  any payload-carrying element type, nested typed containers included.
-/
import SF.Ubjson.Cst
namespace SF.Ubjson.Wire
open SF SF.Ubjson SF.Ubjson.Cst

/-- the five integer markers -/
inductive IM | i | U | I | l | L
  deriving DecidableEq, Repr, Inhabited

def IM.byte : IM → UInt8
  | .i => 0x69 | .U => 0x55 | .I => 0x49 | .l => 0x6c | .L => 0x4c

def IM.width : IM → Nat
  | .i => 1 | .U => 1 | .I => 2 | .l => 4 | .L => 8

/-- the values a marker can carry -/
def IM.fits : IM → Int → Bool
  | .i, v => decide (-128 ≤ v ∧ v ≤ 127)
  | .U, v => decide (0 ≤ v ∧ v ≤ 255)
  | .I, v => decide (-32768 ≤ v ∧ v ≤ 32767)
  | .l, v => decide (-2147483648 ≤ v ∧ v ≤ 2147483647)
  | .L, v => decide (-9223372036854775808 ≤ v ∧ v ≤ 9223372036854775807)

/-- the bytes after an integer marker: two's complement (`U`: the byte), big-endian -/
def intPayload (m : IM) (v : Int) : Bytes := beBytes m.width (v % (256 : Int) ^ m.width).toNat

/-- `Len`: an integer marker and a non-negative value -/
def lenWire (m : IM) (n : Nat) : Bytes := m.byte :: intPayload m n

inductive UItem
  | null | tru | fals
  | int (m : IM) (v : Int)
  | char (c : UInt8)
  | f32 (b : UInt32)
  | f64 (b : UInt64)
  | str (lm : IM) (s : Bytes)
  | hp (lm : IM) (s : Bytes)                       -- high-precision number: 'H' Len digits
  | arr (xs : List UItem)                          -- '[' … ']'
  | arrN (lm : IM) (xs : List UItem)               -- '[' '#' Len …
  | arrT (t : UInt8) (lm : IM) (xs : List UItem)   -- '[' '$' t '#' Len payloads
  | obj (ms : List (IM × Bytes × UItem))
  | objN (lm : IM) (ms : List (IM × Bytes × UItem))
  | objT (t : UInt8) (lm : IM) (ms : List (IM × Bytes × UItem))
  deriving Inhabited

def UItem.marker : UItem → UInt8
  | .null => 0x5a | .tru => 0x54 | .fals => 0x46
  | .int m _ => m.byte
  | .char _ => 0x43
  | .f32 _ => 0x64 | .f64 _ => 0x44
  | .str _ _ => 0x53 | .hp _ _ => 0x48
  | .arr _ | .arrN _ _ | .arrT _ _ _ => 0x5b
  | .obj _ | .objN _ _ | .objT _ _ _ => 0x7b

mutual
/-- everything after the marker -/
def UItem.payload : UItem → Bytes
  | .null | .tru | .fals => []
  | .int m v => intPayload m v
  | .char c => [c]
  | .f32 b => beBytes 4 b.toNat
  | .f64 b => beBytes 8 b.toNat
  | .str lm s => lenWire lm s.length ++ s
  | .hp lm s => lenWire lm s.length ++ s
  | .arr xs => wireList xs ++ [0x5d]
  | .arrN lm xs => 0x23 :: (lenWire lm xs.length ++ wireList xs)
  | .arrT t lm xs => 0x24 :: t :: 0x23 :: (lenWire lm xs.length ++ payloadList xs)
  | .obj ms => wireMems ms ++ [0x7d]
  | .objN lm ms => 0x23 :: (lenWire lm ms.length ++ wireMems ms)
  | .objT t lm ms => 0x24 :: t :: 0x23 :: (lenWire lm ms.length ++ payloadMems ms)
def wireList : List UItem → Bytes
  | [] => []
  | x :: xs => x.marker :: (x.payload ++ wireList xs)
def payloadList : List UItem → Bytes
  | [] => []
  | x :: xs => x.payload ++ payloadList xs
def wireMems : List (IM × Bytes × UItem) → Bytes
  | [] => []
  | (km, k, v) :: ms => lenWire km k.length ++ (k ++ (v.marker :: (v.payload ++ wireMems ms)))
def payloadMems : List (IM × Bytes × UItem) → Bytes
  | [] => []
  | (km, k, v) :: ms => lenWire km k.length ++ (k ++ (v.payload ++ payloadMems ms))
end

/-- the bytes of a value -/
def UItem.wire (x : UItem) : Bytes := x.marker :: x.payload

mutual
def UItem.value : UItem → Val
  | .null => .null
  | .tru => .bool true
  | .fals => .bool false
  | .int _ v => .int v
  | .char c => .int c.toNat
  | .f32 b => .f32 b
  | .f64 b => .f64 b
  | .str _ s => .str s
  | .hp _ s => .str s
  | .arr xs | .arrN _ xs | .arrT _ _ xs => .arr (valueList xs)
  | .obj ms | .objN _ ms | .objT _ _ ms => .obj (valueMems ms)
def valueList : List UItem → List Val
  | [] => []
  | x :: xs => x.value :: valueList xs
def valueMems : List (IM × Bytes × UItem) → List (Bytes × Val)
  | [] => []
  | (_, k, v) :: ms => (k, v.value) :: valueMems ms
end

/-- an element type of a typed container whose elements have a payload -/
def typeOk (t : UInt8) : Bool := isTypeMarker t && t != 0x5a && t != 0x54 && t != 0x46

def allMarker (t : UInt8) : List UItem → Bool
  | [] => true
  | x :: xs => x.marker == t && allMarker t xs

def allMarkerM (t : UInt8) : List (IM × Bytes × UItem) → Bool
  | [] => true
  | (_, _, v) :: ms => v.marker == t && allMarkerM t ms

mutual
/-- well-formed: every integer fits its marker, every length is written with a marker that
holds it, the elements of a typed container carry the announced marker -/
def UItem.ok : UItem → Bool
  | .int m v => m.fits v
  | .str lm s => lm.fits s.length
  | .hp lm s => lm.fits s.length
  | .arr xs => okList xs
  | .arrN lm xs => lm.fits xs.length && okList xs
  | .arrT t lm xs => lm.fits xs.length && typeOk t && allMarker t xs && okList xs
  | .obj ms => okMems ms
  | .objN lm ms => lm.fits ms.length && okMems ms
  | .objT t lm ms => lm.fits ms.length && typeOk t && allMarkerM t ms && okMems ms
  | _ => true
def okList : List UItem → Bool
  | [] => true
  | x :: xs => x.ok && okList xs
def okMems : List (IM × Bytes × UItem) → Bool
  | [] => true
  | (km, k, v) :: ms => km.fits k.length && v.ok && okMems ms
end

/-! ## integers and lengths -/

theorem takeN_append (a rest : Bytes) (n : Nat) (h : a.length = n) : takeN (a ++ rest) n = .ok (a, rest) := by
  subst h; simp [takeN]

theorem intWidth_byte (m : IM) : intWidth m.byte = some m.width := by cases m <;> rfl

@[simp] theorem intPayload_length (m : IM) (v : Int) : (intPayload m v).length = m.width := by
  simp [intPayload]

theorem width_pos (m : IM) : 1 ≤ m.width := by cases m <;> simp [IM.width]

theorem beNat_intPayload (m : IM) (v : Int) :
    beNat (intPayload m v) = (v % (256 : Int) ^ m.width).toNat := by
  unfold intPayload
  apply beNat_beBytes
  have hp : (0 : Int) < (256 : Int) ^ m.width := Int.pow_pos (by omega)
  have h1 := Int.emod_lt_of_pos v hp
  have h0 := Int.emod_nonneg v (Int.ne_of_gt hp)
  have : ((256 ^ m.width : Nat) : Int) = (256 : Int) ^ m.width := by simp
  omega

/-- the decoder's integer reading inverts `intPayload` -/
theorem readInt_ok (m : IM) (v : Int) (h : m.fits v = true) (rest : Bytes) :
    readInt m.byte (intPayload m v ++ rest) = .ok (v, rest) := by
  unfold readInt
  rw [intWidth_byte]
  simp only [takeN_append _ rest m.width (intPayload_length m v), beNat_intPayload]
  congr 2
  cases m <;> simp [IM.byte, IM.width, IM.fits, toSigned] at h ⊢ <;> omega

theorem readLen_ok (m : IM) (n : Nat) (h : m.fits n = true) (rest : Bytes) :
    readLen (lenWire m n ++ rest) = .ok (n, rest) := by
  simp only [lenWire, List.cons_append, readLen, readInt_ok m n h rest]
  have : ¬ ((n : Int) < 0) := by omega
  simp [this]

theorem imbyte_ne (m : IM) : m.byte ≠ 0x4e ∧ m.byte ≠ 0x7d ∧ m.byte ≠ 0x5d ∧ m.byte ≠ 0x24 ∧ m.byte ≠ 0x23 := by
  cases m <;> decide

theorem key_ok (km : IM) (k : Bytes) (h : km.fits k.length = true) (rest : Bytes) :
    key (lenWire km k.length ++ (k ++ rest)) = .ok (k, rest) := by
  have hne := (imbyte_ne km).1
  unfold key
  split
  · rename_i r heq
    simp only [lenWire, List.cons_append, List.cons.injEq] at heq
    exact absurd heq.1 hne
  · rw [readLen_ok km k.length h]
    exact takeN_append k rest k.length rfl

theorem lenWire_length (m : IM) (n : Nat) : (lenWire m n).length = m.width + 1 := by
  simp [lenWire]

/-! ## the decoder, one marker at a time -/

theorem value_cons (f : Nat) (m : UInt8) (b : Bytes) : value (f + 1) (m :: b) = payload f m b := by
  rw [value]

theorem payload_null (f : Nat) (b : Bytes) : payload (f + 1) 0x5a b = .ok (.null, b) := by
  unfold payload; rfl
theorem payload_tru (f : Nat) (b : Bytes) : payload (f + 1) 0x54 b = .ok (.bool true, b) := by
  unfold payload; rfl
theorem payload_fals (f : Nat) (b : Bytes) : payload (f + 1) 0x46 b = .ok (.bool false, b) := by
  unfold payload; rfl
theorem payload_int (f : Nat) (m : IM) (b r : Bytes) (v : Int) (h : readInt m.byte b = .ok (v, r)) :
    payload (f + 1) m.byte b = .ok (.int v, r) := by
  unfold payload
  cases m <;> simp only [IM.byte] at h ⊢ <;> simp +decide [h]
theorem payload_char (f : Nat) (c : UInt8) (r : Bytes) : payload (f + 1) 0x43 (c :: r) = .ok (.int c.toNat, r) := by
  unfold payload; rfl
theorem payload_f32 (f : Nat) (a r : Bytes) (h : a.length = 4) :
    payload (f + 1) 0x64 (a ++ r) = .ok (.f32 (UInt32.ofNat (beNat a)), r) := by
  unfold payload
  simp +decide [takeN_append a r 4 h]
theorem payload_f64 (f : Nat) (a r : Bytes) (h : a.length = 8) :
    payload (f + 1) 0x44 (a ++ r) = .ok (.f64 (UInt64.ofNat (beNat a)), r) := by
  unfold payload
  simp +decide [takeN_append a r 8 h]
theorem payload_str (f : Nat) (b r1 r2 s : Bytes) (n : Nat) (h1 : readLen b = .ok (n, r1))
    (h2 : takeN r1 n = .ok (s, r2)) : payload (f + 1) 0x53 b = .ok (.str s, r2) := by
  unfold payload
  simp +decide [h1, h2]
theorem payload_hp (f : Nat) (b r1 r2 s : Bytes) (n : Nat) (h1 : readLen b = .ok (n, r1))
    (h2 : takeN r1 n = .ok (s, r2)) : payload (f + 1) 0x48 b = .ok (.str s, r2) := by
  unfold payload
  simp +decide [h1, h2]
theorem payload_arr (f : Nat) (b : Bytes) : payload (f + 1) 0x5b b = array f b := by
  unfold payload; rfl
theorem payload_obj (f : Nat) (b : Bytes) : payload (f + 1) 0x7b b = object f b := by
  unfold payload; rfl

theorem array_plain (f : Nat) (c : UInt8) (b r : Bytes) (xs : List Val) (h1 : c ≠ 0x24) (h2 : c ≠ 0x23)
    (h : plainElems f (c :: b) = .ok (xs, r)) : array (f + 1) (c :: b) = .ok (.arr xs, r) := by
  unfold array
  simp [h1, h2, h]
theorem array_count (f : Nat) (b r1 r2 : Bytes) (n : Nat) (xs : List Val) (h1 : readLen b = .ok (n, r1))
    (h2 : n ≤ r1.length) (h : countedElems f n r1 = .ok (xs, r2)) :
    array (f + 1) (0x23 :: b) = .ok (.arr xs, r2) := by
  unfold array
  have : ¬ (r1.length < n) := by omega
  simp +decide [h1, this, h]
theorem array_typed (f : Nat) (t : UInt8) (b r1 r2 : Bytes) (n : Nat) (xs : List Val)
    (ht : typeOk t = true) (h1 : readLen b = .ok (n, r1)) (h : typedElems f t n r1 = .ok (xs, r2)) :
    array (f + 1) (0x24 :: t :: 0x23 :: b) = .ok (.arr xs, r2) := by
  have hty : isTypeMarker t = true := by
    simp only [typeOk, Bool.and_eq_true] at ht; exact ht.1.1.1
  have hn : (t == 0x4e) = false := by
    cases hc : (t == 0x4e) with
    | false => rfl
    | true =>
      have : t = 0x4e := by simpa using hc
      subst this
      exact absurd hty (by decide)
  unfold array
  simp +decide [hn, hty, h1, h]

theorem typeOk_ne (t : UInt8) (ht : typeOk t = true) : (t == 0x5a || t == 0x54 || t == 0x46) = false := by
  simp only [typeOk, Bool.and_eq_true, bne_iff_ne, ne_eq] at ht
  simp [ht.1.1.2, ht.1.2, ht.2]

theorem typedElems_loop (f : Nat) (t : UInt8) (n : Nat) (b : Bytes) (ht : typeOk t = true) (hn : n ≤ b.length) :
    typedElems (f + 1) t n b = typedLoop f t n b := by
  unfold typedElems
  have : ¬ (b.length < n) := by omega
  simp [typeOk_ne t ht, this]

theorem typedLoop_zero (f : Nat) (t : UInt8) (b : Bytes) : typedLoop f t 0 b = .ok ([], b) := by
  unfold typedLoop; rfl
theorem typedLoop_succ (f : Nat) (t : UInt8) (n : Nat) (b r1 r2 : Bytes) (v : Val) (vs : List Val)
    (h1 : payload f t b = .ok (v, r1)) (h2 : typedLoop f t n r1 = .ok (vs, r2)) :
    typedLoop (f + 1) t (n + 1) b = .ok (v :: vs, r2) := by
  rw [typedLoop]; simp [h1, h2]

theorem skipNoops_cons (c : UInt8) (b : Bytes) (h : c ≠ 0x4e) : skipNoops (c :: b) = c :: b := by
  rw [skipNoops]
  intro r hr
  simp only [List.cons.injEq] at hr
  exact h hr.1

theorem plainElems_nil (f : Nat) (r : Bytes) : plainElems (f + 1) (0x5d :: r) = .ok ([], r) := by
  rw [plainElems, skipNoops_cons _ _ (by decide)]; rfl
theorem plainElems_cons (f : Nat) (c : UInt8) (b r1 r2 : Bytes) (v : Val) (vs : List Val)
    (hc : c ≠ 0x4e) (hc2 : c ≠ 0x5d) (h1 : value f (c :: b) = .ok (v, r1))
    (h2 : plainElems f r1 = .ok (vs, r2)) : plainElems (f + 1) (c :: b) = .ok (v :: vs, r2) := by
  rw [plainElems, skipNoops_cons _ _ hc]
  simp [hc2, h1, h2]

theorem countedElems_zero (f : Nat) (b : Bytes) : countedElems f 0 b = .ok ([], b) := by
  unfold countedElems; rfl
theorem countedElems_succ (f n : Nat) (c : UInt8) (b r1 r2 : Bytes) (v : Val) (vs : List Val)
    (hc : c ≠ 0x4e) (h1 : value f (c :: b) = .ok (v, r1))
    (h2 : countedElems f n r1 = .ok (vs, r2)) : countedElems (f + 1) (n + 1) (c :: b) = .ok (v :: vs, r2) := by
  rw [countedElems, skipNoops_cons _ _ hc]
  simp [h1, h2]

theorem object_plain (f : Nat) (c : UInt8) (b r : Bytes) (ms : List (Bytes × Val)) (h1 : c ≠ 0x24) (h2 : c ≠ 0x23)
    (h : plainMems f (c :: b) = .ok (ms, r)) : object (f + 1) (c :: b) = .ok (.obj ms, r) := by
  unfold object
  simp [h1, h2, h]
theorem object_count (f : Nat) (b r1 r2 : Bytes) (n : Nat) (ms : List (Bytes × Val)) (h1 : readLen b = .ok (n, r1))
    (h2 : n ≤ r1.length) (h : countedMems f n r1 = .ok (ms, r2)) :
    object (f + 1) (0x23 :: b) = .ok (.obj ms, r2) := by
  unfold object
  have : ¬ (r1.length < n) := by omega
  simp +decide [h1, this, h]
theorem object_typed (f : Nat) (t : UInt8) (b r1 r2 : Bytes) (n : Nat) (ms : List (Bytes × Val))
    (ht : typeOk t = true) (h1 : readLen b = .ok (n, r1)) (h2 : n ≤ r1.length)
    (h : typedMems f t n r1 = .ok (ms, r2)) :
    object (f + 1) (0x24 :: t :: 0x23 :: b) = .ok (.obj ms, r2) := by
  have hty : isTypeMarker t = true := by
    simp only [typeOk, Bool.and_eq_true] at ht; exact ht.1.1.1
  have hn : (t == 0x4e) = false := by
    cases hc : (t == 0x4e) with
    | false => rfl
    | true =>
      have : t = 0x4e := by simpa using hc
      subst this
      exact absurd hty (by decide)
  have : ¬ (r1.length < n) := by omega
  unfold object
  simp +decide [hn, hty, h1, this, h]

theorem plainMems_nil (f : Nat) (r : Bytes) : plainMems (f + 1) (0x7d :: r) = .ok ([], r) := by
  rw [plainMems]; rfl

/-- the `0x4e :: _` test between key and value -/
theorem noop_match {α : Type} (c : UInt8) (b : Bytes) (hc : c ≠ 0x4e) (x y : α) :
    (match c :: b with
      | 0x4e :: _ => x
      | _ => y) = y := by
  split
  · rename_i r heq
    simp only [List.cons.injEq] at heq
    exact absurd heq.1 hc
  · rfl

theorem plainMems_cons (f : Nat) (c d : UInt8) (b r1 r2 r3 k : Bytes) (v : Val) (ms : List (Bytes × Val))
    (hc : c ≠ 0x7d) (hk : key (c :: b) = .ok (k, d :: r1)) (hd : d ≠ 0x4e)
    (h1 : value f (d :: r1) = .ok (v, r2)) (h2 : plainMems f r2 = .ok (ms, r3)) :
    plainMems (f + 1) (c :: b) = .ok ((k, v) :: ms, r3) := by
  rw [plainMems]
  simp only [beq_iff_eq, hc, if_false, hk]
  split
  · rename_i r heq
    simp only [List.cons.injEq] at heq
    exact absurd heq.1 hd
  · simp [h1, h2]

theorem countedMems_zero (f : Nat) (b : Bytes) : countedMems f 0 b = .ok ([], b) := by
  unfold countedMems; rfl
theorem countedMems_succ (f n : Nat) (d : UInt8) (b r1 r2 r3 k : Bytes) (v : Val) (ms : List (Bytes × Val))
    (hk : key b = .ok (k, d :: r1)) (hd : d ≠ 0x4e)
    (h1 : value f (d :: r1) = .ok (v, r2)) (h2 : countedMems f n r2 = .ok (ms, r3)) :
    countedMems (f + 1) (n + 1) b = .ok ((k, v) :: ms, r3) := by
  rw [countedMems]
  simp only [hk]
  split
  · rename_i r heq
    simp only [List.cons.injEq] at heq
    exact absurd heq.1 hd
  · simp [h1, h2]

theorem typedMems_zero (f : Nat) (t : UInt8) (b : Bytes) : typedMems f t 0 b = .ok ([], b) := by
  unfold typedMems; rfl
theorem typedMems_succ (f n : Nat) (t : UInt8) (b r1 r2 r3 k : Bytes) (v : Val) (ms : List (Bytes × Val))
    (hk : key b = .ok (k, r1)) (h1 : payload f t r1 = .ok (v, r2)) (h2 : typedMems f t n r2 = .ok (ms, r3)) :
    typedMems (f + 1) t (n + 1) b = .ok ((k, v) :: ms, r3) := by
  rw [typedMems]
  simp [hk, h1, h2]

end SF.Ubjson.Wire
