/-
  Targets with STRUCTS, part 1 (namespace `SF.Unf.Str`; the development for the struct-free family
  `TT` — SF/Proofs/UnfTy*.lean — stays as it is and its context-level lemmas are reused).

  The static TYPE of what a pointer points at replaces the finite shapes of `UnfTyShape`: `HasTy tbl t v`
  says that `v` is laid out like a value of type `t` as far as the unfolder states rely on it — slices are
  slices carrying the element type of `t` and so are their elements (visible or hidden in the capacity),
  maps are maps, structs have one value of the field's type per field; names are looked through
  (`GoType.un`).  The predicate is inductive over the VALUE, so it makes sense for self-referential types
  (`type Tree struct { Kids []Tree }`).  `TyAt tbl t r t'`: following the path `r` (field and index steps)
  from a value of type `t` leads to a value of type `t'`.
-/
import SF.Proofs.UnfTySet
namespace SF.Unf.Str
open SF SF.Unf

/-! ## names are looked through -/

theorem under_not_name (tbl : TypeTable) : ∀ (f : Nat) (t : GoType),
    (∀ n, t.under tbl f ≠ .ref n) ∧ (∀ n u, t.under tbl f ≠ .named n u) := by
  intro f
  induction f with
  | zero => intro t; exact ⟨fun n h => by simp [GoType.under] at h, fun n u h => by simp [GoType.under] at h⟩
  | succ f ih =>
    intro t
    cases t with
    | ref m =>
      simp only [GoType.under]
      cases tbl m with
      | none => exact ⟨fun n h => by simp at h, fun n u h => by simp at h⟩
      | some t' => exact ih t'
    | named m u => simp only [GoType.under]; exact ih u
    | _ => exact ⟨fun n h => by simp [GoType.under] at h, fun n u h => by simp [GoType.under] at h⟩

/-- a type that is no name is its own underlying type -/
theorem un_self (tbl : TypeTable) (t : GoType) (h1 : ∀ n, t ≠ .ref n) (h2 : ∀ n u, t ≠ .named n u) :
    t.un tbl = t := by
  cases t with
  | ref n => exact absurd rfl (h1 n)
  | named n u => exact absurd rfl (h2 n u)
  | _ => rfl

theorem un_un (tbl : TypeTable) (t : GoType) : (t.un tbl).un tbl = t.un tbl :=
  un_self tbl _ (under_not_name tbl _ t).1 (under_not_name tbl _ t).2

/-! ## the layout of a value of a type -/

/-- types whose values the unfolder states never look into: everything but slices, maps, structs -/
def Flat (tbl : TypeTable) (t : GoType) : Prop :=
  match t.un tbl with
  | .slice _ => False
  | .map _ => False
  | .struct _ _ => False
  | _ => True

/-- `v` is laid out like a value of type `t` -/
inductive HasTy (tbl : TypeTable) : GoType → GoVal → Prop
  | flat (t : GoType) (v : GoVal) : Flat tbl t → HasTy tbl t v
  | sliceNil (t e : GoType) : t.un tbl = .slice e → HasTy tbl t (.sliceNil e)
  | slice (t e : GoType) (es h : List GoVal) : t.un tbl = .slice e → (∀ x ∈ es, HasTy tbl e x) →
      (∀ x ∈ h, HasTy tbl e x) → HasTy tbl t (.slice e es h)
  | map (t e : GoType) (v : GoVal) : t.un tbl = .map e → isMapVal v → HasTy tbl t v
  | struct (t : GoType) (n : String) (fs : List (String × String × GoType)) (vs : List GoVal) :
      t.un tbl = .struct n fs → vs.length = fs.length →
      (∀ (i : Nat) (f : String × String × GoType) (x : GoVal), fs[i]? = some f → vs[i]? = some x → HasTy tbl f.2.2 x) →
      HasTy tbl t (.struct vs)

variable {tbl : TypeTable}

theorem Flat.congr {t t' : GoType} (h : t.un tbl = t'.un tbl) (hf : Flat tbl t) : Flat tbl t' := by
  unfold Flat at hf ⊢
  rw [← h]
  exact hf

/-- only the underlying type matters -/
theorem HasTy.congr {t t' : GoType} {v : GoVal} (h : t.un tbl = t'.un tbl) (hv : HasTy tbl t v) : HasTy tbl t' v := by
  cases hv with
  | flat _ _ hf => exact .flat _ _ (hf.congr h)
  | sliceNil _ e hu => exact .sliceNil _ e (h ▸ hu)
  | slice _ e es hd hu h1 h2 => exact .slice _ e es hd (h ▸ hu) h1 h2
  | map _ e _ hu hm => exact .map _ e _ (h ▸ hu) hm
  | struct _ n fs vs hu hl hf => exact .struct _ n fs vs (h ▸ hu) hl hf

theorem Flat.not_slice {t e : GoType} (hf : Flat tbl t) (hu : t.un tbl = .slice e) : False := by
  unfold Flat at hf; rw [hu] at hf; exact hf
theorem Flat.not_map {t e : GoType} (hf : Flat tbl t) (hu : t.un tbl = .map e) : False := by
  unfold Flat at hf; rw [hu] at hf; exact hf
theorem Flat.not_struct {t : GoType} {n : String} {fs : List (String × String × GoType)} (hf : Flat tbl t)
    (hu : t.un tbl = .struct n fs) : False := by
  unfold Flat at hf; rw [hu] at hf; exact hf

/-- a slice value with element type `e` -/
def sliceOf (e : GoType) (v : GoVal) : Prop := v = .sliceNil e ∨ ∃ es h, v = .slice e es h

theorem sliceOf.isSlice {e : GoType} {v : GoVal} (h : sliceOf e v) : isSliceVal v := by
  rcases h with rfl | ⟨es, hd, rfl⟩ <;> trivial

theorem HasTy.slice_inv {t e : GoType} {v : GoVal} (hu : t.un tbl = .slice e) (hv : HasTy tbl t v) :
    v = .sliceNil e ∨ ∃ es h, v = .slice e es h ∧ (∀ x ∈ es, HasTy tbl e x) ∧ (∀ x ∈ h, HasTy tbl e x) := by
  cases hv with
  | flat _ _ hf => exact (hf.not_slice hu).elim
  | sliceNil _ e' hu' => rw [hu] at hu'; injection hu' with h; subst h; exact Or.inl rfl
  | slice _ e' es hd hu' h1 h2 => rw [hu] at hu'; injection hu' with h; subst h; exact Or.inr ⟨es, hd, rfl, h1, h2⟩
  | map _ e' _ hu' _ => rw [hu] at hu'; cases hu'
  | struct _ n fs vs hu' _ _ => rw [hu] at hu'; cases hu'

theorem HasTy.sliceOf {t e : GoType} {v : GoVal} (hu : t.un tbl = .slice e) (hv : HasTy tbl t v) : sliceOf e v := by
  rcases hv.slice_inv hu with h | ⟨es, hd, h, _⟩
  · exact Or.inl h
  · exact Or.inr ⟨es, hd, h⟩

theorem HasTy.map_inv {t e : GoType} {v : GoVal} (hu : t.un tbl = .map e) (hv : HasTy tbl t v) : isMapVal v := by
  cases hv with
  | flat _ _ hf => exact (hf.not_map hu).elim
  | sliceNil _ e' hu' => rw [hu] at hu'; cases hu'
  | slice _ e' es hd hu' h1 h2 => rw [hu] at hu'; cases hu'
  | map _ e' _ _ hm => exact hm
  | struct _ n fs vs hu' _ _ => rw [hu] at hu'; cases hu'

theorem HasTy.struct_inv {t : GoType} {n : String} {fs : List (String × String × GoType)} {v : GoVal}
    (hu : t.un tbl = .struct n fs) (hv : HasTy tbl t v) :
    ∃ vs, v = .struct vs ∧ vs.length = fs.length ∧
      ∀ (i : Nat) (f : String × String × GoType) (x : GoVal), fs[i]? = some f → vs[i]? = some x → HasTy tbl f.2.2 x := by
  cases hv with
  | flat _ _ hf => exact (hf.not_struct hu).elim
  | sliceNil _ e' hu' => rw [hu] at hu'; cases hu'
  | slice _ e' es hd hu' h1 h2 => rw [hu] at hu'; cases hu'
  | map _ e' _ hu' _ => rw [hu] at hu'; cases hu'
  | struct _ n' fs' vs hu' hl hf =>
    rw [hu] at hu'
    injection hu' with h1 h2
    subst h1; subst h2
    exact ⟨vs, rfl, hl, hf⟩

/-- every slice value of element type `e` is a value of a slice type whose elements are flat -/
theorem hasTy_of_sliceOf {t e : GoType} {v : GoVal} (hu : t.un tbl = .slice e) (hf : Flat tbl e) (hv : sliceOf e v) :
    HasTy tbl t v := by
  rcases hv with rfl | ⟨es, hd, rfl⟩
  · exact .sliceNil _ _ hu
  · exact .slice _ _ _ _ hu (fun x _ => .flat _ _ hf) (fun x _ => .flat _ _ hf)

theorem hasTy_of_isMap {t e : GoType} {v : GoVal} (hu : t.un tbl = .map e) (hv : isMapVal v) : HasTy tbl t v :=
  .map _ _ _ hu hv

/-! ## types along a path -/

/-- following `r` from a value of type `t` leads to a value of type `t'` -/
inductive TyAt (tbl : TypeTable) : GoType → List Step → GoType → Prop
  | nil (t : GoType) : TyAt tbl t [] t
  | index (t e : GoType) (i : Nat) (r : List Step) (t' : GoType) : t.un tbl = .slice e → TyAt tbl e r t' →
      TyAt tbl t (.index i :: r) t'
  | field (t : GoType) (n : String) (fs : List (String × String × GoType)) (i : Nat) (f : String × String × GoType)
      (r : List Step) (t' : GoType) : t.un tbl = .struct n fs → fs[i]? = some f → TyAt tbl f.2.2 r t' →
      TyAt tbl t (.field i :: r) t'

theorem TyAt.append {a b d : GoType} {r s : List Step} (h1 : TyAt tbl a r b) (h2 : TyAt tbl b s d) :
    TyAt tbl a (r ++ s) d := by
  induction h1 with
  | nil t => exact h2
  | index t e i r t' hu _ ih => exact .index t e i (r ++ s) d hu (ih h2)
  | field t n fs i f r t' hu hf _ ih => exact .field t n fs i f (r ++ s) d hu hf (ih h2)

theorem TyAt.snoc_index {a t e : GoType} {r : List Step} (h : TyAt tbl a r t) (hu : t.un tbl = .slice e) (i : Nat) :
    TyAt tbl a (r ++ [.index i]) e :=
  h.append (.index t e i [] e hu (.nil e))

theorem TyAt.congr {t t' d : GoType} {r : List Step} (hu : t.un tbl = t'.un tbl) (hr : r ≠ []) (h : TyAt tbl t r d) :
    TyAt tbl t' r d := by
  cases h with
  | nil _ => exact absurd rfl hr
  | index _ e i r d hu' h' => exact .index _ e i r d (hu ▸ hu') h'
  | field _ n fs i f r d hu' hf h' => exact .field _ n fs i f r d (hu ▸ hu') hf h'

/-- what is found at the end of a path has the type the path leads to -/
theorem hasTy_get {t t' : GoType} {r : List Step} (hat : TyAt tbl t r t') : ∀ (a b : GoVal), HasTy tbl t a →
    a.get r = some b → HasTy tbl t' b := by
  induction hat with
  | nil t => intro a b ha hg; simp at hg; subst hg; exact ha
  | index t e i r t' hu _ ih =>
    intro a b ha hg
    obtain ⟨xs, i', x, hv, hx, hg'⟩ := get_cons_some a (.index i) r b hg
    cases hv
    rcases ha.slice_inv hu with h | ⟨es, hd, h, h1, _⟩
    · cases h
    · injection h with e1 e2 e3
      subst e1; subst e2; subst e3
      exact ih x b (h1 x (List.mem_of_getElem? hx)) hg'
  | field t n fs i f r t' hu hf _ ih =>
    intro a b ha hg
    obtain ⟨xs, i', x, hv, hx, hg'⟩ := get_cons_some a (.field i) r b hg
    cases hv
    obtain ⟨vs, h, _, hall⟩ := ha.struct_inv hu
    injection h with h
    subst h
    exact ih x b (hall i f x hf hx) hg'

/-- a store of a value of the right type inside a value of type `t` keeps it a value of type `t` -/
theorem hasTy_set {t t' : GoType} {r : List Step} (hat : TyAt tbl t r t') : ∀ (a w a' : GoVal), HasTy tbl t a →
    a.set r w = some a' → HasTy tbl t' w → HasTy tbl t a' := by
  induction hat with
  | nil t => intro a w a' _ hs hw; simp at hs; subst hs; exact hw
  | index t e i r t' hu _ ih =>
    intro a w a' ha hs hw
    obtain ⟨xs, i', x, x', hv, hx, hs', rfl⟩ := set_cons_some a (.index i) r w a' hs
    cases hv
    rcases ha.slice_inv hu with h | ⟨es, hd, h, h1, h2⟩
    · cases h
    · injection h with e1 e2 e3
      subst e1; subst e2; subst e3
      have hx' : HasTy tbl _ x' := ih x w x' (h1 x (List.mem_of_getElem? hx)) hs' hw
      refine .slice _ _ _ _ hu ?_ h2
      intro y hy
      rcases mem_set_cases _ _ _ _ hy with h | h
      · subst h; exact hx'
      · exact h1 y h
  | field t n fs i f r t' hu hf _ ih =>
    intro a w a' ha hs hw
    obtain ⟨xs, i', x, x', hv, hx, hs', rfl⟩ := set_cons_some a (.field i) r w a' hs
    cases hv
    obtain ⟨vs, h, hl, hall⟩ := ha.struct_inv hu
    injection h with h
    subst h
    have hx' : HasTy tbl f.2.2 x' := ih x w x' (hall i f x hf hx) hs' hw
    refine .struct _ n fs _ hu (by simpa using hl) ?_
    intro j g y hg hy
    by_cases hji : j = i
    · subst hji
      have hlt : j < xs.length := by
        rcases Nat.lt_or_ge j xs.length with h | h
        · exact h
        · rw [List.getElem?_eq_none h] at hx; cases hx
      rw [List.getElem?_set_self hlt] at hy
      injection hy with hy
      subst hy
      rw [hf] at hg
      injection hg with hg
      subst hg
      exact hx'
    · rw [List.getElem?_set_ne (Ne.symm hji)] at hy
      exact hall j g y hg hy

/-! ## what a frame relies on beyond the type -/

/-- refinements: a slice of at least `n` elements, a non-nil map -/
inductive Rf
  | none
  | minLen (n : Nat)
  | nonNil
  deriving Inhabited, DecidableEq

def Rf.ok : Rf → GoVal → Prop
  | .none, _ => True
  | .minLen n, .slice _ es _ => n ≤ es.length
  | .minLen n, .sliceNil _ => n = 0
  | .minLen _, _ => False
  | .nonNil, v => isMapNN v

/-- a store below a value does not change how long it is, or whether it is nil -/
theorem rf_set (rf : Rf) (a w a' : GoVal) (st : Step) (r : List Step) (hs : a.set (st :: r) w = some a')
    (h : rf.ok a) : rf.ok a' := by
  obtain ⟨xs, i, x, x', hv, hx, _, rfl⟩ := set_cons_some a st r w a' hs
  cases hv with
  | field fs i => cases rf <;> first | trivial | exact h
  | index et es hd i =>
    cases rf with
    | none => trivial
    | minLen n => simp only [rebuild, Rf.ok, List.length_set]; exact h
    | nonNil => exact h

theorem Rf.minLen_mono {n m : Nat} {v : GoVal} (h : m ≤ n) (hv : (Rf.minLen n).ok v) : (Rf.minLen m).ok v := by
  cases v <;> simp only [Rf.ok] at hv ⊢ <;> omega

/-! ## live pointers -/

/-- a live pointer, the static type of what it points at, and what its owner relies on beyond it -/
abbrev LP := Path × GoType × Rf

/-- `Rel lo up`: writing a value of `up`'s type through `up`'s pointer keeps what `lo`'s owner relies on:
different roots, or `up` points into `*lo` along a path that leads from `lo`'s type to `up`'s type -/
def Rel (tbl : TypeTable) (lo up : LP) : Prop :=
  lo.1.root ≠ up.1.root ∨
  (lo.1.root = up.1.root ∧ ∃ r, up.1.steps = lo.1.steps ++ r ∧ TyAt tbl lo.2.1 r up.2.1 ∧ (r = [] → lo.2.2 = .none))

def MemOK (tbl : TypeTable) (c : Ctx) (live : List LP) : Prop :=
  ∀ x ∈ live, ∃ v, deref c x.1 = some v ∧ HasTy tbl x.2.1 v ∧ x.2.2.ok v

theorem MemOK.cons {c : Ctx} {x : LP} {l : List LP} (h : MemOK tbl c (x :: l)) : MemOK tbl c l :=
  fun y hy => h y (List.mem_cons_of_mem _ hy)

/-- THE STORE LEMMA: writing a value of its type through the top live pointer keeps every live pointer
below it resolving to what its owner relies on -/
theorem memOK_store (c : Ctx) (q : Path) (tq : GoType) (rfq : Rf) (rest : List LP) (w old : GoVal)
    (hrel : ∀ y ∈ rest, Rel tbl y (q, tq, rfq)) (hm : MemOK tbl c rest) (hq : deref c q = some old)
    (hw : HasTy tbl tq w) : MemOK tbl (storeAt c q w) rest := by
  intro y hy
  obtain ⟨v, hv, hok, hrf⟩ := hm y hy
  rcases hrel y hy with hne | ⟨heq, r, hst, hat, hnil⟩
  · exact ⟨v, by rw [deref_storeAt_other c q y.1 w old hq hne]; exact hv, hok, hrf⟩
  · obtain ⟨a', ha1, ha2⟩ := deref_storeAt_prefix c q y.1 r w old v hq heq hst hv
    refine ⟨a', ha2, hasTy_set hat v w a' hok ha1 hw, ?_⟩
    cases r with
    | nil => rw [hnil rfl]; trivial
    | cons st r => exact rf_set _ v w a' st r ha1 hrf

theorem MemOK.same_deref {c c' : Ctx} {l : List LP} (h : MemOK tbl c l) (hd : ∀ x ∈ l, deref c' x.1 = deref c x.1) :
    MemOK tbl c' l := by
  intro x hx
  obtain ⟨v, hv, hok⟩ := h x hx
  exact ⟨v, by rw [hd x hx]; exact hv, hok⟩

theorem MemOK.grow {c c' : Ctx} {l : List LP} (h : MemOK tbl c l)
    (hg : ∀ p v, deref c p = some v → deref c' p = some v) : MemOK tbl c' l := by
  intro x hx
  obtain ⟨v, hv, hok⟩ := h x hx
  exact ⟨v, hg x.1 v hv, hok⟩

end SF.Unf.Str
