/-
  Typed targets, part 12: a fresh `reflect.New` cell (`prepare` of `unfolderReflMapOnElem` /
  `unfolderReflPtr`), and `initState` of a compiled unfolder on a pointer.
-/
import SF.Proofs.UnfTyRefl3
namespace SF.Unf
open SF

variable {D : Nat} {base : S6} {fs : List Frame} {c : Ctx}

theorem reflPtrPrepare_eq (et : GoType) : reflPtrPrepare et = reflMapOnElemPrepare et := rfl

/-- the frames whose `prepare` allocates a cell -/
def Frame.takesCell : Frame → Prop
  | .rmE _ _ _ _ => True
  | .rp _ _ _ => True
  | _ => False

/-- the context after `prepare` -/
def cellCtx (c : Ctx) (et : GoType) : Ctx :=
  { c with cells := c.cells.push (zero c.env et), value := c.value.push (some ⟨.cell c.cells.size, []⟩) }

/-- `prepare`: a fresh zeroed cell, its pointer on the value stack -/
theorem prepare_cell (et : GoType) (G : Frame) (hG : G.takesCell) (h : Inv D base (G :: fs) c) :
    ∃ c1, reflMapOnElemPrepare et c = .ok (some ⟨.cell c.cells.size, []⟩) c1 ∧
      Inv D base (.cellx ⟨.cell c.cells.size, []⟩ :: G :: fs) c1 ∧
      deref c1 ⟨.cell c.cells.size, []⟩ = some (zero c.env et) ∧ c1.env = c.env := by
  have hrun : reflMapOnElemPrepare et c = .ok (some ⟨.cell c.cells.size, []⟩) (cellCtx c et) := by
    simp [reflMapOnElemPrepare, bind_def, newCell, pushValue, modifyCtx, pure_def, cellCtx]
  have hcell : deref (cellCtx c et) ⟨.cell c.cells.size, []⟩ = some (zero c.env et) := by
    simp [deref, rootVal, cellCtx]
  obtain ⟨hu, hp, hv, hk, hi, hb⟩ := s6_eq _ _ h.stacks
  refine ⟨_, hrun, ⟨?_, ⟨⟨rfl, h.fresh_cells, ?_⟩, h.wfs⟩, ?_, ?_, ?_, ?_⟩, hcell, rfl⟩
  · exact s6_mk _ _ (by simp [stacksOf, Frame.push, hu, cellCtx]) (by simp [stacksOf, Frame.push, hp, cellCtx])
      (by simp [stacksOf, Frame.push, hv, cellCtx]) (by simp [stacksOf, Frame.push, hk, cellCtx])
      (by simp [stacksOf, Frame.push, hi, cellCtx]) (by simp [stacksOf, Frame.push, hb, cellCtx])
  · cases G <;> first | trivial | exact hG.elim
  · intro x hx
    simp only [liveOf, List.map_cons, List.mem_cons] at hx
    rcases hx with rfl | hx
    · exact ⟨_, hcell, flat_ok _⟩
    · refine (h.mem.grow ?_) x (by simpa [liveOf] using hx)
      intro p v hd
      exact deref_grow c (cellCtx c et) rfl (fun n v h => push_getElem?_of_some _ _ _ _ h) (fun _ _ h => h)
        (fun _ _ h => h) (fun _ _ h => h) p v hd
  · exact h.nA
  · exact h.nMA
  · exact h.nMP

/-- the frame `initState` pushes -/
def waitF : RU → Path → Frame
  | .lifted (.prim k), q => .prim k q
  | .lifted (.arr k), q => .arrS k q
  | .lifted (.map k), q => .mapS k q
  | .slice e ru, q => .rslS e ru q
  | .map e ru, q => .rmS e ru q
  | .ptr e ru, q => .rp e ru q
  | _, q => .prim .ifc q

theorem waitF_live (ru : RU) (q : Path) (h : ru.ok) : (waitF ru q).live = (q, ru.req) := by
  cases ru with
  | lifted p => cases p <;> rfl
  | struct _ => exact h.elim
  | ref _ => exact h.elim
  | _ => rfl

/-- `reflUnfolder.initState` on a pointer that resolves to a value of the shape the unfolder
expects -/
theorem init_at (ru : RU) (q : Path) (hok : ruOK D ru) (h : Inv D base fs c)
    (hatt : ∀ a, Attach q ru.req a fs) (x : GoVal) (hx : deref c q = some x) (hxok : ru.req.ok x) :
    ∃ c', initStateRU ru (some q) c = .ok () c' ∧ Inv D base (waitF ru q :: fs) c' ∧ c'.env = c.env ∧
      c'.whatIfFixed = c.whatIfFixed := by
  obtain ⟨hu, hp, hv, hk, hi, hb⟩ := s6_eq _ _ h.stacks
  have key : ∀ c' : Ctx, c'.mem = c.mem → c'.s6 = stacksOf base (waitF ru q :: fs) → Born D (waitF ru q) fs →
      cntA (waitF ru q :: fs) = cntA fs → cntMA (waitF ru q :: fs) = cntMA fs →
      cntMP (waitF ru q :: fs) = cntMP fs → Inv D base (waitF ru q :: fs) c' := by
    intro c' hm hs hborn hA hMA hMP
    have hvb : c'.valueBuffer = c.valueBuffer := by
      simp only [Ctx.mem, Prod.mk.injEq] at hm; exact hm.2.2
    refine ⟨hs, ⟨hborn, h.wfs⟩, ?_, by rw [hvb, h.nA, hA], by rw [hvb, h.nMA, hMA], by rw [hvb, h.nMP, hMP]⟩
    intro y hy
    simp only [liveOf, List.map_cons, List.mem_cons] at hy
    rcases hy with rfl | hy
    · rw [waitF_live ru q hok.1]
      exact ⟨x, (deref_congr c c' hm q).trans hx, hxok⟩
    · exact (h.mem.congr hm) y (by simpa [liveOf] using hy)
  cases ru with
  | lifted pu =>
    cases pu with
    | prim k =>
      refine ⟨{ c with unfolder := c.unfolder.push (.prim k), ptr := c.ptr.push (some q) },
        by simp [initStateRU, bind_def, resolveRU, initStatePU, primInitState, pushU, pushPtr, modifyCtx],
        key _ rfl ?_ (hatt none) rfl rfl rfl, rfl, rfl⟩
      exact s6_mk _ _ (by simp [waitF, stacksOf, Frame.push, hu]) (by simp [waitF, stacksOf, Frame.push, hp])
        (by simp [waitF, stacksOf, Frame.push, hv]) (by simp [waitF, stacksOf, Frame.push, hk])
        (by simp [waitF, stacksOf, Frame.push, hi]) (by simp [waitF, stacksOf, Frame.push, hb])
    | arr k =>
      refine ⟨{ c with unfolder := (c.unfolder.push (.arr k)).push (.arrStart k), idx := c.idx.push 0,
                       ptr := c.ptr.push (some q) },
        by simp [initStateRU, bind_def, resolveRU, initStatePU, arrInitState, pushU, pushPtr, pushIdx, modifyCtx],
        key _ rfl ?_ (hatt _) rfl rfl rfl, rfl, rfl⟩
      exact s6_mk _ _ (by simp [waitF, stacksOf, Frame.push, hu]) (by simp [waitF, stacksOf, Frame.push, hp])
        (by simp [waitF, stacksOf, Frame.push, hv]) (by simp [waitF, stacksOf, Frame.push, hk])
        (by simp [waitF, stacksOf, Frame.push, hi]) (by simp [waitF, stacksOf, Frame.push, hb])
    | map k =>
      refine ⟨{ c with unfolder := (c.unfolder.push (.mapKey k)).push (.mapStart k), ptr := c.ptr.push (some q) },
        by simp [initStateRU, bind_def, resolveRU, initStatePU, mapInitState, pushU, pushPtr, modifyCtx],
        key _ rfl ?_ (hatt _) rfl rfl rfl, rfl, rfl⟩
      exact s6_mk _ _ (by simp [waitF, stacksOf, Frame.push, hu]) (by simp [waitF, stacksOf, Frame.push, hp])
        (by simp [waitF, stacksOf, Frame.push, hv]) (by simp [waitF, stacksOf, Frame.push, hk])
        (by simp [waitF, stacksOf, Frame.push, hi]) (by simp [waitF, stacksOf, Frame.push, hb])
  | slice e elem =>
    refine ⟨{ c with value := c.value.push (some q),
                     unfolder := (c.unfolder.push (.reflSlice e elem)).push .reflSliceStart, idx := c.idx.push 0 },
      by simp [initStateRU, bind_def, resolveRU, pushValue, pushU, pushIdx, modifyCtx],
      key _ rfl ?_ ⟨hatt none, hok⟩ rfl rfl rfl, rfl, rfl⟩
    exact s6_mk _ _ (by simp [waitF, stacksOf, Frame.push, hu]) (by simp [waitF, stacksOf, Frame.push, hp])
      (by simp [waitF, stacksOf, Frame.push, hv]) (by simp [waitF, stacksOf, Frame.push, hk])
      (by simp [waitF, stacksOf, Frame.push, hi]) (by simp [waitF, stacksOf, Frame.push, hb])
  | map e elem =>
    refine ⟨{ c with value := c.value.push (some q),
                     unfolder := (c.unfolder.push (.reflMapOnKey e elem)).push .reflMapStart },
      by simp [initStateRU, bind_def, resolveRU, pushValue, pushU, modifyCtx],
      key _ rfl ?_ ⟨hatt none, hok⟩ rfl rfl rfl, rfl, rfl⟩
    exact s6_mk _ _ (by simp [waitF, stacksOf, Frame.push, hu]) (by simp [waitF, stacksOf, Frame.push, hp])
      (by simp [waitF, stacksOf, Frame.push, hv]) (by simp [waitF, stacksOf, Frame.push, hk])
      (by simp [waitF, stacksOf, Frame.push, hi]) (by simp [waitF, stacksOf, Frame.push, hb])
  | ptr e elem =>
    refine ⟨{ c with value := c.value.push (some q), unfolder := c.unfolder.push (.reflPtr e elem) },
      by simp [initStateRU, bind_def, resolveRU, pushValue, pushU, modifyCtx],
      key _ rfl ?_ ⟨hatt none, hok⟩ rfl rfl rfl, rfl, rfl⟩
    exact s6_mk _ _ (by simp [waitF, stacksOf, Frame.push, hu]) (by simp [waitF, stacksOf, Frame.push, hp])
      (by simp [waitF, stacksOf, Frame.push, hv]) (by simp [waitF, stacksOf, Frame.push, hk])
      (by simp [waitF, stacksOf, Frame.push, hi]) (by simp [waitF, stacksOf, Frame.push, hb])
  | struct _ => exact hok.1.elim
  | ref _ => exact hok.1.elim

end SF.Unf
