/-
  Helper lemmas for C18 (CBOR pull decoder over a reader): ONE CALL OF `Decoder.Next` on a
  reader script computes what the fuel-free loop `Until` (SF/Proofs/CborDecUntil.lean)
  computes on the CONCATENATION of the buffered bytes and of everything the reader is still
  going to return — whatever the split into reads (`next_until`, `next_canon`).
  Property theorems: SF/Proofs/CborDecReaderTop.lean.
-/
import SF.Proofs.CborDecUntil
import SF.Cbor.Dec
set_option linter.unusedSimpArgs false
set_option linter.unusedVariables false
namespace SF.Cbor.DecR
open SF SF.Cbor SF.Cbor.Cst SF.Cbor.Parse SF.Cbor.Dec
open SF.Props.C03 (startPending)
open SF.Cbor.Chunk

/-! ## unfolding `next` -/

/-- the inner function of `next`: run the parser on the buffer -/
def feedIt (fuel : Nat) (d : Dec) : Dec × NextRes :=
  let r := feedUntil (fuelFor d.buffer) d.p d.buffer
  match r.err with
  | some e => ({ d with p := r.p }, .err e)
  | none =>
    let d := { d with p := r.p, buffer := r.rest }
    if r.done then (d, .ok) else next fuel d

theorem next_succ (fuel : Nat) (d : Dec) :
    next (fuel + 1) d =
      if d.buffer.length == 0 then
        if !d.hasReader then (d, eof d)
        else
          match d.reads with
          | [] => (d, eof d)
          | c :: rest =>
            if c.length == 0 then next fuel { d with reads := rest, buffer := c }
            else feedIt fuel { d with reads := rest, buffer := c }
      else feedIt fuel d := by
  rw [next]
  rfl

theorem next_buf (fuel : Nat) (d : Dec) (h : d.buffer ≠ []) : next (fuel + 1) d = feedIt fuel d := by
  rw [next_succ]
  have : (d.buffer.length == 0) = false := by
    cases hb : d.buffer with
    | nil => exact absurd hb h
    | cons _ _ => simp
  simp only [this, Bool.false_eq_true, if_false]

theorem next_end (fuel : Nat) (d : Dec) (hb : d.buffer = []) (hrd : d.reads = []) :
    next (fuel + 1) d = (d, eof d) := by
  rw [next_succ]
  cases hr : d.hasReader <;> simp [hb, hr, hrd]

theorem next_empty_read (fuel : Nat) (d : Dec) (rest : List Bytes) (hb : d.buffer = [])
    (hr : d.hasReader = true) (hrd : d.reads = [] :: rest) :
    next (fuel + 1) d = next fuel { d with reads := rest, buffer := [] } := by
  rw [next_succ]
  simp [hb, hr, hrd]

theorem next_read (fuel : Nat) (d : Dec) (x : UInt8) (xs : Bytes) (rest : List Bytes) (hb : d.buffer = [])
    (hr : d.hasReader = true) (hrd : d.reads = (x :: xs) :: rest) :
    next (fuel + 1) d = feedIt fuel { d with reads := rest, buffer := x :: xs } := by
  rw [next_succ]
  simp [hb, hr, hrd]

/-! ## the specification of one call -/

/-- everything the decoder is still going to see: the buffered bytes, then all reads -/
def stream (d : Dec) : Bytes := d.buffer ++ d.reads.flatten

/-- a decoder over a reader, or a byte-slice decoder (`NewBytesDecoder`: no reader, hence no
read script) -/
def RdOK (d : Dec) : Prop := d.hasReader = true ∨ d.reads = []

/-- loop iterations one call of `Next` needs at most: one per remaining read, one for the
buffered bytes, one for the end of the stream -/
def need (d : Dec) : Nat := d.reads.length + min d.buffer.length 1 + 1

/-- the end-of-stream verdict depends on the parser only -/
def eofP (p : P) : NextRes := eof { p := p }

theorem eof_eq (d : Dec) : eof d = eofP d.p := rfl

/-- the outcome `x` of a call of `Next` matches the result `r` of the parser loop over the
whole remaining stream -/
structure Post (r : R) (x : Dec × NextRes) : Prop where
  /-- the loop fails: `Next` returns that error, after the same events -/
  err : ∀ e, r.err = some e → x.2 = .err e ∧ x.1.p.evs = r.p.evs
  /-- the loop completes a value: `Next` succeeds in the same parser state and keeps exactly
  the unconsumed rest of the stream -/
  ok : r.err = none → r.done = true →
    x.2 = .ok ∧ x.1.p = r.p ∧ stream x.1 = r.rest ∧ RdOK x.1
  /-- the stream ends before a value is complete: the end-of-stream verdict of the state reached -/
  eof : r.err = none → r.done = false → x.2 = eofP r.p ∧ x.1.p = r.p

theorem Post.of_sim {r2 r : R} {x : Dec × NextRes} (h : Post r2 x) (hs : Chunk.Sim r2 r) : Post r x := by
  obtain ⟨s1, s2, s3⟩ := hs
  refine ⟨fun e he => ?_, fun he hd => ?_, fun he hd => ?_⟩
  · have := h.err e (by rw [← s1]; exact he)
    exact ⟨this.1, by rw [s2]; exact this.2⟩
  · have he2 : r2.err = none := by rw [← s1]; exact he
    have := s3 he2; subst this
    exact h.ok he hd
  · have he2 : r2.err = none := by rw [← s1]; exact he
    have := s3 he2; subst this
    exact h.eof he hd

theorem until_exists (p : P) (b : Bytes) (hI : Chunk.Inv p) (hm : More p b) : ∃ r, Until p b r :=
  ⟨_, feedUntil_fuelFor p b hI hm⟩

/-- what the statement below says about a decoder state `d` and an amount of fuel -/
def NextOK (fuel : Nat) (d : Dec) : Prop :=
  (stream d = [] → (next fuel d).2 = eof d ∧ (next fuel d).1.p = d.p) ∧
  (stream d ≠ [] → ∀ r, Until d.p (stream d) r → Post r (next fuel d))

/-- running the parser on a non-empty buffer, given the statement for the recursive call -/
theorem feedIt_ok (fuel : Nat) (d : Dec) (hr : RdOK d) (hg : Good d.p)
    (hb : d.buffer ≠ [])
    (ih : ∀ d' : Dec, RdOK d' → Good d'.p → startPending d'.p = false → d'.buffer = [] →
      d'.reads = d.reads → NextOK fuel d')
    (r : R) (hU : Until d.p (stream d) r) : Post r (feedIt fuel d) := by
  have hm : More d.p d.buffer := Or.inl hb
  have hU1 := feedUntil_fuelFor d.p d.buffer hg.inv hm
  obtain ⟨sp1, sp2, sp3⟩ := until_split hU1 d.reads.flatten hg hm
  unfold feedIt
  simp only []
  generalize feedUntil (fuelFor d.buffer) d.p d.buffer = r1 at hU1 sp1 sp2 sp3
  cases he : r1.err with
  | some e =>
    simp only []
    obtain ⟨r', q1, q2, q3⟩ := sp1 e he
    have := Until.det hU q1; subst this
    refine ⟨fun e' he' => ?_, fun he' => ?_, fun he' => ?_⟩
    · rw [q2] at he'; injection he' with he'; subst he'
      exact ⟨rfl, q3.symm⟩
    · rw [q2] at he'; cases he'
    · rw [q2] at he'; cases he'
  | none =>
    simp only []
    obtain ⟨g1, g2, g3⟩ := hU1.post hg hm he
    by_cases hd : r1.done = true
    · simp only [hd, if_true]
      have := Until.det hU (sp2 he hd); subst this
      refine ⟨fun e' he' => ?_, fun _ _ => ⟨rfl, rfl, rfl, hr⟩, fun _ hd' => ?_⟩
      · simp [app, he] at he'
      · simp [app, hd] at hd'
    · have hd' : r1.done = false := by simpa using hd
      simp only [hd', Bool.false_eq_true, if_false]
      obtain ⟨hrest, hnp⟩ := g3 hd'
      have hih := ih { d with p := r1.p, buffer := r1.rest } hr g1 hnp hrest rfl
      have hstream : stream { d with p := r1.p, buffer := r1.rest } = d.reads.flatten := by
        simp [stream, hrest]
      rw [NextOK, hstream] at hih
      by_cases ht : d.reads.flatten = []
      · have : r = r1 := by
          have h' : stream d = d.buffer := by simp [stream, ht]
          rw [h'] at hU
          exact Until.det hU hU1
        subst this
        obtain ⟨e1, e2⟩ := hih.1 ht
        refine ⟨fun e' he' => (by rw [he] at he'; cases he'), fun _ hd'' => (by rw [hd'] at hd''; cases hd''),
          fun _ _ => ⟨e1, e2⟩⟩
      · obtain ⟨r2, hU2⟩ := until_exists r1.p d.reads.flatten g1.inv (Or.inl ht)
        obtain ⟨r2', q1, q2⟩ := sp3 he hd' ht r2 hU2
        have := Until.det hU q1; subst this
        exact (hih.2 ht r2 hU2).of_sim q2

/-- ONE CALL OF `Next`, for EVERY reader script: with `need d` loop iterations (or more) the
call behaves as the parser loop over the concatenation of the buffer and all remaining
reads — an empty stream yields the end-of-stream verdict of the current parser state -/
theorem next_until (fuel : Nat) (d : Dec) (hr : RdOK d) (hg : Good d.p)
    (hnp : startPending d.p = false) (hf : need d ≤ fuel) : NextOK fuel d := by
  induction fuel generalizing d with
  | zero => simp [need] at hf
  | succ fuel ih =>
    cases hb : d.buffer with
    | cons x xs =>
      have hb' : d.buffer ≠ [] := by rw [hb]; simp
      have hs : stream d ≠ [] := by simp [stream, hb]
      refine ⟨fun h => absurd h hs, fun _ r hU => ?_⟩
      rw [next_buf fuel d hb']
      refine feedIt_ok fuel d hr hg hb' (fun d' h1 h2 h3 h4 h5 => ih d' h1 h2 h3 ?_) r hU
      simp only [need, h4, h5, hb] at hf ⊢
      simp at hf ⊢; omega
    | nil =>
      cases hrd : d.reads with
      | nil =>
        have hs : stream d = [] := by simp [stream, hb, hrd]
        refine ⟨fun _ => ?_, fun h => absurd hs h⟩
        rw [next_end fuel d hb hrd]
        exact ⟨rfl, rfl⟩
      | cons c rest =>
        have hr' : d.hasReader = true := by
          rcases hr with h | h
          · exact h
          · rw [hrd] at h; cases h
        cases c with
        | nil =>
          rw [NextOK, next_empty_read fuel d rest hb hr' hrd]
          have hs : stream d = stream { d with reads := rest, buffer := [] } := by
            simp [stream, hb, hrd]
          rw [hs]
          exact ih { d with reads := rest, buffer := [] } (Or.inl hr') hg hnp (by
            simp only [need, hb, hrd] at hf ⊢
            simp at hf ⊢; omega)
        | cons x xs =>
          have hs : stream d = stream { d with reads := rest, buffer := x :: xs } := by
            simp [stream, hb, hrd]
          have hs' : stream d ≠ [] := by simp [stream, hb, hrd]
          refine ⟨fun h => absurd h hs', fun _ r hU => ?_⟩
          rw [next_read fuel d x xs rest hb hr' hrd]
          rw [hs] at hU
          refine feedIt_ok fuel { d with reads := rest, buffer := x :: xs } (Or.inl hr') hg (by simp)
            (fun d' h1 h2 h3 h4 h5 => ih d' h1 h2 h3 ?_) r hU
          simp only [need, h4, h5, hb, hrd] at hf ⊢
          simp at hf ⊢; omega

/-! ## the fuel of the model is sufficient -/

theorem need_le_nextFuel (d : Dec) : need d ≤ nextFuel d := by
  simp only [need, nextFuel]
  omega

/-! ## canonical form: the whole stream in one buffer -/

/-- the parser loop on the whole remaining stream at once, with the fuel the model hands out
for a buffer of that size (what a byte-slice decoder holding the stream would run) -/
def canon (d : Dec) : R := feedUntil (fuelFor (stream d)) d.p (stream d)

/-- ONE CALL OF `Next` IS INDEPENDENT OF THE READ SIZES: it is determined by the parser
state and the concatenation of buffer and remaining reads -/
theorem next_canon (fuel : Nat) (d : Dec) (hr : RdOK d) (hg : Good d.p)
    (hnp : startPending d.p = false) (hf : need d ≤ fuel) :
    (stream d = [] → (next fuel d).2 = eof d ∧ (next fuel d).1.p = d.p) ∧
    (stream d ≠ [] → Post (canon d) (next fuel d)) := by
  obtain ⟨h1, h2⟩ := next_until fuel d hr hg hnp hf
  exact ⟨h1, fun hs => h2 hs _ (feedUntil_fuelFor d.p (stream d) hg.inv (Or.inl hs))⟩

/-- the state after a successful call is again a state between two calls -/
theorem canon_ok_good (d : Dec) (hg : Good d.p) (hs : stream d ≠ []) (he : (canon d).err = none) :
    Good (canon d).p ∧ ((canon d).done = true → startPending (canon d).p = false) :=
  let h := (feedUntil_fuelFor d.p (stream d) hg.inv (Or.inl hs)).post hg (Or.inl hs) he
  ⟨h.1, h.2.1⟩

end SF.Cbor.DecR
