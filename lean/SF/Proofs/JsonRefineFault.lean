/-
  C16 for the JSON parser mirror: visitor faults.  Every step calls the visitor at most once
  and returns its error at once; an error that is not the visitor's never comes with a
  visitor call that failed.  Hence with a visitor that fails from its k-th event on, either
  at most k events are delivered and the verdict is not the visitor's error, or the verdict
  IS the visitor's error and event k is the last one delivered.
-/
import SF.Proofs.JsonShape
import SF.Proofs.JsonRefineStr
set_option linter.unusedSimpArgs false
namespace SF.Json.ParseP
open SF SF.Json SF.Json.Parse SF.Json.Float

/-! ## the parser's own errors are not the visitor's -/

theorem unquoteLoop_nv (fuel : Nat) (rest out : Bytes) : unquoteLoop fuel rest out ≠ .error .visitor := by
  induction fuel generalizing rest out with
  | zero => simp [unquoteLoop]
  | succ fuel ih =>
    cases rest with
    | nil => simp [unquoteLoop]
    | cons c tl =>
      rw [unquoteLoop.eq_def]
      simp only
      by_cases hc : (c == ch '\\') = true
      · rw [if_pos hc]
        cases tl with
        | nil => simp
        | cons e tl2 =>
          simp only
          by_cases h1 : (e == ch '"' || e == ch '\\' || e == ch '/' || e == ch '\'') = true
          · rw [if_pos h1]; exact ih _ _
          rw [if_neg h1]
          by_cases h2 : (e == ch 'b') = true
          · rw [if_pos h2]; exact ih _ _
          rw [if_neg h2]
          by_cases h3 : (e == ch 'f') = true
          · rw [if_pos h3]; exact ih _ _
          rw [if_neg h3]
          by_cases h4 : (e == ch 'n') = true
          · rw [if_pos h4]; exact ih _ _
          rw [if_neg h4]
          by_cases h5 : (e == ch 'r') = true
          · rw [if_pos h5]; exact ih _ _
          rw [if_neg h5]
          by_cases h6 : (e == ch 't') = true
          · rw [if_pos h6]; exact ih _ _
          rw [if_neg h6]
          by_cases h7 : (e == ch 'u') = true
          · rw [if_pos h7]
            by_cases h8 : Utf8.lenLt tl2 4 = true
            · rw [if_pos h8]; simp
            rw [if_neg h8]
            cases parseHex4 (List.take 4 tl2) with
            | none => simp
            | some code =>
              simp only
              by_cases h9 : Utf8.isSurrogate code = true
              · rw [if_pos h9]; exact ih _ _
              · rw [if_neg h9]; exact ih _ _
          · rw [if_neg h7]; simp
      · rw [if_neg hc]
        by_cases h1 : (c == ch '"' || decide (c < ch ' ')) = true
        · rw [if_pos h1]; simp
        rw [if_neg h1]
        by_cases h2 : c < Utf8.runeSelf
        · rw [if_pos h2]; exact ih _ _
        rw [if_neg h2]
        exact ih _ _

theorem unquote_nv (inp : Bytes) : unquote inp ≠ .error .visitor := by
  rw [unquote_eq_loop]; exact unquoteLoop_nv _ _ _

theorem parseInt_nv (b : Bytes) : parseInt b ≠ .error .visitor := by
  intro h
  cases b with
  | nil => simp [parseInt] at h
  | cons c t =>
    rcases parseInt_err (c :: t) (by simp) _ h with h | h | h <;> simp at h

/-! ## visitor faults -/

/-- the visitor has not failed yet: at most k events delivered (fault index k); the counter
the fault is keyed on is the number of events -/
def NoFault (p : P) : Prop := p.nevs = p.evs.length ∧ ∀ k, p.failAt = some k → p.evs.length ≤ k

/-- the visitor has just failed: event k was the last one delivered -/
def Stopped (p : P) : Prop := p.nevs = p.evs.length ∧ ∃ k, p.failAt = some k ∧ p.evs.length = k + 1

/-- outcome of a computation that started with `NoFault` -/
def GoodOut (q : P) (err : Option Err) : Prop :=
  (err ≠ some .visitor ∧ NoFault q) ∨ (err = some .visitor ∧ Stopped q)

/-- what a step does to the event log: nothing (and then its error is not the visitor's), or
exactly one visitor call, whose verdict it returns -/
def VS (p : P) (q : P) (err : Option Err) : Prop :=
  q.failAt = p.failAt ∧
  ((q.evs = p.evs ∧ q.nevs = p.nevs ∧ err ≠ some .visitor) ∨
   (∃ e, q.evs = e :: p.evs ∧ q.nevs = p.nevs + 1 ∧ err = (visit p e).2))

theorem VS.quiet {p q : P} {err : Option Err} (h1 : q.failAt = p.failAt) (h2 : q.evs = p.evs) (h3 : q.nevs = p.nevs)
    (h4 : err ≠ some .visitor) : VS p q err := ⟨h1, Or.inl ⟨h2, h3, h4⟩⟩

theorem visit_snd_congr (p p' : P) (e : Ev) (h1 : p'.failAt = p.failAt) (h2 : p'.nevs = p.nevs) :
    (visit p' e).2 = (visit p e).2 := by
  simp only [visit, h1, h2]
  cases p.failAt with
  | none => rfl
  | some k => simp only; split <;> rfl

/-- a visitor call on a state that agrees with `p` in log, counter and fault index -/
theorem VS.visit {p p' : P} (e : Ev) (h1 : p'.failAt = p.failAt) (h2 : p'.evs = p.evs) (h3 : p'.nevs = p.nevs) :
    VS p (visit p' e).1 (visit p' e).2 := by
  refine ⟨by rw [visit_fst]; exact h1, Or.inr ⟨e, by rw [visit_fst]; simp [h2], by rw [visit_fst]; simp [h3], ?_⟩⟩
  exact visit_snd_congr p p' e h1 h3

theorem vs_goodOut {p q : P} {err : Option Err} (h : NoFault p) (hv : VS p q err) : GoodOut q err := by
  obtain ⟨hf, hq | ⟨e, h1, h2, h3⟩⟩ := hv
  · exact Or.inl ⟨hq.2.2, by rw [hq.2.1, hq.1]; exact h.1, fun k hk => by rw [hq.1]; exact h.2 k (by rw [← hf]; exact hk)⟩
  · have hn : q.nevs = q.evs.length := by rw [h2, h1, h.1]; simp
    cases hfa : p.failAt with
    | none =>
      left
      have : (visit p e).2 = none := by simp [visit, hfa]
      exact ⟨by rw [h3, this]; simp, hn, fun k hk => by rw [hf, hfa] at hk; simp at hk⟩
    | some k =>
      have hk := h.2 k hfa
      by_cases hge : p.nevs ≥ k
      · right
        have : (visit p e).2 = some .visitor := by simp [visit, hfa, hge]
        refine ⟨by rw [h3, this], hn, k, by rw [hf, hfa], ?_⟩
        rw [h1]; simp only [List.length_cons]; have := h.1; omega
      · left
        have : (visit p e).2 = none := by simp [visit, hfa, hge]
        refine ⟨by rw [h3, this]; simp, hn, fun k' hk' => ?_⟩
        rw [hf, hfa] at hk'; cases hk'
        rw [h1]; simp only [List.length_cons]; have := h.1; omega

/-! ## the step functions -/

/-- `p'` has the log, the counter and the fault index of `p` -/
def Agree (p p' : P) : Prop := p'.failAt = p.failAt ∧ p'.evs = p.evs ∧ p'.nevs = p.nevs

theorem Agree.refl (p : P) : Agree p p := ⟨rfl, rfl, rfl⟩

theorem Agree.pop {p p' : P} (h : Agree p p') : Agree p (popState p') := by
  unfold popState; split <;> exact h

theorem Agree.push {p p' : P} (h : Agree p p') (s : St) : Agree p (pushState p' s) := by
  unfold pushState; split <;> exact h

theorem Agree.quiet {p p' : P} {err : Option Err} (h : Agree p p') (he : err ≠ some .visitor) : VS p p' err :=
  VS.quiet h.1 h.2.1 h.2.2 he

theorem Agree.visit {p p' : P} (h : Agree p p') (e : Ev) : VS p (visit p' e).1 (visit p' e).2 :=
  VS.visit e h.1 h.2.1 h.2.2

theorem stepLit_vs {p0 p : P} (h : Agree p0 p) (b : Bytes) (kind : String) (err : Err) (ev : Ev)
    (hn : p.required ≤ (strBytes kind).length) (he : err ≠ .visitor) :
    VS p0 (stepLit p b kind err ev).p (stepLit p b kind err ev).err := by
  by_cases hb : b.length < p.required
  · rw [stepLit_short p b kind err ev hn hb]
    split
    · exact Agree.quiet (p' := { p with required := _ }) h (by simp)
    · exact Agree.quiet (p' := { p with required := _ }) h (by simpa using he)
  · rw [stepLit_full p b kind err ev hn (by omega)]
    split
    · exact h.pop.visit ev
    · exact h.quiet (by simpa using he)

theorem reportNumber_vs {p0 p : P} (h : Agree p0 p) (b : Bytes) (d : Bool) :
    VS p0 (reportNumber p b d).1 (reportNumber p b d).2 := by
  unfold reportNumber
  split
  · split
    · exact h.visit _
    · exact h.quiet (by simp)
    · exact h.quiet (by simp)
    · exact h.quiet (by simp)
  · split
    · rename_i e he
      refine h.quiet ?_
      intro hc
      simp only [Option.some.injEq] at hc
      subst hc
      exact parseInt_nv b he
    · split
      · exact h.visit _
      · split <;> exact h.visit _

theorem stepNumber_vs {p0 p : P} (h : Agree p0 p) (b : Bytes) :
    VS p0 (stepNumber p b).p (stepNumber p b).err := by
  cases hd : (scanNumber b p.isDouble).2.2.1 with
  | false =>
    rw [stepNumber_more p b hd]
    exact Agree.quiet (p' := { p with isDouble := _, literalBuffer := _ }) h (by simp)
  | true =>
    rw [stepNumber_done p b hd]
    have hv := reportNumber_vs (p0 := p0)
      (p := { p with isDouble := (scanNumber b p.isDouble).2.2.2, literalBuffer := [] }) h
      (p.literalBuffer ++ (scanNumber b p.isDouble).1) (scanNumber b p.isDouble).2.2.2
    obtain ⟨hf, hq | ⟨e, h1, h2, h3⟩⟩ := hv
    · exact (Agree.pop ⟨hf, hq.1, hq.2.1⟩).quiet hq.2.2
    · have ha : Agree (reportNumber { p with isDouble := (scanNumber b p.isDouble).2.2.2, literalBuffer := [] }
          (p.literalBuffer ++ (scanNumber b p.isDouble).1) (scanNumber b p.isDouble).2.2.2).1
          (popState (reportNumber { p with isDouble := (scanNumber b p.isDouble).2.2.2, literalBuffer := [] }
          (p.literalBuffer ++ (scanNumber b p.isDouble).1) (scanNumber b p.isDouble).2.2.2).1) :=
        (Agree.refl _).pop
      exact ⟨by rw [ha.1, hf], Or.inr ⟨e, by rw [ha.2.1, h1], by rw [ha.2.2, h2], h3⟩⟩

/-- doString calls no visitor and its errors are its own -/
theorem doString_agree (p : P) (b : Bytes) (hb : b ≠ []) :
    Agree p (doString p b).1 ∧ (doString p b).2.2.2.2 ≠ some .visitor := by
  cases b with
  | nil => exact absurd rfl hb
  | cons c tl =>
    cases hlb : p.literalBuffer with
    | nil =>
      cases hs : (scanString tl p.inEscape 0).1 with
      | none => rw [doString_start_none p c tl hlb hs]; exact ⟨⟨rfl, rfl, rfl⟩, by simp⟩
      | some i =>
        rw [doString_start_some p c tl i hlb hs]
        cases hu : unquote (tl.take i) with
        | error e =>
          refine ⟨⟨rfl, rfl, rfl⟩, ?_⟩
          intro hc; simp only [Option.some.injEq] at hc; subst hc
          exact unquote_nv _ hu
        | ok s' => exact ⟨⟨rfl, rfl, rfl⟩, by simp⟩
    | cons l ls =>
      cases hs : (scanString (c :: tl) p.inEscape 0).1 with
      | none => rw [doString_cont_none p _ l ls hlb hs]; exact ⟨⟨rfl, rfl, rfl⟩, by simp⟩
      | some i =>
        rw [doString_cont_some p _ l ls i hlb hs]
        cases hu : unquote (ls ++ (c :: tl).take i) with
        | error e =>
          refine ⟨⟨rfl, rfl, rfl⟩, ?_⟩
          intro hc; simp only [Option.some.injEq] at hc; subst hc
          exact unquote_nv _ hu
        | ok s' => exact ⟨⟨rfl, rfl, rfl⟩, by simp⟩

theorem Agree.trans {p p' p'' : P} (h1 : Agree p p') (h2 : Agree p' p'') : Agree p p'' :=
  ⟨by rw [h2.1, h1.1], by rw [h2.2.1, h1.2.1], by rw [h2.2.2, h1.2.2]⟩

theorem stepString_vs {p0 p : P} (h : Agree p0 p) (b : Bytes) (hb : b ≠ []) :
    VS p0 (stepString p b).p (stepString p b).err := by
  obtain ⟨ha, he⟩ := doString_agree p b hb
  unfold stepString
  generalize doString p b = d at ha he ⊢
  obtain ⟨q, ref, done, rest, err⟩ := d
  simp only at ha he ⊢
  split
  · exact (h.trans ha).pop.visit _
  · exact (h.trans ha).quiet he

theorem stepDictKey_vs {p0 p : P} (h : Agree p0 p) (b : Bytes) (hb : b ≠ []) :
    VS p0 (stepDictKey p b).p (stepDictKey p b).err := by
  obtain ⟨ha, he⟩ := doString_agree p b hb
  unfold stepDictKey
  generalize doString p b = d at ha he ⊢
  obtain ⟨q, ref, done, rest, err⟩ := d
  simp only at ha he ⊢
  split
  · exact Agree.visit (p' := { q with currentState := .dictFieldValueSep }) (h.trans ⟨ha.1, ha.2.1, ha.2.2⟩) _
  · exact (h.trans ha).quiet he

theorem stepValue_vs (p : P) (b : Bytes) (ret : St) :
    VS p (stepValue p b ret).p (stepValue p b ret).err := by
  have h0 : Agree p { p with currentState := ret } := ⟨rfl, rfl, rfl⟩
  unfold stepValue
  split
  · exact (Agree.refl p).quiet (by simp)
  · rename_i c tl _
    simp only
    split
    · exact (h0.push _).visit _
    · split
      · exact (h0.push _).visit _
      · split
        · have ha : Agree p { pushState { p with currentState := ret } .nullState with required := 3 } := h0.push _
          exact stepLit_vs ha tl _ _ _ (by rw [kind_null]; simp) (by simp)
        · split
          · have ha : Agree p { pushState { p with currentState := ret } .falseState with required := 4 } := h0.push _
            exact stepLit_vs ha tl _ _ _ (by rw [kind_false]; simp) (by simp)
          · split
            · have ha : Agree p { pushState { p with currentState := ret } .trueState with required := 3 } := h0.push _
              exact stepLit_vs ha tl _ _ _ (by rw [kind_true]; simp) (by simp)
            · split
              · have ha : Agree p { pushState { p with currentState := ret, literalBuffer := [] } .stringState
                    with inEscape := false } :=
                  Agree.push (p' := { p with currentState := ret, literalBuffer := [] }) ⟨rfl, rfl, rfl⟩ _
                exact stepString_vs ha (c :: tl) (by simp)
              · split
                · exact Agree.quiet (p' := { p with currentState := ret, isDouble := false }) ⟨rfl, rfl, rfl⟩ (by simp)
                · have ha : Agree p { pushState { p with currentState := ret, isDouble := false, literalBuffer := [] }
                      .numberState with isDouble := false } :=
                    Agree.push (p' := { p with currentState := ret, isDouble := false, literalBuffer := [] })
                      ⟨rfl, rfl, rfl⟩ _
                  exact stepNumber_vs ha (c :: tl)

theorem endDict_vs (p : P) (b : Bytes) : VS p (endDict p b).p (endDict p b).err := by
  unfold endDict; exact (Agree.refl p).pop.visit _

theorem endArray_vs (p : P) (b : Bytes) : VS p (endArray p b).p (endArray p b).err := by
  unfold endArray; exact (Agree.refl p).pop.visit _

theorem stepDict_vs (p : P) (b : Bytes) (ae : Bool) : VS p (stepDict p b ae).p (stepDict p b ae).err := by
  unfold stepDict
  split
  · exact (Agree.refl p).quiet (by simp)
  · simp only
    split
    · split
      · exact (Agree.refl p).quiet (by simp)
      · exact endDict_vs p _
    · split
      · exact Agree.quiet (p' := { p with currentState := _ }) ⟨rfl, rfl, rfl⟩ (by simp)
      · exact (Agree.refl p).quiet (by simp)

theorem stepDictValueEnd_vs (p : P) (b : Bytes) : VS p (stepDictValueEnd p b).p (stepDictValueEnd p b).err := by
  unfold stepDictValueEnd
  split
  · exact (Agree.refl p).quiet (by simp)
  · split
    · exact endDict_vs p _
    · split
      · exact Agree.quiet (p' := { p with currentState := _ }) ⟨rfl, rfl, rfl⟩ (by simp)
      · exact (Agree.refl p).quiet (by simp)

theorem stepArray_vs (p : P) (b : Bytes) (ae : Bool) : VS p (stepArray p b ae).p (stepArray p b ae).err := by
  unfold stepArray
  split
  · exact (Agree.refl p).quiet (by simp)
  · simp only
    split
    · split
      · exact (Agree.refl p).quiet (by simp)
      · exact endArray_vs p _
    · exact Agree.quiet (p' := { p with currentState := _ }) ⟨rfl, rfl, rfl⟩ (by simp)

theorem stepArrValueEnd_vs (p : P) (b : Bytes) : VS p (stepArrValueEnd p b).p (stepArrValueEnd p b).err := by
  unfold stepArrValueEnd
  split
  · exact (Agree.refl p).quiet (by simp)
  · split
    · exact endArray_vs p _
    · split
      · exact Agree.quiet (p' := { p with currentState := _ }) ⟨rfl, rfl, rfl⟩ (by simp)
      · exact (Agree.refl p).quiet (by simp)

/-- ONE STEP: at most one visitor call, whose verdict is returned -/
theorem execStep_vs (p : P) (b : Bytes) (hb : b ≠ []) (hinv : Inv p)
    (herr : p.currentState = .failedState → p.err ≠ some .visitor) :
    VS p (execStep p b).1.p (execStep p b).1.err := by
  unfold execStep
  cases hcs : p.currentState with
  | failedState =>
    simp only
    cases he : p.err with
    | none => exact Agree.quiet (p' := { p with err := _ }) ⟨rfl, rfl, rfl⟩ (by simp)
    | some e =>
      simp only [Option.isNone_some, Bool.false_eq_true, if_false, he]
      exact (Agree.refl p).quiet (by have := herr hcs; rw [he] at this; exact this)
  | startState => exact stepValue_vs p b _
  | dictState => exact stepDict_vs p b _
  | dictNextFieldState => exact stepDict_vs p b _
  | dictFieldState => exact stepDictKey_vs (Agree.refl p) b hb
  | dictFieldValueSep =>
    simp only
    split
    · exact (Agree.refl p).quiet (by simp)
    · refine Agree.quiet (p' := { p with currentState := _ }) ⟨rfl, rfl, rfl⟩ ?_
      simp only; split <;> simp
  | dictFieldValue => exact stepValue_vs p b _
  | dictFieldStateEnd => exact stepDictValueEnd_vs p b
  | arrState => exact stepArray_vs p b _
  | arrStateValue => exact stepValue_vs p b _
  | arrStateNext => exact stepArrValueEnd_vs p b
  | nullState =>
    exact stepLit_vs (Agree.refl p) b _ _ _ (by rw [kind_null]; have := hinv.lit (by rw [hcs]; rfl); rw [hcs] at this; exact this) (by simp)
  | trueState =>
    exact stepLit_vs (Agree.refl p) b _ _ _ (by rw [kind_true]; have := hinv.lit (by rw [hcs]; rfl); rw [hcs] at this; exact this) (by simp)
  | falseState =>
    exact stepLit_vs (Agree.refl p) b _ _ _ (by rw [kind_false]; have := hinv.lit (by rw [hcs]; rfl); rw [hcs] at this; exact this) (by simp)
  | stringState => exact stepString_vs (Agree.refl p) b hb
  | numberState => exact stepNumber_vs (Agree.refl p) b

/-! ## the loops -/

theorem goodOut_noFault {p : P} {e : Option Err} (h : NoFault p) (he : e ≠ some .visitor) : GoodOut p e :=
  Or.inl ⟨he, h⟩

/-- the stored error is not the visitor's, or the state is reachable (then failedState, the
only place where the stored error is read, is not) -/
def ErrOK (p : P) : Prop := p.err ≠ some .visitor ∨ WF p

theorem ErrOK.failed {p : P} (h : ErrOK p) : p.currentState = .failedState → p.err ≠ some .visitor := by
  intro hc
  rcases h with h | h
  · exact h
  · exact absurd hc h.not_failed

theorem feedUntil_fault (f : Nat) (p : P) (b : Bytes) (hinv : Inv p) (h : NoFault p) (herr : ErrOK p) :
    GoodOut (feedUntil f p b).p (feedUntil f p b).err := by
  induction f generalizing p b with
  | zero => simp only [feedUntil]; exact goodOut_noFault h (by simp)
  | succ f ih =>
    rw [feedUntil_succ]
    by_cases hb : b = []
    · subst hb; simp only [List.isEmpty_nil, if_true]; exact goodOut_noFault h (by simp)
    · have hbe : b.isEmpty = false := by cases b <;> simp_all
      simp only [hbe, Bool.false_eq_true, if_false]
      have hg := vs_goodOut h (execStep_vs p b hb hinv herr.failed)
      split
      · exact hg
      · split
        · exact hg
        · rename_i hs hne
          have hn : (execStep p b).1.err = none := by
            cases he : (execStep p b).1.err with
            | none => rfl
            | some e => rw [he] at hne; simp at hne
          have hnf : NoFault (execStep p b).1.p := by
            rcases hg with ⟨_, hq⟩ | ⟨he, _⟩
            · exact hq
            · rw [hn] at he; simp at he
          have hcs : p.currentState ≠ .failedState := by
            intro hc
            rw [(execStep_failed p b hc).1] at hs; simp at hs
          obtain ⟨_, _, k3, k4, _⟩ := execStep_ok p b hb hinv hcs
          split
          · exact goodOut_noFault hnf (by rw [hn]; simp)
          · refine ih _ _ k4 hnf ?_
            rcases herr with herr | herr
            · exact Or.inl (by rw [k3]; exact herr)
            · exact Or.inr (execStep_wf p b hb herr).2

theorem feed_fault (fuel : Nat) (p : P) (b : Bytes) (hinv : Inv p) (h : NoFault p) (herr : ErrOK p) :
    GoodOut (feed fuel p b).1 (feed fuel p b).2 := by
  induction fuel generalizing p b with
  | zero => simp only [feed]; exact goodOut_noFault h (by simp)
  | succ fuel ih =>
    rw [feed_succ]
    split
    · exact goodOut_noFault h (by simp)
    · have hg := feedUntil_fault (fuelFor b) p b hinv h herr
      obtain ⟨k1, _, _, k4⟩ := feedUntil_spec (fuelFor b) p b hinv
      cases he : (feedUntil (fuelFor b) p b).err with
      | some e => simp only; rw [he] at hg; exact hg
      | none =>
        simp only
        have hnf : NoFault (feedUntil (fuelFor b) p b).p := by
          rcases hg with ⟨_, hq⟩ | ⟨hv, _⟩
          · exact hq
          · rw [he] at hv; simp at hv
        refine ih _ _ k1 hnf ?_
        rcases herr with herr | herr
        · exact Or.inl (by rw [(k4 he).1]; exact herr)
        · exact Or.inr (feedUntil_wf _ p b herr)

theorem finalize_fault (p : P) (h : NoFault p) : GoodOut (finalize p).1 (finalize p).2 := by
  unfold finalize
  simp only
  split
  · have hv := reportNumber_vs (Agree.refl p) p.literalBuffer p.isDouble
    have hg := vs_goodOut h hv
    cases hr : reportNumber p p.literalBuffer p.isDouble with
    | mk q e =>
      rw [hr] at hg
      cases e with
      | some e => exact hg
      | none =>
        simp only
        have hnf : NoFault q := by
          rcases hg with ⟨_, hq⟩ | ⟨hv, _⟩
          · exact hq
          · simp at hv
        have ha : Agree q (popState q) := (Agree.refl q).pop
        have hnf' : NoFault (popState q) := ⟨by rw [ha.2.2, ha.2.1]; exact hnf.1, fun k hk => by
          rw [ha.2.1]; exact hnf.2 k (by rw [← ha.1]; exact hk)⟩
        split
        · exact goodOut_noFault hnf' (by simp)
        · exact goodOut_noFault hnf' (by simp)
  · split
    · exact goodOut_noFault h (by simp)
    · exact goodOut_noFault h (by simp)

theorem goodOut_setErr {q : P} {e : Option Err} (h : GoodOut q e) (e' : Option Err) : GoodOut { q with err := e' } e := by
  rcases h with ⟨h1, h2⟩ | ⟨h1, h2⟩
  · exact Or.inl ⟨h1, h2⟩
  · exact Or.inr ⟨h1, h2⟩

/-- `Write*` + end of input, any chunking -/
theorem writeChunks_fault (cs : List Bytes) (p : P) (hinv : Inv p) (h : NoFault p) (herr : ErrOK p) :
    GoodOut (writeChunks p cs).1 (writeChunks p cs).2 := by
  induction cs generalizing p with
  | nil => exact finalize_fault p h
  | cons c cs ih =>
    simp only [writeChunks, write, feedAll]
    have hg := feed_fault (2 * c.length + 4) p c hinv h herr
    have hi := (feed_spec (2 * c.length + 4) p c hinv).1
    cases hf : feed (2 * c.length + 4) p c with
    | mk q e =>
      rw [hf] at hg hi
      cases e with
      | some e => exact goodOut_setErr hg _
      | none =>
        simp only
        have hnf : NoFault q := by
          rcases hg with ⟨_, hq⟩ | ⟨hv, _⟩
          · exact hq
          · simp at hv
        exact ih _ ⟨hi.stack, hi.lit, hi.num⟩ ⟨hnf.1, hnf.2⟩ (Or.inl (by simp))

/-- `Parse` -/
theorem parse_fault (p : P) (b : Bytes) (h : NoFault p) : GoodOut (parse p b).1 (parse p b).2 := by
  have hwf : WF { p with states := [], literalBuffer := [], currentState := .startState } :=
    ⟨by constructor <;> simp [isLit], Or.inl ⟨rfl, rfl⟩⟩
  have hg := feed_fault (2 * b.length + 4) _ b hwf.inv ⟨h.1, h.2⟩ (Or.inr hwf)
  unfold parse feedAll
  simp only
  cases hf : feed (2 * b.length + 4) { p with states := [], literalBuffer := [], currentState := .startState } b with
  | mk q e =>
    rw [hf] at hg
    cases e with
    | some e => exact goodOut_setErr hg _
    | none =>
      simp only
      have hnf : NoFault q := by
        rcases hg with ⟨_, hq⟩ | ⟨hv, _⟩
        · exact hq
        · simp at hv
      exact goodOut_setErr (finalize_fault q hnf) _

/-! ## the fault index is never changed -/

theorem feedUntil_failAt (f : Nat) (p : P) (b : Bytes) (hinv : Inv p) (herr : ErrOK p) :
    (feedUntil f p b).p.failAt = p.failAt := by
  induction f generalizing p b with
  | zero => rfl
  | succ f ih =>
    rw [feedUntil_succ]
    by_cases hb : b = []
    · subst hb; rfl
    · have hbe : b.isEmpty = false := by cases b <;> simp_all
      simp only [hbe, Bool.false_eq_true, if_false]
      have hv := (execStep_vs p b hb hinv herr.failed).1
      split
      · exact hv
      · split
        · exact hv
        · rename_i hs _
          have hcs : p.currentState ≠ .failedState := by
            intro hc
            rw [(execStep_failed p b hc).1] at hs; simp at hs
          obtain ⟨_, _, k3, k4, _⟩ := execStep_ok p b hb hinv hcs
          split
          · exact hv
          · rw [ih _ _ k4 ?_, hv]
            rcases herr with herr | herr
            · exact Or.inl (by rw [k3]; exact herr)
            · exact Or.inr (execStep_wf p b hb herr).2

theorem feed_failAt (fuel : Nat) (p : P) (b : Bytes) (hinv : Inv p) (herr : ErrOK p) :
    (feed fuel p b).1.failAt = p.failAt := by
  induction fuel generalizing p b with
  | zero => rfl
  | succ fuel ih =>
    rw [feed_succ]
    split
    · rfl
    · have hv := feedUntil_failAt (fuelFor b) p b hinv herr
      obtain ⟨k1, _, _, k4⟩ := feedUntil_spec (fuelFor b) p b hinv
      cases he : (feedUntil (fuelFor b) p b).err with
      | some e => exact hv
      | none =>
        simp only
        rw [ih _ _ k1 ?_, hv]
        rcases herr with herr | herr
        · exact Or.inl (by rw [(k4 he).1]; exact herr)
        · exact Or.inr (feedUntil_wf _ p b herr)

theorem finalize_failAt (p : P) : (finalize p).1.failAt = p.failAt := by
  unfold finalize
  simp only
  split
  · have hv := (reportNumber_vs (Agree.refl p) p.literalBuffer p.isDouble).1
    cases hr : reportNumber p p.literalBuffer p.isDouble with
    | mk q e =>
      rw [hr] at hv
      cases e with
      | some e => exact hv
      | none =>
        simp only
        have ha : Agree q (popState q) := (Agree.refl q).pop
        split <;> (simp only; rw [ha.1]; exact hv)
  · split <;> rfl

theorem writeChunks_failAt (cs : List Bytes) (p : P) (hinv : Inv p) (herr : ErrOK p) :
    (writeChunks p cs).1.failAt = p.failAt := by
  induction cs generalizing p with
  | nil => exact finalize_failAt p
  | cons c cs ih =>
    simp only [writeChunks, write, feedAll]
    have hv := feed_failAt (2 * c.length + 4) p c hinv herr
    have hi := (feed_spec (2 * c.length + 4) p c hinv).1
    cases hf : feed (2 * c.length + 4) p c with
    | mk q e =>
      rw [hf] at hv hi
      cases e with
      | some e => exact hv
      | none =>
        simp only
        have := ih { q with err := none } ⟨hi.stack, hi.lit, hi.num⟩ (Or.inl (by simp))
        rw [this]
        exact hv

theorem parse_failAt (p : P) (b : Bytes) : (parse p b).1.failAt = p.failAt := by
  have hwf : WF { p with states := [], literalBuffer := [], currentState := .startState } :=
    ⟨by constructor <;> simp [isLit], Or.inl ⟨rfl, rfl⟩⟩
  have hv := feed_failAt (2 * b.length + 4) _ b hwf.inv (Or.inr hwf)
  unfold parse feedAll
  simp only
  cases hf : feed (2 * b.length + 4) { p with states := [], literalBuffer := [], currentState := .startState } b with
  | mk q e =>
    rw [hf] at hv
    cases e with
    | some e => exact hv
    | none => simp only; rw [finalize_failAt]; exact hv

/-- C16 for the JSON parser, `Parse`: with a visitor that fails from its k-th event on, for
EVERY byte string: either at most k events were delivered and the verdict is not the
visitor's error, or the verdict is the visitor's error and exactly k+1 events were delivered
(event k, on which the visitor failed, is the last one) -/
theorem parse_returns_visitor_error (k : Nat) (b : Bytes) :
    ((parse (init (some k)) b).2 ≠ some .visitor ∧ (parse (init (some k)) b).1.evs.length ≤ k) ∨
    ((parse (init (some k)) b).2 = some .visitor ∧ (parse (init (some k)) b).1.evs.length = k + 1) := by
  have h0 : NoFault (init (some k)) := ⟨rfl, fun k' _ => by simp [init]⟩
  have hfa := parse_failAt (init (some k)) b
  rcases parse_fault (init (some k)) b h0 with ⟨h1, h2⟩ | ⟨h1, _, k', h3, h4⟩
  · exact Or.inl ⟨h1, h2.2 k hfa⟩
  · rw [hfa] at h3
    simp only [init, Option.some.injEq] at h3
    subst h3
    exact Or.inr ⟨h1, h4⟩

/-- … and `Write*` + end of input, for EVERY chunking -/
theorem writeChunks_returns_visitor_error (k : Nat) (cs : List Bytes) :
    ((writeChunks (init (some k)) cs).2 ≠ some .visitor ∧ (writeChunks (init (some k)) cs).1.evs.length ≤ k) ∨
    ((writeChunks (init (some k)) cs).2 = some .visitor ∧ (writeChunks (init (some k)) cs).1.evs.length = k + 1) := by
  have h0 : NoFault (init (some k)) := ⟨rfl, fun k' _ => by simp [init]⟩
  have hfa := writeChunks_failAt cs (init (some k)) (inv_init _) (Or.inl (by simp [init]))
  rcases writeChunks_fault cs (init (some k)) (inv_init _) h0 (Or.inl (by simp [init])) with ⟨h1, h2⟩ | ⟨h1, _, k', h3, h4⟩
  · exact Or.inl ⟨h1, h2.2 k hfa⟩
  · rw [hfa] at h3
    simp only [init, Option.some.injEq] at h3
    subst h3
    exact Or.inr ⟨h1, h4⟩

end SF.Json.ParseP
