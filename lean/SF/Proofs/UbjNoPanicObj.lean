/-
  C03 helper lemmas (UBJSON): stepObjectDyn, stepObjectCountedContent, stepObjectCount,
  stepObjectTyped.
-/
import SF.Proofs.UbjNoPanicTyped
namespace SF.Ubjson.Parse
open SF SF.Ubjson
open StateType StateStep

/-! ### stepObjectDyn -/

def odBody (step : StateStep) (b : Bytes) (p : P) : R :=
  match step with
  | .stStart => { stepLen p b (p.state.current.withStep stFieldNameLen) with done := false }
  | .stFieldNameLen => fieldName p b
  | .stCont =>
    match b with
    | [] => panicR p b
    | b0 :: bs =>
      if b0 == noopMarker then { p := p, rest := bs }
      else { stepValue (setStep p stStart) b with done := false }
  | _ => { p := p, rest := b }

theorem stepObjectDyn_eq (p : P) (b : Bytes) :
    stepObjectDyn p b =
      if p.state.current.step == stStart && p.marker == noMarker then
        match b with
        | [] => panicR p b
        | b0 :: bs =>
          if b0 == objEndMarker then
            match visit p .objEnd with
            | (p, some e) => { p := p, rest := bs, done := true, err := some e }
            | (p, none) => let (p, d) := popState p; { p := p, rest := bs, done := d }
          else odBody p.state.current.step b p
      else odBody p.state.current.step b p := rfl

theorem odBody_safe (b : Bytes) (p : P) (hi : Inv p) (hb : b ≠ [])
    (ht : p.state.current.type = stObjectDyn) : Safe p.err (odBody p.state.current.step b p) := by
  unfold odBody
  split
  · exact Safe.setDone (stepLen_safe p b _ hi hb) false
  · rename_i hs
    exact fieldName_safe p b hi (by simp [crit, ht, hs])
  · cases b with
    | nil => exact absurd rfl hb
    | cons b0 bs =>
      simp only []
      split
      · exact ⟨by simp, rfl, hi⟩
      · exact Safe.setDone (stepValue_safe (setStep p stStart) (b0 :: bs) (hi.setStep _ (by decide))
          (by simp [setStep, setCurrent, crit]) (by simp)) false
  · exact ⟨by simp, rfl, hi⟩

theorem stepObjectDyn_safe (p : P) (b : Bytes) (hi : Inv p) (hb : b ≠ [])
    (ht : p.state.current.type = stObjectDyn) : Safe p.err (stepObjectDyn p b) := by
  rw [stepObjectDyn_eq]
  split
  · cases b with
    | nil => exact absurd rfl hb
    | cons b0 bs =>
      simp only []
      split
      · simp only [visit_eq]
        rcases verr_cases p with h | h <;> rw [h] <;> simp only []
        · exact ⟨by simp, rfl, (hi.addEv _).popState⟩
        · exact ⟨by simp, rfl, hi.addEv _⟩
      · exact odBody_safe _ p hi hb ht
  · exact odBody_safe _ p hi hb ht

/-! ### stepObjectCountedContent -/

def ocFin (p : P) (end_ : Bool) (b : Bytes) (err : Option Err) : R :=
  if end_ then
    let (p, e) := visit p .objEnd
    { p := p, rest := b, done := true, err := e }
  else { p := p, rest := b, done := false, err := err }

def ocAtFieldName (p : P) (b : Bytes) : R :=
  if p.length.current == 0 then ocFin p true b none
  else
    let r := stepLen p b (p.state.current.withStep stFieldNameLen)
    ocFin r.p false r.rest r.err

def ocValue (typed : Bool) (b : Bytes) (p : P) : R :=
  let p := setStep (decLen p) stFieldName
  if typed then ocFin (pushState p p.valueState.current) false b none
  else
    let r := stepValue p b
    ocFin r.p false r.rest r.err

theorem stepObjectCountedContent_eq (p : P) (b : Bytes) (typed : Bool) :
    stepObjectCountedContent p b typed =
      match p.state.current.step with
      | .stWithLen =>
        match visit p (.objStart p.length.current BT.any) with
        | (p', some e) => { p := p', rest := b, done := false, err := some e }
        | (p', none) =>
          if p.length.current == 0 then ocFin p' (p'.length.current == 0) b none
          else
            let p'' := setStep p' stFieldName
            if b.isEmpty then ocFin p'' false b none
            else ocAtFieldName p'' b
      | .stFieldName => ocAtFieldName p b
      | .stFieldNameLen =>
        let r := fieldName p b
        ocFin r.p false r.rest r.err
      | .stCont =>
        if !typed then
          match b with
          | [] => panicR p b
          | b0 :: bs =>
            if b0 == noopMarker then { p := p, rest := bs }
            else ocValue typed b p
        else ocValue typed b p
      | _ => ocFin p false b none := rfl

theorem ocFin_safe (p : P) (end_ : Bool) (b : Bytes) (err : Option Err) (hi : Inv p)
    (he : err ≠ some .panic) : Safe p.err (ocFin p end_ b err) := by
  unfold ocFin
  split
  · simp only [visit_eq]; exact ⟨verr_np _, rfl, hi.addEv _⟩
  · exact ⟨he, rfl, hi⟩

theorem ocFin_of_safe {e : Option Err} {r : R} (h : Safe e r) : Safe e (ocFin r.p false r.rest r.err) := by
  have := ocFin_safe r.p false r.rest r.err h.inv h.np
  rw [h.ef] at this; exact this

theorem ocAtFieldName_safe (p : P) (b : Bytes) (hi : Inv p) (hb : p.length.current ≠ 0 → b ≠ []) :
    Safe p.err (ocAtFieldName p b) := by
  unfold ocAtFieldName
  split
  · exact ocFin_safe _ _ _ _ hi (by simp)
  · rename_i hl
    exact ocFin_of_safe (stepLen_safe p b _ hi (hb (by simpa using hl)))

theorem ocValue_safe (typed : Bool) (b : Bytes) (p : P) (hi : Inv p) (hb : typed = false → b ≠ [])
    (hc : crit p.state.current = false) : Safe p.err (ocValue typed b p) := by
  unfold ocValue
  simp only []
  have hi2 : Inv (setStep (decLen p) stFieldName) := (hi.decLen hc).setStep _ (by decide)
  have hc2 : crit (setStep (decLen p) stFieldName).state.current = false := by
    simp [setStep, setCurrent, crit]
  split
  · exact ocFin_safe _ _ _ _ (hi2.pushState hc2 _ hi2.vcur) (by simp)
  · rename_i ht
    exact ocFin_of_safe (stepValue_safe _ b hi2 hc2 (hb (by simpa using ht)))

theorem stepObjectCountedContent_safe (p : P) (b : Bytes) (typed : Bool) (hi : Inv p)
    (hg : b ≠ [] ∨ pending p = true)
    (ht : p.state.current.type = if typed then stObjectTyped else stObjectCount) :
    Safe p.err (stepObjectCountedContent p b typed) := by
  have ht' : p.state.current.type = stObjectTyped ∨ p.state.current.type = stObjectCount := by
    cases typed <;> simp_all
  rw [stepObjectCountedContent_eq]
  split
  · simp only [visit_eq]
    rcases verr_cases p with h | h <;> rw [h] <;> simp only []
    · split
      · exact ocFin_safe _ _ _ _ (hi.addEv _) (by simp)
      · have hi2 : Inv (setStep (addEv p (.objStart p.length.current BT.any)) stFieldName) :=
          (hi.addEv _).setStep _ (by decide)
        split
        · exact ocFin_safe _ _ _ _ hi2 (by simp)
        · rename_i hne
          exact ocAtFieldName_safe _ b hi2 (fun _ => by intro hc; simp [hc] at hne)
    · exact ⟨by simp, rfl, hi.addEv _⟩
  · rename_i hs
    refine ocAtFieldName_safe p b hi ?_
    intro hl
    rcases hg with h | h
    · exact h
    · rcases ht' with ht' | ht' <;> simp [pending, ht', hs, hl] at h
  · rename_i hs
    exact ocFin_of_safe (fieldName_safe p b hi (by rcases ht' with ht' | ht' <;> simp [crit, ht', hs]))
  · rename_i hs
    have hc : crit p.state.current = false := by simp [crit, hs]
    split
    · rename_i hty
      have hty' : typed = false := by simpa using hty
      have hb : b ≠ [] := by
        rcases hg with h | h
        · exact h
        · subst hty'; simp [pending, ht, hs] at h
      cases b with
      | nil => exact absurd rfl hb
      | cons b0 bs =>
        simp only []
        split
        · exact ⟨by simp, rfl, hi⟩
        · exact ocValue_safe typed _ p hi (fun _ => by simp) hc
    · rename_i hty
      exact ocValue_safe typed b p hi (fun h => by simp [h] at hty) hc
  · exact ocFin_safe _ _ _ _ hi (by simp)

theorem stepObjectCount_safe (p : P) (b : Bytes) (hi : Inv p)
    (hg : b ≠ [] ∨ pending p = true) (ht : p.state.current.type = stObjectCount) :
    Safe p.err (stepObjectCount p b) := by
  unfold stepObjectCount
  split
  · rename_i hs
    have hs' : p.state.current.step = stStart := by simpa using hs
    have hb : b ≠ [] := by
      rcases hg with h | h
      · exact h
      · simp [pending, ht, hs'] at h
    exact Safe.setDone (stepLen_safe p b _ hi hb) false
  · have h := stepObjectCountedContent_safe p b false hi hg (by simpa using ht)
    simp only []
    split
    · exact ⟨by simp, h.ef, h.inv.popLenState⟩
    · exact h

theorem stepObjectTyped_safe (p : P) (b : Bytes) (hi : Inv p)
    (hg : b ≠ [] ∨ pending p = true) (ht : p.state.current.type = stObjectTyped) :
    Safe p.err (stepObjectTyped p b) := by
  unfold stepObjectTyped
  simp only []
  split
  · rename_i hs
    have hb : b ≠ [] := by
      rcases hg with h | h
      · exact h
      · simp only [Bool.or_eq_true, beq_iff_eq] at hs
        rcases hs with (hs | hs) | hs <;> simp [pending, ht, hs] at h
    exact Safe.setDone (stepTypeLenHeader_safe p b _ hi hb (Or.inr ht)) false
  · have h := stepObjectCountedContent_safe p b true hi hg (by simpa using ht)
    split
    · exact ⟨by simp, h.ef, h.inv.popValueState.popLenState⟩
    · exact h

end SF.Ubjson.Parse
