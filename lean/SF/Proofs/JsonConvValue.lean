/-
  C04, converse direction: WHAT AN ERROR-FREE RUN HAS READ.  The claims of the induction
  (`VConcl`: from a state that reads a value; `CConcl`: from a state inside a container) and
  the step for values: from a state that reads a value, an error-free run over `b` has
  skipped white space only, or stopped inside a token, or has read a text of the grammar
  — its first byte decides which — and continues behind it.
-/
import SF.Proofs.JsonConvTok
set_option linter.unusedSimpArgs false
set_option linter.unusedVariables false
namespace SF.Json.ParseP
open SF SF.Json SF.Json.Parse SF.Json.Float SF.Json.Grammar ETree

/-- the parser with a number token pending at the end of the input -/
def pendP (p : P) (r : St) (tok : Bytes) : P :=
  { p with isDouble := isDblTok tok, literalBuffer := tok, states := r :: p.states, currentState := .numberState }

/-- element, white space, tail of an array -/
def ElemVal (w : Bytes) (es : List Ev) : Prop :=
  ∃ ws1 e ws2 tl, w = ws1 ++ (e.wire ++ (ws2 ++ ATail.wire tl)) ∧ allSp ws1 = true ∧ J.okL e = true ∧
    allSp ws2 = true ∧ (e.isNum = true → numSep ws2 = true) ∧ tl.okL = true ∧ e.semL = true ∧ tl.semL = true ∧
    es = e.eventsL ++ (eventsList tl.treesL ++ [.arrEnd])

/-- value, white space, tail of an object -/
def MemVal (w : Bytes) (es : List Ev) : Prop :=
  ∃ ws2 v ws3 tl, w = ws2 ++ (v.wire ++ (ws3 ++ OTail.wire tl)) ∧ allSp ws2 = true ∧ J.okL v = true ∧
    allSp ws3 = true ∧ (v.isNum = true → numSep ws3 = true) ∧ tl.okL = true ∧ v.semL = true ∧ tl.semL = true ∧
    es = v.eventsL ++ (eventsMems tl.membersL ++ [.objEnd])

/-- `w` is the rest of a container as seen from state `c` inside it, with events `es` -/
def Rest : St → Bytes → List Ev → Prop
  | .arrState, w, es => ∃ (ws : Bytes) (body : ABody), w = ws ++ body.wire ∧ allSp ws = true ∧ body.okL = true ∧
      body.semL = true ∧ es = eventsList body.treesL ++ [.arrEnd]
  | .arrStateNext, w, es => ∃ (ws : Bytes) (tl : ATail), w = ws ++ tl.wire ∧ allSp ws = true ∧ tl.okL = true ∧
      tl.semL = true ∧ es = eventsList tl.treesL ++ [.arrEnd]
  | .arrStateValue, w, es => ElemVal w es
  | .dictState, w, es => ∃ (ws : Bytes) (body : OBody), w = ws ++ body.wire ∧ allSp ws = true ∧ body.okL = true ∧
      body.semL = true ∧ es = eventsMems body.membersL ++ [.objEnd]
  | .dictFieldStateEnd, w, es => ∃ (ws : Bytes) (tl : OTail), w = ws ++ tl.wire ∧ allSp ws = true ∧ tl.okL = true ∧
      tl.semL = true ∧ es = eventsMems tl.membersL ++ [.objEnd]
  | .dictFieldValue, w, es => MemVal w es
  | .dictFieldValueSep, w, es => ∃ ws1 w', w = ws1 ++ 0x3a :: w' ∧ allSp ws1 = true ∧ MemVal w' es
  | .dictNextFieldState, w, es => ∃ ws0 key k ws1 w' es', w = ws0 ++ 0x22 :: (key ++ 0x22 :: (ws1 ++ 0x3a :: w')) ∧
      allSp ws0 = true ∧ bodyOk key = true ∧ strValL key = some k ∧ allSp ws1 = true ∧ MemVal w' es' ∧
      es = .key k :: es'
  | _, _, _ => False

/-- the states inside a container between two tokens -/
def isPhase (c : St) : Bool :=
  c == .arrState || c == .arrStateNext || c == .arrStateValue || c == .dictState || c == .dictFieldStateEnd ||
  c == .dictFieldValue || c == .dictFieldValueSep || c == .dictNextFieldState

/-- an error-free run from a state that reads a value (return state `r`, stack `S`) -/
def VConcl (p : P) (r : St) (S : List St) (b : Bytes) (q : P) : Prop :=
  (allSp b = true ∧ q = p) ∨
  (∃ ws tok, b = ws ++ tok ∧ allSp ws = true ∧ tokOk tok = true ∧ q = pendP p r tok) ∨
  Deep S q ∨
  (∃ ws v more p1, b = ws ++ (J.wire v ++ more) ∧ allSp ws = true ∧ v.okL = true ∧ v.semL = true ∧ follow v more ∧
     AtN p1 r S ∧ p1.evs = v.eventsL.reverse ++ p.evs ∧ runA p1 more = (q, none))

/-- an error-free run from state `c` inside a container that was opened on stack `S` with
return state `r`: it ends inside, or reads the rest of the container and continues -/
def CConcl (c : St) (p : P) (r : St) (S : List St) (b : Bytes) (q : P) : Prop :=
  Deep S q ∨
  ∃ w more es p1, b = w ++ more ∧ Rest c w es ∧ AtN p1 r S ∧ p1.evs = es.reverse ++ p.evs ∧ runA p1 more = (q, none)

/-- THE CLAIMS about an error-free run of the parser from `p` over `b` -/
def Claims (p : P) (b : Bytes) : Prop :=
  ∀ q, runA p b = (q, none) →
    (∀ r S, ReadyN p r S → VConcl p r S b q) ∧
    (∀ c r S, isPhase c = true → AtN p c (r :: S) → PushOk S r → CConcl c p r S b q)

/-! ## leading white space -/

theorem VConcl_space {p : P} {r : St} {S : List St} {b : Bytes} {q : P} {a : UInt8}
    (ha : Utf8.isSpaceByte a = true) (h : VConcl p r S b q) : VConcl p r S (a :: b) q := by
  rcases h with ⟨h1, h2⟩ | ⟨ws, tok, rfl, h1, h2, h3⟩ | h | ⟨ws, v, more, p1, rfl, h1, h2⟩
  · exact Or.inl ⟨by rw [allSp_cons, ha, h1]; rfl, h2⟩
  · exact Or.inr (Or.inl ⟨a :: ws, tok, rfl, by rw [allSp_cons, ha, h1]; rfl, h2, h3⟩)
  · exact Or.inr (Or.inr (Or.inl h))
  · exact Or.inr (Or.inr (Or.inr ⟨a :: ws, v, more, p1, rfl, by rw [allSp_cons, ha, h1]; rfl, h2⟩))

theorem ElemVal_space {w : Bytes} {es : List Ev} {a : UInt8} (ha : Utf8.isSpaceByte a = true)
    (h : ElemVal w es) : ElemVal (a :: w) es := by
  obtain ⟨ws1, e, ws2, tl, rfl, h1, h2⟩ := h
  exact ⟨a :: ws1, e, ws2, tl, rfl, by rw [allSp_cons, ha, h1]; rfl, h2⟩

theorem MemVal_space {w : Bytes} {es : List Ev} {a : UInt8} (ha : Utf8.isSpaceByte a = true)
    (h : MemVal w es) : MemVal (a :: w) es := by
  obtain ⟨ws1, e, ws2, tl, rfl, h1, h2⟩ := h
  exact ⟨a :: ws1, e, ws2, tl, rfl, by rw [allSp_cons, ha, h1]; rfl, h2⟩

theorem Rest_space {c : St} {w : Bytes} {es : List Ev} {a : UInt8} (ha : Utf8.isSpaceByte a = true)
    (h : Rest c w es) : Rest c (a :: w) es := by
  have hsp : ∀ ws : Bytes, allSp ws = true → allSp (a :: ws) = true := fun ws h => by
    rw [allSp_cons, ha, h]; rfl
  cases c <;> simp only [Rest] at h ⊢
  · obtain ⟨ws, body, rfl, h1, h2⟩ := h; exact ⟨a :: ws, body, rfl, hsp _ h1, h2⟩
  · exact ElemVal_space ha h
  · obtain ⟨ws, body, rfl, h1, h2⟩ := h; exact ⟨a :: ws, body, rfl, hsp _ h1, h2⟩
  · obtain ⟨ws, body, rfl, h1, h2⟩ := h; exact ⟨a :: ws, body, rfl, hsp _ h1, h2⟩
  · obtain ⟨ws0, key, k, ws1, w', es', rfl, h1, h2⟩ := h
    exact ⟨a :: ws0, key, k, ws1, w', es', rfl, hsp _ h1, h2⟩
  · exact MemVal_space ha h
  · obtain ⟨ws1, w', rfl, h1, h2⟩ := h; exact ⟨a :: ws1, w', rfl, hsp _ h1, h2⟩
  · obtain ⟨ws, body, rfl, h1, h2⟩ := h; exact ⟨a :: ws, body, rfl, hsp _ h1, h2⟩

theorem CConcl_space {c : St} {p : P} {r : St} {S : List St} {b : Bytes} {q : P} {a : UInt8}
    (ha : Utf8.isSpaceByte a = true) (h : CConcl c p r S b q) : CConcl c p r S (a :: b) q := by
  rcases h with h | ⟨w, more, es, p1, rfl, h1, h2⟩
  · exact Or.inl h
  · exact Or.inr ⟨a :: w, more, es, p1, rfl, Rest_space ha h1, h2⟩

theorem isPhase_trims {c : St} (h : isPhase c = true) : trims c = true := by
  cases c <;> simp [isPhase] at h <;> rfl

theorem isPhase_ne_num {c : St} (h : isPhase c = true) : c ≠ .numberState := by
  cases c <;> simp [isPhase] at h <;> simp

/-! ## the outcomes of reading a value -/

/-- the run ends inside a token that was begun on stack `S` -/
theorem deep_token {q : P} {r : St} {S : List St} {c : St} (hs : q.states = r :: S) (hc : q.currentState = c)
    (hn : c ≠ .numberState) : Deep S q := by
  refine ⟨by rw [hs]; simp, fun h => ?_⟩
  rw [hc] at h; exact absurd h hn

/-- a step of `stepValue` that takes all of the input and ends the run -/
theorem run_of_last_value {p : P} {r : St} {S : List St} (h : ReadyN p r S) (b : Bytes) (hb : b ≠ []) (q' : P)
    (rep : Bool) (hs : stepValue p b r = { p := q', rest := [], reported := rep, err := none }) :
    runA p b = (q', none) := by
  obtain ⟨c0, hat, _, _⟩ := h.1.at
  obtain ⟨rep', he⟩ := h.1.step b q' [] rep none hs
  exact run_of_last_step p b hb hat.wf q' rep' he

/-- LITERALS: behind the first byte of `null` / `true` / `false` the run finds the rest of the
word — or ends inside it -/
theorem lit_inv_aux {p : P} {r : St} {S : List St} (h : ReadyN p r S) (kind : String) (err : Err) (ev : Ev)
    (litSt : St) (hlit : litSt ≠ .numberState) (c : UInt8) (wtl : Bytes) (hk : strBytes kind = c :: wtl)
    (hdisp : ∀ b, stepValue p (c :: b) r =
      stepLit { pushState { p with currentState := r } litSt with required := wtl.length } b kind err ev)
    (tl : Bytes) (q : P) (hrun : runA p (c :: tl) = (q, none)) :
    (∃ more, tl = wtl ++ more) ∨ Deep S q := by
  obtain ⟨c0, hat, _, _⟩ := h.1.at
  have hpush := pushState_ret p r litSt (isRet_pushOk h.1.1)
  have e1 := hdisp tl
  rw [hpush] at e1
  by_cases hlen : tl.length < wtl.length
  · rw [stepLit_short _ tl kind err ev (by rw [hk]; simp) (by simpa using hlen)] at e1
    split at e1
    · right
      have := run_of_last_value h (c :: tl) (by simp) _ _ e1
      rw [hrun] at this
      simp only [Prod.mk.injEq, and_true] at this
      subst this
      exact deep_token (r := r) (c := litSt) (by simp [hat.st]) rfl hlit
    · exfalso
      apply not_errs hrun
      apply errs_of_stepValue h _ (by simp)
      rw [e1]; simp
  · rw [stepLit_full _ tl kind err ev (by rw [hk]; simp) (by simp only; omega)] at e1
    split at e1
    · rename_i hp
      left
      rw [hk] at hp
      simp only [List.length_cons, Nat.add_sub_cancel_left, List.drop_succ_cons, List.drop_zero] at hp
      exact (hasPrefix_iff _ _).mp hp
    · exfalso
      apply not_errs hrun
      apply errs_of_stepValue h _ (by simp)
      rw [e1]; simp

theorem lit_inv {p : P} {r : St} {S : List St} (h : ReadyN p r S) (k : LitK) (tl : Bytes) (q : P)
    (c : UInt8) (wtl : Bytes) (hw : k.word = c :: wtl) (hrun : runA p (c :: tl) = (q, none)) :
    (∃ more, c :: tl = k.word ++ more) ∨ Deep S q := by
  have key : (∃ more, tl = wtl ++ more) ∨ Deep S q := by
    cases k with
    | null =>
      simp only [LitK.word, List.cons.injEq] at hw
      obtain ⟨rfl, rfl⟩ := hw
      exact lit_inv_aux h "null" .expectedNull .null .nullState (by simp) 0x6e [0x75, 0x6c, 0x6c] kind_null
        (by intro b; unfold stepValue; rw [trimLeft_ns _ (by decide)]; rfl) tl q hrun
    | tru =>
      simp only [LitK.word, List.cons.injEq] at hw
      obtain ⟨rfl, rfl⟩ := hw
      exact lit_inv_aux h "true" .expectedTrue (.bool true) .trueState (by simp) 0x74 [0x72, 0x75, 0x65] kind_true
        (by intro b; unfold stepValue; rw [trimLeft_ns _ (by decide)]; rfl) tl q hrun
    | fals =>
      simp only [LitK.word, List.cons.injEq] at hw
      obtain ⟨rfl, rfl⟩ := hw
      exact lit_inv_aux h "false" .expectedFalse (.bool false) .falseState (by simp) 0x66 [0x61, 0x6c, 0x73, 0x65]
        kind_false (by intro b; unfold stepValue; rw [trimLeft_ns _ (by decide)]; rfl) tl q hrun
  rcases key with ⟨more, rfl⟩ | hd
  · exact Or.inl ⟨more, by rw [hw]; rfl⟩
  · exact Or.inr hd

/-- a literal as the value read -/
theorem v_lit {p : P} {r : St} {S : List St} (h : ReadyN p r S) (k : LitK) (c : UInt8) (wtl : Bytes)
    (hw : k.word = c :: wtl) (tl : Bytes) (q : P) (hrun : runA p (c :: tl) = (q, none)) :
    VConcl p r S (c :: tl) q := by
  rcases lit_inv h k tl q c wtl hw hrun with ⟨more, hm⟩ | hd
  · obtain ⟨p1, hp1, hev, hr⟩ := reads_lit h k more trivial
    rw [hm] at hrun ⊢
    rw [hr] at hrun
    refine Or.inr (Or.inr (Or.inr ⟨[], .lit k, more, p1, rfl, rfl, rfl, rfl, ?_, hp1, ?_, hrun⟩))
    · intro hn; simp [J.isNum] at hn
    · rw [hev]; simp [J.eventsL, J.treeL, litTree_events]
  · exact Or.inr (Or.inr (Or.inl hd))

/-- STRINGS: behind an opening quote the run finds a body that unquotes and the closing
quote — or ends inside the string -/
theorem v_str {p : P} {r : St} {S : List St} (h : ReadyN p r S) (tl : Bytes) (q : P)
    (hrun : runA p (0x22 :: tl) = (q, none)) : VConcl p r S (0x22 :: tl) q := by
  obtain ⟨c0, hat, _, _⟩ := h.1.at
  rcases str_split tl with hnone | ⟨raw, more, rfl, hb⟩
  · -- no closing quote: everything is buffered
    have hpush := pushState_ret { p with literalBuffer := [] } r .stringState (isRet_pushOk h.1.1)
    simp only at hpush
    have e1 := stepValue_quote p r tl
    rw [hpush] at e1
    unfold stepString at e1
    rw [doString_start_none _ 0x22 tl rfl (by exact hnone)] at e1
    simp only [Bool.false_and, Bool.false_eq_true, if_false] at e1
    have := run_of_last_value h (0x22 :: tl) (by simp) _ _ e1
    rw [hrun] at this
    simp only [Prod.mk.injEq, and_true] at this
    subst this
    exact Or.inr (Or.inr (Or.inl (deep_token (r := r) (c := .stringState) (by simp [hat.st]) rfl (by simp))))
  · cases hu : unquote raw with
    | error e => exact absurd (errs_str h raw more hb e hu) (not_errs hrun)
    | ok s =>
      obtain ⟨p1, hp1, hev, hr⟩ := reads_strL h raw s hb hu more trivial
      have e0 : (0x22 :: (raw ++ 0x22 :: more) : Bytes) = 0x22 :: (raw ++ [0x22]) ++ more := by simp
      rw [e0] at hrun ⊢
      rw [hr] at hrun
      refine Or.inr (Or.inr (Or.inr ⟨[], .str raw, more, p1, rfl, rfl, hb, ?_, ?_, hp1, ?_, hrun⟩))
      · simp [J.semL, strValL_of_unquote hu]
      · intro hn; simp [J.isNum] at hn
      · rw [hev]; simp [J.eventsL, J.treeL, strValL_of_unquote hu, ETree.events]

/-- NUMBERS: from a byte that begins a number the run finds a token that denotes, followed by
a stop character — or the input ends inside the token -/
theorem v_num {p : P} {r : St} {S : List St} (h : ReadyN p r S) (a : UInt8) (tl : Bytes)
    (ha : (a == ch '-' || a == ch '+' || a == ch '.' || Parse.isDigit a) = true) (q : P)
    (hrun : runA p (a :: tl) = (q, none)) : VConcl p r S (a :: tl) q := by
  rcases num_split a tl ha with hb | ⟨tok, c, t, hsplit, hb, hc⟩
  · have := run_num_pending h (a :: tl) hb
    rw [hrun] at this
    simp only [Prod.mk.injEq, and_true] at this
    exact Or.inr (Or.inl ⟨[], a :: tl, rfl, rfl, hb, this⟩)
  · rw [hsplit] at hrun ⊢
    cases hev : numEvL tok with
    | none => exact absurd (errs_num h tok hb hev c t hc) (not_errs hrun)
    | some ev =>
      obtain ⟨p1, hp1, hevs, hr⟩ := reads_numL h tok hb ev hev (c :: t) ⟨c, t, rfl, hc⟩
      rw [hr] at hrun
      refine Or.inr (Or.inr (Or.inr ⟨[], .num tok, c :: t, p1, rfl, rfl, hb, ?_, ?_, hp1, ?_, hrun⟩))
      · simp [J.semL, hev]
      · intro _; exact ⟨c, t, rfl, hc⟩
      · rw [hevs]; simp [J.eventsL, J.treeL, numTreeL_events tok ev hev]

/-- any other byte is an error -/
theorem stepValue_unknown (p : P) (r : St) (x : UInt8) (tl : Bytes) (hsp : Utf8.isSpaceByte x = false)
    (h1 : (x == ch '{') = false) (h2 : (x == ch '[') = false) (h3 : (x == ch 'n') = false)
    (h4 : (x == ch 'f') = false) (h5 : (x == ch 't') = false) (h6 : (x == ch '"') = false)
    (h7 : (x == ch '-' || x == ch '+' || x == ch '.' || Parse.isDigit x) = false) :
    (stepValue p (x :: tl) r).err = some .unknownChar := by
  unfold stepValue
  rw [trimLeft_ns _ hsp]
  simp only [h1, h2, h3, h4, h5, h6, h7, Bool.false_eq_true, if_false, Bool.not_false, if_true]

end SF.Json.ParseP
