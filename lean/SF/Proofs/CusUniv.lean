/-
  Property C12 with CUSTOM CODE (rule 2: custom folders; rule 6e: `IsZero()`): the universe.

  `goodC reg` extends `goodT` (FoldUniv) by named types WITH methods (`Fold` on the value or the
  pointer receiver, `IsZero` on either) and with a registered fold function (`reg`: the harness'
  `userFoldTypes` are registered), anywhere: as field, element, behind pointers, as dynamic type,
  under `omitempty`, and — if the folder emits an object — under `inline`.
  `wtC reg` extends `wt` by "the type's own code is defined on the value": rule 2 gives a value
  (`customValue … = .ok _`: the folder's events are ONE well-formed value; this is what excludes
  `FOpen`), `IsZero()` is defined on it; and by the exclusion of the one configuration the
  documentation leaves open (READINGS in Rules.lean): a nil `*T` whose folder belongs to the pointer
  type and gives nil a non-null meaning (`FPN`), met behind another pointer or at a named pointer
  type (there the code says null, the rules say what the folder says).
-/
import SF.Proofs.FoldUniv
namespace SF.FoldProofs.Custom
open SF SF.Gotype SF.Gotype.Fold SF.Gotype.Rules

def isOk {ε α : Type} : Except ε α → Bool
  | .ok _ => true
  | .error _ => false

theorem isOk_iff {ε α : Type} {x : Except ε α} : isOk x = true ↔ ∃ a, x = .ok a := by
  cases x <;> simp [isOk]

/-- the receiver the custom code is handed -/
def recvOf (byPtr : Bool) (v : GoVal) : GoVal := if byPtr then .ptr v else v

/-- rule 2 is defined on the value: the custom folder of its type emits one well-formed value -/
def cusOK (reg : Bool) (T : GoType) (v : GoVal) : Bool :=
  match customOf reg T with
  | some (n, byPtr) => isOk (customValue n byPtr v)
  | none => true

/-- `IsZero()` of the type is defined on the value -/
def zeroOK (T : GoType) (v : GoVal) : Bool :=
  match hasIsZero T with
  | some (n, byPtr) => (customIsZero n (recvOf byPtr v)).isSome
  | none => true

/-- the custom code of `n` reports a nil pointer as null -/
def nilNull (n : String) : Bool :=
  match customEvents n .nilPtr with
  | some [.ev .null] => true
  | _ => false

/-- a NIL pointer to `e`.  `strict`: the pointer type is a named type, or the nil pointer was
reached by dereferencing another pointer — there the code reports null whatever the folder of
`*e` would say; otherwise the folder is called with nil and must give one value. -/
def nilTop (reg : Bool) (strict : Bool) (e : GoType) : Bool :=
  match customOf reg e with
  | some (n, true) => if strict then nilNull n else isOk (customNil n)
  | _ => true

/-- `x : e` sits behind a pointer -/
def nilIn (reg : Bool) (e : GoType) (x : GoVal) : Bool :=
  match x, e.under with
  | .nilPtr, .ptr e' => nilTop reg true e'
  | _, _ => true

/-- kinds a type with methods cannot have (pointer, interface) or that hold no value to fold
(chan, func, complex, uintptr) -/
def badKind : GoType → Bool
  | .ptr _ | .iface | .chan _ | .other _ => true
  | _ => false

def isSliceOrMap : GoType → Bool
  | .slice _ | .map _ _ => true
  | _ => false

/-- a named type: no methods and no registered folder — or, with custom code, neither a pointer
nor an interface type (Go allows no methods there) nor of an unsupported kind, and no slice / map type whose `Fold` is
declared on the pointer receiver (an interface value holding it is converted to the unnamed
type, `getFoldConvert`, and the folder is never called) -/
def namedOK (reg : Bool) (n : String) (m : Methods) (u : GoType) : Bool :=
  (noMethods m && !(reg && userFoldTypes.contains n)) ||
  (!badKind u && !(m.folder == .pointer && isSliceOrMap u))

/-- an `inline` field whose type (behind pointers) has a custom folder and is of slice / map kind:
a nil value there is the reading "no demand" (`.userCode`) of the rules -/
def inlineNilF (reg : Bool) (f : Field) : Bool :=
  match fieldKind f with
  | .inline => (customOf reg (stripPtr f.typ).2).isSome && isSliceOrMap (stripPtr f.typ).2.under
  | _ => false

mutual
/-- good types with custom code (cf. `goodT`) -/
def goodC (reg : Bool) : List String → GoType → Bool
  | _, .bool | _, .string | _, .int _ | _, .float32 | _, .float64 | _, .iface | _, .other _ => true
  | sn, .slice e | sn, .array _ e | sn, .ptr e | sn, .chan e => goodC reg sn e
  | sn, .map k e => goodC reg sn k && goodC reg sn e
  | sn, .struct fs => goodCFs reg sn fs
  | sn, .named n m u =>
    !sn.contains n && namedOK reg n m u && unnamedHead u && goodC reg (n :: sn) u
  | _, .ref _ => false
def goodCFs (reg : Bool) : List String → List Field → Bool
  | _, [] => true
  | sn, f :: fs => goodCF reg sn f && goodCFs reg sn fs
def goodCF (reg : Bool) : List String → Field → Bool
  | sn, .mk n t tag a =>
    goodC reg sn t && !inlineIfaceF (.mk n t tag a) && !inlineNilF reg (.mk n t tag a)
end

mutual
/-- `v` is a value of the good type `T` (cf. `wt`), the type's own code is defined on it -/
def wtC (reg : Bool) : GoType → GoVal → Bool
  | T, v =>
    cusOK reg T v && zeroOK T v &&
    match T.under, v with
    | .bool, .bool _ => true
    | .string, .str _ => true
    | .int _, .int _ => true
    | .float32, .f32 _ => true
    | .float64, .f64 _ => true
    | .slice _, .nilSlice => true
    | .slice e, .slice xs => wtCL reg e xs
    | .array _ e, .array xs => wtCL reg e xs
    | .map _ _, .nilMap => true
    | .map k e, .map ms => wtCP reg k e ms && decide (mapKeys ms).Nodup
    | .ptr e, .nilPtr => nilTop reg T.isNamed e
    | .ptr e, .ptr x => wtC reg e x && nilIn reg e x
    | .iface, .nilIface => true
    | .iface, .iface dt dv => goodC reg [] dt && decide (tdepth dt ≤ dynBound) && wtC reg dt dv
    | .struct fs, .struct vs => wtCF reg fs vs
    | .chan _, _ => true
    | .other _, _ => true
    | _, _ => false
def wtCL (reg : Bool) : GoType → List GoVal → Bool
  | _, [] => true
  | e, x :: xs => wtC reg e x && wtCL reg e xs
def wtCP (reg : Bool) : GoType → GoType → List (GoVal × GoVal) → Bool
  | _, _, [] => true
  | k, e, (kv, x) :: ms => wtC reg k kv && wtC reg e x && wtCP reg k e ms
def wtCF (reg : Bool) : List Field → List GoVal → Bool
  | [], [] => true
  | f :: fs, v :: vs => wtC reg f.typ v && (!lazyField f || decide (vdepth v ≤ lazyBound)) && wtCF reg fs vs
  | _, _ => false
end

/-! ## the three kinds of heads -/

/-- the type itself has a custom folder (rule 2 applies to its values) -/
def isC1 (reg : Bool) (T : GoType) : Bool := (customOf reg T).isSome

/-- the type is a pointer to a type with a custom folder (the code calls the folder with the
pointer, nil included) -/
def isC2 (reg : Bool) : GoType → Bool
  | .ptr e => isC1 reg e
  | _ => false

/-- neither: the type folds by the structural rules -/
def plainT (reg : Bool) (T : GoType) : Bool := !isC1 reg T && !isC2 reg T

variable {reg : Bool}

/-! ## head facts about good types -/

theorem whnf_good {sn : List String} {T : GoType} (h : goodC reg sn T = true) : T.whnf = T := by
  cases T <;> simp_all [GoType.whnf, goodC]

theorem good_under {sn : List String} {T : GoType} (h : goodC reg sn T = true) :
    goodC reg (snU sn T) T.under = true ∧ unnamedHead T.under = true := by
  cases T <;> simp_all [GoType.under, goodC, snU, unnamedHead]

theorem under_under {sn : List String} {T : GoType} (h : goodC reg sn T = true) : T.under.under = T.under :=
  under_unnamed (good_under h).2

theorem headKind {sn : List String} {T : GoType} (hg : goodC reg sn T = true) :
    unnamedHead T = true ∨ ∃ n m u, T = .named n m u := by
  cases T <;> simp_all [unnamedHead, goodC]

theorem customOf_unnamed (reg : Bool) {T : GoType} (hu : unnamedHead T = true) : customOf reg T = none := by
  cases T <;> first | rfl | simp [unnamedHead] at hu

theorem hasIsZero_unnamed {T : GoType} (hu : unnamedHead T = true) : hasIsZero T = none := by
  cases T <;> first | rfl | simp [unnamedHead] at hu

theorem customOf_named (reg : Bool) (n : String) (m : Methods) (u : GoType) :
    customOf reg (.named n m u) =
      if reg && userFoldTypes.contains n then some (n, true)
      else if m.folder == .value then some (n, false)
      else if m.folder == .pointer then some (n, true)
      else none := rfl

theorem isC1_unnamed {T : GoType} (hu : unnamedHead T = true) : isC1 reg T = false := by
  simp [isC1, customOf_unnamed reg hu]

theorem customOf_plain {T : GoType} (hp : plainT reg T = true) : customOf reg T = none := by
  simp only [plainT, isC1, Bool.and_eq_true, Bool.not_eq_true', Option.isSome_eq_false_iff,
    Option.isNone_iff_eq_none] at hp
  exact hp.1

theorem customOf_notC1 {T : GoType} (hp : isC1 reg T = false) : customOf reg T = none := by
  simpa [isC1] using hp

/-- a type that is no pointer type literally is plain as soon as it has no custom folder -/
theorem plain_of_notC1 {T : GoType} (h1 : isC1 reg T = false) (hnp : ∀ e, T ≠ .ptr e) : plainT reg T = true := by
  unfold plainT
  rw [h1]
  cases T <;> first | rfl | exact absurd rfl (hnp _)

theorem plain_unnamed {T : GoType} (hu : unnamedHead T = true) (hnp : ∀ e, T ≠ .ptr e) : plainT reg T = true :=
  plain_of_notC1 (isC1_unnamed hu) hnp

/-- the custom folder of a named type: what makes it one -/
theorem isC1_named {n : String} {m : Methods} {u : GoType} :
    isC1 reg (.named n m u) = ((reg && userFoldTypes.contains n) || m.folder != .none) := by
  unfold isC1
  rw [customOf_named]
  cases hr : (reg && userFoldTypes.contains n)
  · cases hm : m.folder <;> simp
  · simp

/-- a good type with a custom folder: its shape -/
theorem c1_shape {sn : List String} {T : GoType} (hg : goodC reg sn T = true) (h1 : isC1 reg T = true) :
    ∃ n m u, T = .named n m u ∧ ¬ n ∈ sn ∧ badKind u = false ∧
      (m.folder == .pointer && isSliceOrMap u) = false ∧ unnamedHead u = true := by
  rcases headKind hg with hu | ⟨n, m, u, rfl⟩
  · rw [isC1_unnamed hu] at h1; cases h1
  · refine ⟨n, m, u, rfl, ?_⟩
    rw [isC1_named] at h1
    simp only [goodC, Bool.and_eq_true, Bool.not_eq_true', namedOK, Bool.or_eq_true] at hg
    obtain ⟨⟨⟨hn, hok⟩, hu⟩, _⟩ := hg
    have hn' : ¬ n ∈ sn := by simpa using hn
    rcases hok with ⟨hnm, hnr⟩ | hok
    · exfalso
      simp only [noMethods, Bool.and_eq_true, beq_iff_eq] at hnm
      rw [hnm.1] at h1
      simp only [Bool.or_eq_true, bne_self_eq_false, Bool.false_eq_true, or_false] at h1
      rw [h1] at hnr
      cases hnr
    · exact ⟨hn', by simpa using hok.1, by simpa using hok.2, hu⟩

section
variable {o : FoldOpts} (hreg : o.folders = reg)
include hreg

theorem userReg_named (n : String) (m : Methods) (u : GoType) :
    userReg o (.named n m u) = if reg && userFoldTypes.contains n then some (.userVal n) else none := by
  unfold userReg
  rw [hreg]
  cases reg <;> simp [GoType.whnf]

theorem userReg_ptr_named (n : String) (m : Methods) (u : GoType) :
    userReg o (.ptr (.named n m u)) = if reg && userFoldTypes.contains n then some (.userPtr n) else none := by
  unfold userReg
  rw [hreg]
  cases reg <;> simp [GoType.whnf]

theorem userReg_good {sn : List String} {T : GoType} (h : goodC reg sn T = true) (hp : plainT reg T = true) :
    userReg o T = none := by
  simp only [plainT, Bool.and_eq_true, Bool.not_eq_true'] at hp
  obtain ⟨h1, h2⟩ := hp
  cases T with
  | named n m u =>
    rw [isC1_named] at h1
    simp only [Bool.or_eq_false_iff] at h1
    simp only [userReg_named hreg, h1.1, Bool.false_eq_true, if_false]
  | ptr e =>
    have he : goodC reg sn e = true := by simpa [goodC] using h
    simp only [isC2] at h2
    rcases headKind he with hu | ⟨n, m, u, rfl⟩
    · unfold userReg
      split
      · rfl
      · simp only [GoType.whnf]
        cases e <;> first | rfl | simp [unnamedHead] at hu
    · rw [isC1_named] at h2
      simp only [Bool.or_eq_false_iff] at h2
      simp only [userReg_ptr_named hreg, h2.1, Bool.false_eq_true, if_false]
  | ref a => simp [goodC] at h
  | _ => unfold userReg; split <;> rfl

end

theorem implementsFolder_named (n : String) (m : Methods) (u : GoType) :
    implementsFolder (.named n m u) = (m.folder == .value) := rfl

theorem implementsFolder_ptr_named (n : String) (m : Methods) (u : GoType) :
    implementsFolder (.ptr (.named n m u)) = (m.folder != .none) := rfl

theorem implementsFolder_good {sn : List String} {T : GoType} (h : goodC reg sn T = true)
    (hp : plainT reg T = true) : implementsFolder T = false := by
  simp only [plainT, Bool.and_eq_true, Bool.not_eq_true'] at hp
  obtain ⟨h1, h2⟩ := hp
  cases T with
  | named n m u =>
    rw [implementsFolder_named]
    rw [isC1_named] at h1
    simp only [Bool.or_eq_false_iff] at h1
    have : m.folder = .none := by simpa using h1.2
    rw [this]; rfl
  | ptr e =>
    have he : goodC reg sn e = true := by simpa [goodC] using h
    simp only [isC2] at h2
    rcases headKind he with hu | ⟨n, m, u, rfl⟩
    · unfold implementsFolder
      simp only [GoType.whnf]
      cases e <;> first | rfl | simp [unnamedHead] at hu
    · rw [implementsFolder_ptr_named]
      rw [isC1_named] at h2
      simp only [Bool.or_eq_false_iff] at h2
      have : m.folder = .none := by simpa using h2.2
      rw [this]; rfl
  | ref a => simp [goodC] at h
  | _ => rfl

theorem implementsPtrFolder_good {sn : List String} {T : GoType} (h : goodC reg sn T = true)
    (h1 : isC1 reg T = false) : implementsPtrFolder T = false := by
  unfold implementsPtrFolder
  refine implementsFolder_good (sn := sn) (T := .ptr T) (by simpa [goodC] using h) ?_
  simp [plainT, isC2, h1, isC1_unnamed (T := .ptr T) rfl]

/-- a good type is not under compilation -/
theorem name_fresh {sn : List String} {n : String} {m : Methods} {u : GoType}
    (h : goodC reg sn (.named n m u) = true) : ¬ n ∈ sn := by
  simp only [goodC, Bool.and_eq_true, Bool.not_eq_true'] at h
  simpa using h.1.1.1

theorem good_named_under {sn : List String} {n : String} {m : Methods} {u : GoType}
    (h : goodC reg sn (.named n m u) = true) : goodC reg (n :: sn) u = true ∧ unnamedHead u = true := by
  simp only [goodC, Bool.and_eq_true] at h
  exact ⟨h.2, h.1.2⟩

end SF.FoldProofs.Custom
