/-
  Typed targets, part 17: ANY container start in ANY reachable context.
-/
import SF.Proofs.UnfTyScalar2
namespace SF.Unf
open SF

variable {D : Nat} {base : S6}

/-- the outcome of a container start announcing element type code `bt`: refused, the documented
panic for an invalid code, or accepted with the invariant kept -/
def StartOut (D : Nat) (base : S6) (bt : Nat) (r : R Unit) : Prop :=
  (∃ e c', r = .err e c') ∨ (∃ c', r = .panic c' ∧ 17 ≤ bt) ∨
  (∃ c' fs', r = .ok () c' ∧ Inv D base fs' c' ∧ Rest fs')

theorem onArrayStart_rsl (n : Nat) (l : Int) (bt : Nat) (c : Ctx) (e : GoType) (ru : RU)
    (hcur : c.unfolder.current = .reflSlice e ru) :
    onArrayStart (n + 1) l bt c = (reflSlicePrepare >>= fun q => initStateRU ru q >>= fun _ => onArrayStart n l bt) c := by
  simp [onArrayStart, bind_def, currentU, hcur]
theorem onArrayStart_rmE (n : Nat) (l : Int) (bt : Nat) (c : Ctx) (e : GoType) (ru : RU)
    (hcur : c.unfolder.current = .reflMapOnElem e ru) :
    onArrayStart (n + 1) l bt c =
      (reflMapOnElemPrepare e >>= fun q => initStateRU ru q >>= fun _ => onArrayStart n l bt) c := by
  simp [onArrayStart, bind_def, currentU, hcur]
theorem onArrayStart_rp (n : Nat) (l : Int) (bt : Nat) (c : Ctx) (e : GoType) (ru : RU)
    (hcur : c.unfolder.current = .reflPtr e ru) :
    onArrayStart (n + 1) l bt c =
      (reflMapOnElemPrepare e >>= fun q => initStateRU ru q >>= fun _ => onArrayStart n l bt) c := by
  simp [onArrayStart, bind_def, currentU, hcur, reflPtrPrepare_eq]
theorem onObjectStart_rsl (n : Nat) (l : Int) (bt : Nat) (c : Ctx) (e : GoType) (ru : RU)
    (hcur : c.unfolder.current = .reflSlice e ru) :
    onObjectStart (n + 1) l bt c =
      (reflSlicePrepare >>= fun q => initStateRU ru q >>= fun _ => onObjectStart n l bt) c := by
  simp [onObjectStart, bind_def, currentU, hcur]
theorem onObjectStart_rmE (n : Nat) (l : Int) (bt : Nat) (c : Ctx) (e : GoType) (ru : RU)
    (hcur : c.unfolder.current = .reflMapOnElem e ru) :
    onObjectStart (n + 1) l bt c =
      (reflMapOnElemPrepare e >>= fun q => initStateRU ru q >>= fun _ => onObjectStart n l bt) c := by
  simp [onObjectStart, bind_def, currentU, hcur]
theorem onObjectStart_rp (n : Nat) (l : Int) (bt : Nat) (c : Ctx) (e : GoType) (ru : RU)
    (hcur : c.unfolder.current = .reflPtr e ru) :
    onObjectStart (n + 1) l bt c =
      (reflMapOnElemPrepare e >>= fun q => initStateRU ru q >>= fun _ => onObjectStart n l bt) c := by
  simp [onObjectStart, bind_def, currentU, hcur, reflPtrPrepare_eq]

/-- forwarding a start event through a reflection frame: one more slice element / a fresh cell,
the element unfolder's frame on it -/
theorem forward_frames {F : Frame} {fs : List Frame} {c : Ctx} (h : Inv D base (F :: fs) c) :
    (∀ e ru p i, F = .rsl e ru p i →
      ∃ q c2 fs2, (reflSlicePrepare >>= fun q => initStateRU ru q) c = .ok () c2 ∧
        Inv D base (waitF ru q :: fs2) c2 ∧ (waitF ru q).need ≤ ru.depth + 1) ∧
    (∀ e ru, (∃ p key, F = .rmE e ru p key) ∨ (∃ p, F = .rp e ru p) →
      ∃ q c2 fs2, (reflMapOnElemPrepare e >>= fun q => initStateRU ru q) c = .ok () c2 ∧
        Inv D base (waitF ru q :: fs2) c2 ∧ (waitF ru q).need ≤ ru.depth + 1) := by
  constructor
  · intro e ru p i hF
    subst hF
    obtain ⟨hru, hreq⟩ := ruOK_elem_slice h.wfs.1.2.1
    obtain ⟨c1, hprep, hinv1, ⟨x, hx, hxok⟩, _, _⟩ := prepare_rsl e ru p i h
    obtain ⟨c2, hinit, hinv2, _, _⟩ := init_at ru (p.push (.index i.toNat)) hru hinv1
      (fun a => ⟨⟨_, rfl⟩, by rw [hreq]; exact Sh.le_refl _⟩) x hx (by rw [hreq]; exact hxok)
    exact ⟨_, c2, _, by rw [bind_ok _ _ c c1 _ hprep]; exact hinit, hinv2, need_waitF _ _⟩
  · intro e ru hF
    have hG : F.takesCell := by
      rcases hF with ⟨p, key, rfl⟩ | ⟨p, rfl⟩ <;> trivial
    have hok : ruOK D ru ∧ ru.req = shOf e := by
      rcases hF with ⟨p, key, rfl⟩ | ⟨p, rfl⟩
      · exact ruOK_elem_map h.wfs.1.2
      · exact ruOK_elem_ptr h.wfs.1.2
    obtain ⟨hru, hreq⟩ := hok
    obtain ⟨c1, hprep, hinv1, hx, _⟩ := prepare_cell e F hG h
    obtain ⟨c2, hinit, hinv2, _, _⟩ := init_at ru ⟨.cell c.cells.size, []⟩ hru hinv1
      (fun a => rfl) _ hx (by rw [hreq]; exact shaped_zero _ e)
    exact ⟨_, c2, _, by rw [bind_ok _ _ c c1 _ hprep]; exact hinit, hinv2, need_waitF _ _⟩

theorem bind_assoc3 {α β : Type} (m : M α) (f : α → M β) (g : M Unit) (c : Ctx) :
    (m >>= fun q => f q >>= fun _ => g) c = ((m >>= fun q => f q) >>= fun _ => g) c := by
  simp only [bind_def]
  cases m c <;> rfl

theorem Frame.isSinkF_of {F : Frame} (k : PK) (hk : k = .ifc)
    (hF : (∃ p, F = .prim k p) ∨ (∃ p i, F = .arr k p i) ∨ (∃ p key, F = .mapV k p key)) : F.isSinkF := by
  subst hk
  rcases hF with ⟨p, rfl⟩ | ⟨p, i, rfl⟩ | ⟨p, key, rfl⟩ <;> trivial

/-- ANY ARRAY START, ANY FRAME -/
theorem arrStart_step : ∀ (n : Nat) (F : Frame) (fs : List Frame) (c : Ctx) (l : Int) (bt : Nat),
    Inv D base (F :: fs) c → F.hasU → F.need ≤ n → StartOut D base bt (onArrayStart n l bt c) := by
  intro n
  induction n with
  | zero => intro F fs c l bt _ _ hn; have := F.need_pos; omega
  | succ n ih =>
    intro F fs c l bt h hU hn
    have hcur := h.cur hU
    have sink : ∀ k : PK, ((∃ p, F = .prim k p) ∨ (∃ p i, F = .arr k p i) ∨ (∃ p key, F = .mapV k p key)) →
        F.cur = .prim k ∨ F.cur = .arr k ∨ F.cur = .mapVal k →
        StartOut D base bt (onArrayStart (n + 1) l bt c) := by
      intro k hF hc
      by_cases hk : k = .ifc
      · have hs := Frame.isSinkF_of k hk hF
        cases hbk : btKind bt with
        | none =>
          exact Or.inr (Or.inl ⟨c, arrStart_invalid n l bt c (hs.cur h) hbk, (btKind_none_iff bt).mp hbk⟩)
        | some k' =>
          obtain ⟨c', h1, h2⟩ := arrStart_sinkF hs n l bt k' hbk h
          exact Or.inr (Or.inr ⟨c', _, h1, h2, ⟨trivial, fun h => h.elim⟩⟩)
      · have : F.cur.noArrStart := by rcases hc with hc | hc | hc <;> rw [hc] <;> exact hk
        obtain ⟨e, he⟩ := arrStart_errU n l bt c _ hcur this
        exact Or.inl ⟨e, c, he⟩
    have fwd : ∀ (c2 : Ctx) (G : Frame) (fs2 : List Frame), Inv D base (G :: fs2) c2 → G.hasU → G.need ≤ n →
        StartOut D base bt (onArrayStart n l bt c2) := fun c2 G fs2 h2 hG hn2 => ih G fs2 c2 l bt h2 hG hn2
    cases F with
    | sub a bt' sl k => exact hU.elim
    | cellx C => exact hU.elim
    | prim k p => exact sink k (Or.inl ⟨p, rfl⟩) (Or.inl rfl)
    | arr k p i => exact sink k (Or.inr (Or.inl ⟨p, i, rfl⟩)) (Or.inr (Or.inl rfl))
    | mapV k p key => exact sink k (Or.inr (Or.inr ⟨p, key, rfl⟩)) (Or.inr (Or.inr rfl))
    | arrS k p =>
      obtain ⟨c', h1, h2⟩ := arrStart_arrS k p n l bt h
      exact Or.inr (Or.inr ⟨c', _, h1, h2, ⟨trivial, fun h => h.elim⟩⟩)
    | rslS e ru p =>
      obtain ⟨c', h1, h2⟩ := arrStart_rslS e ru p n l bt h
      exact Or.inr (Or.inr ⟨c', _, h1, h2, ⟨trivial, fun h => h.elim⟩⟩)
    | mapS k p => obtain ⟨e, he⟩ := arrStart_errU n l bt c _ hcur trivial; exact Or.inl ⟨e, c, he⟩
    | mapK k p => obtain ⟨e, he⟩ := arrStart_errU n l bt c _ hcur trivial; exact Or.inl ⟨e, c, he⟩
    | rmS e ru p => obtain ⟨e, he⟩ := arrStart_errU n l bt c _ hcur trivial; exact Or.inl ⟨e, c, he⟩
    | rmK e ru p => obtain ⟨e, he⟩ := arrStart_errU n l bt c _ hcur trivial; exact Or.inl ⟨e, c, he⟩
    | rsl e ru p i =>
      obtain ⟨q, c2, fs2, hrun, hinv2, hneed⟩ := (forward_frames h).1 e ru p i rfl
      rw [onArrayStart_rsl n l bt c e ru hcur, bind_assoc3, bind_ok _ _ c c2 _ hrun]
      exact fwd c2 _ fs2 hinv2 (hasU_waitF _ _) (by simp only [Frame.need] at hn; omega)
    | rmE e ru p key =>
      obtain ⟨q, c2, fs2, hrun, hinv2, hneed⟩ := (forward_frames h).2 e ru (Or.inl ⟨p, key, rfl⟩)
      rw [onArrayStart_rmE n l bt c e ru hcur, bind_assoc3, bind_ok _ _ c c2 _ hrun]
      exact fwd c2 _ fs2 hinv2 (hasU_waitF _ _) (by simp only [Frame.need] at hn; omega)
    | rp e ru p =>
      obtain ⟨q, c2, fs2, hrun, hinv2, hneed⟩ := (forward_frames h).2 e ru (Or.inr ⟨p, rfl⟩)
      rw [onArrayStart_rp n l bt c e ru hcur, bind_assoc3, bind_ok _ _ c c2 _ hrun]
      exact fwd c2 _ fs2 hinv2 (hasU_waitF _ _) (by simp only [Frame.need] at hn; omega)

/-- ANY OBJECT START, ANY FRAME -/
theorem objStart_step : ∀ (n : Nat) (F : Frame) (fs : List Frame) (c : Ctx) (l : Int) (bt : Nat),
    Inv D base (F :: fs) c → F.hasU → F.need ≤ n → StartOut D base bt (onObjectStart n l bt c) := by
  intro n
  induction n with
  | zero => intro F fs c l bt _ _ hn; have := F.need_pos; omega
  | succ n ih =>
    intro F fs c l bt h hU hn
    have hcur := h.cur hU
    have sink : ∀ k : PK, ((∃ p, F = .prim k p) ∨ (∃ p i, F = .arr k p i) ∨ (∃ p key, F = .mapV k p key)) →
        F.cur = .prim k ∨ F.cur = .arr k ∨ F.cur = .mapVal k →
        StartOut D base bt (onObjectStart (n + 1) l bt c) := by
      intro k hF hc
      by_cases hk : k = .ifc
      · have hs := Frame.isSinkF_of k hk hF
        cases hbk : btKind bt with
        | none =>
          exact Or.inr (Or.inl ⟨c, objStart_invalid n l bt c (hs.cur h) hbk, (btKind_none_iff bt).mp hbk⟩)
        | some k' =>
          obtain ⟨c', h1, h2⟩ := objStart_sinkF hs n l bt k' hbk h
          exact Or.inr (Or.inr ⟨c', _, h1, h2, ⟨trivial, fun h => h.elim⟩⟩)
      · have : F.cur.noObjStart := by rcases hc with hc | hc | hc <;> rw [hc] <;> exact hk
        obtain ⟨e, he⟩ := objStart_errU n l bt c _ hcur this
        exact Or.inl ⟨e, c, he⟩
    have fwd : ∀ (c2 : Ctx) (G : Frame) (fs2 : List Frame), Inv D base (G :: fs2) c2 → G.hasU → G.need ≤ n →
        StartOut D base bt (onObjectStart n l bt c2) := fun c2 G fs2 h2 hG hn2 => ih G fs2 c2 l bt h2 hG hn2
    cases F with
    | sub a bt' sl k => exact hU.elim
    | cellx C => exact hU.elim
    | prim k p => exact sink k (Or.inl ⟨p, rfl⟩) (Or.inl rfl)
    | arr k p i => exact sink k (Or.inr (Or.inl ⟨p, i, rfl⟩)) (Or.inr (Or.inl rfl))
    | mapV k p key => exact sink k (Or.inr (Or.inr ⟨p, key, rfl⟩)) (Or.inr (Or.inr rfl))
    | mapS k p =>
      obtain ⟨c', h1, h2⟩ := objStart_mapS k p n l bt h
      exact Or.inr (Or.inr ⟨c', _, h1, h2, ⟨trivial, fun h => h.elim⟩⟩)
    | rmS e ru p =>
      obtain ⟨c', h1, h2⟩ := objStart_rmS e ru p n l bt h
      exact Or.inr (Or.inr ⟨c', _, h1, h2, ⟨trivial, fun h => h.elim⟩⟩)
    | arrS k p => obtain ⟨e, he⟩ := objStart_errU n l bt c _ hcur trivial; exact Or.inl ⟨e, c, he⟩
    | mapK k p => obtain ⟨e, he⟩ := objStart_errU n l bt c _ hcur trivial; exact Or.inl ⟨e, c, he⟩
    | rslS e ru p => obtain ⟨e, he⟩ := objStart_errU n l bt c _ hcur trivial; exact Or.inl ⟨e, c, he⟩
    | rmK e ru p => obtain ⟨e, he⟩ := objStart_errU n l bt c _ hcur trivial; exact Or.inl ⟨e, c, he⟩
    | rsl e ru p i =>
      obtain ⟨q, c2, fs2, hrun, hinv2, hneed⟩ := (forward_frames h).1 e ru p i rfl
      rw [onObjectStart_rsl n l bt c e ru hcur, bind_assoc3, bind_ok _ _ c c2 _ hrun]
      exact fwd c2 _ fs2 hinv2 (hasU_waitF _ _) (by simp only [Frame.need] at hn; omega)
    | rmE e ru p key =>
      obtain ⟨q, c2, fs2, hrun, hinv2, hneed⟩ := (forward_frames h).2 e ru (Or.inl ⟨p, key, rfl⟩)
      rw [onObjectStart_rmE n l bt c e ru hcur, bind_assoc3, bind_ok _ _ c c2 _ hrun]
      exact fwd c2 _ fs2 hinv2 (hasU_waitF _ _) (by simp only [Frame.need] at hn; omega)
    | rp e ru p =>
      obtain ⟨q, c2, fs2, hrun, hinv2, hneed⟩ := (forward_frames h).2 e ru (Or.inr ⟨p, rfl⟩)
      rw [onObjectStart_rp n l bt c e ru hcur, bind_assoc3, bind_ok _ _ c c2 _ hrun]
      exact fwd c2 _ fs2 hinv2 (hasU_waitF _ _) (by simp only [Frame.need] at hn; omega)

end SF.Unf
