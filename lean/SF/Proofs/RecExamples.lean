/-
  Non-vacuity of the theorem on recursive types: the menagerie member
  `type N struct{V int; Next *N}` (a linked list) satisfies `MenOK ["N"] 3`, and the list
  `N{1, &N{2, nil}}` folds to `{"v": 1, "next": {"v": 2, "next": null}}`.
-/
import SF.Proofs.RecMain
import SF.Proofs.FoldExamples
namespace SF.FoldRec.Examples
open SF SF.Gotype SF.Gotype.Fold SF.Gotype.Rules SF.FoldProofs SF.FoldRec SF.FoldProofs.Examples

abbrev fV : Field := .mk "V" (.int .int) "" false
abbrev fNext : Field := .mk "Next" (.ptr (.ref "N")) "" false
abbrev bodyN : GoType := .struct [fV, fNext]

/-- the menagerie's declaration of `N` (the kernel runs the type parser over the whole menagerie) -/
theorem lookupN : menagerie.lookup "N" = some (.named "N" {} bodyN) := by
  have h : (match menagerie.lookup "N" with
      | some t => beqT t (.named "N" {} bodyN)
      | none => false) = true := by decide +kernel
  cases hl : menagerie.lookup "N" with
  | none => rw [hl] at h; cases h
  | some t => rw [hl] at h; rw [beqT_eq _ _ h]

theorem kV : fieldKind fV = .plain [118] := by
  rw [fieldKind_untagged _ _ _ (by decide +kernel)]; decide +kernel
theorem kNext : fieldKind fNext = .plain [110, 101, 120, 116] := by
  rw [fieldKind_untagged _ _ _ (by decide +kernel)]; decide +kernel

theorem whnfN : (GoType.ref "N").whnf = .named "N" {} bodyN := by
  simp [GoType.whnf, lookupN]

theorem underN : (GoType.ref "N").under = bodyN := by
  simp [GoType.under, lookupN]

theorem customN (reg : Bool) : Rules.customOf reg (.ref "N") = none := by
  unfold Rules.customOf
  rw [whnfN]
  have : ¬ "N" ∈ userFoldTypes := by decide +kernel
  simp [this]

/-- a reference to `N` is accepted at once when `N` has been seen -/
theorem typeOk_refN (k : Nat) (reg : Bool) : typeOkF (k + 1) reg ["N"] (.ref "N") = .ok () := by
  conv => lhs; unfold typeOkF
  simp only [customN, Option.isSome_none, Bool.false_eq_true, if_false, GoType.menagerieName?]
  rfl

theorem goodN : goodR ["N"] bodyN = true := by
  simp only [goodR, goodRFs, goodRF, inlineIfaceF, kV, kNext]
  decide +kernel

theorem customBody (reg : Bool) (fs : List Field) : Rules.customOf reg (.struct fs) = none := rfl
theorem customPtr (reg : Bool) (e : GoType) : Rules.customOf reg (.ptr e) = none := rfl

/-- the rules accept the declaration of `N` locally -/
theorem localN (k : Nat) (reg : Bool) : typeOkF (k + 4) reg ["N"] bodyN = .ok () := by
  conv => lhs; unfold typeOkF
  simp only [customBody, Option.isSome_none, Bool.false_eq_true, if_false, GoType.menagerieName?,
    forM_cons', forM_nil', fieldOkF_eq, kV, kNext]
  have h1 : typeOkF (k + 2) reg ["N"] fV.typ = .ok () := rfl
  have h2 : typeOkF (k + 2) reg ["N"] fNext.typ = typeOkF (k + 1) reg ["N"] (.ref "N") := rfl
  rw [h1, h2, typeOk_refN]

theorem menN : MenOK ["N"] 3 := by
  refine ⟨?_, ?_⟩
  · intro n hn
    have : n = "N" := by simpa using hn
    subst this
    exact ⟨bodyN, lookupN, rfl, (fun e h => by cases h), goodN, (by decide +kernel), (by decide +kernel)⟩
  · intro n hn u hu reg
    have : n = "N" := by simpa using hn
    subst this
    rw [lookupN] at hu
    cases hu
    exact ⟨4, localN 0 reg⟩

theorem fuelN : FuelOK ["N"] 3 := by unfold FuelOK compileFuel; decide

/-- the list `N{1, &N{2, nil}}` -/
abbrev vN : GoVal := .struct [.int 1, .ptr (.struct [.int 2, .nilPtr])]
abbrev rN : RVal :=
  .obj [(false, [([118], .int 1)]),
        (false, [([110, 101, 120, 116], .obj [(false, [([118], .int 2)]), (false, [([110, 101, 120, 116], .null)])])])]

theorem wtN_inner : wtR ["N"] 3 (.ref "N") (.struct [.int 2, .nilPtr]) = true := by
  unfold wtR
  rw [underN]
  simp only [wtRF, lazyField, kV, kNext]
  decide +kernel

theorem wtN : wtR ["N"] 3 (.ref "N") vN = true := by
  unfold wtR
  rw [underN]
  have h : wtR ["N"] 3 fNext.typ (GoVal.struct [GoVal.int 2, GoVal.nilPtr]).ptr = true := wtN_inner
  simp only [wtRF, lazyField, kV, kNext, h]
  decide +kernel

theorem tokN : Rules.typeOk true (.ref "N") = .ok () := by
  unfold Rules.typeOk
  conv => lhs; unfold typeOkF
  simp only [customN, Option.isSome_none, Bool.false_eq_true, if_false, GoType.menagerieName?]
  have : ([] : List String).contains "N" = false := rfl
  simp only [this, Bool.false_eq_true, if_false, underN]
  exact localN 995 true

theorem foldN_inner : foldF 99997 true (.ref "N") (.struct [.int 2, .nilPtr]) =
    .ok (.obj [(false, [([118], .int 2)]), (false, [([110, 101, 120, 116], .null)])]) := by
  rw [foldF_underR menN 99996 true (by decide +kernel), underN, foldF_struct]
  simp only [List.zip_cons_cons, List.zip_nil_right, mapM_cons, mapM_nil, fieldF_eq, kV, kNext]
  rfl

theorem specN : Rules.foldR (.ref "N") vN = .ok rN := by
  unfold Rules.foldR
  rw [tokN]
  simp only []
  rw [foldF_underR menN 99999 true (by decide +kernel), underN, foldF_struct]
  simp only [List.zip_cons_cons, List.zip_nil_right, mapM_cons, mapM_nil, fieldF_eq, kV, kNext]
  have h1 : foldF 99998 true fV.typ (GoVal.int 1) = .ok (.int 1) := rfl
  have h2 : foldF 99998 true fNext.typ (GoVal.struct [GoVal.int 2, GoVal.nilPtr]).ptr =
      foldF 99997 true (.ref "N") (.struct [.int 2, .nilPtr]) := rfl
  rw [h1, h2, foldN_inner]
  rfl

/-! the same with the type as the type parser writes it: `N`'s own declaration -/

abbrev TN : GoType := .named "N" {} bodyN

theorem goodTN : goodR ["N"] TN = true := by
  simp only [goodR, lookupN, beqT_refl]
  decide +kernel

theorem wtTN : wtR ["N"] 3 TN vN = true := by
  have : wtR ["N"] 3 TN vN = wtR ["N"] 3 (.ref "N") vN := by
    conv => lhs; unfold wtR
    conv => rhs; unfold wtR
    rw [underN]
    rfl
  rw [this]; exact wtN

theorem tokTN : Rules.typeOk true TN = .ok () := by
  unfold Rules.typeOk
  conv => lhs; unfold typeOkF
  have hc : Rules.customOf true TN = none := customOf_goodR menN true goodTN
  simp only [hc, Option.isSome_none, Bool.false_eq_true, if_false, GoType.menagerieName?]
  have : ([] : List String).contains "N" = false := rfl
  simp only [this, Bool.false_eq_true, if_false, GoType.under]
  exact localN 995 true

theorem specTN : Rules.foldR TN vN = .ok rN := by
  have h := specN
  unfold Rules.foldR at h ⊢
  rw [tokN] at h
  rw [tokTN]
  simp only [] at h ⊢
  rw [foldF_underR menN 99999 true (by decide +kernel), underN] at h
  rw [foldF_underR menN 99999 true goodTN]
  exact h


end SF.FoldRec.Examples
