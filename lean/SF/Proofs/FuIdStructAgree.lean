/-
  C11, direct path, STRUCT types with fields of primitive kind — the ORACLE's comparison
  (`agreeF "direct"`): dropped fields must have stayed zero, members must agree at their type.
-/
import SF.Proofs.FuIdStructRun
namespace SF.FuId
open SF SF.Gotype SF.Gotype.Fold SF.FoldProofs
open SF.Ops.Fu (agreeF isZeroF)

/-- the EXACT translation of a field value (no NaN quieting) -/
def trFieldX : FD → GoVal → Unf.GoVal
  | .drop p, _ => zeroPrim p
  | .mem _ p, v => trPrim p v

theorem fk_drop {f : Field} (h : fieldKind f = .drop) :
    (!f.exported || (Rules.parseTag f.tag).dash || (Rules.parseTag f.tag).omit') = true := by
  unfold fieldKind at h
  simp only [] at h
  split at h
  · rename_i h1; simp only [h1, Bool.true_or]
  · split at h
    · cases h
    · split at h
      · rename_i h3; simp [h3]
      · split at h
        · cases h
        · split at h <;> cases h

theorem fk_plain {f : Field} {nm : Bytes} (h : fieldKind f = .plain nm) :
    (!f.exported || (Rules.parseTag f.tag).dash || (Rules.parseTag f.tag).omit') = false ∧
      (Rules.parseTag f.tag).inline = false ∧ (Rules.parseTag f.tag).omitEmpty = false := by
  unfold fieldKind at h
  simp only [] at h
  split at h
  · cases h
  · rename_i h1
    split at h
    · cases h
    · split at h
      · cases h
      · rename_i h3
        split at h
        · cases h
        · rename_i h4
          split at h
          · cases h
          · rename_i h5
            refine ⟨?_, by simpa using h4, by simpa using h5⟩
            have h1' : (!f.exported || (Rules.parseTag f.tag).dash) = false := by simpa using h1
            have h3' : (Rules.parseTag f.tag).omit' = false := by simpa using h3
            rw [h1', h3']; rfl

theorem isZero_zeroPrim (p : Prim) : isZeroF 1000 (back (zeroPrim p)) = true := by
  cases p <;> simp [zeroPrim, back, isZeroF]

theorem all_fields (P : Field × GoVal × GoVal → Bool) : ∀ (fs : List Field) (ds : List FD), Desc fs ds →
    ∀ (vs : List GoVal), Vals ds vs →
    (∀ f d v, DescF f d → hasPrim d.prim v = true → (d, v) ∈ ds.zip vs → P (f, v, back (trField d v)) = true) →
    (fs.zip (vs.zip (backList (trFields ds vs)))).all P = true := by
  intro fs ds h
  induction h with
  | nil => intro vs _ _; rfl
  | @cons f d fs ds hf _ ih =>
    intro vs hv hP
    cases hv with
    | @cons _ v _ vs' hp hv' =>
      simp only [trFields, backList, List.zip_cons_cons, List.all_cons, Bool.and_eq_true]
      exact ⟨hP f d v hf hp (by simp), ih vs' hv' (fun f' d' v' a b c => hP f' d' v' a b (by simp [c]))⟩

theorem len_desc {fs : List Field} {ds : List FD} (h : Desc fs ds) : fs.length = ds.length := by
  induction h with
  | nil => rfl
  | cons _ _ ih => simp [ih]
theorem len_vals {ds : List FD} {vs : List GoVal} (h : Vals ds vs) : vs.length = ds.length := by
  induction h with
  | nil => rfl
  | cons _ _ ih => simp [ih]
theorem len_trFields : ∀ {ds : List FD} {vs : List GoVal}, Vals ds vs → (backList (trFields ds vs)).length = ds.length := by
  intro ds vs h
  induction h with
  | nil => rfl
  | cons _ _ ih => simp [trFields, backList, ih]

/-- the oracle's comparison for a struct of scalar fields, under the side condition that the reflection
path did not touch the bits of a float32 member (everything but a signalling NaN) -/
theorem agree_struct (n : Nat) (S : GoType) (fs : List Field) (ds : List FD) (vs : List GoVal)
    (hu : S.under = .struct fs) (hd : Desc fs ds) (hv : Vals ds vs)
    (hq : ∀ d v, (d, v) ∈ ds.zip vs → trField d v = trFieldX d v) :
    agreeF "direct" (n + 2) S (.struct vs) (back (.struct (trFields ds vs))) = true := by
  rw [SF.Ops.Fu.agreeF.eq_def]
  simp only [hu, back]
  have hj : ("direct" == "json") = false := by decide
  simp only [len_vals hv, len_desc hd, len_trFields hv, beq_self_eq_true, Bool.true_and]
  apply all_fields _ fs ds hd vs hv
  intro f d v hf hp hm
  cases d with
  | drop p =>
    obtain ⟨hk, _⟩ := hf
    simp only [fk_drop hk, if_true, trField]
    exact isZero_zeroPrim p
  | mem nm p =>
    obtain ⟨hk, ht⟩ := hf
    obtain ⟨h1, h2, h3⟩ := fk_plain hk
    have hb : back (trField (.mem nm p) v) = v := by
      rw [hq _ _ hm]; exact back_trPrim p v hp
    simp only [h1, h2, h3, hj, Bool.false_eq_true, if_false, Bool.false_and, hb, ht]
    exact agree_prim n p v hp

theorem field_side_condition (d : FD) (v : GoVal) (h : d.prim ≠ .f32 ∨ isNaN32 (getF32 v) = false) :
    trField d v = trFieldX d v := by
  cases d with
  | drop p => rfl
  | mem nm p =>
    cases p <;> first | rfl | skip
    rcases h with h | h
    · exact absurd rfl h
    · simp [trField, trFieldX, trPtrElem, trPrim, quiet32, h]

end SF.FuId
