/-
  The value of the item an extended event writes (`xItem x`) against the value of its expansion
  (`xTree x`): equal, except for an unsigned 16/32/64-bit array / map with an element above
  MaxInt64, which is typed `H` as a whole — every element then arrives as its decimal string.
-/
import SF.Proofs.UbjEncExtStep
namespace SF.Ubjson.Enc
open SF SF.Ubjson SF.Ubjson.Wire
open SF.Cbor.Enc (small smallList smallMems)

mutual
theorem approx_refl (v : Val) : approx v v = true := by
  match v with
  | .null => rfl
  | .bool b => simp [approx]
  | .int n => simp [approx]
  | .f32 b => simp [approx]
  | .f64 b => simp [approx]
  | .str s => simp [approx]
  | .arr xs => simp [approx, approxList_refl xs]
  | .obj ms => simp [approx, approxMems_refl ms]
theorem approxList_refl (vs : List Val) : approxList vs vs = true := by
  match vs with
  | [] => rfl
  | v :: vs' => simp [approxList, approx_refl v, approxList_refl vs']
theorem approxMems_refl (ms : List (Bytes × Val)) : approxMems ms ms = true := by
  match ms with
  | [] => rfl
  | (k, v) :: ms' => simp [approxMems, approx_refl v, approxMems_refl ms']
end

theorem evalueList_map {α : Type} (xs : List α) (f : α → ETree) :
    ETree.valueList (xs.map f) = xs.map (fun a => (f a).value) := by
  induction xs with
  | nil => rfl
  | cons a xs ih => simp [ETree.valueList, ih]

theorem evalueMems_map {α : Type} (ms : List (Bytes × α)) (f : α → ETree) :
    ETree.valueMems (ms.map fun m => (m.1, f m.2)) = ms.map (fun m => (m.1, (f m.2).value)) := by
  induction ms with
  | nil => rfl
  | cons a ms ih => simp [ETree.valueMems, ih]

theorem allDecimal_map (xs : List Int) (h : ∀ v ∈ xs, 0 ≤ v) :
    allDecimal (xs.map Val.int) (xs.map fun v => Val.str (decimal v.toNat)) = true := by
  induction xs with
  | nil => rfl
  | cons v xs ih =>
    have := h v (by simp)
    simp [allDecimal, this, ih (fun w hw => h w (by simp [hw]))]

theorem allDecimalMems_map (ms : List (Bytes × Int)) (h : ∀ m ∈ ms, 0 ≤ m.2) :
    allDecimalMems (ms.map fun m => (m.1, Val.int m.2)) (ms.map fun m => (m.1, Val.str (decimal m.2.toNat))) = true := by
  induction ms with
  | nil => rfl
  | cons m ms ih =>
    have := h m (by simp)
    simp [allDecimalMems, this, ih (fun w hw => h w (by simp [hw]))]

theorem wide_nonneg (k : NumKind) (v : Int) (hk : NumKind.wide k = true) (h : k.inRange v = true) : 0 ≤ v := by
  obtain ⟨hlo, _⟩ := inRange_bounds k v h
  cases k <;> simp [NumKind.wide] at hk <;> simpa [NumKind.lo] using hlo

theorem noBigList_bool (xs : List Bool) : noBigList (xs.map .bool) = true := by
  induction xs with
  | nil => rfl
  | cons a xs ih => simp [noBigList, noBig, ih]

theorem noBigMems_bool (ms : List (Bytes × Bool)) : noBigMems (ms.map fun m => (m.1, .bool m.2)) = true := by
  induction ms with
  | nil => rfl
  | cons a ms ih => simp [noBigMems, noBig, ih]

/-- the value written for an extended event, by cases -/
theorem xItem_value_cases (x : XEv) (hx : isExtValue x = true) (hs : small (xTree x) = true) :
    (xItem x).value = (xTree x).value ∨
    (∃ k xs, x = .numArr k xs ∧ NumKind.wide k = true ∧ (∀ v ∈ xs, 0 ≤ v) ∧ (∃ v ∈ xs, 9223372036854775807 < v) ∧
      (xItem x).value = .arr (xs.map fun v => .str (decimal v.toNat))) ∨
    (∃ k ms, x = .numObj k ms ∧ NumKind.wide k = true ∧ (∀ m ∈ ms, 0 ≤ m.2) ∧
      (∃ m ∈ ms, 9223372036854775807 < m.2) ∧
      (xItem x).value = .obj (ms.map fun m => (m.1, .str (decimal m.2.toNat)))) := by
  cases x with
  | ev e => simp [isExtValue] at hx
  | keyRef s => simp [isExtValue] at hx
  | strRef s => exact Or.inl rfl
  | boolArr xs =>
    left
    simp only [xTree, small, Bool.and_eq_true] at hs
    simp only [xItem, xTree, toItem_arr_value, ETree.value]
    congr 1
    exact toItems_exact _ hs.2 (noBigList_bool xs)
  | boolObj ms =>
    left
    simp only [xTree, small, Bool.and_eq_true] at hs
    simp only [xItem, xTree, toItem_obj_value, ETree.value]
    congr 1
    exact toMems_exact _ hs.2 (noBigMems_bool ms)
  | strArr xs =>
    left
    simp only [xItem, xTree, typedArr_value, valueList_map, ETree.value, evalueList_map]
    rfl
  | f32Arr xs =>
    left
    simp [xItem, xTree, typedArr_value, valueList_map, ETree.value, evalueList_map, UItem.value]
  | f64Arr xs =>
    left
    simp [xItem, xTree, typedArr_value, valueList_map, ETree.value, evalueList_map, UItem.value]
  | strObj ms =>
    left
    simp only [xItem, xTree, typedObj_value, valueMems_map, ETree.value, evalueMems_map]
    rfl
  | f32Obj ms =>
    left
    simp [xItem, xTree, typedObj_value, valueMems_map, ETree.value, evalueMems_map, UItem.value]
  | f64Obj ms =>
    left
    simp [xItem, xTree, typedObj_value, valueMems_map, ETree.value, evalueMems_map, UItem.value]
  | numArr k xs =>
    simp only [xTree, small, Bool.and_eq_true, decide_eq_true_eq, List.length_map] at hs
    have hin : ∀ v ∈ xs, k.inRange v = true := fun v hv => by
      simpa [small] using smallList_map xs (.num k) hs.2 v hv
    have hval : (xItem (.numArr k xs)).value =
        .arr (xs.map fun v => if NumKind.wide k = true ∧ minUT xs = .H then .str (decimal v.toNat) else .int v) := by
      simp only [xItem, typedArr_value, valueList_map]
      congr 1
      exact List.map_congr_left (fun v hv => elemItem_value k _ v (hin v hv))
    by_cases hH : NumKind.wide k = true ∧ minUT xs = .H
    · right; left
      refine ⟨k, xs, rfl, hH.1, fun v hv => wide_nonneg k v hH.1 (hin v hv), minUT_H xs hH.2, ?_⟩
      rw [hval]; simp [hH]
    · left
      rw [hval]
      simp [hH, xTree, ETree.value, evalueList_map]
  | numObj k ms =>
    simp only [xTree, small, Bool.and_eq_true, decide_eq_true_eq, List.length_map] at hs
    have hin : ∀ m ∈ ms, k.inRange m.2 = true := fun m hm => by
      simpa [small] using (smallMems_map ms (.num k) hs.2 m hm).2
    have hval : (xItem (.numObj k ms)).value =
        .obj (ms.map fun m => (m.1, if NumKind.wide k = true ∧ minUT (ms.map (·.2)) = .H
          then .str (decimal m.2.toNat) else .int m.2)) := by
      simp only [xItem, typedObj_value, valueMems_map]
      congr 1
      exact List.map_congr_left (fun m hm => by rw [elemItem_value k _ m.2 (hin m hm)])
    by_cases hH : NumKind.wide k = true ∧ minUT (ms.map (·.2)) = .H
    · right; right
      obtain ⟨v, hv, hb⟩ := minUT_H _ hH.2
      obtain ⟨m, hm, rfl⟩ := List.mem_map.mp hv
      refine ⟨k, ms, rfl, hH.1, fun m hm => wide_nonneg k m.2 hH.1 (hin m hm), ⟨m, hm, hb⟩, ?_⟩
      rw [hval]; simp [hH]
    · left
      rw [hval]
      simp [hH, xTree, ETree.value, evalueMems_map]

/-- the value written for an extended event is the value of its expansion, up to `approx` -/
theorem xItem_approx (x : XEv) (hx : isExtValue x = true) (hs : small (xTree x) = true) :
    approx (xTree x).value (xItem x).value = true := by
  rcases xItem_value_cases x hx hs with h | ⟨k, xs, rfl, _, hpos, ⟨v, hv, hb⟩, h⟩ | ⟨k, ms, rfl, _, hpos, ⟨m, hm, hb⟩, h⟩
  · rw [h]; exact approx_refl _
  · rw [h]
    simp only [xTree, ETree.value, evalueList_map, approx, Bool.or_eq_true, Bool.and_eq_true]
    right
    refine ⟨?_, allDecimal_map xs hpos⟩
    simp only [List.any_map, List.any_eq_true]
    exact ⟨v, hv, by simp [isBig, hb]⟩
  · rw [h]
    simp only [xTree, ETree.value, evalueMems_map, approx, Bool.or_eq_true, Bool.and_eq_true]
    right
    refine ⟨?_, allDecimalMems_map ms hpos⟩
    simp only [List.any_map, List.any_eq_true]
    exact ⟨m, hm, by simp [isBig, hb]⟩

theorem noBigList_map (k : NumKind) (xs : List Int) (h : noBigList (xs.map (.num k)) = true) :
    ∀ v ∈ xs, v ≤ 9223372036854775807 := by
  induction xs with
  | nil => intro v hv; simp at hv
  | cons a xs ih =>
    simp only [List.map_cons, noBigList, noBig, Bool.and_eq_true, decide_eq_true_eq] at h
    intro v hv
    rcases List.mem_cons.mp hv with rfl | hv
    · exact h.1
    · exact ih h.2 v hv

theorem noBigMems_map (k : NumKind) (ms : List (Bytes × Int))
    (h : noBigMems (ms.map fun m => (m.1, .num k m.2)) = true) : ∀ m ∈ ms, m.2 ≤ 9223372036854775807 := by
  induction ms with
  | nil => intro v hv; simp at hv
  | cons a ms ih =>
    simp only [List.map_cons, noBigMems, noBig, Bool.and_eq_true, decide_eq_true_eq] at h
    intro v hv
    rcases List.mem_cons.mp hv with rfl | hv
    · exact h.1
    · exact ih h.2 v hv

/-- no element above MaxInt64: exactly the value of the expansion -/
theorem xItem_exact (x : XEv) (hx : isExtValue x = true) (hs : small (xTree x) = true)
    (hb : noBig (xTree x) = true) : (xItem x).value = (xTree x).value := by
  rcases xItem_value_cases x hx hs with h | ⟨k, xs, rfl, _, _, ⟨v, hv, hbig⟩, _⟩ | ⟨k, ms, rfl, _, _, ⟨m, hm, hbig⟩, _⟩
  · exact h
  · simp only [xTree, noBig] at hb
    have := noBigList_map k xs hb v hv
    omega
  · simp only [xTree, noBig] at hb
    have := noBigMems_map k ms hb m hm
    omega

end SF.Ubjson.Enc
