/-
  UBJSON items as event trees: `x.events` / `x.value` of SF/Proofs/UbjItem.lean are the
  events / value of a tree (SF/Tree.lean), hence `buildAll` of the events is the value.
-/
import SF.Proofs.Tree
import SF.Proofs.UbjItem
namespace SF.Ubjson.Syn
open SF

mutual
def Item.tree : Item → ETree
  | .null => .null | .tru => .bool true | .fals => .bool false
  | .int k v => .num k.kind v
  | .f32 b => .f32 b | .f64 b => .f64 b
  | .char c => .num .byte c.toNat
  | .str _ s => .str s | .hp _ s => .str s
  | .arr xs _ => .arr (-1) BT.any (treeElems xs)
  | .arrN _ xs => .arr xs.length BT.any (treeElems xs)
  | .arrT t _ xs => .arr xs.length (markerToBaseType t) (treeList xs)
  | .obj ms => .obj (-1) BT.any (treeMems ms)
  | .objN _ ms => .obj ms.length BT.any (treeMems ms)
  | .objT _ _ ms => .obj ms.length BT.any (treeMems ms)
def treeElems : List (Nat × Item) → List ETree
  | [] => []
  | (_, x) :: xs => x.tree :: treeElems xs
def treeList : List Item → List ETree
  | [] => []
  | x :: xs => x.tree :: treeList xs
def treeMems : List (LW × Bytes × Item) → List (Bytes × ETree)
  | [] => []
  | (_, k, v) :: ms => (k, v.tree) :: treeMems ms
end

mutual
theorem tree_events (x : Item) : x.tree.events = x.events := by
  match x with
  | .null | .tru | .fals | .int k v | .f32 b | .f64 b | .char c | .str w s | .hp w s =>
    simp [Item.tree, ETree.events, Item.events]
  | .arr xs t => simp [Item.tree, ETree.events, Item.events, treeElems_events xs]
  | .arrN w xs => simp [Item.tree, ETree.events, Item.events, treeElems_events xs]
  | .arrT t w xs => simp [Item.tree, ETree.events, Item.events, treeList_events xs]
  | .obj ms => simp [Item.tree, ETree.events, Item.events, treeMems_events ms]
  | .objN w ms => simp [Item.tree, ETree.events, Item.events, treeMems_events ms]
  | .objT t w ms => simp [Item.tree, ETree.events, Item.events, treeMems_events ms]
theorem treeElems_events (xs : List (Nat × Item)) : ETree.eventsList (treeElems xs) = evElems xs := by
  match xs with
  | [] => rfl
  | (n, x) :: xs' => simp [treeElems, ETree.eventsList, evElems, tree_events x, treeElems_events xs']
theorem treeList_events (xs : List Item) : ETree.eventsList (treeList xs) = evList xs := by
  match xs with
  | [] => rfl
  | x :: xs' => simp [treeList, ETree.eventsList, evList, tree_events x, treeList_events xs']
theorem treeMems_events (ms : List (LW × Bytes × Item)) : ETree.eventsMems (treeMems ms) = evMems ms := by
  match ms with
  | [] => rfl
  | (kw, k, v) :: ms' => simp [treeMems, ETree.eventsMems, evMems, tree_events v, treeMems_events ms']
end

mutual
theorem tree_value (x : Item) : x.tree.value = x.value := by
  match x with
  | .null | .tru | .fals | .int k v | .f32 b | .f64 b | .char c | .str w s | .hp w s =>
    simp [Item.tree, ETree.value, Item.value]
  | .arr xs t => simp [Item.tree, ETree.value, Item.value, treeElems_value xs]
  | .arrN w xs => simp [Item.tree, ETree.value, Item.value, treeElems_value xs]
  | .arrT t w xs => simp [Item.tree, ETree.value, Item.value, treeList_value xs]
  | .obj ms => simp [Item.tree, ETree.value, Item.value, treeMems_value ms]
  | .objN w ms => simp [Item.tree, ETree.value, Item.value, treeMems_value ms]
  | .objT t w ms => simp [Item.tree, ETree.value, Item.value, treeMems_value ms]
theorem treeElems_value (xs : List (Nat × Item)) : ETree.valueList (treeElems xs) = valElems xs := by
  match xs with
  | [] => rfl
  | (n, x) :: xs' => simp [treeElems, ETree.valueList, valElems, tree_value x, treeElems_value xs']
theorem treeList_value (xs : List Item) : ETree.valueList (treeList xs) = valList xs := by
  match xs with
  | [] => rfl
  | x :: xs' => simp [treeList, ETree.valueList, valList, tree_value x, treeList_value xs']
theorem treeMems_value (ms : List (LW × Bytes × Item)) : ETree.valueMems (treeMems ms) = valMems ms := by
  match ms with
  | [] => rfl
  | (kw, k, v) :: ms' => simp [treeMems, ETree.valueMems, valMems, tree_value v, treeMems_value ms']
end

/-- the events of a stream of items describe exactly the items' values -/
theorem buildAll_evElems (xs : List (Nat × Item)) : buildAll (evElems xs) = some (valElems xs) := by
  rw [← treeElems_events, buildAll_events, treeElems_value]

/-- the events of one item describe its value -/
theorem build_item_events (x : Item) : build x.events = some x.value := by
  rw [← tree_events, build_events, tree_value]

end SF.Ubjson.Syn

namespace SF.Ubjson.Syn
open SF

/-! ### the trees of grammatical items conform to the Visitor contract -/

theorem treeElems_length (xs : List (Nat × Item)) : (treeElems xs).length = xs.length := by
  induction xs with
  | nil => rfl
  | cons x xs ih => obtain ⟨n, x⟩ := x; simp [treeElems, ih]
theorem treeList_length (xs : List Item) : (treeList xs).length = xs.length := by
  induction xs with
  | nil => rfl
  | cons x xs ih => simp [treeList, ih]
theorem treeMems_length (ms : List (LW × Bytes × Item)) : (treeMems ms).length = ms.length := by
  induction ms with
  | nil => rfl
  | cons m ms ih => obtain ⟨kw, k, v⟩ := m; simp [treeMems, ih]

theorem matches_any (t : ETree) : t.matchesBT BT.any = true := by
  cases t <;> simp [ETree.matchesBT, Ev.matchesBT, BT.any]

/-- an item's event matches the element type its own marker announces -/
theorem matches_marker (x : Item) : x.tree.matchesBT (markerToBaseType x.marker) = true := by
  cases x with
  | int k v =>
    cases k <;>
      simp +decide [Item.tree, Item.marker, IK.marker, IK.kind, ETree.matchesBT, Ev.matchesBT, markerToBaseType,
        NumKind.baseType]
  | _ => simp +decide [Item.tree, Item.marker, ETree.matchesBT, Ev.matchesBT, markerToBaseType, NumKind.baseType]

mutual
theorem tree_wf (x : Item) (h : x.ok = true) : x.tree.wf = true := by
  match x with
  | .null | .tru | .fals | .int k v | .f32 b | .f64 b | .char c | .str w s | .hp w s => simp [Item.tree, ETree.wf]
  | .arr xs t =>
    simp [Item.tree, ETree.wf, ETree.lenOkFor, treeElems_wf xs (by simpa [Item.ok] using h)]
  | .arrN w xs =>
    have h' : w.fits xs.length = true ∧ okElems xs = true := by simpa [Item.ok] using h
    simp [Item.tree, ETree.wf, ETree.lenOkFor, treeElems_length, treeElems_wf xs h'.2]
  | .arrT t w xs =>
    have h' : (isTypeMarker t = true ∧ w.fits xs.length = true) ∧ okTyped t xs = true := by
      simpa [Item.ok] using h
    simp [Item.tree, ETree.wf, ETree.lenOkFor, treeList_length, treeList_wf t xs h'.2]
  | .obj ms =>
    simp [Item.tree, ETree.wf, ETree.lenOkFor, treeMems_wf ms (by simpa [Item.ok] using h)]
  | .objN w ms =>
    have h' : w.fits ms.length = true ∧ okMems ms = true := by simpa [Item.ok] using h
    simp [Item.tree, ETree.wf, ETree.lenOkFor, treeMems_length, treeMems_wf ms h'.2]
  | .objT t w ms =>
    have h' : (isTypeMarker t = true ∧ w.fits ms.length = true) ∧ okMemsT t ms = true := by
      simpa [Item.ok] using h
    simp [Item.tree, ETree.wf, ETree.lenOkFor, treeMems_length, treeMemsT_wf t ms h'.2]
theorem treeElems_wf (xs : List (Nat × Item)) (h : okElems xs = true) : ETree.wfList BT.any (treeElems xs) = true := by
  match xs with
  | [] => rfl
  | (n, x) :: xs' =>
    have h' : x.ok = true ∧ okElems xs' = true := by simpa [okElems] using h
    simp [treeElems, ETree.wfList, matches_any, tree_wf x h'.1, treeElems_wf xs' h'.2]
theorem treeList_wf (t : UInt8) (xs : List Item) (h : okTyped t xs = true) :
    ETree.wfList (markerToBaseType t) (treeList xs) = true := by
  match xs with
  | [] => rfl
  | x :: xs' =>
    have h' : (x.ok = true ∧ x.marker = t) ∧ okTyped t xs' = true := by simpa [okTyped] using h
    have hm := matches_marker x
    rw [h'.1.2] at hm
    simp [treeList, ETree.wfList, hm, tree_wf x h'.1.1, treeList_wf t xs' h'.2]
theorem treeMems_wf (ms : List (LW × Bytes × Item)) (h : okMems ms = true) :
    ETree.wfMems BT.any (treeMems ms) = true := by
  match ms with
  | [] => rfl
  | (kw, k, v) :: ms' =>
    have h' : (kw.fits k.length = true ∧ v.ok = true) ∧ okMems ms' = true := by simpa [okMems] using h
    simp [treeMems, ETree.wfMems, matches_any, tree_wf v h'.1.2, treeMems_wf ms' h'.2]
theorem treeMemsT_wf (t : UInt8) (ms : List (LW × Bytes × Item)) (h : okMemsT t ms = true) :
    ETree.wfMems BT.any (treeMems ms) = true := by
  match ms with
  | [] => rfl
  | (kw, k, v) :: ms' =>
    have h' : ((kw.fits k.length = true ∧ v.ok = true) ∧ v.marker = t) ∧ okMemsT t ms' = true := by
      simpa [okMemsT] using h
    simp [treeMems, ETree.wfMems, matches_any, tree_wf v h'.1.1.2, treeMemsT_wf t ms' h'.2]
end

/-- the events of a stream of grammatical items form a contract-conforming stream -/
theorem wf_evElems (xs : List (Nat × Item)) (h : okElems xs = true) : WF (evElems xs) = true := by
  rw [← treeElems_events]
  apply wf_events_list
  induction xs with
  | nil => simp [treeElems]
  | cons nx xs ih =>
    obtain ⟨n, x⟩ := nx
    have h' : x.ok = true ∧ okElems xs = true := by simpa [okElems] using h
    intro t ht
    simp only [treeElems, List.mem_cons] at ht
    rcases ht with rfl | ht
    · exact tree_wf x h'.1
    · exact ih h'.2 t ht

end SF.Ubjson.Syn
