/-
  C06, THE CONVERSE of the UBJSON parser refinement (SF/Proofs/UbjParseTop.lean,
  `parse_refines_events`): whatever the UBJSON parser ACCEPTS is the wire form of a stream of
  well-formed items of the grammar, and the events delivered are exactly the items' events.

  MAIN THEOREMS (namespace `SF.Props.UbjConverse`), for the mirror `SF.Ubjson.Parse`:

    accepted_is_stream          if `Parse` returns no error on `b` then
                                `b = lwireStream xs trail` for items `xs : List (Nat × LItem)`
                                (each with the number of no-ops before it; `trail` no-ops at
                                the end) that are well-formed (`lokElems xs`: `Item.ok` of every
                                item), and the events delivered are `levElems xs`;
    accepted_chunks_is_stream   the same for `Write` per chunk + end of input, ANY chunking;
    accepted_plain_is_stream    if none of the items has a no-op between a key and its value
                                (`plainElems xs`), `b = wireStream (eraseElems xs) trail` — the
                                wire form of the grammar `Syn.Item` of SF/Proofs/UbjItem.lean itself;
    not_stream_is_rejected      an input that is no such stream is rejected with an error;
    run_accepted_iff / accepted_iff / stream_is_accepted   EXACTNESS: every such stream IS accepted
                                (fuel-free main loop `Runs` + `finalize`; for `Parse` itself unless
                                the model's fuel runs out) — the description cannot be tightened.

  The model's fuel: acceptance (`= none`) excludes `outOfFuel`, so there is NO side condition
  (the refinement direction needs one: `[$Z#l…` delivers `count` events from a dozen bytes).

  THE ONE LENIENCY (found by evaluation — every byte string of length ≤ 5 over 17 marker and
  data bytes agrees with the reference decoder `Cst.decodeStream` — and forced by the proof):
  in plain (`{…}`) and counted (`{#n…`) objects the parser skips no-op bytes `N` between a key
  and its value ("no-op is no field value").  The grammar `Syn.Item` has no no-ops inside
  objects (the reference decoder calls them `undetermined`); `LItem`
  (SF/Proofs/UbjConvItem.lean) is `Syn.Item` with a no-op count per member of a plain or
  counted object, `LItem.erase : LItem → Item` forgets it, and marker / events / value /
  well-formedness of an `LItem` are those of its `erase`.  Everything else is strict:
  no-ops before a key, after the last member, inside typed containers, as an element type are
  errors; so are unknown markers, negative lengths, `$` without `#`, truncated input
  (evaluated examples below).
-/
import SF.Proofs.UbjConvInd
import SF.Proofs.UbjConvFwd
import SF.Proofs.UbjDecStack
import SF.Proofs.UbjChunkTop
set_option linter.unusedSimpArgs false
namespace SF.Props.UbjConverse
open SF SF.Ubjson SF.Ubjson.Parse SF.Ubjson.Syn SF.Ubjson.Chunk SF.Ubjson.Conv
open StateType StateStep

theorem finalize_of_nil (p : P) (hs : p.state.stack = []) : (finalize p).1 = p := by
  unfold finalize
  rw [hs]
  simp only [List.length_nil, finalizeLoop, hs, List.isEmpty_nil, if_true]
  split <;> rfl

/-- the core: an error-free run over `b` from the fresh parser that the end of input accepts -/
theorem run_accepted_is_stream (b : Bytes) (p : P) (hr : Runs {} b p none) (hf : (finalize p).2 = none) :
    ∃ (xs : List (Nat × LItem)) (trail : Nat), lokElems xs = true ∧ b = lwireStream xs trail ∧
      (finalize p).1.evs.reverse = levElems xs := by
  obtain ⟨_, hpend, _⟩ := hr.inv ci_default rfl
  have hstack : p.state.stack = [] := by
    cases hs : p.state.stack with
    | nil => rfl
    | cons a l =>
      exfalso
      rcases finalize_open p hpend (by rw [hs]; simp) with h | h | h <;> rw [hf] at h <;> cases h
  obtain ⟨k, hk⟩ := runsK_of_runs hr rfl
  have e0 : ({} : P) = mk [] ⟨stNext, stStart⟩ {} [] 0 BT.any [] := rfl
  rw [e0] at hk
  obtain ⟨xs, trail, h1, h2, h3⟩ := top_conv k {} [] 0 BT.any [] b p vsok_init hk hstack
  refine ⟨xs, trail, h1, h2, ?_⟩
  rw [finalize_of_nil p hstack, h3]
  simp

/-- THE CONVERSE: whatever `Parse` accepts is a stream of well-formed items (with the
no-ops the parser skips), and the events delivered are exactly the items' events -/
theorem accepted_is_stream (b : Bytes) (h : (parse {} b).2 = none) :
    ∃ (xs : List (Nat × LItem)) (trail : Nat), lokElems xs = true ∧ b = lwireStream xs trail ∧
      events (parse {} b).1 = levElems xs := by
  unfold parse at h ⊢
  rcases hfa : feedAll {} b with ⟨p, _ | e⟩
  · rw [hfa] at h
    simp only at h ⊢
    have hr := feedAll_runs {} b ci_default (Or.inr rfl) (by rw [hfa]; simp)
    rw [hfa] at hr
    obtain ⟨xs, trail, h1, h2, h3⟩ := run_accepted_is_stream b p hr h
    exact ⟨xs, trail, h1, h2, h3⟩
  · rw [hfa] at h; simp at h

/-- … and for EVERY CHUNKING (`Write` per chunk, then end of input — `ParseReader`) -/
theorem accepted_chunks_is_stream (cs : List Bytes) (h : (writeChunks {} cs).2 = none) :
    ∃ (xs : List (Nat × LItem)) (trail : Nat), lokElems xs = true ∧ cs.flatten = lwireStream xs trail ∧
      events (writeChunks {} cs).1 = levElems xs := by
  rw [SF.Props.UbjChunk.writeChunks_eq] at h ⊢
  rcases hfc : SF.Props.UbjChunk.feedChunks {} cs with ⟨p, _ | e⟩
  · rw [hfc] at h
    simp only at h ⊢
    obtain ⟨p'', r1, _, r3⟩ := SF.Props.UbjChunk.feedChunks_runs cs {} ci_default rfl rfl (by rw [hfc]; simp)
    rw [hfc] at r1 r3
    obtain ⟨rfl, _⟩ := r3 rfl
    exact run_accepted_is_stream cs.flatten p'' r1 h
  · rw [hfc] at h; simp at h

/-- … in the grammar `Syn.Item` itself when no item has a no-op between a key and its value -/
theorem accepted_plain_is_stream (b : Bytes) (xs : List (Nat × LItem)) (trail : Nat)
    (hb : b = lwireStream xs trail) (hp : plainElems xs = true) (hok : lokElems xs = true) :
    okElems (eraseElems xs) = true ∧ b = wireStream (eraseElems xs) trail ∧ levElems xs = evElems (eraseElems xs) :=
  ⟨hok, by rw [hb, plain_wireStream xs trail hp], rfl⟩

/-- C06, negative clause: an input that is not such a stream is rejected with an error -/
theorem not_stream_is_rejected (b : Bytes)
    (h : ¬ ∃ (xs : List (Nat × LItem)) (trail : Nat), lokElems xs = true ∧ b = lwireStream xs trail) :
    ∃ e, (parse {} b).2 = some e := by
  cases hr : (parse {} b).2 with
  | some e => exact ⟨e, rfl⟩
  | none =>
    obtain ⟨xs, trail, h1, h2, _⟩ := accepted_is_stream b hr
    exact absurd ⟨xs, trail, h1, h2⟩ h

/-! ## exactness: the other direction for the lenient grammar, without fuel -/

/-- THE REFINEMENT for `LItem` streams, fuel-free: the main loop runs over every stream of
well-formed items (no-ops between keys and values included) without error, the end of input
is accepted, and exactly the items' events are delivered -/
theorem stream_run_accepted (xs : List (Nat × LItem)) (trail : Nat) (h : lokElems xs = true) :
    ∃ p, Runs {} (lwireStream xs trail) p none ∧ (finalize p).2 = none ∧
      (finalize p).1.evs.reverse = levElems xs := by
  obtain ⟨vt', hr⟩ := stream_runs xs h trail
  refine ⟨_, hr, ?_, ?_⟩
  · rw [← idle_eq, finalize_idle]
  · rw [← idle_eq, finalize_idle]; simp [idle]

/-- EXACTNESS (fuel-free): the main loop followed by the end-of-input check accepts `b` if
and only if `b` is a stream of well-formed items of the lenient grammar -/
theorem run_accepted_iff (b : Bytes) :
    (∃ p, Runs {} b p none ∧ (finalize p).2 = none) ↔
    ∃ (xs : List (Nat × LItem)) (trail : Nat), lokElems xs = true ∧ b = lwireStream xs trail := by
  constructor
  · rintro ⟨p, hr, hf⟩
    obtain ⟨xs, trail, h1, h2, _⟩ := run_accepted_is_stream b p hr hf
    exact ⟨xs, trail, h1, h2⟩
  · rintro ⟨xs, trail, h1, rfl⟩
    obtain ⟨p, hr, hf, _⟩ := stream_run_accepted xs trail h1
    exact ⟨p, hr, hf⟩

/-- … for `Parse` itself: every such stream is accepted with exactly its events — unless the
MODEL's fuel runs out (`[$Z#l…`: the recorded finding; the Go code has no fuel) -/
theorem stream_is_accepted (xs : List (Nat × LItem)) (trail : Nat) (h : lokElems xs = true) :
    ((parse {} (lwireStream xs trail)).2 = none ∧ events (parse {} (lwireStream xs trail)).1 = levElems xs) ∨
    (parse {} (lwireStream xs trail)).2 = some .outOfFuel := by
  obtain ⟨p, hr, hf, hev⟩ := stream_run_accepted xs trail h
  unfold parse
  rcases hfa : feedAll {} (lwireStream xs trail) with ⟨p', e'⟩
  by_cases hfuel : e' = some .outOfFuel
  · right; subst hfuel; rfl
  · left
    have hr' := feedAll_runs {} (lwireStream xs trail) ci_default (Or.inr rfl) (by rw [hfa]; exact hfuel)
    rw [hfa] at hr'
    obtain ⟨rfl, rfl⟩ := hr.det hr'
    simp only
    exact ⟨hf, hev⟩

/-- EXACTNESS for `Parse`, on every input on which the model's fuel does not run out -/
theorem accepted_iff (b : Bytes) (hfuel : (parse {} b).2 ≠ some .outOfFuel) :
    (parse {} b).2 = none ↔
    ∃ (xs : List (Nat × LItem)) (trail : Nat), lokElems xs = true ∧ b = lwireStream xs trail := by
  constructor
  · intro h
    obtain ⟨xs, trail, h1, h2, _⟩ := accepted_is_stream b h
    exact ⟨xs, trail, h1, h2⟩
  · rintro ⟨xs, trail, h1, rfl⟩
    rcases stream_is_accepted xs trail h1 with h | h
    · exact h.1
    · exact absurd h hfuel

/-! ## non-vacuity and the leniency, evaluated by the kernel -/

/-- (non-vacuity) `[#i2 N i1 {i1"a" [$i#i1 5 }` + `N` + `T`: accepted; it IS the stream of the two
items below (one no-op inside the counted array, one between the items), which are well-formed
and plain, and the events are theirs -/
example :
    let b : Bytes := [0x5b, 0x23, 0x69, 0x02, 0x4e, 0x69, 0x01, 0x7b, 0x69, 0x01, 0x61, 0x5b, 0x24, 0x69, 0x23, 0x69,
      0x01, 0x05, 0x7d, 0x4e, 0x54]
    let xs : List (Nat × LItem) :=
      [(0, .arrN .i [(1, .int .i8 1), (0, .obj [(.i, [0x61], 0, .arrT 0x69 .i [.int .i8 5])])]), (1, .tru)]
    (parse {} b).2 = none ∧ b = lwireStream xs 0 ∧ lokElems xs = true ∧ plainElems xs = true ∧
      events (parse {} b).1 = levElems xs := by decide +kernel

/-- (THE LENIENCY) `{ i0 N Z }` and `{#i1 i0 N N Z`: accepted, with the events of the object
without the no-ops; they are `LItem`s with a no-op count, and not the wire form of their `erase` -/
example :
    (parse {} [0x7b, 0x69, 0x00, 0x4e, 0x5a, 0x7d]).2 = none ∧
    [0x7b, 0x69, 0x00, 0x4e, 0x5a, 0x7d] = lwireStream [(0, .obj [(.i, [], 1, .null)])] 0 ∧
    events (parse {} [0x7b, 0x69, 0x00, 0x4e, 0x5a, 0x7d]).1 = [.objStart (-1) 0, .key [], .null, .objEnd] ∧
    (LItem.obj [(.i, [], 1, .null)]).erase.wire = [0x7b, 0x69, 0x00, 0x5a, 0x7d] ∧
    (parse {} [0x7b, 0x23, 0x69, 0x01, 0x69, 0x00, 0x4e, 0x4e, 0x5a]).2 = none ∧
    [0x7b, 0x23, 0x69, 0x01, 0x69, 0x00, 0x4e, 0x4e, 0x5a] = lwireStream [(0, .objN .i [(.i, [], 2, .null)])] 0 := by
  decide +kernel

/-- … and nowhere else in an object: a no-op before a key, after the last member of a plain
object, before the key of a counted object is an error (`unknownMarker`); a no-op after a
typed object belongs to the stream, not to the object -/
example :
    (parse {} [0x7b, 0x4e, 0x7d]).2 = some .unknownMarker ∧
    (parse {} [0x7b, 0x69, 0x00, 0x5a, 0x4e, 0x7d]).2 = some .unknownMarker ∧
    (parse {} [0x7b, 0x23, 0x69, 0x01, 0x4e, 0x69, 0x00, 0x5a]).2 = some .unknownMarker ∧
    (parse {} [0x7b, 0x24, 0x5a, 0x23, 0x69, 0x01, 0x69, 0x00, 0x4e]).2 = none ∧
    [0x7b, 0x24, 0x5a, 0x23, 0x69, 0x01, 0x69, 0x00, 0x4e] = lwireStream [(0, .objT 0x5a .i [(.i, [], .null)])] 1 := by
  decide +kernel

/-- what is rejected: unknown markers (`]`, `[}`, `{]`, `[#Z`, `SZ`), `N` as an element type, `$`
without `#`, negative lengths, closing brackets after counted containers, truncated input -/
example :
    (parse {} [0x5d]).2 = some .unknownMarker ∧ (parse {} [0x5b, 0x7d]).2 = some .unknownMarker ∧
    (parse {} [0x7b, 0x5d]).2 = some .unknownMarker ∧ (parse {} [0x5b, 0x23, 0x5a]).2 = some .unknownMarker ∧
    (parse {} [0x53, 0x5a]).2 = some .unknownMarker ∧
    (parse {} [0x5b, 0x24, 0x4e, 0x23, 0x69, 0x00]).2 = some .unknownMarker ∧
    (parse {} [0x5b, 0x24, 0x5a, 0x69, 0x03]).2 = some .missingCount ∧
    (parse {} [0x5b, 0x23, 0x69, 0xff]).2 = some .negativeLen ∧ (parse {} [0x53, 0x69, 0xff]).2 = some .negativeLen ∧
    (parse {} [0x5b, 0x23, 0x69, 0x00, 0x5d]).2 = some .unknownMarker ∧
    (parse {} [0x5b, 0x5a]).2 = some .incomplete ∧ (parse {} [0x5b, 0x23, 0x69, 0x02, 0x5a]).2 = some .missingArrEnd ∧
    (parse {} [0x5b, 0x24, 0x69, 0x23, 0x69, 0x02, 0x01]).2 = some .incomplete ∧
    (parse {} [0x49, 0x01]).2 = some .incomplete := by decide +kernel

end SF.Props.UbjConverse
