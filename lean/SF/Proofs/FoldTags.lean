/-
  Struct tags for the C12 proofs: the decision both sides take for a field (`fieldKind`,
  computed from the DOCUMENTED grammar `Rules.parseTag`), and the one-step unfoldings of the
  specification (`fieldF`, `fieldOkF`) and of the mirror (`buildFieldFold`, which uses the
  CODE's parser `parseTags`) in terms of it.  The bridge is `FoldTagRules.tag_rules_agree`; from here
  on the proofs never look at a tag string again.
-/
import SF.Proofs.FoldTagRules
namespace SF.FoldProofs
open SF SF.Gotype SF.Gotype.Fold

/-- what becomes of a struct field -/
inductive FK
  | drop                       -- unexported, `-`, `omit`
  | conflict                   -- inline and omitempty
  | inline
  | omitEmpty (name : Bytes)
  | plain (name : Bytes)
  deriving DecidableEq, Repr

/-- the member name of a field -/
def fieldName (f : Field) : Bytes :=
  let tag := Rules.parseTag f.tag
  if tag.name != "" then strBytes tag.name else strBytes (toLower f.name)

def fieldKind (f : Field) : FK :=
  let tag := Rules.parseTag f.tag
  if !f.exported || tag.dash then .drop else
  if tag.inline && tag.omitEmpty then .conflict else
  if tag.omit' then .drop else
  if tag.inline then .inline else
  if tag.omitEmpty then .omitEmpty (fieldName f) else .plain (fieldName f)

/-- the member a field contributes -/
def memberSeg (name : Bytes) (r : Rules.RVal) : List Rules.Seg := [(false, [(name, r)])]

theorem fieldF_eq (m : Nat) (reg : Bool) (f : Field) (v : GoVal) :
    Rules.fieldF (m + 1) reg f v =
      match fieldKind f with
      | .drop => .ok []
      | .conflict => .error .inlineAndOmitEmpty
      | .inline => Rules.inlineF m reg f.typ v
      | .omitEmpty name =>
        if Rules.isEmptyF 100000 f.typ v then .ok [] else (Rules.foldF m reg f.typ v).map (memberSeg name)
      | .plain name => (Rules.foldF m reg f.typ v).map (memberSeg name) := by
  unfold Rules.fieldF fieldKind fieldName
  simp only []
  by_cases h1 : (!f.exported || (Rules.parseTag f.tag).dash) = true
  · simp only [h1, if_true]
  · simp only [h1, Bool.false_eq_true, if_false]
    by_cases h2 : ((Rules.parseTag f.tag).inline && (Rules.parseTag f.tag).omitEmpty) = true
    · simp only [h2, if_true]
    · simp only [h2, Bool.false_eq_true, if_false]
      by_cases h3 : (Rules.parseTag f.tag).omit' = true
      · simp only [h3, if_true]
      · simp only [h3, Bool.false_eq_true, if_false]
        by_cases h4 : (Rules.parseTag f.tag).inline = true
        · simp only [h4, if_true]
        · simp only [h4, Bool.false_eq_true, if_false]
          by_cases h5 : (Rules.parseTag f.tag).omitEmpty = true
          · simp only [h5, if_true, Bool.true_and]
            rfl
          · simp only [h5, Bool.false_eq_true, if_false, Bool.false_and]
            rfl

theorem fieldOkF_eq (n : Nat) (reg : Bool) (seen : List String) (f : Field) :
    Rules.fieldOkF (n + 1) reg seen f =
      match fieldKind f with
      | .drop => .ok ()
      | .conflict => .error .inlineAndOmitEmpty
      | .inline => Rules.inlineOkF n reg seen f.typ
      | .omitEmpty _ => Rules.typeOkF n reg seen f.typ
      | .plain _ => Rules.typeOkF n reg seen f.typ := by
  unfold Rules.fieldOkF fieldKind
  simp only []
  by_cases h1 : (!f.exported || (Rules.parseTag f.tag).dash) = true
  · simp only [h1, if_true]
  · simp only [h1, Bool.false_eq_true, if_false]
    by_cases h2 : ((Rules.parseTag f.tag).inline && (Rules.parseTag f.tag).omitEmpty) = true
    · simp only [h2, if_true]
    · simp only [h2, Bool.false_eq_true, if_false]
      by_cases h3 : (Rules.parseTag f.tag).omit' = true
      · simp only [h3, if_true]
      · simp only [h3, Bool.false_eq_true, if_false]
        by_cases h4 : (Rules.parseTag f.tag).inline = true
        · simp only [h4, if_true]
        · simp only [h4, Bool.false_eq_true, if_false]
          by_cases h5 : (Rules.parseTag f.tag).omitEmpty = true
          · simp only [h5, if_true]
          · simp only [h5, Bool.false_eq_true, if_false]

/-- a `-` tag: the code's parser reports `omit` and nothing else -/
theorem parseTags_dash (raw : String) (h : (Rules.parseTag raw).dash = true) :
    (parseTags raw).2.omitF = true ∧ (parseTags raw).2.squash = false ∧ (parseTags raw).2.omitEmpty = false := by
  unfold Rules.parseTag at h
  unfold parseTags
  cases hs : raw.splitOn "," with
  | nil =>
    simp only [hs, List.headD_nil] at h
    have : ("" == "-") = false := by decide
    simp [this] at h
  | cons s0 rest =>
    simp only [hs, List.headD_cons] at h
    by_cases hd : (s0 == "-") = true
    · simp [hd]
    · simp [hd] at h

theorem buildFieldFold_eq (cf : Nat) (o : FoldOpts) (op : Open) (f : Field) (idx : Nat) :
    buildFieldFold (cf + 1) o op f idx =
      match fieldKind f with
      | .drop => .ok none
      | .conflict => .error (.err .inlineAndOmitEmpty)
      | .inline => (buildFieldFoldInline cf o op f idx).map some
      | .omitEmpty name =>
        match getReflectFold cf o op (baseType f.typ).2 with
        | .error e => .error e
        | .ok vv =>
          if (makeResolveNonEmptyValue f.typ).isEmpty then .ok (some (.field name idx vv))
          else .ok (some (.nonEmptyField name idx (makeResolveNonEmptyValue f.typ) vv))
      | .plain name =>
        match getReflectFold cf o op f.typ with
        | .error e => .error e
        | .ok vv => .ok (some (.field name idx vv)) := by
  obtain ⟨hom, hrest⟩ := SF.FoldTagRules.tag_rules_agree f.tag
  unfold buildFieldFold fieldKind fieldName
  simp only []
  by_cases hex : f.exported = true
  · simp only [hex, Bool.not_true, Bool.false_eq_true, if_false, Bool.false_or]
    by_cases hd : (Rules.parseTag f.tag).dash = true
    · obtain ⟨a, b, c⟩ := parseTags_dash f.tag hd
      simp only [hd, if_true, a, b, c, Bool.false_and, Bool.false_eq_true, if_false]
    · have hd' : (Rules.parseTag f.tag).dash = false := by simpa using hd
      obtain ⟨hn, hs, he⟩ := hrest hd'
      simp only [hd, Bool.false_eq_true, if_false, hom, hs, he, hn, Bool.false_or]
      by_cases h2 : ((Rules.parseTag f.tag).inline && (Rules.parseTag f.tag).omitEmpty) = true
      · simp only [h2, if_true]
      · simp only [h2, Bool.false_eq_true, if_false]
        by_cases h3 : (Rules.parseTag f.tag).omit' = true
        · simp only [h3, if_true]
        · simp only [h3, Bool.false_eq_true, if_false]
          by_cases h4 : (Rules.parseTag f.tag).inline = true
          · simp only [h4, if_true]
          · simp only [h4, Bool.false_eq_true, if_false]
            by_cases h5 : (Rules.parseTag f.tag).omitEmpty = true
            · simp only [h5, if_true]
              cases getReflectFold cf o op (baseType f.typ).2 <;> rfl
            · simp only [h5, Bool.false_eq_true, if_false]
              cases getReflectFold cf o op f.typ <;> rfl
  · simp only [hex, Bool.not_false, Bool.true_or, if_true]

end SF.FoldProofs
