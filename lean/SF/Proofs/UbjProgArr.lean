/-
  C03 no-hang (UBJSON): stepArrayInit, stepArrayDyn, stepArrayCount.
-/
import SF.Proofs.UbjProgStr
namespace SF.Ubjson.Parse
open SF SF.Ubjson
open StateType StateStep

/-- move a step result to an earlier starting configuration with the same buffer -/
theorem Step.from' {p p' : P} {b : Bytes} {r : R} (h : Step p' b r) (hb : p'.buffer = p.buffer)
    (he : p.evs.length ≤ p'.evs.length) (ht : tS p'.state.current ≤ tS p.state.current) : Step p b r :=
  ⟨h.nof, fun hn => let ⟨g, a⟩ := h.ok hn
    ⟨g, by
      have hp : pot p' b = pot p b := by simp [pot, hb]
      cases a with
      | consume h1 h2 => exact .consume (by rw [← hp]; exact h1) (by omega)
      | deliver h1 h2 => exact .deliver (by rw [← hp]; exact h1) (by omega)
      | push h0 h0' h1 h2 =>
        have := tS_le p.state.current
        exact .push (by omega) h0' (by rw [← hp]; exact h1) (by omega)⟩⟩

theorem tS_untyped {s : St} (h1 : s.type ≠ stArrayTyped) (h2 : s.type ≠ stObjectTyped) : tS s = 0 := by
  simp [tS, h1, h2]

/-! ### arrays -/

theorem stepArrayInit_step (p : P) (b : Bytes) (hg : G p) (hb : b ≠ [])
    (ht : p.state.current.type = stArray) : Step p b (stepArrayInit p b) := by
  have hs : p.state.current.step = stStart := by
    have := hg.val p.state.current (by simp [sl])
    simpa [validSt, ht] using this
  have hp0 : pastHdr p.state.current = false := pastHdr_untyped (by simp [ht]) (by simp [ht])
  unfold stepArrayInit
  cases b with
  | nil => exact absurd rfl hb
  | cons x bs =>
    simp only []
    split
    · refine Step.good (hg.setCurrent _ (by simp [validSt, hs]) (by rw [ht]; rfl) (by rw [hp0]; exact pastHdr_untyped (by simp) (by simp)))
        (.mk_consume (by simp [setType, setCurrent]; omega) (by simp [setType, setCurrent]))
    split
    · refine Step.good (hg.setCurrent _ (by simp [validSt, hs]) (by rw [ht]; rfl) (by rw [hp0]; simp [pastHdr, hs]))
        (.mk_consume (by simp [setType, setCurrent]; omega) (by simp [setType, setCurrent]))
    · simp only [visit_eq]
      refine Step.visited ((hg.setCurrent _ (by simp [validSt, hs]) (by rw [ht]; rfl)
        (by rw [hp0]; exact pastHdr_untyped (by simp) (by simp))).addEv _)
        (.mk_deliver (by simp [addEv, setType, setCurrent]) (by simp [addEv, setType, setCurrent]))

theorem stepArrayDyn_step (p : P) (b : Bytes) (hg : G p) (hb : b ≠ [])
    (ht : p.state.current.type = stArrayDyn) : Step p b (stepArrayDyn p b) := by
  have hp0 : pastHdr p.state.current = false := pastHdr_untyped (by simp [ht]) (by simp [ht])
  unfold stepArrayDyn
  cases b with
  | nil => exact absurd rfl hb
  | cons x bs =>
    simp only []
    split
    · simp only [visit_eq]
      rcases verr_cases p with h | h <;> rw [h] <;> simp only []
      · exact Step.good ((hg.addEv _).popState (by simp [addEv, ht]) (by simpa [addEv] using hp0))
          (.mk_consume (by simp [addEv, popState]; omega) (by simp [addEv, popState]))
      · exact Step.error .visitor rfl (by decide)
    · refine Step.setDone ?_ false
      split
      · refine (stepValue_step (setStep p stCont) (x :: bs)
          (hg.setCurrent _ (by simp [validSt, ht]) (by simp [ht]) (by rw [hp0]; exact pastHdr_untyped (by simp [ht]) (by simp [ht])))
          (by simp)).from' rfl (Nat.le_refl _) ?_
        rw [tS_untyped (by simp [setStep, setCurrent, ht]) (by simp [setStep, setCurrent, ht])]; omega
      · exact stepValue_step p (x :: bs) hg (by simp)

/-- the local `content` of stepArrayCount, started from `p` after `p0` -/
theorem acContent_step (p0 : P) (l : Int) (b : Bytes) (p : P) (hg : G p)
    (ht : p.state.current.type = stArrayCount) (hbuf : p.buffer = p0.buffer)
    (hev : p0.evs.length ≤ p.evs.length) : Step p0 b (acContent l b p) := by
  have hp0 : pastHdr p.state.current = false := pastHdr_untyped (by simp [ht]) (by simp [ht])
  unfold acContent
  split
  · simp only [visit_eq]
    rcases verr_cases p with h | h <;> rw [h] <;> simp only []
    · exact Step.good ((hg.addEv _).popLenState (by simp [addEv, ht]) (by simpa [addEv] using hp0))
        (.mk_deliver (by simp [addEv, popLenState, popState, popLen, hbuf]) (by simp [addEv, popLenState, popState, popLen]; omega))
    · exact Step.error .visitor rfl (by decide)
  · cases b with
    | nil => exact Step.error .panic rfl (by decide)
    | cons x bs =>
      simp only []
      split
      · exact Step.good hg (.mk_consume (by simp [hbuf]; omega) hev)
      · refine Step.setDone ?_ false
        refine (stepValue_step (decLen p) (x :: bs) hg.decLen (by simp)).from' hbuf hev ?_
        rw [tS_untyped (by simp [decLen, ht]) (by simp [decLen, ht])]; omega

theorem stepArrayCount_step (p : P) (b : Bytes) (hg : G p)
    (hgd : b ≠ [] ∨ pending p = true) (ht : p.state.current.type = stArrayCount) :
    Step p b (stepArrayCount p b) := by
  have hp0 : pastHdr p.state.current = false := pastHdr_untyped (by simp [ht]) (by simp [ht])
  rw [stepArrayCount_eq]
  split
  · rename_i hs
    have hs' : p.state.current.step = stStart := by simpa using hs
    have hb : b ≠ [] := by
      rcases hgd with h | h
      · exact h
      · simp [pending, ht, hs'] at h
    exact (stepLen_step p b _ hg (contOK_untyped (by simp [ht]) (by simp [ht])
      (by simp [St.withStep, validSt, ht])) hb).setDone false
  · have hgc : G (setStep p stCont) :=
      hg.setCurrent _ (by simp [validSt, ht]) (by simp [ht])
        (by rw [hp0]; exact pastHdr_untyped (by simp [ht]) (by simp [ht]))
    split
    · simp only [visit_eq]
      split
      · exact Step.visited (hgc.addEv _) (.mk_deliver (by simp [addEv, setStep, setCurrent]) (by simp [addEv, setStep, setCurrent]))
      · exact acContent_step p _ b _ (hgc.addEv _) (by simpa [addEv, setStep, setCurrent] using ht) rfl
          (by simp [addEv, setStep, setCurrent])
    · exact acContent_step p _ b p hg ht rfl (Nat.le_refl _)

end SF.Ubjson.Parse
