/-
  Typed targets, part 20: ONE ARBITRARY EVENT from a reachable context, and any sequence of events.
-/
import SF.Proofs.UnfTyUnwind
import SF.Proofs.UnfGenAny
namespace SF.Unf
open SF

variable {D : Nat} {base : S6}

theorem Inv.need_le {F : Frame} {fs : List Frame} {c : Ctx} (h : Inv D base (F :: fs) c) : F.need ≤ D + 1 := by
  have hb := h.wfs.1
  cases F <;> simp only [Frame.need] <;> try omega
  · have := hb.2.1.2; simp only [RU.depth] at this; omega
  · have := hb.2.2; simp only [RU.depth] at this; omega
  · have := hb.2.2; simp only [RU.depth] at this; omega

/-- ANY ARRAY END -/
theorem arrEnd_step (hbase : base.u = Stk.init .noTarget) (F : Frame) (fs : List Frame) (c : Ctx)
    (h : Inv D base (F :: fs) c) (hU : F.hasU) : EndOut D base (ctxOnArrayFinished c) := by
  have hcur := h.cur hU
  have fin : ∀ c1, onArrayFinished c = .ok () c1 → Inv D base fs c1 →
      c.unfolder.stack.length = c1.unfolder.stack.length + 1 → Popped true fs →
      EndOut D base (ctxOnArrayFinished c) := by
    intro c1 h1 h2 h3 hP
    rw [ctxArrFin_eq c c1 h1]
    exact unwind true hbase fs.length fs c1 _ _ (Nat.le_refl _) h2 hP (by omega) (by omega)
  cases F with
  | sub a bt sl k => exact hU.elim
  | cellx C => exact hU.elim
  | arr k p i =>
    obtain ⟨c1, h1, h2, h3⟩ := arrFin_arr k p i h
    exact fin c1 h1 h2 h3 (attach_popped_sub true h.wfs.1)
  | rsl e ru p i =>
    obtain ⟨c1, h1, h2, h3⟩ := arrFin_rsl e ru p i h
    exact fin c1 h1 h2 h3 (attach_popped true h.wfs.1.1)
  | _ => obtain ⟨e, he⟩ := arrEnd_errU c _ hcur trivial; exact Or.inl ⟨e, c, he⟩

/-- ANY OBJECT END -/
theorem objEnd_step (hbase : base.u = Stk.init .noTarget) (F : Frame) (fs : List Frame) (c : Ctx)
    (h : Inv D base (F :: fs) c) (hU : F.hasU) : EndOut D base (ctxOnObjectFinished c) := by
  have hcur := h.cur hU
  have fin : ∀ c1, onObjectFinished c = .ok () c1 → Inv D base fs c1 →
      c.unfolder.stack.length = c1.unfolder.stack.length + 1 → Popped false fs →
      EndOut D base (ctxOnObjectFinished c) := by
    intro c1 h1 h2 h3 hP
    rw [ctxObjFin_eq c c1 h1]
    exact unwind false hbase fs.length fs c1 _ _ (Nat.le_refl _) h2 hP (by omega) (by omega)
  cases F with
  | sub a bt sl k => exact hU.elim
  | cellx C => exact hU.elim
  | mapK k p =>
    obtain ⟨c1, h1, h2, h3⟩ := objFin_mapK k p h
    exact fin c1 h1 h2 h3 (attach_popped_sub false h.wfs.1)
  | rmK e ru p =>
    obtain ⟨c1, h1, h2, h3⟩ := objFin_rmK e ru p h
    exact fin c1 h1 h2 h3 (attach_popped false h.wfs.1.1)
  | _ => obtain ⟨e, he⟩ := objEnd_errU c _ hcur trivial; exact Or.inl ⟨e, c, he⟩

/-- ANY KEY -/
theorem key_stepF (F : Frame) (fs : List Frame) (c : Ctx) (key : Bytes)
    (h : Inv D base (F :: fs) c) (hU : F.hasU) : EndOut D base (onKey key c) := by
  have hcur := h.cur hU
  cases F with
  | sub a bt sl k => exact hU.elim
  | cellx C => exact hU.elim
  | mapK k p =>
    obtain ⟨c1, h1, h2⟩ := key_mapK k p key h
    exact Or.inr ⟨c1, _, h1, h2, ⟨trivial, fun h => h.elim⟩⟩
  | rmK e ru p =>
    obtain ⟨c1, h1, h2⟩ := key_rmK e ru p key h
    exact Or.inr ⟨c1, _, h1, h2, ⟨trivial, fun h => h.elim⟩⟩
  | _ => obtain ⟨e, he⟩ := key_errU key c _ hcur trivial; exact Or.inl ⟨e, c, he⟩

/-- the outcome of one event: refused with an error, the documented panic of an invalid
element-type code, or accepted with the invariant kept -/
def StepOut (D : Nat) (base : S6) (e : UEv) (r : R Unit) : Prop :=
  (∃ er c', r = .err er c') ∨ (∃ c', r = .panic c' ∧ e.badStart) ∨
  (∃ c' fs', r = .ok () c' ∧ Inv D base fs' c' ∧ Rest fs')

def UEv.isKeyRef : UEv → Prop
  | .keyRef _ => True
  | _ => False

/-- ONE ARBITRARY EVENT (keys by value) from a reachable context -/
theorem step_typed (hbase : base.u = Stk.init .noTarget) (fuel : Nat) (hf : D + 1 ≤ fuel) (e : UEv)
    (he : ¬ e.isKeyRef) (fs : List Frame) (c : Ctx) (h : Inv D base fs c) (hR : Rest fs) :
    StepOut D base e (stepEv fuel e c) := by
  obtain ⟨f, rfl⟩ : ∃ f, fuel = f + 1 := ⟨fuel - 1, by omega⟩
  cases fs with
  | nil =>
    -- no target: `unfolderNoTarget` answers
    have hcur : c.unfolder.current = .noTarget := by rw [h.uEq]; simp only [stacksOf]; rw [hbase]; rfl
    cases e with
    | scalar s => obtain ⟨er, h1⟩ := scalar_errU f s c _ hcur trivial; exact Or.inl ⟨er, c, h1⟩
    | strRef s => obtain ⟨er, h1⟩ := scalar_errU f (.str s) c _ hcur trivial; exact Or.inl ⟨er, c, h1⟩
    | key k => obtain ⟨er, h1⟩ := key_errU k c _ hcur trivial; exact Or.inl ⟨er, c, h1⟩
    | keyRef k => exact absurd trivial he
    | arrStart l bt => obtain ⟨er, h1⟩ := arrStart_errU f l (bt % 256) c _ hcur trivial; exact Or.inl ⟨er, c, h1⟩
    | objStart l bt => obtain ⟨er, h1⟩ := objStart_errU f l (bt % 256) c _ hcur trivial; exact Or.inl ⟨er, c, h1⟩
    | arrEnd => obtain ⟨er, h1⟩ := arrEnd_errU c _ hcur trivial; exact Or.inl ⟨er, c, h1⟩
    | objEnd => obtain ⟨er, h1⟩ := objEnd_errU c _ hcur trivial; exact Or.inl ⟨er, c, h1⟩
  | cons F fs =>
    have hU : F.hasU := hR.1
    have hneed : F.need ≤ f + 1 := Nat.le_trans h.need_le hf
    have ofEnd : ∀ r, EndOut D base r → StepOut D base e r := by
      intro r hr
      rcases hr with h1 | h1
      · exact Or.inl h1
      · exact Or.inr (Or.inr h1)
    have ofScalar : ∀ r, ScalarOut D base F fs r → StepOut D base e r := by
      intro r hr
      rcases hr with h1 | ⟨c', fs', hn, h1, h2⟩
      · exact Or.inl h1
      · refine Or.inr (Or.inr ⟨c', fs', h1, h2, ?_⟩)
        cases F with
        | prim k p => simp only [scalarNext, Option.some.injEq] at hn; subst hn; rw [hR.2 trivial]; trivial
        | rp e' ru p => simp only [scalarNext, Option.some.injEq] at hn; subst hn; rw [hR.2 trivial]; trivial
        | arr k p i => simp only [scalarNext, Option.some.injEq] at hn; subst hn; exact ⟨trivial, fun h => h.elim⟩
        | mapV k p key => simp only [scalarNext, Option.some.injEq] at hn; subst hn; exact ⟨trivial, fun h => h.elim⟩
        | rsl e' ru p i => simp only [scalarNext, Option.some.injEq] at hn; subst hn; exact ⟨trivial, fun h => h.elim⟩
        | rmE e' ru p key =>
          simp only [scalarNext, Option.some.injEq] at hn; subst hn; exact ⟨trivial, fun h => h.elim⟩
        | _ => simp [scalarNext] at hn
    cases e with
    | scalar s => exact ofScalar _ (scalar_step (f + 1) F fs c s h hU hneed)
    | strRef s => exact ofScalar _ (scalar_step (f + 1) F fs c (.str s) h hU hneed)
    | key k => exact ofEnd _ (key_stepF F fs c k h hU)
    | keyRef k => exact absurd trivial he
    | arrEnd => exact ofEnd _ (arrEnd_step hbase F fs c h hU)
    | objEnd => exact ofEnd _ (objEnd_step hbase F fs c h hU)
    | arrStart l bt =>
      rcases arrStart_step (f + 1) F fs c l (bt % 256) h hU hneed with h1 | ⟨c', h1, h2⟩ | h1
      · exact Or.inl h1
      · exact Or.inr (Or.inl ⟨c', h1, h2⟩)
      · exact Or.inr (Or.inr h1)
    | objStart l bt =>
      rcases objStart_step (f + 1) F fs c l (bt % 256) h hU hneed with h1 | ⟨c', h1, h2⟩ | h1
      · exact Or.inl h1
      · exact Or.inr (Or.inl ⟨c', h1, h2⟩)
      · exact Or.inr (Or.inr h1)

/-- ANY SEQUENCE OF EVENTS (keys by value) from a reachable context: accepted completely, or
refused with an error at some event, or — only if it contains a container start announcing an
invalid element-type code — the documented panic.  Never a model gap, never fuel exhaustion, no other
panic. -/
theorem run_typed (hbase : base.u = Stk.init .noTarget) (fuel : Nat) (hf : D + 1 ≤ fuel) (es : List UEv)
    (hes : ∀ e ∈ es, ¬ e.isKeyRef) (fs : List Frame) (c : Ctx) (h : Inv D base fs c) (hR : Rest fs) :
    (∃ c' fs', run fuel es c = .ok () c' ∧ Inv D base fs' c' ∧ Rest fs') ∨
    (∃ er c', run fuel es c = .err er c') ∨
    (∃ c' e, run fuel es c = .panic c' ∧ e ∈ es ∧ e.badStart) := by
  induction es generalizing fs c with
  | nil => exact Or.inl ⟨c, fs, rfl, h, hR⟩
  | cons e es ih =>
    rcases step_typed hbase fuel hf e (hes e List.mem_cons_self) fs c h hR with
      ⟨er, c1, h1⟩ | ⟨c1, h1, hb⟩ | ⟨c1, fs1, h1, hinv1, hR1⟩
    · exact Or.inr (Or.inl ⟨er, c1, run_cons_err _ _ _ _ _ _ h1⟩)
    · exact Or.inr (Or.inr ⟨c1, e, run_cons_panic' _ _ _ _ _ h1, List.mem_cons_self, hb⟩)
    · rw [run_cons_ok _ _ _ _ _ h1]
      rcases ih (fun e he => hes e (List.mem_cons_of_mem _ he)) fs1 c1 hinv1 hR1 with h2 | h2 | ⟨c', e', h2, hm, hb⟩
      · exact Or.inl h2
      · exact Or.inr (Or.inl h2)
      · exact Or.inr (Or.inr ⟨c', e', h2, List.mem_cons_of_mem _ hm, hb⟩)

end SF.Unf
