/-
  Event side of property C12: which `Val` an event sequence builds (`build`), stated
  compositionally.  `Enc evs g`: run from any state that can accept a value, `evs` puts
  exactly `g`.  `EncMems evs ms`: run inside an open object (no pending key), `evs` appends
  exactly the members `ms`.
-/
import SF.Event
import SF.Proofs.FoldList
namespace SF.FoldProofs
open SF

/-- the state can take a value next (it is not an object waiting for a key) -/
def accepts (st : BState) : Bool :=
  match st.stack with
  | .obj _ none :: _ => false
  | _ => true

theorem run_append (st : BState) (a b : List Ev) :
    st.run (a ++ b) = (st.run a).bind (fun st' => st'.run b) := by
  induction a generalizing st with
  | nil => rfl
  | cons e a ih =>
    simp only [List.cons_append, BState.run]
    cases h : st.step e with
    | none => rfl
    | some st' => simp only [ih]

theorem put_accepts (st : BState) (g : Val) (h : accepts st = true) :
    ∃ st', st.put g = some st' := by
  unfold accepts at h
  unfold BState.put
  split <;> simp_all

/-- `evs` describes exactly the value `g` -/
def Enc (evs : List Ev) (g : Val) : Prop :=
  ∀ st : BState, accepts st = true → st.run evs = st.put g

/-- inside an object, `evs` describes exactly the members `ms` -/
def EncMems (evs : List Ev) (ms : List (Bytes × Val)) : Prop :=
  ∀ (st : BState) (acc : List (Bytes × Val)) (rest : List BFrame),
    st.stack = .obj acc none :: rest →
    st.run evs = some { st with stack := .obj (ms.reverse ++ acc) none :: rest }

/-- inside an array, `evs` describes exactly the elements `gs` -/
def EncElems (evs : List Ev) (gs : List Val) : Prop :=
  ∀ (st : BState) (acc : List Val) (rest : List BFrame),
    st.stack = .arr acc :: rest →
    st.run evs = some { st with stack := .arr (gs.reverse ++ acc) :: rest }

/-! ## scalars -/

theorem run_single (st : BState) (e : Ev) : st.run [e] = st.step e := by
  simp only [BState.run]
  cases st.step e <;> rfl

theorem Enc_null : Enc [.null] .null := fun st _ => by rw [run_single]; rfl
theorem Enc_bool (b : Bool) : Enc [.bool b] (.bool b) := fun st _ => by rw [run_single]; rfl
theorem Enc_str (s : Bytes) : Enc [.str s] (.str s) := fun st _ => by rw [run_single]; rfl
theorem Enc_num (k : NumKind) (v : Int) : Enc [.num k v] (.int v) := fun st _ => by rw [run_single]; rfl
theorem Enc_f32 (b : UInt32) : Enc [.f32 b] (.f32 b) := fun st _ => by rw [run_single]; rfl
theorem Enc_f64 (b : UInt64) : Enc [.f64 b] (.f64 b) := fun st _ => by rw [run_single]; rfl

/-! ## arrays -/

theorem EncElems_nil : EncElems [] [] := by
  intro st acc rest h
  simp only [BState.run, List.reverse_nil, List.nil_append]
  cases st; simp_all

theorem EncElems_append {a b : List Ev} {ga gb : List Val}
    (ha : EncElems a ga) (hb : EncElems b gb) : EncElems (a ++ b) (ga ++ gb) := by
  intro st acc rest h
  rw [run_append, ha st acc rest h]
  simp only [Option.bind]
  rw [hb _ (ga.reverse ++ acc) rest rfl]
  simp [List.reverse_append, List.append_assoc]

theorem EncElems_one {evs : List Ev} {g : Val} (h : Enc evs g) : EncElems evs [g] := by
  intro st acc rest hs
  have ha : accepts st = true := by simp [accepts, hs]
  rw [h st ha]
  simp [BState.put, hs]

theorem EncElems_flatten {evss : List (List Ev)} {gs : List Val}
    (h : All2 Enc evss gs) : EncElems evss.flatten gs := by
  induction h with
  | nil => exact EncElems_nil
  | cons h1 _ ih =>
    simp only [List.flatten_cons]
    exact EncElems_append (EncElems_one h1) ih

theorem Enc_arr {evs : List Ev} {gs : List Val} (l : Int) (bt : Nat) (h : EncElems evs gs) :
    Enc (.arrStart l bt :: evs ++ [.arrEnd]) (.arr gs) := by
  intro st ha
  have h1 : st.step (.arrStart l bt) = some { st with stack := .arr [] :: st.stack } := by
    unfold accepts at ha
    simp only [BState.step]
    split <;> simp_all
  simp only [List.cons_append, BState.run, h1]
  rw [run_append, h _ [] st.stack rfl]
  simp only [Option.bind, List.append_nil, run_single, BState.step, List.reverse_reverse]

/-! ## objects -/

theorem EncMems_nil : EncMems [] [] := by
  intro st acc rest h
  simp only [BState.run, List.reverse_nil, List.nil_append]
  cases st; simp_all

theorem EncMems_append {a b : List Ev} {ma mb : List (Bytes × Val)}
    (ha : EncMems a ma) (hb : EncMems b mb) : EncMems (a ++ b) (ma ++ mb) := by
  intro st acc rest h
  rw [run_append, ha st acc rest h]
  simp only [Option.bind]
  rw [hb _ (ma.reverse ++ acc) rest rfl]
  simp [List.reverse_append, List.append_assoc]

theorem EncMems_member {evs : List Ev} {g : Val} (k : Bytes) (h : Enc evs g) :
    EncMems (.key k :: evs) [(k, g)] := by
  intro st acc rest hs
  have h1 : st.step (.key k) = some { st with stack := .obj acc (some k) :: rest } := by
    simp [BState.step, hs]
  simp only [BState.run, h1]
  rw [h _ (by simp [accepts])]
  simp [BState.put]

theorem EncMems_flatten {evss : List (List Ev)} {mss : List (List (Bytes × Val))}
    (h : All2 EncMems evss mss) : EncMems evss.flatten mss.flatten := by
  induction h with
  | nil => exact EncMems_nil
  | cons h1 _ ih =>
    simp only [List.flatten_cons]
    exact EncMems_append h1 ih

theorem Enc_obj {evs : List Ev} {ms : List (Bytes × Val)} (l : Int) (bt : Nat) (h : EncMems evs ms) :
    Enc (.objStart l bt :: evs ++ [.objEnd]) (.obj ms) := by
  intro st ha
  have h1 : st.step (.objStart l bt) = some { st with stack := .obj [] none :: st.stack } := by
    unfold accepts at ha
    simp only [BState.step]
    split <;> simp_all
  simp only [List.cons_append, BState.run, h1]
  rw [run_append, h _ [] st.stack rfl]
  simp only [Option.bind, List.append_nil, run_single, BState.step, List.reverse_reverse]

/-! ## the value of a complete stream -/

theorem build_of_Enc {evs : List Ev} {g : Val} (h : Enc evs g) : build evs = some g := by
  have := h {} (by rfl)
  simp only [build, buildAll, this, BState.put]
  rfl

/-! ## expansion of extended events -/

theorem expandAll_nil : expandAll [] = [] := rfl
theorem expandAll_cons (x : XEv) (xs : List XEv) : expandAll (x :: xs) = x.expand ++ expandAll xs := by
  simp [expandAll]
theorem expandAll_append (xs ys : List XEv) : expandAll (xs ++ ys) = expandAll xs ++ expandAll ys := by
  simp [expandAll]
theorem expandAll_single (x : XEv) : expandAll [x] = x.expand := by simp [expandAll]
theorem expandAll_flatten (xss : List (List XEv)) :
    expandAll xss.flatten = (xss.map expandAll).flatten := by
  induction xss with
  | nil => rfl
  | cons a l ih => simp [expandAll_append, ih]

/-- elements each described by one event -/
theorem EncElems_map {α : Type} (f : α → Ev) (g : α → Val) (h : ∀ a, Enc [f a] (g a)) (xs : List α) :
    EncElems (xs.map f) (xs.map g) := by
  induction xs with
  | nil => exact EncElems_nil
  | cons a l ih =>
    have := EncElems_append (EncElems_one (h a)) ih
    simpa using this

/-- members each described by a key and one event -/
theorem EncMems_flatMap {α : Type} (f : α → Ev) (g : α → Val) (h : ∀ a, Enc [f a] (g a))
    (ms : List (Bytes × α)) :
    EncMems (ms.flatMap fun m => [.key m.1, f m.2]) (ms.map fun m => (m.1, g m.2)) := by
  induction ms with
  | nil => exact EncMems_nil
  | cons a l ih =>
    have := EncMems_append (EncMems_member a.1 (h a.2)) ih
    simpa using this

theorem Enc_boolArr (xs : List Bool) : Enc (XEv.boolArr xs).expand (.arr (xs.map .bool)) :=
  Enc_arr _ _ (EncElems_map _ _ Enc_bool xs)
theorem Enc_strArr (xs : List Bytes) : Enc (XEv.strArr xs).expand (.arr (xs.map .str)) :=
  Enc_arr _ _ (EncElems_map _ _ Enc_str xs)
theorem Enc_numArr (k : NumKind) (xs : List Int) : Enc (XEv.numArr k xs).expand (.arr (xs.map .int)) :=
  Enc_arr _ _ (EncElems_map _ _ (Enc_num k) xs)
theorem Enc_f32Arr (xs : List UInt32) : Enc (XEv.f32Arr xs).expand (.arr (xs.map .f32)) :=
  Enc_arr _ _ (EncElems_map _ _ Enc_f32 xs)
theorem Enc_f64Arr (xs : List UInt64) : Enc (XEv.f64Arr xs).expand (.arr (xs.map .f64)) :=
  Enc_arr _ _ (EncElems_map _ _ Enc_f64 xs)

theorem Enc_boolObj (ms : List (Bytes × Bool)) :
    Enc (XEv.boolObj ms).expand (.obj (ms.map fun m => (m.1, .bool m.2))) :=
  Enc_obj _ _ (EncMems_flatMap _ _ Enc_bool ms)
theorem Enc_strObj (ms : List (Bytes × Bytes)) :
    Enc (XEv.strObj ms).expand (.obj (ms.map fun m => (m.1, .str m.2))) :=
  Enc_obj _ _ (EncMems_flatMap _ _ Enc_str ms)
theorem Enc_numObj (k : NumKind) (ms : List (Bytes × Int)) :
    Enc (XEv.numObj k ms).expand (.obj (ms.map fun m => (m.1, .int m.2))) :=
  Enc_obj _ _ (EncMems_flatMap _ _ (Enc_num k) ms)
theorem Enc_f32Obj (ms : List (Bytes × UInt32)) :
    Enc (XEv.f32Obj ms).expand (.obj (ms.map fun m => (m.1, .f32 m.2))) :=
  Enc_obj _ _ (EncMems_flatMap _ _ Enc_f32 ms)
theorem Enc_f64Obj (ms : List (Bytes × UInt64)) :
    Enc (XEv.f64Obj ms).expand (.obj (ms.map fun m => (m.1, .f64 m.2))) :=
  Enc_obj _ _ (EncMems_flatMap _ _ Enc_f64 ms)

end SF.FoldProofs
