/-
  The bytes of the UBJSON encoder's helpers (SF/Ubjson/Enc.lean) as wire forms of `UItem`s
  (SF/Proofs/UbjWire.lean): integers, lengths, strings, the unsigned path with its
  high-precision fallback.
-/
import SF.Proofs.UbjEncExec
import SF.Proofs.UbjDecode
namespace SF.Ubjson.Enc
open SF SF.Ubjson SF.Ubjson.Wire

/-- all bytes an action list writes -/
def flat (a : List Act) : Bytes := (writesOf a).flatten

@[simp] theorem flat_nil : flat [] = [] := rfl
@[simp] theorem flat_append (a b : List Act) : flat (a ++ b) = flat a ++ flat b := by
  simp [flat]
@[simp] theorem flat_write (b : Bytes) (r : List Act) : flat (.write b :: r) = b ++ flat r := by
  simp [flat, writesOf]
@[simp] theorem flat_push (n : Int) (r : List Act) : flat (.push n :: r) = flat r := by
  simp [flat, writesOf]
@[simp] theorem flat_pop (r : List Act) : flat (.pop :: r) = flat r := by
  simp [flat, writesOf]

theorem flat_flatMap {α : Type} (xs : List α) (f : α → List Act) :
    flat (xs.flatMap f) = xs.flatMap (fun a => flat (f a)) := by
  induction xs with
  | nil => rfl
  | cons a xs ih => simp [List.flatMap_cons, ih]

/-- the optional marker byte -/
def mk (marker : Bool) (m : UInt8) : Bytes := if marker then [m] else []

@[simp] theorem flat_markerAct (marker : Bool) (m : UInt8) : flat (markerAct marker m) = mk marker m := by
  cases marker <;> simp [markerAct, mk, writeByte]

theorem intPayload_i (v : Int) : intPayload .i v = [UInt8.ofNat (v % 256).toNat] := by
  simp only [intPayload, IM.width, beBytes, List.nil_append, Int.pow_succ, Int.pow_zero, Int.one_mul]
  congr 2
  omega
theorem intPayload_U (v : Int) : intPayload .U v = [UInt8.ofNat (v % 256).toNat] := by
  simp only [intPayload, IM.width, beBytes, List.nil_append, Int.pow_succ, Int.pow_zero, Int.one_mul]
  congr 2
  omega

theorem flat_int8 (v : Int) (m : Bool) : flat (int8 v m) = mk m 0x69 ++ intPayload .i v := by
  simp [int8, writeByte, intPayload_i, int8Marker]
theorem flat_uint8 (v : Int) (m : Bool) : flat (uint8 v m) = mk m 0x55 ++ intPayload .U v := by
  cases m <;> simp [uint8, writeByte, intPayload_U, uint8Marker, mk]
theorem flat_int16 (v : Int) (m : Bool) : flat (int16 v m) = mk m 0x49 ++ intPayload .I v := by
  simp [int16, int16Marker]; rfl
theorem flat_int32 (v : Int) (m : Bool) : flat (int32 v m) = mk m 0x6c ++ intPayload .l v := by
  simp [int32, int32Marker]; rfl
theorem flat_int64 (v : Int) (m : Bool) : flat (int64 v m) = mk m 0x4c ++ intPayload .L v := by
  simp [int64, int64Marker]; rfl

/-- the marker `onInt` chooses -/
def minM (v : Int) : IM :=
  if -128 ≤ v ∧ v ≤ 127 then .i
  else if 0 ≤ v ∧ v ≤ 255 then .U
  else if -32768 ≤ v ∧ v ≤ 32767 then .I
  else if -2147483648 ≤ v ∧ v ≤ 2147483647 then .l
  else .L

theorem flat_onInt (v : Int) (m : Bool) : flat (onInt v m) = mk m (minM v).byte ++ intPayload (minM v) v := by
  unfold onInt minM
  split
  · exact flat_int8 v m
  · split
    · exact flat_uint8 v m
    · split
      · exact flat_int16 v m
      · split
        · exact flat_int32 v m
        · exact flat_int64 v m

theorem minM_fits (v : Int) (h1 : -9223372036854775808 ≤ v) (h2 : v ≤ 9223372036854775807) :
    (minM v).fits v = true := by
  unfold minM
  split
  · simp [IM.fits, *]
  · split
    · simp [IM.fits, *]
    · split
      · simp [IM.fits, *]
      · split
        · simp [IM.fits, *]
        · simp [IM.fits, *]

theorem flat_writeLen (n : Nat) : flat (writeLen n) = lenWire (minM n) n := by
  simp [writeLen, flat_onInt, mk, lenWire]

theorem flat_string (s : Bytes) (m : Bool) :
    flat (string s m) = mk m 0x53 ++ (lenWire (minM s.length) s.length ++ s) := by
  unfold string
  simp only [flat_append, flat_markerAct, flat_writeLen, stringMarker, List.append_assoc]
  congr 2
  split
  · rename_i h
    have : s = [] := by simpa using h
    simp [this]
  · simp

theorem flat_float32 (b : UInt32) (m : Bool) : flat (float32 b m) = mk m 0x64 ++ beBytes 4 b.toNat := by
  simp [float32, float32Marker]
theorem flat_float64 (b : UInt64) (m : Bool) : flat (float64 b m) = mk m 0x44 ++ beBytes 8 b.toNat := by
  simp [float64, float64Marker]

/-! ### the unsigned path -/

/-- the markers `uintType` / `maxNumType` range over, in their order -/
inductive UT | i | U | I | l | L | H
  deriving DecidableEq, Repr

def UT.byte : UT → UInt8
  | .i => int8Marker | .U => uint8Marker | .I => int16Marker | .l => int32Marker | .L => int64Marker
  | .H => highPrecMarker

def UT.rank : UT → Nat
  | .i => 0 | .U => 1 | .I => 2 | .l => 3 | .L => 4 | .H => 5

def utOf (u : Nat) : UT :=
  if u ≤ 127 then .i
  else if u ≤ 255 then .U
  else if u ≤ 32767 then .I
  else if u ≤ 2147483647 then .l
  else if u ≤ 9223372036854775807 then .L
  else .H

theorem uintType_eq (u : Nat) : uintType u = (utOf u).byte := by
  unfold uintType utOf
  repeat' split
  all_goals rfl

/-- the element a value takes in a container typed `t` (or alone, `t = utOf u`) -/
def utItem (t : UT) (u : Nat) : UItem :=
  match t with
  | .i => .int .i u | .U => .int .U u | .I => .int .I u | .l => .int .l u | .L => .int .L u
  | .H => .hp (minM (decimal u).length) (decimal u)

theorem utItem_marker (t : UT) (u : Nat) : (utItem t u).marker = t.byte := by
  cases t <;> rfl

theorem flat_uint64HighPrec (u : Nat) (m : Bool) :
    flat (uint64HighPrec u m) = mk m 0x48 ++ (lenWire (minM (decimal u).length) (decimal u).length ++ decimal u) := by
  simp [uint64HighPrec, flat_writeLen, highPrecMarker]

theorem flat_uint64 (t : UT) (u : Nat) (m : Bool) :
    flat (uint64 u t.byte m) = mk m t.byte ++ (utItem t u).payload := by
  cases t
  · exact flat_int8 u m
  · exact flat_uint8 u m
  · exact flat_int16 u m
  · exact flat_int32 u m
  · exact flat_int64 u m
  · exact flat_uint64HighPrec u m

/-- digit strings of 64-bit numbers are short -/
theorem decimal_length (u : Nat) (h : u < 18446744073709551616) : (decimal u).length ≤ 20 := by
  have h1 : (decimal u).length = (Nat.toDigits 10 u).length := by
    simp [decimal, Nat.toString_eq_repr, Nat.toList_repr]
  rw [h1, Nat.length_toDigits_le_iff (by omega) (by omega)]
  omega

theorem utItem_ok (t : UT) (u : Nat) (h : (utOf u).rank ≤ t.rank) (hu : u < 18446744073709551616) :
    (utItem t u).ok = true := by
  have hd := decimal_length u hu
  unfold utOf at h
  cases t <;> simp only [utItem, UItem.ok, IM.fits, decide_eq_true_eq] <;>
    (try (repeat' split at h) <;> simp only [UT.rank] at h <;> omega)
  exact minM_fits _ (by omega) (by omega)

theorem utItem_value (t : UT) (u : Nat) :
    (utItem t u).value = if t = .H then .str (decimal u) else .int u := by
  cases t <;> simp [utItem, UItem.value]

end SF.Ubjson.Enc
