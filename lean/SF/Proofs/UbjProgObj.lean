/-
  C03 no-hang (UBJSON): stepObjectInit, field names, stepObjectDyn.
-/
import SF.Proofs.UbjProgTyped
namespace SF.Ubjson.Parse
open SF SF.Ubjson
open StateType StateStep

/-! ### objects -/

theorem stepObjectInit_step (p : P) (b : Bytes) (hg : G p) (hb : b ≠ [])
    (ht : p.state.current.type = stObject) : Step p b (stepObjectInit p b) := by
  have hs : p.state.current.step = stStart := by
    have := hg.val p.state.current (by simp [sl])
    simpa [validSt, ht] using this
  have hp0 : pastHdr p.state.current = false := pastHdr_untyped (by simp [ht]) (by simp [ht])
  unfold stepObjectInit
  cases b with
  | nil => exact absurd rfl hb
  | cons x bs =>
    simp only []
    split
    · refine Step.good (hg.setCurrent _ (by simp [validSt, hs]) (by rw [ht]; rfl) (by rw [hp0]; exact pastHdr_untyped (by simp) (by simp)))
        (.mk_consume (by simp [setType, setCurrent]; omega) (by simp [setType, setCurrent]))
    split
    · refine Step.good (hg.setCurrent _ (by simp [validSt, hs]) (by rw [ht]; rfl) (by rw [hp0]; simp [pastHdr, hs]))
        (.mk_consume (by simp [setType, setCurrent]; omega) (by simp [setType, setCurrent]))
    · simp only [visit_eq]
      refine Step.visited ((hg.setCurrent _ (by simp [validSt, hs]) (by rw [ht]; rfl)
        (by rw [hp0]; exact pastHdr_untyped (by simp) (by simp))).addEv _)
        (.mk_deliver (by simp [addEv, setType, setCurrent]) (by simp [addEv, setType, setCurrent]))

theorem collect_zero (buffer b : Bytes) : (collect buffer b 0).2.2 ≠ none := by
  unfold collect
  simp only []
  repeat' split
  all_goals simp_all
  all_goals omega

/-- the three object types, in a state that holds a key length -/
def ObjTy (t : StateType) : Prop := t = stObjectDyn ∨ t = stObjectCount ∨ t = stObjectTyped

theorem fieldName_step (p : P) (b : Bytes) (hg : G p) (ht : ObjTy p.state.current.type)
    (hs : p.state.current.step = stFieldNameLen) (hb : p.length.current ≠ 0 → b ≠ []) :
    Step p b (fieldName p b) := by
  have hcur : p.state.current = ⟨p.state.current.type, stFieldNameLen⟩ := by
    cases hc : p.state.current with | mk t st => simp [hc] at hs ⊢; exact hs
  unfold fieldName
  simp only []
  split
  · exact Step.error .panic rfl (by decide)
  · rename_i hneg
    have h1 := hg.collectP b p.length.current.toNat
    have h2 := collectP_pot p b p.length.current.toNat
    have h3 := collect_zero p.buffer b
    rcases h : collectP p b p.length.current.toNat with ⟨q, rest, tmp⟩
    rw [h] at h1 h2
    have hq : q = (collectP p b p.length.current.toNat).1 := by rw [h]
    have hqe : q.evs = p.evs := by rw [hq]; rfl
    have hqs : q.state = p.state := by rw [hq]; rfl
    simp only at h1 h2
    cases tmp with
    | none =>
      have hl : p.length.current ≠ 0 := by
        intro hz
        rw [hz] at h
        have : (collectP p b (0 : Int).toNat).2.2 = (collect p.buffer b 0).2.2 := rfl
        rw [h] at this
        exact h3 this.symm
      exact Step.good h1 (.consume (by have := h2.2.1 rfl (hb hl); simp only []; omega) (by simp [hqe]))
    | some t =>
      simp only [visit_eq]
      refine Step.visited ((h1.popLen.addEv _).setCurrent _ ?_ (by simp [addEv, popLen, hqs]) ?_)
        (.mk_deliver (by simpa [setStep, setCurrent, addEv, popLen, pot] using h2.1)
          (by simp [setStep, setCurrent, addEv, popLen, hqe]))
      · rcases ht with h' | h' | h' <;> simp [addEv, popLen, hqs, validSt, h']
      · simp only [addEv, popLen, hqs]
        rw [hcur]
        rcases ht with h' | h' | h' <;> rw [h'] <;> rfl

theorem odBody_step (b : Bytes) (p : P) (hg : G p) (hb : b ≠ [])
    (ht : p.state.current.type = stObjectDyn) : Step p b (odBody p.state.current.step b p) := by
  have hv := hg.val p.state.current (by simp [sl])
  simp only [validSt, ht, Bool.or_eq_true, beq_iff_eq] at hv
  have hp0 : pastHdr p.state.current = false := pastHdr_untyped (by simp [ht]) (by simp [ht])
  unfold odBody
  split
  · exact (stepLen_step p b _ hg (contOK_untyped (by simp [ht]) (by simp [ht])
      (by simp [St.withStep, validSt, ht])) hb).setDone false
  · rename_i hs
    exact fieldName_step p b hg (Or.inl ht) hs (fun _ => hb)
  · cases b with
    | nil => exact absurd rfl hb
    | cons x bs =>
      simp only []
      split
      · exact Step.good hg (.mk_consume (by simp; omega) (by simp))
      · refine Step.setDone ?_ false
        refine (stepValue_step (setStep p stStart) (x :: bs)
          (hg.setCurrent _ (by simp [validSt, ht]) (by simp [ht])
            (by rw [hp0]; exact pastHdr_untyped (by simp [ht]) (by simp [ht])))
          (by simp)).from' rfl (Nat.le_refl _) ?_
        rw [tS_untyped (by simp [setStep, setCurrent, ht]) (by simp [setStep, setCurrent, ht])]; omega
  · rename_i h1 h2 h3
    rcases hv with (h | h) | h
    · exact (h1 h).elim
    · exact (h2 h).elim
    · exact (h3 h).elim

theorem stepObjectDyn_step (p : P) (b : Bytes) (hg : G p) (hb : b ≠ [])
    (ht : p.state.current.type = stObjectDyn) : Step p b (stepObjectDyn p b) := by
  have hp0 : pastHdr p.state.current = false := pastHdr_untyped (by simp [ht]) (by simp [ht])
  rw [stepObjectDyn_eq]
  split
  · cases b with
    | nil => exact absurd rfl hb
    | cons x bs =>
      simp only []
      split
      · simp only [visit_eq]
        rcases verr_cases p with h | h <;> rw [h] <;> simp only []
        · exact Step.good ((hg.addEv _).popState (by simp [addEv, ht]) (by simpa [addEv] using hp0))
            (.mk_consume (by simp [addEv, popState]; omega) (by simp [addEv, popState]))
        · exact Step.error .visitor rfl (by decide)
      · exact odBody_step _ p hg hb ht
  · exact odBody_step _ p hg hb ht

end SF.Ubjson.Parse
