/-
  C03 no-hang (UBJSON): stepFixedValue.
-/
import SF.Proofs.UbjProgLen
namespace SF.Ubjson.Parse
open SF SF.Ubjson
open StateType StateStep

/-- configuration `(p, b)` is ahead of `(p0, b0)`: input consumed or an event delivered -/
def Prg (p0 : P) (b0 : Bytes) (p : P) (b : Bytes) : Prop :=
  (pot p b + 1 ≤ pot p0 b0 ∧ p0.evs.length ≤ p.evs.length) ∨
  (pot p b ≤ pot p0 b0 ∧ p0.evs.length + 1 ≤ p.evs.length)

theorem Prg.adv {p0 p : P} {b0 b : Bytes} (h : Prg p0 b0 p b) (d : Bool) (e : Option Err) :
    Adv p0 b0 ⟨p, b, d, e⟩ := by
  rcases h with h | h
  · exact .consume h.1 h.2
  · exact .deliver h.1 h.2

/-- the same configuration up to fields progress does not look at -/
theorem Prg.congr {p0 p q : P} {b0 b : Bytes} (h : Prg p0 b0 p b) (hb : q.buffer = p.buffer) (he : q.evs = p.evs) :
    Prg p0 b0 q b := by
  simpa [Prg, pot, hb, he] using h

theorem Prg.visit {p0 p : P} {b0 b : Bytes} (hpot : pot p b ≤ pot p0 b0) (hev : p0.evs.length ≤ p.evs.length)
    (e : Ev) : Prg p0 b0 (addEv p e) b :=
  Or.inr ⟨by simpa [pot, addEv] using hpot, by simp [addEv]; omega⟩

/-! ### stepFixedValue -/

theorem fixFin_step (p0 : P) (b0 : Bytes) (p : P) (b : Bytes) (done : Bool) (err : Option Err) (hg : G p)
    (ht : p.state.current.type = stFixed) (herr : err ≠ some .outOfFuel) (hp : Prg p0 b0 p b) :
    Step p0 b0 (fixFin p b done err) := by
  unfold fixFin
  split
  · refine Step.good (hg.popState (by simp [ht]) (by simp [pastHdr, ht])) ?_
    exact (hp.congr (q := (popState p).1) rfl rfl).adv _ _
  · exact ⟨herr, fun he => ⟨hg, by simp only at he; subst he; exact hp.adv _ _⟩⟩

theorem fixNow_step (p0 : P) (b0 : Bytes) (p : P) (b : Bytes) (e : Ev) (hg : G p)
    (ht : p.state.current.type = stFixed) (hpot : pot p b ≤ pot p0 b0) (hev : p0.evs.length ≤ p.evs.length) :
    Step p0 b0 (let (q, err) := visit p e; fixFin q b true err) := by
  simp only [visit_eq]
  exact fixFin_step p0 b0 (addEv p e) b true _ (hg.addEv e) ht
    (by rcases verr_cases p with h | h <;> simp [h]) (Prg.visit hpot hev e)

theorem fixColl_step (p : P) (b : Bytes) (n : Nat) (mk : Bytes → Ev) (hg : G p)
    (ht : p.state.current.type = stFixed) (hb : b ≠ []) :
    Step p b (match collectP p b n with
      | (p, rest, none) => fixFin p rest false none
      | (p, rest, some tmp) => let (p, err) := visit p (mk tmp); fixFin p rest true err) := by
  have h1 := hg.collectP b n
  have h2 := collectP_pot p b n
  rcases h : collectP p b n with ⟨q, rest, tmp⟩
  rw [h] at h1 h2
  have hq : q = (collectP p b n).1 := by rw [h]
  have hqe : q.evs = p.evs := by rw [hq]; rfl
  have hqs : q.state = p.state := by rw [hq]; rfl
  simp only at h1 h2
  cases tmp with
  | none =>
    exact fixFin_step p b q rest false none h1 (by rw [hqs]; exact ht) (by simp)
      (Or.inl ⟨h2.2.1 rfl hb, by rw [hqe]; exact Nat.le_refl _⟩)
  | some t =>
    exact fixNow_step p b q rest _ h1 (by rw [hqs]; exact ht) h2.1 (by rw [hqe]; exact Nat.le_refl _)

theorem stepFixedValue_step (p : P) (b : Bytes) (hg : G p)
    (hgd : b ≠ [] ∨ pending p = true) (ht : p.state.current.type = stFixed) :
    Step p b (stepFixedValue p b) := by
  have hv : fixedStep p.state.current.step = true := by
    have := hg.val p.state.current (by simp [sl])
    simpa [validSt, ht] using this
  have hb : ∀ s, p.state.current.step = s →
      (s == stNil || s == stTrue || s == stFalse) = false → b ≠ [] := by
    intro s hs hf
    rcases hgd with h | h
    · exact h
    · simp [pending, ht, hs] at h
      simp at hf
      rcases h with (h | h) | h <;> simp [h] at hf
  rw [stepFixedValue_eq]
  split
  · exact fixNow_step p b p b _ hg ht (Nat.le_refl _) (Nat.le_refl _)
  · rename_i hs; simp [hs, fixedStep] at hv
  · exact fixNow_step p b p b _ hg ht (Nat.le_refl _) (Nat.le_refl _)
  · exact fixNow_step p b p b _ hg ht (Nat.le_refl _) (Nat.le_refl _)
  · rename_i hs
    cases b with
    | nil => exact absurd rfl (hb _ hs (by decide))
    | cons x bs => exact fixNow_step p (x :: bs) p bs _ hg ht (by simp [pot]; omega) (Nat.le_refl _)
  · rename_i hs
    cases b with
    | nil => exact absurd rfl (hb _ hs (by decide))
    | cons x bs => exact fixNow_step p (x :: bs) p bs _ hg ht (by simp [pot]; omega) (Nat.le_refl _)
  · rename_i hs; exact fixColl_step p b _ _ hg ht (hb _ hs (by decide))
  · rename_i hs; exact fixColl_step p b _ _ hg ht (hb _ hs (by decide))
  · rename_i hs; exact fixColl_step p b _ _ hg ht (hb _ hs (by decide))
  · rename_i hs; exact fixColl_step p b _ _ hg ht (hb _ hs (by decide))
  · rename_i hs; exact fixColl_step p b _ _ hg ht (hb _ hs (by decide))
  · rename_i hs; exact fixColl_step p b _ _ hg ht (hb _ hs (by decide))
  · rename_i h1 h2 h3 h4 h5 h6 h7 h8 h9 h10 h11 h12
    cases hs : p.state.current.step <;> simp_all [fixedStep]

end SF.Ubjson.Parse
