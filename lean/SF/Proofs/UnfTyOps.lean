/-
  Typed targets, part 5: the memory operations of the monad in terms of `deref` / `storeAt`, the
  memory part of a context (`Ctx.mem`), allocation of cells and scratch slots.
-/
import SF.Proofs.UnfTyRel
namespace SF.Unf
open SF

/-- the memory of a context: all `deref` looks at -/
def Ctx.mem (c : Ctx) : GoVal × Array GoVal × UnfoldBuf := (c.target, c.cells, c.valueBuffer)

theorem rootVal_congr (c c' : Ctx) (h : c'.mem = c.mem) (r : Root) : rootVal c' r = rootVal c r := by
  simp only [Ctx.mem, Prod.mk.injEq] at h
  obtain ⟨h1, h2, h3⟩ := h
  cases r <;> simp [rootVal, h1, h2, h3]

theorem deref_congr (c c' : Ctx) (h : c'.mem = c.mem) (p : Path) : deref c' p = deref c p := by
  unfold deref
  rw [rootVal_congr c c' h]

theorem MemOK.congr {c c' : Ctx} {l : List LP} (h : MemOK c l) (hm : c'.mem = c.mem) : MemOK c' l :=
  h.same_deref (fun x _ => deref_congr c c' hm x.1)

theorem load_def (c : Ctx) (p : Path) :
    load (some p) c = match deref c p with
      | some v => .ok v c
      | none => .gap "load: stale pointer" := by
  rfl

theorem storeAt_sameFrame (c : Ctx) (p : Path) (w : GoVal) : SameFrame c (storeAt c p w) := by
  unfold storeAt
  split
  · rename_i rv _
    cases h : setRoot c p.root rv with
    | none => exact SameFrame.refl c
    | some c' => exact (setRoot_spec c c' p.root rv h).1
  · exact SameFrame.refl c

@[simp] theorem storeAt_unfolder (c p w) : (storeAt c p w).unfolder = c.unfolder := (storeAt_sameFrame c p w).unfolder
@[simp] theorem storeAt_ptr (c p w) : (storeAt c p w).ptr = c.ptr := (storeAt_sameFrame c p w).ptr
@[simp] theorem storeAt_value (c p w) : (storeAt c p w).value = c.value := (storeAt_sameFrame c p w).value
@[simp] theorem storeAt_key (c p w) : (storeAt c p w).key = c.key := (storeAt_sameFrame c p w).key
@[simp] theorem storeAt_idx (c p w) : (storeAt c p w).idx = c.idx := (storeAt_sameFrame c p w).idx
@[simp] theorem storeAt_baseType (c p w) : (storeAt c p w).baseType = c.baseType := (storeAt_sameFrame c p w).baseType
@[simp] theorem storeAt_env (c p w) : (storeAt c p w).env = c.env := (storeAt_sameFrame c p w).env
@[simp] theorem storeAt_whatIf (c p w) : (storeAt c p w).whatIfFixed = c.whatIfFixed := (storeAt_sameFrame c p w).whatIf
@[simp] theorem storeAt_s6 (c p w) : (storeAt c p w).s6 = c.s6 := (storeAt_sameFrame c p w).s6

/-- `*p = w` through a pointer that resolves -/
theorem store_at_ok (c : Ctx) (p : Path) (w old : GoVal) (h : deref c p = some old) :
    store (some p) w c = .ok () (storeAt c p w) := (store_spec c p w old h).1

/-! ## the invariant depends on stacks and memory only -/

theorem Inv.of_eq {D : Nat} {base : S6} {fs : List Frame} {c c' : Ctx} (h : Inv D base fs c)
    (hs : c'.s6 = c.s6) (hm : c'.mem = c.mem) : Inv D base fs c' := by
  have hvb : c'.valueBuffer = c.valueBuffer := by
    simp only [Ctx.mem, Prod.mk.injEq] at hm; exact hm.2.2
  exact ⟨hs.trans h.stacks, h.wfs, h.mem.congr hm, by rw [hvb]; exact h.nA, by rw [hvb]; exact h.nMA,
    by rw [hvb]; exact h.nMP⟩

/-! ## allocation -/

theorem deref_lt_cells (c : Ctx) (p : Path) (v : GoVal) (n : Nat) (h : deref c p = some v) (hr : p.root = .cell n) :
    n < c.cells.size := by
  unfold deref at h
  rw [hr] at h
  cases hg : c.cells[n]? with
  | none => simp [rootVal, hg] at h
  | some x => exact (Array.getElem?_eq_some_iff.mp hg).1

theorem deref_lt_arrays (c : Ctx) (p : Path) (v : GoVal) (n : Nat) (h : deref c p = some v)
    (hr : p.root = .arrays n) : n < c.valueBuffer.arrays.size := by
  unfold deref at h
  rw [hr] at h
  cases hg : c.valueBuffer.arrays[n]? with
  | none => simp [rootVal, hg] at h
  | some x => exact (Array.getElem?_eq_some_iff.mp hg).1

theorem deref_lt_mapAny (c : Ctx) (p : Path) (v : GoVal) (n : Nat) (h : deref c p = some v)
    (hr : p.root = .mapAny n) : n < c.valueBuffer.mapAny.size := by
  unfold deref at h
  rw [hr] at h
  cases hg : c.valueBuffer.mapAny[n]? with
  | none => simp [rootVal, hg] at h
  | some x => exact (Array.getElem?_eq_some_iff.mp hg).1

theorem deref_lt_mapPrimitive (c : Ctx) (p : Path) (v : GoVal) (n : Nat) (h : deref c p = some v)
    (hr : p.root = .mapPrimitive n) : n < c.valueBuffer.mapPrimitive.size := by
  unfold deref at h
  rw [hr] at h
  cases hg : c.valueBuffer.mapPrimitive[n]? with
  | none => simp [rootVal, hg] at h
  | some x => exact (Array.getElem?_eq_some_iff.mp hg).1

end SF.Unf
