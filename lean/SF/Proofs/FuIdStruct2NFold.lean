/-
  C11, direct path, NESTED struct types — FOLD side.  The description of a struct type becomes a TREE (`FT`):
  besides dropped fields, plain members and omitempty members of scalar type (FuIdStruct2Fold.lean) a field may be
    * `FT.sub nm T fs ut ds` — a plain member `nm` of a struct type `T` (named or not, `T.under = .struct fs`)
                               whose fields are described by `ds`; `ut` is the translated type (Unfold side);
    * `FT.inl T fs ds`      — an INLINED (`inline` / `squash`) field of struct type `T`: its members are spliced.
  The events `Fold.impl` delivers are computed exactly (`memEvsL`): a `sub` member is `key { … }`, an inlined
  struct contributes its members only.
-/
import SF.Proofs.FuIdStruct2Agree
namespace SF.FuId
open SF SF.Gotype SF.Gotype.Fold SF.FoldProofs

inductive FT
  | drop (p : Prim)
  | mem (nm : Bytes) (p : Prim)
  | oe (nm : Bytes) (p : Prim)
  | sub (nm : Bytes) (T : GoType) (fs : List Field) (ut : Unf.GoType) (ds : List FT)
  | inl (T : GoType) (fs : List Field) (ds : List FT)

mutual
/-- the fields `fs` are described by `ds` (`fieldKind`: the documented tag grammar) -/
def descL : List Field → List FT → Prop
  | [], [] => True
  | f :: fs, d :: ds => descI f d ∧ descL fs ds
  | _, _ => False
def descI (f : Field) : FT → Prop
  | .drop p => fieldKind f = .drop ∧ f.typ = primTy p
  | .mem nm p => fieldKind f = .plain nm ∧ f.typ = primTy p
  | .oe nm p => fieldKind f = .omitEmpty nm ∧ f.typ = primTy p
  | .sub nm T fs' _ ds' => fieldKind f = .plain nm ∧ f.typ = T ∧ T.under = .struct fs' ∧ descL fs' ds'
  | .inl T fs' ds' => fieldKind f = .inline ∧ f.typ = T ∧ T.under = .struct fs' ∧ descL fs' ds'
end

mutual
/-- one Go value per field, of the field's type -/
def valsL : List FT → List GoVal → Bool
  | [], [] => true
  | d :: ds, v :: vs => valI d v && valsL ds vs
  | _, _ => false
def valI : FT → GoVal → Bool
  | .drop p, v => hasPrim p v
  | .mem _ p, v => hasPrim p v
  | .oe _ p, v => hasPrim p v
  | .sub _ _ _ _ ds, .struct vs => valsL ds vs
  | .inl _ _ ds, .struct vs => valsL ds vs
  | _, _ => false
end

mutual
/-- the compiled field folders -/
def foldersL : List FT → Nat → List ReFold
  | [], _ => []
  | d :: r, i => (folderI d i).toList ++ foldersL r (i + 1)
def folderI : FT → Nat → Option ReFold
  | .drop _, _ => none
  | .mem nm p, i => some (.field nm i (.prim p))
  | .oe nm p, i => some (omitFolder nm i p)
  | .sub nm _ fs _ ds, i =>
    some (.field nm i (.structFold (foldersL ds 0) (structFoldLen fs (foldersL ds 0).length)))
  | .inl _ _ ds, i => some (.fieldInline i (.fieldsFold (foldersL ds 0)))
end

mutual
/-- the events of the members -/
def memEvsL : List FT → List GoVal → List XEv
  | d :: ds, v :: vs => memEvsI d v ++ memEvsL ds vs
  | _, _ => []
def memEvsI : FT → GoVal → List XEv
  | .drop _, _ => []
  | .mem nm p, v => [.ev (.key nm), .ev (evOfPrim p v)]
  | .oe nm p, v => if isEmptyP p v then [] else [.ev (.key nm), .ev (evOfPrim p v)]
  | .sub nm _ fs _ ds, .struct vs =>
    .ev (.key nm) :: .ev (.objStart (structFoldLen fs (foldersL ds 0).length) BT.any) :: memEvsL ds vs ++ [.ev .objEnd]
  | .inl _ _ ds, .struct vs => memEvsL ds vs
  | _, _ => []
end

/-! ## depth of types -/

theorem tdepth_struct_le {sn : List String} {T : GoType} {fs : List Field} (hg : goodT sn T = true)
    (hu : T.under = .struct fs) : tdepthFs fs + 1 ≤ tdepth T := by
  cases T <;> simp only [GoType.under] at hu <;> first | (cases hu; done) | skip
  · cases hu; simp [tdepth]
  · subst hu; simp only [tdepth]; omega
  · simp [goodT] at hg

theorem goodFs_cons {sn : List String} {f : Field} {fs : List Field} (h : goodFs sn (f :: fs) = true) :
    goodT sn f.typ = true ∧ inlineIfaceF f = false ∧ goodFs sn fs = true := by
  obtain ⟨n, t, tag, a⟩ := f
  simp only [goodFs, goodF, Bool.and_eq_true, Bool.not_eq_true'] at h
  exact ⟨h.1.1, h.1.2, h.2⟩

theorem tdepthFs_cons (f : Field) (fs : List Field) : tdepthFs (f :: fs) = max (tdepth f.typ) (tdepthFs fs) := by
  obtain ⟨n, t, tag, a⟩ := f
  rfl

theorem good_struct_fields {sn : List String} {T : GoType} {fs : List Field} (hg : goodT sn T = true)
    (hu : T.under = .struct fs) : goodFs (snU sn T) fs = true := by
  have := (good_under hg).1
  rw [hu] at this
  simpa [goodT] using this

/-! ## compile -/

theorem filterMap_toList (x : Option ReFold) (fvs : List (Option ReFold)) :
    (x :: fvs).filterMap id = x.toList ++ fvs.filterMap id := by
  cases x <;> simp

mutual
theorem buildL (o : FoldOpts) : ∀ (fs : List Field) (ds : List FT), descL fs ds → ∀ (sn : List String) (op : Open)
    (cf i : Nat), goodFs sn fs = true → OpIn op sn → tdepthFs fs ≤ 1000 → 4 * tdepthFs fs + 2 ≤ cf →
    ∃ fvs, (fs.zipIdx i).mapM (fun (x : Field × Nat) => buildFieldFold cf o op x.1 x.2) = .ok fvs ∧
      fvs.filterMap id = foldersL ds i
  | [], [], _, _, _, _, _, _, _, _, _ => ⟨[], rfl, rfl⟩
  | f :: fs, d :: ds, h, sn, op, cf, i, hg, hop, hd, hc => by
    simp only [descL] at h
    obtain ⟨hgf, hif, hgs⟩ := goodFs_cons hg
    rw [tdepthFs_cons] at hd hc
    obtain ⟨fvs, h1, h2⟩ := buildL o fs ds h.2 sn op cf (i + 1) hgs hop (by omega) (by omega)
    have h0 := buildI o f d h.1 sn op cf i hgf hif hop (by omega) (by omega)
    rw [List.zipIdx_cons, mapM_cons, h1]
    simp only [h0]
    exact ⟨folderI d i :: fvs, rfl, by rw [filterMap_toList, h2, foldersL]⟩
  | [], _ :: _, h, _, _, _, _, _, _, _, _ => by simp [descL] at h
  | _ :: _, [], h, _, _, _, _, _, _, _, _ => by simp [descL] at h
theorem buildI (o : FoldOpts) : ∀ (f : Field) (d : FT), descI f d → ∀ (sn : List String) (op : Open) (cf i : Nat),
    goodT sn f.typ = true → inlineIfaceF f = false → OpIn op sn → tdepth f.typ ≤ 1000 → 4 * tdepth f.typ + 2 ≤ cf →
    buildFieldFold cf o op f i = .ok (folderI d i)
  | f, .drop p, h, sn, op, cf, i, hg, hif, hop, hd, hc => by
    obtain ⟨cf, rfl⟩ : ∃ k, cf = k + 1 := ⟨cf - 1, by omega⟩
    simp only [descI] at h
    rw [buildFieldFold_eq]
    simp only [h.1, folderI]
  | f, .mem nm p, h, sn, op, cf, i, hg, hif, hop, hd, hc => by
    obtain ⟨cf, rfl⟩ : ∃ k, cf = k + 1 + 1 := ⟨cf - 2, by omega⟩
    simp only [descI] at h
    rw [buildFieldFold_eq]
    simp only [h.1, h.2, compile_prim, folderI]
  | f, .oe nm p, h, sn, op, cf, i, hg, hif, hop, hd, hc => by
    obtain ⟨cf, rfl⟩ : ∃ k, cf = k + 1 + 1 := ⟨cf - 2, by omega⟩
    simp only [descI] at h
    rw [buildFieldFold_eq]
    simp only [h.1, h.2, bt_prim, compile_prim, omit_sel, folderI]
  | f, .sub nm T fs' ut ds', h, sn, op, cf, i, hg, hif, hop, hd, hc => by
    simp only [descI] at h
    obtain ⟨hk, ht, hu, hdesc⟩ := h
    rw [ht] at hg hd hc
    have hdep := tdepth_struct_le hg hu
    obtain ⟨cf, rfl⟩ : ∃ k, cf = k + 1 + 1 + 1 := ⟨cf - 3, by omega⟩
    obtain ⟨fvs, h1, h2⟩ := buildL o fs' ds' hdesc (snU sn T) (op.enter T) cf 0 (good_struct_fields hg hu)
      (OpIn_enter hop T) (by omega) (by omega)
    rw [buildFieldFold_eq]
    simp only [hk, ht]
    rw [grf_struct (cf + 1) o op hg hop hu, grfs_eq]
    have : fs'.zipIdx = fs'.zipIdx 0 := rfl
    rw [this, h1]
    simp only [h2, Bool.false_eq_true, if_false, folderI]
  | f, .inl T fs' ds', h, sn, op, cf, i, hg, hif, hop, hd, hc => by
    simp only [descI] at h
    obtain ⟨hk, ht, hu, hdesc⟩ := h
    rw [ht] at hg hd hc
    have hdep := tdepth_struct_le hg hu
    obtain ⟨cf, rfl⟩ : ∃ k, cf = k + 1 + 1 + 1 + 1 := ⟨cf - 4, by omega⟩
    obtain ⟨fvs, h1, h2⟩ := buildL o fs' ds' hdesc (snU sn T) (enterInl op T) cf 0 (good_struct_fields hg hu)
      (OpIn_enterInl hop T) (by omega) (by omega)
    have hbt : baseType f.typ = (0, T) := by
      rw [ht, baseType_good hg hd, stripPtr_of_under_nonptr hg (fun e he => by rw [hu] at he; cases he)]
    rw [buildFieldFold_eq]
    simp only [hk]
    rw [bffi_good (cf + 1 + 1) o op f i (by rw [hbt]; exact hg) hop]
    simp only [hbt]
    rw [ffgi_good (cf + 1) o (enterInl op T) hg]
    simp only [hu]
    rw [grfs_eq]
    have : fs'.zipIdx = fs'.zipIdx 0 := rfl
    rw [this, h1]
    simp only [h2, if_true, folderI]
    rfl
end

theorem compile_structN (o : FoldOpts) (S : GoType) (fs : List Field) (ds : List FT)
    (hg : goodT [] S = true) (hu : S.under = .struct fs) (hd : descL fs ds) (hdep : tdepth S ≤ 498) :
    getReflectFold compileFuel o {} S =
      .ok (.structFold (foldersL ds 0) (structFoldLen fs (foldersL ds 0).length)) := by
  show getReflectFold (1999 + 1) o {} S = _
  rw [grf_struct 1999 o {} hg (OpIn_empty []) hu]
  show getReflectFoldStruct (1998 + 1) o _ fs false = _
  rw [grfs_eq]
  have hdp := tdepth_struct_le hg hu
  obtain ⟨fvs, h1, h2⟩ := buildL o fs ds hd (snU [] S) (Open.enter {} S) 1998 0 (good_struct_fields hg hu)
    (OpIn_enter (OpIn_empty []) S) (by omega) (by omega)
  have : fs.zipIdx = fs.zipIdx 0 := rfl
  rw [this, h1]
  simp only [h2, Bool.false_eq_true, if_false]

/-! ## run -/

theorem seqM_one {α : Type} (step : St → α → St × Res) (s : St) (x : α) (l : List α) :
    seqM step s ([x] ++ l) = match step s x with | (s, .ok) => seqM step s l | r => r := rfl

theorem valsL_cons {d : FT} {ds : List FT} {v : GoVal} {vs : List GoVal} (h : valsL (d :: ds) (v :: vs) = true) :
    valI d v = true ∧ valsL ds vs = true := by
  simpa [valsL] using h

mutual
theorem runL (o : FoldOpts) : ∀ (fs : List Field) (ds : List FT), descL fs ds → ∀ (vs : List GoVal), valsL ds vs = true →
    ∀ (rf : Nat) (S : GoType) (fsAll : List Field) (vsAll : List GoVal) (i : Nat), S.under = .struct fsAll →
      fsAll.drop i = fs → vsAll.drop i = vs → goodFs sn fs = true → 2 * tdepthFs fs + 2 ≤ rf →
      ∀ s : St, s.failAt = none →
      ∃ s', seqM (fun s fv => run rf o .user fv ⟨S, .struct vsAll⟩ s) s (foldersL ds i) = (s', .ok) ∧
        s'.evs = (memEvsL ds vs).reverse ++ s.evs ∧ s'.failAt = none
  | [], [], _, [], _, _, _, _, _, _, _, _, _, _, _, s, hs => ⟨s, rfl, by simp [memEvsL], hs⟩
  | f :: fs, d :: ds, h, v :: vs, hv, rf, S, fsAll, vsAll, i, hu, hfs, hvs, hg, hr, s, hs => by
    simp only [descL] at h
    obtain ⟨hvi, hvr⟩ := valsL_cons hv
    obtain ⟨hfi, hfr⟩ := drop_head hfs
    obtain ⟨hvi', hvr'⟩ := drop_head hvs
    obtain ⟨hgf, hif, hgs⟩ := goodFs_cons hg
    rw [tdepthFs_cons] at hr
    have hfield : RV.field ⟨S, .struct vsAll⟩ i = some ⟨f.typ, v⟩ := by
      simp only [RV.field, hu, hfi, hvi']
    cases hfo : folderI d i with
    | none =>
      have hev : memEvsI d v = [] := by
        cases d <;> simp [folderI] at hfo
        rfl
      obtain ⟨s', h1, h2, h3⟩ := runL o fs ds h.2 vs hvr rf S fsAll vsAll (i + 1) hu hfr hvr' hgs (by omega) s hs
      refine ⟨s', ?_, ?_, h3⟩
      · rw [foldersL, hfo]; exact h1
      · rw [h2, memEvsL, hev]; rfl
    | some fv =>
      obtain ⟨s1, hstep, hev1, hf1⟩ := runI o f d h.1 v hvi rf S vsAll i fv hfo hfield hgf (by omega) s hs
      obtain ⟨s', h1, h2, h3⟩ := runL o fs ds h.2 vs hvr rf S fsAll vsAll (i + 1) hu hfr hvr' hgs (by omega) s1 hf1
      refine ⟨s', ?_, ?_, h3⟩
      · rw [foldersL, hfo]
        show seqM _ s ([fv] ++ _) = _
        rw [seqM_one]
        simp only [hstep]
        exact h1
      · rw [h2, hev1, memEvsL]
        simp
  | [], _ :: _, h, _, _, _, _, _, _, _, _, _, _, _, _, _, _ => by simp [descL] at h
  | _ :: _, [], h, _, _, _, _, _, _, _, _, _, _, _, _, _, _ => by simp [descL] at h
  | [], [], _, _ :: _, hv, _, _, _, _, _, _, _, _, _, _, _, _ => by simp [valsL] at hv
  | _ :: _, _ :: _, _, [], hv, _, _, _, _, _, _, _, _, _, _, _, _ => by simp [valsL] at hv
theorem runI (o : FoldOpts) : ∀ (f : Field) (d : FT), descI f d → ∀ (v : GoVal), valI d v = true →
    ∀ (rf : Nat) (S : GoType) (vsAll : List GoVal) (i : Nat) (fv : ReFold), folderI d i = some fv →
      RV.field ⟨S, .struct vsAll⟩ i = some ⟨f.typ, v⟩ → goodT sn f.typ = true → 2 * tdepth f.typ + 2 ≤ rf →
      ∀ s : St, s.failAt = none →
      ∃ s', run rf o .user fv ⟨S, .struct vsAll⟩ s = (s', .ok) ∧
        s'.evs = (memEvsI d v).reverse ++ s.evs ∧ s'.failAt = none
  | f, .drop p, h, v, hv, rf, S, vsAll, i, fv, hfo, hfield, hg, hr, s, hs => by simp [folderI] at hfo
  | f, .mem nm p, h, v, hv, rf, S, vsAll, i, fv, hfo, hfield, hg, hr, s, hs => by
    obtain ⟨rf, rfl⟩ : ∃ k, rf = k + 2 := ⟨rf - 2, by omega⟩
    simp only [descI] at h
    simp only [folderI, Option.some.injEq] at hfo
    subst hfo
    rw [h.2] at hfield
    obtain ⟨s', h1, h2, h3⟩ := run_member rf o S vsAll nm i p v hv hfield s hs
    exact ⟨s', h1, by rw [h2]; simp [memEvsI], h3⟩
  | f, .oe nm p, h, v, hv, rf, S, vsAll, i, fv, hfo, hfield, hg, hr, s, hs => by
    obtain ⟨rf, rfl⟩ : ∃ k, rf = k + 2 := ⟨rf - 2, by omega⟩
    simp only [descI] at h
    simp only [folderI, Option.some.injEq] at hfo
    subst hfo
    rw [h.2] at hfield
    obtain ⟨s', h1, h2, h3⟩ := run_omit rf o S vsAll nm i p v hv hfield s hs
    refine ⟨s', h1, ?_, h3⟩
    rw [h2]
    by_cases he : isEmptyP p v = true <;> simp [memEvsI, he]
  | f, .sub nm T fs' ut ds', h, v, hv, rf, S, vsAll, i, fv, hfo, hfield, hg, hr, s, hs => by
    simp only [descI] at h
    obtain ⟨hk, ht, hu', hdesc⟩ := h
    simp only [folderI, Option.some.injEq] at hfo
    subst hfo
    rw [ht] at hfield hg hr
    have hdep := tdepth_struct_le hg hu'
    obtain ⟨rf, rfl⟩ : ∃ k, rf = k + 1 + 1 := ⟨rf - 2, by omega⟩
    cases v with
    | struct vs' =>
      simp only [valI] at hv
      obtain ⟨s1, he1, hev1, hf1⟩ := emit_ev' s (.key nm) hs
      obtain ⟨s2, he2, hev2, hf2⟩ :=
        emit_ev' s1 (.objStart (structFoldLen fs' (foldersL ds' 0).length) BT.any) hf1
      obtain ⟨s3, hseq, hev3, hf3⟩ := runL (sn := snU sn T) o fs' ds' hdesc vs' hv rf T fs' vs' 0 hu' rfl rfl
        (good_struct_fields hg hu') (by omega) s2 hf2
      obtain ⟨s4, he4, hev4, hf4⟩ := emit_ev' s3 .objEnd hf3
      refine ⟨s4, ?_, ?_, hf4⟩
      · rw [run_field, he1]
        simp only [hfield]
        rw [run_structFold, he2]
        simp only [hseq, he4]
      · rw [hev4, hev3, hev2, hev1]
        simp [memEvsI]
    | _ => simp [valI] at hv
  | f, .inl T fs' ds', h, v, hv, rf, S, vsAll, i, fv, hfo, hfield, hg, hr, s, hs => by
    simp only [descI] at h
    obtain ⟨hk, ht, hu', hdesc⟩ := h
    simp only [folderI, Option.some.injEq] at hfo
    subst hfo
    rw [ht] at hfield hg hr
    have hdep := tdepth_struct_le hg hu'
    obtain ⟨rf, rfl⟩ : ∃ k, rf = k + 1 + 1 := ⟨rf - 2, by omega⟩
    cases v with
    | struct vs' =>
      simp only [valI] at hv
      obtain ⟨s3, hseq, hev3, hf3⟩ := runL (sn := snU sn T) o fs' ds' hdesc vs' hv rf T fs' vs' 0 hu' rfl rfl
        (good_struct_fields hg hu') (by omega) s hs
      refine ⟨s3, ?_, ?_, hf3⟩
      · rw [run_fieldInline]
        simp only [hfield]
        rw [run_fieldsFold]
        exact hseq
      · rw [hev3]
        simp [memEvsI]
    | _ => simp [valI] at hv
end

/-- NESTED STRUCT, fold side -/
theorem impl_structN (o : FoldOpts) (hfail : o.failAt = none) (S : GoType) (fs : List Field) (ds : List FT)
    (vs : List GoVal) (hg : goodT [] S = true) (hu : S.under = .struct fs) (hd : descL fs ds)
    (hv : valsL ds vs = true) (hdep : tdepth S ≤ 498) :
    impl o S (.struct vs) =
      { evs := .ev (.objStart (structFoldLen fs (foldersL ds 0).length) BT.any) :: memEvsL ds vs ++ [.ev .objEnd],
        res := .ok } := by
  obtain ⟨s1, he1, hev1, hf1⟩ := emit_ev' (st0 o) (.objStart (structFoldLen fs (foldersL ds 0).length) BT.any) hfail
  have hdp := tdepth_struct_le hg hu
  obtain ⟨s2, hseq, hev2, hf2⟩ := runL (sn := snU [] S) o fs ds hd vs hv 99997 S fs vs 0 hu rfl rfl
    (good_struct_fields hg hu) (by omega) s1 hf1
  obtain ⟨s3, he3, hev3, _⟩ := emit_ev' s2 .objEnd hf2
  have : foldInterfaceValue runFuel o .user (.iface S (.struct vs)) (st0 o) = (s3, .ok) := by
    show foldInterfaceValue (99999 + 1) o .user _ _ = _
    rw [fiv_good 99999 o .user _ _ hg, fastSel_struct hg hu]
    show foldAnyReflect (99998 + 1) o .user _ _ = _
    rw [foldAnyReflect_eq]
    simp only [compile_structN o S fs ds hg hu hd hdep]
    show run (99997 + 1) o .user _ _ _ = _
    rw [run_structFold, he1]
    simp only [hseq, he3]
  rw [impl_of o S _ _ _ (by rw [hu]; simp) this, hev3, hev2, hev1]
  simp [st0]

end SF.FuId
