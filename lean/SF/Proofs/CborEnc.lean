/-
  The cborl encoder mirror (SF/Cbor/Enc.lean) writes, for the events of every
  contract-conforming tree with in-range numbers, exactly the wire form of a well-formed
  CBOR item with the same value, and leaves its length stack as it found it.
-/
import SF.Cbor.Enc
import SF.Proofs.CborBits
import SF.Proofs.Tree
import SF.Proofs.CborTree
namespace SF.Cbor.Enc
open SF SF.Cbor SF.Cbor.Cst

/-- the width `head` chooses -/
def minW (n : Nat) : W :=
  if n < 24 then .imm else if n ≤ 255 then .w1 else if n ≤ 65535 then .w2
  else if n ≤ 4294967295 then .w4 else .w8

theorem minW_fits (n : Nat) (h : n < 18446744073709551616) : (minW n).fits n = true := by
  unfold minW
  split
  · simp [W.fits]; omega
  · split
    · simp [W.fits]; omega
    · split
      · simp [W.fits]; omega
      · split
        · simp [W.fits]; omega
        · simp [W.fits]; omega

theorem or_ib : ∀ (m : Fin 8) (a : Fin 32), (UInt8.ofNat (m.val * 32) ||| UInt8.ofNat a.val) = ib m.val a.val := by
  decide

/-- the encoder's head equals the specification's head at the minimal width -/
theorem head_eq_cst (m : Nat) (hm : m < 8) (n : Nat) :
    Enc.head (UInt8.ofNat (m * 32)) n = Cst.head m (minW n) n := by
  have key : ∀ a, a < 32 → (UInt8.ofNat (m * 32) ||| UInt8.ofNat a) = ib m a :=
    fun a ha => or_ib ⟨m, hm⟩ ⟨a, ha⟩
  have k24 : (UInt8.ofNat (m * 32) ||| len8b) = ib m 24 := key 24 (by omega)
  have k25 : (UInt8.ofNat (m * 32) ||| len16b) = ib m 25 := key 25 (by omega)
  have k26 : (UInt8.ofNat (m * 32) ||| len32b) = ib m 26 := key 26 (by omega)
  have k27 : (UInt8.ofNat (m * 32) ||| len64b) = ib m 27 := key 27 (by omega)
  unfold Enc.head minW
  split
  · rename_i h
    simp only [Cst.head, W.ai, W.bytes, beBytes, List.nil_append]
    rw [key n (by omega)]; rfl
  · split
    · rename_i h1 h2
      simp only [Cst.head, W.ai, W.bytes, beBytes, List.nil_append, List.cons_append]
      rw [k24, Nat.mod_eq_of_lt (by omega)]; rfl
    · split
      · simp only [Cst.head, W.ai, W.bytes]
        rw [k25]; rfl
      · split
        · simp only [Cst.head, W.ai, W.bytes]
          rw [k26]; rfl
        · simp only [Cst.head, W.ai, W.bytes]
          rw [k27]; rfl

end SF.Cbor.Enc

namespace SF.Cbor.Enc
open SF SF.Cbor SF.Cbor.Cst

/-! ## the item the encoder writes for a tree -/

mutual
def toItem : ETree → Item
  | .null => .null
  | .bool b => if b then .tru else .fals
  | .str s => .text (minW s.length) s
  | .num k v =>
    if k.signed && decide (v < 0) then .nint (minW (-1 - v).toNat) (-1 - v).toNat
    else .uint (minW v.toNat) v.toNat
  | .f32 b => .f32 b
  | .f64 b => .f64 b
  | .arr len _ xs => if len < 0 then .arrIndef (toItems xs) else .arr (minW xs.length) (toItems xs)
  | .obj len _ ms => if len < 0 then .mapIndef (toMems ms) else .map (minW ms.length) (toMems ms)
def toItems : List ETree → List Item
  | [] => []
  | x :: xs => toItem x :: toItems xs
def toMems : List (Bytes × ETree) → List (W × Bytes × Item)
  | [] => []
  | (k, v) :: ms => (minW k.length, k, toItem v) :: toMems ms
end

/- numbers lie in the range of their kind (as every Go value does) and all lengths are
below 2^63 (as every Go length is) -/
mutual
def small : ETree → Bool
  | .num k v => k.inRange v
  | .str s => decide (s.length < 9223372036854775808)
  | .arr _ _ xs => decide (xs.length < 9223372036854775808) && smallList xs
  | .obj _ _ ms => decide (ms.length < 9223372036854775808) && smallMems ms
  | _ => true
def smallList : List ETree → Bool
  | [] => true
  | x :: xs => small x && smallList xs
def smallMems : List (Bytes × ETree) → Bool
  | [] => true
  | (k, v) :: ms => decide (k.length < 9223372036854775808) && small v && smallMems ms
end

def Enc.emit (s : Enc) (b : Bytes) : Enc := { s with w := { s.w with out := s.w.out ++ b } }

@[simp] theorem emit_length (s : Enc) (b : Bytes) : (s.emit b).length = s.length := rfl
@[simp] theorem emit_failFrom (s : Enc) (b : Bytes) : (s.emit b).w.failFrom = s.w.failFrom := rfl
theorem emit_emit (s : Enc) (a b : Bytes) : (s.emit a).emit b = s.emit (a ++ b) := by
  simp [Enc.emit, List.append_assoc]
@[simp] theorem emit_nil (s : Enc) : s.emit [] = s := by simp [Enc.emit]

theorem write_ok {s : Enc} (hf : s.w.failFrom = none) (b : Bytes) :
    s.w.write b = ((s.emit b).w, true) := by
  simp [Writer.write, hf, Enc.emit]

/-- a list of pure writes on a never-failing writer -/
theorem exec_writes {s : Enc} (hf : s.w.failFrom = none) (bs : List Bytes) :
    exec s (bs.map Act.write) = (s.emit bs.flatten, true) := by
  induction bs generalizing s with
  | nil => simp [exec]
  | cons b bs ih =>
    simp only [List.map_cons, exec, write_ok hf]
    have : ({ s with w := (s.emit b).w } : Enc) = s.emit b := rfl
    rw [this, ih (by simpa using hf), emit_emit]
    simp

theorem execEvs_cons (s : Enc) (e : Ev) (es : List Ev) :
    execEvs s (e :: es) =
      match exec s (acts s.length (.ev e)) with
      | (s', true) => execEvs s' es
      | (s', false) => (s', false) := rfl

theorem num_wire (k : NumKind) (v : Int) (h : k.inRange v = true) :
    (if k.signed then [intHead v] else [head majorUint v.toNat]) = [(toItem (.num k v)).wire] := by
  have h0 : majorUint = UInt8.ofNat (0 * 32) := by decide
  have h1 : majorNeg = UInt8.ofNat (1 * 32) := by decide
  by_cases hs : k.signed = true
  · simp only [hs, if_true, intHead, toItem, Bool.true_and]
    by_cases hv : v < 0
    · simp only [hv, decide_true, if_true, Item.wire]
      rw [h1, head_eq_cst 1 (by omega)]
    · simp only [hv, decide_false, if_false, Item.wire, Bool.false_eq_true]
      rw [h0, head_eq_cst 0 (by omega)]
  · have hs' : k.signed = false := by simpa using hs
    simp only [hs', Bool.false_eq_true, if_false, toItem, Bool.false_and, Item.wire]
    rw [h0, head_eq_cst 0 (by omega)]

end SF.Cbor.Enc

namespace SF.Cbor.Enc
open SF SF.Cbor SF.Cbor.Cst ETree

theorem toItems_length (xs : List ETree) : (toItems xs).length = xs.length := by
  induction xs with
  | nil => rfl
  | cons x xs ih => simp [toItems, ih]
theorem toMems_length (ms : List (Bytes × ETree)) : (toMems ms).length = ms.length := by
  induction ms with
  | nil => rfl
  | cons m ms ih => obtain ⟨k, v⟩ := m; simp [toMems, ih]

theorem push_pop (ls : LenStack) (l : Int) : (ls.push l).pop = (ls, l) := by
  cases ls; simp [LenStack.push, LenStack.pop]

/-- a basic scalar event: its writes, then the rest -/
theorem execEvs_scalar {s : Enc} (hf : s.w.failFrom = none) (e : Ev) (bs : List Bytes)
    (ha : ∀ ls, acts ls (.ev e) = bs.map Act.write) (more : List Ev) :
    execEvs s (e :: more) = execEvs (s.emit bs.flatten) more := by
  rw [execEvs_cons, ha, exec_writes hf]

theorem optLen_indef (major : UInt8) (len : Int) (h : len < 0) : optLen major len = [major ||| lenIndef] := by
  simp [optLen, h]

theorem optLen_def (m : Nat) (hm : m < 8) (len : Int) (n : Nat) (h : len = n) :
    optLen (UInt8.ofNat (m * 32)) len = Cst.head m (minW n) n := by
  subst h
  have : ¬ ((n : Int) < 0) := by omega
  simp only [optLen, this, if_false, Int.toNat_natCast]
  exact head_eq_cst m hm n

mutual
/-- ENCODER REFINEMENT: the events of a contract-conforming, in-range tree make the encoder
write exactly the wire form of `toItem t`; length stack and writer are otherwise unchanged -/
theorem enc_tree (t : ETree) (hw : t.wf = true) (hs : small t = true) (s : Enc)
    (hf : s.w.failFrom = none) (more : List Ev) :
    execEvs s (t.events ++ more) = execEvs (s.emit (toItem t).wire) more := by
  match t with
  | .null =>
    simp only [events, List.cons_append, List.nil_append]
    rw [execEvs_scalar hf .null [[codeNull]] (fun _ => rfl)]; rfl
  | .bool true =>
    simp only [events, List.cons_append, List.nil_append]
    rw [execEvs_scalar hf (.bool true) [[codeTrue]] (fun _ => rfl)]; rfl
  | .bool false =>
    simp only [events, List.cons_append, List.nil_append]
    rw [execEvs_scalar hf (.bool false) [[codeFalse]] (fun _ => rfl)]; rfl
  | .str sv =>
    simp only [events, List.cons_append, List.nil_append]
    rw [execEvs_scalar hf (.str sv) [head majorText sv.length, sv] (fun _ => rfl)]
    have hh : ∀ n, head majorText n = Cst.head 3 (minW n) n := fun n => by
      have h3 : majorText = UInt8.ofNat (3 * 32) := by decide
      rw [h3]; exact head_eq_cst 3 (by omega) n
    simp only [toItem, Item.wire, List.flatten_cons, List.flatten_nil, List.append_nil, hh]
  | .num k v =>
    simp only [small] at hs
    simp only [events, List.cons_append, List.nil_append]
    have hact : ∀ ls, acts ls (.ev (.num k v)) =
        (if k.signed then [intHead v] else [head majorUint v.toNat]).map Act.write := by
      intro ls; simp only [acts, scalarActs]; split <;> rfl
    rw [execEvs_scalar hf (.num k v) _ hact, num_wire k v hs]
    simp
  | .f32 b =>
    simp only [events, List.cons_append, List.nil_append]
    rw [execEvs_scalar hf (.f32 b) [f32Bytes b] (fun _ => rfl)]
    simp [toItem, Item.wire, f32Bytes, codeSingleFloat]
  | .f64 b =>
    simp only [events, List.cons_append, List.nil_append]
    rw [execEvs_scalar hf (.f64 b) [f64Bytes b] (fun _ => rfl)]
    simp [toItem, Item.wire, f64Bytes, codeDoubleFloat]
  | .arr len bt xs =>
    simp only [wf, Bool.and_eq_true] at hw
    simp only [small, Bool.and_eq_true, decide_eq_true_eq] at hs
    simp only [events, List.cons_append, List.append_assoc]
    rw [execEvs_cons]
    have hstart : exec s (acts s.length (.ev (.arrStart len bt))) =
        ({ (s.emit (optLen majorArr len)) with length := s.length.push len }, true) := by
      simp only [acts, exec, write_ok hf]
    simp only [hstart]
    rw [enc_list xs bt hw.2 hs.2 _ (by simpa using hf)]
    rw [execEvs_cons]
    have hm : majorArr = UInt8.ofNat (4 * 32) := by decide
    by_cases hl : len < 0
    · have hend : ∀ (s' : Enc), s'.w.failFrom = none → s'.length = s.length.push len →
          exec s' (acts s'.length (.ev .arrEnd)) = ({ (s'.emit [codeBreak]) with length := s.length }, true) := by
        intro s' hf' hl'
        simp only [acts, hl', push_pop, hl, if_true, exec, write_ok hf']
      rw [hend _ (by simpa using hf) rfl]
      simp only [toItem, hl, if_true, Item.wire, optLen_indef _ _ hl]
      congr 1
      simp [Enc.emit, List.append_assoc]
      decide
    · have hend : ∀ (s' : Enc), s'.length = s.length.push len →
          exec s' (acts s'.length (.ev .arrEnd)) = ({ s' with length := s.length }, true) := by
        intro s' hl'
        simp only [acts, hl', push_pop, hl, if_false, exec]
      rw [hend _ rfl]
      have hlen : len = (xs.length : Int) := by
        have := hw.1
        simp only [lenOkFor, Bool.or_eq_true, beq_iff_eq] at this
        rcases this with h | h
        · omega
        · exact h
      simp only [toItem, hl, if_false, Item.wire, hm, optLen_def 4 (by omega) len xs.length hlen]
      congr 1
      simp [Enc.emit, List.append_assoc, toItems_length]
  | .obj len bt ms =>
    simp only [wf, Bool.and_eq_true] at hw
    simp only [small, Bool.and_eq_true, decide_eq_true_eq] at hs
    simp only [events, List.cons_append, List.append_assoc]
    rw [execEvs_cons]
    have hstart : exec s (acts s.length (.ev (.objStart len bt))) =
        ({ (s.emit (optLen majorMap len)) with length := s.length.push len }, true) := by
      simp only [acts, exec, write_ok hf]
    simp only [hstart]
    rw [enc_mems ms bt hw.2 hs.2 _ (by simpa using hf)]
    rw [execEvs_cons]
    have hm : majorMap = UInt8.ofNat (5 * 32) := by decide
    by_cases hl : len < 0
    · have hend : ∀ (s' : Enc), s'.w.failFrom = none → s'.length = s.length.push len →
          exec s' (acts s'.length (.ev .objEnd)) = ({ (s'.emit [codeBreak]) with length := s.length }, true) := by
        intro s' hf' hl'
        simp only [acts, hl', push_pop, hl, if_true, exec, write_ok hf']
      rw [hend _ (by simpa using hf) rfl]
      simp only [toItem, hl, if_true, Item.wire, optLen_indef _ _ hl]
      congr 1
      simp [Enc.emit, List.append_assoc]
      decide
    · have hend : ∀ (s' : Enc), s'.length = s.length.push len →
          exec s' (acts s'.length (.ev .objEnd)) = ({ s' with length := s.length }, true) := by
        intro s' hl'
        simp only [acts, hl', push_pop, hl, if_false, exec]
      rw [hend _ rfl]
      have hlen : len = (ms.length : Int) := by
        have := hw.1
        simp only [lenOkFor, Bool.or_eq_true, beq_iff_eq] at this
        rcases this with h | h
        · omega
        · exact h
      simp only [toItem, hl, if_false, Item.wire, hm, optLen_def 5 (by omega) len ms.length hlen]
      congr 1
      simp [Enc.emit, List.append_assoc, toMems_length]

theorem enc_list (xs : List ETree) (bt : Nat) (hw : wfList bt xs = true) (hs : smallList xs = true)
    (s : Enc) (hf : s.w.failFrom = none) (more : List Ev) :
    execEvs s (eventsList xs ++ more) = execEvs (s.emit (wireList (toItems xs))) more := by
  match xs with
  | [] => simp [ETree.eventsList, toItems, wireList]
  | x :: xs' =>
    simp only [wfList, Bool.and_eq_true] at hw
    simp only [smallList, Bool.and_eq_true] at hs
    simp only [ETree.eventsList, List.append_assoc, toItems, wireList]
    rw [enc_tree x hw.1.2 hs.1 s hf, enc_list xs' bt hw.2 hs.2 _ (by simpa using hf), emit_emit]

theorem enc_mems (ms : List (Bytes × ETree)) (bt : Nat) (hw : wfMems bt ms = true)
    (hs : smallMems ms = true) (s : Enc) (hf : s.w.failFrom = none) (more : List Ev) :
    execEvs s (eventsMems ms ++ more) = execEvs (s.emit (wireMems (toMems ms))) more := by
  match ms with
  | [] => simp [ETree.eventsMems, toMems, wireMems]
  | (k, v) :: ms' =>
    simp only [wfMems, Bool.and_eq_true] at hw
    simp only [smallMems, Bool.and_eq_true, decide_eq_true_eq] at hs
    simp only [ETree.eventsMems, List.cons_append, List.append_assoc, toMems, wireMems]
    rw [execEvs_scalar hf (.key k) [head majorText k.length, k] (fun _ => rfl)]
    rw [enc_tree v hw.1.2 hs.1.2 _ (by simpa using hf), enc_mems ms' bt hw.2 hs.2 _ (by simpa using hf)]
    have hh : ∀ n, head majorText n = Cst.head 3 (minW n) n := fun n => by
      have h3 : majorText = UInt8.ofNat (3 * 32) := by decide
      rw [h3]; exact head_eq_cst 3 (by omega) n
    simp only [emit_emit, List.flatten_cons, List.flatten_nil, List.append_nil, hh, List.append_assoc]
end

end SF.Cbor.Enc

namespace SF.Cbor.Enc
open SF SF.Cbor SF.Cbor.Cst ETree

theorem minW_fits' (n : Nat) (h : n < 9223372036854775808) : (minW n).fits n = true :=
  minW_fits n (by omega)

mutual
theorem toItem_ok (t : ETree) (hs : small t = true) : (toItem t).ok = true := by
  match t with
  | .null | .f32 _ | .f64 _ => simp [toItem, Item.ok]
  | .bool b => cases b <;> simp [toItem, Item.ok]
  | .str sv =>
    simp only [small, decide_eq_true_eq] at hs
    simp [toItem, Item.ok, minW_fits' _ hs, hs]
  | .num k v =>
    simp only [small] at hs
    have hlo : k.lo ≤ v := by simp [NumKind.inRange] at hs; exact hs.1
    have hhi : v ≤ k.hi := by simp [NumKind.inRange] at hs; exact hs.2
    simp only [toItem]
    split
    · rename_i h
      simp only [Bool.and_eq_true, decide_eq_true_eq] at h
      have : (-1 - v).toNat < 9223372036854775808 := by
        have : k.lo ≥ -9223372036854775808 := by cases k <;> simp [NumKind.lo]
        omega
      simp [Item.ok, minW_fits' _ this, this]
    · rename_i h
      have : v.toNat < 18446744073709551616 := by
        have : k.hi ≤ 18446744073709551615 := by cases k <;> simp [NumKind.hi]
        omega
      simp [Item.ok, minW_fits _ this]
  | .arr len bt xs =>
    simp only [small, Bool.and_eq_true, decide_eq_true_eq] at hs
    simp only [toItem]
    split
    · simp [Item.ok, toItems_ok xs hs.2, toItems_length, hs.1]
    · simp [Item.ok, toItems_ok xs hs.2, toItems_length, minW_fits' _ hs.1, hs.1]
  | .obj len bt ms =>
    simp only [small, Bool.and_eq_true, decide_eq_true_eq] at hs
    simp only [toItem]
    split
    · simp [Item.ok, toMems_ok ms hs.2, toMems_length, hs.1]
    · simp [Item.ok, toMems_ok ms hs.2, toMems_length, minW_fits' _ hs.1, hs.1]
theorem toItems_ok (xs : List ETree) (hs : smallList xs = true) : okList (toItems xs) = true := by
  match xs with
  | [] => rfl
  | x :: xs' =>
    simp only [smallList, Bool.and_eq_true] at hs
    simp [toItems, okList, toItem_ok x hs.1, toItems_ok xs' hs.2]
theorem toMems_ok (ms : List (Bytes × ETree)) (hs : smallMems ms = true) : okMems (toMems ms) = true := by
  match ms with
  | [] => rfl
  | (k, v) :: ms' =>
    simp only [smallMems, Bool.and_eq_true, decide_eq_true_eq] at hs
    simp [toMems, okMems, toItem_ok v hs.1.2, toMems_ok ms' hs.2, minW_fits' _ hs.1.1, hs.1.1]
end

mutual
theorem toItem_value (t : ETree) (hs : small t = true) : (toItem t).value = t.value := by
  match t with
  | .null | .f32 _ | .f64 _ | .str _ => simp [toItem, Item.value, ETree.value]
  | .bool b => cases b <;> simp [toItem, Item.value, ETree.value]
  | .num k v =>
    simp only [small] at hs
    have hlo : k.lo ≤ v := by simp [NumKind.inRange] at hs; exact hs.1
    simp only [toItem]
    split
    · rename_i h
      simp only [Bool.and_eq_true, decide_eq_true_eq] at h
      simp only [Item.value, ETree.value]
      congr 1
      omega
    · rename_i h
      simp only [Bool.and_eq_true, decide_eq_true_eq, not_and] at h
      simp only [Item.value, ETree.value]
      congr 1
      by_cases hsg : k.signed = true
      · have := h hsg; omega
      · have : k.lo = 0 := by cases k <;> simp_all [NumKind.signed, NumKind.lo]
        omega
  | .arr len bt xs =>
    simp only [small, Bool.and_eq_true] at hs
    simp only [toItem]
    split <;> simp [Item.value, ETree.value, toItems_value xs hs.2]
  | .obj len bt ms =>
    simp only [small, Bool.and_eq_true] at hs
    simp only [toItem]
    split <;> simp [Item.value, ETree.value, toMems_value ms hs.2]
theorem toItems_value (xs : List ETree) (hs : smallList xs = true) :
    Cst.valueList (toItems xs) = ETree.valueList xs := by
  match xs with
  | [] => rfl
  | x :: xs' =>
    simp only [smallList, Bool.and_eq_true] at hs
    simp [toItems, Cst.valueList, ETree.valueList, toItem_value x hs.1, toItems_value xs' hs.2]
theorem toMems_value (ms : List (Bytes × ETree)) (hs : smallMems ms = true) :
    Cst.valueMems (toMems ms) = ETree.valueMems ms := by
  match ms with
  | [] => rfl
  | (k, v) :: ms' =>
    simp only [smallMems, Bool.and_eq_true] at hs
    simp [toMems, Cst.valueMems, ETree.valueMems, toItem_value v hs.1.2, toMems_value ms' hs.2]
end

/-- the encoder driven through `run` with basic events -/
theorem run_evs (s s' : Enc) (es : List Ev) (h : execEvs s es = (s', true)) :
    run s (es.map XEv.ev) = (s', none) := by
  have key : ∀ (es : List Ev) (s : Enc) (i : Nat), execEvs s es = (s', true) →
      run.go s i (es.map XEv.ev) = (s', none) := by
    intro es
    induction es with
    | nil => intro s i h; simp [execEvs] at h; simp [run.go, h]
    | cons e es ih =>
      intro s i h
      simp only [execEvs] at h
      simp only [List.map_cons, run.go, step]
      cases hx : exec s (acts s.length (.ev e)) with
      | mk s1 ok =>
        rw [hx] at h
        cases ok with
        | true => simp only at h ⊢; exact ih s1 (i + 1) h
        | false => simp at h
  exact key es s 0 h

end SF.Cbor.Enc
