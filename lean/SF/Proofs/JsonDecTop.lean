/-
  C18 for the JSON PULL DECODER (mirror: SF/Json/Dec.lean; parser mirror: SF/Json/Parse.lean),
  byte-slice (`NewBytesDecoder`) and reader-driven (`NewDecoder` over the scripted `ChunkReader`:
  the chunks `cs` of the script, one or more `Read`s per chunk — a `Read` hands out at most
  `bufSize` bytes —, an empty chunk is a `(0, nil)` read, `lastEOF` makes the last data arrive
  together with `io.EOF`; `bufSize` is any positive number: `NewDecoder(in, n)` with `n ≤ 0`
  means 4096).

  The trace `nextsF f n d`: `n` calls of `Next`, the i-th with `f d` loop iterations of fuel,
  stopping after the first call that does not succeed; per call the result and the events
  accumulated in the parser.  `Enough f`: `f` grants every call at least `need d` iterations
  (`need d` = number of bytes of the script still to come + number of its chunks +
  [buffer non-empty] + 2); `nextFuel`, the fuel the model hands out, is `Enough`.

  (1) `bytes_decoder_stream`, (2) `reader_decoder_stream`: for EVERY stream of grammatical
      documents whose tokens denote (`Doc.good`: a value, white space after it — at least one
      white-space byte after a bare number —; leading white space allowed), in EVERY read
      script with that concatenation, BOTH values of `lastEOF`, EVERY buffer size: one
      successful call per document, the events accumulated after call i are exactly those of
      the first i documents, then a clean end (`.eof`).  The trace does not mention the script.
      `…_num_end`: the last document may be a bare number with NO white space after it: the end
      of the input completes it (`.ok`), the call after reports `.eof`.
  (3) `reader_decoder_truncated`: documents followed (after white space) by a proper non-empty
      prefix of one more grammatical value (`J.ok`; its tokens need not denote) that is not a
      bare number: after the successful calls an ERROR (`.err e`, reported with the events of the
      documents and whatever was delivered for the cut value) — never `.eof`, never `.ok`.
      (A cut bare number `12` of `123` IS the number
      `12`: example below.  Which error: `incomplete` from `finalize` in most states, but e.g.
      `[-` ends in `expectedDigit`, the error of the number token that `finalize` converts.)
  (4) `reader_never_outOfFuel`: on ARBITRARY bytes no call reports `outOfFuel` (the loop of
      `Next` terminates) or `panic`.
  (5) `reader_chunking_independent`, `reader_eq_bytes_decoder`: on ARBITRARY bytes (valid,
      invalid, truncated) the trace depends on the concatenation of the script only — not on
      the chunks, not on `lastEOF`, not on the buffer size —, and it is the trace of the
      byte-slice decoder on the concatenation.  (Hunted for a counterexample first — all
      strings of length ≤ 4 over 14 structural bytes, every 2-split with a `(0, nil)` read in
      between, both `lastEOF`, buffer sizes 1, 2, 4096: none.  The parser STATES may differ,
      in the dead field `required` only; the traces are equal.)

  Helper files: SF/Proofs/JsonDecEff.lean (effect of one parser step; the step after which
  `feedUntil` returns), JsonDecUntil.lean (`feedUntil` without fuel), JsonDecPeel.lean (its
  split law across a read boundary), JsonDecDoc.lean (`feedUntil` on a grammatical document),
  JsonDecTrunc.lean (`feedUntil` reports no value inside the text of a value), JsonDecNext.lean
  (one call of `Next` = the loop over the concatenated remaining stream), JsonDecReader.lean
  (sequences of calls).
-/
import SF.Proofs.JsonDecReader
set_option linter.unusedSimpArgs false
set_option linter.unusedVariables false
namespace SF.Props.JsonDec
open SF SF.Json SF.Json.Parse SF.Json.ParseP SF.Json.Dec SF.Json.DecP SF.Json.Grammar

/-! ## the two kinds of decoder -/

theorem dok_bytes (b : Bytes) : DOK (newBytesDecoder b) :=
  ⟨fun h => by simp [newBytesDecoder] at h, fun _ => ⟨rfl, rfl⟩⟩

theorem stream_bytes (b : Bytes) : stream (newBytesDecoder b) = b := by
  simp [stream, rstream, newBytesDecoder]

theorem dok_reader (cs : List Bytes) (e : Bool) (n : Int) : DOK (newDecoder { chunks := cs, lastEOF := e } n) := by
  refine ⟨fun _ => ?_, fun h => ?_⟩
  · show 1 ≤ (if n ≤ 0 then 4096 else n.toNat)
    split
    · omega
    · omega
  · rcases h with h | h <;> cases h

theorem stream_reader (cs : List Bytes) (e : Bool) (n : Int) :
    stream (newDecoder { chunks := cs, lastEOF := e } n) = cs.flatten := by
  simp [stream, rstream, newDecoder]

/-- the expected trace of a stream of documents: ok after each, with the events so far -/
def okDocs (ds : List Doc) : List (NextRes × List Ev) :=
  (List.range ds.length).map (fun i => (NextRes.ok, streamEvents (ds.take (i + 1))))

/-! ## streams of documents, any decoder -/

/-- a fresh decoder (`DOK`: over a reader with a buffer of at least one byte, or over a byte
slice) that is going to see `white space ++ documents` -/
theorem decoder_stream (f : Dec → Nat) (hf : Enough f) (ds : List Doc) (hg : ∀ x ∈ ds, x.good) (ws0 : Bytes)
    (hws : allWs ws0 = true) (d : Dec) (hd : DOK d) (hp : d.p = Parse.init none)
    (hst : stream d = ws0 ++ streamWire ds) :
    nextsF f (ds.length + 1) d = okDocs ds ++ [(NextRes.eof, streamEvents ds)] := by
  have hi : IdleN d.p := by rw [hp]; exact idleN_fresh
  obtain ⟨d', ws', k1, k2, k3, k4, k5, k6⟩ := nextsF_docs f hf ds hg [] d ws0 hd hi hws (by rw [hst]; simp)
  obtain ⟨e1, e2⟩ := next_end_idle ws' k4 d' k1 k2 (by simpa using k5) (f d') (hf d')
  rw [k6 1, okTrace_eq, nextsF_succ, e1]
  simp [okDocs, Parse.events, e2, k3, hp, Parse.init]

/-- … the last document being a bare number with no white space after it -/
theorem decoder_stream_num_end (f : Dec → Nat) (hf : Enough f) (ds : List Doc) (hg : ∀ x ∈ ds, x.good)
    (ws0 : Bytes) (hws : allWs ws0 = true) (tok : Bytes) (hb : tokOk tok = true) (ev : Ev)
    (hev : numEv tok = some ev) (d : Dec) (hd : DOK d) (hp : d.p = Parse.init none)
    (hst : stream d = ws0 ++ (streamWire ds ++ tok)) :
    nextsF f (ds.length + 2) d =
      okDocs ds ++ [(NextRes.ok, streamEvents ds ++ [ev]), (NextRes.eof, streamEvents ds ++ [ev])] := by
  have hi : IdleN d.p := by rw [hp]; exact idleN_fresh
  obtain ⟨d', ws', k1, k2, k3, k4, k5, k6⟩ := nextsF_docs f hf ds hg tok d ws0 hd hi hws hst
  obtain ⟨e1, e2, e3, e4, e5, e6, e7⟩ := next_num_end tok hb ev hev ws' k4 d' k1 k2 k5 (f d') (hf d')
  -- the call after: the end of the stream in a state with an empty stack
  obtain ⟨a1, _⟩ := next_U (f (next (f d') d').1) (next (f d') d').1 e4 e5 (hf _)
  obtain ⟨x1, x2, _⟩ := a1 e3
  obtain ⟨j1, j2⟩ := fin_start (next (f d') d').1.p e6 e7
  rw [k6 2, okTrace_eq, nextsF_succ, e1]
  simp only [beq_self_eq_true, if_true]
  rw [nextsF_succ, x1, j1]
  simp [okDocs, Parse.events, e2, k3, hp, Parse.init, x2, j2]

/-! ## (1) THE BYTE-SLICE DECODER -/

/-- C18 (1), BYTE-SLICE DECODER.  For EVERY stream `ws0 ++ streamWire ds` of good documents
(leading white space allowed; each value followed by white space, at least one white-space
byte after a bare number) `NewBytesDecoder` on it, called `ds.length + 1` times with any
sufficient fuel: the first `ds.length` calls return `.ok`, the events accumulated after the
i-th call are exactly those of the first i documents, in order, and the last call returns
`.eof` (no further event).  No call runs out of fuel. -/
theorem bytes_decoder_stream (f : Dec → Nat) (hf : Enough f) (ds : List Doc) (hg : ∀ x ∈ ds, x.good)
    (ws0 : Bytes) (hws : allWs ws0 = true) :
    nextsF f (ds.length + 1) (newBytesDecoder (ws0 ++ streamWire ds)) =
      okDocs ds ++ [(NextRes.eof, streamEvents ds)] :=
  decoder_stream f hf ds hg ws0 hws _ (dok_bytes _) rfl (stream_bytes _)

/-- … the stream ending in a bare number `tok` (denoting the event `ev`) with NO white space
after it: `Decoder.finalize` reports it when the input is used up — the call returns `.ok` with
the number's event —, and the call after it returns `.eof` -/
theorem bytes_decoder_stream_num_end (f : Dec → Nat) (hf : Enough f) (ds : List Doc) (hg : ∀ x ∈ ds, x.good)
    (ws0 : Bytes) (hws : allWs ws0 = true) (tok : Bytes) (hb : tokOk tok = true) (ev : Ev)
    (hev : numEv tok = some ev) :
    nextsF f (ds.length + 2) (newBytesDecoder (ws0 ++ (streamWire ds ++ tok))) =
      okDocs ds ++ [(NextRes.ok, streamEvents ds ++ [ev]), (NextRes.eof, streamEvents ds ++ [ev])] :=
  decoder_stream_num_end f hf ds hg ws0 hws tok hb ev hev _ (dok_bytes _) rfl (stream_bytes _)

/-! ## (2) THE READER-DRIVEN DECODER -/

/-- C18 (2), READER-DRIVEN DECODER.  For EVERY stream of good documents, EVERY read script `cs`
whose concatenation it is (chunks of any sizes, empty chunks = `(0, nil)` reads anywhere), BOTH
ways the end of the script is signalled (`lastEOF = true`: `io.EOF` together with the last
data, which the decoder parks; `false`: `(0, io.EOF)` afterwards) and EVERY buffer size
(`n ≤ 0`: 4096, else `n`; a chunk longer than the buffer takes several `Read`s), with any
sufficient fuel: one successful call per document, the events accumulated after the i-th call
are exactly those of the first i documents, then `.eof`.  The trace mentions neither `cs` nor
`lastEOF` nor the buffer size. -/
theorem reader_decoder_stream (f : Dec → Nat) (hf : Enough f) (ds : List Doc) (hg : ∀ x ∈ ds, x.good)
    (ws0 : Bytes) (hws : allWs ws0 = true) (cs : List Bytes) (e : Bool) (n : Int)
    (hcs : cs.flatten = ws0 ++ streamWire ds) :
    nextsF f (ds.length + 1) (newDecoder { chunks := cs, lastEOF := e } n) =
      okDocs ds ++ [(NextRes.eof, streamEvents ds)] :=
  decoder_stream f hf ds hg ws0 hws _ (dok_reader cs e n) rfl (by rw [stream_reader, hcs])

/-- … the stream ending in a bare number with no white space after it, the number possibly
split across reads: `.ok` for it once the end of the script has been seen, then `.eof` -/
theorem reader_decoder_stream_num_end (f : Dec → Nat) (hf : Enough f) (ds : List Doc) (hg : ∀ x ∈ ds, x.good)
    (ws0 : Bytes) (hws : allWs ws0 = true) (tok : Bytes) (hb : tokOk tok = true) (ev : Ev)
    (hev : numEv tok = some ev) (cs : List Bytes) (e : Bool) (n : Int)
    (hcs : cs.flatten = ws0 ++ (streamWire ds ++ tok)) :
    nextsF f (ds.length + 2) (newDecoder { chunks := cs, lastEOF := e } n) =
      okDocs ds ++ [(NextRes.ok, streamEvents ds ++ [ev]), (NextRes.eof, streamEvents ds ++ [ev])] :=
  decoder_stream_num_end f hf ds hg ws0 hws tok hb ev hev _ (dok_reader cs e n) rfl (by rw [stream_reader, hcs])

/-- the fuel the model hands out is sufficient -/
theorem enough_nextFuel : Enough nextFuel := SF.Json.DecP.enough_nextFuel

/-- … in particular with the fuel the model hands out -/
theorem reader_decoder_stream_nextFuel (ds : List Doc) (hg : ∀ x ∈ ds, x.good)
    (ws0 : Bytes) (hws : allWs ws0 = true) (cs : List Bytes) (e : Bool) (n : Int)
    (hcs : cs.flatten = ws0 ++ streamWire ds) :
    nexts (ds.length + 1) (newDecoder { chunks := cs, lastEOF := e } n) =
      okDocs ds ++ [(NextRes.eof, streamEvents ds)] :=
  reader_decoder_stream nextFuel enough_nextFuel ds hg ws0 hws cs e n hcs

instance decGood (d : Doc) : Decidable d.good := by unfold Doc.good; infer_instance

/-- non-vacuity: ` [1] 2⏎`, read through a buffer of 2 bytes from a script that cuts the array
after `[1`, has a `(0, nil)` read, and delivers the last byte together with `io.EOF`; and
` [1] 2` (the number at the very end), byte slice and reader -/
example :
    (∀ x ∈ ([(.arr [] (.elems (.num [0x31]) [] .close), [0x20]), (.num [0x32], [0x0a])] : List Doc), x.good) ∧
    allWs [0x20] = true ∧
    [[0x20, 0x5b, 0x31], [], [0x5d, 0x20, 0x32], [0x0a]].flatten =
      [0x20] ++ streamWire [(.arr [] (.elems (.num [0x31]) [] .close), [0x20]), (.num [0x32], [0x0a])] ∧
    nexts 3 (newDecoder { chunks := [[0x20, 0x5b, 0x31], [], [0x5d, 0x20, 0x32], [0x0a]], lastEOF := true } 2) =
      [(.ok, [.arrStart (-1) BT.any, .num .i64 1, .arrEnd]),
       (.ok, [.arrStart (-1) BT.any, .num .i64 1, .arrEnd, .num .i64 2]),
       (.eof, [.arrStart (-1) BT.any, .num .i64 1, .arrEnd, .num .i64 2])] ∧
    nexts 3 (newBytesDecoder [0x20, 0x5b, 0x31, 0x5d, 0x20, 0x32, 0x0a]) =
      [(.ok, [.arrStart (-1) BT.any, .num .i64 1, .arrEnd]),
       (.ok, [.arrStart (-1) BT.any, .num .i64 1, .arrEnd, .num .i64 2]),
       (.eof, [.arrStart (-1) BT.any, .num .i64 1, .arrEnd, .num .i64 2])] := by
  decide +kernel

example :
    tokOk [0x32, 0x33] = true ∧ numEv [0x32, 0x33] = some (.num .i64 23) ∧
    nexts 3 (newDecoder { chunks := [[0x20, 0x5b, 0x31, 0x5d], [0x20, 0x32], [], [0x33]], lastEOF := true } 1) =
      [(.ok, [.arrStart (-1) BT.any, .num .i64 1, .arrEnd]),
       (.ok, [.arrStart (-1) BT.any, .num .i64 1, .arrEnd, .num .i64 23]),
       (.eof, [.arrStart (-1) BT.any, .num .i64 1, .arrEnd, .num .i64 23])] ∧
    nexts 3 (newDecoder { chunks := [[0x20, 0x5b, 0x31, 0x5d], [0x20, 0x32], [], [0x33]], lastEOF := false } 0) =
      nexts 3 (newBytesDecoder [0x20, 0x5b, 0x31, 0x5d, 0x20, 0x32, 0x33]) := by
  decide +kernel

/-! ## (3) TRUNCATION -/

/-- a decoder that is going to see documents and then, after white space, a proper non-empty
prefix `z` of the text of one more value that is not a bare number -/
theorem decoder_truncated (f : Dec → Nat) (hf : Enough f) (ds : List Doc) (hg : ∀ x ∈ ds, x.good)
    (ws0 : Bytes) (hws : allWs ws0 = true) (v : J) (hok : v.ok = true)
    (hnn : v.isNum = false) (z : Bytes) (hz : z <+: v.wire) (hne : z ≠ []) (hne2 : z ≠ v.wire)
    (d : Dec) (hd : DOK d) (hp : d.p = Parse.init none) (hst : stream d = ws0 ++ (streamWire ds ++ z)) :
    ∃ e more, nextsF f (ds.length + 1) d = okDocs ds ++ [(NextRes.err e, streamEvents ds ++ more)] := by
  have hi : IdleN d.p := by rw [hp]; exact idleN_fresh
  obtain ⟨d', ws', k1, k2, k3, k4, k5, k6⟩ := nextsF_docs f hf ds hg z d ws0 hd hi hws hst
  obtain ⟨⟨e, he⟩, l, hl⟩ := next_trunc v hok hnn ws' z k4 hz hne hne2 d' k1 k2 k5 (f d') (hf d')
  refine ⟨e, l.reverse, ?_⟩
  rw [k6 1, okTrace_eq, nextsF_succ, he]
  simp [okDocs, hp, Parse.init, nextsF, Parse.events, hl, k3]

/-- C18 (3), TRUNCATION.  If the bytes the reader delivers (in ANY read script, either way of
signalling its end, any buffer size) are good documents `ds` followed — after white space — by
a proper non-empty prefix `z` of the text of one more grammatical value `v` (`v.ok`; its tokens
need not denote) that is not a bare number — an array, object, string or literal cut anywhere, also inside a
number INSIDE a container —, then after `ds.length` successful calls the next call returns an
ERROR: not `.eof`, not `.ok`.  (The events reported with it are those of the complete documents
and whatever was delivered for the incomplete one.) -/
theorem reader_decoder_truncated (f : Dec → Nat) (hf : Enough f) (ds : List Doc) (hg : ∀ x ∈ ds, x.good)
    (ws0 : Bytes) (hws : allWs ws0 = true) (v : J) (hok : v.ok = true)
    (hnn : v.isNum = false) (z : Bytes) (hz : z <+: v.wire) (hne : z ≠ []) (hne2 : z ≠ v.wire)
    (cs : List Bytes) (e : Bool) (n : Int) (hcs : cs.flatten = ws0 ++ (streamWire ds ++ z)) :
    ∃ err more, nextsF f (ds.length + 1) (newDecoder { chunks := cs, lastEOF := e } n) =
      okDocs ds ++ [(NextRes.err err, streamEvents ds ++ more)] :=
  decoder_truncated f hf ds hg ws0 hws v hok hnn z hz hne hne2 _ (dok_reader cs e n) rfl
    (by rw [stream_reader, hcs])

/-- … the byte-slice decoder -/
theorem bytes_decoder_truncated (f : Dec → Nat) (hf : Enough f) (ds : List Doc) (hg : ∀ x ∈ ds, x.good)
    (ws0 : Bytes) (hws : allWs ws0 = true) (v : J) (hok : v.ok = true)
    (hnn : v.isNum = false) (z : Bytes) (hz : z <+: v.wire) (hne : z ≠ []) (hne2 : z ≠ v.wire) :
    ∃ err more, nextsF f (ds.length + 1) (newBytesDecoder (ws0 ++ (streamWire ds ++ z))) =
      okDocs ds ++ [(NextRes.err err, streamEvents ds ++ more)] :=
  decoder_truncated f hf ds hg ws0 hws v hok hnn z hz hne hne2 _ (dok_bytes _) rfl (stream_bytes _)

/-- the single call, as a statement about `Next`: a proper non-empty prefix of a value that is
not a bare number, however it is split into reads, yields an error -/
theorem reader_decoder_truncated_one (v : J) (hok : v.ok = true) (hnn : v.isNum = false)
    (z : Bytes) (hz : z <+: v.wire) (hne : z ≠ []) (hne2 : z ≠ v.wire) (cs : List Bytes) (e : Bool) (n : Int)
    (hcs : cs.flatten = z) (fuel : Nat) (hf : need (newDecoder { chunks := cs, lastEOF := e } n) ≤ fuel) :
    ∃ err, (next fuel (newDecoder { chunks := cs, lastEOF := e } n)).2 = .err err :=
  (next_trunc v hok hnn [] z rfl hz hne hne2 _ (dok_reader cs e n) idleN_fresh
    (by rw [stream_reader, hcs]; rfl) fuel hf).1

/-- non-vacuity: `1 ` followed by `[1,"ab"]` cut inside the string; `[12]` cut inside the
number; `[-1]` cut after the sign (the error is the number's, not `incomplete`); `["\q",1]`, whose
first token does not denote, cut inside and after that token; and a bare number cut at the top
level IS the shorter number -/
example :
    (∀ x ∈ ([(.num [0x31], [0x20])] : List Doc), x.good) ∧
    (J.arr [] (.elems (.num [0x31]) [] (.more [] (.str [0x61, 0x62]) [] .close))).ok = true ∧
    (J.arr [] (.elems (.num [0x31]) [] (.more [] (.str [0x61, 0x62]) [] .close))).isNum = false ∧
    [0x5b, 0x31, 0x2c, 0x22, 0x61] <+:
      (J.arr [] (.elems (.num [0x31]) [] (.more [] (.str [0x61, 0x62]) [] .close))).wire ∧
    (J.arr [] (.elems (.str [0x5c, 0x71]) [] (.more [] (.num [0x31]) [] .close))).ok = true ∧
    (J.arr [] (.elems (.str [0x5c, 0x71]) [] (.more [] (.num [0x31]) [] .close))).sem = false ∧
    (J.arr [] (.elems (.str [0x5c, 0x71]) [] (.more [] (.num [0x31]) [] .close))).wire =
      [0x5b, 0x22, 0x5c, 0x71, 0x22, 0x2c, 0x31, 0x5d] ∧
    nexts 2 (newDecoder { chunks := [[0x5b, 0x22, 0x5c], [0x71]], lastEOF := true } 2) =
      [(.err .incomplete, [.arrStart (-1) BT.any])] ∧
    nexts 2 (newDecoder { chunks := [[0x5b, 0x22, 0x5c], [0x71, 0x22, 0x2c]], lastEOF := true } 2) =
      [(.err .unquoteUnknownEscape, [.arrStart (-1) BT.any])] ∧
    nexts 2 (newDecoder { chunks := [[0x31, 0x20, 0x5b], [], [0x31, 0x2c, 0x22], [0x61]], lastEOF := true } 2) =
      [(.ok, [.num .i64 1]), (.err .incomplete, [.num .i64 1, .arrStart (-1) BT.any, .num .i64 1])] ∧
    nexts 2 (newDecoder { chunks := [[0x5b, 0x31], [0x32]], lastEOF := false } 0) =
      [(.err .incomplete, [.arrStart (-1) BT.any, .num .i64 12])] ∧
    nexts 2 (newDecoder { chunks := [[0x5b, 0x2d]], lastEOF := false } 0) =
      [(.err .expectedDigit, [.arrStart (-1) BT.any])] ∧
    nexts 3 (newDecoder { chunks := [[0x31], [0x32]], lastEOF := true } 0) =
      [(.ok, [.num .i64 12]), (.eof, [.num .i64 12])] := by
  decide +kernel

/-! ## (4) NO CALL RUNS OUT OF FUEL OR PANICS -/

/-- C18 (4).  On ARBITRARY bytes in ANY read script, either way of signalling its end, any
buffer size: no call of a sequence of calls (up to and including the first that does not
succeed) reports `outOfFuel` — with `Enough` fuel, e.g. `nextFuel`, the loop of
`Decoder.Next` always terminates — or `panic` -/
theorem reader_never_outOfFuel (f : Dec → Nat) (hf : Enough f) (cs : List Bytes) (e : Bool) (n : Int) (k : Nat) :
    ∀ x ∈ nextsF f k (newDecoder { chunks := cs, lastEOF := e } n),
      x.1 ≠ .err .outOfFuel ∧ x.1 ≠ .err .panic :=
  nextsF_safe f hf k _ (dok_reader cs e n) (wf_init none)

/-- … the byte-slice decoder -/
theorem bytes_never_outOfFuel (f : Dec → Nat) (hf : Enough f) (b : Bytes) (k : Nat) :
    ∀ x ∈ nextsF f k (newBytesDecoder b), x.1 ≠ .err .outOfFuel ∧ x.1 ≠ .err .panic :=
  nextsF_safe f hf k _ (dok_bytes b) (wf_init none)

/-- the fuel has to grow with the number of reads (every `Read`, `(0, nil)` ones included,
costs one iteration of the loop of `Next`): 3 iterations are too few for this script read
through a one-byte buffer (four reads), `need` (= 8) are enough -/
example :
    (next 3 (newDecoder { chunks := [[0x5b, 0x31], [], [0x5d]], lastEOF := false } 1)).2 = .err .outOfFuel ∧
    need (newDecoder { chunks := [[0x5b, 0x31], [], [0x5d]], lastEOF := false } 1) = 8 ∧
    (next 8 (newDecoder { chunks := [[0x5b, 0x31], [], [0x5d]], lastEOF := false } 1)).2 = .ok ∧
    nextFuel (newDecoder { chunks := [[0x5b, 0x31], [], [0x5d]], lastEOF := false } 1) = 20 := by
  decide +kernel

/-! ## (5) ARBITRARY BYTES: the read script does not matter -/

/-- C18 (5), READ SIZES DO NOT MATTER, for ARBITRARY bytes (valid, invalid or truncated): any
two read scripts with the same concatenation — whatever their chunks, with `io.EOF` arriving
with the last data or after them, read through buffers of any two sizes, with any two
sufficient fuels — give the same sequence of `Next` results and the same accumulated events,
call by call, up to and including the first call that does not return `.ok` -/
theorem reader_chunking_independent (f₁ f₂ : Dec → Nat) (hf₁ : Enough f₁) (hf₂ : Enough f₂)
    (cs₁ cs₂ : List Bytes) (e₁ e₂ : Bool) (n₁ n₂ : Int) (h : cs₁.flatten = cs₂.flatten) (k : Nat) :
    nextsF f₁ k (newDecoder { chunks := cs₁, lastEOF := e₁ } n₁) =
      nextsF f₂ k (newDecoder { chunks := cs₂, lastEOF := e₂ } n₂) :=
  nextsF_congr f₁ f₂ hf₁ hf₂ k _ _ (dok_reader cs₁ e₁ n₁) (dok_reader cs₂ e₂ n₂) (wf_init none) (Eqv.refl _)
    (by rw [stream_reader, stream_reader, h])

/-- … and it is the sequence the BYTE-SLICE decoder (`NewBytesDecoder`) produces on the
concatenation -/
theorem reader_eq_bytes_decoder (f₁ f₂ : Dec → Nat) (hf₁ : Enough f₁) (hf₂ : Enough f₂)
    (cs : List Bytes) (e : Bool) (n : Int) (k : Nat) :
    nextsF f₁ k (newDecoder { chunks := cs, lastEOF := e } n) = nextsF f₂ k (newBytesDecoder cs.flatten) :=
  nextsF_congr f₁ f₂ hf₁ hf₂ k _ _ (dok_reader cs e n) (dok_bytes _) (wf_init none) (Eqv.refl _)
    (by rw [stream_reader, stream_bytes])

/-- … with the fuel of the model -/
theorem reader_chunking_independent_nextFuel (cs₁ cs₂ : List Bytes) (e₁ e₂ : Bool) (n₁ n₂ : Int)
    (h : cs₁.flatten = cs₂.flatten) (k : Nat) :
    nexts k (newDecoder { chunks := cs₁, lastEOF := e₁ } n₁) =
      nexts k (newDecoder { chunks := cs₂, lastEOF := e₂ } n₂) :=
  reader_chunking_independent nextFuel nextFuel enough_nextFuel enough_nextFuel cs₁ cs₂ e₁ e₂ n₁ n₂ h k

/-- non-vacuity: an invalid stream (`1 [1,nulx] 2`: the error is in the second value, the
literal is split across reads) and a truncated one, each in two different scripts and as a
byte slice -/
example :
    nexts 3 (newDecoder { chunks := [[0x31, 0x20, 0x5b], [0x31, 0x2c, 0x6e, 0x75], [], [0x6c, 0x78, 0x5d, 0x20, 0x32]],
                          lastEOF := true } 3) =
      nexts 3 (newDecoder { chunks := [[0x31], [0x20, 0x5b, 0x31, 0x2c, 0x6e, 0x75, 0x6c, 0x78, 0x5d, 0x20, 0x32]],
                            lastEOF := false } 1) ∧
    nexts 3 (newDecoder { chunks := [[0x31, 0x20, 0x5b], [0x31, 0x2c, 0x6e, 0x75], [], [0x6c, 0x78, 0x5d, 0x20, 0x32]],
                          lastEOF := true } 3) =
      nexts 3 (newBytesDecoder [0x31, 0x20, 0x5b, 0x31, 0x2c, 0x6e, 0x75, 0x6c, 0x78, 0x5d, 0x20, 0x32]) ∧
    nexts 3 (newBytesDecoder [0x31, 0x20, 0x5b, 0x31, 0x2c, 0x6e, 0x75, 0x6c, 0x78, 0x5d, 0x20, 0x32]) =
      [(.ok, [.num .i64 1]), (.err .expectedNull, [.num .i64 1, .arrStart (-1) BT.any, .num .i64 1])] := by
  decide +kernel

end SF.Props.JsonDec
