/-
  SF.Ubjson.Syn — concrete syntax trees for UBJSON draft 12 in the style of SF/Cbor/Cst.lean
  (`Item`, `wire`, `events`, `value`, `ok`), the grammar of SF/Ubjson/Cst.lean:

    Value  ::= Z | T | F | i b | U b | I b² | l b⁴ | L b⁸ | d b⁴ | D b⁸ | C b
             | H Len digits | S Len bytes | Array | Object
    Len    ::= (i|U|I|l|L) int ≥ 0
    Array  ::= '[' (N* Value)* N* ']' | '[' '#' Len (N* Value)ⁿ | '[' '$' Type '#' Len Payloadⁿ
    Object ::= '{' (Len bytes Value)* '}' | '{' '#' Len (Len bytes Value)ⁿ
             | '{' '$' Type '#' Len (Len bytes Payload)ⁿ
    Type   ::= any value marker; payload of a value = the value without its marker
               (Z T F: empty)
    Stream ::= (N* Value)* N*

  The trees are proof-free; well-formedness is the separate predicate `ok`.
-/
import SF.Ubjson.Defs
import SF.Ubjson.Enc
namespace SF.Ubjson.Syn
open SF SF.Ubjson

/-- the integer marker a length / count is written with -/
inductive LW | i | U | I | l | L
  deriving Repr, DecidableEq, Inhabited

def LW.marker : LW → UInt8
  | .i => int8Marker | .U => uint8Marker | .I => int16Marker | .l => int32Marker | .L => int64Marker
def LW.bytes : LW → Nat | .i => 1 | .U => 1 | .I => 2 | .l => 4 | .L => 8
/-- the length fits the (signed, except `U`) integer type -/
def LW.fits : LW → Nat → Bool
  | .i, n => n < 128 | .U, n => n < 256 | .I, n => n < 32768
  | .l, n => n < 2147483648 | .L, n => n < 9223372036854775808

/-- Len: marker, big-endian value -/
def lenWire (w : LW) (n : Nat) : Bytes := w.marker :: beBytes w.bytes n

/-- the fixed-width integer types -/
inductive IK | i8 | u8 | i16 | i32 | i64
  deriving Repr, DecidableEq, Inhabited

def IK.marker : IK → UInt8
  | .i8 => int8Marker | .u8 => uint8Marker | .i16 => int16Marker | .i32 => int32Marker | .i64 => int64Marker
def IK.bytes : IK → Nat | .i8 => 1 | .u8 => 1 | .i16 => 2 | .i32 => 4 | .i64 => 8
def IK.kind : IK → NumKind | .i8 => .i8 | .u8 => .u8 | .i16 => .i16 | .i32 => .i32 | .i64 => .i64
def IK.inRange (k : IK) (v : Int) : Bool := k.kind.inRange v

inductive Item
  | null | tru | fals                                   -- Z T F
  | int (k : IK) (v : Int)                              -- i U I l L
  | f32 (bits : UInt32) | f64 (bits : UInt64)           -- d D
  | char (c : UInt8)                                    -- C
  | str (w : LW) (s : Bytes)                            -- S
  | hp (w : LW) (s : Bytes)                             -- H (high-precision number, as its text)
  | arr (xs : List (Nat × Item)) (trail : Nat)          -- [ (N* v)* N* ]
  | arrN (w : LW) (xs : List (Nat × Item))              -- [ # n (N* v)ⁿ
  | arrT (t : UInt8) (w : LW) (xs : List Item)          -- [ $ t # n payloadⁿ
  | obj (ms : List (LW × Bytes × Item))                 -- { (key v)* }
  | objN (w : LW) (ms : List (LW × Bytes × Item))       -- { # n (key v)ⁿ
  | objT (t : UInt8) (w : LW) (ms : List (LW × Bytes × Item))   -- { $ t # n (key payload)ⁿ
  deriving Repr, Inhabited

def Item.marker : Item → UInt8
  | .null => nullMarker | .tru => trueMarker | .fals => falseMarker
  | .int k _ => k.marker
  | .f32 _ => float32Marker | .f64 _ => float64Marker
  | .char _ => charMarker
  | .str _ _ => stringMarker | .hp _ _ => highPrecMarker
  | .arr _ _ | .arrN _ _ | .arrT _ _ _ => arrStartMarker
  | .obj _ | .objN _ _ | .objT _ _ _ => objStartMarker

def noops (n : Nat) : Bytes := List.replicate n noopMarker

/- the value without its marker -/
mutual
def Item.payload : Item → Bytes
  | .null => [] | .tru => [] | .fals => []
  | .int k v => Enc.twos k.bytes v
  | .f32 b => beBytes 4 b.toNat
  | .f64 b => beBytes 8 b.toNat
  | .char c => [c]
  | .str w s => lenWire w s.length ++ s
  | .hp w s => lenWire w s.length ++ s
  | .arr xs t => wireElems xs ++ (noops t ++ [arrEndMarker])
  | .arrN w xs => countMarker :: (lenWire w xs.length ++ wireElems xs)
  | .arrT t w xs => typeMarker :: t :: countMarker :: (lenWire w xs.length ++ payList xs)
  | .obj ms => wireMems ms ++ [objEndMarker]
  | .objN w ms => countMarker :: (lenWire w ms.length ++ wireMems ms)
  | .objT t w ms => typeMarker :: t :: countMarker :: (lenWire w ms.length ++ payMems ms)
/-- elements with their preceding no-ops -/
def wireElems : List (Nat × Item) → Bytes
  | [] => []
  | (n, x) :: xs => noops n ++ (x.marker :: (x.payload ++ wireElems xs))
/-- elements of a typed array: payloads only -/
def payList : List Item → Bytes
  | [] => []
  | x :: xs => x.payload ++ payList xs
def wireMems : List (LW × Bytes × Item) → Bytes
  | [] => []
  | (kw, k, v) :: ms => lenWire kw k.length ++ (k ++ (v.marker :: (v.payload ++ wireMems ms)))
/-- members of a typed object -/
def payMems : List (LW × Bytes × Item) → Bytes
  | [] => []
  | (kw, k, v) :: ms => lenWire kw k.length ++ (k ++ (v.payload ++ payMems ms))
end

def Item.wire (x : Item) : Bytes := x.marker :: x.payload

/-- a stream: values with their preceding no-ops, trailing no-ops -/
def wireStream (xs : List (Nat × Item)) (trail : Nat) : Bytes := wireElems xs ++ noops trail

/-- the markers that may name an element type: every value marker (not `N`) -/
def isTypeMarker (t : UInt8) : Bool := (markerToStartState t).isSome && t != noopMarker

mutual
def Item.ok : Item → Bool
  | .int k v => k.inRange v
  | .str w s => w.fits s.length
  | .hp w s => w.fits s.length
  | .arr xs _ => okElems xs
  | .arrN w xs => w.fits xs.length && okElems xs
  | .arrT t w xs => isTypeMarker t && w.fits xs.length && okTyped t xs
  | .obj ms => okMems ms
  | .objN w ms => w.fits ms.length && okMems ms
  | .objT t w ms => isTypeMarker t && w.fits ms.length && okMemsT t ms
  | _ => true
def okElems : List (Nat × Item) → Bool
  | [] => true
  | (_, x) :: xs => x.ok && okElems xs
/-- every element has the announced type -/
def okTyped (t : UInt8) : List Item → Bool
  | [] => true
  | x :: xs => x.ok && x.marker == t && okTyped t xs
def okMems : List (LW × Bytes × Item) → Bool
  | [] => true
  | (kw, k, v) :: ms => kw.fits k.length && v.ok && okMems ms
def okMemsT (t : UInt8) : List (LW × Bytes × Item) → Bool
  | [] => true
  | (kw, k, v) :: ms => kw.fits k.length && v.ok && v.marker == t && okMemsT t ms
end

/- the exact event sequence a conforming parser delivers -/
mutual
def Item.events : Item → List Ev
  | .null => [.null] | .tru => [.bool true] | .fals => [.bool false]
  | .int k v => [.num k.kind v]
  | .f32 b => [.f32 b] | .f64 b => [.f64 b]
  | .char c => [.num .byte c.toNat]
  | .str _ s => [.str s] | .hp _ s => [.str s]
  | .arr xs _ => .arrStart (-1) BT.any :: (evElems xs ++ [.arrEnd])
  | .arrN _ xs => .arrStart xs.length BT.any :: (evElems xs ++ [.arrEnd])
  | .arrT t _ xs => .arrStart xs.length (markerToBaseType t) :: (evList xs ++ [.arrEnd])
  | .obj ms => .objStart (-1) BT.any :: (evMems ms ++ [.objEnd])
  | .objN _ ms => .objStart ms.length BT.any :: (evMems ms ++ [.objEnd])
  | .objT _ _ ms => .objStart ms.length BT.any :: (evMems ms ++ [.objEnd])
def evElems : List (Nat × Item) → List Ev
  | [] => []
  | (_, x) :: xs => x.events ++ evElems xs
def evList : List Item → List Ev
  | [] => []
  | x :: xs => x.events ++ evList xs
def evMems : List (LW × Bytes × Item) → List Ev
  | [] => []
  | (_, k, v) :: ms => .key k :: (v.events ++ evMems ms)
end

/- the value draft 12 assigns -/
mutual
def Item.value : Item → Val
  | .null => .null | .tru => .bool true | .fals => .bool false
  | .int _ v => .int v
  | .f32 b => .f32 b | .f64 b => .f64 b
  | .char c => .int c.toNat
  | .str _ s => .str s | .hp _ s => .str s
  | .arr xs _ => .arr (valElems xs)
  | .arrN _ xs => .arr (valElems xs)
  | .arrT _ _ xs => .arr (valList xs)
  | .obj ms => .obj (valMems ms)
  | .objN _ ms => .obj (valMems ms)
  | .objT _ _ ms => .obj (valMems ms)
def valElems : List (Nat × Item) → List Val
  | [] => []
  | (_, x) :: xs => x.value :: valElems xs
def valList : List Item → List Val
  | [] => []
  | x :: xs => x.value :: valList xs
def valMems : List (LW × Bytes × Item) → List (Bytes × Val)
  | [] => []
  | (_, k, v) :: ms => (k, v.value) :: valMems ms
end

/-! tests of the specification: the draft-12 examples of SF/Ubjson/Cst.lean -/
example : (Item.arr [(0, .int .i8 1), (1, .int .u8 255)] 0).wire = [0x5b, 0x69, 0x01, 0x4e, 0x55, 0xff, 0x5d] := by
  decide +kernel
example : (Item.arrT 0x69 .i [.int .i8 (-1), .int .i8 5]).wire = [0x5b, 0x24, 0x69, 0x23, 0x69, 0x02, 0xff, 0x05] := by
  decide +kernel
example : (Item.arrT 0x5b .i [.arrT 0x69 .i [.int .i8 5], .arrT 0x69 .i [.int .i8 6]]).wire =
    [0x5b, 0x24, 0x5b, 0x23, 0x69, 0x02, 0x24, 0x69, 0x23, 0x69, 0x01, 0x05, 0x24, 0x69, 0x23, 0x69, 0x01, 0x06] := by
  decide +kernel
example : wireStream [(0, .obj [(.i, [0x61], .null)]), (1, .tru)] 0 = [0x7b, 0x69, 0x01, 0x61, 0x5a, 0x7d, 0x4e, 0x54] := by
  decide +kernel
example : (Item.arrT 0x5a .i [.null, .null, .null]).wire = [0x5b, 0x24, 0x5a, 0x23, 0x69, 0x03] := by decide +kernel
example : (Item.arrT 0x5b .i [.arrT 0x69 .i [.int .i8 5], .arrT 0x69 .i [.int .i8 6]]).ok = true := by decide +kernel

end SF.Ubjson.Syn
