/-
  C06, converse direction: WHAT ONE STEP ACCEPTS.  For every state of the UBJSON parser and
  every input: the step fails, or it parks a partial token (the input ends inside the token),
  or the input begins with a complete token of the grammar — then the step is the one of the
  refinement proof (SF/Proofs/UbjRef{Scalar,Arr,Obj}.lean).
-/
import SF.Proofs.UbjConvRuns
set_option linter.unusedSimpArgs false
set_option linter.unusedVariables false
namespace SF.Ubjson.Conv
open SF SF.Ubjson SF.Ubjson.Parse SF.Ubjson.Chunk SF.Ubjson.Syn
open StateType StateStep

/-! ## tokens of fixed size -/

theorem collect_short (b : Bytes) (n : Nat) (h : b.length < n) : collect [] b n = (b, [], none) := by
  have : ¬ (b.length ≥ n) := by omega
  simp [collect, this]

theorem collectP_short (p : P) (hp : p.buffer = []) (b : Bytes) (n : Nat) (h : b.length < n) :
    collectP p b n = ({ p with buffer := b }, [], none) := by
  simp only [collectP, hp, collect_short b n h]

theorem split_at (b : Bytes) (n : Nat) (h : n ≤ b.length) : ∃ a rest, b = a ++ rest ∧ a.length = n :=
  ⟨b.take n, b.drop n, (List.take_append_drop n b).symm, by simp [h]⟩

section fixed
variable (S : List St) (c : St) (VS : StateStack) (LS : List Int) (lc : Int) (vt : Nat) (E : List Ev)

/-- a fixed-size token that the input does not complete is buffered -/
theorem step_fixed_short (st : StateStep) (n : Nat)
    (hst : (st = stInt16 ∧ n = 2) ∨ (st = stInt32 ∧ n = 4) ∨ (st = stInt64 ∧ n = 8) ∨ (st = stFloat32 ∧ n = 4) ∨
      (st = stFloat64 ∧ n = 8))
    (b : Bytes) (hb : b.length < n) :
    execStep (mk (c :: S) ⟨stFixed, st⟩ VS LS lc vt E) b =
      ⟨mkP (c :: S) ⟨stFixed, st⟩ VS LS lc vt E noMarker b, [], false, none⟩ := by
  have hc := collectP_short (mk (c :: S) ⟨stFixed, st⟩ VS LS lc vt E) rfl b n hb
  rcases hst with ⟨rfl, rfl⟩ | ⟨rfl, rfl⟩ | ⟨rfl, rfl⟩ | ⟨rfl, rfl⟩ | ⟨rfl, rfl⟩ <;>
  · simp only [execStep, stepFixedValue]
    simp only [mk] at hc ⊢
    simp [hc, mkP]

end fixed

/-! ## lengths -/

section len
variable (S : List St) (c : St) (VS : StateStack) (LS : List Int) (lc : Int) (vt : Nat) (E : List Ev)

theorem lenFin_neg (cont : St) (p : P) (b : Bytes) (L : Int) (h : L < 0) : (lenFin cont p b L).err ≠ none := by
  simp [lenFin, h]

/-- the value part of a length in 2, 4 or 8 bytes -/
theorem lenValue_coll (cont : St) (m : UInt8) (nb : Nat) (rd : Bytes → Int) (b : Bytes) (hb : b ≠ [])
    (hv : ∀ bs, lenValue cont (mkP S c VS LS lc vt E m []) bs =
      match collectP (mkP S c VS LS lc vt E m []) bs nb with
      | (p, rest, none) => { p := p, rest := rest }
      | (p, rest, some tmp) => lenFin cont p rest (rd tmp)) :
    (lenValue cont (mkP S c VS LS lc vt E m []) b).err ≠ none ∨
    (lenValue cont (mkP S c VS LS lc vt E m []) b = ⟨mkP S c VS LS lc vt E m b, [], false, none⟩) ∨
    (∃ a rest, b = a ++ rest ∧ a.length = nb ∧ 0 ≤ rd a) := by
  by_cases hlen : b.length < nb
  · right; left
    rw [hv, collectP_short _ rfl b nb hlen]
    rfl
  · obtain ⟨a, rest, rfl, ha⟩ := split_at b nb (by omega)
    by_cases hL : rd a < 0
    · left
      rw [hv, collectP_nil _ rfl a rest nb ha]
      exact lenFin_neg _ _ _ _ hL
    · exact Or.inr (Or.inr ⟨a, rest, rfl, ha, by omega⟩)

/-- LENGTHS: the step that reads a length fails, or parks a partial one, or the input begins
with a length of the grammar -/
theorem stepLen_conv (b : Bytes) (hb : b ≠ []) (cont : St) :
    (stepLen (mk S c VS LS lc vt E) b cont).err ≠ none ∨
    (∃ m buf, stepLen (mk S c VS LS lc vt E) b cont = ⟨mkP S c VS LS lc vt E m buf, [], false, none⟩) ∨
    (∃ w n rest, b = lenWire w n ++ rest ∧ LW.fits w n = true) := by
  cases b with
  | nil => exact absurd rfl hb
  | cons b0 bs =>
    rw [stepLen_eq]
    have hnm : ((mk S c VS LS lc vt E).marker == noMarker) = true := rfl
    simp only [hnm, if_true]
    by_cases hm : (b0 == int8Marker || b0 == uint8Marker || b0 == int16Marker || b0 == int32Marker
        || b0 == int64Marker) = true
    · simp only [hm, if_true]
      cases bs with
      | nil => exact Or.inr (Or.inl ⟨b0, [], rfl⟩)
      | cons b1 bs' =>
        simp only [List.isEmpty_cons, Bool.false_eq_true, if_false]
        have hp : ({ mk S c VS LS lc vt E with marker := b0 } : P) = mkP S c VS LS lc vt E b0 [] := rfl
        rw [hp]
        simp only [Bool.or_eq_true, beq_iff_eq] at hm
        rcases hm with (((rfl | rfl) | rfl) | rfl) | rfl
        · -- i
          have e : lenValue cont (mkP S c VS LS lc vt E int8Marker []) (b1 :: bs') =
              lenFin cont (mkP S c VS LS lc vt E int8Marker []) bs' (readInt8 b1) := by
            simp +decide [lenValue, mkP]
          rw [e]
          by_cases hL : readInt8 b1 < 0
          · exact Or.inl (lenFin_neg _ _ _ _ hL)
          · obtain ⟨n, _, h2, h3⟩ := len_i b1 (by omega)
            exact Or.inr (Or.inr ⟨.i, n, bs', by rw [h3]; rfl, h2⟩)
        · -- U
          obtain ⟨h2, h3⟩ := len_U b1
          exact Or.inr (Or.inr ⟨.U, b1.toNat, bs', by rw [h3]; rfl, h2⟩)
        · -- I
          rcases lenValue_coll S c VS LS lc vt E cont int16Marker 2 readInt16 (b1 :: bs') (by simp)
            (by intro bs; simp +decide [lenValue, mkP]; rfl) with h | h | ⟨a, rest, h1, h2, h3⟩
          · exact Or.inl h
          · exact Or.inr (Or.inl ⟨_, _, h⟩)
          · obtain ⟨n, _, k2, k3⟩ := len_I a h2 h3
            exact Or.inr (Or.inr ⟨.I, n, rest, by rw [k3, h1]; rfl, k2⟩)
        · -- l
          rcases lenValue_coll S c VS LS lc vt E cont int32Marker 4 readInt32 (b1 :: bs') (by simp)
            (by intro bs; simp +decide [lenValue, mkP]; rfl) with h | h | ⟨a, rest, h1, h2, h3⟩
          · exact Or.inl h
          · exact Or.inr (Or.inl ⟨_, _, h⟩)
          · obtain ⟨n, _, k2, k3⟩ := len_l a h2 h3
            exact Or.inr (Or.inr ⟨.l, n, rest, by rw [k3, h1]; rfl, k2⟩)
        · -- L
          rcases lenValue_coll S c VS LS lc vt E cont int64Marker 8 readInt64 (b1 :: bs') (by simp)
            (by intro bs; simp +decide [lenValue, mkP]; rfl) with h | h | ⟨a, rest, h1, h2, h3⟩
          · exact Or.inl h
          · exact Or.inr (Or.inl ⟨_, _, h⟩)
          · obtain ⟨n, _, k2, k3⟩ := len_L a h2 h3
            exact Or.inr (Or.inr ⟨.L, n, rest, by rw [k3, h1]; rfl, k2⟩)
    · left
      have hm' : (b0 == int8Marker || b0 == uint8Marker || b0 == int16Marker || b0 == int32Marker
        || b0 == int64Marker) = false := by simpa using hm
      simp [hm']

/-- a state whose step is `stepLen` (with `done := false`): the three outcomes at the level of
`execStep` -/
theorem lenState_conv (c0 cont : St) (b : Bytes) (hb : b ≠ [])
    (hd : dispatch (mk S c0 VS LS lc vt E) b = { stepLen (mk S c0 VS LS lc vt E) b cont with done := false }) :
    (execStep (mk S c0 VS LS lc vt E) b).err ≠ none ∨
    (∃ m buf, execStep (mk S c0 VS LS lc vt E) b = ⟨mkP S c0 VS LS lc vt E m buf, [], false, none⟩) ∨
    (∃ w n rest, b = lenWire w n ++ rest ∧ LW.fits w n = true ∧
      execStep (mk S c0 VS LS lc vt E) b = ⟨mk S cont VS (lc :: LS) n vt E, rest, false, none⟩) := by
  obtain ⟨h1, h2⟩ := execStep_of_dispatch hd
  rcases stepLen_conv S c0 VS LS lc vt E b hb cont with he | ⟨m, buf, he⟩ | ⟨w, n, rest, rfl, hf⟩
  · left; rw [h1]; exact he
  · right; left
    refine ⟨m, buf, ?_⟩
    rw [h2 (by rw [he]), he]
  · right; right
    have hl := stepLen_lenWire S c0 VS LS lc vt E w n hf rest cont
    refine ⟨w, n, rest, rfl, hf, ?_⟩
    rw [h2 (by rw [hl]), hl]

/-! the states that read a length -/

theorem disp_arrCount_start (b : Bytes) :
    dispatch (mk S ⟨stArrayCount, stStart⟩ VS LS lc vt E) b =
      { stepLen (mk S ⟨stArrayCount, stStart⟩ VS LS lc vt E) b ⟨stArrayCount, stWithLen⟩ with done := false } := by
  simp only [dispatch, mk, stepArrayCount, St.withStep, beq_self_eq_true, if_true]

theorem disp_objCount_start (b : Bytes) :
    dispatch (mk S ⟨stObjectCount, stStart⟩ VS LS lc vt E) b =
      { stepLen (mk S ⟨stObjectCount, stStart⟩ VS LS lc vt E) b ⟨stObjectCount, stWithLen⟩ with done := false } := by
  simp only [dispatch, mk, stepObjectCount, St.withStep, beq_self_eq_true, if_true]

theorem disp_typed_len (ty : StateType) (hty : ty = stArrayTyped ∨ ty = stObjectTyped) (b : Bytes) :
    dispatch (mk S ⟨ty, stWithType1⟩ VS LS lc vt E) b =
      { stepLen (mk S ⟨ty, stWithType1⟩ VS LS lc vt E) b ⟨ty, stWithLen⟩ with done := false } := by
  rcases hty with rfl | rfl <;>
    simp +decide [dispatch, mk, stepArrayTyped, stepObjectTyped, stepTypeLenHeader, St.withStep]

theorem disp_objDyn_start (b0 : UInt8) (bs : Bytes) (h : (b0 == objEndMarker) = false) :
    dispatch (mk S ⟨stObjectDyn, stStart⟩ VS LS lc vt E) (b0 :: bs) =
      { stepLen (mk S ⟨stObjectDyn, stStart⟩ VS LS lc vt E) (b0 :: bs) ⟨stObjectDyn, stFieldNameLen⟩
        with done := false } := by
  simp +decide [dispatch, mk, stepObjectDyn, St.withStep, h]

theorem disp_objCount_fieldName (ty : StateType) (hty : ty = stObjectCount ∨ ty = stObjectTyped) (h0 : lc ≠ 0)
    (b : Bytes) :
    dispatch (mk S ⟨ty, stFieldName⟩ VS LS lc vt E) b =
      { stepLen (mk S ⟨ty, stFieldName⟩ VS LS lc vt E) b ⟨ty, stFieldNameLen⟩ with done := false } := by
  rcases hty with rfl | rfl <;>
    simp +decide [dispatch, mk, stepObjectCount, stepObjectTyped, stepObjectCountedContent, St.withStep, h0]

end len

/-! ## strings and high-precision numbers -/

section str
variable (S : List St) (c : St) (VS : StateStack) (LS : List Int) (lc : Int) (vt : Nat) (E : List Ev)

/-- a string body that the input does not complete is buffered -/
theorem strWithLen_short (ty : StateType) (n : Nat) (b : Bytes) (h : b.length < n) :
    strWithLen (mk (c :: S) ⟨ty, stWithLen⟩ VS (lc :: LS) n vt E) b =
      ⟨mkP (c :: S) ⟨ty, stWithLen⟩ VS (lc :: LS) n vt E noMarker b, [], false, none⟩ := by
  have hc := collectP_short (mk (c :: S) ⟨ty, stWithLen⟩ VS (lc :: LS) (n : Nat) vt E) rfl b n h
  have h1 : (((n : Nat) : Int) == 0) = false := by
    have : (n : Int) ≠ 0 := by omega
    simpa using this
  have h2 : ¬ (((n : Nat) : Int) < 0) := by omega
  unfold strWithLen
  simp only [mk] at hc ⊢
  simp only [h1, h2, Int.toNat_natCast, hc, strFin_false, Bool.false_eq_true, if_false]
  rfl

/-- STRINGS: the step from the start state of `S` / `H` fails, or parks a partial length or a
partial body, or the input begins with a length and that many bytes -/
theorem string_conv (ty : StateType) (hty : ty = stString ∨ ty = stHighPrec) (b : Bytes) (hb : b ≠ []) :
    (execStep (mk (c :: S) ⟨ty, stStart⟩ VS LS lc vt E) b).err ≠ none ∨
    (∃ st' LS' lc' m buf, execStep (mk (c :: S) ⟨ty, stStart⟩ VS LS lc vt E) b =
      ⟨mkP (c :: S) ⟨ty, st'⟩ VS LS' lc' vt E m buf, [], false, none⟩) ∨
    (∃ w s rest, b = lenWire w s.length ++ (s ++ rest) ∧ LW.fits w s.length = true) := by
  have hd : dispatch (mk (c :: S) ⟨ty, stStart⟩ VS LS lc vt E) b =
      stepString (mk (c :: S) ⟨ty, stStart⟩ VS LS lc vt E) b := by
    rcases hty with rfl | rfl <;> rfl
  have hcur : (mk (c :: S) ⟨ty, stStart⟩ VS LS lc vt E).state.current = ⟨ty, stStart⟩ := rfl
  rw [stepString_eq] at hd
  simp only [hcur, St.withStep] at hd
  rcases stepLen_conv (c :: S) ⟨ty, stStart⟩ VS LS lc vt E b hb ⟨ty, stWithLen⟩ with he | ⟨m, buf, he⟩ |
    ⟨w, n, rest1, rfl, hf⟩
  · left
    have hcond : (!((stepLen (mk (c :: S) ⟨ty, stStart⟩ VS LS lc vt E) b ⟨ty, stWithLen⟩).err.isNone &&
        (stepLen (mk (c :: S) ⟨ty, stStart⟩ VS LS lc vt E) b ⟨ty, stWithLen⟩).p.state.current.step == stWithLen)) = true := by
      cases h : (stepLen (mk (c :: S) ⟨ty, stStart⟩ VS LS lc vt E) b ⟨ty, stWithLen⟩).err with
      | none => exact absurd h he
      | some e => simp
    simp only [hcond, if_true, strFin_false] at hd
    rw [(execStep_of_dispatch hd).1]
    exact he
  · right; left
    rw [he] at hd
    have : (mkP (c :: S) ⟨ty, stStart⟩ VS LS lc vt E m buf).state.current.step = stStart := rfl
    simp only [this, strFin_false] at hd
    simp +decide only [Option.isNone_none, Bool.true_and, Bool.not_false, if_true] at hd
    exact ⟨stStart, LS, lc, m, buf, (execStep_of_dispatch hd).2 rfl⟩
  · have hl := stepLen_lenWire (c :: S) ⟨ty, stStart⟩ VS LS lc vt E w n hf rest1 ⟨ty, stWithLen⟩
    rw [hl] at hd
    have : (mk (c :: S) ⟨ty, stWithLen⟩ VS (lc :: LS) n vt E).state.current.step = stWithLen := rfl
    simp only [this, Option.isNone_none, Bool.true_and, beq_self_eq_true, Bool.not_true, Bool.false_eq_true,
      if_false] at hd
    by_cases hlen : rest1.length < n
    · right; left
      rw [strWithLen_short S c VS LS lc vt E ty n rest1 hlen] at hd
      exact ⟨stWithLen, lc :: LS, n, noMarker, rest1, (execStep_of_dispatch hd).2 rfl⟩
    · right; right
      obtain ⟨s, rest, rfl, hs⟩ := split_at rest1 n (by omega)
      exact ⟨w, s, rest, by rw [hs], by rw [hs]; exact hf⟩

end str

/-! ## keys -/

section key
variable (S : List St) (VS : StateStack) (LS : List Int) (lc : Int) (vt : Nat) (E : List Ev)

/-- a key that the input does not complete is buffered -/
theorem fieldName_short (ty : StateType) (l0 : Int) (n : Nat) (b : Bytes) (h : b.length < n) :
    fieldName (mk S ⟨ty, stFieldNameLen⟩ VS (l0 :: LS) n vt E) b =
      ⟨mkP S ⟨ty, stFieldNameLen⟩ VS (l0 :: LS) n vt E noMarker b, [], false, none⟩ := by
  have hc := collectP_short (mk S ⟨ty, stFieldNameLen⟩ VS (l0 :: LS) (n : Nat) vt E) rfl b n h
  have h2 : ¬ (((n : Nat) : Int) < 0) := by omega
  unfold fieldName
  simp only [mk] at hc ⊢
  simp only [h2, if_false, Int.toNat_natCast, hc]
  rfl

theorem setDone_false {r : R} (h : r.done = false) : ({ r with done := false } : R) = r := by
  cases r; simp only at h; subst h; rfl

theorem disp_key (ty : StateType) (hty : ty = stObjectDyn ∨ ty = stObjectCount ∨ ty = stObjectTyped) (l0 : Int)
    (n : Nat) (b : Bytes) :
    dispatch (mk S ⟨ty, stFieldNameLen⟩ VS (l0 :: LS) n vt E) b =
      { fieldName (mk S ⟨ty, stFieldNameLen⟩ VS (l0 :: LS) n vt E) b with done := false } := by
  rcases hty with rfl | rfl | rfl
  · rw [setDone_false (fieldName_done _ _)]
    simp +decide [dispatch, mk, stepObjectDyn]
  · simp +decide [dispatch, mk, stepObjectCount, stepObjectCountedContent]
  · simp +decide [dispatch, mk, stepObjectTyped, stepObjectCountedContent]

/-- KEYS: with the key's length read, the step parks a partial key or the input begins with
the key -/
theorem key_conv (ty : StateType) (hty : ty = stObjectDyn ∨ ty = stObjectCount ∨ ty = stObjectTyped) (l0 : Int)
    (n : Nat) (b : Bytes) :
    (∃ buf, execStep (mk S ⟨ty, stFieldNameLen⟩ VS (l0 :: LS) n vt E) b =
      ⟨mkP S ⟨ty, stFieldNameLen⟩ VS (l0 :: LS) n vt E noMarker buf, [], false, none⟩ ∧ n ≠ 0) ∨
    (∃ k rest, b = k ++ rest ∧ k.length = n ∧
      execStep (mk S ⟨ty, stFieldNameLen⟩ VS (l0 :: LS) n vt E) b =
        ⟨mk S ⟨ty, stCont⟩ VS LS l0 vt (.key k :: E), rest, false, none⟩) := by
  by_cases hlen : b.length < n
  · left
    have hd := disp_key S VS LS vt E ty hty l0 n b
    rw [fieldName_short S VS LS vt E ty l0 n b hlen] at hd
    exact ⟨b, (execStep_of_dispatch hd).2 rfl, by omega⟩
  · right
    obtain ⟨k, rest, rfl, hk⟩ := split_at b n (by omega)
    refine ⟨k, rest, rfl, hk, ?_⟩
    subst hk
    rcases hty with rfl | rfl | rfl
    · exact step_objDyn_key S VS LS vt E l0 k rest
    · exact step_objCount_key S VS LS vt E _ (Or.inl rfl) l0 k rest
    · exact step_objCount_key S VS LS vt E _ (Or.inr rfl) l0 k rest

end key

/-! ## values: the marker -/

/-- `markerToStartState` as a table -/
def startTable : List (UInt8 × St) :=
  [(nullMarker, ⟨stFixed, stNil⟩), (noopMarker, ⟨stFixed, stNoop⟩), (trueMarker, ⟨stFixed, stTrue⟩),
   (falseMarker, ⟨stFixed, stFalse⟩), (int8Marker, ⟨stFixed, stInt8⟩), (uint8Marker, ⟨stFixed, stUInt8⟩),
   (int16Marker, ⟨stFixed, stInt16⟩), (int32Marker, ⟨stFixed, stInt32⟩), (int64Marker, ⟨stFixed, stInt64⟩),
   (float32Marker, ⟨stFixed, stFloat32⟩), (float64Marker, ⟨stFixed, stFloat64⟩),
   (highPrecMarker, ⟨stHighPrec, stStart⟩), (charMarker, ⟨stFixed, stChar⟩), (stringMarker, ⟨stString, stStart⟩),
   (objStartMarker, ⟨stObject, stStart⟩), (arrStartMarker, ⟨stArray, stStart⟩)]

theorem start_table_all : ∀ n : Fin 256,
    (match markerToStartState (UInt8.ofNat n.val) with
     | none => true
     | some st => decide ((UInt8.ofNat n.val, st) ∈ startTable)) = true := by decide +kernel

theorem start_cases {m : UInt8} {st : St} (h : markerToStartState m = some st) : (m, st) ∈ startTable := by
  have := start_table_all ⟨m.toNat, m.toNat_lt⟩
  simp only [UInt8.ofNat_toNat] at this
  rw [h] at this
  simpa using this

section value
variable (S : List St) (c : St) (VS : StateStack) (LS : List Int) (lc : Int) (vt : Nat) (E : List Ev)

/-- VALUES, the marker: `stepValue` fails (unknown marker), skips a no-op, delivers `Z` / `T` /
`F`, or enters the start state of the marker -/
theorem stepValue_conv (hc : c.type ≠ stFail) (m : UInt8) (bs : Bytes) :
    (stepValue (mk S c VS LS lc vt E) (m :: bs)).err ≠ none ∨
    (m = noopMarker ∧ stepValue (mk S c VS LS lc vt E) (m :: bs) = ⟨mk S c VS LS lc vt E, bs, false, none⟩) ∨
    (∃ x : LItem, x.marker = m ∧ x.payload = [] ∧ x.ok = true ∧
      stepValue (mk S c VS LS lc vt E) (m :: bs) = ⟨mk S c VS LS lc vt (x.events.reverse ++ E), bs, true, none⟩) ∨
    (∃ st, markerToStartState m = some st ∧ (m == noopMarker) = false ∧
      stepValue (mk S c VS LS lc vt E) (m :: bs) = ⟨mk (c :: S) st VS LS lc vt E, bs, false, none⟩) := by
  have hc' : (c.type != stFail) = true := by simpa using hc
  cases h : markerToStartState m with
  | none => left; simp [stepValue, h]
  | some st =>
    have ht := start_cases h
    simp only [startTable, List.mem_cons, Prod.mk.injEq, List.not_mem_nil, or_false] at ht
    rcases ht with ⟨rfl, rfl⟩ | ⟨rfl, rfl⟩ | ⟨rfl, rfl⟩ | ⟨rfl, rfl⟩ | ⟨rfl, rfl⟩ | ⟨rfl, rfl⟩ | ⟨rfl, rfl⟩ |
      ⟨rfl, rfl⟩ | ⟨rfl, rfl⟩ | ⟨rfl, rfl⟩ | ⟨rfl, rfl⟩ | ⟨rfl, rfl⟩ | ⟨rfl, rfl⟩ | ⟨rfl, rfl⟩ | ⟨rfl, rfl⟩ |
      ⟨rfl, rfl⟩
    · exact Or.inr (Or.inr (Or.inl ⟨.null, rfl, rfl, rfl, by
        simp +decide [stepValue, markerToStartState, visit, mk, LItem.events, LItem.erase, Item.events]⟩))
    · exact Or.inr (Or.inl ⟨rfl, by simp +decide [stepValue, markerToStartState, mk]⟩)
    · exact Or.inr (Or.inr (Or.inl ⟨.tru, rfl, rfl, rfl, by
        simp +decide [stepValue, markerToStartState, visit, mk, LItem.events, LItem.erase, Item.events]⟩))
    · exact Or.inr (Or.inr (Or.inl ⟨.fals, rfl, rfl, rfl, by
        simp +decide [stepValue, markerToStartState, visit, mk, LItem.events, LItem.erase, Item.events]⟩))
    all_goals
      exact Or.inr (Or.inr (Or.inr ⟨_, h, by decide, by
        simp +decide [stepValue, markerToStartState, mk, advanceMarker, pushState, StateStack.push, hc']⟩))

end value

/-! ## the states that read a value -/

/-- two step results that agree in everything but `done` -/
def SameAs (r r' : R) : Prop := r.p = r'.p ∧ r.rest = r'.rest ∧ r.err = r'.err

theorem sameAs_setDone (r : R) (d : Bool) : SameAs { r with done := d } r := ⟨rfl, rfl, rfl⟩
theorem sameAs_refl (r : R) : SameAs r r := ⟨rfl, rfl, rfl⟩

/-- a step whose dispatch is `stepValue` (up to `done`) -/
theorem execStep_sameAs {p : P} {b : Bytes} {r : R} (h : SameAs (dispatch p b) r) :
    (execStep p b).err = r.err ∧ (r.err = none → (execStep p b).p = r.p ∧ (execStep p b).rest = r.rest) := by
  obtain ⟨h1, h2, h3⟩ := h
  obtain ⟨k1, k2⟩ := execStep_of_dispatch (p := p) (b := b) rfl
  refine ⟨k1.trans h3, fun he => ?_⟩
  rw [k2 (h3.trans he)]
  exact ⟨h1, h2⟩

section valpos
variable (S : List St) (VS : StateStack) (LS : List Int) (lc : Int) (vt : Nat) (E : List Ev)

theorem pos_top (b : Bytes) :
    SameAs (dispatch (mk [] ⟨stNext, stStart⟩ VS LS lc vt E) b) (stepValue (mk [] ⟨stNext, stStart⟩ VS LS lc vt E) b) :=
  sameAs_refl _

theorem pos_arrDyn (b0 : UInt8) (bs : Bytes) (h : (b0 == arrEndMarker) = false) :
    SameAs (dispatch (mk S ⟨stArrayDyn, stCont⟩ VS LS lc vt E) (b0 :: bs))
      (stepValue (mk S ⟨stArrayDyn, stCont⟩ VS LS lc vt E) (b0 :: bs)) := by
  have : dispatch (mk S ⟨stArrayDyn, stCont⟩ VS LS lc vt E) (b0 :: bs) =
      { stepValue (mk S ⟨stArrayDyn, stCont⟩ VS LS lc vt E) (b0 :: bs) with done := false } := by
    simp [dispatch, stepArrayDyn, mk, h]
  rw [this]; exact sameAs_setDone _ _

theorem pos_arrCount (b0 : UInt8) (bs : Bytes) (h : lc ≠ 0) (hn : (b0 == noopMarker) = false) :
    SameAs (dispatch (mk S ⟨stArrayCount, stCont⟩ VS LS lc vt E) (b0 :: bs))
      (stepValue (mk S ⟨stArrayCount, stCont⟩ VS LS (lc - 1) vt E) (b0 :: bs)) := by
  have : dispatch (mk S ⟨stArrayCount, stCont⟩ VS LS lc vt E) (b0 :: bs) =
      { stepValue (mk S ⟨stArrayCount, stCont⟩ VS LS (lc - 1) vt E) (b0 :: bs) with done := false } := by
    simp +decide [dispatch, stepArrayCount, mk, h, hn, decLen]
  rw [this]; exact sameAs_setDone _ _

theorem pos_objDyn (b0 : UInt8) (bs : Bytes) (hn : (b0 == noopMarker) = false) :
    SameAs (dispatch (mk S ⟨stObjectDyn, stCont⟩ VS LS lc vt E) (b0 :: bs))
      (stepValue (mk S ⟨stObjectDyn, stStart⟩ VS LS lc vt E) (b0 :: bs)) := by
  have : dispatch (mk S ⟨stObjectDyn, stCont⟩ VS LS lc vt E) (b0 :: bs) =
      { stepValue (mk S ⟨stObjectDyn, stStart⟩ VS LS lc vt E) (b0 :: bs) with done := false } := by
    simp +decide [dispatch, stepObjectDyn, mk, hn, setStep, setCurrent]
  rw [this]; exact sameAs_setDone _ _

theorem pos_objCount (b0 : UInt8) (bs : Bytes) (hn : (b0 == noopMarker) = false) :
    SameAs (dispatch (mk S ⟨stObjectCount, stCont⟩ VS LS lc vt E) (b0 :: bs))
      (stepValue (mk S ⟨stObjectCount, stFieldName⟩ VS LS (lc - 1) vt E) (b0 :: bs)) := by
  have : dispatch (mk S ⟨stObjectCount, stCont⟩ VS LS lc vt E) (b0 :: bs) =
      { stepValue (mk S ⟨stObjectCount, stFieldName⟩ VS LS (lc - 1) vt E) (b0 :: bs) with done := false } := by
    simp +decide [dispatch, stepObjectCount, stepObjectCountedContent, mk, hn, setStep, setCurrent, decLen]
  rw [this]; exact sameAs_setDone _ _

/-- no-ops between a key and its value are skipped -/
theorem step_objDyn_noop (bs : Bytes) :
    execStep (mk S ⟨stObjectDyn, stCont⟩ VS LS lc vt E) (noopMarker :: bs) =
      ⟨mk S ⟨stObjectDyn, stCont⟩ VS LS lc vt E, bs, false, none⟩ := by
  simp +decide [execStep, stepObjectDyn, mk]

theorem step_objCount_noop (bs : Bytes) :
    execStep (mk S ⟨stObjectCount, stCont⟩ VS LS lc vt E) (noopMarker :: bs) =
      ⟨mk S ⟨stObjectCount, stCont⟩ VS LS lc vt E, bs, false, none⟩ := by
  simp +decide [execStep, stepObjectCount, stepObjectCountedContent, mk]

end valpos

/-! ## typed containers: the header -/

section typed
variable (S : List St) (VS : StateStack) (LS : List Int) (lc : Int) (vt : Nat) (E : List Ev)

/-- the element type: an error (unknown marker, or `N`), or the header step of the refinement proof -/
theorem typed_type_conv (ty : StateType) (hty : ty = stArrayTyped ∨ ty = stObjectTyped) (t : UInt8) (bs : Bytes) :
    (execStep (mk S ⟨ty, stStart⟩ VS LS lc vt E) (t :: bs)).err ≠ none ∨
    (∃ st, markerToStartState t = some st ∧ (t == noopMarker) = false) := by
  cases h : markerToStartState t with
  | none =>
    left
    rcases hty with rfl | rfl <;>
      simp +decide [execStep, stepArrayTyped, stepObjectTyped, stepTypeLenHeader, stepType, mk, h, setCurrent,
        St.withStep]
  | some st =>
    by_cases hn : (t == noopMarker) = true
    · left
      rcases hty with rfl | rfl <;>
        simp +decide [execStep, stepArrayTyped, stepObjectTyped, stepTypeLenHeader, stepType, mk, h, hn,
          setCurrent, St.withStep]
    · exact Or.inr ⟨st, rfl, by simpa using hn⟩

/-- after the element type: `#`, anything else is an error -/
theorem typed_hash_conv (ty : StateType) (hty : ty = stArrayTyped ∨ ty = stObjectTyped) (b0 : UInt8) (bs : Bytes)
    (h : (b0 == countMarker) = false) :
    (execStep (mk S ⟨ty, stWithType0⟩ VS LS lc vt E) (b0 :: bs)).err ≠ none := by
  have h' : (b0 != countMarker) = true := by simp only [bne, h]; rfl
  rcases hty with rfl | rfl <;>
    simp +decide [execStep, stepArrayTyped, stepObjectTyped, stepTypeLenHeader, mk, h']

end typed

/-! ## counted containers announced at the end of the input -/

section counted
variable (S : List St) (VS : StateStack) (LS : List Int) (vt : Nat) (E : List Ev)

theorem step_arrCount_withLen_nil (n : Nat) (hn : n ≠ 0) :
    execStep (mk S ⟨stArrayCount, stWithLen⟩ VS LS n vt E) [] =
      ⟨mk S ⟨stArrayCount, stCont⟩ VS LS n vt (.arrStart n BT.any :: E), [], false, none⟩ := by
  have h1 : 0 < n := by omega
  simp +decide [execStep, stepArrayCount_eq, mk, setStep, setCurrent, visit, h1]

theorem step_objCount_withLen_nil (ty : StateType) (hty : ty = stObjectCount ∨ ty = stObjectTyped) (n : Nat)
    (hn : n ≠ 0) :
    execStep (mk S ⟨ty, stWithLen⟩ VS LS n vt E) [] =
      ⟨mk S ⟨ty, stFieldName⟩ VS LS n vt (.objStart n BT.any :: E), [], false, none⟩ := by
  have h1 : ((n : Int) == 0) = false := by
    have : (n : Int) ≠ 0 := by omega
    simpa using this
  rcases hty with rfl | rfl <;>
    simp +decide [execStep, stepObjectCount, stepObjectTyped, stepObjectCountedContent, mk, setStep, setCurrent,
      visit, h1]

end counted

end SF.Ubjson.Conv
