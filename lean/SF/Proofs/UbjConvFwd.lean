/-
  C06 for the UBJSON parser mirror, the refinement direction FOR THE LENIENT GRAMMAR `LItem`
  and WITHOUT FUEL: for every stream of well-formed `LItem`s (no-ops between keys and values
  of plain and counted objects included) the fuel-free main loop `Runs`
  (SF/Proofs/UbjChunkRun.lean) runs from the fresh parser over the stream's wire form without
  error into the idle state, having delivered exactly the items' events.  With
  SF/Proofs/UbjConvInd.lean this makes the description of the accepted inputs EXACT.
  (SF/Proofs/UbjRef{ine,Body}.lean in continuation-passing form: `RunsTo p b p' b'` — a run
  from `p` over `b` comes to a run from `p'` over `b'`.)
-/
import SF.Proofs.UbjConvInd
set_option linter.unusedSimpArgs false
set_option linter.unusedVariables false
namespace SF.Ubjson.Conv
open SF SF.Ubjson SF.Ubjson.Parse SF.Ubjson.Chunk SF.Ubjson.Syn
open StateType StateStep

/-- a run from `p` over `b` comes to a run from `p'` over `b'` -/
def RunsTo (p : P) (b : Bytes) (p' : P) (b' : Bytes) : Prop := ∀ q e, Runs p' b' q e → Runs p b q e

theorem RunsTo.refl (p : P) (b : Bytes) : RunsTo p b p b := fun _ _ h => h

theorem RunsTo.trans {p p1 p2 : P} {b b1 b2 : Bytes} (h1 : RunsTo p b p1 b1) (h2 : RunsTo p1 b1 p2 b2) :
    RunsTo p b p2 b2 := fun q e h => h1 q e (h2 q e h)

theorem runsTo_step {p p' : P} {b b' : Bytes} {d : Bool} (hm : More p b) (he : execStep p b = ⟨p', b', d, none⟩) :
    RunsTo p b p' b' := by
  intro q e h
  have h1 : (execStep p b).err = none := by rw [he]
  refine Runs.step hm h1 ?_
  rw [he]; exact h

theorem runsTo_congr {p p' : P} {b : Bytes} (hm : More p b) (hm' : More p' b) (he : execStep p b = execStep p' b) :
    RunsTo p b p' b := by
  intro q e h
  cases h with
  | stop hn => exact absurd hm' hn
  | err _ he' => rw [← he]; exact Runs.err hm (by rw [he]; exact he')
  | step _ he' h' => exact Runs.step hm (by rw [he]; exact he') (by rw [he]; exact h')

/-- PAYLOAD LEMMA, fuel-free: from the item's start state pushed on any configuration, over the
item's payload followed by anything, the run comes to the configuration below with exactly
the item's events delivered -/
def FPL (x : LItem) : Prop :=
  ∀ (S : List St) (c : St) (VS : StateStack) (LS : List Int) (lc : Int) (vt : Nat) (E : List Ev) (rest : Bytes),
    VSok VS →
    ∃ vt', RunsTo (mk (c :: S) (istart x.erase) VS LS lc vt E) (x.payload ++ rest)
      (mk S c VS LS lc vt' (x.events.reverse ++ E)) rest

/-- one step does it -/
theorem fpl_of_step (x : LItem)
    (h : ∀ (S : List St) (c : St) (VS : StateStack) (LS : List Int) (lc : Int) (vt : Nat) (E : List Ev) (rest : Bytes),
      More (mk (c :: S) (istart x.erase) VS LS lc vt E) (x.payload ++ rest) ∧
      execStep (mk (c :: S) (istart x.erase) VS LS lc vt E) (x.payload ++ rest) =
        ret S c VS LS lc vt (x.events.reverse ++ E) rest) : FPL x := by
  intro S c VS LS lc vt E rest _
  obtain ⟨hm, he⟩ := h S c VS LS lc vt E rest
  exact ⟨vt, runsTo_step hm he⟩

/-! ## scalars and strings -/

theorem fpl_null : FPL .null := fpl_of_step _ fun S c VS LS lc vt E rest => ⟨Or.inr rfl, step_nil S c VS LS lc vt E rest⟩
theorem fpl_tru : FPL .tru := fpl_of_step _ fun S c VS LS lc vt E rest => ⟨Or.inr rfl, step_true S c VS LS lc vt E rest⟩
theorem fpl_fals : FPL .fals :=
  fpl_of_step _ fun S c VS LS lc vt E rest => ⟨Or.inr rfl, step_false S c VS LS lc vt E rest⟩

theorem fpl_int (k : IK) (v : Int) (h : k.inRange v = true) : FPL (.int k v) := by
  apply fpl_of_step
  intro S c VS LS lc vt E rest
  have hlen := twos_length k.bytes v
  simp only [IK.inRange, NumKind.inRange, Bool.and_eq_true, decide_eq_true_eq] at h
  simp only [LItem.erase, istart, LItem.payload, LItem.events, Item.events]
  cases k
  · simp only [IK.bytes] at hlen ⊢
    obtain ⟨b0, hb⟩ := single_of_length hlen
    have hr : readInt8 b0 = v := by
      have := toSigned_twos_1 v (by simpa [IK.kind, NumKind.lo] using h.1) (by simpa [IK.kind, NumKind.hi] using h.2)
      rw [hb, beNat_single] at this; exact this
    rw [hb]
    exact ⟨Or.inl (by simp), by rw [List.cons_append, List.nil_append, IKstep, step_int8, hr]; rfl⟩
  · simp only [IK.bytes] at hlen ⊢
    obtain ⟨b0, hb⟩ := single_of_length hlen
    have hr : (b0.toNat : Int) = v := by
      have h1 : 0 ≤ v := by simpa [IK.kind, NumKind.lo] using h.1
      have h2 : v ≤ 255 := by simpa [IK.kind, NumKind.hi] using h.2
      have hm : (v % 256).toNat < 256 ^ 1 := by omega
      have := beNat_beBytes 1 (v % 256).toNat hm
      have hb' : Enc.twos 1 v = beBytes 1 (v % 256).toNat := by simp [Enc.twos]
      rw [← hb', hb, beNat_single] at this
      omega
    rw [hb]
    exact ⟨Or.inl (by simp), by rw [List.cons_append, List.nil_append, IKstep, step_uint8, hr]; rfl⟩
  · simp only [IK.bytes] at hlen ⊢
    have hr := toSigned_twos_2 v (by simpa [IK.kind, NumKind.lo] using h.1) (by simpa [IK.kind, NumKind.hi] using h.2)
    exact ⟨Or.inl (append_ne_nil_of_length hlen (by omega)),
      by rw [IKstep, step_int16 _ _ _ _ _ _ _ _ hlen, readInt16, hr]; rfl⟩
  · simp only [IK.bytes] at hlen ⊢
    have hr := toSigned_twos_4 v (by simpa [IK.kind, NumKind.lo] using h.1) (by simpa [IK.kind, NumKind.hi] using h.2)
    exact ⟨Or.inl (append_ne_nil_of_length hlen (by omega)),
      by rw [IKstep, step_int32 _ _ _ _ _ _ _ _ hlen, readInt32, hr]; rfl⟩
  · simp only [IK.bytes] at hlen ⊢
    have hr := toSigned_twos_8 v (by simpa [IK.kind, NumKind.lo] using h.1) (by simpa [IK.kind, NumKind.hi] using h.2)
    exact ⟨Or.inl (append_ne_nil_of_length hlen (by omega)),
      by rw [IKstep, step_int64 _ _ _ _ _ _ _ _ hlen, readInt64, hr]; rfl⟩

theorem fpl_f32 (b : UInt32) : FPL (.f32 b) := by
  apply fpl_of_step
  intro S c VS LS lc vt E rest
  simp only [LItem.erase, istart, LItem.payload, LItem.events, Item.events]
  have hlen : (beBytes 4 b.toNat).length = 4 := by simp
  have hr : readFloat32 (beBytes 4 b.toNat) = b := by
    simp only [readFloat32]
    rw [beNat_beBytes 4 _ (by have := b.toNat_lt; omega)]
    simp
  exact ⟨Or.inl (append_ne_nil_of_length hlen (by omega)), by rw [step_float32 _ _ _ _ _ _ _ _ hlen, hr]; rfl⟩

theorem fpl_f64 (b : UInt64) : FPL (.f64 b) := by
  apply fpl_of_step
  intro S c VS LS lc vt E rest
  simp only [LItem.erase, istart, LItem.payload, LItem.events, Item.events]
  have hlen : (beBytes 8 b.toNat).length = 8 := by simp
  have hr : readFloat64 (beBytes 8 b.toNat) = b := by
    simp only [readFloat64]
    rw [beNat_beBytes 8 _ (by have := b.toNat_lt; omega)]
    simp
  exact ⟨Or.inl (append_ne_nil_of_length hlen (by omega)), by rw [step_float64 _ _ _ _ _ _ _ _ hlen, hr]; rfl⟩

theorem fpl_char (ch : UInt8) : FPL (.char ch) := by
  apply fpl_of_step
  intro S c VS LS lc vt E rest
  simp only [LItem.erase, istart, LItem.payload, LItem.events, Item.events]
  exact ⟨Or.inl (by simp), by rw [step_char _ _ _ _ _ _ _ [ch] rfl, beNat_single]; rfl⟩

theorem fpl_str (w : LW) (s : Bytes) (h : w.fits s.length = true) : FPL (.str w s) := by
  apply fpl_of_step
  intro S c VS LS lc vt E rest
  simp only [LItem.erase, istart, LItem.payload, LItem.events, Item.events, List.append_assoc]
  exact ⟨Or.inl (by simp [lenWire]), by rw [step_string _ _ _ _ _ _ _ stString (Or.inl rfl) w s rest h]; rfl⟩

theorem fpl_hp (w : LW) (s : Bytes) (h : w.fits s.length = true) : FPL (.hp w s) := by
  apply fpl_of_step
  intro S c VS LS lc vt E rest
  simp only [LItem.erase, istart, LItem.payload, LItem.events, Item.events, List.append_assoc]
  exact ⟨Or.inl (by simp [lenWire]), by rw [step_string _ _ _ _ _ _ _ stHighPrec (Or.inr rfl) w s rest h]; rfl⟩

/-! ## a value where a value is read -/

/-- the step `stepValue` takes on an item's marker, then the item's payload -/
theorem value_fwd (x : LItem) (hx : FPL x) (S : List St) (c : St) (VS : StateStack) (LS : List Int) (lc : Int)
    (vt : Nat) (E : List Ev) (rest : Bytes) (hv : VSok VS) (hc : c.type ≠ stFail) {cfg : P}
    (hpos : SameAs (dispatch cfg (x.erase.marker :: (x.payload ++ rest)))
      (stepValue (mk S c VS LS lc vt E) (x.erase.marker :: (x.payload ++ rest)))) :
    ∃ vt', RunsTo cfg (x.erase.marker :: (x.payload ++ rest)) (mk S c VS LS lc vt' (x.events.reverse ++ E)) rest := by
  have hsv := stepValue_item S c VS LS lc vt E x.erase (x.payload ++ rest) hc
  obtain ⟨e1, e2⟩ := execStep_sameAs hpos
  by_cases hl : isLit x.erase = true
  · simp only [hl, if_true] at hsv
    obtain ⟨e3, e4⟩ := e2 (by rw [hsv])
    have hp : x.payload = [] := by
      cases x <;> simp [isLit, LItem.erase] at hl <;> rfl
    refine ⟨vt, fun q e h => ?_⟩
    refine Runs.step (more_cons _ _ _) (by rw [e1, hsv]) ?_
    rw [e3, e4, hsv]
    simpa [hp, LItem.events] using h
  · have hl' : isLit x.erase = false := by simpa using hl
    simp only [hl', Bool.false_eq_true, if_false] at hsv
    obtain ⟨e3, e4⟩ := e2 (by rw [hsv])
    obtain ⟨vt', h1⟩ := hx S c VS LS lc vt E rest hv
    refine ⟨vt', fun q e h => ?_⟩
    refine Runs.step (more_cons _ _ _) (by rw [e1, hsv]) ?_
    rw [e3, e4, hsv]
    exact h1 q e h

/-! ## container bodies -/

def FDyn (xs : List (Nat × LItem)) : Prop :=
  ∀ (S : List St) (c : St) (VS : StateStack) (LS : List Int) (lc : Int) (vt : Nat) (E : List Ev) (t : Nat)
    (rest : Bytes), VSok VS →
    ∃ vt', RunsTo (mk (c :: S) ⟨stArrayDyn, stCont⟩ VS LS lc vt E) (lwireElems xs ++ (noops t ++ arrEndMarker :: rest))
      (mk S c VS LS lc vt' (.arrEnd :: ((levElems xs).reverse ++ E))) rest

def FCnt (xs : List (Nat × LItem)) : Prop :=
  ∀ (S : List St) (c : St) (VS : StateStack) (LS : List Int) (l0 : Int) (vt : Nat) (E : List Ev) (rest : Bytes),
    VSok VS →
    ∃ vt', RunsTo (mk (c :: S) ⟨stArrayCount, stCont⟩ VS (l0 :: LS) xs.length vt E) (lwireElems xs ++ rest)
      (mk S c VS LS l0 vt' (.arrEnd :: ((levElems xs).reverse ++ E))) rest

def FTyp (xs : List LItem) : Prop :=
  ∀ (S : List St) (c : St) (VS : StateStack) (LS : List Int) (l0 : Int) (vt : Nat) (E : List Ev) (rest : Bytes),
    VSok VS → (∀ x ∈ xs, istart x.erase = VS.current) →
    ∃ vt', RunsTo (mk (c :: S) ⟨stArrayTyped, stCont⟩ VS (l0 :: LS) xs.length vt E) (lpayList xs ++ rest)
      (mk S c VS.pop LS l0 vt' (.arrEnd :: ((levList xs).reverse ++ E))) rest

def FDynM (ms : List (LW × Bytes × Nat × LItem)) : Prop :=
  ∀ (S : List St) (c : St) (VS : StateStack) (LS : List Int) (lc : Int) (vt : Nat) (E : List Ev) (rest : Bytes),
    VSok VS →
    ∃ vt', RunsTo (mk (c :: S) ⟨stObjectDyn, stStart⟩ VS LS lc vt E) (lwireMems ms ++ objEndMarker :: rest)
      (mk S c VS LS lc vt' (.objEnd :: ((levMems ms).reverse ++ E))) rest

def FCntM (ms : List (LW × Bytes × Nat × LItem)) : Prop :=
  ∀ (S : List St) (c : St) (VS : StateStack) (LS : List Int) (l0 : Int) (vt : Nat) (E : List Ev) (rest : Bytes),
    VSok VS →
    ∃ vt', RunsTo (mk (c :: S) ⟨stObjectCount, stFieldName⟩ VS (l0 :: LS) ms.length vt E) (lwireMems ms ++ rest)
      (mk S c VS LS l0 vt' (.objEnd :: ((levMems ms).reverse ++ E))) rest

def FTypM (ms : List (LW × Bytes × LItem)) : Prop :=
  ∀ (S : List St) (c : St) (VS : StateStack) (LS : List Int) (l0 : Int) (vt : Nat) (E : List Ev) (rest : Bytes),
    VSok VS → (∀ m ∈ ms, istart m.2.2.erase = VS.current) →
    ∃ vt', RunsTo (mk (c :: S) ⟨stObjectTyped, stFieldName⟩ VS (l0 :: LS) ms.length vt E) (lpayMems ms ++ rest)
      (mk S c VS.pop LS l0 vt' (.objEnd :: ((levMemsT ms).reverse ++ E))) rest

/-- no-ops in a plain array -/
theorem dyn_noops_fwd (t : Nat) (S : List St) (VS : StateStack) (LS : List Int) (lc : Int) (vt : Nat) (E : List Ev)
    (b : Bytes) :
    RunsTo (mk S ⟨stArrayDyn, stCont⟩ VS LS lc vt E) (noops t ++ b) (mk S ⟨stArrayDyn, stCont⟩ VS LS lc vt E) b := by
  induction t with
  | zero => exact RunsTo.refl _ _
  | succ t ih =>
    rw [noops_succ', List.cons_append]
    exact (runsTo_step (more_cons _ _ _) (step_arrDyn_noop S VS LS lc vt E _)).trans ih

theorem cnt_noops_fwd (t : Nat) (S : List St) (VS : StateStack) (LS : List Int) (lc : Int) (vt : Nat) (E : List Ev)
    (b : Bytes) (h : lc ≠ 0) :
    RunsTo (mk S ⟨stArrayCount, stCont⟩ VS LS lc vt E) (noops t ++ b) (mk S ⟨stArrayCount, stCont⟩ VS LS lc vt E) b := by
  induction t with
  | zero => exact RunsTo.refl _ _
  | succ t ih =>
    rw [noops_succ', List.cons_append]
    exact (runsTo_step (more_cons _ _ _) (step_arrCount_noop S VS LS lc vt E _ h)).trans ih

theorem objDyn_noops_fwd (t : Nat) (S : List St) (VS : StateStack) (LS : List Int) (lc : Int) (vt : Nat) (E : List Ev)
    (b : Bytes) :
    RunsTo (mk S ⟨stObjectDyn, stCont⟩ VS LS lc vt E) (noops t ++ b) (mk S ⟨stObjectDyn, stCont⟩ VS LS lc vt E) b := by
  induction t with
  | zero => exact RunsTo.refl _ _
  | succ t ih =>
    rw [noops_succ', List.cons_append]
    exact (runsTo_step (more_cons _ _ _) (step_objDyn_noop S VS LS lc vt E _)).trans ih

theorem objCount_noops_fwd (t : Nat) (S : List St) (VS : StateStack) (LS : List Int) (lc : Int) (vt : Nat)
    (E : List Ev) (b : Bytes) :
    RunsTo (mk S ⟨stObjectCount, stCont⟩ VS LS lc vt E) (noops t ++ b) (mk S ⟨stObjectCount, stCont⟩ VS LS lc vt E) b := by
  induction t with
  | zero => exact RunsTo.refl _ _
  | succ t ih =>
    rw [noops_succ', List.cons_append]
    exact (runsTo_step (more_cons _ _ _) (step_objCount_noop S VS LS lc vt E _)).trans ih

theorem lmarker_ne (x : LItem) :
    (x.erase.marker == noopMarker) = false ∧ (x.erase.marker == arrEndMarker) = false ∧
    (x.erase.marker == objEndMarker) = false ∧ (x.erase.marker == countMarker) = false ∧
    (x.erase.marker == typeMarker) = false := marker_ne x.erase

theorem fdyn_nil : FDyn [] := by
  intro S c VS LS lc vt E t rest _
  refine ⟨vt, ?_⟩
  simp only [lwireElems, List.nil_append]
  exact (dyn_noops_fwd t (c :: S) VS LS lc vt E _).trans
    (runsTo_step (more_cons _ _ _) (step_arrDyn_end S VS LS lc vt E c rest))

theorem fdyn_cons (n : Nat) (x : LItem) (xs : List (Nat × LItem)) (hx : FPL x) (hxs : FDyn xs) :
    FDyn ((n, x) :: xs) := by
  intro S c VS LS lc vt E t rest hv
  obtain ⟨vt1, h1⟩ := value_fwd x hx (c :: S) ⟨stArrayDyn, stCont⟩ VS LS lc vt E
    (lwireElems xs ++ (noops t ++ arrEndMarker :: rest)) hv (by simp)
    (pos_arrDyn (c :: S) VS LS lc vt E _ _ (lmarker_ne x).2.1)
  obtain ⟨vt2, h2⟩ := hxs S c VS LS lc vt1 (x.events.reverse ++ E) t rest hv
  refine ⟨vt2, ?_⟩
  have e : lwireElems ((n, x) :: xs) ++ (noops t ++ arrEndMarker :: rest) =
      noops n ++ (x.erase.marker :: (x.payload ++ (lwireElems xs ++ (noops t ++ arrEndMarker :: rest)))) := by
    simp [lwireElems]
  rw [e, levElems_cons]
  refine ((dyn_noops_fwd n (c :: S) VS LS lc vt E _).trans h1).trans ?_
  simpa using h2

theorem fcnt_nil : FCnt [] := by
  intro S c VS LS l0 vt E rest _
  exact ⟨vt, runsTo_step (Or.inr rfl) (step_arrCount_end S VS LS vt E c l0 rest)⟩

theorem fcnt_cons (n : Nat) (x : LItem) (xs : List (Nat × LItem)) (hx : FPL x) (hxs : FCnt xs) :
    FCnt ((n, x) :: xs) := by
  intro S c VS LS l0 vt E rest hv
  have hne : ((((n, x) :: xs).length : Nat) : Int) ≠ 0 := by simp; omega
  have hpos := pos_arrCount (c :: S) VS (l0 :: LS) ((((n, x) :: xs).length : Nat) : Int) vt E x.erase.marker
    (x.payload ++ (lwireElems xs ++ rest)) hne (lmarker_ne x).1
  have hlen : ((((n, x) :: xs).length : Nat) : Int) - 1 = (xs.length : Int) := by simp
  rw [hlen] at hpos
  obtain ⟨vt1, h1⟩ := value_fwd x hx (c :: S) ⟨stArrayCount, stCont⟩ VS (l0 :: LS) xs.length vt E
    (lwireElems xs ++ rest) hv (by simp) hpos
  obtain ⟨vt2, h2⟩ := hxs S c VS LS l0 vt1 (x.events.reverse ++ E) rest hv
  refine ⟨vt2, ?_⟩
  have e : lwireElems ((n, x) :: xs) ++ rest =
      noops n ++ (x.erase.marker :: (x.payload ++ (lwireElems xs ++ rest))) := by
    simp [lwireElems]
  rw [e, levElems_cons]
  refine ((cnt_noops_fwd n (c :: S) VS (l0 :: LS) _ vt E _ hne).trans h1).trans ?_
  simpa using h2

theorem ftyp_nil : FTyp [] := by
  intro S c VS LS l0 vt E rest _ _
  exact ⟨vt, runsTo_step (Or.inr rfl) (step_arrTyped_end S VS LS vt E c l0 rest)⟩

theorem ftyp_cons (x : LItem) (xs : List LItem) (hx : FPL x) (hxs : FTyp xs) : FTyp (x :: xs) := by
  intro S c VS LS l0 vt E rest hv hst
  have hne : (((x :: xs).length : Nat) : Int) ≠ 0 := by simp; omega
  have hlen : (((x :: xs).length : Nat) : Int) - 1 = (xs.length : Int) := by simp
  have hsx : VS.current = istart x.erase := (hst x (by simp)).symm
  obtain ⟨vt1, h1⟩ := hx (c :: S) ⟨stArrayTyped, stCont⟩ VS (l0 :: LS) xs.length vt E (lpayList xs ++ rest) hv
  obtain ⟨vt2, h2⟩ := hxs S c VS LS l0 vt1 (x.events.reverse ++ E) rest hv (fun y hy => hst y (by simp [hy]))
  refine ⟨vt2, ?_⟩
  have hs := step_arrTyped_elem (c :: S) VS (l0 :: LS) (((x :: xs).length : Nat) : Int) vt E
    (lpayList (x :: xs) ++ rest) hne
  rw [hlen, hsx] at hs
  have e : lpayList (x :: xs) ++ rest = x.payload ++ (lpayList xs ++ rest) := by simp [lpayList]
  rw [levList_cons]
  refine (runsTo_step (Or.inr rfl) hs).trans ?_
  rw [e]
  refine h1.trans ?_
  simpa using h2

theorem key_fwd (ty : StateType) (hty : ty = stObjectDyn ∨ ty = stObjectCount ∨ ty = stObjectTyped) (S : List St)
    (VS : StateStack) (LS : List Int) (l0 : Int) (vt : Nat) (E : List Ev) (k rest : Bytes)
    (hrest : ty = stObjectDyn → rest ≠ []) :
    RunsTo (mk S ⟨ty, stFieldNameLen⟩ VS (l0 :: LS) k.length vt E) (k ++ rest)
      (mk S ⟨ty, stCont⟩ VS LS l0 vt (.key k :: E)) rest := by
  have hm : More (mk S ⟨ty, stFieldNameLen⟩ VS (l0 :: LS) k.length vt E) (k ++ rest) := by
    cases k with
    | cons a l => exact Or.inl (by simp)
    | nil =>
      by_cases hr : rest = []
      · subst hr
        rcases hty with rfl | rfl | rfl
        · exact absurd rfl (hrest rfl)
        · exact Or.inr (by simp [pending, mk])
        · exact Or.inr (by simp [pending, mk])
      · exact Or.inl (by simpa using hr)
  rcases hty with rfl | rfl | rfl
  · exact runsTo_step hm (step_objDyn_key S VS LS vt E l0 k rest)
  · exact runsTo_step hm (step_objCount_key S VS LS vt E _ (Or.inl rfl) l0 k rest)
  · exact runsTo_step hm (step_objCount_key S VS LS vt E _ (Or.inr rfl) l0 k rest)

theorem lenWire_ne_nil (w : LW) (n : Nat) (b : Bytes) : lenWire w n ++ b ≠ [] := by simp [lenWire]

theorem noops_marker_ne_nil (n : Nat) (m : UInt8) (b : Bytes) : noops n ++ (m :: b) ≠ [] := by
  cases n <;> simp [noops, List.replicate]

theorem fdynM_nil : FDynM [] := by
  intro S c VS LS lc vt E rest _
  exact ⟨vt, runsTo_step (more_cons _ _ _) (step_objDyn_end S VS LS lc vt E c rest)⟩

theorem fdynM_cons (kw : LW) (k : Bytes) (n : Nat) (v : LItem) (ms : List (LW × Bytes × Nat × LItem))
    (hk : kw.fits k.length = true) (hx : FPL v) (hms : FDynM ms) : FDynM ((kw, k, n, v) :: ms) := by
  intro S c VS LS lc vt E rest hv
  obtain ⟨vt1, h1⟩ := value_fwd v hx (c :: S) ⟨stObjectDyn, stStart⟩ VS LS lc vt (.key k :: E)
    (lwireMems ms ++ objEndMarker :: rest) hv (by simp)
    (pos_objDyn (c :: S) VS LS lc vt (.key k :: E) _ _ (lmarker_ne v).1)
  obtain ⟨vt2, h2⟩ := hms S c VS LS lc vt1 (v.events.reverse ++ (.key k :: E)) rest hv
  refine ⟨vt2, ?_⟩
  have e : lwireMems ((kw, k, n, v) :: ms) ++ objEndMarker :: rest =
      lenWire kw k.length ++ (k ++ (noops n ++ (v.erase.marker :: (v.payload ++
        (lwireMems ms ++ objEndMarker :: rest))))) := by
    simp [lwireMems]
  rw [e, levMems_cons]
  refine (runsTo_step (Or.inl (lenWire_ne_nil _ _ _)) (step_objDyn_keyLen (c :: S) VS LS lc vt E kw k.length hk _)).trans ?_
  refine (key_fwd stObjectDyn (Or.inl rfl) (c :: S) VS LS lc vt E k _ (fun _ => noops_marker_ne_nil _ _ _)).trans ?_
  refine (objDyn_noops_fwd n (c :: S) VS LS lc vt (.key k :: E) _).trans ?_
  refine h1.trans ?_
  simpa using h2

theorem fcntM_nil : FCntM [] := by
  intro S c VS LS l0 vt E rest _
  exact ⟨vt, runsTo_step (Or.inr rfl) (step_objCount_end S VS LS vt E c l0 rest)⟩

theorem fcntM_cons (kw : LW) (k : Bytes) (n : Nat) (v : LItem) (ms : List (LW × Bytes × Nat × LItem))
    (hk : kw.fits k.length = true) (hx : FPL v) (hms : FCntM ms) : FCntM ((kw, k, n, v) :: ms) := by
  intro S c VS LS l0 vt E rest hv
  have hne : ((((kw, k, n, v) :: ms).length : Nat) : Int) ≠ 0 := by simp; omega
  have hlen : ((((kw, k, n, v) :: ms).length : Nat) : Int) - 1 = (ms.length : Int) := by simp
  have hpos := pos_objCount (c :: S) VS (l0 :: LS) ((((kw, k, n, v) :: ms).length : Nat) : Int) vt (.key k :: E)
    v.erase.marker (v.payload ++ (lwireMems ms ++ rest)) (lmarker_ne v).1
  rw [hlen] at hpos
  obtain ⟨vt1, h1⟩ := value_fwd v hx (c :: S) ⟨stObjectCount, stFieldName⟩ VS (l0 :: LS) ms.length vt (.key k :: E)
    (lwireMems ms ++ rest) hv (by simp) hpos
  obtain ⟨vt2, h2⟩ := hms S c VS LS l0 vt1 (v.events.reverse ++ (.key k :: E)) rest hv
  refine ⟨vt2, ?_⟩
  have e : lwireMems ((kw, k, n, v) :: ms) ++ rest =
      lenWire kw k.length ++ (k ++ (noops n ++ (v.erase.marker :: (v.payload ++ (lwireMems ms ++ rest))))) := by
    simp [lwireMems]
  rw [e, levMems_cons]
  refine (runsTo_step (Or.inl (lenWire_ne_nil _ _ _))
    (step_objCount_keyLen (c :: S) VS (l0 :: LS) _ vt E stObjectCount (Or.inl rfl) hne kw k.length hk _)).trans ?_
  refine (key_fwd stObjectCount (Or.inr (Or.inl rfl)) (c :: S) VS (l0 :: LS) _ vt E k _ (fun h => by cases h)).trans ?_
  refine (objCount_noops_fwd n (c :: S) VS (l0 :: LS) _ vt (.key k :: E) _).trans ?_
  refine h1.trans ?_
  simpa using h2

theorem ftypM_nil : FTypM [] := by
  intro S c VS LS l0 vt E rest _ _
  exact ⟨vt, runsTo_step (Or.inr rfl) (step_objTyped_end S VS LS vt E c l0 rest)⟩

theorem ftypM_cons (kw : LW) (k : Bytes) (v : LItem) (ms : List (LW × Bytes × LItem))
    (hk : kw.fits k.length = true) (hx : FPL v) (hms : FTypM ms) : FTypM ((kw, k, v) :: ms) := by
  intro S c VS LS l0 vt E rest hv hst
  have hne : ((((kw, k, v) :: ms).length : Nat) : Int) ≠ 0 := by simp; omega
  have hlen : ((((kw, k, v) :: ms).length : Nat) : Int) - 1 = (ms.length : Int) := by simp
  have hsx : VS.current = istart v.erase := (hst (kw, k, v) (by simp)).symm
  obtain ⟨vt1, h1⟩ := hx (c :: S) ⟨stObjectTyped, stFieldName⟩ VS (l0 :: LS) ms.length vt (.key k :: E)
    (lpayMems ms ++ rest) hv
  obtain ⟨vt2, h2⟩ := hms S c VS LS l0 vt1 (v.events.reverse ++ (.key k :: E)) rest hv
    (fun y hy => hst y (by simp [hy]))
  refine ⟨vt2, ?_⟩
  have e : lpayMems ((kw, k, v) :: ms) ++ rest = lenWire kw k.length ++ (k ++ (v.payload ++ (lpayMems ms ++ rest))) := by
    simp [lpayMems]
  have hs := step_objTyped_value (c :: S) VS (l0 :: LS) ((((kw, k, v) :: ms).length : Nat) : Int) vt (.key k :: E)
    (v.payload ++ (lpayMems ms ++ rest))
  rw [hlen, hsx] at hs
  rw [e, levMemsT_cons]
  refine (runsTo_step (Or.inl (lenWire_ne_nil _ _ _))
    (step_objCount_keyLen (c :: S) VS (l0 :: LS) _ vt E stObjectTyped (Or.inr rfl) hne kw k.length hk _)).trans ?_
  refine (key_fwd stObjectTyped (Or.inr (Or.inr rfl)) (c :: S) VS (l0 :: LS) _ vt E k _ (fun h => by cases h)).trans ?_
  refine (runsTo_step (Or.inr rfl) hs).trans ?_
  refine h1.trans ?_
  simpa using h2

/-! ## containers -/

theorem lelems_first (xs : List (Nat × LItem)) (t : Nat) (rest : Bytes) :
    ∃ b0 bs, lwireElems xs ++ (noops t ++ arrEndMarker :: rest) = b0 :: bs ∧
      (b0 == countMarker) = false ∧ (b0 == typeMarker) = false := by
  cases xs with
  | nil =>
    cases t with
    | zero => exact ⟨arrEndMarker, rest, rfl, by decide, by decide⟩
    | succ t => exact ⟨noopMarker, _, rfl, by decide, by decide⟩
  | cons nx xs =>
    obtain ⟨n, x⟩ := nx
    cases n with
    | zero => exact ⟨x.erase.marker, _, rfl, (lmarker_ne x).2.2.2.1, (lmarker_ne x).2.2.2.2⟩
    | succ n => exact ⟨noopMarker, _, rfl, by decide, by decide⟩

theorem lmems_first (ms : List (LW × Bytes × Nat × LItem)) (rest : Bytes) :
    ∃ b0 bs, lwireMems ms ++ objEndMarker :: rest = b0 :: bs ∧
      (b0 == countMarker) = false ∧ (b0 == typeMarker) = false := by
  cases ms with
  | nil => exact ⟨objEndMarker, rest, rfl, by decide, by decide⟩
  | cons m ms =>
    obtain ⟨kw, k, n, v⟩ := m
    exact ⟨kw.marker, _, rfl, (lw_marker_ne kw).1, (lw_marker_ne kw).2⟩

theorem fpl_arr (xs : List (Nat × LItem)) (t : Nat) (hb : FDyn xs) : FPL (.arr xs t) := by
  intro S c VS LS lc vt E rest hv
  obtain ⟨vt', h⟩ := hb S c VS LS lc vt (.arrStart (-1) BT.any :: E) t rest hv
  refine ⟨vt', ?_⟩
  obtain ⟨b0, bs, hw, h1, h2⟩ := lelems_first xs t rest
  have e : (LItem.arr xs t).payload ++ rest = b0 :: bs := by
    simp only [LItem.payload, List.append_assoc, List.cons_append, List.nil_append]; exact hw
  have ev : (LItem.arr xs t).events.reverse ++ E = .arrEnd :: ((levElems xs).reverse ++ (.arrStart (-1) BT.any :: E)) := by
    simp [LItem.events, LItem.erase, Item.events, levElems]
  rw [e, ev]
  rw [hw] at h
  refine (runsTo_step (more_cons _ _ _) (step_arrInit_dyn (c :: S) VS LS lc vt E b0 bs h1 h2)).trans ?_
  refine (runsTo_congr (more_cons _ _ _) (more_cons _ _ _) (step_arrDyn_start (c :: S) VS LS lc vt _ b0 bs)).trans ?_
  exact h

theorem lwireElems_ne_nil (nx : Nat × LItem) (xs : List (Nat × LItem)) (rest : Bytes) :
    lwireElems (nx :: xs) ++ rest ≠ [] := by
  obtain ⟨n, x⟩ := nx
  cases n <;> simp [lwireElems, noops, List.replicate]

theorem lwireMems_ne_nil (m : LW × Bytes × Nat × LItem) (ms : List (LW × Bytes × Nat × LItem)) (rest : Bytes) :
    lwireMems (m :: ms) ++ rest ≠ [] := by
  obtain ⟨kw, k, n, v⟩ := m
  simp [lwireMems, lenWire]

theorem lpayMems_ne_nil (m : LW × Bytes × LItem) (ms : List (LW × Bytes × LItem)) (rest : Bytes) :
    lpayMems (m :: ms) ++ rest ≠ [] := by
  obtain ⟨kw, k, v⟩ := m
  simp [lpayMems, lenWire]

theorem fpl_arrN (w : LW) (xs : List (Nat × LItem)) (hw : w.fits xs.length = true) (hb : FCnt xs) :
    FPL (.arrN w xs) := by
  intro S c VS LS lc vt E rest hv
  obtain ⟨vt', h⟩ := hb S c VS LS lc vt (.arrStart xs.length BT.any :: E) rest hv
  refine ⟨vt', ?_⟩
  have e : (LItem.arrN w xs).payload ++ rest = countMarker :: (lenWire w xs.length ++ (lwireElems xs ++ rest)) := by
    simp [LItem.payload]
  have ev : (LItem.arrN w xs).events.reverse ++ E =
      .arrEnd :: ((levElems xs).reverse ++ (.arrStart (xs.length : Int) BT.any :: E)) := by
    simp [LItem.events, LItem.erase, Item.events, levElems, eraseElems_length]
  have hc : (xs.length : Int) = 0 ∨ lwireElems xs ++ rest ≠ [] := by
    cases xs with
    | nil => exact Or.inl rfl
    | cons nx xs => exact Or.inr (lwireElems_ne_nil nx xs rest)
  have hm2 : More (mk (c :: S) ⟨stArrayCount, stCont⟩ VS (lc :: LS) xs.length vt (.arrStart xs.length BT.any :: E))
      (lwireElems xs ++ rest) := by
    rcases hc with hc | hc
    · exact Or.inr (by simp [pending, mk, hc])
    · exact Or.inl hc
  rw [e, ev]
  refine (runsTo_step (more_cons _ _ _) (step_arrInit_count (c :: S) VS LS lc vt E _)).trans ?_
  refine (runsTo_step (Or.inl (lenWire_ne_nil _ _ _)) (step_arrCount_len (c :: S) VS LS lc vt E w xs.length hw _)).trans ?_
  refine (runsTo_congr (Or.inr rfl) hm2 (step_arrCount_withLen (c :: S) VS (lc :: LS) xs.length vt E _ hc)).trans ?_
  exact h

theorem fpl_arrT (t : UInt8) (w : LW) (xs : List LItem) (ht : isTypeMarker t = true)
    (hw : w.fits xs.length = true) (hm : ∀ x ∈ xs, x.erase.marker = t) (hb : FTyp xs) : FPL (.arrT t w xs) := by
  intro S c VS LS lc vt E rest hv
  obtain ⟨st, hst, hn⟩ := typeMarker_start ht
  have hv' : VSok (VS.push st) := vsok_push VS st (start_ne_fail hst)
  have hcur : ∀ x ∈ xs, istart x.erase = (VS.push st).current := by
    intro x hx
    have := start_of_marker x.erase
    rw [hm x hx, hst] at this
    rw [push_current]; exact (Option.some.inj this).symm
  obtain ⟨vt', h⟩ := hb S c (VS.push st) LS lc (markerToBaseType t)
    (.arrStart xs.length (markerToBaseType t) :: E) rest hv' hcur
  rw [push_pop hv] at h
  refine ⟨vt', ?_⟩
  have e : (LItem.arrT t w xs).payload ++ rest =
      typeMarker :: t :: countMarker :: (lenWire w xs.length ++ (lpayList xs ++ rest)) := by
    simp [LItem.payload]
  have ev : (LItem.arrT t w xs).events.reverse ++ E =
      .arrEnd :: ((levList xs).reverse ++ (.arrStart (xs.length : Int) (markerToBaseType t) :: E)) := by
    simp [LItem.events, LItem.erase, Item.events, levList, eraseList_length]
  rw [e, ev]
  refine (runsTo_step (more_cons _ _ _) (step_arrInit_typed (c :: S) VS LS lc vt E _)).trans ?_
  refine (runsTo_step (more_cons _ _ _)
    (step_typed_type (c :: S) VS LS lc vt E stArrayTyped (Or.inl rfl) t st _ hst hn)).trans ?_
  refine (runsTo_step (more_cons _ _ _)
    (step_typed_hash (c :: S) (VS.push st) LS lc (markerToBaseType t) E stArrayTyped (Or.inl rfl) _)).trans ?_
  refine (runsTo_step (Or.inl (lenWire_ne_nil _ _ _))
    (step_typed_len (c :: S) (VS.push st) LS lc (markerToBaseType t) E stArrayTyped (Or.inl rfl) w xs.length hw _)).trans ?_
  refine (runsTo_congr (Or.inr rfl) (Or.inr rfl)
    (step_arrTyped_withLen (c :: S) (VS.push st) (lc :: LS) xs.length (markerToBaseType t) E _)).trans ?_
  exact h

theorem fpl_obj (ms : List (LW × Bytes × Nat × LItem)) (hb : FDynM ms) : FPL (.obj ms) := by
  intro S c VS LS lc vt E rest hv
  obtain ⟨vt', h⟩ := hb S c VS LS lc vt (.objStart (-1) BT.any :: E) rest hv
  refine ⟨vt', ?_⟩
  obtain ⟨b0, bs, hw, h1, h2⟩ := lmems_first ms rest
  have e : (LItem.obj ms).payload ++ rest = b0 :: bs := by
    simp only [LItem.payload, List.append_assoc, List.cons_append, List.nil_append]; exact hw
  have ev : (LItem.obj ms).events.reverse ++ E = .objEnd :: ((levMems ms).reverse ++ (.objStart (-1) BT.any :: E)) := by
    simp [LItem.events, LItem.erase, Item.events, levMems]
  rw [e, ev]
  rw [hw] at h
  exact (runsTo_step (more_cons _ _ _) (step_objInit_dyn (c :: S) VS LS lc vt E b0 bs h1 h2)).trans h

theorem fpl_objN (w : LW) (ms : List (LW × Bytes × Nat × LItem)) (hw : w.fits ms.length = true) (hb : FCntM ms) :
    FPL (.objN w ms) := by
  intro S c VS LS lc vt E rest hv
  obtain ⟨vt', h⟩ := hb S c VS LS lc vt (.objStart ms.length BT.any :: E) rest hv
  refine ⟨vt', ?_⟩
  have e : (LItem.objN w ms).payload ++ rest = countMarker :: (lenWire w ms.length ++ (lwireMems ms ++ rest)) := by
    simp [LItem.payload]
  have ev : (LItem.objN w ms).events.reverse ++ E =
      .objEnd :: ((levMems ms).reverse ++ (.objStart (ms.length : Int) BT.any :: E)) := by
    simp [LItem.events, LItem.erase, Item.events, levMems, eraseMems_length]
  have hc : (ms.length : Int) = 0 ∨ lwireMems ms ++ rest ≠ [] := by
    cases ms with
    | nil => exact Or.inl rfl
    | cons m ms => exact Or.inr (lwireMems_ne_nil m ms rest)
  have hm2 : More (mk (c :: S) ⟨stObjectCount, stFieldName⟩ VS (lc :: LS) ms.length vt (.objStart ms.length BT.any :: E))
      (lwireMems ms ++ rest) := by
    rcases hc with hc | hc
    · exact Or.inr (by simp [pending, mk, hc])
    · exact Or.inl hc
  rw [e, ev]
  refine (runsTo_step (more_cons _ _ _) (step_objInit_count (c :: S) VS LS lc vt E _)).trans ?_
  refine (runsTo_step (Or.inl (lenWire_ne_nil _ _ _)) (step_objCount_len (c :: S) VS LS lc vt E w ms.length hw _)).trans ?_
  refine (runsTo_congr (Or.inr rfl) hm2
    (step_objCount_withLen (c :: S) VS (lc :: LS) ms.length vt E stObjectCount (Or.inl rfl) _ hc)).trans ?_
  exact h

theorem fpl_objT (t : UInt8) (w : LW) (ms : List (LW × Bytes × LItem)) (ht : isTypeMarker t = true)
    (hw : w.fits ms.length = true) (hm : ∀ m ∈ ms, m.2.2.erase.marker = t) (hb : FTypM ms) : FPL (.objT t w ms) := by
  intro S c VS LS lc vt E rest hv
  obtain ⟨st, hst, hn⟩ := typeMarker_start ht
  have hv' : VSok (VS.push st) := vsok_push VS st (start_ne_fail hst)
  have hcur : ∀ m ∈ ms, istart m.2.2.erase = (VS.push st).current := by
    intro m hx
    have := start_of_marker m.2.2.erase
    rw [hm m hx, hst] at this
    rw [push_current]; exact (Option.some.inj this).symm
  obtain ⟨vt', h⟩ := hb S c (VS.push st) LS lc (markerToBaseType t)
    (.objStart ms.length BT.any :: E) rest hv' hcur
  rw [push_pop hv] at h
  refine ⟨vt', ?_⟩
  have e : (LItem.objT t w ms).payload ++ rest =
      typeMarker :: t :: countMarker :: (lenWire w ms.length ++ (lpayMems ms ++ rest)) := by
    simp [LItem.payload]
  have ev : (LItem.objT t w ms).events.reverse ++ E =
      .objEnd :: ((levMemsT ms).reverse ++ (.objStart (ms.length : Int) BT.any :: E)) := by
    simp [LItem.events, LItem.erase, Item.events, levMemsT, eraseMemsT_length]
  have hc : (ms.length : Int) = 0 ∨ lpayMems ms ++ rest ≠ [] := by
    cases ms with
    | nil => exact Or.inl rfl
    | cons m ms => exact Or.inr (lpayMems_ne_nil m ms rest)
  have hm2 : More (mk (c :: S) ⟨stObjectTyped, stFieldName⟩ (VS.push st) (lc :: LS) ms.length (markerToBaseType t)
      (.objStart ms.length BT.any :: E)) (lpayMems ms ++ rest) := by
    rcases hc with hc | hc
    · exact Or.inr (by simp [pending, mk, hc])
    · exact Or.inl hc
  rw [e, ev]
  refine (runsTo_step (more_cons _ _ _) (step_objInit_typed (c :: S) VS LS lc vt E _)).trans ?_
  refine (runsTo_step (more_cons _ _ _)
    (step_typed_type (c :: S) VS LS lc vt E stObjectTyped (Or.inr rfl) t st _ hst hn)).trans ?_
  refine (runsTo_step (more_cons _ _ _)
    (step_typed_hash (c :: S) (VS.push st) LS lc (markerToBaseType t) E stObjectTyped (Or.inr rfl) _)).trans ?_
  refine (runsTo_step (Or.inl (lenWire_ne_nil _ _ _))
    (step_typed_len (c :: S) (VS.push st) LS lc (markerToBaseType t) E stObjectTyped (Or.inr rfl) w ms.length hw _)).trans ?_
  refine (runsTo_congr (Or.inr rfl) hm2
    (step_objCount_withLen (c :: S) (VS.push st) (lc :: LS) ms.length (markerToBaseType t) E stObjectTyped (Or.inr rfl)
      _ hc)).trans ?_
  exact h

/-! ## THE REFINEMENT for `LItem`, fuel-free: mutual structural induction -/

theorem lokTyped_marker (t : UInt8) (xs : List LItem) (h : lokTyped t xs = true) : ∀ x ∈ xs, x.erase.marker = t := by
  induction xs with
  | nil => simp
  | cons x xs ih =>
    have h' : (x.erase.ok = true ∧ x.erase.marker = t) ∧ lokTyped t xs = true := by
      simpa [lokTyped, eraseList, okTyped] using h
    intro y hy
    simp only [List.mem_cons] at hy
    rcases hy with rfl | hy
    · exact h'.1.2
    · exact ih h'.2 y hy

theorem lokMemsT_marker (t : UInt8) (ms : List (LW × Bytes × LItem)) (h : lokMemsT t ms = true) :
    ∀ m ∈ ms, m.2.2.erase.marker = t := by
  induction ms with
  | nil => simp
  | cons m ms ih =>
    obtain ⟨kw, k, v⟩ := m
    have h' : ((kw.fits k.length = true ∧ v.erase.ok = true) ∧ v.erase.marker = t) ∧ lokMemsT t ms = true := by
      simpa [lokMemsT, eraseMemsT, okMemsT] using h
    intro y hy
    simp only [List.mem_cons] at hy
    rcases hy with rfl | hy
    · exact h'.1.2
    · exact ih h'.2 y hy

mutual
theorem fpl_item (x : LItem) (h : x.ok = true) : FPL x :=
  match x with
  | .null => fpl_null
  | .tru => fpl_tru
  | .fals => fpl_fals
  | .int k v => fpl_int k v (by simpa [LItem.ok, LItem.erase, Item.ok] using h)
  | .f32 b => fpl_f32 b
  | .f64 b => fpl_f64 b
  | .char ch => fpl_char ch
  | .str w s => fpl_str w s (by simpa [LItem.ok, LItem.erase, Item.ok] using h)
  | .hp w s => fpl_hp w s (by simpa [LItem.ok, LItem.erase, Item.ok] using h)
  | .arr xs t => fpl_arr xs t (fdyn xs (by simpa [LItem.ok, LItem.erase, Item.ok, lokElems] using h))
  | .arrN w xs =>
    have h' : w.fits xs.length = true ∧ lokElems xs = true := by
      simpa [LItem.ok, LItem.erase, Item.ok, lokElems, eraseElems_length] using h
    fpl_arrN w xs h'.1 (fcnt xs h'.2)
  | .arrT t w xs =>
    have h' : (isTypeMarker t = true ∧ w.fits xs.length = true) ∧ lokTyped t xs = true := by
      simpa [LItem.ok, LItem.erase, Item.ok, lokTyped, eraseList_length] using h
    fpl_arrT t w xs h'.1.1 h'.1.2 (lokTyped_marker t xs h'.2) (ftyp t xs h'.2)
  | .obj ms => fpl_obj ms (fdynM ms (by simpa [LItem.ok, LItem.erase, Item.ok, lokMems] using h))
  | .objN w ms =>
    have h' : w.fits ms.length = true ∧ lokMems ms = true := by
      simpa [LItem.ok, LItem.erase, Item.ok, lokMems, eraseMems_length] using h
    fpl_objN w ms h'.1 (fcntM ms h'.2)
  | .objT t w ms =>
    have h' : (isTypeMarker t = true ∧ w.fits ms.length = true) ∧ lokMemsT t ms = true := by
      simpa [LItem.ok, LItem.erase, Item.ok, lokMemsT, eraseMemsT_length] using h
    fpl_objT t w ms h'.1.1 h'.1.2 (lokMemsT_marker t ms h'.2) (ftypM t ms h'.2)
theorem fdyn (xs : List (Nat × LItem)) (h : lokElems xs = true) : FDyn xs :=
  match xs with
  | [] => fdyn_nil
  | (n, x) :: xs =>
    have h' : x.ok = true ∧ lokElems xs = true := by simpa [lokElems_cons] using h
    fdyn_cons n x xs (fpl_item x h'.1) (fdyn xs h'.2)
theorem fcnt (xs : List (Nat × LItem)) (h : lokElems xs = true) : FCnt xs :=
  match xs with
  | [] => fcnt_nil
  | (n, x) :: xs =>
    have h' : x.ok = true ∧ lokElems xs = true := by simpa [lokElems_cons] using h
    fcnt_cons n x xs (fpl_item x h'.1) (fcnt xs h'.2)
theorem ftyp (t : UInt8) (xs : List LItem) (h : lokTyped t xs = true) : FTyp xs :=
  match xs with
  | [] => ftyp_nil
  | x :: xs =>
    have h' : (x.ok = true ∧ x.marker = t) ∧ lokTyped t xs = true := by simpa [lokTyped_cons] using h
    ftyp_cons x xs (fpl_item x h'.1.1) (ftyp t xs h'.2)
theorem fdynM (ms : List (LW × Bytes × Nat × LItem)) (h : lokMems ms = true) : FDynM ms :=
  match ms with
  | [] => fdynM_nil
  | (kw, k, n, v) :: ms =>
    have h' : (kw.fits k.length = true ∧ v.ok = true) ∧ lokMems ms = true := by simpa [lokMems_cons] using h
    fdynM_cons kw k n v ms h'.1.1 (fpl_item v h'.1.2) (fdynM ms h'.2)
theorem fcntM (ms : List (LW × Bytes × Nat × LItem)) (h : lokMems ms = true) : FCntM ms :=
  match ms with
  | [] => fcntM_nil
  | (kw, k, n, v) :: ms =>
    have h' : (kw.fits k.length = true ∧ v.ok = true) ∧ lokMems ms = true := by simpa [lokMems_cons] using h
    fcntM_cons kw k n v ms h'.1.1 (fpl_item v h'.1.2) (fcntM ms h'.2)
theorem ftypM (t : UInt8) (ms : List (LW × Bytes × LItem)) (h : lokMemsT t ms = true) : FTypM ms :=
  match ms with
  | [] => ftypM_nil
  | (kw, k, v) :: ms =>
    have h' : ((kw.fits k.length = true ∧ v.ok = true) ∧ v.marker = t) ∧ lokMemsT t ms = true := by
      simpa [lokMemsT_cons] using h
    ftypM_cons kw k v ms h'.1.1.1 (fpl_item v h'.1.1.2) (ftypM t ms h'.2)
end

/-! ## streams -/

theorem top_noops_fwd (t : Nat) (VS : StateStack) (LS : List Int) (lc : Int) (vt : Nat) (E : List Ev) (b : Bytes) :
    RunsTo (mk [] ⟨stNext, stStart⟩ VS LS lc vt E) (noops t ++ b) (mk [] ⟨stNext, stStart⟩ VS LS lc vt E) b := by
  induction t with
  | zero => exact RunsTo.refl _ _
  | succ t ih =>
    rw [noops_succ', List.cons_append]
    exact (runsTo_step (more_cons _ _ _) (step_next_noop VS LS lc vt E _)).trans ih

/-- A STREAM of well-formed items, from the idle state: the run comes to the idle state with
the input used up and exactly the items' events delivered -/
theorem stream_fwd (xs : List (Nat × LItem)) (h : lokElems xs = true) (trail : Nat) (VS : StateStack) (LS : List Int)
    (lc : Int) (vt : Nat) (E : List Ev) (hv : VSok VS) :
    ∃ vt', RunsTo (mk [] ⟨stNext, stStart⟩ VS LS lc vt E) (lwireStream xs trail)
      (mk [] ⟨stNext, stStart⟩ VS LS lc vt' ((levElems xs).reverse ++ E)) [] := by
  induction xs generalizing vt E with
  | nil =>
    refine ⟨vt, ?_⟩
    have := top_noops_fwd trail VS LS lc vt E []
    simpa [lwireStream, lwireElems, levElems, eraseElems, evElems] using this
  | cons nx xs ih =>
    obtain ⟨n, x⟩ := nx
    have h' : x.ok = true ∧ lokElems xs = true := by simpa [lokElems_cons] using h
    obtain ⟨vt1, h1⟩ := value_fwd x (fpl_item x h'.1) [] ⟨stNext, stStart⟩ VS LS lc vt E
      (lwireStream xs trail) hv (by simp) (pos_top VS LS lc vt E _)
    obtain ⟨vt2, h2⟩ := ih h'.2 vt1 (x.events.reverse ++ E)
    refine ⟨vt2, ?_⟩
    have e : lwireStream ((n, x) :: xs) trail =
        noops n ++ (x.erase.marker :: (x.payload ++ lwireStream xs trail)) := by
      simp [lwireStream, lwireElems]
    rw [e, levElems_cons]
    refine ((top_noops_fwd n VS LS lc vt E _).trans h1).trans ?_
    simpa using h2

/-- … from the fresh parser: the fuel-free main loop accepts the stream -/
theorem stream_runs (xs : List (Nat × LItem)) (h : lokElems xs = true) (trail : Nat) :
    ∃ vt', Runs {} (lwireStream xs trail) (mk [] ⟨stNext, stStart⟩ {} [] 0 vt' (levElems xs).reverse) none := by
  obtain ⟨vt', h1⟩ := stream_fwd xs h trail {} [] 0 BT.any [] vsok_init
  refine ⟨vt', ?_⟩
  have := h1 _ none (Runs.stop (p := mk [] ⟨stNext, stStart⟩ {} [] 0 vt' ((levElems xs).reverse ++ [])) (b := [])
    (by rintro (h | h); exact h rfl; cases h))
  have e0 : ({} : P) = mk [] ⟨stNext, stStart⟩ {} [] 0 BT.any [] := rfl
  rw [e0]
  simpa using this

end SF.Ubjson.Conv
