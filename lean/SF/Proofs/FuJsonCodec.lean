/-
  C11, JSON path, the codec leg for ONE scalar document: JSON encoder mirror → bytes → JSON parser
  mirror fed as `Fu.model` does (one `Write` with all the bytes, then end of input: `writeChunks {} [b]`).
-/
import SF.Proofs.JsonSrcTop
import SF.Ops.Json
namespace SF.FuJson
open SF SF.Json SF.Json.Parse SF.Json.ParseP SF.Json.Grammar
open SF.Json.Enc (plain toJ intLit strRaw sanitize)

/-! ## the parser: one `Write`, then end of input -/

theorem visit_setErr (p : P) (x : Option Err) (e : Ev) :
    visit { p with err := x } e = ({ (visit p e).1 with err := x }, (visit p e).2) := by
  unfold visit
  simp only []
  split
  · split <;> rfl
  · rfl

theorem reportNumber_setErr (p : P) (x : Option Err) (b : Bytes) (d : Bool) :
    reportNumber { p with err := x } b d =
      ({ (reportNumber p b d).1 with err := x }, (reportNumber p b d).2) := by
  unfold reportNumber
  split
  · split <;> first | rfl | exact visit_setErr _ _ _
  · split
    · rfl
    · split
      · exact visit_setErr _ _ _
      · split <;> exact visit_setErr _ _ _

theorem finalize_setErr (p : P) (x : Option Err) :
    finalize { p with err := x } = ({ (finalize p).1 with err := x }, (finalize p).2) := by
  unfold finalize
  simp only []
  by_cases hc : (p.currentState == St.numberState) = true
  · simp only [hc, if_true]
    rw [reportNumber_setErr]
    generalize reportNumber p p.literalBuffer p.isDouble = r
    obtain ⟨q, e⟩ := r
    cases e with
    | some e => rfl
    | none =>
      have hp : popState { q with err := x } = { popState q with err := x } := by
        obtain ⟨st, a2, a3, a4, a5, a6, a7, a8, a9, a10⟩ := q
        cases st <;> rfl
      simp only []
      rw [hp]
      by_cases hg : (!(popState q).states.isEmpty && (popState q).currentState != St.startState) = true
      · simp only [hg, if_true]
      · simp only [hg, Bool.false_eq_true, if_false]
  · simp only [hc, Bool.false_eq_true, if_false]
    split <;> rfl

/-- the JSON parser's idle state: empty state stack, start state, no error.  (After a top-level
NUMBER, which only the end of input completes, the literal stays in `literalBuffer`: `Parse`
clears it when it starts, see `num_end_run`.) -/
def IdleJ (p : P) : Prop := p.states = [] ∧ p.currentState = .startState ∧ p.err = none

/-- ONE grammatical document (no white space around it) in ONE `Write`, then end of input -/
theorem write_doc (v : J) (hok : v.ok = true) (hs : v.sem = true) :
    ∃ pr, writeChunks {} [v.wire] = (pr, none) ∧ IdleJ pr ∧ events pr = v.events := by
  have hi : IdleN ({} : P) := idleN_fresh
  have hw : ∀ q, feedAll {} v.wire = (q, none) → (finalize q).2 = none →
      writeChunks {} [v.wire] = ({ (finalize q).1 with err := none }, none) := by
    intro q hq hf
    simp only [writeChunks, write, hq, finalize_setErr, hf]
  by_cases hn : v.isNum = true
  · cases v with
    | num tok =>
      simp only [J.sem] at hs
      obtain ⟨ev, hev⟩ := Option.isSome_iff_exists.mp hs
      obtain ⟨q, hr, hf⟩ := num_end_run tok (by simpa [J.ok] using hok) ev hev [] rfl _ hi
      simp only [List.nil_append] at hr
      have hfa : feedAll {} (J.num tok).wire = (q, none) := by
        simp only [J.wire]; rw [feedAll_run _ _ hi.1.wf.inv, hr]
      refine ⟨_, hw q hfa (by rw [hf]), ?_, ?_⟩
      · rw [hf]; exact ⟨rfl, rfl, rfl⟩
      · rw [hf]; simp [events, J.events, J.tree, numTree_events tok ev hev]
    | lit _ => simp [J.isNum] at hn
    | str _ => simp [J.isNum] at hn
    | arr _ _ => simp [J.isNum] at hn
    | obj _ _ => simp [J.isNum] at hn
  · obtain ⟨q, hq, he, hr⟩ := doc_run v hok hs [] [] rfl rfl (fun h => absurd h hn) _ hi
    simp only [List.nil_append, List.append_nil] at hr he
    have hfa : feedAll {} v.wire = (q, none) := by rw [feedAll_run _ _ hi.1.wf.inv, hr]
    have hfin := finalize_idle q hq
    refine ⟨_, hw q hfa (by rw [hfin]), ?_, ?_⟩
    · rw [hfin]; exact ⟨hq.1.st, hq.1.cs, rfl⟩
    · rw [hfin]; simp [events, he]

theorem parseEvents_of {b : Bytes} {pr : P} (h : writeChunks {} [b] = (pr, none)) :
    SF.Ops.Json.parseEvents [b] = (events pr, "ok") := by
  have : (init none : P) = {} := rfl
  simp [SF.Ops.Json.parseEvents, this, h, SF.Ops.Json.errClass]

/-! ## encoder, then parser -/

/-- encoder (any options, fresh writer, top level) on the events of a `plain` tree, its output in one
`Write` to a fresh parser, end of input: accepted, idle, the events of the grammatical text `toJ o t` -/
theorem codec_leg (o : SF.Json.Enc.Enc) (t : ETree) (hp : plain t = true) (hw : o.w = {})
    (ha : o.inArray.current = false) :
    ∃ s pr, SF.Json.Enc.run o (t.events.map .ev) = (s, none, .ok) ∧ s.w.out = (toJ o t).wire ∧
      writeChunks {} [s.w.out] = (pr, none) ∧ IdleJ pr ∧ events pr = (toJ o t).events := by
  obtain ⟨h1, hout, g2, g3, _, _⟩ := SF.Props.JsonSrc.json_encoder_writes_grammar o t hp hw ha
  obtain ⟨pr, k1, k2, k3⟩ := write_doc (toJ o t) g2 g3
  have hout' : (SF.Json.Enc.run o (t.events.map .ev)).1.w.out = (toJ o t).wire := hout
  refine ⟨(SF.Json.Enc.run o (t.events.map .ev)).1, pr, ?_, hout', by rw [hout']; exact k1, k2, k3⟩
  rw [← h1]

theorem empty_write_no_events : events (writeChunks {} [[]]).1 = [] := by decide +kernel

/-! ## integer literals: the exact kind the parser reports -/

/-- the kind under which the JSON parser reports the integer `v`: uint64 above MaxInt64, else int64 -/
def jk (v : Int) : NumKind := if v > 9223372036854775807 then .u64 else .i64

theorem numEv_intLit_jk (v : Int) (h1 : -9223372036854775808 ≤ v) (h2 : v ≤ 18446744073709551615) :
    numEv (intLit v) = some (.num (jk v) v) := by
  obtain ⟨k, hk⟩ := SF.Json.Enc.numEv_intLit v h1 h2
  rw [hk]
  -- the kind is determined by `intEv`
  unfold numEv at hk
  split at hk
  · split at hk <;> simp at hk
  · split at hk
    · rename_i neg ds _
      unfold intEv at hk
      unfold jk
      split at hk
      · split at hk
        · simp only [Option.some.injEq, Ev.num.injEq] at hk
          obtain ⟨rfl, hv⟩ := hk
          have : ¬ v > 9223372036854775807 := by omega
          simp [this]
        · simp at hk
      · split at hk
        · simp only [Option.some.injEq, Ev.num.injEq] at hk
          obtain ⟨rfl, hv⟩ := hk
          have : ¬ v > 9223372036854775807 := by omega
          simp [this]
        · split at hk
          · simp only [Option.some.injEq, Ev.num.injEq] at hk
            obtain ⟨rfl, hv⟩ := hk
            have : v > 9223372036854775807 := by omega
            simp [this]
          · simp at hk
    · simp at hk

theorem jk_inRange (v : Int) (h1 : -9223372036854775808 ≤ v) (h2 : v ≤ 18446744073709551615) :
    (jk v).inRange v = true := by
  unfold jk
  by_cases hc : v > 9223372036854775807
  · simp only [hc, if_true, NumKind.inRange, NumKind.lo, NumKind.hi, Bool.and_eq_true, decide_eq_true_eq]; omega
  · simp only [hc, if_false, NumKind.inRange, NumKind.lo, NumKind.hi, Bool.and_eq_true, decide_eq_true_eq]; omega

end SF.FuJson
