/-
  C17 for the UBJSON parser mirror, part 3: the loops.

  From every parser state `p` that satisfies the shape invariant `G` and has no live
  typed-array state, and for ALL inputs: `feedUntil`, `feed`, `finalize`, `parse`, `write`,
  `writeChunks` on the FRAMED parser `Fr v E0 p` (another `valueType`, events `E0` delivered
  before, fault index shifted) do exactly what they do on `p` — same verdict, same unconsumed
  input, same final state up to the frame.
-/
import SF.Proofs.UbjFrameLive
import SF.Proofs.UbjProgFeed
namespace SF.Ubjson.Parse
open SF SF.Ubjson
open StateType StateStep

/-! ### the header step that succeeds has stored an element type -/

theorem stepType_ok_vt (p : P) (b : Bytes) (cont : St) (he : (stepType p b cont).err = none) (v v' : Nat) :
    vtAfter v b = vtAfter v' b := by
  unfold stepType at he
  cases b with
  | nil => simp [panicR] at he
  | cons x bs =>
    simp only [vtAfter]
    simp only [] at he
    cases hm : markerToStartState x with
    | none => simp [hm] at he
    | some st =>
      simp only [hm] at he ⊢
      split
      · rename_i hn; simp [hn] at he
      · rfl

theorem execStep_err (p : P) (b : Bytes) : (execStep p b).err = (dispatch p b).err := by
  rw [execStep_eq]
  cases hd : (dispatch p b).err with
  | none => exact hd
  | some e => exact hd

theorem typeStart_ok_vt (p : P) (b : Bytes) (hts : isTypeStart p.state.current = true)
    (he : (execStep p b).err = none) (v v' : Nat) : vtAfter v b = vtAfter v' b := by
  have he' : (dispatch p b).err = none := by rw [← execStep_err]; exact he
  simp only [isTypeStart, Bool.and_eq_true, Bool.or_eq_true, beq_iff_eq] at hts
  obtain ⟨ht, hs⟩ := hts
  have hhdr : ∀ c, (stepTypeLenHeader p b c).err = none → vtAfter v b = vtAfter v' b := by
    intro c hc
    unfold stepTypeLenHeader at hc
    simp only [hs] at hc
    exact stepType_ok_vt _ _ _ hc v v'
  rcases ht with ht | ht
  · have : (dispatch p b).err = (stepTypeLenHeader p b stWithLen).err := by
      unfold dispatch
      simp only [ht]
      rw [stepArrayTyped_eq]
      simp [hs]
    exact hhdr _ (by rw [← this]; exact he')
  · have : (dispatch p b).err = (stepTypeLenHeader p b stWithLen).err := by
      unfold dispatch
      simp only [ht]
      unfold stepObjectTyped
      simp [hs]
    exact hhdr _ (by rw [← this]; exact he')

theorem live_reads {s : St} (h : readsVt s = true) : liveSt s = true := by
  simp only [readsVt, Bool.and_eq_true, beq_iff_eq] at h
  simp [liveSt, h.1, h.2]

theorem liveAny_cur {p : P} (h : liveSt p.state.current = true) : liveAny p = true := by
  simp [liveAny, sl, h]

/-- the relation kept by the loops: the frame's `valueType` may differ from the parser's only
while no typed-array state is live -/
def VtOk (v : Nat) (p : P) : Prop := liveAny p = true → v = p.valueType

theorem VtOk.reads {v : Nat} {p : P} (h : VtOk v p) : readsVt p.state.current = true → v = p.valueType :=
  fun hr => h (liveAny_cur (live_reads hr))

/-- ONE STEP keeps the relation -/
theorem step_vtOk (p : P) (b : Bytes) (v : Nat) (hg : G p) (hl : VtOk v p) (he : (execStep p b).err = none) :
    VtOk (nv v p b) (execStep p b).p := by
  intro hlive
  rw [execStep_valueType]
  cases hla : liveAny p with
  | true => rw [hl hla]
  | false =>
    cases hts : isTypeStart p.state.current with
    | true =>
      simp only [nv, hts, if_true]
      exact typeStart_ok_vt p b hts he _ _
    | false =>
      have := execStep_nl p b hg hla hts
      rw [this] at hlive
      cases hlive

/-! ### feedUntil -/

theorem feedUntil_fr (E0 : List Ev) (f : Nat) (p : P) (b : Bytes) (v : Nat) (hg : G p) (hl : VtOk v p) :
    ∃ v', feedUntil f (Fr v E0 p) b = (feedUntil f p b).mapP (Fr v' E0) ∧
      ((feedUntil f p b).err = none → VtOk v' (feedUntil f p b).p) := by
  induction f generalizing p b v with
  | zero => exact ⟨v, rfl, fun he => by simp [feedUntil] at he⟩
  | succ f ih =>
    simp only [feedUntil]
    dsimp (instances := true) only [pending_fr]
    isplit
    · rename_i hgd
      have hgd' : b ≠ [] ∨ pending p = true := by cases b <;> simp_all
      rw [execStep_fr v E0 p b hl.reads]
      simp only [mapP_done, mapP_err, mapP_p, mapP_rest]
      isplit
      · exact ⟨nv v p b, rfl, fun he => step_vtOk p b v hg hl he⟩
      · rename_i hd
        have hn : (execStep p b).err = none := by
          simp only [Bool.or_eq_true, not_or, Bool.not_eq_true, Option.isSome_eq_false_iff,
            Option.isNone_iff_eq_none] at hd
          exact hd.2
        have hg' := ((execStep_step p b hg hgd').ok hn).1
        exact ih (execStep p b).p (execStep p b).rest (nv v p b) hg' (step_vtOk p b v hg hl hn)
    · exact ⟨v, rfl, fun _ => hl⟩

/-! ### feed -/

theorem feedG_fr (E0 : List Ev) (ff : Bytes → Nat) (fuel : Nat) (p : P) (b : Bytes) (v : Nat) (hg : G p)
    (hl : VtOk v p) :
    ∃ v', feedG ff fuel (Fr v E0 p) b = (Fr v' E0 (feedG ff fuel p b).1, (feedG ff fuel p b).2) ∧
      ((feedG ff fuel p b).2 = none → VtOk v' (feedG ff fuel p b).1) := by
  induction fuel generalizing p b v with
  | zero => exact ⟨v, rfl, fun he => by simp [feedG] at he⟩
  | succ fuel ih =>
    simp only [feedG]
    split
    · exact ⟨v, rfl, fun _ => hl⟩
    · obtain ⟨v1, h1, h2⟩ := feedUntil_fr E0 (ff b) p b v hg hl
      rw [h1]
      simp only [mapP_err, mapP_p, mapP_rest]
      cases he : (feedUntil (ff b) p b).err with
      | some e => exact ⟨v1, rfl, fun h => by simp at h⟩
      | none =>
        simp only []
        have hg' := (feedUntil_progress (ff b) p b hg).1 he
        exact ih _ _ v1 hg' (h2 he)

/-! ### finalize -/

theorem finalizeLoop_fr (v : Nat) (E0 : List Ev) (n : Nat) (p : P) :
    finalizeLoop n (Fr v E0 p) = (Fr v E0 (finalizeLoop n p).1, (finalizeLoop n p).2) := by
  induction n generalizing p with
  | zero =>
    simp only [finalizeLoop]
    dsimp (instances := true) only [fr_state]
    split <;> rfl
  | succ n ih =>
    simp only [finalizeLoop]
    dsimp (instances := true) only [fr_state, fr_length]
    have hclose : ∀ e : Ev, (match visit (Fr v E0 p) e with
          | (q, some err) => (q, some err)
          | (q, none) =>
            finalizeLoop n (popLenState
              (if (p.state.current.type == stArrayTyped || p.state.current.type == stObjectTyped) = true
                then popValueState q else q)).1) =
        (Fr v E0 (match visit p e with
          | (q, some err) => (q, some err)
          | (q, none) =>
            finalizeLoop n (popLenState
              (if (p.state.current.type == stArrayTyped || p.state.current.type == stObjectTyped) = true
                then popValueState q else q)).1).1,
         (match visit p e with
          | (q, some err) => (q, some err)
          | (q, none) =>
            finalizeLoop n (popLenState
              (if (p.state.current.type == stArrayTyped || p.state.current.type == stObjectTyped) = true
                then popValueState q else q)).1).2) := by
      intro e
      simp only [visit_eq, fr_addEv, fr_verr]
      vsplit p
      split
      · exact ih (popLenState (popValueState (addEv p e))).1
      · exact ih (popLenState (addEv p e)).1
    split
    · rfl
    · split
      · split
        · rfl
        · exact hclose _
      · split
        · rfl
        · exact hclose _
      · split
        · rfl
        · exact hclose _
      · split
        · rfl
        · exact hclose _
      · rfl

theorem finalize_fr (v : Nat) (E0 : List Ev) (p : P) :
    finalize (Fr v E0 p) = (Fr v E0 (finalize p).1, (finalize p).2) := by
  unfold finalize
  dsimp (instances := true) only [fr_state]
  rw [finalizeLoop_fr]
  rcases finalizeLoop p.state.stack.length p with ⟨q, e⟩
  cases e with
  | some e => rfl
  | none =>
    simp only []
    dsimp (instances := true) only [fr_state]
    split <;> rfl

/-! ### Parse, Write, Write* -/

theorem parse_fr (E0 : List Ev) (p : P) (b : Bytes) (v : Nat) (hg : G p) (hl : VtOk v p) :
    ∃ v', parse (Fr v E0 p) b = (Fr v' E0 (parse p b).1, (parse p b).2) := by
  obtain ⟨v1, h1, _⟩ := feedG_fr E0 fuelFor (2 * b.length + 2) p b v hg hl
  refine ⟨v1, ?_⟩
  simp only [parse, feedAll, feed_eq_feedG, h1]
  rcases feedG fuelFor (2 * b.length + 2) p b with ⟨q, e⟩
  cases e with
  | some e => rfl
  | none =>
    simp only [finalize_fr]
    rfl

theorem write_fr (E0 : List Ev) (p : P) (b : Bytes) (v : Nat) (hg : G p) (hl : VtOk v p) :
    ∃ v', write (Fr v E0 p) b = (Fr v' E0 (write p b).1, (write p b).2) ∧
      ((write p b).2 = none → G (write p b).1 ∧ VtOk v' (write p b).1) := by
  obtain ⟨v1, h1, h2⟩ := feedG_fr E0 fuelFor (2 * b.length + 2) p b v hg hl
  refine ⟨v1, ?_, ?_⟩
  · simp only [write, feedAll, feed_eq_feedG, h1]
    rcases feedG fuelFor (2 * b.length + 2) p b with ⟨q, e⟩
    cases e <;> rfl
  · have h3 := feedG_ok fuelFor (2 * b.length + 2) p b hg
    simp only [write, feedAll, feed_eq_feedG]
    rcases hq : feedG fuelFor (2 * b.length + 2) p b with ⟨q, e⟩
    rw [hq] at h2 h3
    cases e with
    | some e => intro h; simp at h
    | none =>
      intro _
      exact ⟨(h3 rfl).1.congr rfl rfl rfl, fun hla => h2 rfl hla⟩

theorem writeChunks_fr (E0 : List Ev) (cs : List Bytes) (p : P) (v : Nat) (hg : G p) (hl : VtOk v p) :
    ∃ v', writeChunks (Fr v E0 p) cs = (Fr v' E0 (writeChunks p cs).1, (writeChunks p cs).2) := by
  induction cs generalizing p v with
  | nil => exact ⟨v, finalize_fr v E0 p⟩
  | cons c cs ih =>
    obtain ⟨v1, h1, h2⟩ := write_fr E0 p c v hg hl
    simp only [writeChunks, h1]
    rcases hw : write p c with ⟨q, e⟩
    rw [hw] at h2
    cases e with
    | some e => exact ⟨v1, rfl⟩
    | none =>
      simp only []
      exact ih q v1 (h2 rfl).1 (h2 rfl).2

/-! ### from the idle state -/

theorem vtOk_idle (v : Nat) (E : List Ev) (vt : Nat) : VtOk v ({ evs := E, valueType := vt } : P) := by
  intro h; simp [liveAny, sl, liveSt] at h

theorem fr_default (v : Nat) (E0 : List Ev) : Fr v E0 ({} : P) = { evs := E0, valueType := v } := rfl

end SF.Ubjson.Parse
