/-
  `KCFree` for every method of the Unfolder mirror except `OnKeyRef` (syntax-directed), and the
  relation between `OnKeyRef` and `OnKey`.
-/
import SF.Proofs.UnfConsKC
namespace SF.Unf
open SF

namespace KCFree

theorem ignoreOnValue : KCFree ignoreOnValue := by unfold SF.Unf.ignoreOnValue; repeat kc_step
macro_rules | `(tactic| kc_step) => `(tactic| with_reducible exact KCFree.ignoreOnValue)
theorem primInitState (k : PK) (p : Ptr) : KCFree (primInitState k p) := by
  unfold SF.Unf.primInitState; repeat kc_step
macro_rules | `(tactic| kc_step) => `(tactic| with_reducible exact KCFree.primInitState _ _)
theorem primCleanup : KCFree primCleanup := by unfold SF.Unf.primCleanup; repeat kc_step
macro_rules | `(tactic| kc_step) => `(tactic| with_reducible exact KCFree.primCleanup)
theorem primAssign (v : GoVal) : KCFree (primAssign v) := by
  unfold SF.Unf.primAssign; repeat kc_step
macro_rules | `(tactic| kc_step) => `(tactic| with_reducible exact KCFree.primAssign _)
theorem arrInitState (k : PK) (p : Ptr) : KCFree (arrInitState k p) := by
  unfold SF.Unf.arrInitState; repeat kc_step
macro_rules | `(tactic| kc_step) => `(tactic| with_reducible exact KCFree.arrInitState _ _)
theorem arrCleanup : KCFree arrCleanup := by unfold SF.Unf.arrCleanup; repeat kc_step
macro_rules | `(tactic| kc_step) => `(tactic| with_reducible exact KCFree.arrCleanup)
theorem arrStartOnArrayStart (k : PK) (l : Int) : KCFree (arrStartOnArrayStart k l) := by
  unfold SF.Unf.arrStartOnArrayStart; repeat kc_step
macro_rules | `(tactic| kc_step) => `(tactic| with_reducible exact KCFree.arrStartOnArrayStart _ _)
theorem arrAppend (v : GoVal) : KCFree (arrAppend v) := by
  unfold SF.Unf.arrAppend; repeat kc_step
macro_rules | `(tactic| kc_step) => `(tactic| with_reducible exact KCFree.arrAppend _)
theorem makeArrayPtr (bt : Nat) : KCFree (makeArrayPtr bt) := by
  unfold SF.Unf.makeArrayPtr; repeat kc_step
macro_rules | `(tactic| kc_step) => `(tactic| with_reducible exact KCFree.makeArrayPtr _)
theorem makeMapPtr (bt : Nat) : KCFree (makeMapPtr bt) := by
  unfold SF.Unf.makeMapPtr; repeat kc_step
macro_rules | `(tactic| kc_step) => `(tactic| with_reducible exact KCFree.makeMapPtr _)
theorem unfoldIfcStartSubArray (l : Int) (bt : Nat) : KCFree (unfoldIfcStartSubArray l bt) := by
  unfold SF.Unf.unfoldIfcStartSubArray; repeat kc_step
macro_rules | `(tactic| kc_step) => `(tactic| with_reducible exact KCFree.unfoldIfcStartSubArray _ _)
theorem unfoldIfcFinishSubArray : KCFree unfoldIfcFinishSubArray := by
  unfold SF.Unf.unfoldIfcFinishSubArray; repeat kc_step
macro_rules | `(tactic| kc_step) => `(tactic| with_reducible exact KCFree.unfoldIfcFinishSubArray)
theorem mapInitState (k : PK) (p : Ptr) : KCFree (mapInitState k p) := by
  unfold SF.Unf.mapInitState; repeat kc_step
macro_rules | `(tactic| kc_step) => `(tactic| with_reducible exact KCFree.mapInitState _ _)
theorem mapKeyCleanup : KCFree mapKeyCleanup := by unfold SF.Unf.mapKeyCleanup; repeat kc_step
macro_rules | `(tactic| kc_step) => `(tactic| with_reducible exact KCFree.mapKeyCleanup)
theorem mapKeyOnKey (k : PK) (key : Bytes) : KCFree (mapKeyOnKey k key) := by
  unfold SF.Unf.mapKeyOnKey; repeat kc_step
macro_rules | `(tactic| kc_step) => `(tactic| with_reducible exact KCFree.mapKeyOnKey _ _)
theorem mapPut (k : PK) (v : GoVal) : KCFree (mapPut k v) := by
  unfold SF.Unf.mapPut; repeat kc_step
macro_rules | `(tactic| kc_step) => `(tactic| with_reducible exact KCFree.mapPut _ _)
theorem unfoldIfcStartSubMap (l : Int) (bt : Nat) : KCFree (unfoldIfcStartSubMap l bt) := by
  unfold SF.Unf.unfoldIfcStartSubMap; repeat kc_step
macro_rules | `(tactic| kc_step) => `(tactic| with_reducible exact KCFree.unfoldIfcStartSubMap _ _)
theorem unfoldIfcFinishSubMap : KCFree unfoldIfcFinishSubMap := by
  unfold SF.Unf.unfoldIfcFinishSubMap; repeat kc_step
macro_rules | `(tactic| kc_step) => `(tactic| with_reducible exact KCFree.unfoldIfcFinishSubMap)
theorem pukDeliver (u : U) (v : GoVal) : KCFree (pukDeliver u v) := by
  unfold SF.Unf.pukDeliver; repeat kc_step
macro_rules | `(tactic| kc_step) => `(tactic| with_reducible exact KCFree.pukDeliver _ _)
theorem initStatePU (p : PUK) (ptr : Ptr) : KCFree (initStatePU p ptr) := by
  unfold SF.Unf.initStatePU; repeat kc_step
macro_rules | `(tactic| kc_step) => `(tactic| with_reducible exact KCFree.initStatePU _ _)

theorem resolveRU (ru : RU) : KCFree (resolveRU ru) := by
  intro c kc
  cases ru with
  | ref n =>
    have hreg : (setKC c kc).reg = c.reg := rfl
    simp only [SF.Unf.resolveRU, hreg]
    cases List.lookup n c.reg <;> rfl
  | _ => rfl
macro_rules | `(tactic| kc_step) => `(tactic| with_reducible exact KCFree.resolveRU _)

theorem initStateRU (ru : RU) (v : Ptr) : KCFree (initStateRU ru v) := by
  unfold SF.Unf.initStateRU; repeat kc_step
macro_rules | `(tactic| kc_step) => `(tactic| with_reducible exact KCFree.initStateRU _ _)
theorem reflSliceStartOnArrayStart (l : Int) : KCFree (reflSliceStartOnArrayStart l) := by
  unfold SF.Unf.reflSliceStartOnArrayStart; repeat kc_step
macro_rules | `(tactic| kc_step) => `(tactic| with_reducible exact KCFree.reflSliceStartOnArrayStart _)
theorem reflSliceCleanup : KCFree reflSliceCleanup := by unfold SF.Unf.reflSliceCleanup; repeat kc_step
macro_rules | `(tactic| kc_step) => `(tactic| with_reducible exact KCFree.reflSliceCleanup)
theorem reflSlicePrepare : KCFree reflSlicePrepare := by unfold SF.Unf.reflSlicePrepare; repeat kc_step
macro_rules | `(tactic| kc_step) => `(tactic| with_reducible exact KCFree.reflSlicePrepare)
theorem reflMapStartOnObjectStart : KCFree reflMapStartOnObjectStart := by
  unfold SF.Unf.reflMapStartOnObjectStart; repeat kc_step
macro_rules | `(tactic| kc_step) => `(tactic| with_reducible exact KCFree.reflMapStartOnObjectStart)
theorem reflMapSet (key : Bytes) (v : GoVal) : KCFree (reflMapSet key v) := by
  unfold SF.Unf.reflMapSet; repeat kc_step
macro_rules | `(tactic| kc_step) => `(tactic| with_reducible exact KCFree.reflMapSet _ _)
theorem reflMapOnElemPrepare (et : GoType) : KCFree (reflMapOnElemPrepare et) := by
  unfold SF.Unf.reflMapOnElemPrepare; repeat kc_step
macro_rules | `(tactic| kc_step) => `(tactic| with_reducible exact KCFree.reflMapOnElemPrepare _)
theorem reflMapOnElemProcess (et : GoType) (elem : RU) : KCFree (reflMapOnElemProcess et elem) := by
  unfold SF.Unf.reflMapOnElemProcess; repeat kc_step
macro_rules | `(tactic| kc_step) => `(tactic| with_reducible exact KCFree.reflMapOnElemProcess _ _)
theorem reflPtrCleanup : KCFree reflPtrCleanup := by unfold SF.Unf.reflPtrCleanup; repeat kc_step
macro_rules | `(tactic| kc_step) => `(tactic| with_reducible exact KCFree.reflPtrCleanup)
theorem reflPtrPrepare (et : GoType) : KCFree (reflPtrPrepare et) := by
  unfold SF.Unf.reflPtrPrepare; repeat kc_step
macro_rules | `(tactic| kc_step) => `(tactic| with_reducible exact KCFree.reflPtrPrepare _)
theorem reflPtrProcess (et : GoType) : KCFree (reflPtrProcess et) := by
  unfold SF.Unf.reflPtrProcess; repeat kc_step
macro_rules | `(tactic| kc_step) => `(tactic| with_reducible exact KCFree.reflPtrProcess _)
theorem structOnKey (fields : Fields) (key : Bytes) : KCFree (structOnKey fields key) := by
  unfold SF.Unf.structOnKey; repeat kc_step
macro_rules | `(tactic| kc_step) => `(tactic| with_reducible exact KCFree.structOnKey _ _)

theorem onScalar (fuel : Nat) : ∀ s, KCFree (onScalar fuel s) := by
  induction fuel with
  | zero => intro s; exact KCFree.noFuel
  | succ n ih =>
    intro s
    unfold SF.Unf.onScalar
    repeat (first | kc_step | (with_reducible exact ih _))
macro_rules | `(tactic| kc_step) => `(tactic| with_reducible exact KCFree.onScalar _ _)

theorem onArrayStart (fuel : Nat) : ∀ l bt, KCFree (onArrayStart fuel l bt) := by
  induction fuel with
  | zero => intro l bt; exact KCFree.noFuel
  | succ n ih =>
    intro l bt
    unfold SF.Unf.onArrayStart
    repeat (first | kc_step | (with_reducible exact ih _ _))
macro_rules | `(tactic| kc_step) => `(tactic| with_reducible exact KCFree.onArrayStart _ _ _)

theorem onObjectStart (fuel : Nat) : ∀ l bt, KCFree (onObjectStart fuel l bt) := by
  induction fuel with
  | zero => intro l bt; exact KCFree.noFuel
  | succ n ih =>
    intro l bt
    unfold SF.Unf.onObjectStart
    repeat (first | kc_step | (with_reducible exact ih _ _))
macro_rules | `(tactic| kc_step) => `(tactic| with_reducible exact KCFree.onObjectStart _ _ _)

theorem onArrayFinished : KCFree onArrayFinished := by unfold SF.Unf.onArrayFinished; repeat kc_step
macro_rules | `(tactic| kc_step) => `(tactic| with_reducible exact KCFree.onArrayFinished)
theorem onObjectFinished : KCFree onObjectFinished := by unfold SF.Unf.onObjectFinished; repeat kc_step
macro_rules | `(tactic| kc_step) => `(tactic| with_reducible exact KCFree.onObjectFinished)
theorem onChildArrayDone : KCFree onChildArrayDone := by unfold SF.Unf.onChildArrayDone; repeat kc_step
macro_rules | `(tactic| kc_step) => `(tactic| with_reducible exact KCFree.onChildArrayDone)
theorem onChildObjectDone : KCFree onChildObjectDone := by unfold SF.Unf.onChildObjectDone; repeat kc_step
macro_rules | `(tactic| kc_step) => `(tactic| with_reducible exact KCFree.onChildObjectDone)
theorem onKey (key : Bytes) : KCFree (onKey key) := by unfold SF.Unf.onKey; repeat kc_step
macro_rules | `(tactic| kc_step) => `(tactic| with_reducible exact KCFree.onKey _)

theorem reportChildDone {report : M Unit} (hr : KCFree report) (fuel : Nat) :
    ∀ lBefore, KCFree (reportChildDone report fuel lBefore) := by
  induction fuel with
  | zero => intro l; exact KCFree.noFuel
  | succ n ih =>
    intro l
    unfold SF.Unf.reportChildDone
    repeat (first | kc_step | (with_reducible exact ih _))

theorem ctxOnArrayFinished : KCFree ctxOnArrayFinished := by
  unfold SF.Unf.ctxOnArrayFinished
  repeat (first | kc_step | (with_reducible exact reportChildDone onChildArrayDone _ _))
theorem ctxOnObjectFinished : KCFree ctxOnObjectFinished := by
  unfold SF.Unf.ctxOnObjectFinished
  repeat (first | kc_step | (with_reducible exact reportChildDone onChildObjectDone _ _))

/-- every Visitor method of the Unfolder except `OnKeyRef` -/
theorem stepEv (fuel : Nat) (e : UEv) (h : ∀ k, e ≠ .keyRef k) : KCFree (stepEv fuel e) := by
  cases e with
  | scalar s => exact onScalar fuel s
  | strRef s => exact onScalar fuel (.str s)
  | key k => exact onKey k
  | keyRef k => exact absurd rfl (h k)
  | arrStart l bt => exact onArrayStart fuel l _
  | arrEnd => exact ctxOnArrayFinished
  | objStart l bt => exact onObjectStart fuel l _
  | objEnd => exact ctxOnObjectFinished

end KCFree

/-! ## `OnKeyRef` = key cache, then `OnKey` -/

theorem keyCacheGet_setKC (key : Bytes) (c : Ctx) (kc kc' : Symbols.Cache)
    (h : Symbols.get kc key = .ok (kc', key)) :
    keyCacheGet key (setKC c kc) = .ok key (setKC c kc') := by
  show (match Symbols.get kc key with | .ok (cache, s) => _ | .panic => _) = _
  rw [h]
  rfl

theorem onKeyRef_other (key : Bytes) (c : Ctx) (h1 : ∀ k, c.unfolder.current ≠ .mapKey k)
    (h2 : ∀ et el, c.unfolder.current ≠ .reflMapOnKey et el) : onKeyRef key c = onKey key c := by
  unfold onKeyRef onKey
  simp only [bind_def, currentU_eq]
  cases h : c.unfolder.current <;> first | rfl | exact absurd h (h1 _) | exact absurd h (h2 _ _)

/-- `OnKeyRef` on a context whose key cache has its invariant is `OnKey` of the same key, plus an
update of the cache (which keeps its invariant and configuration) -/
theorem onKeyRef_eq (key : Bytes) (c : Ctx) (kc : Symbols.Cache) (hi : Symbols.Inv kc) :
    ∃ kc', KCOk kc kc' ∧ onKeyRef key (setKC c kc) = (onKey key c).setKC kc' := by
  obtain ⟨kc', hg, hok⟩ := kc_get kc key hi
  have hget := keyCacheGet_setKC key c kc kc' hg
  cases h : c.unfolder.current with
  | mapKey k =>
    refine ⟨kc', hok, ?_⟩
    have hcur : (setKC c kc).unfolder.current = .mapKey k := h
    have e1 : onKeyRef key (setKC c kc) = mapKeyOnKey k key (setKC c kc') := by
      unfold onKeyRef
      simp only [bind_def, currentU_eq, hcur, hget]
    have e2 : onKey key c = mapKeyOnKey k key c := by
      unfold onKey
      simp only [bind_def, currentU_eq, h]
    rw [e1, e2, KCFree.mapKeyOnKey k key c kc']
  | reflMapOnKey et elem =>
    refine ⟨kc', hok, ?_⟩
    have hcur : (setKC c kc).unfolder.current = .reflMapOnKey et elem := h
    have e1 : onKeyRef key (setKC c kc) =
        (pushKey key >>= fun _ => setCurrentU (.reflMapOnElem et elem)) (setKC c kc') := by
      unfold onKeyRef
      simp only [bind_def, currentU_eq, hcur, hget]
    have e2 : onKey key c = (pushKey key >>= fun _ => setCurrentU (.reflMapOnElem et elem)) c := by
      unfold onKey
      simp only [bind_def, currentU_eq, h]
    rw [e1, e2]
    exact KCFree.bind (KCFree.pushKey key) (fun _ => KCFree.setCurrentU _) c kc'
  | _ =>
    refine ⟨kc, KCOk.refl hi, ?_⟩
    rw [onKeyRef_other key (setKC c kc) (by intro k hk; rw [show (setKC c kc).unfolder.current = c.unfolder.current from rfl, h] at hk; cases hk)
      (by intro et el hk; rw [show (setKC c kc).unfolder.current = c.unfolder.current from rfl, h] at hk; cases hk)]
    exact KCFree.onKey key c kc

/-! ## by-reference events and their by-value events -/

/-- the by-value event of a by-reference event (`string.go`: `OnStringRef` ↦ `OnString`,
`OnKeyRef` ↦ `OnKey`) -/
def UEv.deref : UEv → UEv
  | .strRef s => .scalar (.str s)
  | .keyRef k => .key k
  | e => e

theorem stepEv_deref (fuel : Nat) (e : UEv) (c : Ctx) (kc : Symbols.Cache) (hi : Symbols.Inv kc) :
    ∃ kc', KCOk kc kc' ∧ stepEv fuel e (setKC c kc) = (stepEv fuel e.deref c).setKC kc' := by
  cases e with
  | keyRef k => exact onKeyRef_eq k c kc hi
  | strRef s => exact ⟨kc, KCOk.refl hi, KCFree.onScalar fuel (.str s) c kc⟩
  | scalar s => exact ⟨kc, KCOk.refl hi, KCFree.stepEv fuel _ (by intro k h; cases h) c kc⟩
  | key k => exact ⟨kc, KCOk.refl hi, KCFree.stepEv fuel _ (by intro k h; cases h) c kc⟩
  | arrStart l bt => exact ⟨kc, KCOk.refl hi, KCFree.stepEv fuel _ (by intro k h; cases h) c kc⟩
  | arrEnd => exact ⟨kc, KCOk.refl hi, KCFree.stepEv fuel _ (by intro k h; cases h) c kc⟩
  | objStart l bt => exact ⟨kc, KCOk.refl hi, KCFree.stepEv fuel _ (by intro k h; cases h) c kc⟩
  | objEnd => exact ⟨kc, KCOk.refl hi, KCFree.stepEv fuel _ (by intro k h; cases h) c kc⟩

/-- ANY event sequence, ANY context (any target type, any state of the six stacks): delivering
strings and keys by reference has the outcome of delivering them by value — same result, same
error, same final context — except for the contents of the key cache -/
theorem run_deref (fuel : Nat) (es : List UEv) (c : Ctx) (kc : Symbols.Cache) (hi : Symbols.Inv kc) :
    ∃ kc', KCOk kc kc' ∧ run fuel es (setKC c kc) = (run fuel (es.map UEv.deref) c).setKC kc' := by
  induction es generalizing c kc with
  | nil => exact ⟨kc, KCOk.refl hi, rfl⟩
  | cons e es ih =>
    obtain ⟨kc1, hok1, h1⟩ := stepEv_deref fuel e c kc hi
    simp only [List.map_cons, run, h1]
    cases hs : stepEv fuel e.deref c with
    | ok u c' =>
      obtain ⟨kc2, hok2, h2⟩ := ih c' kc1 hok1.1
      exact ⟨kc2, hok1.trans hok2, h2⟩
    | err e' c' => exact ⟨kc1, hok1, rfl⟩
    | panic c' => exact ⟨kc1, hok1, rfl⟩
    | outOfFuel => exact ⟨kc1, hok1, rfl⟩
    | gap m => exact ⟨kc1, hok1, rfl⟩

end SF.Unf
