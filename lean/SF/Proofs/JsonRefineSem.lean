/-
  C04 for the JSON parser mirror: the MEANING of the grammatical JSON texts of
  SF/Proofs/JsonGrammar.lean.  `J.tree` is the event tree (SF/Tree.lean) of a text — its
  events are what a parser has to deliver, its value (`ETree.value`, = `build` of the events,
  SF/Proofs/Tree.lean) is the RFC 8259 value of the text:
    literals          null / true / false
    strings and keys  `strVal` = the reference lexer `Cst.lexString` on the token
    numbers           `numEv`: integer literals exactly (int64 / uint64 by range),
                      tokens with `.`/`e`/`E` through the strconv model `parseFloat`
    arrays / objects  arrStart / objStart with length -1 and element type `any`
  `J.sem`: every token of the text denotes (strings: the reference lexer accepts them;
  numbers: in range / accepted by strconv).
-/
import SF.Proofs.JsonGrammar
import SF.Proofs.JsonRefineStr
import SF.Proofs.JsonRefineNum
import SF.Tree
import SF.Proofs.Tree
namespace SF.Json.Grammar
open SF SF.Json SF.Json.Parse SF.Json.ParseP

def litEv : LitK → Ev
  | .null => .null
  | .tru => .bool true
  | .fals => .bool false

def litTree : LitK → ETree
  | .null => .null
  | .tru => .bool true
  | .fals => .bool false

/-- the leaf of a scalar event -/
def evTree : Ev → ETree
  | .num k v => .num k v
  | .f64 b => .f64 b
  | _ => .null

def numTree (tok : Bytes) : ETree := match numEv tok with
  | some ev => evTree ev
  | none => .null

mutual
def J.tree : J → ETree
  | .lit k => litTree k
  | .num tok => numTree tok
  | .str raw => .str ((strVal raw).getD [])
  | .arr _ body => .arr (-1) BT.any body.trees
  | .obj _ body => .obj (-1) BT.any body.members
def ABody.trees : ABody → List ETree
  | .close => []
  | .elems e _ tl => e.tree :: tl.trees
def ATail.trees : ATail → List ETree
  | .close => []
  | .more _ e _ tl => e.tree :: tl.trees
def OBody.members : OBody → List (Bytes × ETree)
  | .close => []
  | .mems key _ _ v _ tl => ((strVal key).getD [], v.tree) :: tl.members
def OTail.members : OTail → List (Bytes × ETree)
  | .close => []
  | .more _ key _ _ v _ tl => ((strVal key).getD [], v.tree) :: tl.members
end

mutual
/-- every token of the text denotes -/
def J.sem : J → Bool
  | .lit _ => true
  | .num tok => (numEv tok).isSome
  | .str raw => (strVal raw).isSome
  | .arr _ body => body.sem
  | .obj _ body => body.sem
def ABody.sem : ABody → Bool
  | .close => true
  | .elems e _ tl => e.sem && tl.sem
def ATail.sem : ATail → Bool
  | .close => true
  | .more _ e _ tl => e.sem && tl.sem
def OBody.sem : OBody → Bool
  | .close => true
  | .mems key _ _ v _ tl => (strVal key).isSome && v.sem && tl.sem
def OTail.sem : OTail → Bool
  | .close => true
  | .more _ key _ _ v _ tl => (strVal key).isSome && v.sem && tl.sem
end

/-- the events of the text -/
def J.events (v : J) : List Ev := v.tree.events
/-- the value of the text -/
def J.value (v : J) : Val := v.tree.value

/-- the value is the value of the events -/
theorem J.build_events (v : J) : build v.events = some v.value := SF.build_events v.tree

theorem litTree_events (k : LitK) : (litTree k).events = [litEv k] := by cases k <;> rfl

theorem numEv_shape (tok : Bytes) (ev : Ev) (h : numEv tok = some ev) : (evTree ev).events = [ev] := by
  unfold numEv at h
  split at h
  · split at h
    · simp only [Option.some.injEq] at h; subst h; rfl
    · simp at h
  · split at h
    · rename_i neg ds _
      unfold intEv at h
      repeat' split at h
      all_goals first | (simp only [Option.some.injEq] at h; subst h; rfl) | simp at h
    · simp at h

theorem numTree_events (tok : Bytes) (ev : Ev) (h : numEv tok = some ev) : (numTree tok).events = [ev] := by
  unfold numTree; rw [h]; exact numEv_shape tok ev h

/-- `{"a": [1,"x"],⏎"b":null }` -/
example : sample.sem = true ∧
    sample.events = [.objStart (-1) 0, .key [0x61], .arrStart (-1) 0, .num .i64 1, .str [0x78], .arrEnd,
      .key [0x62], .null, .objEnd] := by decide +kernel

end SF.Json.Grammar
