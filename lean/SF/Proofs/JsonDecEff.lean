/-
  Helper lemmas for C18 (JSON pull decoder): THE EFFECT OF ONE PARSER STEP on the state stack,
  the event log and the `reported` flag.  `feedUntil` hands back to `Decoder.Next` after the
  step that `reported` a value and left the state stack empty (a TOP-LEVEL value is complete);
  `flag_iff` characterises that step by the state alone: the stack is empty afterwards and an
  event has been delivered.
-/
import SF.Proofs.JsonShape
set_option linter.unusedSimpArgs false
set_option linter.unusedVariables false
namespace SF.Json.DecP
open SF SF.Json SF.Json.Parse SF.Json.Float SF.Json.ParseP

/-- what a step does, relative to the stack `S0` and the log `E0` it starts from:
  * nothing is delivered and nothing reported; the stack is unchanged or one deeper
    (a scalar has begun);
  * an event is delivered but no value reported: a container has begun (one deeper), or a
    key was read / an array element completed (same stack, not empty);
  * a value is reported, with its event. -/
def Eff (S0 : List St) (E0 : List Ev) (s : R) : Prop :=
  (s.reported = false ∧ s.p.evs = E0 ∧ (s.p.states = S0 ∨ ∃ r, s.p.states = r :: S0)) ∨
  (s.reported = false ∧ (∃ e, s.p.evs = e :: E0) ∧
    ((∃ r, s.p.states = r :: S0) ∨ (s.p.states = S0 ∧ S0 ≠ []))) ∨
  (s.reported = true ∧ (∃ e, s.p.evs = e :: E0))

/-- the step functions of the scalars: the token goes on (nothing happens to stack and log)
or it is complete (reported, one event, the stack is popped) -/
def TokEff (S0 : List St) (E0 : List Ev) (s : R) : Prop :=
  (s.reported = false ∧ s.p.evs = E0 ∧ s.p.states = S0) ∨
  (s.reported = true ∧ (∃ e, s.p.evs = e :: E0) ∧ s.p.states = S0.tail)

theorem popState_states (p : P) : (popState p).states = p.states.tail := by
  unfold popState; cases p.states <;> rfl

theorem popState_evs (p : P) : (popState p).evs = p.evs := by
  unfold popState; cases p.states <;> rfl

theorem visit_states (p : P) (e : Ev) : (visit p e).1.states = p.states := by rw [visit_fst]

theorem visit_evs (p : P) (e : Ev) : (visit p e).1.evs = e :: p.evs := by rw [visit_fst]

theorem stepLit_eff (p : P) (b : Bytes) (kind : String) (err : Err) (ev : Ev)
    (hn : p.required ≤ (strBytes kind).length) (he : (stepLit p b kind err ev).err = none) :
    TokEff p.states p.evs (stepLit p b kind err ev) := by
  by_cases hb : b.length < p.required
  · rw [stepLit_short p b kind err ev hn hb] at he ⊢
    split
    · exact Or.inl ⟨rfl, rfl, rfl⟩
    · rename_i h; rw [if_neg h] at he; cases he
  · rw [stepLit_full p b kind err ev hn (by omega)] at he ⊢
    split
    · exact Or.inr ⟨rfl, ⟨ev, by rw [visit_evs, popState_evs]⟩, by rw [visit_states, popState_states]⟩
    · rename_i h; rw [if_neg h] at he; cases he

theorem reportNumber_none (p : P) (b : Bytes) (d : Bool) (h : (reportNumber p b d).2 = none) :
    (∃ e, (reportNumber p b d).1.evs = e :: p.evs) ∧ (reportNumber p b d).1.states = p.states := by
  unfold reportNumber at h ⊢
  cases d with
  | true =>
    simp only [if_true] at h ⊢
    cases hp : parseFloat b with
    | ok bits => simp only [hp]; exact ⟨⟨_, visit_evs _ _⟩, visit_states _ _⟩
    | syntaxErr => rw [hp] at h; cases h
    | rangeErr x => rw [hp] at h; cases h
    | unmodelled => rw [hp] at h; cases h
  | false =>
    simp only [Bool.false_eq_true, if_false] at h ⊢
    cases hp : parseInt b with
    | error e => rw [hp] at h; cases h
    | ok x =>
      obtain ⟨neg, u⟩ := x
      simp only [hp]
      split
      · exact ⟨⟨_, visit_evs _ _⟩, visit_states _ _⟩
      · split <;> exact ⟨⟨_, visit_evs _ _⟩, visit_states _ _⟩

theorem stepNumber_eff (p : P) (b : Bytes) (he : (stepNumber p b).err = none) :
    TokEff p.states p.evs (stepNumber p b) := by
  cases hd : (scanNumber b p.isDouble).2.2.1 with
  | false =>
    rw [stepNumber_more p b hd]
    exact Or.inl ⟨rfl, rfl, rfl⟩
  | true =>
    rw [stepNumber_done p b hd] at he ⊢
    obtain ⟨⟨e, h1⟩, h2⟩ := reportNumber_none _ _ _ he
    exact Or.inr ⟨rfl, ⟨e, by rw [popState_evs, h1]⟩, by rw [popState_states, h2]⟩

theorem stepString_eff (p : P) (b : Bytes) (hb : b ≠ []) (he : (stepString p b).err = none) :
    TokEff p.states p.evs (stepString p b) := by
  obtain ⟨esc, lb, ref, done, rest, err, hd, _, h1, _⟩ := doString_spec p b hb
  unfold stepString at he ⊢
  rw [hd] at he ⊢
  simp only at he ⊢
  split
  · rename_i hc
    simp only [Bool.and_eq_true] at hc
    rw [hc.1]
    exact Or.inr ⟨rfl, ⟨_, by rw [visit_evs, popState_evs]⟩, by rw [visit_states, popState_states]⟩
  · rename_i hc
    rw [if_neg hc] at he
    simp only at he
    subst he
    have : done = false := by
      cases done with
      | false => rfl
      | true => simp at hc
    subst this
    exact Or.inl ⟨rfl, rfl, rfl⟩

/-- a key: the event `.key`, nothing reported, the stack unchanged -/
theorem stepDictKey_eff (p : P) (b : Bytes) (hb : b ≠ []) (he : (stepDictKey p b).err = none) :
    (stepDictKey p b).reported = false ∧ (stepDictKey p b).p.states = p.states ∧
    ((stepDictKey p b).p.evs = p.evs ∨ ∃ e, (stepDictKey p b).p.evs = e :: p.evs) := by
  obtain ⟨esc, lb, ref, done, rest, err, hd, _, h1, _⟩ := doString_spec p b hb
  unfold stepDictKey at he ⊢
  rw [hd] at he ⊢
  simp only at he ⊢
  split
  · exact ⟨rfl, by rw [visit_states], Or.inr ⟨_, by rw [visit_evs]⟩⟩
  · exact ⟨rfl, rfl, Or.inl rfl⟩

/-- stepValue: white space only (nothing changes); a container begins; a scalar begins and is
not complete; a scalar is read completely (the stack is as before) -/
theorem stepValue_eff (p : P) (b : Bytes) (ret : St) (hret : isRet ret = true)
    (he : (stepValue p b ret).err = none) :
    (stepValue p b ret = { p := p, rest := [] }) ∨
    ((stepValue p b ret).reported = false ∧ (stepValue p b ret).p.states = ret :: p.states ∧
      ((stepValue p b ret).p.evs = p.evs ∨ ∃ e, (stepValue p b ret).p.evs = e :: p.evs)) ∨
    ((stepValue p b ret).reported = true ∧ (stepValue p b ret).p.states = p.states ∧
      ∃ e, (stepValue p b ret).p.evs = e :: p.evs) := by
  have hpush : ∀ (q : P) (next : St), q.currentState = ret →
      (pushState q next).states = ret :: q.states ∧ (pushState q next).evs = q.evs := by
    intro q next hq
    have : (q.currentState != St.failedState) = true := by
      rw [hq]; cases ret <;> simp [isRet] at hret <;> rfl
    unfold pushState
    rw [if_pos this, hq]
    exact ⟨rfl, rfl⟩
  -- the scalars: from the effect of the token function
  have tok : ∀ (q : P) (s : R), q.states = ret :: p.states → q.evs = p.evs → TokEff q.states q.evs s →
      (s.reported = false ∧ s.p.states = ret :: p.states ∧ (s.p.evs = p.evs ∨ ∃ e, s.p.evs = e :: p.evs)) ∨
      (s.reported = true ∧ s.p.states = p.states ∧ ∃ e, s.p.evs = e :: p.evs) := by
    intro q s h1 h2 ht
    rcases ht with ⟨a1, a2, a3⟩ | ⟨a1, ⟨e, a2⟩, a3⟩
    · exact Or.inl ⟨a1, by rw [a3, h1], Or.inl (by rw [a2, h2])⟩
    · exact Or.inr ⟨a1, by rw [a3, h1]; rfl, e, by rw [a2, h2]⟩
  unfold stepValue at he ⊢
  cases htr : trimLeft b with
  | nil => exact Or.inl rfl
  | cons c tl =>
    right
    rw [htr] at he
    simp only at he ⊢
    by_cases hc1 : (c == ch '{') = true
    · rw [if_pos hc1] at he ⊢
      obtain ⟨k1, k2⟩ := hpush { p with currentState := ret } .dictState rfl
      exact Or.inl ⟨rfl, by rw [visit_states, k1], Or.inr ⟨_, by rw [visit_evs, k2]⟩⟩
    rw [if_neg hc1] at he ⊢
    by_cases hc2 : (c == ch '[') = true
    · rw [if_pos hc2] at he ⊢
      obtain ⟨k1, k2⟩ := hpush { p with currentState := ret } .arrState rfl
      exact Or.inl ⟨rfl, by rw [visit_states, k1], Or.inr ⟨_, by rw [visit_evs, k2]⟩⟩
    rw [if_neg hc2] at he ⊢
    by_cases hc3 : (c == ch 'n') = true
    · rw [if_pos hc3] at he ⊢
      obtain ⟨k1, k2⟩ := hpush { p with currentState := ret } .nullState rfl
      exact tok { pushState { p with currentState := ret } .nullState with required := 3 } _ k1 k2
        (stepLit_eff _ tl _ _ _ (by rw [kind_null]; simp) he)
    rw [if_neg hc3] at he ⊢
    by_cases hc4 : (c == ch 'f') = true
    · rw [if_pos hc4] at he ⊢
      obtain ⟨k1, k2⟩ := hpush { p with currentState := ret } .falseState rfl
      exact tok { pushState { p with currentState := ret } .falseState with required := 4 } _ k1 k2
        (stepLit_eff _ tl _ _ _ (by rw [kind_false]; simp) he)
    rw [if_neg hc4] at he ⊢
    by_cases hc5 : (c == ch 't') = true
    · rw [if_pos hc5] at he ⊢
      obtain ⟨k1, k2⟩ := hpush { p with currentState := ret } .trueState rfl
      exact tok { pushState { p with currentState := ret } .trueState with required := 3 } _ k1 k2
        (stepLit_eff _ tl _ _ _ (by rw [kind_true]; simp) he)
    rw [if_neg hc5] at he ⊢
    by_cases hc6 : (c == ch '"') = true
    · rw [if_pos hc6] at he ⊢
      obtain ⟨k1, k2⟩ := hpush { p with currentState := ret, literalBuffer := [] } .stringState rfl
      exact tok { pushState { p with currentState := ret, literalBuffer := [] } .stringState
          with inEscape := false } _ k1 k2 (stepString_eff _ (c :: tl) (by simp) he)
    rw [if_neg hc6] at he ⊢
    by_cases hc7 : (!(c == ch '-' || c == ch '+' || c == ch '.' || Parse.isDigit c)) = true
    · rw [if_pos hc7] at he
      cases he
    rw [if_neg hc7] at he ⊢
    obtain ⟨k1, k2⟩ := hpush { p with currentState := ret, isDouble := false, literalBuffer := [] }
      .numberState rfl
    exact tok { pushState { p with currentState := ret, isDouble := false, literalBuffer := [] }
        .numberState with isDouble := false } _ k1 k2 (stepNumber_eff _ (c :: tl) he)

theorem eff_of_value {p : P} {s : R} {ret : St}
    (h : (s = { p := p, rest := [] }) ∨
      (s.reported = false ∧ s.p.states = ret :: p.states ∧ (s.p.evs = p.evs ∨ ∃ e, s.p.evs = e :: p.evs)) ∨
      (s.reported = true ∧ s.p.states = p.states ∧ ∃ e, s.p.evs = e :: p.evs)) :
    Eff p.states p.evs s := by
  rcases h with h | ⟨a1, a2, a3 | a3⟩ | ⟨a1, a2, a3⟩
  · subst h; exact Or.inl ⟨rfl, rfl, Or.inl rfl⟩
  · exact Or.inl ⟨a1, a3, Or.inr ⟨ret, a2⟩⟩
  · exact Or.inr (Or.inl ⟨a1, a3, Or.inl ⟨ret, a2⟩⟩)
  · exact Or.inr (Or.inr ⟨a1, a3⟩)

theorem eff_of_tok {p : P} {s : R} (hne : p.states ≠ []) (h : TokEff p.states p.evs s) :
    Eff p.states p.evs s := by
  rcases h with ⟨a1, a2, a3⟩ | ⟨a1, a2, a3⟩
  · exact Or.inl ⟨a1, a2, Or.inl a3⟩
  · exact Or.inr (Or.inr ⟨a1, a2⟩)

theorem endDict_eff (p : P) (b : Bytes) : Eff p.states p.evs (endDict p b) :=
  Or.inr (Or.inr ⟨rfl, _, by unfold endDict; simp only; rw [visit_evs, popState_evs]⟩)

theorem endArray_eff (p : P) (b : Bytes) : Eff p.states p.evs (endArray p b) :=
  Or.inr (Or.inr ⟨rfl, _, by unfold endArray; simp only; rw [visit_evs, popState_evs]⟩)

theorem eff_quiet {p q : P} {rest : Bytes} {e : Option Err} (h1 : q.states = p.states) (h2 : q.evs = p.evs) :
    Eff p.states p.evs { p := q, rest := rest, err := e } :=
  Or.inl ⟨rfl, h2, Or.inl h1⟩

theorem stepDict_eff (p : P) (b : Bytes) (ae : Bool) (he : (stepDict p b ae).err = none) :
    Eff p.states p.evs (stepDict p b ae) := by
  unfold stepDict at he ⊢
  split
  · exact eff_quiet rfl rfl
  · simp only at he ⊢
    split
    · split
      · exact eff_quiet rfl rfl
      · exact endDict_eff p _
    · split
      · exact eff_quiet rfl rfl
      · exact eff_quiet rfl rfl

theorem stepDictValueEnd_eff (p : P) (b : Bytes) : Eff p.states p.evs (stepDictValueEnd p b) := by
  unfold stepDictValueEnd
  split
  · exact eff_quiet rfl rfl
  · split
    · exact endDict_eff p _
    · split
      · exact eff_quiet rfl rfl
      · exact eff_quiet rfl rfl

theorem stepArray_eff (p : P) (b : Bytes) (ae : Bool) : Eff p.states p.evs (stepArray p b ae) := by
  unfold stepArray
  split
  · exact eff_quiet rfl rfl
  · simp only
    split
    · split
      · exact eff_quiet rfl rfl
      · exact endArray_eff p _
    · exact eff_quiet rfl rfl

theorem stepArrValueEnd_eff (p : P) (b : Bytes) : Eff p.states p.evs (stepArrValueEnd p b) := by
  unfold stepArrValueEnd
  split
  · exact eff_quiet rfl rfl
  · split
    · exact endArray_eff p _
    · split
      · exact eff_quiet rfl rfl
      · exact eff_quiet rfl rfl

/-- THE EFFECT OF ONE STEP from a reachable state, if it reports no error -/
theorem execStep_eff (p : P) (b : Bytes) (hb : b ≠ []) (h : ParseP.WF p) (he : (execStep p b).1.err = none) :
    Eff p.states p.evs (execStep p b).1 := by
  have hne : p.currentState ≠ .startState → p.states ≠ [] := by
    intro hcs hc
    have := (h.stack_of_ne hcs).1
    rw [hc] at this; simp [stackWF] at this
  unfold execStep at he ⊢
  cases hcs : p.currentState with
  | failedState => exact absurd hcs h.not_failed
  | startState =>
    simp only [hcs, stepStart] at he ⊢
    exact eff_of_value (stepValue_eff p b .startState rfl he)
  | dictState => simp only [hcs] at he ⊢; exact stepDict_eff p b true he
  | dictNextFieldState => simp only [hcs] at he ⊢; exact stepDict_eff p b false he
  | dictFieldState =>
    simp only [hcs] at he ⊢
    obtain ⟨k1, k2, k3 | k3⟩ := stepDictKey_eff p b hb he
    · exact Or.inl ⟨k1, k3, Or.inl k2⟩
    · exact Or.inr (Or.inl ⟨k1, k3, Or.inr ⟨k2, hne (by rw [hcs]; simp)⟩⟩)
  | dictFieldValueSep =>
    simp only [hcs] at he ⊢
    split
    · exact eff_quiet rfl rfl
    · exact eff_quiet rfl rfl
  | dictFieldValue =>
    simp only [hcs] at he ⊢
    exact eff_of_value (stepValue_eff p b .dictFieldStateEnd rfl he)
  | dictFieldStateEnd => simp only [hcs]; exact stepDictValueEnd_eff p b
  | arrState => simp only [hcs]; exact stepArray_eff p b true
  | arrStateValue =>
    simp only [hcs] at he ⊢
    rcases stepValue_eff p b .arrStateNext rfl he with k | ⟨a1, a2, a3 | a3⟩ | ⟨a1, a2, a3⟩
    · rw [k]; exact eff_quiet rfl rfl
    · exact Or.inl ⟨rfl, a3, Or.inr ⟨_, a2⟩⟩
    · exact Or.inr (Or.inl ⟨rfl, a3, Or.inl ⟨_, a2⟩⟩)
    · exact Or.inr (Or.inl ⟨rfl, a3, Or.inr ⟨a2, hne (by rw [hcs]; simp)⟩⟩)
  | arrStateNext => simp only [hcs]; exact stepArrValueEnd_eff p b
  | nullState =>
    simp only [hcs] at he ⊢
    exact eff_of_tok (hne (by rw [hcs]; simp)) (stepLit_eff p b _ _ _
      (by rw [kind_null]; have := h.inv.lit (by rw [hcs]; rfl); rw [hcs] at this; exact this) he)
  | trueState =>
    simp only [hcs] at he ⊢
    exact eff_of_tok (hne (by rw [hcs]; simp)) (stepLit_eff p b _ _ _
      (by rw [kind_true]; have := h.inv.lit (by rw [hcs]; rfl); rw [hcs] at this; exact this) he)
  | falseState =>
    simp only [hcs] at he ⊢
    exact eff_of_tok (hne (by rw [hcs]; simp)) (stepLit_eff p b _ _ _
      (by rw [kind_false]; have := h.inv.lit (by rw [hcs]; rfl); rw [hcs] at this; exact this) he)
  | stringState =>
    simp only [hcs] at he ⊢
    exact eff_of_tok (hne (by rw [hcs]; simp)) (stepString_eff p b hb he)
  | numberState =>
    simp only [hcs] at he ⊢
    exact eff_of_tok (hne (by rw [hcs]; simp)) (stepNumber_eff p b he)

/-! ## consequences -/

theorem cons_ne_self' {α : Type} (e : α) (l : List α) : e :: l ≠ l := by
  intro h
  have := congrArg List.length h
  simp at this

/-- the flag `feedUntil` tests after a step: a value was reported and the stack is empty -/
def flag (s : R) : Bool := s.reported && s.p.states.isEmpty

/-- a step that reports a value delivers an event -/
theorem reported_event (p : P) (b : Bytes) (hb : b ≠ []) (h : ParseP.WF p) (he : (execStep p b).1.err = none)
    (hr : (execStep p b).1.reported = true) : (execStep p b).1.p.evs ≠ p.evs := by
  rcases execStep_eff p b hb h he with ⟨a1, _⟩ | ⟨a1, _⟩ | ⟨_, e, a2⟩
  · rw [hr] at a1; cases a1
  · rw [hr] at a1; cases a1
  · rw [a2]; exact cons_ne_self' e _

/-- a step that ends with an empty stack and reports no value began with an empty stack and
delivered nothing -/
theorem quiet_of_empty (p : P) (b : Bytes) (hb : b ≠ []) (h : ParseP.WF p) (he : (execStep p b).1.err = none)
    (hs : (execStep p b).1.p.states = []) (hr : (execStep p b).1.reported = false) :
    p.states = [] ∧ (execStep p b).1.p.evs = p.evs := by
  rcases execStep_eff p b hb h he with ⟨_, a2, a3 | ⟨r, a3⟩⟩ | ⟨_, _, ⟨r, a3⟩ | ⟨a3, a4⟩⟩ | ⟨a1, _⟩
  · exact ⟨by rw [← a3]; exact hs, a2⟩
  · rw [hs] at a3; cases a3
  · rw [hs] at a3; cases a3
  · exact absurd (by rw [← a3]; exact hs) a4
  · rw [hr] at a1; cases a1

/-- THE STEP AFTER WHICH `feedUntil` RETURNS, by the state alone: the stack is empty and an
event has been delivered -/
theorem flag_iff (p : P) (b : Bytes) (hb : b ≠ []) (h : ParseP.WF p) (he : (execStep p b).1.err = none) :
    flag (execStep p b).1 = true ↔ ((execStep p b).1.p.states = [] ∧ (execStep p b).1.p.evs ≠ p.evs) := by
  unfold flag
  constructor
  · intro hf
    simp only [Bool.and_eq_true, List.isEmpty_iff] at hf
    exact ⟨hf.2, reported_event p b hb h he hf.1⟩
  · intro ⟨h1, h2⟩
    simp only [Bool.and_eq_true, List.isEmpty_iff]
    refine ⟨?_, h1⟩
    cases hr : (execStep p b).1.reported with
    | true => rfl
    | false => exact absurd (quiet_of_empty p b hb h he h1 hr).2 h2

end SF.Json.DecP
