/-
  C16 for the gotype fold mirror: the four mutually recursive run functions
  (`foldInterfaceValue`, `runFast`, `foldAnyReflect`, `run`) commute with the visitor fault
  (`FOK`, SF/Proofs/FoldFaultCore.lean) at every fuel, for every compiled folder.
-/
import SF.Proofs.FoldFaultCore
namespace SF.FoldProofs.Fault
open SF SF.Gotype SF.Gotype.Fold

/-- the four run functions at one fuel commute with the fault -/
structure RunOK (o : FoldOpts) (fuel : Nat) : Prop where
  fiv : ∀ c i, FOK (foldInterfaceValue fuel o c i)
  fast : ∀ c f v, FOK (runFast fuel o c f v)
  any : ∀ c rv, FOK (foldAnyReflect fuel o c rv)
  run : ∀ c f rv, FOK (Fold.run fuel o c f rv)

set_option hygiene false in
/-- decompose a computation written with the control structures of the mirror -/
syntax "fok" : tactic
set_option hygiene false in
macro_rules
  | `(tactic| fok) => `(tactic|
    first
      | exact FOK.pure _
      | exact FOK.emit _ _
      | exact ih.run _ _ _
      | exact ih.fiv _ _
      | exact ih.fast _ _ _
      | exact ih.any _ _
      | (apply FOK.seq; intro _; fok)
      | (apply FOK.range; intro _; fok)
      | (apply FOK.bind <;> fok))

theorem FOK.ite' (c : Prop) [Decidable c] {F G : St → St × Res} (hF : FOK F) (hG : FOK G) :
    FOK (fun s => if c then F s else G s) := by
  split
  · exact hF
  · exact hG

theorem run_step (o : FoldOpts) (fuel : Nat) (ih : RunOK o fuel) (c : VisRef) (f : ReFold) (rv : RV) :
    FOK (Fold.run (fuel + 1) o c f rv) := by
  show FOK (fun s => Fold.run (fuel + 1) o c f rv s)
  obtain ⟨t, v⟩ := rv
  cases f with
  | prim p =>
    simp only [Fold.run]
    cases primEv true p v <;> simp only [] <;> fok
  | arrPrim p =>
    simp only [Fold.run]
    cases (sliceElems? v).bind (arrEv false p) <;> simp only [] <;> fok
  | mapPrim p =>
    simp only [Fold.run]
    cases (mapEntries? v).bind (objEv p) <;> simp only [] <;> fok
  | folderIfc =>
    simp only [Fold.run]
    apply FOK.ite'
    · apply FOK.ite'
      · fok
      · cases folderEvents ⟨t, v⟩ <;> simp only [] <;> fok
    · fok
  | userPtr n =>
    cases v <;> simp only [Fold.run] <;> first
      | fok
      | (generalize customEvents n _ = d; cases d <;> simp only [] <;> fok)
  | userVal n =>
    simp only [Fold.run]
    cases customEvents n (.ptr v) <;> simp only [] <;> fok
  | pointer n elem =>
    simp only [Fold.run]
    cases ptrWalk n ⟨t, v⟩ <;> simp only [] <;> fok
  | inlinePointer n elem =>
    simp only [Fold.run]
    cases ptrWalk n ⟨t, v⟩ <;> simp only [] <;> fok
  | structFold fields count => simp only [Fold.run]; fok
  | fieldsFold fields => simp only [Fold.run]; fok
  | field name idx fn =>
    simp only [Fold.run]
    cases RV.field ⟨t, v⟩ idx <;> simp only [] <;> fok
  | fieldInline idx fn =>
    simp only [Fold.run]
    cases RV.field ⟨t, v⟩ idx <;> simp only [] <;> fok
  | nonEmptyField name idx rs fn =>
    simp only [Fold.run]
    cases RV.field ⟨t, v⟩ idx with
    | none => simp only []; fok
    | some fv =>
      simp only []
      cases applyResolvers 1000 rs fv <;> simp only [] <;> fok
  | mapFold iter =>
    simp only [Fold.run]
    cases mapEntries? v <;> simp only [] <;> fok
  | mapKeys elem =>
    cases v <;> simp only [Fold.run] <;> first
      | fok
      | (generalize stringKeyed _ = d; cases d <;> simp only [] <;> fok)
  | mapInline p =>
    cases v <;> simp only [Fold.run] <;> first
      | fok
      | (generalize stringKeyed _ = d
         cases d with
         | none => simp only []; fok
         | some ms =>
           simp only []
           apply FOK.range
           intro m
           apply FOK.bind
           · fok
           · cases p with
             | none => simp only []; fok
             | some p => simp only []; cases elemEv p m.2 <;> simp only [] <;> fok)
  | slice elem =>
    cases v <;> simp only [Fold.run] <;> fok
  | ifaceElem =>
    simp only [Fold.run]
    generalize GoType.under t = u
    cases u <;> simp only [] <;> first
      | fok
      | (cases v <;> simp only [] <;> fok)
  | embedd obj =>
    simp only [Fold.run]
    apply FOK.ite'
    · fok
    · apply FOK.dep (fun s => s.nextVs)
        (fun id s =>
          match Fold.run fuel o (.exp id) obj ⟨t, v⟩
              { s with nextVs := id + 1, vss := (id, { active := some c, depth := 0 }) :: s.vss } with
          | (s, r) =>
            (s, if (r == .ok && (s.getVs id).depth != 0) = true then .err .expectedObjectClose else r))
        (fun _ _ => rfl)
      intro id
      exact FOK.pre
        (fun s => { s with nextVs := id + 1, vss := (id, { active := some c, depth := 0 }) :: s.vss })
        (fun _ _ => rfl) (fun _ => rfl) (fun _ => rfl) (fun _ => rfl)
        (FOK.post
          (fun s r => if (r == .ok && (s.getVs id).depth != 0) = true then .err .expectedObjectClose else r)
          (fun _ _ _ => rfl) (fun _ _ => rfl) (ih.run (.exp id) obj ⟨t, v⟩))
  | forward t' =>
    simp only [Fold.run]
    cases getReflectFold compileFuel o {} t' <;> simp only [] <;> fok
  | forwardInline t' =>
    simp only [Fold.run]
    generalize fieldFoldGenInline compileFuel o _ t' = d
    cases d <;> simp only [] <;> fok
  | inlineIface =>
    simp only [Fold.run]
    cases getReflectFold compileFuel o {} t <;> simp only [] <;> fok

theorem fast_step (o : FoldOpts) (fuel : Nat) (ih : RunOK o fuel) (c : VisRef) (f : Fast) (v : GoVal) :
    FOK (runFast (fuel + 1) o c f v) := by
  show FOK (fun s => runFast (fuel + 1) o c f v s)
  cases f with
  | prim p =>
    simp only [runFast]
    cases primEv false p v <;> simp only [] <;> fok
  | arr p =>
    simp only [runFast]
    cases (sliceElems? v).bind (arrEv true p) <;> simp only [] <;> fok
  | map p =>
    simp only [runFast]
    cases (mapEntries? v).bind (objEv p) <;> simp only [] <;> fok
  | arrIface =>
    simp only [runFast]
    cases sliceElems? v <;> simp only [] <;> fok
  | mapIface =>
    simp only [runFast]
    cases (mapEntries? v).bind stringKeyed <;> simp only [] <;> fok

theorem any_step (o : FoldOpts) (fuel : Nat) (ih : RunOK o fuel) (c : VisRef) (rv : RV) :
    FOK (foldAnyReflect (fuel + 1) o c rv) := by
  show FOK (fun s => foldAnyReflect (fuel + 1) o c rv s)
  simp only [foldAnyReflect]
  cases getReflectFold compileFuel o {} rv.t <;> simp only [] <;> fok

theorem fiv_step (o : FoldOpts) (fuel : Nat) (ih : RunOK o fuel) (c : VisRef) (i : GoVal) :
    FOK (foldInterfaceValue (fuel + 1) o c i) := by
  show FOK (fun s => foldInterfaceValue (fuel + 1) o c i s)
  cases i <;> simp only [foldInterfaceValue] <;> first
    | fok
    | skip
  rename_i t v
  cases userReg o t with
  | some f => simp only []; fok
  | none =>
    simp only []
    cases getFoldGoTypes t.whnf with
    | some f => simp only []; fok
    | none =>
      simp only []
      apply FOK.ite'
      · apply FOK.ite'
        · fok
        · cases folderEvents ⟨t, v⟩ <;> simp only [] <;> fok
      · cases getFoldConvert t.whnf <;> simp only [] <;> fok

/-- every run function of the mirror, at every fuel, commutes with the fault -/
theorem runOK (o : FoldOpts) : ∀ fuel, RunOK o fuel := by
  intro fuel
  induction fuel with
  | zero =>
    constructor
    · intro c i
      show FOK (fun s => foldInterfaceValue 0 o c i s)
      simp only [foldInterfaceValue]; exact FOK.pure _
    · intro c f v
      show FOK (fun s => runFast 0 o c f v s)
      simp only [runFast]; exact FOK.pure _
    · intro c rv
      show FOK (fun s => foldAnyReflect 0 o c rv s)
      simp only [foldAnyReflect]; exact FOK.pure _
    · intro c f rv
      show FOK (fun s => Fold.run 0 o c f rv s)
      simp only [Fold.run]; exact FOK.pure _
  | succ fuel ih =>
    exact ⟨fiv_step o fuel ih, fast_step o fuel ih, any_step o fuel ih, run_step o fuel ih⟩

end SF.FoldProofs.Fault
