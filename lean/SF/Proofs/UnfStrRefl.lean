/-
  Targets with structs, part 6: the reflection frames (`unfolderReflSlice`, `unfolderReflMap`,
  `unfolderReflPtr`) — their own events, `nil` elements, `prepare` of the slice (ports of `UnfTyRefl`,
  `UnfTyRefl2`, `UnfTyRefl3`).
-/
import SF.Proofs.UnfStrSub
namespace SF.Unf.Str
open SF SF.Unf

variable {tbl : TypeTable} {R : Reg} {D : Nat} {base : S6} {fs : List Frame} {c : Ctx}

theorem flat_of_ptr {t e : GoType} (h : t.un tbl = .ptr e) : Flat tbl t := by
  unfold Flat; rw [h]; trivial

theorem minLen_zero {e : GoType} {v : GoVal} (h : sliceOf e v) : (Rf.minLen 0).ok v := by
  rcases h with rfl | ⟨es, hd, rfl⟩
  · rfl
  · exact Nat.zero_le _

/-! ## `unfolderReflSliceStart` -/

theorem reflSliceStart_at (l : Int) (c : Ctx) (p : Path) (t e : GoType) (sl : GoVal) (u : Stk U) (x : U)
    (hptr : c.value.current = some p) (hsl : deref c p = some sl) (hun : t.un tbl = .slice e)
    (hs : HasTy tbl t sl) (hz : HasTy tbl e (zero c.env e)) (hu : c.unfolder = u.push x) :
    reflSliceStartOnArrayStart l c = .ok () { c with unfolder := u } ∨
    ∃ w, HasTy tbl t w ∧ reflSliceStartOnArrayStart l c = .ok () { storeAt c p w with unfolder := u } := by
  rcases hs.slice_inv hun with rfl | ⟨es, h, rfl, hes, hh⟩
  · by_cases hl : 0 < (if l < 0 then 0 else l)
    · refine Or.inr ⟨.slice e (List.replicate (arrPreallocLen (if l < 0 then 0 else l)).toNat (zero c.env e)) [],
        ?_, ?_⟩
      · refine .slice _ _ _ _ hun ?_ (by intro _ h; cases h)
        intro y hy
        rw [List.eq_of_mem_replicate hy]
        exact hz
      · simp [reflSliceStartOnArrayStart, bind_def, currentValue, hptr, load_def, hsl, hl, zeroM,
          store_at_ok c p _ _ hsl, popU, hu, pure_def]
    · refine Or.inl ?_
      simp [reflSliceStartOnArrayStart, bind_def, currentValue, hptr, load_def, hsl, hl, popU, hu, pure_def]
  · by_cases hl : (if l < 0 then 0 else l) < (es.length : Int)
    · refine Or.inr ⟨.slice e (es.take (if l < 0 then 0 else l).toNat) (es.drop (if l < 0 then 0 else l).toNat ++ h),
        ?_, ?_⟩
      · refine .slice _ _ _ _ hun (fun y hy => hes y (List.mem_of_mem_take hy)) ?_
        intro y hy
        rcases List.mem_append.mp hy with hy | hy
        · exact hes y (List.mem_of_mem_drop hy)
        · exact hh y hy
      · simp [reflSliceStartOnArrayStart, bind_def, currentValue, hptr, load_def, hsl, hl, store_at_ok c p _ _ hsl,
          popU, hu, pure_def]
    · refine Or.inl ?_
      simp [reflSliceStartOnArrayStart, bind_def, currentValue, hptr, load_def, hsl, hl, popU, hu, pure_def]

/-- the array starts -/
theorem arrStart_rslS (e : GoType) (ru : RU) (t : GoType) (p : Path) (f : Nat) (l : Int) (bt : Nat)
    (h : Inv tbl R D base (.rslS e ru t p :: fs) c) :
    ∃ c', onArrayStart (f + 1) l bt c = .ok () c' ∧ Inv tbl R D base (.rsl e ru t p 0 :: fs) c' := by
  obtain ⟨hu, hp, hv, hk, hi, hb⟩ := s6_eq _ _ h.stacks
  simp only [stacksOf, Frame.push] at hu hp hv hk hi hb
  obtain ⟨sl, hd, hok, _⟩ := h.top_deref
  obtain ⟨hun, hz, _, _⟩ := h.wfs.1.2.slice_inv
  have hrun : onArrayStart (f + 1) l bt c = reflSliceStartOnArrayStart l c := by
    simp [onArrayStart, bind_def, currentU, hu]
  rw [hrun]
  have hs6 : ∀ c1 : Ctx, c1.s6 = c.s6 →
      ({ c1 with unfolder := (stacksOf base fs).u.push (.reflSlice e ru) } : Ctx).s6 =
        stacksOf base (.rsl e ru t p 0 :: fs) := by
    intro c1 h1
    obtain ⟨e1, e2, e3, e4, e5, e6⟩ := s6_eq _ _ h1
    simp only [Ctx.s6] at e1 e2 e3 e4 e5 e6
    exact s6_mk _ _ rfl (by simp [e2, hp, stacksOf, Frame.push]) (by simp [e3, hv, stacksOf, Frame.push])
      (by simp [e4, hk, stacksOf, Frame.push]) (by simp [e5, hi, stacksOf, Frame.push])
      (by simp [e6, hb, stacksOf, Frame.push])
  have hborn : Born tbl R D (.rsl e ru t p 0) fs := ⟨h.wfs.1.1, h.wfs.1.2, Int.le_refl 0⟩
  rcases reflSliceStart_at l c p t e sl _ _ (by rw [hv]; rfl) hd hun hok (by rw [h.env]; exact hz) hu with
    hr | ⟨w, hw, hr⟩
  · exact ⟨_, hr, h.replace (F' := .rsl e ru t p 0) rfl rfl (fun v _ hv _ => minLen_zero (hv.sliceOf hun)) hborn
      (hs6 c rfl) rfl rfl rfl rfl⟩
  · exact ⟨_, hr, h.replace_store (F' := .rsl e ru t p 0) c rfl w hw rfl rfl (minLen_zero (hw.sliceOf hun)) hborn
      (hs6 _ (storeAt_s6 c p w)) rfl rfl rfl rfl⟩

/-- the array is finished (before the parent is told) -/
theorem arrFin_rsl (e : GoType) (ru : RU) (t : GoType) (p : Path) (i : Int)
    (h : Inv tbl R D base (.rsl e ru t p i :: fs) c) :
    ∃ c', onArrayFinished c = .ok () c' ∧ Inv tbl R D base fs c' ∧
      c.unfolder.stack.length = c'.unfolder.stack.length + 1 := by
  obtain ⟨hu, hp, hv, hk, hi, hb⟩ := s6_eq _ _ h.stacks
  simp only [stacksOf, Frame.push] at hu hp hv hk hi hb
  have hrun : onArrayFinished c = .ok ()
      { c with unfolder := (stacksOf base fs).u, idx := (stacksOf base fs).i, value := (stacksOf base fs).v } := by
    simp [onArrayFinished, bind_def, currentU, hu, reflSliceCleanup, popU, popIdx, hi, popValue, hv, pure_def]
  refine ⟨_, hrun, h.pop (s6_mk _ _ rfl (by simp [hp]) rfl (by simp [hk]) rfl (by simp [hb])) rfl rfl rfl rfl, ?_⟩
  simp [hu, Stk.push]

/-! ## `unfolderReflMap` -/

/-- the object starts: the map is made non-nil -/
theorem objStart_rmS (e : GoType) (ru : RU) (t : GoType) (p : Path) (f : Nat) (l : Int) (bt : Nat)
    (h : Inv tbl R D base (.rmS e ru t p :: fs) c) :
    ∃ c', onObjectStart (f + 1) l bt c = .ok () c' ∧ Inv tbl R D base (.rmK e ru t p :: fs) c' := by
  obtain ⟨hu, hp, hv, hk, hi, hb⟩ := s6_eq _ _ h.stacks
  simp only [stacksOf, Frame.push] at hu hp hv hk hi hb
  obtain ⟨m, hd, hok, _⟩ := h.top_deref
  have hd : deref c p = some m := hd
  obtain ⟨hun, _, _, _⟩ := h.wfs.1.2.map_inv
  have hm : isMapVal m := hok.map_inv hun
  have hs6 : ∀ c1 : Ctx, c1.s6 = c.s6 →
      ({ c1 with unfolder := (stacksOf base fs).u.push (.reflMapOnKey e ru) } : Ctx).s6 =
        stacksOf base (.rmK e ru t p :: fs) := by
    intro c1 h1
    obtain ⟨e1, e2, e3, e4, e5, e6⟩ := s6_eq _ _ h1
    simp only [Ctx.s6] at e1 e2 e3 e4 e5 e6
    exact s6_mk _ _ rfl (by simp [e2, hp, stacksOf, Frame.push]) (by simp [e3, hv, stacksOf, Frame.push])
      (by simp [e4, hk, stacksOf, Frame.push]) (by simp [e5, hi, stacksOf, Frame.push])
      (by simp [e6, hb, stacksOf, Frame.push])
  have hborn : Born tbl R D (.rmK e ru t p) fs := h.wfs.1
  cases m with
  | mapNil et =>
    have hrun : onObjectStart (f + 1) l bt c =
        .ok () { storeAt c p (.map et []) with unfolder := (stacksOf base fs).u.push (.reflMapOnKey e ru) } := by
      simp [onObjectStart, bind_def, currentU, hu, reflMapStartOnObjectStart, currentValue, hv, load_def, hd,
        store_at_ok c p _ _ hd, popU, pure_def]
    exact ⟨_, hrun, h.replace_store (F' := .rmK e ru t p) c rfl (.map et []) (hasTy_of_isMap hun trivial) rfl rfl
      trivial hborn (hs6 _ (storeAt_s6 c p _)) rfl rfl rfl rfl⟩
  | map et ms =>
    have hrun : onObjectStart (f + 1) l bt c =
        .ok () { c with unfolder := (stacksOf base fs).u.push (.reflMapOnKey e ru) } := by
      simp [onObjectStart, bind_def, currentU, hu, reflMapStartOnObjectStart, currentValue, hv, load_def, hd,
        popU, pure_def]
    refine ⟨_, hrun, h.replace (F' := .rmK e ru t p) rfl rfl ?_ hborn (hs6 c rfl) rfl rfl rfl rfl⟩
    intro v hv' _ _
    have hd' : deref c p = some v := hv'
    rw [hd] at hd'
    injection hd' with hd'
    subst hd'
    trivial
  | _ => exact absurd hm (by simp [isMapVal])

/-- a key -/
theorem key_rmK (e : GoType) (ru : RU) (t : GoType) (p : Path) (key : Bytes)
    (h : Inv tbl R D base (.rmK e ru t p :: fs) c) :
    ∃ c', onKey key c = .ok () c' ∧ Inv tbl R D base (.rmE e ru t p key :: fs) c' := by
  obtain ⟨hu, hp, hv, hk, hi, hb⟩ := s6_eq _ _ h.stacks
  simp only [stacksOf, Frame.push] at hu hp hv hk hi hb
  have hrun : onKey key c = .ok ()
      { c with key := c.key.push key, unfolder := { c.unfolder with current := .reflMapOnElem e ru } } := by
    simp [onKey, bind_def, currentU, hu, pushKey, setCurrentU, modifyCtx]
  refine ⟨_, hrun, h.replace (F' := .rmE e ru t p key) rfl rfl (fun _ _ _ hv => hv) h.wfs.1 ?_ rfl rfl rfl rfl⟩
  exact s6_mk _ _ (by simp [hu, stacksOf, Frame.push, Stk.push]) (by simp [hp, stacksOf, Frame.push])
    (by simp [hv, stacksOf, Frame.push]) (by simp [hk, stacksOf, Frame.push]) (by simp [hi, stacksOf, Frame.push])
    (by simp [hb, stacksOf, Frame.push])

/-- the object is finished (before the parent is told) -/
theorem objFin_rmK (e : GoType) (ru : RU) (t : GoType) (p : Path) (h : Inv tbl R D base (.rmK e ru t p :: fs) c) :
    ∃ c', onObjectFinished c = .ok () c' ∧ Inv tbl R D base fs c' ∧
      c.unfolder.stack.length = c'.unfolder.stack.length + 1 := by
  obtain ⟨hu, hp, hv, hk, hi, hb⟩ := s6_eq _ _ h.stacks
  simp only [stacksOf, Frame.push] at hu hp hv hk hi hb
  have hrun : onObjectFinished c = .ok ()
      { c with unfolder := (stacksOf base fs).u, value := (stacksOf base fs).v } := by
    simp [onObjectFinished, bind_def, currentU, hu, popU, popValue, hv, pure_def]
  refine ⟨_, hrun, h.pop (s6_mk _ _ rfl (by simp [hp]) rfl (by simp [hk]) (by simp [hi]) (by simp [hb])) rfl rfl rfl rfl,
    ?_⟩
  simp [hu, Stk.push]

/-! ## `unfolderReflMapOnElem` -/

theorem nonNil_cases (m : GoVal) (h : Rf.nonNil.ok m) : ∃ et ms, m = .map et ms := by
  have h' : isMapNN m := h
  cases m <;> first | exact h'.elim | exact ⟨_, _, rfl⟩

/-- the pending key gets a value: the map entry is set, the frame waits for the next key -/
theorem rmE_set (e : GoType) (ru : RU) (t : GoType) (p : Path) (key : Bytes) (v : GoVal)
    (h : Inv tbl R D base (.rmE e ru t p key :: fs) c) :
    ∃ c', (popKey >>= fun k => reflMapSet k v >>= fun _ => setCurrentU (.reflMapOnKey e ru)) c = .ok () c' ∧
      Inv tbl R D base (.rmK e ru t p :: fs) c' := by
  obtain ⟨hu, hp, hv, hk, hi, hb⟩ := s6_eq _ _ h.stacks
  simp only [stacksOf, Frame.push] at hu hp hv hk hi hb
  obtain ⟨m, hd, _, hok⟩ := h.top_deref
  have hd : deref c p = some m := hd
  obtain ⟨hun, _, _, _⟩ := h.wfs.1.2.map_inv
  obtain ⟨et, ms, rfl⟩ := nonNil_cases m hok
  have hd1 : deref { c with key := (stacksOf base fs).k } p = some (.map et ms) := (deref_congr c _ rfl p).trans hd
  have hrun : (popKey >>= fun k => reflMapSet k v >>= fun _ => setCurrentU (.reflMapOnKey e ru)) c =
      .ok () { storeAt { c with key := (stacksOf base fs).k } p (.map et (mapSet ms key v)) with
        unfolder := (stacksOf base fs).u.push (.reflMapOnKey e ru) } := by
    simp only [bind_def, popKey, hk, Stk.pop_push]
    rw [reflMapSet_at key v _ p et ms (by simp [hv]) hd1]
    simp [setCurrentU, modifyCtx, hu, Stk.push]
  refine ⟨_, hrun, h.replace_store (F' := .rmK e ru t p) { c with key := (stacksOf base fs).k } rfl
    (.map et (mapSet ms key v)) (hasTy_of_isMap hun trivial) rfl rfl trivial h.wfs.1 ?_ rfl rfl rfl rfl⟩
  exact s6_mk _ _ rfl (by simp [hp, stacksOf, Frame.push]) (by simp [hv, stacksOf, Frame.push])
    (by simp [stacksOf, Frame.push]) (by simp [hi, stacksOf, Frame.push]) (by simp [hb, stacksOf, Frame.push])

/-- `null` for a map value: the zero value is put -/
theorem nil_rmE (e : GoType) (ru : RU) (t : GoType) (p : Path) (key : Bytes) (f : Nat)
    (h : Inv tbl R D base (.rmE e ru t p key :: fs) c) :
    ∃ c', onScalar (f + 1) .nil c = .ok () c' ∧ Inv tbl R D base (.rmK e ru t p :: fs) c' := by
  obtain ⟨hu, hp, hv, hk, hi, hb⟩ := s6_eq _ _ h.stacks
  simp only [stacksOf, Frame.push] at hu hp hv hk hi hb
  obtain ⟨c', hrun, hinv⟩ := rmE_set e ru t p key (zero c.env e) h
  refine ⟨c', ?_, hinv⟩
  rw [← hrun]
  have hpk : popKey c = .ok key { c with key := (stacksOf base fs).k } := by simp [popKey, hk]
  simp [onScalar, bind_def, currentU, hu, zeroM, hpk]

/-! ## `unfolderReflPtr` -/

/-- `null` for a pointer: nil, the frame is gone -/
theorem nil_rp (e : GoType) (ru : RU) (t : GoType) (p : Path) (f : Nat) (h : Inv tbl R D base (.rp e ru t p :: fs) c) :
    ∃ c', onScalar (f + 1) .nil c = .ok () c' ∧ Inv tbl R D base fs c' := by
  obtain ⟨hu, hp, hv, hk, hi, hb⟩ := s6_eq _ _ h.stacks
  simp only [stacksOf, Frame.push] at hu hp hv hk hi hb
  obtain ⟨old, hd, _⟩ := h.top_deref
  have hd : deref c p = some old := hd
  have hrun : onScalar (f + 1) .nil c =
      .ok () { storeAt c p (.ptrNil e) with unfolder := (stacksOf base fs).u, value := (stacksOf base fs).v } := by
    simp [onScalar, bind_def, currentU, hu, currentValue, hv, store_at_ok c p _ _ hd, reflPtrCleanup, popValue, popU,
      pure_def]
  refine ⟨_, hrun, h.pop_store c rfl (.ptrNil e) (.flat _ _ (flat_of_ptr h.wfs.1.2.ptr_inv.1)) ?_ rfl rfl rfl rfl⟩
  exact s6_mk _ _ rfl (by simp [hp]) rfl (by simp [hk]) (by simp [hi]) (by simp [hb])

/-! ## `unfolderReflSlice.prepare` -/

/-- the slice at the frame's pointer now has more than `i` elements: the invariant with the index
advanced, and the element the returned pointer points at -/
theorem prep_finish (e : GoType) (ru : RU) (t : GoType) (p : Path) (i : Int)
    (h : Inv tbl R D base (.rsl e ru t p i :: fs) c)
    (c1 : Ctx) (es' h' : List GoVal)
    (hw : HasTy tbl t (.slice e es' h')) (hlen : (i + 1).toNat ≤ es'.length)
    (hc1 : c1 = { storeAt c p (.slice e es' h') with idx := { c.idx with current := i + 1 } } ∨
      (c1 = { c with idx := { c.idx with current := i + 1 } } ∧ deref c p = some (.slice e es' h'))) :
    Inv tbl R D base (.rsl e ru t p (i + 1) :: fs) c1 ∧
      ∃ x, deref c1 (p.push (.index i.toNat)) = some x ∧ HasTy tbl e x := by
  obtain ⟨hu, hp, hv, hk, hi, hb⟩ := s6_eq _ _ h.stacks
  simp only [stacksOf, Frame.push] at hu hp hv hk hi hb
  have hi0 : 0 ≤ i := h.wfs.1.2.2
  have hun := h.wfs.1.2.1.slice_inv.1
  have hborn : Born tbl R D (.rsl e ru t p (i + 1)) fs := ⟨h.wfs.1.1, h.wfs.1.2.1, by omega⟩
  have hs6 : ∀ c0 : Ctx, c0.s6 = c.s6 →
      ({ c0 with idx := { c.idx with current := i + 1 } } : Ctx).s6 = stacksOf base (.rsl e ru t p (i + 1) :: fs) := by
    intro c0 h0
    obtain ⟨e1, e2, e3, e4, e5, e6⟩ := s6_eq _ _ h0
    simp only [Ctx.s6] at e1 e2 e3 e4 e5 e6
    exact s6_mk _ _ (by simp [e1, hu, stacksOf, Frame.push]) (by simp [e2, hp, stacksOf, Frame.push])
      (by simp [e3, hv, stacksOf, Frame.push]) (by simp [e4, hk, stacksOf, Frame.push])
      (by simp [hi, stacksOf, Frame.push, Stk.push]) (by simp [e6, hb, stacksOf, Frame.push])
  have hinv : Inv tbl R D base (.rsl e ru t p (i + 1) :: fs) c1 ∧ deref c1 p = some (.slice e es' h') := by
    rcases hc1 with rfl | ⟨rfl, hd⟩
    · obtain ⟨old, hold, _⟩ := h.top_deref
      refine ⟨h.replace_store (F' := .rsl e ru t p (i + 1)) c rfl (.slice e es' h') hw rfl rfl hlen hborn
        (hs6 _ (storeAt_s6 c p _)) rfl rfl rfl rfl, ?_⟩
      exact (deref_congr (storeAt c p (.slice e es' h')) _ rfl p).trans (deref_storeAt_self c p _ old hold)
    · refine ⟨h.replace (F' := .rsl e ru t p (i + 1)) rfl rfl ?_ hborn (hs6 c rfl) rfl rfl rfl rfl, ?_⟩
      · intro v hv' _ _
        have hv'' : deref c p = some v := hv'
        rw [hd] at hv''
        injection hv'' with hv''
        subst hv''
        exact hlen
      · exact (deref_congr c _ rfl p).trans hd
  refine ⟨hinv.1, ?_⟩
  rcases hw.slice_inv hun with hv' | ⟨es'', h'', hv', hes, _⟩
  · cases hv'
  · injection hv' with h1 h2 h3
    subst h2; subst h3
    have hlt : i.toNat < es'.length := by omega
    refine ⟨es'[i.toNat], deref_index c1 p e es' h' i.toNat _ hinv.2 (List.getElem?_eq_getElem hlt), ?_⟩
    exact hes _ (List.getElem_mem hlt)

/-- `unfolderReflSlice.prepare` -/
theorem prepare_rsl (e : GoType) (ru : RU) (t : GoType) (p : Path) (i : Int)
    (h : Inv tbl R D base (.rsl e ru t p i :: fs) c) :
    ∃ c1, reflSlicePrepare c = .ok (some (p.push (.index i.toNat))) c1 ∧
      Inv tbl R D base (.rsl e ru t p (i + 1) :: fs) c1 ∧
      (∃ x, deref c1 (p.push (.index i.toNat)) = some x ∧ HasTy tbl e x) ∧
      c1.whatIfFixed = c.whatIfFixed := by
  obtain ⟨hu, hp, hv, hk, hi, hb⟩ := s6_eq _ _ h.stacks
  simp only [stacksOf, Frame.push] at hu hp hv hk hi hb
  have hi0 : 0 ≤ i := h.wfs.1.2.2
  obtain ⟨hun, hz0, _, _⟩ := h.wfs.1.2.1.slice_inv
  have hz : HasTy tbl e (zero c.env e) := by rw [h.env]; exact hz0
  obtain ⟨sl, hd0, hok0, hrf0⟩ := h.top_deref
  have hd : deref c p = some sl := hd0
  have hok : HasTy tbl t sl := hok0
  have hrf : (Rf.minLen i.toNat).ok sl := hrf0
  clear hd0 hok0 hrf0
  have hcv : c.value.current = some p := by rw [hv]; rfl
  have hci : c.idx.current = i := by rw [hi]; rfl
  rcases hok.slice_inv hun with rfl | ⟨es, hh, rfl, hes, hhh⟩
  · -- nil slice: i = 0, one zero element is appended
    have hi' : i = 0 := by
      have : i.toNat = 0 := hrf
      omega
    have hw : HasTy tbl t (.slice e [zero c.env e] []) := by
      refine .slice _ _ _ _ hun ?_ (by intro _ h; cases h)
      intro y hy
      simp only [List.mem_singleton] at hy
      subst hy
      exact hz
    have hrun : reflSlicePrepare c = .ok (some (p.push (.index i.toNat)))
        { storeAt c p (.slice e [zero c.env e] []) with idx := { c.idx with current := i + 1 } } := by
      rw [hi'] at hci
      simp [reflSlicePrepare, bind_def, currentValue, hcv, currentIdx, hci, load_def, hd, pure_def, getCtx,
        store_at_ok c p _ _ hd, setCurrentIdx, modifyCtx, hi']
    obtain ⟨h1, h2⟩ := prep_finish e ru t p i h _ _ _ hw (by rw [hi']; simp) (Or.inl rfl)
    exact ⟨_, hrun, h1, h2, by simp⟩
  · have hrf' : i.toNat ≤ es.length := hrf
    by_cases hlen : (es.length : Int) > i
    · -- the element exists
      have hrun : reflSlicePrepare c = .ok (some (p.push (.index i.toNat)))
          { c with idx := { c.idx with current := i + 1 } } := by
        simp [reflSlicePrepare, bind_def, currentValue, hcv, currentIdx, hci, load_def, hd, pure_def, getCtx, hlen,
          setCurrentIdx, modifyCtx]
      obtain ⟨h1, h2⟩ := prep_finish e ru t p i h _ _ _ hok (by omega) (Or.inr ⟨rfl, hd⟩)
      exact ⟨_, hrun, h1, h2, rfl⟩
    · have hlen' : es.length = i.toNat := by omega
      cases hh with
      | nil =>
        have hw : HasTy tbl t (.slice e (es ++ [zero c.env e]) []) := by
          refine .slice _ _ _ _ hun ?_ (by intro _ h; cases h)
          intro y hy
          rcases List.mem_append.mp hy with hy | hy
          · exact hes y hy
          · simp only [List.mem_singleton] at hy; subst hy; exact hz
        have hrun : reflSlicePrepare c = .ok (some (p.push (.index i.toNat)))
            { storeAt c p (.slice e (es ++ [zero c.env e]) []) with idx := { c.idx with current := i + 1 } } := by
          simp [reflSlicePrepare, bind_def, currentValue, hcv, currentIdx, hci, load_def, hd, pure_def, getCtx, hlen,
            store_at_ok c p _ _ hd, setCurrentIdx, modifyCtx]
        obtain ⟨h1, h2⟩ := prep_finish e ru t p i h _ _ _ hw (by simp; omega) (Or.inl rfl)
        exact ⟨_, hrun, h1, h2, by simp⟩
      | cons x h' =>
        have hw : HasTy tbl t (.slice e (es ++ [if c.whatIfFixed = true then zero c.env e else x]) h') := by
          refine .slice _ _ _ _ hun ?_ (fun y hy => hhh y (List.mem_cons_of_mem _ hy))
          intro y hy
          rcases List.mem_append.mp hy with hy | hy
          · exact hes y hy
          · simp only [List.mem_singleton] at hy
            subst hy
            split
            · exact hz
            · exact hhh x List.mem_cons_self
        have hrun : reflSlicePrepare c = .ok (some (p.push (.index i.toNat)))
            { storeAt c p (.slice e (es ++ [if c.whatIfFixed = true then zero c.env e else x]) h') with
              idx := { c.idx with current := i + 1 } } := by
          simp [reflSlicePrepare, bind_def, currentValue, hcv, currentIdx, hci, load_def, hd, pure_def, getCtx, hlen,
            store_at_ok c p _ _ hd, setCurrentIdx, modifyCtx]
        obtain ⟨h1, h2⟩ := prep_finish e ru t p i h _ _ _ hw (by simp; omega) (Or.inl rfl)
        exact ⟨_, hrun, h1, h2, by simp⟩

end SF.Unf.Str
