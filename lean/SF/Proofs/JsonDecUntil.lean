/-
  Helper lemmas for C18 (JSON pull decoder): THE LOOP `feedUntil` OF `Decoder.Next` WITHOUT FUEL.
  `U p b` is `feedUntil` with the fuel the model hands out; from every reachable state it
  unfolds step by step (`U_step`), the amount of fuel does not matter once it exceeds the cost
  (`feedUntil_fuel`), it respects the equivalence `Eqv` of parser states (`U_eqv`), and it
  stops only after a top-level value, at an error, or when the input is used up (`U_post`).
-/
import SF.Proofs.JsonDecEff
import SF.Proofs.JsonEqv
set_option linter.unusedSimpArgs false
set_option linter.unusedVariables false
namespace SF.Json.DecP
open SF SF.Json SF.Json.Parse SF.Json.Float SF.Json.ParseP

/-- `feedUntil` with the fuel the model hands out -/
def U (p : P) (b : Bytes) : R := feedUntil (fuelFor b) p b

/-- the amount of fuel does not matter once it exceeds the cost -/
theorem feedUntil_fuel (f g : Nat) (p : P) (b : Bytes) (hinv : Inv p) (hf : cost p b < f) (hg : cost p b < g) :
    feedUntil f p b = feedUntil g p b := by
  induction f generalizing g p b with
  | zero => omega
  | succ f ih =>
    cases g with
    | zero => omega
    | succ g =>
      rw [feedUntil_succ, feedUntil_succ]
      by_cases hb : b = []
      · subst hb; simp
      · have hbe : b.isEmpty = false := by cases b <;> simp_all
        simp only [hbe, Bool.false_eq_true, if_false]
        rcases step_cases p b hb hinv with h | ⟨h, h2, h3⟩
        · simp only [Bool.or_eq_true] at h
          rcases h with h | h
          · simp only [h, if_true]
          · by_cases h5 : (execStep p b).2 = true
            · simp only [h5, if_true]
            · simp only [h5, Bool.false_eq_true, if_false, h, if_true]
        · simp only [Bool.or_eq_false_iff] at h
          simp only [h.1, h.2, Bool.false_eq_true, if_false]
          split
          · rfl
          · exact ih g _ _ h2 (by omega) (by omega)

theorem U_eq (f : Nat) (p : P) (b : Bytes) (hinv : Inv p) (hf : cost p b < f) : feedUntil f p b = U p b :=
  feedUntil_fuel f _ p b hinv hf (cost_lt_fuelFor p b)

theorem U_nil (p : P) : U p [] = { p := p, rest := [] } := by
  unfold U
  rw [show fuelFor [] = 7 + 1 from rfl, feedUntil_succ]
  simp

/-- unfolding the loop by one step, from a reachable state -/
theorem U_step (p : P) (b : Bytes) (hb : b ≠ []) (h : ParseP.WF p) :
    U p b =
      if (execStep p b).1.err.isSome = true then (execStep p b).1
      else if flag (execStep p b).1 = true then { (execStep p b).1 with reported := true }
      else U (execStep p b).1.p (execStep p b).1.rest := by
  have hbe : b.isEmpty = false := by cases b <;> simp_all
  obtain ⟨k1, k2⟩ := execStep_wf p b hb h
  have hc := cost_lt_fuelFor p b
  unfold U
  obtain ⟨n, hn⟩ : ∃ n, fuelFor b = n + 1 := ⟨fuelFor b - 1, by unfold fuelFor; omega⟩
  rw [hn, feedUntil_succ]
  simp only [hbe, Bool.false_eq_true, if_false, k1, flag]
  by_cases he : (execStep p b).1.err.isSome = true
  · simp only [he, if_true]
  · simp only [he, Bool.false_eq_true, if_false]
    by_cases hf : ((execStep p b).1.reported && (execStep p b).1.p.states.isEmpty) = true
    · simp only [hf, if_true]
    · simp only [hf, Bool.false_eq_true, if_false]
      have he' : (execStep p b).1.err = none := by
        cases h' : (execStep p b).1.err with
        | none => rfl
        | some e => rw [h'] at he; simp at he
      have := (execStep_ok p b hb h.inv h.not_failed).2.2.2.2 he'
      exact feedUntil_fuel _ _ _ _ k2.inv (by omega) (cost_lt_fuelFor _ _)

theorem U_err (p : P) (b : Bytes) (hb : b ≠ []) (h : ParseP.WF p) (e : Err) (he : (execStep p b).1.err = some e) :
    U p b = (execStep p b).1 := by
  rw [U_step p b hb h, he]; rfl

theorem U_flag (p : P) (b : Bytes) (hb : b ≠ []) (h : ParseP.WF p) (he : (execStep p b).1.err = none)
    (hf : flag (execStep p b).1 = true) : U p b = { (execStep p b).1 with reported := true } := by
  rw [U_step p b hb h, he, hf]; rfl

theorem U_cont (p : P) (b : Bytes) (hb : b ≠ []) (h : ParseP.WF p) (he : (execStep p b).1.err = none)
    (hf : flag (execStep p b).1 = false) : U p b = U (execStep p b).1.p (execStep p b).1.rest := by
  rw [U_step p b hb h, he, hf]; rfl

/-- induction along the loop -/
theorem U_induct {motive : P → Bytes → Prop}
    (nil : ∀ p, ParseP.WF p → motive p [])
    (step : ∀ p b, ParseP.WF p → b ≠ [] →
      ((execStep p b).1.err = none → flag (execStep p b).1 = false →
        motive (execStep p b).1.p (execStep p b).1.rest) → motive p b) :
    ∀ p b, ParseP.WF p → motive p b := by
  have key : ∀ n p b, ParseP.WF p → cost p b < n → motive p b := by
    intro n
    induction n with
    | zero => intro p b _ h; omega
    | succ n ih =>
      intro p b h hc
      by_cases hb : b = []
      · subst hb; exact nil p h
      · refine step p b h hb (fun he _ => ?_)
        have := (execStep_ok p b hb h.inv h.not_failed).2.2.2.2 he
        exact ih _ _ (execStep_wf p b hb h).2 (by omega)
  intro p b h
  exact key _ p b h (Nat.lt_succ_self _)

/-! ## what the loop establishes -/

theorem U_wf (p : P) (b : Bytes) (h : ParseP.WF p) : ParseP.WF (U p b).p := feedUntil_wf _ p b h

/-- without error: either a value was reported and the stack is empty (the step that reported
it delivered an event), or all input is used up -/
theorem U_post (p : P) (b : Bytes) (h : ParseP.WF p) (he : (U p b).err = none) :
    ((U p b).reported = true → (U p b).p.states = []) ∧ ((U p b).reported = false → (U p b).rest = []) := by
  revert he
  refine U_induct (motive := fun p b => (U p b).err = none →
    ((U p b).reported = true → (U p b).p.states = []) ∧ ((U p b).reported = false → (U p b).rest = [])) ?_ ?_ p b h
  · intro p _ _
    rw [U_nil]; simp
  · intro p b hw hb ih he
    cases hs : (execStep p b).1.err with
    | some e =>
      rw [U_err p b hb hw e hs] at he
      rw [hs] at he; cases he
    | none =>
      cases hf : flag (execStep p b).1 with
      | true =>
        rw [U_flag p b hb hw hs hf]
        simp only [flag, Bool.and_eq_true, List.isEmpty_iff] at hf
        exact ⟨fun _ => hf.2, fun hc => by simp at hc⟩
      | false =>
        rw [U_cont p b hb hw hs hf] at he ⊢
        exact ih hs hf he

/-- the stored error is not touched -/
theorem U_perr (p : P) (b : Bytes) (h : ParseP.WF p) (he : (U p b).err = none) : (U p b).p.err = p.err :=
  ((feedUntil_spec _ p b h.inv).2.2.2 he).1

/-- the loop, then `run` on what is left, is `run` -/
theorem U_run (p : P) (b : Bytes) (h : ParseP.WF p) :
    runA p b = if (U p b).err.isSome then ((U p b).p, (U p b).err) else runA (U p b).p (U p b).rest :=
  feedUntil_run _ p b h.inv (cost_lt_fuelFor p b)

/-! ## the loop respects `Eqv` -/

theorem eqv_states {p q : P} (h : Eqv p q) : q.states = p.states := by
  obtain ⟨r, rfl, _⟩ := h; rfl

theorem eqv_evs {p q : P} (h : Eqv p q) : q.evs = p.evs ∧ q.nevs = p.nevs := by
  obtain ⟨r, rfl, _⟩ := h; exact ⟨rfl, rfl⟩

theorem eqv_wf {p q : P} (h : Eqv p q) (hp : ParseP.WF p) : ParseP.WF q :=
  ⟨Eqv.inv h hp.inv, by rw [eqv_states h, Eqv.cs h]; exact hp.shape⟩

/-- results of the loop that agree as far as `Decoder.Next` looks at them: same verdict and
events; and without error the same rest, the same `reported`, states equal up to `Eqv` -/
def UE (x y : R) : Prop :=
  y.err = x.err ∧ y.p.evs = x.p.evs ∧ y.p.nevs = x.p.nevs ∧
    (x.err = none → y.rest = x.rest ∧ y.reported = x.reported ∧ Eqv x.p y.p)

theorem UE.refl (x : R) : UE x x := ⟨rfl, rfl, rfl, fun _ => ⟨rfl, rfl, Eqv.refl _⟩⟩

theorem UE.symm {x y : R} (h : UE x y) : UE y x := by
  obtain ⟨a1, a2, a3, a4⟩ := h
  refine ⟨a1.symm, a2.symm, a3.symm, fun hy => ?_⟩
  obtain ⟨b1, b2, b3⟩ := a4 (by rw [← a1]; exact hy)
  exact ⟨b1.symm, b2.symm, b3.symm⟩

theorem UE.trans {x y z : R} (h1 : UE x y) (h2 : UE y z) : UE x z := by
  obtain ⟨a1, a2, a3, a4⟩ := h1
  obtain ⟨b1, b2, b3, b4⟩ := h2
  refine ⟨by rw [b1, a1], by rw [b2, a2], by rw [b3, a3], fun h => ?_⟩
  obtain ⟨c1, c2, c3⟩ := a4 h
  obtain ⟨d1, d2, d3⟩ := b4 (by rw [a1]; exact h)
  exact ⟨by rw [d1, c1], by rw [d2, c2], Eqv.trans c3 d3⟩

theorem UE.of_eq {x y : R} (h : x = y) : UE x y := h ▸ UE.refl x

theorem flag_eqv {x y : R} (h1 : y.reported = x.reported) (h2 : Eqv x.p y.p) : flag y = flag x := by
  unfold flag; rw [h1, eqv_states h2]

/-- THE LOOP RESPECTS `Eqv` -/
theorem U_eqv (p : P) (b : Bytes) (h : ParseP.WF p) : ∀ q, Eqv p q → UE (U p b) (U q b) := by
  refine U_induct (motive := fun p b => ∀ q, Eqv p q → UE (U p b) (U q b)) ?_ ?_ p b h
  · intro p _ q hq
    rw [U_nil, U_nil]
    exact ⟨rfl, (eqv_evs hq).1, (eqv_evs hq).2, fun _ => ⟨rfl, rfl, hq⟩⟩
  · intro p b hw hb ih q hq
    have hwq := eqv_wf hq hw
    obtain ⟨k1, k2, k3, k4, k5⟩ := execStep_eqv p q b hb hw.inv hq
    cases hs : (execStep p b).1.err with
    | some e =>
      rw [U_err p b hb hw e hs, U_err q b hb hwq e (by rw [k3, hs])]
      exact ⟨k3, (eqv_evs k5).1, (eqv_evs k5).2, fun hc => by rw [hs] at hc; cases hc⟩
    | none =>
      have hsq : (execStep q b).1.err = none := by rw [k3, hs]
      have hfl : flag (execStep q b).1 = flag (execStep p b).1 := flag_eqv k4 k5
      cases hf : flag (execStep p b).1 with
      | true =>
        rw [U_flag p b hb hw hs hf, U_flag q b hb hwq hsq (by rw [hfl, hf])]
        exact ⟨k3, (eqv_evs k5).1, (eqv_evs k5).2, fun _ => ⟨k2, rfl, k5⟩⟩
      | false =>
        rw [U_cont p b hb hw hs hf, U_cont q b hb hwq hsq (by rw [hfl, hf]), k2]
        exact ih hs hf _ k5

end SF.Json.DecP
