/-
  C03 no-hang (UBJSON): stepLen.
-/
import SF.Proofs.UbjProgValue
namespace SF.Ubjson.Parse
open SF SF.Ubjson
open StateType StateStep

/-! ### stepLen -/

/-- the continuation state of a stepLen call is of the same kind as the current one -/
def ContOK (p : P) (cont : St) : Prop :=
  validSt cont = true ∧ (cont.type == stNext) = (p.state.current.type == stNext) ∧
    pastHdr cont = pastHdr p.state.current

theorem lenFin_step (p0 : P) (b0 : Bytes) (cont : St) (p : P) (b : Bytes) (L : Int) (hg : G p)
    (hc : ContOK p cont) (hpot : pot p b + 1 ≤ pot p0 b0) (hev : p0.evs.length ≤ p.evs.length) :
    Step p0 b0 (lenFin cont p b L) := by
  unfold lenFin
  split
  · exact Step.error .negativeLen rfl (by decide)
  · refine Step.good (((hg.setMarker noMarker (Or.inl rfl)).setCurrent cont hc.1 hc.2.1 hc.2.2).pushLen L) ?_
    exact .consume (by simpa [pot, pushLen, setCurrent] using hpot) (by simpa [pushLen, setCurrent] using hev)

theorem collectP_pot (p : P) (b : Bytes) (n : Nat) :
    pot (collectP p b n).1 (collectP p b n).2.1 ≤ pot p b ∧
    ((collectP p b n).2.2 = none → b ≠ [] → pot (collectP p b n).1 (collectP p b n).2.1 + 1 ≤ pot p b) ∧
    ((collectP p b n).2.2 ≠ none → 1 ≤ n → pot (collectP p b n).1 (collectP p b n).2.1 + 1 ≤ pot p b) := by
  have := collect_pot p.buffer b n
  simpa [pot, collectP] using this

theorem lenColl_step (p0 : P) (b0 : Bytes) (cont : St) (p : P) (b : Bytes) (n : Nat) (rd : Bytes → Int)
    (hg : G p) (hc : ContOK p cont) (hb : b ≠ []) (hn : 1 ≤ n)
    (hpot : pot p b ≤ pot p0 b0) (hev : p0.evs.length ≤ p.evs.length) :
    Step p0 b0 (match collectP p b n with
      | (p, rest, none) => ({ p := p, rest := rest } : R)
      | (p, rest, some tmp) => lenFin cont p rest (rd tmp)) := by
  have h1 := hg.collectP b n
  have h2 := collectP_pot p b n
  rcases h : collectP p b n with ⟨q, rest, tmp⟩
  rw [h] at h1 h2
  have hq : q = (collectP p b n).1 := by rw [h]
  have hqe : q.evs = p.evs := by rw [hq]; rfl
  have hqs : q.state = p.state := by rw [hq]; rfl
  simp only at h1 h2
  cases tmp with
  | none =>
    exact Step.good h1 (.consume (by have := h2.2.1 rfl hb; simp only []; omega) (by simp only [hqe]; exact hev))
  | some t =>
    simp only []
    refine lenFin_step p0 b0 cont q rest _ h1 ?_ (by have := h2.2.2 (by simp) hn; omega) (by rw [hqe]; exact hev)
    simpa [ContOK, hqs] using hc

theorem lenValue_step (p0 : P) (b0 : Bytes) (cont : St) (p : P) (b : Bytes) (hg : G p)
    (hm : isIntMarker p.marker = true) (hc : ContOK p cont) (hb : b ≠ [])
    (hpot : pot p b ≤ pot p0 b0) (hev : p0.evs.length ≤ p.evs.length) :
    Step p0 b0 (lenValue cont p b) := by
  unfold lenValue
  simp only []
  cases b with
  | nil => exact absurd rfl hb
  | cons x bs =>
    have hp1 : pot p bs + 1 ≤ pot p0 b0 := by simp only [pot, List.length_cons] at hpot ⊢; omega
    split
    · exact lenFin_step p0 b0 cont p bs _ hg hc hp1 hev
    split
    · exact lenFin_step p0 b0 cont p bs _ hg hc hp1 hev
    split
    · exact lenColl_step p0 b0 cont p _ 2 _ hg hc (by simp) (by omega) hpot hev
    split
    · exact lenColl_step p0 b0 cont p _ 4 _ hg hc (by simp) (by omega) hpot hev
    split
    · exact lenColl_step p0 b0 cont p _ 8 _ hg hc (by simp) (by omega) hpot hev
    · rename_i h1 h2 h3 h4 h5
      simp only [isIntMarker, Bool.or_eq_true] at hm
      simp_all

theorem stepLen_step (p : P) (b : Bytes) (cont : St) (hg : G p) (hc : ContOK p cont) (hb : b ≠ []) :
    Step p b (stepLen p b cont) := by
  rw [stepLen_eq]
  split
  · cases b with
    | nil => exact absurd rfl hb
    | cons x bs =>
      simp only []
      split
      · rename_i hx
        have hx' : isIntMarker x = true := by simpa [isIntMarker] using hx
        have hg' : G { p with marker := x } := hg.setMarker x (Or.inr hx')
        split
        · exact Step.good hg' (.mk_consume (by simp; omega) (by simp))
        · rename_i hne
          exact lenValue_step p (x :: bs) cont { p with marker := x } bs hg' hx' hc
            (by intro h; simp [h] at hne) (by simp [pot]; omega) (by simp)
      · exact Step.error .unknownMarker rfl (by decide)
  · rename_i hm
    have hm' : isIntMarker p.marker = true := by
      rcases hg.mrk with h | h
      · simp [h] at hm
      · exact h
    exact lenValue_step p b cont p b hg hm' hc hb (Nat.le_refl _) (Nat.le_refl _)

/-- where stepLen leaves the current state: the continuation or the state it found -/
theorem stepLen_cur' (p : P) (b : Bytes) (cont : St) :
    (stepLen p b cont).p.state.current = cont ∨ (stepLen p b cont).p.state.current = p.state.current :=
  stepLen_cur p b cont

end SF.Ubjson.Parse
