/-
  C02 for the CBOR ("cborl") parser mirror: PARSER OUTPUT IS INDEPENDENT OF HOW THE INPUT
  BYTES ARE CHUNKED.  Final property theorems; helper lemmas in
  SF/Proofs/CborChunkInv.lean (invariant `Inv`, big-step relation `Runs`),
  SF/Proofs/CborChunkStep.lean, SF/Proofs/CborChunkRun.lean (fuel adequacy),
  SF/Proofs/CborChunkSplit.lean (split law), SF/Proofs/CborChunkNoFuel.lean (by-product: no hang).
-/
import SF.Proofs.CborChunkSplit
import SF.Proofs.CborChunkNoFuel
import SF.Props.C03
set_option linter.unusedSimpArgs false
set_option linter.unusedVariables false
namespace SF.Cbor.Chunk
open SF SF.Cbor SF.Cbor.Parse
open SF.Props.C03 (startPending)

theorem feedAll_errf (p : P) (b : Bytes) (he : p.err = none) : (feedAll p b).1.err = none := by
  have := (SF.Props.C03.feed_no_panic (2 * b.length + 2) p b (by rw [he]; simp)).2
  rw [he] at this
  exact this

theorem err_none_eta (p : P) (h : p.err = none) : { p with err := none } = p := by
  cases p; simp_all

/-- SPLIT LAW at the level of `feedAll` (the body of `Write` and of `Parse`): feeding `a ++ b`
is feeding `a` and then `b` to the resulting parser — same verdict (same error value), same
events, and without error the very same parser state.  From every invariant state, with any
(failing or not) visitor. -/
theorem feedAll_split (p : P) (a b : Bytes) (hI : Inv p) (ha : a ≠ []) :
    match feedAll p a with
    | (p1, some e) => (feedAll p (a ++ b)).2 = some e ∧ (feedAll p (a ++ b)).1.evs = p1.evs
    | (p1, none) =>
        Inv p1 ∧ startPending p1 = false ∧
        (feedAll p (a ++ b)).2 = (feedAll p1 b).2 ∧
        (feedAll p (a ++ b)).1.evs = (feedAll p1 b).1.evs ∧
        ((feedAll p1 b).2 = none → (feedAll p (a ++ b)).1 = (feedAll p1 b).1) := by
  have hr := feedAll_runs p a hI (Or.inl ha)
  have hab : a ++ b ≠ [] := by intro hc; exact ha (List.append_eq_nil_iff.mp hc).1
  have hw := feedAll_runs p (a ++ b) hI (Or.inl hab)
  obtain ⟨s1, s2⟩ := runs_split hr b hI
  rcases hfa : feedAll p a with ⟨p1, _ | e⟩
  · rw [hfa] at hr s1 s2
    simp only []
    obtain ⟨hI1, hnp1⟩ := hr.inv hI rfl
    have h2 := feedAll_runs p1 b hI1 (Or.inr hnp1)
    obtain ⟨p2', k1, k2, k3⟩ := s2 rfl _ _ h2
    obtain ⟨d1, d2⟩ := Runs.det hw k1
    refine ⟨hI1, hnp1, d2, by rw [d1]; exact k2, fun h => by rw [d1]; exact k3 h⟩
  · rw [hfa] at hr s1
    simp only []
    obtain ⟨p1', k1, k2⟩ := s1 e rfl
    obtain ⟨d1, d2⟩ := Runs.det hw k1
    exact ⟨d2, by rw [d1]; exact k2⟩

/-- non-vacuity of the split law: a cut inside the 2-byte argument of an integer inside an array -/
example : (feedAll {} [0x82, 0x19]).2 = none ∧
    feedAll {} ([0x82, 0x19] ++ [0x01, 0x02, 0x03]) = feedAll (feedAll {} [0x82, 0x19]).1 [0x01, 0x02, 0x03] ∧
    (feedAll {} ([0x82, 0x19] ++ [0x01, 0x02, 0x03])).1.evs = [.arrEnd, .num .u8 3, .num .u16 258, .arrStart 2 BT.any] := by
  decide +kernel

/-- C02 for the CBOR parser, general form: from EVERY parser state satisfying the invariant
`Inv` of reachable states (any depth of open containers, any partially received token in the
buffer) with no stored error, and with ANY visitor fault index `failAt`: writing the chunks
`cs` one by one and then signalling end of input reports the same events and returns the same
verdict (the same error value) as parsing their concatenation at once; when the verdict is
"no error" the two final parser states are identical. -/
theorem chunk_independent_inv (cs : List Bytes) (p : P) (hI : Inv p) (he : p.err = none) :
    (writeChunks p cs).1.evs = (parse p cs.flatten).1.evs ∧
    (writeChunks p cs).2 = (parse p cs.flatten).2 ∧
    ((writeChunks p cs).2 = none → (writeChunks p cs).1 = (parse p cs.flatten).1) := by
  induction cs generalizing p with
  | nil => simp [writeChunks, parse, feedAll_nil]
  | cons c cs ih =>
    by_cases hc : c = []
    · subst hc
      have hw : writeChunks p ([] :: cs) = writeChunks p cs := by
        simp only [writeChunks, write, feedAll_nil, err_none_eta p he]
      rw [hw, List.flatten_cons, List.nil_append]
      exact ih p hI he
    · have hs := feedAll_split p c cs.flatten hI hc
      have hef := feedAll_errf p c he
      rw [List.flatten_cons]
      rcases hfa : feedAll p c with ⟨p1, _ | e⟩
      · rw [hfa] at hs hef
        simp only [] at hs hef
        obtain ⟨hI1, _, k1, k2, k3⟩ := hs
        have hw : writeChunks p (c :: cs) = writeChunks p1 cs := by
          simp only [writeChunks, write, hfa, err_none_eta p1 hef]
        obtain ⟨i1, i2, i3⟩ := ih p1 hI1 hef
        rw [hw]
        -- parse p (c ++ rest) against parse p1 rest
        have hp : (parse p (c ++ cs.flatten)).1.evs = (parse p1 cs.flatten).1.evs ∧
            (parse p (c ++ cs.flatten)).2 = (parse p1 cs.flatten).2 ∧
            ((parse p1 cs.flatten).2 = none → (parse p (c ++ cs.flatten)).1 = (parse p1 cs.flatten).1) := by
          rcases hf1 : feedAll p1 cs.flatten with ⟨p2, _ | e2⟩
          · rw [hf1] at k1 k2 k3
            simp only [] at k1 k2 k3
            have h3 := k3 trivial
            rcases hf2 : feedAll p (c ++ cs.flatten) with ⟨p2', e2'⟩
            rw [hf2] at k1 h3
            simp only [] at k1 h3
            subst k1 h3
            simp [parse, hf1, hf2]
          · rw [hf1] at k1 k2
            simp only [] at k1 k2
            rcases hf2 : feedAll p (c ++ cs.flatten) with ⟨p2', e2'⟩
            rw [hf2] at k1 k2
            simp only [] at k1 k2
            subst k1
            simp [parse, hf1, hf2, k2]
        obtain ⟨j1, j2, j3⟩ := hp
        refine ⟨by rw [i1, j1], by rw [i2, j2], fun h => ?_⟩
        rw [i3 h, j3 (by rw [← i2]; exact h)]
      · rw [hfa] at hs
        simp only [] at hs
        obtain ⟨k1, k2⟩ := hs
        have hw : writeChunks p (c :: cs) = ({ p1 with err := some e }, some e) := by
          simp only [writeChunks, write, hfa]
        rw [hw]
        rcases hf2 : feedAll p (c ++ cs.flatten) with ⟨p2', e2'⟩
        rw [hf2] at k1 k2
        simp only [] at k1 k2
        subst k1
        simp [parse, hf2, k2]


/-! ## the property theorems -/

/-- C02 (CBOR parser): for ALL byte strings (valid or invalid documents) and ALL ways of
cutting them into consecutive chunks (empty chunks and single bytes included), the events
reported and the final verdict — including the error value — of `Write`-per-chunk followed by
end of input are those of parsing the concatenated input at once. -/
theorem cbor_chunk_independent (cs : List Bytes) :
    (writeChunks {} cs).1.evs = (parse {} cs.flatten).1.evs ∧
    (writeChunks {} cs).2 = (parse {} cs.flatten).2 :=
  let h := chunk_independent_inv cs {} (inv_init none []) rfl
  ⟨h.1, h.2.1⟩

/-- non-vacuity / sanity: a nested document cut inside the array head, inside a 2-byte
integer argument, with an empty chunk, and inside a text string -/
example :
    writeChunks {} [[0x82, 0x19], [0x01], [], [0x02, 0x62, 0x41], [0x42]] =
      parse {} [0x82, 0x19, 0x01, 0x02, 0x62, 0x41, 0x42] ∧
    (parse {} [0x82, 0x19, 0x01, 0x02, 0x62, 0x41, 0x42]).2 = none ∧
    (parse {} [0x82, 0x19, 0x01, 0x02, 0x62, 0x41, 0x42]).1.evs =
      [.arrEnd, .str [0x41, 0x42], .num .u16 258, .arrStart 2 BT.any] := by
  decide +kernel

/-- … and invalid / truncated input: same error value either way -/
example :
    (writeChunks {} [[0x82], [0x01, 0xc0]]).2 = some .tagUnsupported ∧
    (parse {} [0x82, 0x01, 0xc0]).2 = some .tagUnsupported ∧
    (writeChunks {} [[0x82], [0x01]]).2 = some .incomplete ∧
    (parse {} [0x82, 0x01]).2 = some .incomplete := by
  decide +kernel

/-- the same with a FAILING VISITOR (fault injected at event index `k`, C16): the events
delivered up to and including the refused one and the error returned do not depend on the
chunking either -/
theorem cbor_chunk_independent_failAt (k : Option Nat) (cs : List Bytes) :
    (writeChunks { failAt := k } cs).1.evs = (parse { failAt := k } cs.flatten).1.evs ∧
    (writeChunks { failAt := k } cs).2 = (parse { failAt := k } cs.flatten).2 :=
  let h := chunk_independent_inv cs { failAt := k } (inv_init k []) rfl
  ⟨h.1, h.2.1⟩

example :
    (writeChunks { failAt := some 2 } [[0x43, 0x01], [0x02, 0x03]]).2 = some .visitor ∧
    (writeChunks { failAt := some 2 } [[0x43, 0x01], [0x02, 0x03]]).1.evs =
      (parse { failAt := some 2 } [0x43, 0x01, 0x02, 0x03]).1.evs ∧
    (parse { failAt := some 2 } [0x43, 0x01, 0x02, 0x03]).1.evs.length = 3 := by
  decide +kernel

/-- any two chunkings of the same bytes agree -/
theorem cbor_chunkings_agree (k : Option Nat) (cs₁ cs₂ : List Bytes) (h : cs₁.flatten = cs₂.flatten) :
    (writeChunks { failAt := k } cs₁).1.evs = (writeChunks { failAt := k } cs₂).1.evs ∧
    (writeChunks { failAt := k } cs₁).2 = (writeChunks { failAt := k } cs₂).2 := by
  have h1 := cbor_chunk_independent_failAt k cs₁
  have h2 := cbor_chunk_independent_failAt k cs₂
  rw [h] at h1
  exact ⟨h1.1.trans h2.1.symm, h1.2.trans h2.2.symm⟩

/-! ## from any reachable parser state -/

/-- a successful `Write` from an invariant state leads to an invariant state -/
theorem inv_write (p : P) (c : Bytes) (hI : Inv p) (he : p.err = none) (hw : (write p c).2 = none) :
    Inv (write p c).1 ∧ (write p c).1.err = none := by
  by_cases hc : c = []
  · subst hc
    simp only [write, feedAll_nil, err_none_eta p he]
    exact ⟨hI, he⟩
  · have hr := feedAll_runs p c hI (Or.inl hc)
    rcases hfa : feedAll p c with ⟨p1, _ | e⟩
    · rw [hfa] at hr
      have hI1 : Inv p1 := (hr.inv hI rfl).1
      have he1 : p1.err = none := by have := feedAll_errf p c he; rw [hfa] at this; exact this
      simp only [write, hfa, err_none_eta p1 he1]
      exact ⟨hI1, he1⟩
    · simp [write, hfa] at hw

/-- the parser states reachable from a fresh parser (any visitor fault index) by successful
`Write` calls with arbitrary arguments -/
inductive Reach : P → Prop
  | init (k : Option Nat) : Reach { failAt := k }
  | write {p : P} (c : Bytes) : Reach p → (Parse.write p c).2 = none → Reach (Parse.write p c).1

theorem Reach.inv {p : P} (h : Reach p) : Inv p ∧ p.err = none := by
  induction h with
  | init k => exact ⟨inv_init k [], rfl⟩
  | write c _ hw ih => exact inv_write _ c ih.1 ih.2 hw

/-- C02 from EVERY REACHABLE STATE (mid-document, inside any nesting of containers, with a
partially received token parked in the buffer): the rest of the stream may be chunked in any
way.  When no error is reported the final parser states coincide as well. -/
theorem cbor_chunk_independent_reach (p : P) (h : Reach p) (cs : List Bytes) :
    (writeChunks p cs).1.evs = (parse p cs.flatten).1.evs ∧
    (writeChunks p cs).2 = (parse p cs.flatten).2 ∧
    ((writeChunks p cs).2 = none → (writeChunks p cs).1 = (parse p cs.flatten).1) :=
  chunk_independent_inv cs p h.inv.1 h.inv.2

/-- non-vacuity of the hypotheses of `chunk_independent_inv`: a mid-document state satisfying
`Inv` with no stored error -/
example : Inv (Parse.write {} [0x82, 0x19, 0x01]).1 ∧ (Parse.write {} [0x82, 0x19, 0x01]).1.err = none :=
  (Reach.write [0x82, 0x19, 0x01] (Reach.init none) (by decide +kernel)).inv

/-- non-vacuity: a reachable mid-document state (inside an array, one of the two bytes of an
integer argument parked) -/
example : (Parse.write {} [0x82, 0x19, 0x01]).2 = none ∧
    (Parse.write {} [0x82, 0x19, 0x01]).1.buffer = [0x01] ∧
    (Parse.write {} [0x82, 0x19, 0x01]).1.state.stack.length = 2 ∧
    writeChunks (Parse.write {} [0x82, 0x19, 0x01]).1 [[0x02], [], [0x03]] =
      parse (Parse.write {} [0x82, 0x19, 0x01]).1 [0x02, 0x03] ∧
    (parse (Parse.write {} [0x82, 0x19, 0x01]).1 [0x02, 0x03]).2 = none := by
  decide +kernel

/-
  WHY AN INVARIANT IS NEEDED: from an ARBITRARY record `p : P` (a state stack that no run of the
  parser can produce) the statement is FALSE, because the fuel of `feed` (2·len+2 rounds) then
  runs out at different points.  Counterexample (evaluated with `#eval`):

    def bad : P := { state := { stack := List.replicate 100 ⟨stStartArr, stStart⟩,
                                current := ⟨stStartArr, stStart⟩ } }
    (writeChunks bad [[1],[1]]).1.evs.length = 8     (parse bad [1,1]).1.evs.length = 12
    both verdicts: some outOfFuel

  `Inv` (SF/Proofs/CborChunkInv.lean) is the invariant of the reachable states; `Reach.inv`
  shows that every state reachable from a fresh parser satisfies it.
-/


/-! ## by-product (C03, "no hang"): the fuel never runs out

The proof above needs fuel ADEQUACY (the fuelled loops `feedUntil` / `feed` compute the
fuel-free relation `Runs`, SF/Proofs/CborChunkRun.lean: `feedUntil_runs`, `feed_runs`,
`feedAll_runs`; measure `mu p b = 2·|b| + [start pending]`, strictly decreased by every
successful step, `execStep_ok`).  Together with "one step never returns `outOfFuel`" it
yields the termination clause of C03 for every byte string and every chunking. -/

/-- `Parse` on ANY byte string never reports `outOfFuel` (= the Go loop terminates) -/
theorem parse_no_outOfFuel (k : Option Nat) (b : Bytes) :
    (parse { failAt := k } b).2 ≠ some .outOfFuel := by
  have h := feedAll_no_outOfFuel { failAt := k } b (inv_init k []) (by simp)
  unfold parse
  rcases hfa : feedAll { failAt := k } b with ⟨q, _ | e⟩
  · simp only [finalize]; split <;> simp
  · rw [hfa] at h; simpa using h

/-- … and neither does any sequence of `Write` calls followed by end of input, from any
invariant (in particular: any reachable) state -/
theorem writeChunks_no_outOfFuel (cs : List Bytes) (p : P) (hI : Inv p) (he : p.err = none) :
    (writeChunks p cs).2 ≠ some .outOfFuel := by
  induction cs generalizing p with
  | nil => simp only [writeChunks, finalize]; split <;> simp
  | cons c cs ih =>
    have h := feedAll_no_outOfFuel p c hI (by rw [he]; simp)
    have hw := inv_write p c hI he
    simp only [writeChunks]
    rcases hwr : write p c with ⟨q, _ | e⟩
    · rw [hwr] at hw
      exact ih q (hw rfl).1 (hw rfl).2
    · simp only [write] at hwr
      rcases hfa : feedAll p c with ⟨q', e'⟩
      rw [hfa] at hwr h
      simp only [Prod.mk.injEq] at hwr
      simp only [] at h
      rw [hwr.2] at h
      simpa using h

example : (parse {} [0x9f, 0x9f, 0x80, 0xa0, 0x40, 0x60]).2 = some .incomplete := by decide +kernel

end SF.Cbor.Chunk
