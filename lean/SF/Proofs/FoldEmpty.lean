/-
  `omitempty` and `inline` on good types: the specification's `isEmptyF` / `inlineF` through
  pointers, and the mirror's resolver chain (`makeResolveNonEmptyValue`, `applyResolvers`).
-/
import SF.Proofs.FoldWalk
namespace SF.FoldProofs
open SF SF.Gotype SF.Gotype.Fold SF.Gotype.Rules

/-- emptiness of a value of a non-pointer, non-interface type: length 0 for the sized kinds -/
def sizedEmpty (bt : GoType) (x : GoVal) : Bool :=
  match bt.under with
  | .string | .slice _ | .array _ _ | .map _ _ => lenOf x == some 0
  | _ => false

theorem isEmptyF_base (f : Nat) {sn : List String} {T : GoType} (hp : goodT sn T = true)
    (hni : isIfaceT T = false) (hnp : ∀ e, T.under ≠ .ptr e) (v : GoVal) :
    isEmptyF (f + 1) T v = sizedEmpty T v := by
  unfold isEmptyF sizedEmpty
  rw [hasIsZero_good hp]
  have hgu := (good_under hp).2
  unfold isIfaceT at hni
  generalize T.under = U at hni hnp hgu
  cases U <;> first
    | (simp [unnamedHead] at hgu; done)
    | (simp at hni; done)
    | (exact absurd rfl (hnp _))
    | (cases v <;> simp)

theorem isEmptyF_ptr_nil (f : Nat) {T e : GoType} (hu : T.under = .ptr e) :
    isEmptyF (f + 1) T .nilPtr = true := by
  unfold isEmptyF
  rw [hu]

theorem isEmptyF_ptr (f : Nat) {T e : GoType} (hu : T.under = .ptr e) (x : GoVal) :
    isEmptyF (f + 1) T (.ptr x) = isEmptyF f e x := by
  conv => lhs; unfold isEmptyF
  rw [hu]

theorem isEmptyF_deref : ∀ (sn : List String) (T : GoType), goodT sn T = true → ∀ v f, wt T v = true →
    (stripPtr T).1 < f → isIfaceT (stripPtr T).2 = false →
    isEmptyF f T v =
      match deref (stripPtr T).1 v with
      | none => true
      | some x => sizedEmpty (stripPtr T).2 x := by
  refine strip_induction _ ?_ ?_
  · intro sn T hg hnp hs v f _ hf hni
    rw [hs] at hni ⊢
    obtain ⟨f', rfl⟩ : ∃ f', f = f' + 1 := ⟨f - 1, by omega⟩
    simp only [deref]
    exact isEmptyF_base f' hg hni hnp v
  · intro sn T e hg hu _ hs ih v f hw hf hni
    rw [hs] at hf hni ⊢
    obtain ⟨f', rfl⟩ : ∃ f', f = f' + 1 := ⟨f - 1, by omega⟩
    rcases wt_ptr_inv hu hw with rfl | ⟨y, rfl, hy⟩
    · rw [isEmptyF_ptr_nil f' hu]; rfl
    · rw [isEmptyF_ptr f' hu]
      simp only [deref]
      exact ih y f' hy (by simp only [] at hf; omega) hni

/-! ## the resolver chain -/

def isSized (bt : GoType) : Bool :=
  match bt.under with
  | .string | .slice _ | .array _ _ | .map _ _ => true
  | _ => false

theorem lenOf_eq_len (v : GoVal) : lenOf v = len? v := by cases v <;> rfl

theorem isPtrKind_good {sn : List String} {t : GoType} (hp : goodT sn t = true) :
    isPtrKind t = decide (1 ≤ (stripPtr t).1) := by
  unfold isPtrKind
  by_cases h : ∃ e, t.under = .ptr e
  · obtain ⟨e, he⟩ := h
    rw [he, stripPtr_of_under_ptr he (headKind hp)]
    simp
  · have hnp : ∀ e, t.under ≠ .ptr e := fun e he => h ⟨e, he⟩
    rw [stripPtr_of_under_nonptr hp hnp]
    cases hu : t.under <;> first | (simp; done) | (exact absurd hu (hnp _))

theorem mrnev_good {sn : List String} {t : GoType} (hp : goodT sn t = true) (hd : tdepth t ≤ 1000)
    (hni : isIfaceT (stripPtr t).2 = false) :
    makeResolveNonEmptyValue t =
      (if 1 ≤ (stripPtr t).1 then [Resolver.pointers (stripPtr t).1] else []) ++
      (if isSized (stripPtr t).2 then [Resolver.bySize] else []) := by
  unfold makeResolveNonEmptyValue
  rw [baseType_good hp hd]
  obtain ⟨sn', _, hpb⟩ := good_stripPtr t sn hp
  simp only [isPtrKind_good hp, decide_eq_true_eq, implementsIsZeroer_good hpb,
    implementsPtrIsZeroer_good hpb, Bool.false_eq_true, if_false]
  congr 1
  unfold isIfaceT at hni
  unfold isSized
  generalize (stripPtr t).2.under = U at hni
  cases U <;> first | rfl | (simp at hni)

theorem applyResolvers_nil (f : Nat) (rv : RV) : applyResolvers (f + 1) [] rv = .keep rv := by
  rw [applyResolvers]

theorem applyResolvers_pointers (f : Nat) (n : Nat) (rs : List Resolver) (rv : RV) :
    applyResolvers (f + 1) (.pointers n :: rs) rv =
      match ptrWalk n rv with
      | .nil => .drop
      | .val rv' => applyResolvers f rs rv'
      | .bad => .panic := by
  rw [applyResolvers]
  cases ptrWalk n rv <;> rfl

theorem applyResolvers_bySize (f : Nat) (rs : List Resolver) (rv : RV) :
    applyResolvers (f + 1) (.bySize :: rs) rv =
      match len? rv.v with
      | some l => if l > 0 then applyResolvers f rs rv else .drop
      | none => .panic := by
  rw [applyResolvers]
  cases len? rv.v with
  | none => rfl
  | some l =>
    simp only []
    by_cases hl : l > 0
    · simp only [hl, if_true]
    · simp only [hl, if_false]

/-- a typed value of a sized kind has a length -/
theorem len_of_sized {bt : GoType} {x : GoVal} (hs : isSized bt = true) (hw : wt bt x = true) :
    ∃ l, len? x = some l := by
  unfold isSized at hs
  unfold wt at hw
  generalize bt.under = U at hs hw
  cases U <;> simp at hs <;> cases x <;> simp_all [len?]

theorem sizedEmpty_unsized {bt : GoType} (hs : isSized bt = false) (x : GoVal) : sizedEmpty bt x = false := by
  unfold isSized at hs
  unfold sizedEmpty
  generalize bt.under = U at hs
  cases U <;> simp_all

theorem sizedEmpty_sized {bt : GoType} (hs : isSized bt = true) (x : GoVal) :
    sizedEmpty bt x = (len? x == some 0) := by
  unfold isSized at hs
  unfold sizedEmpty
  generalize bt.under = U at hs
  cases U <;> simp_all [lenOf_eq_len]

/-- the resolver chain of an `omitempty` field whose base type is no interface -/
theorem resolve_good {sn : List String} {t : GoType} {x : GoVal} (hp : goodT sn t = true)
    (hw : wt t x = true) (hd : tdepth t ≤ 1000) (hni : isIfaceT (stripPtr t).2 = false) :
    applyResolvers 1000 (makeResolveNonEmptyValue t) ⟨t, x⟩ =
      match deref (stripPtr t).1 x with
      | none => .drop
      | some x' => if sizedEmpty (stripPtr t).2 x' then .drop else .keep ⟨(stripPtr t).2, x'⟩ := by
  rw [mrnev_good hp hd hni]
  have hw' := ptrWalk_good sn t hp x hw
  have h1000 : (1000 : Nat) = 997 + 1 + 1 + 1 := rfl
  rw [h1000]
  -- after the pointers
  have tail : ∀ (f : Nat) (x' : GoVal), wt (stripPtr t).2 x' = true →
      applyResolvers (f + 1 + 1) (if isSized (stripPtr t).2 then [Resolver.bySize] else []) ⟨(stripPtr t).2, x'⟩ =
        if sizedEmpty (stripPtr t).2 x' then .drop else .keep ⟨(stripPtr t).2, x'⟩ := by
    intro f x' hx'
    by_cases hs : isSized (stripPtr t).2 = true
    · obtain ⟨l, hl⟩ := len_of_sized hs hx'
      simp only [hs, if_true, applyResolvers_bySize, hl, sizedEmpty_sized hs, applyResolvers_nil]
      cases l with
      | zero => simp
      | succ l => simp
    · have hs' : isSized (stripPtr t).2 = false := by simpa using hs
      simp only [hs', Bool.false_eq_true, if_false, applyResolvers_nil, sizedEmpty_unsized hs']
  by_cases hn : 1 ≤ (stripPtr t).1
  · simp only [hn, if_true, List.singleton_append, applyResolvers_pointers, hw']
    cases hdr : deref (stripPtr t).1 x with
    | none => rfl
    | some x' =>
      simp only []
      exact tail 997 x' (deref_wt sn t hp x x' hw hdr).1
  · have hn0 : (stripPtr t).1 = 0 := by omega
    have hb : (stripPtr t).2 = t := by
      by_cases hpp : ∃ e, t.under = .ptr e
      · obtain ⟨e, he⟩ := hpp
        rw [stripPtr_of_under_ptr he (headKind hp)] at hn0
        simp at hn0
      · rw [stripPtr_of_under_nonptr hp (fun e he => hpp ⟨e, he⟩)]
    have := tail 998 x (by rw [hb]; exact hw)
    rw [hn0]
    simp only [deref]
    rw [hb] at this ⊢
    exact this

/-! ## the lazy resolver of interface values -/

theorem applyResolvers_lazy (f : Nat) (rs : List Resolver) (rv : RV) :
    applyResolvers (f + 1) (.interfaceLazy :: rs) rv =
      match rv.v with
      | .nilIface => .drop
      | .iface dt dv =>
        if (makeResolveNonEmptyValue dt).isEmpty then applyResolvers f rs rv
        else
          match applyResolvers f (makeResolveNonEmptyValue dt) ⟨dt, dv⟩ with
          | .keep rv' => applyResolvers f rs rv'
          | r => r
      | _ => .panic := by
  rw [applyResolvers]
  cases rv.v <;> try rfl
  rename_i t x
  simp only []
  by_cases h : (makeResolveNonEmptyValue t).isEmpty = true
  · simp only [h, if_true]
  · simp only [h, Bool.false_eq_true, if_false]
    cases applyResolvers f (makeResolveNonEmptyValue t) ⟨t, x⟩ <;> rfl

/-- the resolver chain of any good type -/
theorem mrnev_gen {sn : List String} {t : GoType} (hp : goodT sn t = true) (hd : tdepth t ≤ 1000) :
    makeResolveNonEmptyValue t =
      (if 1 ≤ (stripPtr t).1 then [Resolver.pointers (stripPtr t).1] else []) ++
      (if isIfaceT (stripPtr t).2 then [Resolver.interfaceLazy]
       else if isSized (stripPtr t).2 then [Resolver.bySize] else []) := by
  by_cases hni : isIfaceT (stripPtr t).2 = true
  · unfold makeResolveNonEmptyValue
    rw [baseType_good hp hd]
    obtain ⟨sn', _, hpb⟩ := good_stripPtr t sn hp
    simp only [isPtrKind_good hp, decide_eq_true_eq, hni, if_true]
    congr 1
    unfold isIfaceT at hni
    generalize (stripPtr t).2.under = U at hni
    cases U <;> first | rfl | (simp at hni)
  · have hni' : isIfaceT (stripPtr t).2 = false := by simpa using hni
    rw [mrnev_good hp hd hni']
    simp only [hni', Bool.false_eq_true, if_false]

/-- emptiness through pointers, whatever the base type -/
theorem isEmptyF_deref_gen : ∀ (sn : List String) (T : GoType), goodT sn T = true → ∀ v f, wt T v = true →
    isEmptyF (f + (stripPtr T).1) T v =
      match deref (stripPtr T).1 v with
      | none => true
      | some x => isEmptyF f (stripPtr T).2 x := by
  refine strip_induction _ ?_ ?_
  · intro sn T _ _ hs v f _
    rw [hs]
    rfl
  · intro sn T e hg hu _ hs ih v f hw
    rw [hs]
    have : f + ((stripPtr e).1 + 1) = (f + (stripPtr e).1) + 1 := by omega
    simp only [this]
    rcases wt_ptr_inv hu hw with rfl | ⟨y, rfl, hy⟩
    · rw [isEmptyF_ptr_nil _ hu]; rfl
    · rw [isEmptyF_ptr _ hu]
      simp only [deref]
      exact ih y f hy

theorem isEmptyF_iface_nil (f : Nat) {T : GoType} (hu : T.under = .iface) :
    isEmptyF (f + 1) T .nilIface = true := by
  unfold isEmptyF
  rw [hu]

theorem isEmptyF_iface (f : Nat) {T : GoType} (hu : T.under = .iface) (dt : GoType) (dv : GoVal) :
    isEmptyF (f + 1) T (.iface dt dv) = isEmptyF f dt dv := by
  conv => lhs; unfold isEmptyF
  rw [hu]

/-- the non-empty value the resolver chain of `t` arrives at, from `x` -/
inductive Lazy : GoType → GoVal → RV → Prop
  | base {t : GoType} {x x' : GoVal} : deref (stripPtr t).1 x = some x' → isIfaceT (stripPtr t).2 = false →
      sizedEmpty (stripPtr t).2 x' = false → Lazy t x ⟨(stripPtr t).2, x'⟩
  | keep {t : GoType} {x : GoVal} {dt : GoType} {dv : GoVal} :
      deref (stripPtr t).1 x = some (.iface dt dv) → isIfaceT (stripPtr t).2 = true →
      (makeResolveNonEmptyValue dt).isEmpty = true → Lazy t x ⟨(stripPtr t).2, .iface dt dv⟩
  | step {t : GoType} {x : GoVal} {dt : GoType} {dv : GoVal} {rv : RV} :
      deref (stripPtr t).1 x = some (.iface dt dv) → isIfaceT (stripPtr t).2 = true →
      (makeResolveNonEmptyValue dt).isEmpty = false → Lazy dt dv rv → Lazy t x rv

theorem isEmptyF_deref_none : ∀ (sn : List String) (T : GoType), goodT sn T = true → ∀ v fe, wt T v = true →
    deref (stripPtr T).1 v = none → vdepth v + 2 ≤ fe → isEmptyF fe T v = true := by
  refine strip_induction _ ?_ ?_
  · intro sn T _ _ hs v fe _ hn _
    rw [hs] at hn
    simp [deref] at hn
  · intro sn T e _ hu _ hs ih v fe hw hn hfe
    rw [hs] at hn
    obtain ⟨fe', rfl⟩ : ∃ fe', fe = fe' + 1 := ⟨fe - 1, by omega⟩
    rcases wt_ptr_inv hu hw with rfl | ⟨y, rfl, hy⟩
    · exact isEmptyF_ptr_nil fe' hu
    · rw [isEmptyF_ptr fe' hu]
      simp only [deref] at hn
      rw [vdepth_ptr] at hfe
      exact ih y fe' hy hn (by omega)

/-- the resolver chain of an `omitempty` field of any good type: it drops exactly the values the
rules call empty, and keeps a value reached through pointers and interfaces otherwise -/
theorem lazy_resolve : ∀ (N : Nat) (sn : List String) (t : GoType) (x : GoVal), vdepth x < N →
    goodT sn t = true → wt t x = true → tdepth t ≤ 1000 →
    ∀ F fe, 2 * vdepth x + 3 ≤ F → vdepth x + 2 ≤ fe →
    (isEmptyF fe t x = true ∧ applyResolvers F (makeResolveNonEmptyValue t) ⟨t, x⟩ = .drop) ∨
    (isEmptyF fe t x = false ∧ ∃ rv, Lazy t x rv ∧
      applyResolvers F (makeResolveNonEmptyValue t) ⟨t, x⟩ = .keep rv) := by
  intro N
  induction N with
  | zero => intro sn t x hd; omega
  | succ N ih =>
    intro sn t x hd hp hw hdt F fe hF hfe
    rw [mrnev_gen hp hdt]
    have hwalk := ptrWalk_good sn t hp x hw
    obtain ⟨sn', _, hpb⟩ := good_stripPtr t sn hp
    have hnp := stripPtr_not_ptr t sn hp
    -- the value behind the pointers: the rest of the chain on it
    have tail : ∀ (f : Nat) (x' : GoVal), deref (stripPtr t).1 x = some x' → wt (stripPtr t).2 x' = true →
        vdepth x' ≤ vdepth x → 2 * vdepth x' + 2 ≤ f → ∀ fe', vdepth x' + 2 ≤ fe' →
        (isEmptyF fe' (stripPtr t).2 x' = true ∧
          applyResolvers f (if isIfaceT (stripPtr t).2 then [Resolver.interfaceLazy]
            else if isSized (stripPtr t).2 then [Resolver.bySize] else []) ⟨(stripPtr t).2, x'⟩ = .drop) ∨
        (isEmptyF fe' (stripPtr t).2 x' = false ∧ ∃ rv, Lazy t x rv ∧
          applyResolvers f (if isIfaceT (stripPtr t).2 then [Resolver.interfaceLazy]
            else if isSized (stripPtr t).2 then [Resolver.bySize] else []) ⟨(stripPtr t).2, x'⟩ = .keep rv) := by
      intro f x' hdr hx' hdx' hf fe' hfe'
      obtain ⟨f1, rfl⟩ : ∃ f1, f = f1 + 1 := ⟨f - 1, by omega⟩
      obtain ⟨f2, rfl⟩ : ∃ f2, f1 = f2 + 1 := ⟨f1 - 1, by omega⟩
      obtain ⟨fe1, rfl⟩ : ∃ fe1, fe' = fe1 + 1 := ⟨fe' - 1, by omega⟩
      by_cases hi : isIfaceT (stripPtr t).2 = true
      · have hu : (stripPtr t).2.under = .iface := by
          unfold isIfaceT at hi
          cases hU : (stripPtr t).2.under <;> simp_all
        rw [if_pos hi, applyResolvers_lazy]
        rcases wt_iface_inv hu hx' with rfl | ⟨dt, dv, rfl, hpd, hdd, hwd⟩
        · exact Or.inl ⟨isEmptyF_iface_nil fe1 hu, rfl⟩
        · rw [isEmptyF_iface fe1 hu]
          rw [vdepth_iface] at hdx' hf hfe'
          have hrec := ih [] dt dv (by omega) hpd hwd (by unfold dynBound at hdd; omega) (f2 + 1) fe1
            (by omega) (by omega)
          by_cases hem : (makeResolveNonEmptyValue dt).isEmpty = true
          · have hnil : makeResolveNonEmptyValue dt = [] := by
              cases h : makeResolveNonEmptyValue dt with
              | nil => rfl
              | cons a l => rw [h] at hem; simp at hem
            rw [hnil, applyResolvers_nil] at hrec
            rcases hrec with ⟨_, h2⟩ | ⟨h1, _⟩
            · cases h2
            · refine Or.inr ⟨h1, _, Lazy.keep hdr hi hem, ?_⟩
              show (if (makeResolveNonEmptyValue dt).isEmpty = true then _ else _) = _
              rw [if_pos hem, applyResolvers_nil]
          · have hem' : (makeResolveNonEmptyValue dt).isEmpty = false := by simpa using hem
            rcases hrec with ⟨h1, h2⟩ | ⟨h1, rv, hl, h2⟩
            · refine Or.inl ⟨h1, ?_⟩
              show (if (makeResolveNonEmptyValue dt).isEmpty = true then _ else _) = _
              rw [if_neg hem, h2]
            · refine Or.inr ⟨h1, rv, Lazy.step hdr hi hem' hl, ?_⟩
              show (if (makeResolveNonEmptyValue dt).isEmpty = true then _ else _) = _
              rw [if_neg hem, h2]
              exact applyResolvers_nil f2 rv
      · have hi' : isIfaceT (stripPtr t).2 = false := by simpa using hi
        rw [if_neg hi, isEmptyF_base fe1 hpb hi' hnp]
        by_cases hs : isSized (stripPtr t).2 = true
        · obtain ⟨l, hl⟩ := len_of_sized hs hx'
          rw [if_pos hs, applyResolvers_bySize]
          simp only [hl, sizedEmpty_sized hs, applyResolvers_nil]
          cases l with
          | zero => exact Or.inl ⟨by simp, by simp⟩
          | succ l =>
            refine Or.inr ⟨by simp, _, Lazy.base hdr hi' ?_, by simp⟩
            rw [sizedEmpty_sized hs, hl]; simp
        · have hs' : isSized (stripPtr t).2 = false := by simpa using hs
          rw [if_neg hs, applyResolvers_nil, sizedEmpty_unsized hs']
          exact Or.inr ⟨rfl, _, Lazy.base hdr hi' (sizedEmpty_unsized hs' x'), rfl⟩
    -- assemble
    obtain ⟨F1, rfl⟩ : ∃ F1, F = F1 + 1 := ⟨F - 1, by omega⟩
    by_cases hn : 1 ≤ (stripPtr t).1
    · rw [if_pos hn, List.singleton_append, applyResolvers_pointers, hwalk]
      cases hdr : deref (stripPtr t).1 x with
      | none =>
        exact Or.inl ⟨isEmptyF_deref_none sn t hp x fe hw hdr hfe, rfl⟩
      | some x' =>
        simp only []
        obtain ⟨hwx', hdx'⟩ := deref_wt sn t hp x x' hw hdr
        have hemp := isEmptyF_deref_gen sn t hp x (fe - (stripPtr t).1) hw
        rw [show fe - (stripPtr t).1 + (stripPtr t).1 = fe by omega, hdr] at hemp
        simp only [] at hemp
        rw [hemp]
        exact tail F1 x' hdr hwx' (by omega) (by omega) (fe - (stripPtr t).1) (by omega)
    · have hn0 : (stripPtr t).1 = 0 := by omega
      have hb : (stripPtr t).2 = t := by
        by_cases hpp : ∃ e, t.under = .ptr e
        · obtain ⟨e, he⟩ := hpp
          rw [stripPtr_of_under_ptr he (headKind hp)] at hn0
          simp at hn0
        · rw [stripPtr_of_under_nonptr hp (fun e he => hpp ⟨e, he⟩)]
      have hdr : deref (stripPtr t).1 x = some x := by rw [hn0]; rfl
      have := tail (F1 + 1) x hdr (by rw [hb]; exact hw) (Nat.le_refl _) (by omega) fe hfe
      rw [if_neg hn, List.nil_append]
      rw [hb] at this ⊢
      exact this

/-! ## `inline` through names and pointers -/

theorem foldF_under' (m : Nat) (reg : Bool) {sn : List String} {T : GoType} (h : goodT sn T = true)
    (v : GoVal) : foldF m reg T v = foldF m reg T.under v := by
  cases m with
  | zero => rfl
  | succ m => exact foldF_under m reg h v

theorem inlineF_under (m : Nat) (reg : Bool) {sn : List String} {T : GoType} (h : goodT sn T = true)
    (v : GoVal) : inlineF (m + 1) reg T v = inlineF (m + 1) reg T.under v := by
  have h2 := (good_under h).1
  conv => lhs; unfold inlineF
  conv => rhs; unfold inlineF
  simp only [customOf_good reg h, customOf_good reg h2, under_under h, foldF_under' m reg h v]

theorem inlineF_deref (reg : Bool) : ∀ (sn : List String) (T : GoType), goodT sn T = true →
    ∀ v m segs, wt T v = true → inlineF m reg T v = .ok segs →
    match deref (stripPtr T).1 v with
    | none => segs = []
    | some x => ∃ m', inlineF m' reg (stripPtr T).2 x = .ok segs := by
  refine strip_induction _ ?_ ?_
  · intro sn T _ _ hs v m segs _ h
    rw [hs]
    exact ⟨m, h⟩
  · intro sn T e hg hu _ hs ih v m segs hw h
    rw [hs]
    cases m with
    | zero => simp [inlineF] at h
    | succ m =>
      rw [inlineF_under m reg hg, hu] at h
      rcases wt_ptr_inv hu hw with rfl | ⟨y, rfl, hy⟩
      · have : inlineF (m + 1) reg (.ptr e) .nilPtr = .ok [] := rfl
        rw [this] at h
        cases h
        rfl
      · have : inlineF (m + 1) reg (.ptr e) (.ptr y) = inlineF m reg e y := rfl
        rw [this] at h
        simp only [deref]
        exact ih y m segs hy h

theorem inlineF_struct (m : Nat) (reg : Bool) (fs : List Field) (vs : List GoVal) :
    inlineF (m + 1) reg (.struct fs) (.struct vs) =
      ((fs.zip vs).mapM fun (fx : Field × GoVal) => fieldF m reg fx.1 fx.2).map List.flatten := rfl

theorem inlineF_map {m : Nat} {reg : Bool} {k e : GoType} {v : GoVal} {segs : List Seg}
    (h : inlineF (m + 1) reg (.map k e) v = .ok segs) : foldF m reg (.map k e) v = .ok (.obj segs) := by
  have : inlineF (m + 1) reg (.map k e) v =
      match foldF m reg (.map k e) v with
      | .ok (.obj segs) => .ok segs
      | .ok _ => .error .inlineNeedsObject
      | .error e => .error e := rfl
  rw [this] at h
  cases hf : foldF m reg (.map k e) v with
  | error err => simp [hf] at h
  | ok r =>
    cases r <;> simp_all

end SF.FoldProofs
