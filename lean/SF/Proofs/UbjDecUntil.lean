/-
  C18 for the UBJSON pull decoder — the loop `feedUntil` of `Decoder.Next` without fuel
  (`Until`, with the number of iterations), and its laws across a read boundary, derived from
  the split law of one step (`SF.Ubjson.Chunk.execStep_split`, SF/Proofs/UbjChunkSplitC.lean):

    * `Until.feed` / `until_of_feed`: `feedUntil` with enough fuel computes `Until`; a
      `feedUntil` run that did not exhaust its fuel is an `Until` run;
    * `until_decomp` (DECOMPOSITION): a run over `a ++ b` is a run over `a` and — if that neither
      completed a value nor failed — a run over `b` from the state reached; neither part needs
      more iterations than the whole;
    * `until_split` (COMPOSITION): the converse.
-/
import SF.Proofs.UbjChunkSplitC
import SF.Proofs.UbjProgFeed
import SF.Proofs.UbjRefBase
set_option linter.unusedSimpArgs false
set_option linter.unusedVariables false
namespace SF.Ubjson.DecR
open SF SF.Ubjson SF.Ubjson.Parse
open SF.Ubjson.Chunk (app Ext Sim More Parked Split execStep_split)
open StateType StateStep

/-! ## the reachable parser states of a decoder -/

/-- the invariant of the parser inside a decoder: the no-panic invariant and the shape
invariant of the reachable states -/
structure Good (p : P) : Prop where
  inv : InvE p
  g : G p

theorem good_default : Good ({} : P) := ⟨invE_default, g_default⟩

theorem good_step {p : P} {b : Bytes} (h : Good p) (hm : More p b) (he : (execStep p b).err = none) :
    Good (execStep p b).p :=
  ⟨(execStep_safe p b h.inv hm).2, ((execStep_step p b h.g hm).ok he).1⟩

theorem pending_of_next {p : P} (h : p.state.current.type = stNext) : pending p = false := by
  simp [pending, h]

/-- a step that completes a value leaves a parser that is not pending -/
theorem done_not_pending {p : P} {b : Bytes} (hg : Good p) (hm : More p b) (he : (execStep p b).err = none)
    (hd : (execStep p b).done = true) : pending (execStep p b).p = false :=
  pending_of_next (idle_of_stack_nil (good_step hg hm he).g (execStep_di p b hg.g hd he))

/-! ## `feedUntil` without fuel -/

/-- the loop of `feedUntil` stops after the step with result `r` -/
def Stops (r : R) : Prop := (r.done || r.err.isSome) = true ∨ ¬ More r.p r.rest

/-- `Until p b r n`: `feedUntil`, started in `p` on input `b`, ends with `r` after `n` steps -/
inductive Until : P → Bytes → R → Nat → Prop
  | halt {p : P} {b : Bytes} : Stops (execStep p b) → Until p b (execStep p b) 1
  | step {p : P} {b : Bytes} {r : R} {n : Nat} : (execStep p b).done = false → (execStep p b).err = none →
      More (execStep p b).p (execStep p b).rest →
      Until (execStep p b).p (execStep p b).rest r n → Until p b r (n + 1)

theorem Until.det {p : P} {b : Bytes} {r1 r2 : R} {n1 n2 : Nat} (h1 : Until p b r1 n1) (h2 : Until p b r2 n2) :
    r1 = r2 ∧ n1 = n2 := by
  induction h1 generalizing r2 n2 with
  | halt hs =>
    cases h2 with
    | halt _ => exact ⟨rfl, rfl⟩
    | step hd he hm _ =>
      rcases hs with hs | hs
      · simp [hd, he] at hs
      · exact absurd hm hs
  | step hd he hm _ ih =>
    cases h2 with
    | halt hs =>
      rcases hs with hs | hs
      · simp [hd, he] at hs
      · exact absurd hm hs
    | step _ _ _ h2' =>
      obtain ⟨e1, e2⟩ := ih h2'
      exact ⟨e1, by rw [e2]⟩

theorem Until.pos {p : P} {b : Bytes} {r : R} {n : Nat} (h : Until p b r n) : 1 ≤ n := by
  cases h <;> omega

theorem guard_of_more {p : P} {b : Bytes} (h : More p b) : (!b.isEmpty || pending p) = true :=
  (guard_iff p b).mpr h

theorem feedUntil_stop (f : Nat) (p : P) (b : Bytes) (h : ¬ More p b) :
    feedUntil (f + 1) p b = { p := p, rest := b } := by
  have : (!b.isEmpty || pending p) = false := by
    cases hg : (!b.isEmpty || pending p) with
    | false => rfl
    | true => exact absurd ((guard_iff p b).mp hg) h
  simp only [feedUntil, this, Bool.false_eq_true, if_false]

theorem R.eta_plain (r : R) (hd : r.done = false) (he : r.err = none) : ({ p := r.p, rest := r.rest } : R) = r := by
  cases r; simp_all

/-- FUEL ADEQUACY: with more fuel than iterations, `feedUntil` computes the fuel-free loop -/
theorem Until.feed {p : P} {b : Bytes} {r : R} {n : Nat} (h : Until p b r n) (hm : More p b) (f : Nat)
    (hf : n < f) : feedUntil f p b = r := by
  induction h generalizing f with
  | @halt p b hs =>
    obtain ⟨f, rfl⟩ : ∃ g, f = g + 2 := ⟨f - 2, by omega⟩
    rw [feedUntil_succ _ _ _ (guard_of_more hm)]
    unfold after
    rcases hs with hs | hs
    · simp only [hs, if_true]
    · by_cases hc : ((execStep p b).done || (execStep p b).err.isSome) = true
      · simp only [hc, if_true]
      · simp only [hc, Bool.false_eq_true, if_false]
        rw [feedUntil_stop _ _ _ hs]
        simp only [Bool.or_eq_true, not_or, Bool.not_eq_true, Option.isSome_eq_false_iff,
          Option.isNone_iff_eq_none] at hc
        exact R.eta_plain _ hc.1 hc.2
  | @step p b r n hd he hm' _ ih =>
    obtain ⟨f, rfl⟩ : ∃ g, f = g + 1 := ⟨f - 1, by omega⟩
    rw [feedUntil_succ _ _ _ (guard_of_more hm)]
    unfold after
    simp only [hd, he, Option.isSome_none, Bool.or_self, Bool.false_eq_true, if_false]
    exact ih hm' f (by omega)

/-- a `feedUntil` run that did not exhaust its fuel is a run of the fuel-free loop, of at most
as many iterations as there was fuel -/
theorem until_of_feed (f : Nat) (p : P) (b : Bytes) (hm : More p b)
    (hne : (feedUntil f p b).err ≠ some .outOfFuel) : ∃ n, n ≤ f ∧ Until p b (feedUntil f p b) n := by
  induction f generalizing p b with
  | zero => simp [feedUntil] at hne
  | succ f ih =>
    rw [feedUntil_succ _ _ _ (guard_of_more hm)] at hne ⊢
    unfold after at hne ⊢
    by_cases hc : ((execStep p b).done || (execStep p b).err.isSome) = true
    · simp only [hc, if_true]
      exact ⟨1, by omega, Until.halt (Or.inl hc)⟩
    · simp only [hc, Bool.false_eq_true, if_false] at hne ⊢
      have hc' := hc
      simp only [Bool.or_eq_true, not_or, Bool.not_eq_true, Option.isSome_eq_false_iff,
        Option.isNone_iff_eq_none] at hc'
      by_cases hm' : More (execStep p b).p (execStep p b).rest
      · obtain ⟨n, hn, hu⟩ := ih _ _ hm' hne
        exact ⟨n + 1, by omega, Until.step hc'.1 hc'.2 hm' hu⟩
      · cases f with
        | zero => simp [feedUntil] at hne
        | succ f =>
          rw [feedUntil_stop _ _ _ hm', R.eta_plain _ hc'.1 hc'.2]
          exact ⟨1, by omega, Until.halt (Or.inr hm')⟩

/-- what a run without error establishes -/
theorem Until.post {p : P} {b : Bytes} {r : R} {n : Nat} (h : Until p b r n) (hg : Good p) (hm : More p b)
    (he : r.err = none) :
    Good r.p ∧ pending r.p = false ∧ (r.done = false → r.rest = []) := by
  induction h with
  | @halt p b hs =>
    refine ⟨good_step hg hm he, ?_, fun hd => ?_⟩
    · cases hd : (execStep p b).done with
      | true => exact done_not_pending hg hm he hd
      | false =>
        rcases hs with hs | hs
        · simp [hd, he] at hs
        · cases hp : pending (execStep p b).p with
          | false => rfl
          | true => exact absurd (Or.inr hp) hs
    · rcases hs with hs | hs
      · simp [hd, he] at hs
      · cases hr : (execStep p b).rest with
        | nil => rfl
        | cons x xs => exact absurd (Or.inl (by rw [hr]; simp)) hs
  | step hd he' hm' _ ih => exact ih (good_step hg hm he') hm' he

/-! ## decomposition of a run at a read boundary -/

theorem app_nil (r : R) : app r [] = r := by
  cases r; simp [app]

theorem More.append {p : P} {a : Bytes} (h : More p a) (b : Bytes) : More p (a ++ b) := by
  rcases h with h | h
  · exact Or.inl (by intro hc; exact h (List.append_eq_nil_iff.mp hc).1)
  · exact Or.inr h

theorem not_more_iff {p : P} {b : Bytes} : ¬ More p b ↔ b = [] ∧ pending p = false := by
  constructor
  · intro h
    refine ⟨?_, ?_⟩
    · cases b with
      | nil => rfl
      | cons x xs => exact absurd (Or.inl (by simp)) h
    · cases hp : pending p with
      | false => rfl
      | true => exact absurd (Or.inr hp) h
  · rintro ⟨h1, h2⟩ hm
    rcases hm with hm | hm
    · exact hm h1
    · rw [h2] at hm; cases hm

/-- what `until_decomp` says about the run `r1` over the first part `a` of `a ++ b`, the run `R` over
the whole taking `m` iterations -/
structure Decomp (R : R) (m : Nat) (b : Bytes) (r1 : Parse.R) (n1 : Nat) : Prop where
  le : n1 ≤ m
  /-- the first part fails: the whole fails alike -/
  err : ∀ e, r1.err = some e → R.err = some e ∧ R.p.evs = r1.p.evs
  /-- the first part completes a value: the whole does, leaving `b` in addition -/
  done : r1.err = none → r1.done = true → R = app r1 b
  /-- otherwise the whole is the run over `b` from the state reached -/
  cont : r1.err = none → r1.done = false → b ≠ [] → ∃ r2 n2, Until r1.p b r2 n2 ∧ n2 ≤ m ∧ Sim r2 R

/-- DECOMPOSITION OF A RUN AT A READ BOUNDARY.  If the loop over `a ++ b` ends with `R` after `m`
iterations, then the loop over `a` alone ends (with some `r1`, after at most `m` iterations), and
  * if `r1` is an error, `R` is the same error after the same events;
  * if `r1` completed a value, `R` is `r1` with `b` left over in addition;
  * otherwise the loop over `b` from `r1.p` ends after at most `m` iterations with the result `R`
    (after an error: same error, same events). -/
theorem until_decomp {p : P} {ab : Bytes} {R : R} {m : Nat} (h : Until p ab R m) :
    ∀ a b, ab = a ++ b → Good p → More p a → ∃ r1 n1, Until p a r1 n1 ∧ Decomp R m b r1 n1 := by
  induction h with
  | @halt p ab hs =>
    intro a b hab hg hm
    subst hab
    rcases execStep_split p a hg.inv.inv hm with hext | ⟨k1, k2, k3, k4, k5⟩
    · obtain ⟨x1, x2, x3⟩ := hext b
      cases he : (execStep p a).err with
      | some e =>
        refine ⟨_, 1, Until.halt (Or.inl (by simp [he])), Nat.le_refl _, fun e' he' => ?_, fun h => ?_, fun h => ?_⟩
        · rw [he] at he'; injection he' with he'; subst he'
          exact ⟨by rw [x1, he], x2⟩
        · rw [he] at h; cases h
        · rw [he] at h; cases h
      | none =>
        have hx := x3 he
        cases hd : (execStep p a).done with
        | true =>
          refine ⟨_, 1, Until.halt (Or.inl (by simp [hd])), Nat.le_refl _, fun e' he' => ?_, fun _ _ => hx, fun _ h => ?_⟩
          · rw [he] at he'; cases he'
          · rw [hd] at h; cases h
        | false =>
          have hnm : ¬ More (execStep p a).p ((execStep p a).rest ++ b) := by
            rcases hs with hs | hs
            · rw [hx] at hs; simp [app, hd, he] at hs
            · rw [hx] at hs; exact hs
          obtain ⟨q1, q2⟩ := not_more_iff.mp hnm
          obtain ⟨q3, q4⟩ := List.append_eq_nil_iff.mp q1
          refine ⟨_, 1, Until.halt (Or.inr (not_more_iff.mpr ⟨q3, q2⟩)), Nat.le_refl _, fun e' he' => ?_,
            fun _ h => ?_, fun _ _ hb => absurd q4 hb⟩
          · rw [he] at he'; cases he'
          · rw [hd] at h; cases h
    · refine ⟨_, 1, Until.halt (Or.inr (not_more_iff.mpr ⟨k2, k4⟩)), Nat.le_refl _, fun e' he' => ?_, fun _ h => ?_,
        fun _ _ hb => ?_⟩
      · rw [k1] at he'; cases he'
      · rw [k3] at h; cases h
      · obtain ⟨s1, s2, s3⟩ := k5 b hb
        refine ⟨execStep (execStep p a).p b, 1, Until.halt ?_, Nat.le_refl _, s1, s2, s3⟩
        cases he2 : (execStep (execStep p a).p b).err with
        | some e => exact Or.inl (by simp [he2])
        | none => rw [← s3 he2]; exact hs
  | @step p ab R m hd he hm' h' ih =>
    intro a b hab hg hm
    subst hab
    rcases execStep_split p a hg.inv.inv hm with hext | ⟨k1, k2, k3, k4, k5⟩
    · obtain ⟨x1, x2, x3⟩ := hext b
      have hea : (execStep p a).err = none := by rw [← x1]; exact he
      have hx := x3 hea
      have hda : (execStep p a).done = false := by
        have := hd; rw [hx] at this; simpa [app] using this
      rw [hx] at hm' h' ih
      simp only [app] at hm' h' ih
      by_cases hma : More (execStep p a).p (execStep p a).rest
      · obtain ⟨r1, n1, hu, hdc⟩ := ih (execStep p a).rest b rfl (good_step hg hm hea) hma
        refine ⟨r1, n1 + 1, Until.step hda hea hma hu, by have := hdc.le; omega, hdc.err, hdc.done, fun h1 h2 h3 => ?_⟩
        obtain ⟨r2, n2, u2, l2, s2⟩ := hdc.cont h1 h2 h3
        exact ⟨r2, n2, u2, by omega, s2⟩
      · obtain ⟨q1, q2⟩ := not_more_iff.mp hma
        refine ⟨_, 1, Until.halt (Or.inr hma), by have := h'.pos; omega, fun e' he' => ?_, fun _ h => ?_, fun _ _ hb => ?_⟩
        · rw [hea] at he'; cases he'
        · rw [hda] at h; cases h
        · rw [q1, List.nil_append] at h'
          exact ⟨R, m, h', by omega, Sim.refl _⟩
    · have hb : b ≠ [] := by
        intro hb; subst hb
        rw [List.append_nil] at hm'
        exact (not_more_iff.mpr ⟨k2, k4⟩) hm'
      obtain ⟨s1, s2, s3⟩ := k5 b hb
      have he2 : (execStep (execStep p a).p b).err = none := by rw [← s1]; exact he
      have hx := s3 he2
      refine ⟨_, 1, Until.halt (Or.inr (not_more_iff.mpr ⟨k2, k4⟩)), by have := h'.pos; omega, fun e' he' => ?_,
        fun _ h => ?_, fun _ _ _ => ?_⟩
      · rw [k1] at he'; cases he'
      · rw [k3] at h; cases h
      · refine ⟨R, m + 1, ?_, Nat.le_refl _, Sim.refl _⟩
        rw [hx] at hd he hm' h'
        exact Until.step hd he hm' h'

/-! ## composition of runs at a read boundary -/

/-- COMPOSITION OF RUNS AT A READ BOUNDARY (the converse of `until_decomp`; no fuel involved).
Let the loop over `a` end with `r`.  Then over `a ++ b`:
  * if `r` is an error, the loop ends with the same error after the same events;
  * if `r` completed a value, the loop ends with the same result and `b` left over in addition;
  * otherwise the loop continues as the loop over `b` from `r.p` — same result (after an
    error: same error, same events). -/
theorem until_split {p : P} {a : Bytes} {r : R} {n : Nat} (h : Until p a r n) (b : Bytes) :
    Good p → More p a →
    (∀ e, r.err = some e → ∃ r' n', Until p (a ++ b) r' n' ∧ r'.err = some e ∧ r'.p.evs = r.p.evs) ∧
    (r.err = none → r.done = true → ∃ n', Until p (a ++ b) (app r b) n') ∧
    (r.err = none → r.done = false → b ≠ [] → ∀ r2 n2, Until r.p b r2 n2 →
      ∃ r2' n2', Until p (a ++ b) r2' n2' ∧ Sim r2 r2') := by
  induction h with
  | @halt p a hs =>
    intro hg hm
    rcases execStep_split p a hg.inv.inv hm with hext | ⟨k1, k2, k3, k4, k5⟩
    · obtain ⟨x1, x2, x3⟩ := hext b
      refine ⟨fun e he => ?_, fun he hd => ?_, fun he hd hb r2 n2 h2 => ?_⟩
      · exact ⟨_, 1, Until.halt (Or.inl (by simp [x1, he])), by rw [x1, he], x2⟩
      · rw [← x3 he]
        exact ⟨1, Until.halt (Or.inl (by rw [x3 he]; simp [app, hd]))⟩
      · have hx := x3 he
        have hnm : ¬ More (execStep p a).p (execStep p a).rest := by
          rcases hs with hs | hs
          · simp [hd, he] at hs
          · exact hs
        obtain ⟨hrest, _⟩ := not_more_iff.mp hnm
        refine ⟨r2, n2 + 1, Until.step (by rw [hx]; exact hd) (by rw [hx]; exact he) ?_ ?_, Sim.refl _⟩
        · rw [hx]; exact Or.inl (by simp [app, hrest, hb])
        · rw [hx]; simpa [app, hrest] using h2
    · refine ⟨fun e he => (by rw [k1] at he; cases he), fun he hd => (by rw [k3] at hd; cases hd),
        fun he hd hb r2 n2 h2 => ?_⟩
      obtain ⟨s1, s2, s3⟩ := k5 b hb
      cases h2 with
      | halt hs2 =>
        cases he2 : (execStep (execStep p a).p b).err with
        | some e =>
          exact ⟨_, 1, Until.halt (Or.inl (by simp [s1, he2])), s1, s2, s3⟩
        | none =>
          have hx := s3 he2
          exact ⟨_, 1, Until.halt (by rw [hx]; exact hs2), Sim.of_eq hx⟩
      | @step _ _ _ n2' hd2 he2 hm2 h2' =>
        have hx := s3 he2
        exact ⟨r2, n2' + 1, Until.step (by rw [hx]; exact hd2) (by rw [hx]; exact he2) (by rw [hx]; exact hm2)
          (by rw [hx]; exact h2'), Sim.refl _⟩
  | @step p a r n hd he hm' h' ih =>
    intro hg hm
    rcases execStep_split p a hg.inv.inv hm with hext | ⟨k1, k2, k3, k4, k5⟩
    · obtain ⟨x1, x2, x3⟩ := hext b
      have hx := x3 he
      obtain ⟨i1, i2, i3⟩ := ih (good_step hg hm he) hm'
      have hstep : ∀ X k, Until (execStep p a).p ((execStep p a).rest ++ b) X k → Until p (a ++ b) X (k + 1) := by
        intro X k hX
        refine Until.step (by rw [hx]; exact hd) (by rw [hx]; exact he) ?_ (by rw [hx]; exact hX)
        rw [hx]; exact More.append hm' b
      refine ⟨fun e he1 => ?_, fun he1 hd1 => ?_, fun he1 hd1 hb r2 n2 h2 => ?_⟩
      · obtain ⟨r', n', q1, q2, q3⟩ := i1 e he1
        exact ⟨r', n' + 1, hstep _ _ q1, q2, q3⟩
      · obtain ⟨n', q1⟩ := i2 he1 hd1
        exact ⟨n' + 1, hstep _ _ q1⟩
      · obtain ⟨r2', n2', q1, q2⟩ := i3 he1 hd1 hb r2 n2 h2
        exact ⟨r2', n2' + 1, hstep _ _ q1, q2⟩
    · exact absurd hm' (not_more_iff.mpr ⟨k2, k4⟩)

end SF.Ubjson.DecR
