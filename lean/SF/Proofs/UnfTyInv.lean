/-
  Typed targets, part 6: re-establishing the invariant after the top frame has stored through its
  pointer / been replaced / been popped, and after new frames have been pushed.
-/
import SF.Proofs.UnfTyOps
namespace SF.Unf
open SF

@[simp] theorem Stk.push_current {α : Type} (s : Stk α) (x : α) : (s.push x).current = x := rfl

variable {D : Nat} {base : S6} {fs : List Frame} {c c' : Ctx} {F F' : Frame}

theorem Inv.top_deref (h : Inv D base (F :: fs) c) : ∃ v, deref c F.live.1 = some v ∧ F.live.2.ok v :=
  h.mem F.live (by simp [liveOf])

theorem Inv.mem_rest (h : Inv D base (F :: fs) c) : MemOK c (liveOf fs) := by
  have := h.mem
  simp only [liveOf, List.map_cons] at this
  exact this.cons

/-- the top frame is popped, nothing stored -/
theorem Inv.pop (h : Inv D base (F :: fs) c) (hs : c'.s6 = stacksOf base fs) (hm : c'.mem = c.mem)
    (hA : cntA (F :: fs) = cntA fs) (hMA : cntMA (F :: fs) = cntMA fs) (hMP : cntMP (F :: fs) = cntMP fs) :
    Inv D base fs c' := by
  have hvb : c'.valueBuffer = c.valueBuffer := by
    simp only [Ctx.mem, Prod.mk.injEq] at hm; exact hm.2.2
  exact ⟨hs, h.wfs.2, h.mem_rest.congr hm, by rw [hvb, h.nA, hA], by rw [hvb, h.nMA, hMA], by rw [hvb, h.nMP, hMP]⟩

theorem storeAt_vb_sizes (c : Ctx) (q : Path) (w : GoVal) (c' : Ctx) (hm : c'.mem = (storeAt c q w).mem) :
    c'.valueBuffer.arrays.size = c.valueBuffer.arrays.size ∧
    c'.valueBuffer.mapAny.size = c.valueBuffer.mapAny.size ∧
    c'.valueBuffer.mapPrimitive.size = c.valueBuffer.mapPrimitive.size := by
  have hvb : c'.valueBuffer = (storeAt c q w).valueBuffer := by
    simp only [Ctx.mem, Prod.mk.injEq] at hm; exact hm.2.2
  have sf := storeAt_sameFrame c q w
  rw [hvb]
  exact ⟨sf.arrays, sf.mapAny, sf.mapPrimitive⟩

/-- the top frame stores `w` through its pointer (in a context `c0` with the memory of `c`) and is
popped -/
theorem Inv.pop_store (h : Inv D base (F :: fs) c) (c0 : Ctx) (h0 : c0.mem = c.mem) (w : GoVal) (hw : F.live.2.ok w)
    (hs : c'.s6 = stacksOf base fs) (hm : c'.mem = (storeAt c0 F.live.1 w).mem)
    (hA : cntA (F :: fs) = cntA fs) (hMA : cntMA (F :: fs) = cntMA fs) (hMP : cntMP (F :: fs) = cntMP fs) :
    Inv D base fs c' := by
  obtain ⟨old, hd, _⟩ := h.top_deref
  rw [← deref_congr c c0 h0] at hd
  have hvb0 : c0.valueBuffer = c.valueBuffer := by
    simp only [Ctx.mem, Prod.mk.injEq] at h0; exact h0.2.2
  obtain ⟨s1, s2, s3⟩ := storeAt_vb_sizes c0 F.live.1 w c' hm
  rw [hvb0] at s1 s2 s3
  have hrel := rel_of_wfs D F fs h.wfs
  have hmem : MemOK (storeAt c0 F.live.1 w) (liveOf fs) :=
    memOK_store c0 F.live.1 F.live.2 (liveOf fs) w old hrel (h.mem_rest.congr h0) hd hw
  exact ⟨hs, h.wfs.2, hmem.congr hm, by rw [s1, h.nA, hA], by rw [s2, h.nMA, hMA], by rw [s3, h.nMP, hMP]⟩

/-- the top frame stores `w` through its pointer and is replaced by `F'` (same pointer) -/
theorem Inv.replace_store (h : Inv D base (F :: fs) c) (c0 : Ctx) (h0 : c0.mem = c.mem) (w : GoVal)
    (hw : F.live.2.ok w)
    (hp : F'.live.1 = F.live.1) (hw' : F'.live.2.ok w) (hb : Born D F' fs)
    (hs : c'.s6 = stacksOf base (F' :: fs)) (hm : c'.mem = (storeAt c0 F.live.1 w).mem)
    (hA : cntA (F' :: fs) = cntA (F :: fs)) (hMA : cntMA (F' :: fs) = cntMA (F :: fs))
    (hMP : cntMP (F' :: fs) = cntMP (F :: fs)) :
    Inv D base (F' :: fs) c' := by
  obtain ⟨old, hd, _⟩ := h.top_deref
  rw [← deref_congr c c0 h0] at hd
  have hvb0 : c0.valueBuffer = c.valueBuffer := by
    simp only [Ctx.mem, Prod.mk.injEq] at h0; exact h0.2.2
  obtain ⟨s1, s2, s3⟩ := storeAt_vb_sizes c0 F.live.1 w c' hm
  rw [hvb0] at s1 s2 s3
  have hrel := rel_of_wfs D F fs h.wfs
  have hmem : MemOK (storeAt c0 F.live.1 w) (liveOf fs) :=
    memOK_store c0 F.live.1 F.live.2 (liveOf fs) w old hrel (h.mem_rest.congr h0) hd hw
  refine ⟨hs, ⟨hb, h.wfs.2⟩, ?_, by rw [s1, h.nA, hA], by rw [s2, h.nMA, hMA], by rw [s3, h.nMP, hMP]⟩
  intro x hx
  simp only [liveOf, List.map_cons, List.mem_cons] at hx
  rcases hx with rfl | hx
  · refine ⟨w, ?_, hw'⟩
    rw [deref_congr _ _ hm, hp]
    exact deref_storeAt_self c0 F.live.1 w old hd
  · exact (hmem.congr hm) x (by simpa [liveOf] using hx)

/-- the top frame is replaced by `F'` relying on no more than is there, nothing stored -/
theorem Inv.replace (h : Inv D base (F :: fs) c) (hp : F'.live.1 = F.live.1)
    (hl : ∀ v, deref c F.live.1 = some v → F.live.2.ok v → F'.live.2.ok v) (hb : Born D F' fs)
    (hs : c'.s6 = stacksOf base (F' :: fs)) (hm : c'.mem = c.mem)
    (hA : cntA (F' :: fs) = cntA (F :: fs)) (hMA : cntMA (F' :: fs) = cntMA (F :: fs))
    (hMP : cntMP (F' :: fs) = cntMP (F :: fs)) :
    Inv D base (F' :: fs) c' := by
  have hvb : c'.valueBuffer = c.valueBuffer := by
    simp only [Ctx.mem, Prod.mk.injEq] at hm; exact hm.2.2
  obtain ⟨old, hd, hok⟩ := h.top_deref
  refine ⟨hs, ⟨hb, h.wfs.2⟩, ?_, by rw [hvb, h.nA, hA], by rw [hvb, h.nMA, hMA], by rw [hvb, h.nMP, hMP]⟩
  intro x hx
  simp only [liveOf, List.map_cons, List.mem_cons] at hx
  rcases hx with rfl | hx
  · exact ⟨old, by rw [deref_congr _ _ hm, hp]; exact hd, hl old hd hok⟩
  · exact (h.mem_rest.congr hm) x (by simpa [liveOf] using hx)

end SF.Unf
