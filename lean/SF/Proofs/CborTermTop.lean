/-
  C03 for the CBOR ("cborl") parser mirror, the two remaining clauses:

  (A) NO HANG.  The fuel the model hands out (`fuelFor b = 4·|b| + 8` iterations of the
      inner loop `feedUntil`, `2·|b| + 2` rounds of the outer loop `feed`) is always enough:
      no entry point ever reports `Err.outOfFuel`, on ANY byte string in ANY chunking.
      Explicit bound: `feedUntil` needs at most `2·|b| + 2` iterations (`feedUntil_linear`),
      `feed` at most `|b| + 1` rounds.
  (B) TRUNCATION IS AN ERROR.  Every entry point that knows where the input ends (`parse`
      = Parse/ParseString, `writeChunks` = Write* + end of input = ParseReader) reports an
      error on every proper non-empty prefix of a well-formed item, in ANY chunking.
      This is a corollary of the CONVERSE of C05 (`parse_none_is_items`,
      `writeChunks_none_is_items`): whatever these entry points accept is a concatenation
      of complete well-formed items.

  Method: an explicit invariant of reachable states.  `Inv p` says that the state stack,
  the length stack and the partial-token buffer of `p` are exactly those of a ghost context
  `c` (SF/Proofs/CborCtx.lean: the enclosing containers with the items completed so far and
  the token in progress) and that `p` is not start-pending.  `step_sim`
  (SF/Proofs/CborSimStep2.lean) shows that every `execStep` from such a state either
  reports an error or leads to such a state again, consuming at least one byte unless it
  leaves a start-pending state for a non-pending one — which bounds the number of steps by
  `2·|b| + 1` — and extending the context's bytes by exactly what was consumed.
-/
import SF.Proofs.CborSimLoop
import SF.Proofs.CborRefineW
set_option linter.unusedSimpArgs false
namespace SF.Cbor.Term
open SF SF.Cbor SF.Cbor.Cst SF.Cbor.Parse SF.Cbor.Sim

/-! ## the invariant -/

/-- INVARIANT of the parser states between two `Write` calls: the state is the one
described by some well-formed ghost context and is not start-pending -/
def Inv (p : P) : Prop := ∃ c : Ctx, Quiet p c

/-- the fresh parser satisfies the invariant -/
theorem inv_init : Inv {} := ⟨idleCtx, quiet_init⟩

/-- the invariant is preserved by `Write` (whenever it reports no error) -/
theorem inv_write (p : P) (h : Inv p) (b : Bytes) (hw : (write p b).2 = none) : Inv (write p b).1 := by
  obtain ⟨c, hq⟩ := h
  simp only [write, feedAll] at hw ⊢
  rcases feed_sim (2 * b.length + 2) c p hq b with he | ⟨its, c', _, h2, _⟩
  · exact absurd hw he
  · exact ⟨c', quiet_setErr h2 _⟩

/-- the states described by SOME well-formed context (start-pending or not): the states the
inner loop passes through -/
def Reach (p : P) : Prop := ∃ c : Ctx, c.Valid ∧ Rel p c

theorem reach_of_inv {p : P} (h : Inv p) : Reach p := by
  obtain ⟨c, hq⟩ := h
  exact ⟨c, hq.valid, hq.rel⟩

/-- ONE STEP preserves `Reach` and decreases the measure `2·|input| + [start-pending]`:
every `execStep` the loop can perform either reports an error, or consumes at least one
byte, or consumes nothing but leaves a start-pending state for a non-pending one -/
theorem reach_step (p : P) (h : Reach p) (b : Bytes)
    (hb : b ≠ [] ∨ SF.Props.C03.startPending p = true) (he : (execStep p b).err = none) :
    Reach (execStep p b).p ∧
    ((execStep p b).rest.length < b.length ∨
      ((execStep p b).rest = b ∧ SF.Props.C03.startPending p = true ∧
        SF.Props.C03.startPending (execStep p b).p = false)) := by
  obtain ⟨c, hv, hr⟩ := h
  rw [rel_pending hr] at hb ⊢
  rcases step_sim c hv p hr b hb with he' | ⟨used, o, hb1, hro, hgo, hm⟩
  · exact absurd he he'
  · have hrel := rout_rel hro
    have hvalid : o.ctx.Valid := by
      cases o with
      | done t => exact idle_valid
      | cont c' => exact hgo.1
    have hpend : o.ctx.pending = o.pending := by cases o <;> rfl
    refine ⟨⟨o.ctx, hvalid, hrel⟩, ?_⟩
    have hlen : b.length = used.length + (execStep p b).rest.length := by
      conv => lhs; rw [hb1]
      simp
    by_cases hu : used = []
    · right
      rcases hm with hm | ⟨hm1, hm2⟩
      · exact absurd hu hm
      · subst hu
        exact ⟨by simpa using hb1.symm, hm1, by rw [rel_pending hrel, hpend]; exact hm2⟩
    · left
      have : 0 < used.length := List.length_pos_iff.mpr hu
      omega

/-- the invariant is needed: from an ARBITRARY state the loops may exhaust any fuel (here: a
parser left in the fail state with no stored error — not reachable — spins on one byte) -/
example : (parse { state := { current := ⟨stFail, stStart⟩ } } [0x00]).2 = some .outOfFuel := by
  decide +kernel

/-! ## (A) no hang -/

/-- inner loop, explicit linear bound: from any state satisfying the invariant (more
generally: described by a well-formed context), `2·|b| + 2` iterations suffice -/
theorem feedUntil_linear (p : P) (h : Inv p) (herr : p.err = none) (b : Bytes) (hb : b ≠ []) (f : Nat)
    (hf : 2 * b.length + 2 ≤ f) : (feedUntil f p b).err ≠ some .outOfFuel := by
  obtain ⟨c, hq⟩ := h
  exact feedUntil_fuel f c hq.valid p hq.rel (by simp [herr]) b (Or.inl hb) (by simp only [hq.np]; simp; omega)

/-- outer loop: `|b| + 1` rounds suffice -/
theorem feed_linear (p : P) (h : Inv p) (herr : p.err = none) (b : Bytes) (fuel : Nat)
    (hf : b.length + 1 ≤ fuel) : (feed fuel p b).2 ≠ some .outOfFuel := by
  obtain ⟨c, hq⟩ := h
  exact feed_fuel fuel c p hq (by simp [herr]) b hf

/-- NO HANG from any state satisfying the invariant -/
theorem parse_terminates_from (p : P) (h : Inv p) (herr : p.err = none) (b : Bytes) :
    (parse p b).2 ≠ some .outOfFuel := by
  obtain ⟨c, hq⟩ := h
  exact parse_fuel c p hq (by simp [herr]) b

theorem writeChunks_terminates_from (p : P) (h : Inv p) (herr : p.err = none) (cs : List Bytes) :
    (writeChunks p cs).2 ≠ some .outOfFuel := by
  obtain ⟨c, hq⟩ := h
  exact writeChunks_fuel cs c p hq (by simp [herr])

/-- C03 (no-hang clause) for `cborl.Parse` / `ParseString`: on ANY byte string the loops
terminate within the fuel the model hands out -/
theorem parse_terminates (b : Bytes) : (parse {} b).2 ≠ some .outOfFuel :=
  parse_terminates_from {} inv_init rfl b

/-- … and for any sequence of `Write` calls with ANY chunking followed by the end-of-input
check (`Write*` / `ParseReader`) -/
theorem writeChunks_terminates (cs : List Bytes) : (writeChunks {} cs).2 ≠ some .outOfFuel :=
  writeChunks_terminates_from {} inv_init rfl cs

/-- non-vacuity: a parser state in the middle of a nested document (after `82 01 bf 61`:
array of 2, one element read, indefinite map opened, key of length 1 announced) satisfies
the invariant — with a non-trivial context —, so the `_from` theorems apply to it -/
example :
    Quiet (feedAll {} [0x82, 0x01, 0xbf, 0x61]).1
      ⟨[.arr .imm 2 [.uint .imm 1]], .key (.ind []) (.str .imm 1 [])⟩ := by
  refine ⟨?_, ⟨?_, ?_, ?_⟩, rfl⟩
  · simp [Ctx.Valid, contsValid, Cont.valid, Top.valid, MapK.valid, KeyTop.valid, Sim.lenOk, W.fits, okwList,
      okw, okwMems]
  all_goals decide +kernel

example : (parse {} [0x9f, 0x01, 0xff, 0x18]).2 = some .incomplete ∧
    (parse {} [0x5b, 0, 0, 0, 0]).2 = some .incomplete ∧
    (writeChunks {} [[0x82], [], [0x19, 0x01], [0x00, 0x40]]).2 = none := by decide +kernel

/-! ## (B) truncation is an error; the converse of C05 -/

/-- CONVERSE OF C05: whatever `cborl.Parse` accepts is a concatenation of complete,
well-formed items (`okw` = `Item.ok` without the bound on the element count of indefinite
containers, which the parser does not check) -/
theorem parse_none_is_items (b : Bytes) (h : (parse {} b).2 = none) :
    ∃ its : List Item, okwList its = true ∧ b = wireList its := by
  obtain ⟨its, h1, h2⟩ := parse_sim idleCtx {} quiet_init b h
  exact ⟨its, h1, by simpa [Ctx.wire, idleCtx, Top.wire, contsWire] using h2⟩

/-- … and so for `Write*` + end of input, in any chunking -/
theorem writeChunks_none_is_items (cs : List Bytes) (h : (writeChunks {} cs).2 = none) :
    ∃ its : List Item, okwList its = true ∧ cs.flatten = wireList its := by
  obtain ⟨its, h1, h2⟩ := writeChunks_sim cs idleCtx {} quiet_init h
  exact ⟨its, h1, by simpa [Ctx.wire, idleCtx, Top.wire, contsWire] using h2⟩

mutual
theorem ok_okw (t : Item) (h : t.ok = true) : okw t = true := by
  match t with
  | .uint w n => simpa [Item.ok, okw] using h
  | .nint w n => simpa [Item.ok, okw] using h
  | .bytes w bs => simpa [Item.ok, okw] using h
  | .text w bs => simpa [Item.ok, okw] using h
  | .arr w xs =>
    simp only [Item.ok, okw, Bool.and_eq_true] at h ⊢
    exact ⟨h.1, okList_okw xs h.2⟩
  | .arrIndef xs =>
    simp only [Item.ok, okw, Bool.and_eq_true] at h ⊢
    exact okList_okw xs h.2
  | .map w ms =>
    simp only [Item.ok, okw, Bool.and_eq_true] at h ⊢
    exact ⟨h.1, okMems_okw ms h.2⟩
  | .mapIndef ms =>
    simp only [Item.ok, okw, Bool.and_eq_true] at h ⊢
    exact okMems_okw ms h.2
  | .fals | .tru | .null | .undef => rfl
  | .f32 b => rfl
  | .f64 b => rfl
theorem okList_okw (xs : List Item) (h : okList xs = true) : okwList xs = true := by
  match xs with
  | [] => rfl
  | x :: xs' =>
    simp only [okList, okwList, Bool.and_eq_true] at h ⊢
    exact ⟨ok_okw x h.1, okList_okw xs' h.2⟩
theorem okMems_okw (ms : List Mem) (h : okMems ms = true) : okwMems ms = true := by
  match ms with
  | [] => rfl
  | (kw, k, v) :: ms' =>
    simp only [okMems, okwMems, Bool.and_eq_true] at h ⊢
    exact ⟨⟨h.1.1, ok_okw v h.1.2⟩, okMems_okw ms' h.2⟩
end

/-- the wire format is PREFIX-FREE: no well-formed item is a proper prefix of another
(both are read by the same deterministic parser, which stops exactly at the end of each) -/
theorem wire_prefix_free (t1 t2 : Item) (h1 : okw t1 = true) (h2 : okw t2 = true) (r1 r2 : Bytes)
    (h : t1.wire ++ r1 = t2.wire ++ r2) : r1 = r2 := by
  have e1 := feedUntil_item_w t1 h1 [] r1 (cost t1 + cost t2 + 1) (by omega)
  have e2 := feedUntil_item_w t2 h2 [] r2 (cost t1 + cost t2 + 1) (by omega)
  rw [h, e2] at e1
  exact (congrArg R.rest e1).symm

/-- C03 (truncation clause), `Write*` + end of input / `ParseReader`, ANY chunking: a proper
non-empty prefix of a well-formed item is reported as an error -/
theorem truncated_is_error_chunks (it : Item) (h : it.ok = true) (k : Nat) (hk0 : 0 < k)
    (hk : k < it.wire.length) (cs : List Bytes) (hcs : cs.flatten = it.wire.take k) :
    (writeChunks {} cs).2 ≠ none := by
  intro hnone
  obtain ⟨its, h1, h2⟩ := writeChunks_none_is_items cs hnone
  rw [hcs] at h2
  cases its with
  | nil =>
    have := congrArg List.length h2
    rw [List.length_take] at this
    simp only [wireList, List.length_nil] at this
    omega
  | cons t1 ts =>
    simp only [okwList, Bool.and_eq_true] at h1
    have hsplit : it.wire ++ [] = t1.wire ++ (wireList ts ++ it.wire.drop k) := by
      have := List.take_append_drop k it.wire
      rw [h2] at this
      simp only [wireList, List.append_assoc] at this
      simp [this]
    have := wire_prefix_free it t1 (ok_okw it h) h1.1 _ _ hsplit
    have hd : (it.wire.drop k).length = 0 := by
      have h0 := congrArg List.length this
      simp only [List.length_nil, List.length_append] at h0
      omega
    rw [List.length_drop] at hd
    omega

/-- C03 (truncation clause), `cborl.Parse` / `ParseString` -/
theorem truncated_is_error (it : Item) (h : it.ok = true) (k : Nat) (hk0 : 0 < k)
    (hk : k < it.wire.length) : (parse {} (it.wire.take k)).2 ≠ none := by
  intro hnone
  obtain ⟨its, h1, h2⟩ := parse_none_is_items _ hnone
  cases its with
  | nil =>
    have := congrArg List.length h2
    rw [List.length_take] at this
    simp only [wireList, List.length_nil] at this
    omega
  | cons t1 ts =>
    simp only [okwList, Bool.and_eq_true] at h1
    have hsplit : it.wire ++ [] = t1.wire ++ (wireList ts ++ it.wire.drop k) := by
      have := List.take_append_drop k it.wire
      rw [h2] at this
      simp only [wireList, List.append_assoc] at this
      simp [this]
    have := wire_prefix_free it t1 (ok_okw it h) h1.1 _ _ hsplit
    have hd : (it.wire.drop k).length = 0 := by
      have h0 := congrArg List.length this
      simp only [List.length_nil, List.length_append] at h0
      omega
    rw [List.length_drop] at hd
    omega

/-- non-vacuity: a nested item meeting the hypotheses and a cut inside its second level -/
example : (Item.arr .imm [.uint .imm 1, .mapIndef [(.imm, [0x61], .nint .w1 199)]]).ok = true ∧
    0 < 5 ∧ 5 < (Item.arr .imm [.uint .imm 1, .mapIndef [(.imm, [0x61], .nint .w1 199)]]).wire.length ∧
    (Item.arr .imm [.uint .imm 1, .mapIndef [(.imm, [0x61], .nint .w1 199)]]).wire.take 5 =
      [0x82, 0x01, 0xbf, 0x61, 0x61] := by decide +kernel

example : (parse {} [0x82, 0x01, 0xbf, 0x61, 0x61]).2 = some .incomplete ∧
    (writeChunks {} [[0x82, 0x01], [0xbf, 0x61], [0x61]]).2 = some .incomplete := by decide +kernel


/-! ## the accepted language, exactly -/

theorem length_le_wireList (ts : List Item) : ts.length ≤ (wireList ts).length := by
  induction ts with
  | nil => simp
  | cons t ts ih =>
    have := wire_pos t
    simp only [wireList, List.length_append, List.length_cons]; omega

theorem length_le_wireMems (ms : List Mem) : ms.length ≤ (wireMems ms).length := by
  induction ms with
  | nil => simp
  | cons m ms ih =>
    obtain ⟨kw, k, v⟩ := m
    simp only [wireMems, List.length_append, List.length_cons, head_eq]; omega

/-- a stream of `okw` items through `Parser.feed` (as `feed_items`) -/
theorem feed_items_w (ts : List Item) (hts : okwList ts = true) (evs : List Ev) (fuel : Nat)
    (hf : ts.length + 1 ≤ fuel) :
    feed fuel (idle evs) (wireList ts) = (idle ((eventsList ts).reverse ++ evs), none) := by
  induction ts generalizing evs fuel with
  | nil =>
    obtain ⟨f, rfl⟩ : ∃ f, fuel = f + 1 := ⟨fuel - 1, by simp at hf; omega⟩
    simp [feed, wireList, eventsList]
  | cons t ts ih =>
    simp only [okwList, Bool.and_eq_true] at hts
    obtain ⟨f, rfl⟩ : ∃ f, fuel = f + 1 := ⟨fuel - 1, by simp at hf; omega⟩
    have hne : ¬ ((wireList (t :: ts)).length == 0) = true := by
      have := wireList_ne_nil_w (xs := ts) hts.1
      cases h : wireList (t :: ts) <;> simp_all
    simp only [feed, hne, if_false]
    simp only [wireList]
    rw [feedUntil_item_w t hts.1 evs (wireList ts) _ (fuelFor_ge t _)]
    simp only []
    rw [ih hts.2 _ f (by simp at hf; omega)]
    simp [eventsList]

/-- C05 for `okw`: every stream of well-formed items is accepted, with exactly the specified
events -/
theorem parse_supported_w (ts : List Item) (h : okwList ts = true) :
    parse {} (wireList ts) = (idle (eventsList ts).reverse, none) := by
  have hf := feed_items_w ts h [] (2 * (wireList ts).length + 2)
    (by have := length_le_wireList ts; omega)
  simp only [List.append_nil] at hf
  have hidle : (({} : P)) = idle [] := rfl
  simp only [parse, feedAll, hidle, hf]
  simp +decide [finalize, idle]

/-- THE ACCEPTED LANGUAGE: `cborl.Parse` reports success on a byte string if and only if it
is a concatenation of complete well-formed items.  (In particular input that ends in the
middle of an item is never reported as success.) -/
theorem parse_accepts_iff (b : Bytes) :
    (parse {} b).2 = none ↔ ∃ its : List Item, okwList its = true ∧ b = wireList its := by
  constructor
  · exact parse_none_is_items b
  · rintro ⟨its, h1, rfl⟩
    rw [parse_supported_w its h1]

/- for inputs shorter than 2^63 bytes `okw` is `Item.ok` -/
mutual
theorem okw_ok (t : Item) (h : okw t = true) (hl : t.wire.length < 9223372036854775808) : t.ok = true := by
  match t with
  | .uint w n => simpa [Item.ok, okw] using h
  | .nint w n => simpa [Item.ok, okw] using h
  | .bytes w bs => simpa [Item.ok, okw] using h
  | .text w bs => simpa [Item.ok, okw] using h
  | .arr w xs =>
    simp only [Item.ok, okw, Bool.and_eq_true] at h ⊢
    simp only [Item.wire, List.length_append] at hl
    exact ⟨h.1, okwList_ok xs h.2 (by omega)⟩
  | .arrIndef xs =>
    simp only [Item.ok, okw, Bool.and_eq_true, decide_eq_true_eq] at h ⊢
    simp only [Item.wire, List.length_append, List.length_cons] at hl
    have := length_le_wireList xs
    exact ⟨by omega, okwList_ok xs h (by omega)⟩
  | .map w ms =>
    simp only [Item.ok, okw, Bool.and_eq_true] at h ⊢
    simp only [Item.wire, List.length_append] at hl
    exact ⟨h.1, okwMems_ok ms h.2 (by omega)⟩
  | .mapIndef ms =>
    simp only [Item.ok, okw, Bool.and_eq_true, decide_eq_true_eq] at h ⊢
    simp only [Item.wire, List.length_append, List.length_cons] at hl
    have := length_le_wireMems ms
    exact ⟨by omega, okwMems_ok ms h (by omega)⟩
  | .fals | .tru | .null | .undef => rfl
  | .f32 b => rfl
  | .f64 b => rfl
theorem okwList_ok (xs : List Item) (h : okwList xs = true)
    (hl : (wireList xs).length < 9223372036854775808) : okList xs = true := by
  match xs with
  | [] => rfl
  | x :: xs' =>
    simp only [okList, okwList, Bool.and_eq_true] at h ⊢
    simp only [wireList, List.length_append] at hl
    exact ⟨okw_ok x h.1 (by omega), okwList_ok xs' h.2 (by omega)⟩
theorem okwMems_ok (ms : List Mem) (h : okwMems ms = true)
    (hl : (wireMems ms).length < 9223372036854775808) : okMems ms = true := by
  match ms with
  | [] => rfl
  | (kw, k, v) :: ms' =>
    simp only [okMems, okwMems, Bool.and_eq_true] at h ⊢
    simp only [wireMems, List.length_append] at hl
    exact ⟨⟨h.1.1, okw_ok v h.1.2 (by omega)⟩, okwMems_ok ms' h.2 (by omega)⟩
end

/-- the converse of C05 in terms of `Item.ok` itself, for every input a machine can hold -/
theorem parse_none_is_ok_items (b : Bytes) (hb : b.length < 9223372036854775808)
    (h : (parse {} b).2 = none) : ∃ its : List Item, okList its = true ∧ b = wireList its := by
  obtain ⟨its, h1, rfl⟩ := parse_none_is_items b h
  exact ⟨its, okwList_ok its h1 hb, rfl⟩

end SF.Cbor.Term
