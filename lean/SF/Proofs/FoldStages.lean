/-
  The staged sub-universes of property C12 (each a decidable predicate on types, by
  structural recursion) and: every stage lies inside the good types of `FoldUniv`.

    stage 1  bool, string, every integer width, float32/64
    stage 2  + slices, arrays, maps with key type `string`, pointers, `interface{}`
    stage 3  + structs whose fields are dropped (unexported, `-`, `omit`) or carry at most a
               tag NAME
    stage 4  + `omitempty` fields (interface-typed ones included: the lazy resolver)
    stage 5  + `inline` / `squash` fields (struct or map behind their pointers)
    stage 6  + named types without methods and without registered fold function, not
               recursive (map keys may be of a named string type)
-/
import SF.Proofs.FoldMain
namespace SF.FoldProofs
open SF SF.Gotype SF.Gotype.Fold SF.Gotype.Rules

/-- may this field occur at stage `k`? -/
def stageKind (k : Nat) (f : Field) : Bool :=
  match fieldKind f with
  | .drop | .plain _ => true
  | .omitEmpty _ => decide (4 ≤ k)
  | .inline => decide (5 ≤ k) && !isIfaceT (stripPtr f.typ).2
  | .conflict => false

def isStringT : GoType → Bool
  | .string => true
  | _ => false

mutual
/-- the types of stage `k` (`sn`: the names of the named types we are inside of) -/
def stageT (k : Nat) : List String → GoType → Bool
  | _, .bool | _, .string | _, .int _ | _, .float32 | _, .float64 => true
  | _, .iface => decide (2 ≤ k)
  | sn, .slice e | sn, .array _ e | sn, .ptr e => decide (2 ≤ k) && stageT k sn e
  | sn, .map key e => decide (2 ≤ k) && (isStringT key || decide (6 ≤ k) && stageT k sn key) && stageT k sn e
  | sn, .struct fs => decide (3 ≤ k) && stageFs k sn fs
  | sn, .named n m u =>
    decide (6 ≤ k) && !sn.contains n && noMethods m && !userFoldTypes.contains n && unnamedHead u &&
      stageT k (n :: sn) u
  | _, .ref _ | _, .chan _ | _, .other _ => false
def stageFs (k : Nat) : List String → List Field → Bool
  | _, [] => true
  | sn, f :: fs => stageF k sn f && stageFs k sn fs
def stageF (k : Nat) : List String → Field → Bool
  | sn, .mk n t tag a => stageT k sn t && stageKind k (.mk n t tag a)
end

theorem stageKind_good {k : Nat} {f : Field} (h : stageKind k f = true) : inlineIfaceF f = false := by
  unfold stageKind at h
  unfold inlineIfaceF
  cases hk : fieldKind f <;> simp_all

mutual
theorem stage_good (k : Nat) : ∀ (T : GoType) (sn : List String), stageT k sn T = true → goodT sn T = true
  | .bool, _, _ | .string, _, _ | .int _, _, _ | .float32, _, _ | .float64, _, _ | .iface, _, _ => rfl
  | .slice e, sn, h => by
    simp only [stageT, Bool.and_eq_true] at h; simp only [goodT]; exact stage_good k e sn h.2
  | .array _ e, sn, h => by
    simp only [stageT, Bool.and_eq_true] at h; simp only [goodT]; exact stage_good k e sn h.2
  | .ptr e, sn, h => by
    simp only [stageT, Bool.and_eq_true] at h; simp only [goodT]; exact stage_good k e sn h.2
  | .map key e, sn, h => by
    simp only [stageT, Bool.and_eq_true, Bool.or_eq_true] at h
    simp only [goodT, Bool.and_eq_true]
    refine ⟨?_, stage_good k e sn h.2⟩
    rcases h.1.2 with hs | hs
    · cases key <;> first | rfl | simp [isStringT] at hs
    · exact stage_good k key sn hs.2
  | .struct fs, sn, h => by
    simp only [stageT, Bool.and_eq_true] at h; simp only [goodT]; exact stage_goodFs k fs sn h.2
  | .named n m u, sn, h => by
    simp only [stageT, Bool.and_eq_true] at h
    simp only [goodT, Bool.and_eq_true]
    exact ⟨⟨⟨⟨h.1.1.1.1.2, h.1.1.1.2⟩, h.1.1.2⟩, h.1.2⟩, stage_good k u (n :: sn) h.2⟩
  | .ref _, _, h => by simp [stageT] at h
  | .chan _, _, h => by simp [stageT] at h
  | .other _, _, h => by simp [stageT] at h
theorem stage_goodFs (k : Nat) : ∀ (fs : List Field) (sn : List String), stageFs k sn fs = true →
    goodFs sn fs = true
  | [], _, _ => rfl
  | f :: fs, sn, h => by
    simp only [stageFs, Bool.and_eq_true] at h
    simp only [goodFs, Bool.and_eq_true]
    exact ⟨stage_goodF k f sn h.1, stage_goodFs k fs sn h.2⟩
theorem stage_goodF (k : Nat) : ∀ (f : Field) (sn : List String), stageF k sn f = true → goodF sn f = true
  | .mk n t tag a, sn, h => by
    simp only [stageF, Bool.and_eq_true] at h
    simp only [goodF, Bool.and_eq_true, Bool.not_eq_true']
    exact ⟨stage_good k t sn h.1, stageKind_good h.2⟩
end

end SF.FoldProofs
