/-
  C03 no-hang (UBJSON): stepObjectCount, stepObjectTyped, execStep, and THE LOOP NEVER SPINS.
-/
import SF.Proofs.UbjProgCnt
namespace SF.Ubjson.Parse
open SF SF.Ubjson
open StateType StateStep

theorem stepObjectCount_step (p : P) (b : Bytes) (hg : G p)
    (hgd : b ≠ [] ∨ pending p = true) (ht : p.state.current.type = stObjectCount) :
    Step p b (stepObjectCount p b) := by
  have hv := hg.val p.state.current (by simp [sl])
  simp only [validSt, ht, Bool.or_eq_true, beq_iff_eq] at hv
  unfold stepObjectCount
  split
  · rename_i hs
    have hs' : p.state.current.step = stStart := by simpa using hs
    have hb : b ≠ [] := by
      rcases hgd with h | h
      · exact h
      · simp [pending, ht, hs'] at h
    exact (stepLen_step p b _ hg (contOK_untyped (by simp [ht]) (by simp [ht])
      (by simp [St.withStep, validSt, ht])) hb).setDone false
  · rename_i hs
    have hs' : p.state.current.step ≠ stStart := by simpa using hs
    have hs4 : p.state.current.step = stWithLen ∨ p.state.current.step = stFieldName ∨
        p.state.current.step = stFieldNameLen ∨ p.state.current.step = stCont := by
      rcases hv with (((h | h) | h) | h) | h
      · exact absurd h hs'
      · exact Or.inl h
      · exact Or.inr (Or.inl h)
      · exact Or.inr (Or.inr (Or.inl h))
      · exact Or.inr (Or.inr (Or.inr h))
    obtain ⟨hstep, hdone⟩ := stepObjectCountedContent_step p b false hg hgd (by simpa using ht) hs4
    simp only []
    split
    · rename_i hc
      simp only [Bool.and_eq_true, Option.isNone_iff_eq_none] at hc
      obtain ⟨hg', _⟩ := hstep.ok hc.2
      obtain ⟨h1, h2, h3⟩ := hdone hc.1 hc.2
      refine Step.good (hg'.popLenState (by rw [h1, ht]; decide)
        (pastHdr_untyped (by rw [h1, ht]; decide) (by rw [h1, ht]; decide))) ?_
      exact (h3.congr (q := (popLenState (stepObjectCountedContent p b false).p).1) rfl rfl).adv _ _
    · exact hstep

theorem stepObjectTyped_step (p : P) (b : Bytes) (hg : G p)
    (hgd : b ≠ [] ∨ pending p = true) (ht : p.state.current.type = stObjectTyped) :
    Step p b (stepObjectTyped p b) := by
  have hv := hg.val p.state.current (by simp [sl])
  simp only [validSt, ht, Bool.or_eq_true, beq_iff_eq] at hv
  unfold stepObjectTyped
  simp only []
  split
  · rename_i hs
    simp only [Bool.or_eq_true, beq_iff_eq] at hs
    have hb : b ≠ [] := by
      rcases hgd with h | h
      · exact h
      · rcases hs with (hs | hs) | hs <;> simp [pending, ht, hs] at h
    exact (stepTypeLenHeader_step p b hg hb (Or.inr ht) (by rcases hs with (hs | hs) | hs <;> simp [hs])).setDone false
  · rename_i hs
    simp only [Bool.or_eq_true, beq_iff_eq, not_or] at hs
    have hs4 : p.state.current.step = stWithLen ∨ p.state.current.step = stFieldName ∨
        p.state.current.step = stFieldNameLen ∨ p.state.current.step = stCont := by
      rcases hv with (((((h | h) | h) | h) | h) | h) | h
      · exact absurd h hs.1.1
      · exact absurd h hs.1.2
      · exact absurd h hs.2
      · exact Or.inl h
      · exact Or.inr (Or.inl h)
      · exact Or.inr (Or.inr (Or.inl h))
      · exact Or.inr (Or.inr (Or.inr h))
    obtain ⟨hstep, hdone⟩ := stepObjectCountedContent_step p b true hg hgd (by simpa using ht) hs4
    split
    · rename_i hc
      simp only [Bool.and_eq_true, Option.isNone_iff_eq_none] at hc
      obtain ⟨hg', _⟩ := hstep.ok hc.2
      obtain ⟨h1, h2, h3⟩ := hdone hc.1 hc.2
      have hp : pastHdr (stepObjectCountedContent p b true).p.state.current = true := by
        simp only [pastHdr, h1, ht, Bool.and_eq_true, bne_iff_ne, ne_eq]
        exact ⟨by decide, h2⟩
      refine Step.good (hg'.popTyped (by rw [h1, ht]; decide) hp) ?_
      exact (h3.congr (q := (popLenState (popValueState (stepObjectCountedContent p b true).p)).1) rfl rfl).adv _ _
    · exact hstep

/-! ### execStep and the loop -/

theorem dispatch_step (p : P) (b : Bytes) (hg : G p) (hgd : b ≠ [] ∨ pending p = true) :
    Step p b (dispatch p b) := by
  have hb : pending p = false → b ≠ [] := by
    intro hp
    rcases hgd with h | h
    · exact h
    · rw [hp] at h; exact absurd h (by simp)
  unfold dispatch
  split
  · rename_i ht
    have := hg.val p.state.current (by simp [sl])
    simp [validSt, ht] at this
  · rename_i ht; exact stepValue_step p b hg (hb (by simp [pending, ht]))
  · rename_i ht; exact stepFixedValue_step p b hg hgd ht
  · rename_i ht; exact stepString_step p b hg (hb (by simp [pending, ht])) (Or.inr ht)
  · rename_i ht; exact stepString_step p b hg (hb (by simp [pending, ht])) (Or.inl ht)
  · rename_i ht; exact stepArrayInit_step p b hg (hb (by simp [pending, ht])) ht
  · rename_i ht; exact stepArrayDyn_step p b hg (hb (by simp [pending, ht])) ht
  · rename_i ht; exact stepArrayCount_step p b hg hgd ht
  · rename_i ht; exact stepArrayTyped_step p b hg hgd ht
  · rename_i ht; exact stepObjectInit_step p b hg (hb (by simp [pending, ht])) ht
  · rename_i ht; exact stepObjectDyn_step p b hg (hb (by simp [pending, ht])) ht
  · rename_i ht; exact stepObjectCount_step p b hg hgd ht
  · rename_i ht; exact stepObjectTyped_step p b hg hgd ht

theorem execStep_step (p : P) (b : Bytes) (hg : G p) (hgd : b ≠ [] ∨ pending p = true) :
    Step p b (execStep p b) := by
  have hs := dispatch_step p b hg hgd
  rw [execStep_eq]
  cases he : (dispatch p b).err with
  | none => simp only []; exact hs
  | some e =>
    simp only []
    exact Step.error e he (by intro hc; subst hc; exact hs.nof he)

/-- THE LOOP NEVER SPINS: if feedUntil runs out of fuel after `f` iterations, then (up to one
pending element push) every second iteration consumed input or delivered an event:
`f ≤ 2·(potential consumed) + 2·(events delivered) + 1`.  Also: the invariant is kept. -/
theorem feedUntil_progress (f : Nat) (p : P) (b : Bytes) (hg : G p) :
    ((feedUntil f p b).err = none → G (feedUntil f p b).p) ∧
    ((feedUntil f p b).err = some .outOfFuel →
      f + 2 * pot (feedUntil f p b).p (feedUntil f p b).rest + 2 * p.evs.length ≤
        tS p.state.current + 2 * pot p b + 2 * (feedUntil f p b).p.evs.length) := by
  induction f generalizing p b with
  | zero => simp [feedUntil]
  | succ f ih =>
    simp only [feedUntil]
    split
    · rename_i hgd
      have hgd' : b ≠ [] ∨ pending p = true := by cases b <;> simp_all
      have hs := execStep_step p b hg hgd'
      split
      · rename_i hd
        refine ⟨fun he => (hs.ok he).1, fun he => absurd he hs.nof⟩
      · rename_i hd
        have hn : (execStep p b).err = none := by
          simp only [Bool.or_eq_true, not_or, Bool.not_eq_true, Option.isSome_eq_false_iff,
            Option.isNone_iff_eq_none] at hd
          exact hd.2
        obtain ⟨hg', ha⟩ := hs.ok hn
        obtain ⟨ih1, ih2⟩ := ih (execStep p b).p (execStep p b).rest hg'
        refine ⟨ih1, fun he => ?_⟩
        have h1 := ih2 he
        have h2 := ha.ineq
        omega
    · exact ⟨fun _ => hg, fun he => by simp at he⟩

end SF.Ubjson.Parse
