/-
  C13 for `[]T` targets, `T` a primitive kind (bool, string, integers, floats): a well-formed array
  of scalars the specification assigns is accepted and the target holds the specified elements.
-/
import SF.Proofs.UnfTyVal
namespace SF.Unf
open SF SF.Unf.Spec

/-- the context `SetTarget` leaves for a target of type `[]T` (`T` of kind `k`) holding `v` -/
def sliceCtxK (tbl : TypeTable) (k : PK) (v : GoVal) (c : Ctx) : Ctx :=
  { c with
    target := v, env := tbl
    unfolder := ⟨.arrStart k, .arr k :: c.unfolder.current :: c.unfolder.stack⟩
    idx := c.idx.push 0
    ptr := c.ptr.push (some { root := .target }) }

theorem setTarget_sliceK (tbl : TypeTable) (e : GoType) (k : PK) (v : GoVal) (c : Ctx) (hk : PK.ofExact? e = some k) :
    setTarget tbl (.slice e) v c = .ok (sliceCtxK tbl k v c) := by
  cases e <;> simp [PK.ofExact?] at hk <;> subst hk <;> rfl

/-- … after `OnArrayStart` (which left `s0` in the target) and the elements `vs` -/
def tarrCtxK (tbl : TypeTable) (k : PK) (s0 : GoVal) (vs : List GoVal) (c : Ctx) : Ctx :=
  { c with
    target := slRun s0 vs, env := tbl
    unfolder := ⟨.arr k, c.unfolder.current :: c.unfolder.stack⟩
    idx := ⟨(vs.length : Int), c.idx.current :: c.idx.stack⟩
    ptr := ⟨some { root := .target }, c.ptr.current :: c.ptr.stack⟩ }

theorem arrStart_sliceK (f : Nat) (l : Int) (bt : Nat) (tbl : TypeTable) (k : PK) (v : GoVal) (c : Ctx)
    (hv : isSliceVal v) :
    stepEv (f + 1) (.arrStart l bt) (sliceCtxK tbl k v c) =
      .ok () (tarrCtxK tbl k (startSlice (zero tbl k.goType) l v) [] c) := by
  rw [tarrCtxK, slRun_nil _ (startSlice_isSlice _ _ _ hv)]
  cases v with
  | sliceNil et =>
    by_cases hl : l ≤ 0
    · have hl' : ¬ (0 < if l < 0 then 0 else l) := by split <;> omega
      simp [stepEv, onArrayStart, bind_def, currentU_eq, sliceCtxK, arrStartOnArrayStart, currentPtr, Stk.push,
        load, rootVal, hl', popU, Stk.pop, pure_def, startSlice, hl]
    · have hl' : 0 < l := by omega
      have hl2 : (if l < 0 then 0 else l) = l := by split <;> omega
      simp [stepEv, onArrayStart, bind_def, currentU_eq, sliceCtxK, arrStartOnArrayStart, currentPtr, Stk.push,
        load, rootVal, hl', hl2, popU, Stk.pop, pure_def, startSlice, hl, zeroM, store, setRoot]
  | slice et es h =>
    by_cases hl : (if l < 0 then 0 else l) < (es.length : Int)
    · simp [stepEv, onArrayStart, bind_def, currentU_eq, sliceCtxK, arrStartOnArrayStart, currentPtr, Stk.push,
        load, rootVal, hl, popU, Stk.pop, pure_def, startSlice, store, setRoot]
    · simp [stepEv, onArrayStart, bind_def, currentU_eq, sliceCtxK, arrStartOnArrayStart, currentPtr, Stk.push,
        load, rootVal, hl, popU, Stk.pop, pure_def, startSlice]
  | _ => exact absurd hv (by simp [isSliceVal])

theorem scalar_tarrCtxK (f : Nat) (tbl : TypeTable) (k : PK) (s0 : GoVal) (vs : List GoVal) (s : Sc) (w : GoVal)
    (c : Ctx) (hs : isSliceVal s0) (hc : k.conv s = some w) :
    onScalar (f + 1) s (tarrCtxK tbl k s0 vs c) = .ok () (tarrCtxK tbl k s0 (vs ++ [w]) c) := by
  have h1 : onScalar (f + 1) s (tarrCtxK tbl k s0 vs c) = arrAppend w (tarrCtxK tbl k s0 vs c) := by
    simp [onScalar, bind_def, currentU, tarrCtxK, hc, pukDeliver]
  rw [h1, arrAppend_target w _ (slRun s0 vs) rfl rfl (slRun_isSlice _ _ hs)]
  simp [tarrCtxK, appendTo_slRun]

theorem arrEnd_tarrCtxK (f : Nat) (tbl : TypeTable) (k : PK) (s0 : GoVal) (vs : List GoVal) (c : Ctx)
    (hidle : c.unfolder.stack = []) :
    stepEv (f + 1) .arrEnd (tarrCtxK tbl k s0 vs c) = .ok () { c with target := slRun s0 vs, env := tbl } := by
  have h1 : onArrayFinished (tarrCtxK tbl k s0 vs c) = .ok () { c with target := slRun s0 vs, env := tbl } := by
    simp [onArrayFinished, bind_def, currentU_eq, tarrCtxK, arrCleanup, popU, popIdx, popPtr, Stk.pop, pure_def]
  simp only [stepEv]
  rw [ctxArrFin_eq _ _ h1]
  simp [reportChildDone, bind_def, getCtx, hidle, pure_def]

/-- the elements as the kind converts them -/
def convList (k : PK) : List Sc → Option (List GoVal)
  | [] => some []
  | s :: r => match k.conv s, convList k r with
    | some w, some ws => some (w :: ws)
    | _, _ => none

theorem convList_length (k : PK) : ∀ (scs : List Sc) (ws : List GoVal), convList k scs = some ws → ws.length = scs.length := by
  intro scs
  induction scs with
  | nil => intro ws h; simp [convList] at h; subst h; rfl
  | cons s r ih =>
    intro ws h
    simp only [convList] at h
    split at h
    · rename_i w ws' _ hr
      injection h with h; subst h
      simp [ih ws' hr]
    · cases h

theorem scalars_tarrCtxK (f : Nat) (tbl : TypeTable) (k : PK) (s0 : GoVal) (c : Ctx) (hs : isSliceVal s0) :
    ∀ (scs : List Sc) (vs ws : List GoVal), convList k scs = some ws →
      run (f + 1) (scs.map UEv.scalar) (tarrCtxK tbl k s0 vs c) = .ok () (tarrCtxK tbl k s0 (vs ++ ws) c) := by
  intro scs
  induction scs with
  | nil => intro vs ws h; simp [convList] at h; subst h; simp [run]
  | cons s r ih =>
    intro vs ws h
    simp only [convList] at h
    split at h
    · rename_i w ws' hw hr
      injection h with h; subst h
      rw [List.map_cons, run_cons_ok (f + 1) (UEv.scalar s) _ _ _ (scalar_tarrCtxK f tbl k s0 vs s w c hs hw),
        ih (vs ++ [w]) ws' hr]
      simp
    · cases h

/-- a whole array of scalars into a `[]T` target -/
theorem run_array_into_sliceK (f : Nat) (tbl : TypeTable) (k : PK) (v0 : GoVal) (c : Ctx) (l : Int) (bt : Nat)
    (scs : List Sc) (ws : List GoVal) (hv : isSliceVal v0) (hidle : c.unfolder.stack = [])
    (hl : l ≤ (scs.length : Int)) (hws : convList k scs = some ws) :
    run (f + 1) (.arrStart l bt :: scs.map UEv.scalar ++ [.arrEnd]) (sliceCtxK tbl k v0 c) =
      .ok () { c with target := sliceTargetFin v0 ws, env := tbl } := by
  have hs0 := startSlice_isSlice (zero tbl k.goType) l v0 hv
  rw [List.cons_append, run_cons_ok _ _ _ _ _ (arrStart_sliceK f l bt tbl k v0 c hv),
    run_ok_then _ _ _ _ _ (scalars_tarrCtxK f tbl k _ c hs0 scs [] ws hws), run_single,
    arrEnd_tarrCtxK f tbl k _ _ c hidle, List.nil_append,
    slRun_start _ _ _ _ (by rw [convList_length k scs ws hws]; exact hl)]

end SF.Unf
