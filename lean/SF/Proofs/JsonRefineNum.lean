/-
  C04 for the JSON parser mirror, NUMBERS: the specification `numEv` of the event a number
  token denotes, and `reportNumber` against it.

  * integer literals `-? DIGIT+` (no `.`, `e`, `E`): the exact value — OnInt64 for values in
    [-2^63, 2^63), OnUint64 for [2^63, 2^64); outside that range there is no event (the
    parser reports numberOverflow, it never wraps);
  * tokens containing `.`, `e` or `E`: OnFloat64 of what the mirror's strconv model
    (`SF.Json.Float.parseFloat`, tied to Go by correspondence) yields.

  For RFC 8259 integer literals the value is the one the reference lexer `Cst.lexNumber`
  reads (`numEv_ref`).

  (`digitsVal` … `int_literal_exact` are those of SF/Props/C04.lean, restated here so that
  the property file can import this one.)
-/
import SF.Json.Parse
import SF.Json.Cst
import SF.Proofs.JsonBasic
import SF.Proofs.JsonEncInt
set_option linter.unusedSimpArgs false
namespace SF.Json.ParseP
open SF SF.Json SF.Json.Parse SF.Json.Float

/-- value of a digit string -/
def digitsVal (ds : Bytes) : Nat := ds.foldl (fun acc c => acc * 10 + (c.toNat - 48)) 0

theorem digit_val (c : UInt8) (h : Parse.isDigit c = true) :
    (c - ch '0').toNat = c.toNat - 48 ∧ c.toNat - 48 ≤ 9 ∧ 48 ≤ c.toNat := by
  have h0 : ch '0' = 48 := by decide
  have h9 : ch '9' = 57 := by decide
  simp only [Parse.isDigit, Bool.and_eq_true, decide_eq_true_eq] at h
  have h1 : 48 ≤ c.toNat := by
    have := UInt8.le_iff_toNat_le.mp h.1; rw [h0] at this; simpa using this
  have h2 : c.toNat ≤ 57 := by
    have := UInt8.le_iff_toNat_le.mp h.2; rw [h9] at this; simpa using this
  refine ⟨?_, by omega, h1⟩
  rw [h0, UInt8.toNat_sub_of_le _ _ (by rw [UInt8.le_iff_toNat_le]; simpa using h1)]
  rfl

theorem foldl_shift (ds : Bytes) (n : Nat) :
    ds.foldl (fun acc c => acc * 10 + (c.toNat - 48)) n = n * 10 ^ ds.length + digitsVal ds := by
  induction ds generalizing n with
  | nil => simp [digitsVal]
  | cons c ds ih =>
    simp only [List.foldl_cons, List.length_cons, digitsVal]
    rw [ih, ih (0 * 10 + (c.toNat - 48)), Nat.pow_succ]
    generalize 10 ^ ds.length = P
    generalize digitsVal ds = r
    generalize c.toNat - 48 = d
    rw [Nat.add_mul, Nat.zero_mul, Nat.zero_add, Nat.mul_assoc n 10 P, Nat.mul_comm 10 P]
    omega

theorem digitsVal_cons (c : UInt8) (ds : Bytes) :
    digitsVal (c :: ds) = (c.toNat - 48) * 10 ^ ds.length + digitsVal ds := by
  have := foldl_shift ds (0 * 10 + (c.toNat - 48))
  simp only [digitsVal, List.foldl_cons] at this ⊢
  rw [this]; simp

theorem go_exact (ds : Bytes) (hd : ds.all Parse.isDigit = true) (n : Nat) (hn : n ≤ maxUint64) :
    parseUint.go (maxUint64 / 10 + 1) n ds =
      (if n * 10 ^ ds.length + digitsVal ds ≤ maxUint64 then .ok (n * 10 ^ ds.length + digitsVal ds)
       else .error .numberOverflow) := by
  induction ds generalizing n with
  | nil => simp [parseUint.go, digitsVal, hn]
  | cons c rest ih =>
    simp only [List.all_cons, Bool.and_eq_true] at hd
    obtain ⟨hv, hle, _⟩ := digit_val c hd.1
    have hP : 1 ≤ 10 ^ rest.length := Nat.one_le_pow _ _ (by omega)
    simp only [parseUint.go, hd.1, Bool.not_true, Bool.false_eq_true, if_false, List.length_cons, hv]
    rw [digitsVal_cons, Nat.pow_succ]
    generalize hPdef : 10 ^ rest.length = P at *
    generalize digitsVal rest = r at *
    generalize c.toNat - 48 = d at *
    have key : n * (P * 10) + (d * P + r) = (n * 10 + d) * P + r := by
      rw [Nat.add_mul, Nat.mul_assoc n 10 P, Nat.mul_comm 10 P]; omega
    rw [key]
    by_cases hcut : n ≥ maxUint64 / 10 + 1
    · have : ¬ ((n * 10 + d) * P + r ≤ maxUint64) := by
        have h1 : (n * 10 + d) * P ≥ (n * 10 + d) * 1 := Nat.mul_le_mul_left _ hP
        simp only [maxUint64] at hcut ⊢
        omega
      simp [hcut, this]
    · simp only [hcut, if_false]
      by_cases hov : n * 10 + d > maxUint64
      · have : ¬ ((n * 10 + d) * P + r ≤ maxUint64) := by
          have h1 : (n * 10 + d) * P ≥ (n * 10 + d) * 1 := Nat.mul_le_mul_left _ hP
          omega
        simp [hov, this]
      · simp only [hov, if_false]
        rw [ih hd.2 (n * 10 + d) (by omega)]

theorem parseUint_exact (ds : Bytes) (hne : ds ≠ []) (hd : ds.all Parse.isDigit = true) :
    parseUint ds = (if digitsVal ds ≤ maxUint64 then .ok (digitsVal ds) else .error .numberOverflow) := by
  unfold parseUint
  have : ds.isEmpty = false := by cases ds <;> simp_all
  simp only [this, Bool.false_eq_true, if_false]
  have := go_exact ds hd 0 (by simp [maxUint64])
  simpa using this

theorem int_literal_exact (p : P) (neg : Bool) (ds : Bytes) (hne : ds ≠ []) (hd : ds.all Parse.isDigit = true) :
    reportNumber p ((if neg then [ch '-'] else []) ++ ds) false =
      (if neg then
         (if digitsVal ds ≤ 9223372036854775808 then visit p (.num .i64 (-(digitsVal ds : Int)))
          else (p, some .numberOverflow))
       else if digitsVal ds ≤ 9223372036854775807 then visit p (.num .i64 (digitsVal ds))
       else if digitsVal ds ≤ 18446744073709551615 then visit p (.num .u64 (digitsVal ds))
       else (p, some .numberOverflow)) := by
  have hminus : (ch '-' == ch '+') = false := by decide
  cases ds with
  | nil => exact absurd rfl hne
  | cons c rest =>
    have hc : Parse.isDigit c = true := by simp only [List.all_cons, Bool.and_eq_true] at hd; exact hd.1
    have hcp : (c == ch '+') = false := by
      have := (digit_val c hc).2.2
      have h43 : (ch '+').toNat = 43 := by decide
      cases hcc : c == ch '+' with
      | false => rfl
      | true => have := congrArg UInt8.toNat (beq_iff_eq.mp hcc); omega
    have hcm : (c == ch '-') = false := by
      have := (digit_val c hc).2.2
      have h45 : (ch '-').toNat = 45 := by decide
      cases hcc : c == ch '-' with
      | false => rfl
      | true => have := congrArg UInt8.toNat (beq_iff_eq.mp hcc); omega
    have hpu := parseUint_exact (c :: rest) (by simp) hd
    cases neg with
    | true =>
      simp only [if_true, List.cons_append, List.nil_append, reportNumber, Bool.false_eq_true, if_false, parseInt,
        hminus, beq_self_eq_true, hpu, maxUint64, maxInt64]
      by_cases h1 : digitsVal (c :: rest) ≤ 9223372036854775808
      · have h2 : digitsVal (c :: rest) ≤ 18446744073709551615 := by omega
        have h3 : ¬ (digitsVal (c :: rest) > 9223372036854775807 + 1) := by omega
        simp [h1, h2, h3]
      · by_cases h2 : digitsVal (c :: rest) ≤ 18446744073709551615
        · have h3 : digitsVal (c :: rest) > 9223372036854775807 + 1 := by omega
          simp [h1, h2, h3]
        · simp [h1, h2]
    | false =>
      simp only [Bool.false_eq_true, if_false, List.nil_append, reportNumber, parseInt, hcp, hcm, hpu,
        maxUint64, maxInt64, Bool.false_and]
      by_cases h2 : digitsVal (c :: rest) ≤ 18446744073709551615
      · by_cases h1 : digitsVal (c :: rest) ≤ 9223372036854775807
        · have : ¬ (digitsVal (c :: rest) > 9223372036854775807) := by omega
          simp [h1, h2, this]
        · have : digitsVal (c :: rest) > 9223372036854775807 := by omega
          simp [h1, h2, this]
      · have h1 : ¬ (digitsVal (c :: rest) ≤ 9223372036854775807) := by omega
        simp [h1, h2]

/-! ## the specification -/

/-- does the token contain `.`, `e` or `E` (the parser's `isDouble`) -/
def isDblTok (tok : Bytes) : Bool := tok.any (fun c => c == ch '.' || c == ch 'e' || c == ch 'E')

/-- the event of the integer `±n` -/
def intEv (neg : Bool) (n : Nat) : Option Ev :=
  if neg then (if n ≤ 9223372036854775808 then some (.num .i64 (-(n : Int))) else none)
  else if n ≤ 9223372036854775807 then some (.num .i64 n)
  else if n ≤ 18446744073709551615 then some (.num .u64 n)
  else none

/-- sign and digits of an integer literal `-? DIGIT+` -/
def intParts (tok : Bytes) : Option (Bool × Bytes) :=
  let (neg, ds) : Bool × Bytes := match tok with
    | c :: tl => if c == ch '-' then (true, tl) else (false, tok)
    | [] => (false, [])
  if !ds.isEmpty && ds.all Parse.isDigit then some (neg, ds) else none

/-- SPECIFICATION: the event a number token denotes -/
def numEv (tok : Bytes) : Option Ev :=
  if isDblTok tok then
    match parseFloat tok with
    | .ok bits => some (.f64 bits)
    | _ => none
  else
    match intParts tok with
    | some (neg, ds) => intEv neg (digitsVal ds)
    | none => none

theorem intParts_some (tok : Bytes) (neg : Bool) (ds : Bytes) (h : intParts tok = some (neg, ds)) :
    tok = (if neg then [ch '-'] else []) ++ ds ∧ ds ≠ [] ∧ ds.all Parse.isDigit = true := by
  unfold intParts at h
  cases tok with
  | nil => simp at h
  | cons c tl =>
    simp only at h
    by_cases hc : (c == ch '-') = true
    · simp only [hc, if_true] at h
      split at h
      · rename_i hh
        simp only [Option.some.injEq, Prod.mk.injEq] at h
        obtain ⟨rfl, rfl⟩ := h
        simp only [Bool.and_eq_true, Bool.not_eq_true', List.isEmpty_eq_false_iff] at hh
        have : c = ch '-' := by simpa using hc
        subst this
        exact ⟨by simp, hh.1, hh.2⟩
      · simp at h
    · simp only [hc, Bool.false_eq_true, if_false] at h
      split at h
      · rename_i hh
        simp only [Option.some.injEq, Prod.mk.injEq] at h
        obtain ⟨rfl, rfl⟩ := h
        simp only [Bool.and_eq_true, Bool.not_eq_true', List.isEmpty_eq_false_iff] at hh
        exact ⟨by simp, hh.1, hh.2⟩
      · simp at h

/-- NUMBERS: on every token that denotes an event, `reportNumber` (called with the `isDouble`
flag the scan computes) is exactly the visitor call for that event -/
theorem reportNumber_numEv (p : P) (tok : Bytes) (ev : Ev) (h : numEv tok = some ev) :
    reportNumber p tok (isDblTok tok) = visit p ev := by
  unfold numEv at h
  cases hd : isDblTok tok with
  | true =>
    simp only [hd, if_true] at h
    simp only [reportNumber, if_true]
    cases hp : parseFloat tok with
    | ok bits => rw [hp] at h; simp only [Option.some.injEq] at h; subst h; rfl
    | syntaxErr => rw [hp] at h; simp at h
    | rangeErr b => rw [hp] at h; simp at h
    | unmodelled => rw [hp] at h; simp at h
  | false =>
    simp only [hd, Bool.false_eq_true, if_false] at h
    cases hi : intParts tok with
    | none => rw [hi] at h; simp at h
    | some pr =>
      obtain ⟨neg, ds⟩ := pr
      rw [hi] at h
      simp only at h
      obtain ⟨rfl, hne, hdig⟩ := intParts_some tok neg ds hi
      rw [int_literal_exact p neg ds hne hdig]
      unfold intEv at h
      cases neg with
      | true =>
        simp only [if_true] at h ⊢
        split at h
        · rename_i h1; simp only [Option.some.injEq] at h; subst h; simp [h1]
        · simp at h
      | false =>
        simp only [Bool.false_eq_true, if_false] at h ⊢
        split at h
        · rename_i h1; simp only [Option.some.injEq] at h; subst h; simp [h1]
        · rename_i h1
          split at h
          · rename_i h2; simp only [Option.some.injEq] at h; subst h; simp [h1, h2]
          · simp at h

/-! ## the `isDouble` flag of the scan -/

theorem scan_dbl_all (z : Bytes) (d : Bool) (h : z.all (fun x => !isStopChar x) = true) :
    (scanNumber z d).2.2.2 = (d || isDblTok z) := by
  induction z generalizing d with
  | nil => simp [scanNumber, isDblTok]
  | cons c z ih =>
    simp only [List.all_cons, Bool.and_eq_true, Bool.not_eq_true'] at h
    simp only [scanNumber, h.1, Bool.false_eq_true, if_false]
    rw [ih _ h.2]
    simp only [isDblTok, List.any_cons, Bool.or_assoc]

theorem scan_dbl_stop (tok : Bytes) (c : UInt8) (t : Bytes) (d : Bool)
    (h : tok.all (fun x => !isStopChar x) = true) (hc : isStopChar c = true) :
    (scanNumber (tok ++ c :: t) d).2.2.2 = (d || isDblTok tok) := by
  induction tok generalizing d with
  | nil => simp [scanNumber, hc, isDblTok]
  | cons x tok ih =>
    simp only [List.all_cons, Bool.and_eq_true, Bool.not_eq_true'] at h
    simp only [List.cons_append, scanNumber, h.1, Bool.false_eq_true, if_false]
    rw [ih _ h.2]
    simp only [isDblTok, List.any_cons, Bool.or_assoc]

/-! ## the reference lexer reads RFC 8259 integer literals with the same value -/

theorem isDigit_agree : ∀ c : UInt8, Cst.isDigit c = Parse.isDigit c ∧
    (Cst.isDigit c = true → (c == ch '.' || c == ch 'e' || c == ch 'E') = false ∧ (c == ch '-') = false) := by
  apply forall_uint8; decide +kernel

theorem all_digit_agree (ds : Bytes) (h : ds.all Cst.isDigit = true) :
    ds.all Parse.isDigit = true ∧ isDblTok ds = false := by
  induction ds with
  | nil => simp [isDblTok]
  | cons c ds ih =>
    simp only [List.all_cons, Bool.and_eq_true] at h
    obtain ⟨k1, k2⟩ := ih h.2
    obtain ⟨a1, a2⟩ := isDigit_agree c
    simp only [List.all_cons, ← a1, h.1, k1, Bool.and_self, true_and]
    simp only [isDblTok, List.any_cons, (a2 h.1).1, Bool.false_or]
    exact k2

/-- for every RFC 8259 integer literal `-? ( 0 / [1-9] DIGIT* )` that denotes an event, the
event carries the integer the reference lexer `Cst.lexNumber` reads — whatever follows the
literal (end of text, white space, `,` `]` `}` `:`) -/
theorem numEv_ref (tok : Bytes) (hrfc : Enc.isJsonInt tok = true) (ev : Ev) (h : numEv tok = some ev) :
    ∃ k v, ev = .num k v ∧ ∀ rest, Enc.EndOk rest → Cst.lexNumber (tok ++ rest) = .ok (.int v, false, rest) := by
  -- shape of the literal
  obtain ⟨neg, d, ds', htok, hdig, hz⟩ : ∃ (neg : Bool) (d : UInt8) (ds' : Bytes),
      tok = (if neg then [0x2D] else []) ++ (d :: ds') ∧ (d :: ds').all Cst.isDigit = true ∧
      (d = 0x30 → ds' = []) := by
    cases tok with
    | nil => simp [Enc.isJsonInt] at hrfc
    | cons c tl =>
      simp only [Enc.isJsonInt] at hrfc
      by_cases hc : (c == 0x2D) = true
      · simp only [hc, if_true] at hrfc
        have : c = 0x2D := by simpa using hc
        subst this
        cases tl with
        | nil => simp [Enc.isNatLit] at hrfc
        | cons d ds' =>
          simp only [Enc.isNatLit, Bool.and_eq_true, Bool.or_eq_true, bne_iff_ne, ne_eq,
            List.isEmpty_iff] at hrfc
          exact ⟨true, d, ds', by simp, hrfc.1, fun h0 => by rcases hrfc.2 with h | h; exact absurd h0 h; exact h⟩
      · simp only [hc, Bool.false_eq_true, if_false] at hrfc
        simp only [Enc.isNatLit, Bool.and_eq_true, Bool.or_eq_true, bne_iff_ne, ne_eq,
          List.isEmpty_iff] at hrfc
        exact ⟨false, c, tl, by simp, hrfc.1, fun h0 => by rcases hrfc.2 with h | h; exact absurd h0 h; exact h⟩
  obtain ⟨hd2, hnd⟩ := all_digit_agree _ hdig
  have hminus : ch '-' = 0x2D := by decide
  -- the parser's reading
  have hdbl : isDblTok tok = false := by
    rw [htok]
    cases neg with
    | true => simp only [if_true, isDblTok, List.cons_append, List.nil_append, List.any_cons] at hnd ⊢
              rw [hnd]; decide
    | false => simpa using hnd
  have hparts : intParts tok = some (neg, d :: ds') := by
    rw [htok]
    cases neg with
    | true =>
      simp only [if_true, List.cons_append, List.nil_append, intParts, ← hminus, beq_self_eq_true, hd2,
        List.isEmpty_cons, Bool.not_false, Bool.and_self]
    | false =>
      have hdm : (d == ch '-') = false := by
        simp only [List.all_cons, Bool.and_eq_true] at hdig
        exact ((isDigit_agree d).2 hdig.1).2
      simp only [Bool.false_eq_true, if_false, List.nil_append, intParts, hdm, hd2, List.isEmpty_cons,
        Bool.not_false, Bool.and_self, if_true]
  unfold numEv at h
  simp only [hdbl, Bool.false_eq_true, if_false, hparts] at h
  have hval : Cst.natOfDigits (d :: ds') = digitsVal (d :: ds') := rfl
  have hlex : ∀ rest, Enc.EndOk rest →
      Cst.lexNumber (tok ++ rest) = Cst.lexNumber.fin neg (d :: ds') [] 0 false false rest := by
    intro rest hr
    rw [htok]
    exact Enc.lexNumber_digits neg (d :: ds') rest d ds' rfl hdig hz hr
  unfold intEv at h
  cases neg with
  | true =>
    simp only [if_true] at h
    split at h
    · rename_i h1
      simp only [Option.some.injEq] at h
      refine ⟨_, _, h.symm, fun rest hr => ?_⟩
      rw [hlex rest hr]
      simp [Cst.lexNumber.fin, hval, h1]
    · simp at h
  | false =>
    simp only [Bool.false_eq_true, if_false] at h
    split at h
    · rename_i h1
      simp only [Option.some.injEq] at h
      refine ⟨_, _, h.symm, fun rest hr => ?_⟩
      rw [hlex rest hr]
      have : digitsVal (d :: ds') ≤ 18446744073709551615 := by omega
      simp [Cst.lexNumber.fin, hval, this]
    · split at h
      · rename_i h1 h2
        simp only [Option.some.injEq] at h
        refine ⟨_, _, h.symm, fun rest hr => ?_⟩
        rw [hlex rest hr]
        simp [Cst.lexNumber.fin, hval, h2]
      · simp at h

/-- non-vacuity: the boundary literals and a float -/
example : numEv (strBytes "18446744073709551615") = some (.num .u64 18446744073709551615) ∧
    numEv (strBytes "-9223372036854775808") = some (.num .i64 (-9223372036854775808)) ∧
    numEv (strBytes "9223372036854775807") = some (.num .i64 9223372036854775807) ∧
    numEv (strBytes "18446744073709551616") = none ∧ numEv (strBytes "-9223372036854775809") = none ∧
    numEv (strBytes "-0") = some (.num .i64 0) ∧ numEv (strBytes "1x") = none ∧ numEv (strBytes "-") = none ∧
    Enc.isJsonInt (strBytes "-9223372036854775808") = true := by
  decide +kernel

end SF.Json.ParseP
