/-
  C11, direct path: the hypotheses `hcomp` / `hFM` / `htr` / `hz` / `hv0` of `fold_unfold_struct_omit` DERIVED from the
  Unfold mirror's compiler (`Unf.lookupReflUnfolder` → `fieldUnfolders`) for every struct type in the scope of the
  theorem (fields dropped / plain / omitempty of scalar type) whose tags are trimmed alike by the two mirrors
  (`TrimAgree`, see FuIdStruct2Tags.lean) and that has at most 250 fields (fuel of the mirror: `typeFuel` = 256, one
  unit per field).
-/
import SF.Proofs.FuIdStruct2Tags
import SF.Proofs.FuIdStruct2Agree
namespace SF.FuId
open SF SF.Gotype SF.Gotype.Fold SF.FoldProofs
open SF.Unf (newUnfolder typeFuel)

/-! ## one step of `fieldUnfolders` -/

theorem fu_nil (tbl : Unf.TypeTable) (fuel : Nat) (open_ : List String) (reg : Unf.Reg) (i : Nat) (acc : Unf.Fields) :
    Unf.fieldUnfolders tbl (fuel + 1) open_ reg [] i acc = .ok (acc, reg) := by
  rw [Unf.fieldUnfolders]

theorem fu_skip (tbl : Unf.TypeTable) (fuel : Nat) (open_ : List String) (reg : Unf.Reg) (name tag : String)
    (t : Unf.GoType) (rest : List (String × String × Unf.GoType)) (i : Nat) (acc : Unf.Fields)
    (h : Unf.startsUpper name = false ∨ (Unf.parseTags tag).2.omitF = true) :
    Unf.fieldUnfolders tbl (fuel + 1) open_ reg ((name, tag, t) :: rest) i acc =
      Unf.fieldUnfolders tbl fuel open_ reg rest (i + 1) acc := by
  rw [Unf.fieldUnfolders]
  by_cases hu : Unf.startsUpper name = true
  · rcases h with h | h
    · rw [h] at hu; cases hu
    · simp only [hu, Bool.not_true, Bool.false_eq_true, if_false, h, if_true]
  · simp only [hu, Bool.not_false, if_true]

theorem fu_mem (tbl : Unf.TypeTable) (fuel : Nat) (open_ : List String) (reg : Unf.Reg) (name tag : String)
    (t : Unf.GoType) (rest : List (String × String × Unf.GoType)) (i : Nat) (acc : Unf.Fields) (pu : Unf.PUK)
    (h1 : Unf.startsUpper name = true) (h2 : (Unf.parseTags tag).2.omitF = false)
    (h3 : (Unf.parseTags tag).2.squash = false)
    (h4 : acc.any (·.1 == Unf.strBytes (if (Unf.parseTags tag).1 != "" then (Unf.parseTags tag).1
            else Unf.toLowerAscii name)) = false)
    (h5 : Unf.lookupGoPtrUnfolder tbl t = some pu) :
    Unf.fieldUnfolders tbl (fuel + 1) open_ reg ((name, tag, t) :: rest) i acc =
      Unf.fieldUnfolders tbl fuel open_ reg rest (i + 1)
        (acc ++ [(Unf.strBytes (if (Unf.parseTags tag).1 != "" then (Unf.parseTags tag).1
            else Unf.toLowerAscii name), [i], .lifted pu)]) := by
  rw [Unf.fieldUnfolders]
  simp only [h1, Bool.not_true, Bool.false_eq_true, if_false, h2, h3, h4, h5]

/-! ## the field facts, from `fieldKind` -/

theorem fk_plain_name {f : Field} {nm : Bytes} (h : fieldKind f = .plain nm) : nm = fieldName f := by
  unfold fieldKind at h
  simp only [] at h
  repeat' split at h
  all_goals first | (cases h; done) | (injection h with h; exact h.symm)

theorem fk_omit_name {f : Field} {nm : Bytes} (h : fieldKind f = .omitEmpty nm) : nm = fieldName f := by
  unfold fieldKind at h
  simp only [] at h
  repeat' split at h
  all_goals first | (cases h; done) | (injection h with h; exact h.symm)

theorem startsUpper_eq (f : Field) : Unf.startsUpper f.name = f.exported := rfl

/-- the member name the Unfold compiler computes -/
theorem unf_name (f : Field) (ht : TrimAgree f.tag) (hd : (Rules.parseTag f.tag).dash = false) :
    Unf.strBytes (if (Unf.parseTags f.tag).1 != "" then (Unf.parseTags f.tag).1 else Unf.toLowerAscii f.name) =
      fieldName f := by
  obtain ⟨_, q⟩ := unf_tag_rules f.tag ht
  obtain ⟨q1, _, _⟩ := q hd
  rw [q1]
  unfold fieldName
  simp only []
  split <;> rfl

/-- a kept field: exported, not `-`, not `omit`, not inlined -/
theorem kept_facts {f : Field} (ht : TrimAgree f.tag)
    (h1 : (!f.exported || (Rules.parseTag f.tag).dash || (Rules.parseTag f.tag).omit') = false)
    (h2 : (Rules.parseTag f.tag).inline = false) :
    Unf.startsUpper f.name = true ∧ (Unf.parseTags f.tag).2.omitF = false ∧ (Unf.parseTags f.tag).2.squash = false ∧
      (Rules.parseTag f.tag).dash = false := by
  obtain ⟨p, q⟩ := unf_tag_rules f.tag ht
  have he : f.exported = true := by
    cases hx : f.exported <;> simp [hx] at h1 ⊢
  have hd : (Rules.parseTag f.tag).dash = false := by
    cases hx : (Rules.parseTag f.tag).dash <;> simp [hx] at h1 ⊢
  have ho : (Rules.parseTag f.tag).omit' = false := by
    cases hx : (Rules.parseTag f.tag).omit' <;> simp [hx] at h1 ⊢
  obtain ⟨_, q2, _⟩ := q hd
  exact ⟨by rw [startsUpper_eq, he], by rw [p, hd, ho]; rfl, by rw [q2, h2], hd⟩

theorem dropped_facts {f : Field} (ht : TrimAgree f.tag)
    (h1 : (!f.exported || (Rules.parseTag f.tag).dash || (Rules.parseTag f.tag).omit') = true) :
    Unf.startsUpper f.name = false ∨ (Unf.parseTags f.tag).2.omitF = true := by
  obtain ⟨p, _⟩ := unf_tag_rules f.tag ht
  rw [startsUpper_eq, p]
  cases hx : f.exported
  · left; rfl
  · right
    simpa [hx] using h1

theorem lookupPtr_prim (tbl : Unf.TypeTable) (p : Prim) :
    Unf.lookupGoPtrUnfolder tbl (uPrimTy p) = some (.prim (pkOf p)) := by
  unfold Unf.lookupGoPtrUnfolder
  rw [un_uPrimTy]
  have := ofExact_uPrimTy p
  cases p <;> simp only [uPrimTy] at this ⊢ <;> simp only [this, Option.map_some]

/-! ## the compiled table -/

def ufsOf : List Field → List FD2 → List (String × String × Unf.GoType)
  | f :: fs, d :: ds => (f.name, f.tag, uPrimTy d.prim) :: ufsOf fs ds
  | _, _ => []

def tableOf : List FD2 → Nat → Unf.Fields
  | [], _ => []
  | .drop _ :: r, i => tableOf r (i + 1)
  | .mem nm p :: r, i => (nm, [i], .lifted (.prim (pkOf p))) :: tableOf r (i + 1)
  | .oe nm p :: r, i => (nm, [i], .lifted (.prim (pkOf p))) :: tableOf r (i + 1)

theorem any_false_of_not_mem (acc : Unf.Fields) (nm : Bytes) (h : nm ∉ acc.map (·.1)) :
    acc.any (·.1 == nm) = false := by
  cases hx : acc.any (·.1 == nm)
  · rfl
  · exfalso
    obtain ⟨x, hm, he⟩ := List.any_eq_true.mp hx
    exact h (List.mem_map.mpr ⟨x, hm, by simpa using he⟩)

theorem fu_fields (tbl : Unf.TypeTable) (open_ : List String) : ∀ (fs : List Field) (ds : List FD2), Desc2 fs ds →
    (∀ f ∈ fs, TrimAgree f.tag) → ∀ (fuel i : Nat) (acc : Unf.Fields) (reg : Unf.Reg), fs.length + 1 ≤ fuel →
    (acc.map (·.1) ++ (sfOf2 ds i).map (·.1)).Nodup →
    Unf.fieldUnfolders tbl fuel open_ reg (ufsOf fs ds) i acc = .ok (acc ++ tableOf ds i, reg) := by
  intro fs ds h
  induction h with
  | nil =>
    intro _ fuel i acc reg hf _
    obtain ⟨fuel, rfl⟩ : ∃ k, fuel = k + 1 := ⟨fuel - 1, by simp at hf; omega⟩
    simp [ufsOf, tableOf, fu_nil]
  | @cons f d fs ds hf _ ih =>
    intro htag fuel i acc reg hfu hnd
    obtain ⟨fuel, rfl⟩ : ∃ k, fuel = k + 1 := ⟨fuel - 1, by simp at hfu; omega⟩
    have ht := htag f (by simp)
    have htag' : ∀ g ∈ fs, TrimAgree g.tag := fun g hg => htag g (by simp [hg])
    have hfu' : fs.length + 1 ≤ fuel := by simp at hfu; omega
    cases d with
    | drop p =>
      obtain ⟨hk, _⟩ := hf
      simp only [ufsOf, tableOf]
      rw [fu_skip tbl fuel open_ reg _ _ _ _ i acc (dropped_facts ht (fk_drop hk))]
      exact ih htag' fuel (i + 1) acc reg hfu' (by simpa [sfOf2] using hnd)
    | mem nm p =>
      obtain ⟨hk, _⟩ := hf
      obtain ⟨h1, h2, _⟩ := fk_plain hk
      obtain ⟨a, b, c, hd⟩ := kept_facts ht h1 h2
      have hn := unf_name f ht hd
      rw [← fk_plain_name hk] at hn
      have hnot : nm ∉ acc.map (·.1) := by
        intro hm
        simp only [sfOf2, List.map_cons] at hnd
        exact (List.nodup_append.mp hnd).2.2 nm hm nm (by simp) rfl
      simp only [ufsOf, tableOf, FD2.prim]
      rw [fu_mem tbl fuel open_ reg _ _ _ _ i acc _ a b c (by rw [hn]; exact any_false_of_not_mem acc nm hnot)
        (lookupPtr_prim tbl p), hn]
      rw [ih htag' fuel (i + 1) _ reg hfu' (by
        simp only [sfOf2, List.map_cons] at hnd
        simpa [List.map_append, List.append_assoc] using hnd)]
      simp
    | oe nm p =>
      obtain ⟨hk, _⟩ := hf
      obtain ⟨h1, h2, _⟩ := fk_omitEmpty hk
      obtain ⟨a, b, c, hd⟩ := kept_facts ht h1 h2
      have hn := unf_name f ht hd
      rw [← fk_omit_name hk] at hn
      have hnot : nm ∉ acc.map (·.1) := by
        intro hm
        simp only [sfOf2, List.map_cons] at hnd
        exact (List.nodup_append.mp hnd).2.2 nm hm nm (by simp) rfl
      simp only [ufsOf, tableOf, FD2.prim]
      rw [fu_mem tbl fuel open_ reg _ _ _ _ i acc _ a b c (by rw [hn]; exact any_false_of_not_mem acc nm hnot)
        (lookupPtr_prim tbl p), hn]
      rw [ih htag' fuel (i + 1) _ reg hfu' (by
        simp only [sfOf2, List.map_cons] at hnd
        simpa [List.map_append, List.append_assoc] using hnd)]
      simp

/-! ## `FM`: the compiled table agrees with the specification's field list -/

theorem normKind_idem (k : NumKind) : Unf.normKind (Unf.normKind k) = Unf.normKind k := by cases k <;> rfl

theorem fieldOK_uPrim (tbl : Unf.TypeTable) (p : Prim) :
    SF.Unf.SV.FieldOK tbl (.lifted (.prim (pkOf p))) (uPrimTy p) :=
  SF.UnfProofs.StructVal.fieldOK_prim tbl (uPrimTy p) (pkOf p) (by rw [un_uPrimTy]; exact ofExact_uPrimTy p)
    (pkOf_ne_ifc p) (by
      intro nk h
      rw [un_uPrimTy] at h
      cases p <;> simp only [uPrimTy] at h <;> first | (cases h; done) | skip
      injection h with h
      rw [← h, normKind_idem])

theorem ufsOf_cons (f : Field) (fs : List Field) (d : FD2) (ds : List FD2) :
    ufsOf (f :: fs) (d :: ds) = (f.name, f.tag, uPrimTy d.prim) :: ufsOf fs ds := rfl

theorem fm_table (tbl : Unf.TypeTable) (ut : Unf.GoType) (n : String) : ∀ (fs : List Field) (ds : List FD2), Desc2 fs ds →
    ∀ (pre : List (String × String × Unf.GoType)), ut.un tbl = .struct n (pre ++ ufsOf fs ds) →
    SF.Unf.SV.FM tbl ut (tableOf ds pre.length) (sfOf2 ds pre.length) := by
  intro fs ds h
  induction h with
  | nil => intro pre _; exact .nil
  | @cons f d fs ds hf _ ih =>
    intro pre hu
    rw [ufsOf_cons] at hu
    have hu' : ut.un tbl = .struct n ((pre ++ [(f.name, f.tag, uPrimTy d.prim)]) ++ ufsOf fs ds) := by
      rw [hu]; simp
    have ih' := ih (pre ++ [(f.name, f.tag, uPrimTy d.prim)]) hu'
    simp only [List.length_append, List.length_singleton] at ih'
    have hat : SF.Unf.Str.TyAt tbl ut ([pre.length].map Unf.Step.field) (uPrimTy d.prim) :=
      .field ut n _ pre.length (f.name, f.tag, uPrimTy d.prim) [] _ hu (by simp) (.nil _)
    cases d with
    | drop p => exact ih'
    | mem nm p => exact .cons _ _ _ _ _ _ (fieldOK_uPrim tbl p) hat ih'
    | oe nm p => exact .cons _ _ _ _ _ _ (fieldOK_uPrim tbl p) hat ih'

/-! ## translation, zero value, layout -/

theorem trTypeF_prim (n : Nat) (p : Prim) : Unf.Tr.trTypeF (n + 1) (primTy p) = some (uPrimTy p) := by
  cases p <;> rfl

theorem descF2_typ {f : Field} {d : FD2} (h : DescF2 f d) : f.typ = primTy d.prim := by
  cases d <;> exact h.2

theorem tr_fields (n : Nat) : ∀ (fs : List Field) (ds : List FD2), Desc2 fs ds →
    fs.mapM (fun f => (Unf.Tr.trTypeF (n + 1) f.typ).map fun t' => (f.name, f.tag, t')) = some (ufsOf fs ds) := by
  intro fs ds h
  induction h with
  | nil => rfl
  | @cons f d fs ds hf _ ih =>
    rw [List.mapM_cons, ih, descF2_typ hf, trTypeF_prim]
    rfl

theorem trType_struct (fs : List Field) (ds : List FD2) (h : Desc2 fs ds) :
    Unf.Tr.trType (.struct fs) = some (.struct "" (ufsOf fs ds)) := by
  show Unf.Tr.trTypeF (199 + 1) _ = _
  rw [Unf.Tr.trTypeF]
  simp only [tr_fields 198 fs ds h, Option.map_some]

theorem trType_named (n : String) (m : Methods) (fs : List Field) (ds : List FD2) (h : Desc2 fs ds) :
    Unf.Tr.trType (.named n m (.struct fs)) = some (.struct n (ufsOf fs ds)) := by
  show Unf.Tr.trTypeF (199 + 1) _ = _
  rw [Unf.Tr.trTypeF]
  simp only [tr_fields 198 fs ds h, Option.map_some]

theorem zeroF_prim (tbl : Unf.TypeTable) (n : Nat) (p : Prim) : Unf.zeroF tbl (n + 1) (uPrimTy p) = zeroPrim p := by
  cases p <;> rfl

theorem zero_fields (tbl : Unf.TypeTable) : ∀ (fs : List Field) (ds : List FD2), Desc2 fs ds → ∀ fuel, fs.length + 2 ≤ fuel →
    Unf.zeroFieldsF tbl fuel (ufsOf fs ds) = zerosOf2 ds := by
  intro fs ds h
  induction h with
  | nil =>
    intro fuel hf
    obtain ⟨fuel, rfl⟩ : ∃ k, fuel = k + 1 := ⟨fuel - 1, by omega⟩
    simp [ufsOf, zerosOf2, Unf.zeroFieldsF]
  | @cons f d fs ds hf _ ih =>
    intro fuel hfu
    obtain ⟨fuel, rfl⟩ : ∃ k, fuel = k + 1 + 1 := ⟨fuel - 2, by simp at hfu; omega⟩
    rw [ufsOf_cons, Unf.zeroFieldsF, zeroF_prim, ih (fuel + 1) (by simp at hfu; omega)]
    rfl

theorem zero_struct (tbl : Unf.TypeTable) (n : String) (fs : List Field) (ds : List FD2) (h : Desc2 fs ds)
    (hl : fs.length ≤ 250) : Unf.zero tbl (.struct n (ufsOf fs ds)) = .struct (zerosOf2 ds) := by
  show Unf.zeroF tbl (255 + 1) _ = _
  rw [Unf.zeroF, zero_fields tbl fs ds h 255 (by omega)]

theorem flat_uPrim (tbl : Unf.TypeTable) (p : Prim) : SF.Unf.Str.Flat tbl (uPrimTy p) := by
  unfold SF.Unf.Str.Flat
  rw [un_uPrimTy]
  cases p <;> trivial

theorem hasTy_zeros (tbl : Unf.TypeTable) : ∀ (fs : List Field) (ds : List FD2), Desc2 fs ds →
    ∀ (i : Nat) (f : String × String × Unf.GoType) (x : Unf.GoVal), (ufsOf fs ds)[i]? = some f → (zerosOf2 ds)[i]? = some x →
      SF.Unf.Str.HasTy tbl f.2.2 x := by
  intro fs ds h
  induction h with
  | nil => intro i f x hf; simp [ufsOf] at hf
  | @cons f0 d fs ds _ _ ih =>
    intro i f x hf hx
    cases i with
    | zero =>
      simp only [ufsOf_cons, List.getElem?_cons_zero, Option.some.injEq] at hf
      subst hf
      exact .flat _ _ (flat_uPrim tbl d.prim)
    | succ i =>
      simp only [ufsOf_cons, List.getElem?_cons_succ] at hf
      have hx' : (zerosOf2 ds)[i]? = some x := by simpa [zerosOf2] using hx
      exact ih i f x hf hx'

theorem len_ufsOf : ∀ (fs : List Field) (ds : List FD2), Desc2 fs ds → (ufsOf fs ds).length = ds.length := by
  intro fs ds h
  induction h with
  | nil => rfl
  | cons _ _ ih => simp [ufsOf_cons, ih]

theorem shaped_zero (tbl : Unf.TypeTable) (n : String) (fs : List Field) (ds : List FD2) (h : Desc2 fs ds)
    (hl : fs.length ≤ 250) :
    SF.Unf.Str.HasTy tbl (.struct n (ufsOf fs ds)) (Unf.zero tbl (.struct n (ufsOf fs ds))) := by
  rw [zero_struct tbl n fs ds h hl]
  exact .struct _ n (ufsOf fs ds) _ rfl (by simp [zerosOf2, len_ufsOf fs ds h]) (hasTy_zeros tbl fs ds h)

/-! ## `lookupReflUnfolder` -/

theorem compile_unnamed (tbl : Unf.TypeTable) (fs : List Field) (ds : List FD2) (h : Desc2 fs ds)
    (htag : ∀ f ∈ fs, TrimAgree f.tag) (hl : fs.length ≤ 250) (hnd : ((sfOf2 ds 0).map (·.1)).Nodup) (reg : Unf.Reg) :
    Unf.lookupReflUnfolder tbl typeFuel [] reg (.struct "" (ufsOf fs ds)) = .ok (.struct (tableOf ds 0), reg) := by
  show Unf.lookupReflUnfolder tbl (255 + 1) [] reg _ = _
  rw [Unf.lookupReflUnfolder]
  have hn : (Unf.GoType.struct "" (ufsOf fs ds)).typeName? = none := rfl
  simp only [hn]
  show Unf.buildReflUnfolder tbl (254 + 1) [] reg _ = _
  rw [Unf.buildReflUnfolder]
  simp only []
  rw [fu_fields tbl [] fs ds h htag 254 0 [] reg (by omega) (by simpa using hnd)]
  rfl

theorem compile_named (tbl : Unf.TypeTable) (n : String) (hne : n.isEmpty = false) (fs : List Field) (ds : List FD2)
    (h : Desc2 fs ds) (htag : ∀ f ∈ fs, TrimAgree f.tag) (hl : fs.length ≤ 250)
    (hnd : ((sfOf2 ds 0).map (·.1)).Nodup) :
    Unf.lookupReflUnfolder tbl typeFuel [] [] (.struct n (ufsOf fs ds)) =
      .ok (.struct (tableOf ds 0), [(n, .struct (tableOf ds 0))]) := by
  show Unf.lookupReflUnfolder tbl (255 + 1) [] [] _ = _
  rw [Unf.lookupReflUnfolder]
  have hn : (Unf.GoType.struct n (ufsOf fs ds)).typeName? = some n := by simp [Unf.GoType.typeName?, hne]
  have hun : (Unf.GoType.struct n (ufsOf fs ds)).un tbl = .struct n (ufsOf fs ds) := rfl
  simp only [hn, hun, List.contains_nil, Bool.false_eq_true, if_false, List.lookup_nil]
  show (match Unf.buildReflUnfolder tbl (254 + 1) [n] [] _ with | .error e => _ | .ok (ru, reg') => _) = _
  rw [Unf.buildReflUnfolder]
  simp only []
  rw [fu_fields tbl [n] fs ds h htag 254 0 [] [] (by omega) (by simpa using hnd)]
  rfl

end SF.FuId
