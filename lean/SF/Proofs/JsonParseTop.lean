/-
  C03 (no panic, no hang, truncation) and C02 (chunk independence) for the JSON PARSER
  mirror SF/Json/Parse.lean — the property theorems.

  Proofs: SF/Proofs/JsonBasic.lean (scanning, numbers, unquote), JsonStep.lean (the invariant
  `Inv`, one step), JsonLoop.lean (the loops), JsonShape.lean (stack shape of reachable
  states: `WF`; truncation), JsonRun.lean (the two loops as one), JsonEqv.lean (the dead
  field `required`), JsonPeelTok.lean / JsonPeel.lean (peel lemma), JsonChunk.lean (chunk
  independence), JsonGrammar.lean / JsonTrunc.lean (truncation on a grammar of texts).

  (A) NO PANIC.  Not from ANY state: a parser left in nullState with `required = 5`, or in
      numberState with an empty token buffer, or with a literal state on its stack, indexes
      out of range (examples below).  The invariant `Inv` — the state stack holds return
      states only; inside a literal `required ≤ |literal|`; inside a number the token
      buffer is not empty — holds for the fresh parser, is preserved by EVERY step and
      EVERY `Write` (also by those that report an error, so it holds along any sequence of
      calls), and excludes `panic` for every byte string in every chunking.  `Parse`
      resets the state and therefore never panics from ANY parser value.
  (B) NO HANG.  Under the same invariant the fuel never runs out.  Explicit bound:
      `feedUntil` needs at most `2·|b| + 2` rounds, `feed` at most `2·|b| + 2` calls of it
      (every round consumes a byte or leaves dictState / arrState / numberState / a literal
      state for a state that consumes); `unquote` needs `|in| + 1` rounds.
  (C) TRUNCATION.  In every reachable state (`WF`: `Inv` + the stack is
      `r₁ … rₖ startState`, non-empty unless the parser is idle) `finalize` succeeds only if
      the parser is idle, or a TOP-LEVEL number is pending whose token converts (recorded
      reading: `12`, `1.` at the very end are complete).  Inside a string, a literal, a
      container (after `[`, `{`, a key, a colon, a value, a comma) and for a number inside a
      container the end of input is an error.  failedState is not reachable.
      INPUT-LEVEL form, on a grammar of JSON texts (SF/Proofs/JsonGrammar.lean, proof
      SF/Proofs/JsonTrunc.lean): every proper non-empty prefix of every grammatical text that
      is not a bare number is an error — for `Parse` and for every chunking.
  (D) CHUNK INDEPENDENCE.  `Write` per chunk + end of input gives the same verdict and the
      same events as `Parse` of the concatenation, for ANY chunking, also with a failing
      visitor.
-/
import SF.Proofs.JsonChunk
import SF.Proofs.JsonShape
import SF.Proofs.JsonTrunc
namespace SF.Json.ParseTop
open SF SF.Json SF.Json.Parse SF.Json.Float SF.Json.ParseP SF.Json.Grammar

/-! ## (A) no panic -/

/-- the invariant holds for the fresh parser (`NewParser`, with or without a failing visitor) -/
theorem inv_fresh : Inv {} := ParseP.inv_fresh
theorem inv_init (failAt : Option Nat) : Inv (init failAt) := ParseP.inv_init failAt

/-- … and is preserved by every `Write`, whether or not it reports an error -/
theorem inv_write (p : P) (b : Bytes) (h : Inv p) : Inv (write p b).1 := (write_spec p b h).1

/-- the inner loop never panics: ANY state within the invariant, ANY bytes, ANY fuel -/
theorem feedUntil_no_panic (f : Nat) (p : P) (b : Bytes) (h : Inv p) (herr : p.err ≠ some .panic) :
    (feedUntil f p b).err ≠ some .panic ∧ Inv (feedUntil f p b).p :=
  ⟨((feedUntil_spec f p b h).2.1 herr).1, (feedUntil_spec f p b h).1⟩

/-- `Parser.feed` never panics -/
theorem feed_no_panic (fuel : Nat) (p : P) (b : Bytes) (h : Inv p) (herr : p.err ≠ some .panic) :
    (feed fuel p b).2 ≠ some .panic ∧ Inv (feed fuel p b).1 :=
  ⟨((feed_spec fuel p b h).2.1 herr).1, (feed_spec fuel p b h).1⟩

/-- `Parser.Write` never panics; the new stored error is its verdict -/
theorem write_no_panic (p : P) (b : Bytes) (h : Inv p) (herr : p.err ≠ some .panic) :
    (write p b).2 ≠ some .panic ∧ (write p b).1.err ≠ some .panic := by
  obtain ⟨_, k2, k3, _⟩ := write_spec p b h
  exact ⟨k3 herr, by rw [k2]; exact k3 herr⟩

/-- ANY sequence of `Write` calls on ANY byte strings — going on after reported errors as
well — never panics -/
theorem writes_no_panic (cs : List Bytes) (p : P) (h : Inv p) (herr : p.err ≠ some .panic) :
    Inv (cs.foldl (fun q c => (write q c).1) p) ∧
    (cs.foldl (fun q c => (write q c).1) p).err ≠ some .panic ∧
    ∀ c, (write (cs.foldl (fun q c => (write q c).1) p) c).2 ≠ some .panic := by
  induction cs generalizing p with
  | nil => exact ⟨h, herr, fun c => (write_no_panic p c h herr).1⟩
  | cons c cs ih => exact ih (write p c).1 (inv_write p c h) (write_no_panic p c h herr).2

/-- the end-of-input check never panics (a pending number has a non-empty token) -/
theorem finalize_no_panic (p : P) (h : Inv p) : (finalize p).2 ≠ some .panic := (finalize_spec p h).1.1

/-- `Write*` + end of input (`ParseReader`) never panics, for ANY chunking -/
theorem writeChunks_no_panic (cs : List Bytes) (p : P) (h : Inv p) (herr : p.err ≠ some .panic) :
    (writeChunks p cs).2 ≠ some .panic := (writeChunks_spec cs p h).1 herr

/-- C03 (no-panic clause) for JSON: `Parse` / `ParseString` on ANY byte string never panics,
from ANY parser value (it resets the state, and from the reset state failedState — the only
place where the stored error is read — cannot be reached) -/
theorem parse_no_panic (p : P) (b : Bytes) : (parse p b).2 ≠ some .panic := (parse_safe p b).1

/-- the invariant is needed — outside it the Go code indexes out of range:
`kind[len(kind)-required:]` with `required = 5` inside `null`; `b[0]` of an empty number
token (Write, and end of input); a literal state popped from the stack with a stale
`required`; a stored panic replayed by failedState -/
example :
    (write { currentState := .nullState, required := 5 } [0x78]).2 = some .panic ∧
    (write { currentState := .numberState } [0x2c]).2 = some .panic ∧
    (finalize { currentState := .numberState }).2 = some .panic ∧
    (write { currentState := .arrState, states := [.nullState], required := 9 } [0x5d, 0x78]).2 = some .panic ∧
    (write { currentState := .failedState, err := some .panic } [0x78]).2 = some .panic := by
  decide +kernel

/-- non-vacuity: inputs of the kinds that used to be dangerous give plain errors or results
(`"\u12"`, `"\ud800"`, `tru`, a byte ≥ 0x80, `-`, `"\`), evaluated by the kernel -/
example :
    (parse {} [0x22, 0x5c, 0x75, 0x31, 0x32, 0x22]).2 = some .unquoteInvalidUnicode ∧
    (parse {} [0x22, 0x5c, 0x75, 0x64, 0x38, 0x30, 0x30, 0x22]).2 = none ∧
    (parse {} [0x74, 0x72, 0x75]).2 = some .incomplete ∧
    (parse {} [0x80]).2 = some .unknownChar ∧
    (parse {} [0x2d]).2 = some .expectedDigit ∧
    (parse {} [0x22, 0x5c]).2 = some .incomplete := by
  decide +kernel

/-- non-vacuity: a state in the middle of a document (after `{"a":[1,tr`) satisfies the invariant -/
example : (feedAll {} [0x7b, 0x22, 0x61, 0x22, 0x3a, 0x5b, 0x31, 0x2c, 0x74, 0x72]).1.currentState = .trueState ∧
    (feedAll {} [0x7b, 0x22, 0x61, 0x22, 0x3a, 0x5b, 0x31, 0x2c, 0x74, 0x72]).1.states =
      [.arrStateNext, .dictFieldStateEnd, .startState] ∧
    (feedAll {} [0x7b, 0x22, 0x61, 0x22, 0x3a, 0x5b, 0x31, 0x2c, 0x74, 0x72]).1.required = 2 := by
  decide +kernel

/-! ## (B) no hang -/

/-- the measure every step decreases: twice the input still to be read, plus one in the
states that may be left without consuming -/
theorem cost_le (p : P) (b : Bytes) : cost p b ≤ 2 * b.length + 1 := by
  have := weight_le_one p.currentState
  simp only [cost]; omega

/-- ONE STEP from a state within the invariant (failedState aside, which returns at once):
no fatal outcome, the invariant again, and unless an error is reported a smaller measure -/
theorem step_decreases (p : P) (b : Bytes) (hb : b ≠ []) (h : Inv p) (hcs : p.currentState ≠ .failedState)
    (he : (execStep p b).1.err = none) :
    Inv (execStep p b).1.p ∧ cost (execStep p b).1.p (execStep p b).1.rest < cost p b :=
  ⟨(execStep_ok p b hb h hcs).2.2.2.1, (execStep_ok p b hb h hcs).2.2.2.2 he⟩

/-- the inner loop, explicit linear bound: `2·|b| + 2` rounds always suffice -/
theorem feedUntil_linear (p : P) (h : Inv p) (herr : p.err ≠ some .outOfFuel) (b : Bytes) (f : Nat)
    (hf : 2 * b.length + 2 ≤ f) : (feedUntil f p b).err ≠ some .outOfFuel :=
  ((feedUntil_spec f p b h).2.2.1 herr (by have := cost_le p b; omega)).1

/-- the outer loop: `2·|b| + 2` rounds suffice (`feedAll` hands out `2·|b| + 4`), each with
the `fuelFor b = 3·|b| + 8` inner rounds the model hands out -/
theorem feed_linear (p : P) (h : Inv p) (herr : p.err ≠ some .outOfFuel) (b : Bytes) (fuel : Nat)
    (hf : 2 * b.length + 2 ≤ fuel) : (feed fuel p b).2 ≠ some .outOfFuel :=
  ((feed_spec fuel p b h).2.2.1 herr (by have := cost_le p b; omega)).1

/-- the loops of `unquote` end: its fuel (`|in| + 1` rounds, one byte at least per round)
never runs out, and no index is out of range -/
theorem unquote_terminates (inp : Bytes) : unquote inp ≠ .error .outOfFuel ∧ unquote inp ≠ .error .panic := by
  constructor
  · intro h; exact (unquote_safe inp _ h).2 rfl
  · intro h; exact (unquote_safe inp _ h).1 rfl

/-- `Write` terminates -/
theorem write_terminates (p : P) (b : Bytes) (h : Inv p) (herr : p.err ≠ some .outOfFuel) :
    (write p b).2 ≠ some .outOfFuel := (write_spec p b h).2.2.2 herr

/-- `Write*` + end of input terminates, for ANY chunking -/
theorem writeChunks_terminates_from (cs : List Bytes) (p : P) (h : Inv p) (herr : p.err ≠ some .outOfFuel) :
    (writeChunks p cs).2 ≠ some .outOfFuel := (writeChunks_spec cs p h).2 herr

theorem writeChunks_terminates (cs : List Bytes) : (writeChunks {} cs).2 ≠ some .outOfFuel :=
  writeChunks_terminates_from cs {} inv_fresh (by simp)

/-- C03 (no-hang clause) for JSON: `Parse` of ANY byte string terminates, from ANY parser value -/
theorem parse_terminates (p : P) (b : Bytes) : (parse p b).2 ≠ some .outOfFuel := (parse_safe p b).2

/-- the invariant is needed: with literal states stacked up and nothing required, the loop
pops without consuming and exhausts any fuel -/
example :
    (write { currentState := .nullState, required := 0, states := List.replicate 12 .nullState } [0x78]).2 =
      some .outOfFuel := by
  decide +kernel

/-- non-vacuity: the steps that consume nothing do occur (`[1 ]`: arrState → arrStateValue,
and the number is ended by the blank without consuming it), and the run ends -/
example : (parse {} [0x5b, 0x31, 0x20, 0x5d]).2 = none ∧
    events (parse {} [0x5b, 0x31, 0x20, 0x5d]).1 = [.arrStart (-1) BT.any, .num .i64 1, .arrEnd] := by
  decide +kernel

/-! ## (C) truncation -/

/-- every state reached from the fresh parser by ANY sequence of `Write` calls is
well-formed: within `Inv`, and with a stack of the form `r₁ … rₖ startState` unless idle -/
theorem reachable_wf (failAt : Option Nat) (cs : List Bytes) :
    ParseP.WF (cs.foldl (fun q c => (write q c).1) (init failAt)) :=
  writes_wf cs _ (wf_init failAt)

/-- failedState is not reachable -/
theorem failed_unreachable (failAt : Option Nat) (cs : List Bytes) :
    (cs.foldl (fun q c => (write q c).1) (init failAt)).currentState ≠ .failedState :=
  (reachable_wf failAt cs).not_failed

/-- C03 (truncation clause) for JSON, state form: at the end of the input a well-formed
state is accepted ONLY IF the parser is idle (empty stack, startState) or a top-level
number is pending and its token converts -/
theorem finalize_none_idle (p : P) (h : ParseP.WF p) (hf : (finalize p).2 = none) :
    Idle p ∨ (TopNumber p ∧ (reportNumber p p.literalBuffer p.isDouble).2 = none) :=
  finalize_none p h hf

/-- … so in the middle of a string, a literal or a container — in every state but
startState and numberState — the end of input is the error "incomplete" -/
theorem truncated_is_incomplete (p : P) (h : ParseP.WF p) (hcs : p.currentState ≠ .startState)
    (hn : p.currentState ≠ .numberState) : (finalize p).2 = some .incomplete :=
  finalize_incomplete p h hcs hn

/-- … and so is a number inside a container -/
theorem truncated_nested_number (p : P) (h : ParseP.WF p) (hn : p.currentState = .numberState)
    (hs : p.states ≠ [.startState]) : (finalize p).2 ≠ none :=
  finalize_nested_number p h hn hs

/-- idle is left with the first byte of a value and regained only with its last: in a
well-formed state, startState means an empty stack and any other state a non-empty one -/
theorem idle_iff (p : P) (h : ParseP.WF p) : Idle p ↔ p.states = [] := by
  constructor
  · exact fun hi => hi.1
  · intro hs
    rcases h.shape with hi | ⟨h1, _⟩
    · exact hi
    · rw [hs] at h1; simp [stackWF] at h1

theorem writeChunks_none_finalize (cs : List Bytes) (p : P) (h : (writeChunks p cs).2 = none) :
    (finalize (cs.foldl (fun q c => (write q c).1) p)).2 = none := by
  induction cs generalizing p with
  | nil => exact h
  | cons c cs ih =>
    simp only [writeChunks] at h
    simp only [List.foldl_cons]
    cases hw : write p c with
    | mk q e =>
      rw [hw] at h
      cases e with
      | some e => simp at h
      | none => exact ih q h

/-- whatever `Write*` + end of input accepts has left the parser idle, or with a number
pending at the top level — for ANY chunking -/
theorem writeChunks_none_idle (failAt : Option Nat) (cs : List Bytes)
    (h : (writeChunks (init failAt) cs).2 = none) :
    Idle (cs.foldl (fun q c => (write q c).1) (init failAt)) ∨
    TopNumber (cs.foldl (fun q c => (write q c).1) (init failAt)) := by
  rcases finalize_none _ (reachable_wf failAt cs) (writeChunks_none_finalize cs _ h) with hi | ⟨ht, _⟩
  · exact Or.inl hi
  · exact Or.inr ht

/-- … and the same for `Parse` -/
theorem parse_none_idle (b : Bytes) (h : (parse {} b).2 = none) :
    Idle (feedAll {} b).1 ∨ TopNumber (feedAll {} b).1 := by
  have hwf : ParseP.WF (feedAll {} b).1 := feed_wf _ {} b wf_fresh
  have hf : (finalize (feedAll {} b).1).2 = none := by
    have e : parse {} b = parseFrom {} b := parse_eq_parseFrom {} b
    rw [e] at h
    unfold parseFrom parseTail at h
    cases hx : feedAll {} b with
    | mk q e =>
      rw [hx] at h
      cases e with
      | some e => simp at h
      | none => simpa using h
  rcases finalize_none _ hwf hf with hi | ⟨ht, _⟩
  · exact Or.inl hi
  · exact Or.inr ht

/-- non-vacuity: truncated texts (inside a string, a literal, after `[`, after a comma, after
a colon, after a key, a number inside an array) are errors; a number at the very end of the
input (`12`, `1.`) is complete — recorded reading —; evaluated by the kernel -/
example :
    (parse {} [0x22, 0x61]).2 = some .incomplete ∧ (parse {} [0x6e, 0x75]).2 = some .incomplete ∧
    (parse {} [0x5b]).2 = some .incomplete ∧ (parse {} [0x5b, 0x31, 0x2c]).2 = some .incomplete ∧
    (parse {} [0x7b, 0x22, 0x61, 0x22, 0x3a]).2 = some .incomplete ∧
    (parse {} [0x7b, 0x22, 0x61, 0x22]).2 = some .incomplete ∧
    (parse {} [0x5b, 0x31]).2 = some .incomplete ∧
    (parse {} [0x31, 0x32]).2 = none ∧ (parse {} [0x31, 0x2e]).2 = none ∧
    (writeChunks {} [[0x5b, 0x31], [0x2c], [0x32]]).2 = some .incomplete := by
  decide +kernel

/-- non-vacuity of `WF` beyond the fresh state: after `{"a":[1,"x` the parser is inside a
string, three values deep -/
example : (feedAll {} [0x7b, 0x22, 0x61, 0x22, 0x3a, 0x5b, 0x31, 0x2c, 0x22, 0x78]).1.currentState = .stringState ∧
    (feedAll {} [0x7b, 0x22, 0x61, 0x22, 0x3a, 0x5b, 0x31, 0x2c, 0x22, 0x78]).1.states =
      [.arrStateNext, .dictFieldStateEnd, .startState] := by
  decide +kernel

/-! ### truncation, input-level form: on a grammar of JSON texts (SF/Proofs/JsonGrammar.lean) -/

/-- C03 (truncation clause) for JSON: EVERY proper non-empty prefix of EVERY grammatical JSON
text that is not a bare number — literals, strings, arrays, objects, nested to any depth,
with any white space; optionally after leading white space — is reported as an error by
`Parse` / `ParseString`.  (`J.ok` only asks that white space is white space, that string
bodies contain no unescaped quote and that number tokens contain no stop character; whether
escapes and digits are valid does not matter: an invalid one is an error by itself.) -/
theorem json_truncated_is_error (v : J) (hok : v.ok = true) (hnn : v.isNum = false) (ws z : Bytes)
    (hws : allWs ws = true) (hz : z <+: v.wire) (hne : z ≠ []) (hne2 : z ≠ v.wire) :
    (parse {} (ws ++ z)).2 ≠ none :=
  ParseP.truncated_is_error v hok hnn ws z hws hz hne hne2

/-- … and by `Write*` + end of input (`ParseReader`), however the prefix is chunked -/
theorem json_truncated_is_error_chunks (v : J) (hok : v.ok = true) (hnn : v.isNum = false) (ws z : Bytes)
    (hws : allWs ws = true) (hz : z <+: v.wire) (hne : z ≠ []) (hne2 : z ≠ v.wire)
    (cs : List Bytes) (hcs : cs.flatten = ws ++ z) : (writeChunks {} cs).2 ≠ none :=
  ParseP.truncated_is_error_chunks v hok hnn ws z hws hz hne hne2 cs hcs

/-- the parser's idea of where a value ends is the grammar's: over the whole text of a value
it reports an error or is idle again -/
theorem json_complete_is_idle (v : J) (hok : v.ok = true) (hnn : v.isNum = false) :
    (feedAll {} v.wire).2 ≠ none ∨ Idle (feedAll {} v.wire).1 := by
  rw [feedAll_run {} v.wire ParseP.inv_fresh]
  exact complete_is_idle v hok hnn

/-- the exception is needed and is the recorded reading: a bare number cut short is accepted
(`12` of `123`) -/
example : (J.num [0x31, 0x32, 0x33]).ok = true ∧ [0x31, 0x32] <+: (J.num [0x31, 0x32, 0x33]).wire ∧
    (parse {} [0x31, 0x32]).2 = none := by decide +kernel

/-- non-vacuity: the sample text `{"a": [1,"x"],⏎"b":null }` is grammatical, is accepted as a
whole, and a cut inside its nested string meets the hypotheses; all its 24 proper non-empty
prefixes are errors (here by evaluation) -/
example : sample.ok = true ∧ sample.isNum = false ∧ (parse {} sample.wire).2 = none ∧
    sample.wire.take 11 <+: sample.wire ∧ sample.wire.take 11 ≠ [] ∧ sample.wire.take 11 ≠ sample.wire ∧
    (List.range 24).all (fun k => (parse {} (sample.wire.take (k + 1))).2 != none) = true := by
  decide +kernel

/-! ## (D) chunk independence (C02 for JSON) -/

/-- `Write` per chunk + end of input (`ParseReader`), for ANY chunking, gives the verdict and
the events of `Parse` of the concatenation; also with a visitor failing from its k-th event -/
theorem json_writeChunks_eq_parse (failAt : Option Nat) (cs : List Bytes) :
    (writeChunks (init failAt) cs).2 = (parse (init failAt) cs.flatten).2 ∧
    events (writeChunks (init failAt) cs).1 = events (parse (init failAt) cs.flatten).1 := by
  obtain ⟨k1, k2, _⟩ := writeChunks_eq_parse_init failAt cs
  exact ⟨k1, by simp only [events]; rw [k2]⟩

/-- C02 for JSON: any two chunkings of the same bytes — same verdict, same events -/
theorem json_chunk_independent (failAt : Option Nat) (cs1 cs2 : List Bytes) (h : cs1.flatten = cs2.flatten) :
    (writeChunks (init failAt) cs1).2 = (writeChunks (init failAt) cs2).2 ∧
    events (writeChunks (init failAt) cs1).1 = events (writeChunks (init failAt) cs2).1 :=
  chunk_independent failAt cs1 cs2 h

/-- the core of it: one run of the loop over `a ++ b` agrees with a run over `a` followed by
a run over `b` — in verdict and events, and without error in the whole state up to the dead
field `required` — from ANY state within the invariant (`runA` is `feedAll`: `feedAll_run`) -/
theorem json_run_append (p : P) (a b : Bytes) (h : Inv p) : RE (seq (runA p a) b) (runA p (a ++ b)) :=
  run_append p a b h

/-- non-vacuity: a document cut inside a key, a literal, a number, an escape and a surrogate
pair (`{"ab":[true,-1.5e3,"😀"]}`), against the unchunked parse -/
example :
    (writeChunks {} [[0x7b, 0x22, 0x61], [0x62, 0x22, 0x3a, 0x5b, 0x74, 0x72], [0x75, 0x65, 0x2c, 0x2d, 0x31],
        [0x2e, 0x35, 0x65, 0x33, 0x2c, 0x22, 0x5c], [0x75, 0x64, 0x38, 0x33, 0x64, 0x5c, 0x75, 0x64],
        [0x65, 0x30, 0x30, 0x22, 0x5d], [0x7d]]).2 = none ∧
    (writeChunks {} [[0x7b, 0x22, 0x61], [0x62, 0x22, 0x3a, 0x5b, 0x74, 0x72], [0x75, 0x65, 0x2c, 0x2d, 0x31],
        [0x2e, 0x35, 0x65, 0x33, 0x2c, 0x22, 0x5c], [0x75, 0x64, 0x38, 0x33, 0x64, 0x5c, 0x75, 0x64],
        [0x65, 0x30, 0x30, 0x22, 0x5d], [0x7d]]).1.nevs = 8 := by
  decide +kernel

end SF.Json.ParseTop
