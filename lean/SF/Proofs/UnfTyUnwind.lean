/-
  Typed targets, part 19: `reportChildDone` — after a frame has finished, the frames below are
  told, as long as the unfolder stack keeps shrinking.
-/
import SF.Proofs.UnfTyEnd
namespace SF.Unf
open SF

variable {D : Nat} {base : S6} {fs : List Frame} {c : Ctx}

/-- what `OnArrayFinished` (`true`) / `OnObjectFinished` reports with -/
def rep (isArr : Bool) : M Unit := if isArr then onChildArrayDone else onChildObjectDone

/-- the frame lists a finished frame can leave behind -/
def Popped (isArr : Bool) : List Frame → Prop
  | [] => True
  | .cellx _ :: _ => True
  | .rsl _ _ _ _ :: _ => True
  | .sub a _ _ _ :: _ => a = isArr
  | _ => False

theorem attach_popped {p : Path} {ρ : Sh} {fs : List Frame} (isArr : Bool) (h : Attach p ρ none fs) :
    Popped isArr fs := by
  cases fs with
  | nil => trivial
  | cons G fs => cases G <;> first | trivial | exact h.elim | (simp only [Attach] at h; exact absurd h.1 (by simp))

theorem attach_popped_sub {p : Path} {ρ : Sh} {fs : List Frame} (a : Bool) (h : Attach p ρ (some a) fs) :
    Popped a fs := by
  cases fs with
  | nil => trivial
  | cons G fs =>
    cases G <;> first | trivial | exact h.elim | (simp only [Attach, Option.some.injEq] at h; exact h.1.symm)

theorem rep_rsl (isArr : Bool) (c : Ctx) (e : GoType) (ru : RU) (hcur : c.unfolder.current = .reflSlice e ru) :
    rep isArr c = .ok () c := by
  cases isArr <;> simp [rep, onChildArrayDone, onChildObjectDone, bind_def, currentU, hcur, pure_def]

theorem rep_rmE (isArr : Bool) (c : Ctx) (e : GoType) (ru : RU) (hcur : c.unfolder.current = .reflMapOnElem e ru) :
    rep isArr c = reflMapOnElemProcess e ru c := by
  cases isArr <;> simp [rep, onChildArrayDone, onChildObjectDone, bind_def, currentU, hcur]

theorem rep_rp (isArr : Bool) (c : Ctx) (e : GoType) (ru : RU) (hcur : c.unfolder.current = .reflPtr e ru) :
    rep isArr c = reflPtrProcess e c := by
  cases isArr <;> simp [rep, onChildArrayDone, onChildObjectDone, bind_def, currentU, hcur]

theorem rep_sink_arr (c : Ctx) (hcur : isSink c.unfolder.current) :
    rep true c = (unfoldIfcFinishSubArray >>= fun v => pukDeliver c.unfolder.current (.ifc v)) c := by
  rcases hcur with h | h | h <;> simp [rep, onChildArrayDone, bind_def, currentU, h]

theorem rep_sink_obj (c : Ctx) (hcur : isSink c.unfolder.current) :
    rep false c = (unfoldIfcFinishSubMap >>= fun v => pukDeliver c.unfolder.current (.ifc v)) c := by
  rcases hcur with h | h | h <;> simp [rep, onChildObjectDone, bind_def, currentU, h]

theorem Inv.uEq (h : Inv D base fs c) : c.unfolder = (stacksOf base fs).u := (s6_eq _ _ h.stacks).1

/-- what one report does -/
def ReportOut (D : Nat) (base : S6) (isArr : Bool) (fs : List Frame) (c : Ctx) (r : R Unit) : Prop :=
  ∃ c1 fs1, r = .ok () c1 ∧ Inv D base fs1 c1 ∧ 1 ≤ c.unfolder.stack.length ∧
    ((c1.unfolder.stack.length = c.unfolder.stack.length ∧ Rest fs1) ∨
     (c.unfolder.stack.length = c1.unfolder.stack.length + 1 ∧ Popped isArr fs1 ∧ fs1.length < fs.length))

/-- delivering the finished sub-container to the `interface{}` frame `S` -/
theorem deliver_sink (isArr : Bool) (S : Frame) (fs' : List Frame) (c3 : Ctx) (v : GoVal) (hS : S.isSinkF)
    (h : Inv D base (S :: fs') c3) :
    ∃ c1 fs1, pukDeliver c3.unfolder.current v c3 = .ok () c1 ∧ Inv D base fs1 c1 ∧
      1 ≤ c3.unfolder.stack.length ∧
      ((c1.unfolder.stack.length = c3.unfolder.stack.length ∧ Rest fs1) ∨
       (c3.unfolder.stack.length = c1.unfolder.stack.length + 1 ∧ Popped isArr fs1 ∧ fs1.length < (S :: fs').length)) := by
  have hu := h.uEq
  cases S with
  | prim k p =>
    cases k <;> try exact hS.elim
    simp only [stacksOf, Frame.push] at hu
    obtain ⟨c1, h1, h2, h3⟩ := deliver_prim .ifc p v h
    refine ⟨c1, fs', by rw [hu]; exact h1, h2, by rw [hu]; simp [Stk.push], Or.inr ⟨h3, ?_, by simp⟩⟩
    exact attach_popped isArr h.wfs.1
  | arr k p i =>
    cases k <;> try exact hS.elim
    simp only [stacksOf, Frame.push] at hu
    obtain ⟨c1, h1, h2, h3⟩ := deliver_arr .ifc p i v h
    exact ⟨c1, _, by rw [hu]; exact h1, h2, by rw [hu]; simp [Stk.push], Or.inl ⟨h3, ⟨trivial, fun h => h.elim⟩⟩⟩
  | mapV k p key =>
    cases k <;> try exact hS.elim
    simp only [stacksOf, Frame.push] at hu
    obtain ⟨c1, h1, h2, h3⟩ := deliver_mapV .ifc p key v h
    exact ⟨c1, _, by rw [hu]; exact h1, h2, by rw [hu]; simp [Stk.push], Or.inl ⟨h3, ⟨trivial, fun h => h.elim⟩⟩⟩
  | _ => exact hS.elim

/-- ONE REPORT to the frames a finished frame leaves behind -/
theorem report_step (isArr : Bool) (G : Frame) (fs' : List Frame) (h : Inv D base (G :: fs') c)
    (hP : Popped isArr (G :: fs')) : ReportOut D base isArr (G :: fs') c (rep isArr c) := by
  cases G with
  | rsl e ru p i =>
    have hu := h.uEq
    simp only [stacksOf, Frame.push] at hu
    refine ⟨c, _, rep_rsl isArr c e ru (by rw [hu]; rfl), h, by rw [hu]; simp [Stk.push], Or.inl ⟨rfl, ⟨trivial, fun h => h.elim⟩⟩⟩
  | cellx C =>
    cases fs' with
    | nil => exact h.wfs.1.2.2.elim
    | cons G2 fs2 =>
      have hu := h.uEq
      cases G2 with
      | rmE e ru p key =>
        simp only [stacksOf, Frame.push] at hu
        obtain ⟨c1, h1, h2⟩ := process_rmE C e ru p key h
        have hu1 := h2.uEq
        simp only [stacksOf, Frame.push] at hu1
        refine ⟨c1, _, by rw [rep_rmE isArr c e ru (by rw [hu]; rfl)]; exact h1, h2, by rw [hu]; simp [Stk.push],
          Or.inl ⟨by rw [hu, hu1]; simp [Stk.push], ⟨trivial, fun h => h.elim⟩⟩⟩
      | rp e ru p =>
        simp only [stacksOf, Frame.push] at hu
        obtain ⟨c1, h1, h2, h3⟩ := process_rp C e ru p h
        refine ⟨c1, _, by rw [rep_rp isArr c e ru (by rw [hu]; rfl)]; exact h1, h2, by rw [hu]; simp [Stk.push],
          Or.inr ⟨h3, attach_popped isArr h.wfs.2.1.1, by simp only [List.length_cons]; omega⟩⟩
      | _ => exact h.wfs.1.2.2.elim
  | sub a bt slot k =>
    have ha : a = isArr := hP
    subst ha
    cases fs' with
    | nil => exact h.wfs.1.2.2.2.elim
    | cons S fs2 =>
      have hS : S.isSinkF := h.wfs.1.2.2.2
      cases a with
      | true =>
        obtain ⟨v, c3, hfin, hinv3, hu3⟩ := finishSubArray bt slot k S h
        have hsink : isSink c.unfolder.current := by rw [← hu3]; exact hS.cur hinv3
        obtain ⟨c1, fs1, hd, hinv1, hlen, hcase⟩ := deliver_sink true S fs2 c3 (.ifc v) hS hinv3
        rw [hu3] at hd hlen hcase
        refine ⟨c1, fs1, ?_, hinv1, hlen, ?_⟩
        · rw [rep_sink_arr c hsink, bind_ok _ _ c c3 _ hfin]; exact hd
        · rcases hcase with hc | ⟨h1, h2, h3⟩
          · exact Or.inl hc
          · exact Or.inr ⟨h1, h2, by simp at h3 ⊢; omega⟩
      | false =>
        obtain ⟨v, c3, hfin, hinv3, hu3⟩ := finishSubMap bt slot k S h
        have hsink : isSink c.unfolder.current := by rw [← hu3]; exact hS.cur hinv3
        obtain ⟨c1, fs1, hd, hinv1, hlen, hcase⟩ := deliver_sink false S fs2 c3 (.ifc v) hS hinv3
        rw [hu3] at hd hlen hcase
        refine ⟨c1, fs1, ?_, hinv1, hlen, ?_⟩
        · rw [rep_sink_obj c hsink, bind_ok _ _ c c3 _ hfin]; exact hd
        · rcases hcase with hc | ⟨h1, h2, h3⟩
          · exact Or.inl hc
          · exact Or.inr ⟨h1, h2, by simp at h3 ⊢; omega⟩
  | _ => exact hP.elim

theorem report_stop' (report : M Unit) (fuel : Nat) (lBefore : Nat) (c : Ctx)
    (h : c.unfolder.stack.length + 1 = lBefore ∨ c.unfolder.stack = []) :
    reportChildDone report (fuel + 1) lBefore c = .ok () c := by
  rw [reportChildDone]
  simp only [bind_def, getCtx]
  rcases h with h | h
  · have : lBefore ≤ c.unfolder.stack.length + 1 := by omega
    simp [this, pure_def]
  · simp [h, pure_def]

/-- the outcome of an end event: refused, or accepted with the invariant kept -/
def EndOut (D : Nat) (base : S6) (r : R Unit) : Prop :=
  (∃ e c', r = .err e c') ∨ (∃ c' fs', r = .ok () c' ∧ Inv D base fs' c' ∧ Rest fs')

/-- `reportChildDone` after a frame has finished: every frame that finishes in turn tells the next
one; no panic, no fuel exhaustion -/
theorem unwind (isArr : Bool) (hbase : base.u = Stk.init .noTarget) :
    ∀ (m : Nat) (fs : List Frame) (c : Ctx) (fuel lBefore : Nat), fs.length ≤ m → Inv D base fs c →
      Popped isArr fs → lBefore = c.unfolder.stack.length + 2 → lBefore ≤ fuel →
      EndOut D base (reportChildDone (rep isArr) fuel lBefore c) := by
  intro m
  induction m with
  | zero =>
    intro fs c fuel lBefore hm h _ hl hf
    have : fs = [] := List.eq_nil_of_length_eq_zero (by omega)
    subst this
    have hu := h.uEq
    simp only [stacksOf] at hu
    obtain ⟨f, rfl⟩ : ∃ f, fuel = f + 1 := ⟨fuel - 1, by omega⟩
    refine Or.inr ⟨c, [], report_stop' _ f lBefore c (Or.inr ?_), h, trivial⟩
    rw [hu, hbase]; rfl
  | succ m ih =>
    intro fs c fuel lBefore hm h hP hl hf
    cases fs with
    | nil =>
      have hu := h.uEq
      simp only [stacksOf] at hu
      obtain ⟨f, rfl⟩ : ∃ f, fuel = f + 1 := ⟨fuel - 1, by omega⟩
      refine Or.inr ⟨c, [], report_stop' _ f lBefore c (Or.inr ?_), h, trivial⟩
      rw [hu, hbase]; rfl
    | cons G fs' =>
      obtain ⟨c1, fs1, hrep, hinv1, hlen, hcase⟩ := report_step isArr G fs' h hP
      obtain ⟨f, rfl⟩ : ∃ f, fuel = f + 1 := ⟨fuel - 1, by omega⟩
      have hstep : reportChildDone (rep isArr) (f + 1) lBefore c =
          reportChildDone (rep isArr) f (c.unfolder.stack.length + 1) c1 := by
        rw [reportChildDone]
        simp only [bind_def, getCtx]
        have e1 : ¬ (c.unfolder.stack.length + 1 ≤ 1) := by omega
        have e2 : ¬ (lBefore ≤ c.unfolder.stack.length + 1) := by omega
        simp only [e1, e2, decide_false, Bool.or_self, Bool.false_eq_true, if_false]
        rw [bind_def, hrep]
      rw [hstep]
      rcases hcase with ⟨hsame, hrest⟩ | ⟨hshr, hP1, hlt⟩
      · obtain ⟨f', rfl⟩ : ∃ f', f = f' + 1 := ⟨f - 1, by omega⟩
        exact Or.inr ⟨c1, fs1, report_stop' _ f' _ c1 (Or.inl (by omega)), hinv1, hrest⟩
      · exact ih fs1 c1 f _ (by simp only [List.length_cons] at hm hlt; omega) hinv1 hP1 (by omega) (by omega)

end SF.Unf
